"""Shared machinery of the EBB3-layer checks (C04, C05; reusable by C06/C15/C16).

* `Player` / `FakePort`: a scripted serial port (DESIGN 5d).  Read events may be *symbolic*
  (`good`, `err`, `nameerr`, `wrong`): they are rendered when consumed, relative to the request that is
  pending at that moment, so "the well-formed reply to whatever was asked" needs no knowledge of the
  call sequence in advance.  Everything that happened is logged concretely, so the Lean model is run
  afterwards on the *concrete* script (consumed outcomes + rendered unconsumed tail).
* `run_history`: a list of calls on a real `EBBMotionWrap` object with the fake port installed
  (attributes set directly; `serial.Serial`, `comports`, `find_named` stubbed through module attributes of
  `plotink.ebb3_serial` for `connect` / `find_first` only).
* `model_history`: the same history through the Lean driver (`ebb3 run ...`).
* `compare`: exact comparison per call.
"""
import inspect
from .common import enc_str, dec_str

RETRY_STATEMENT = 25          # the number in the property statement (C05)
FAILURE_VALUES = (False, None, (None, None))


def is_failure(v):
    """one of the documented failure values False / None / (None, None)  (identity: 0 is not False)"""
    return v is False or v is None or (isinstance(v, tuple) and len(v) == 2 and v[0] is None and v[1] is None)



# ----------------------------------------------------------------------------------------------
# request names / well-formed replies (written from the property statement and the EBB command reference;
# independent of the Lean model)
# ----------------------------------------------------------------------------------------------
WS = '\t\n\x0b\x0c\r\x1c\x1d\x1e\x1f '


def req_name(req):
    """one- or two-letter name of a trimmed request (three syntactic cases of the statement)"""
    if len(req) == 1:
        return req
    if len(req) >= 2 and req[1] == ',':
        return req[0]
    return req[:2]


QE_CODES = (0, 1, 2, 4, 8, 16)


def good_reply(req, pay):
    """well-formed reply line (without terminator) to the trimmed request `req` with payload `pay` (a dict)"""
    name = req_name(req) if req else 'OK'
    if name == 'QS':
        return f"QS,{pay['i']},{pay['j']}"
    if name == 'QC':
        return f"QC,{abs(pay['i']) % 10000:04d},{abs(pay['j']) % 10000:04d}"
    if name == 'QE':
        return f"QE,{QE_CODES[pay['m'] % 6]},{QE_CODES[pay['n'] % 6]}"
    if name == 'PI':
        return f"PI,{pay['b'] % 256}"
    if name == 'QL':
        return f"QL,{pay['v'] % 256}"
    if name == 'QG':
        return f"QG,{pay['h'] % 256:02X}"
    if name == 'QT':
        return f"QT,{pay['nm']}"
    if name in ('v', 'V'):
        return f"EBBv13_and_above EB Firmware Version {pay.get('ver', '3.0.2')}"
    return name + pay.get('tail', '')


def rand_payload(rng):
    big = rng.choice([0, 1, -1, 7, 255, 256, 1000, -2147483648, 2147483647, rng.randint(-10 ** 6, 10 ** 6)])
    return {'i': big, 'j': rng.choice([0, 1, -1, 249, 250, 251, 306, rng.randint(-5000, 5000)]),
            'm': rng.randrange(6), 'n': rng.randrange(6), 'b': rng.choice([0, 1, 2, 255, rng.randrange(256)]),
            'v': rng.choice([0, 1, 127, 128, 255, rng.randrange(256)]), 'h': rng.randrange(256),
            'nm': rng.choice(['', 'Bob', ' Bob ', 'East Wall', 'x', '  ', 'A,B', 'QT']),
            'tail': rng.choice(['', '', ',0', ' ok']), 'ver': rng.choice(['3.0.2', '3.0.2', '3.1.0', '2.8.1', '10.0.0']),
            'eol': rng.choice(['\r\n', '\r\n', '\n', ' \r\n', '']), 'lead': rng.choice(['', '', '', ' '])}


DEFAULT_PAY = {'i': 100, 'j': -200, 'm': 5, 'n': 5, 'b': 1, 'v': 77, 'h': 0x3E, 'nm': 'Bob', 'tail': '', 'ver': '3.0.2',
               'eol': '\r\n', 'lead': ''}


# ----------------------------------------------------------------------------------------------
# the "serial I/O exceptions" of the statement: every class a pyserial port can raise from write()/readline().
# The model has one outcome for all of them (raiseSerial); the implementation must contain every class.
# ----------------------------------------------------------------------------------------------
EXC_KEYS = ('serial', 'notopen', 'oserror', 'ioerror')
WRITE_CHARS = {'x': 'serial', 'p': 'notopen', 'e': 'oserror', 'i': 'ioerror'}      # 'o' = the write succeeds
WRITE_CHAR_OF = {v: k for k, v in WRITE_CHARS.items()}


def make_exc(key, what):
    import errno
    import serial as real_serial
    if key == 'notopen':
        return real_serial.serialutil.PortNotOpenError()
    if key == 'oserror':
        return OSError(errno.EIO, 'Input/output error (' + what + ')')
    if key == 'ioerror':
        return IOError(errno.ENXIO, 'Device not configured (' + what + ')')
    return real_serial.SerialException('fake ' + what + ' failure')


class Raised:
    """concrete outcome of a read that raised; `key` names the exception class"""
    __slots__ = ('key',)

    def __init__(self, key='serial'):
        self.key = key

    def __repr__(self):
        return f'<raise {self.key}>'

    def __eq__(self, other):
        return isinstance(other, Raised) and other.key == self.key

    def __hash__(self):
        return hash(('Raised', self.key))


def is_raise(o):
    return not isinstance(o, str)


def render_event(ev, pending):
    """concrete outcome of a read event given the pending (last written, trimmed) request:
    a str (the raw line) or 'X' (raise)"""
    kind = ev[0]
    if kind == 'raise':
        return Raised(ev[1] if len(ev) > 1 else 'serial')
    if kind == 'line':
        return ev[1]
    if kind == 'empty':
        return ''
    pay = ev[1] if len(ev) > 1 and isinstance(ev[1], dict) else DEFAULT_PAY
    name = req_name(pending) if pending else 'OK'
    if kind == 'good':
        return pay.get('lead', '') + good_reply(pending, pay) + pay.get('eol', '\r\n')
    if kind == 'err':           # device error report (does not begin with the name)
        lead = '!' if not name.startswith('!') else '?'
        return f"{lead}8 Err: bad {pay['i']}" + pay.get('eol', '\r\n')
    if kind == 'nameerr':       # begins with the name but carries Err:
        return f"{name},Err: {pay['j']}" + pay.get('eol', '\r\n')
    if kind == 'wrong1':        # wrong name that shares the FIRST letter with a two-character name (TD / TR,0 for T3)
        if len(name) == 2:
            second = next(c for c in 'DR3M' if c != name[1])
            return name[0] + second + (',0' if pay['m'] % 2 else '') + pay.get('eol', '\r\n')
        kind = 'wrong'
    if kind == 'wrong':         # well-formed line that answers some other request
        cands = ['ZZ,1', 'QS,5,6', 'OK', 'QG,3E', 'Q', 'XM', 'QC,0300,0301', 'QL,9']
        k = pay['m'] % len(cands)
        for cand in cands[k:] + cands[:k]:
            if not cand.startswith(name):
                return cand + pay.get('eol', '\r\n')
        return '#' + pay.get('eol', '\r\n')
    raise ValueError(kind)


class Player:
    """the device script shared by every port object opened during one history"""

    def __init__(self, reads, writes, closes=(), resets=()):
        self.reads = list(reads)          # symbolic read events, consumed left to right
        self.writes = list(writes)        # 'o' / 'x'
        self.closes = list(closes)        # outcomes of port.close(): 'o' or a fault char of WRITE_CHARS; exhausted = 'o'
        self.resets = list(resets)        # the same for port.reset_input_buffer()
        self.pending = ''                 # last request handed to write (trimmed of the final CR)
        self.written = []                 # every text handed to write (str), including raised ones
        self.read_log = []                # concrete outcomes of reads so far: str or Raised
        self.obj = None                   # the object under test (to see err / port at the moment of each write)
        self.in_connect = False           # connect()'s handshake only contains SerialException (C15's domain)
        self.ever_err = None              # first non-None message ever assigned to obj.err (survives erasure)
        self.watch = False                # log assignments to obj.err (after the harness has set up the state)
        self.side = []                    # observations of activity on *other* instances during the history
        self.nreads = 0
        self.nwrites = 0
        self.closed = 0
        self.events = []                  # ('w', text, ok) / ('r', outcome) in order, for the oracle
        self.writes_done = ()             # write outcomes consumed so far

    def concrete_script(self):
        """(reads, writes) as concrete outcome lists: what was consumed, then the rendered rest"""
        rest = [render_event(e, self.pending) for e in self.reads]
        return list(self.read_log) + rest, list(self.writes_done) + list(self.writes)


class FakePort:
    def __init__(self, player, exc):
        self.player = player
        self.exc = exc

    def write(self, data):
        p = self.player
        text = data.decode('ascii') if isinstance(data, (bytes, bytearray)) else str(data)
        p.written.append(text)
        p.nwrites += 1
        p.pending = text[:-1] if text.endswith('\r') else text
        o = p.writes.pop(0) if p.writes else 'o'
        if o != 'o' and p.in_connect:
            o = 'x'
        p.writes_done = tuple(p.writes_done) + (o,)
        obj = p.obj
        # ('w', text, ok, err set now?, port already None?, exception class, an error was recorded at any earlier time?)
        p.events.append(('w', text, o == 'o', obj is not None and obj.err is not None,
                         obj is not None and obj.port is None, WRITE_CHARS.get(o), p.ever_err is not None))
        if o != 'o':
            raise make_exc(WRITE_CHARS[o], 'write')
        return len(data)

    def readline(self):
        p = self.player
        p.nreads += 1
        if p.reads:
            out = render_event(p.reads.pop(0), p.pending)
        else:
            out = ''
        if is_raise(out) and p.in_connect:
            out = Raised('serial')
        p.read_log.append(out)
        p.events.append(('r', out))
        if is_raise(out):
            raise make_exc(out.key, 'read')
        return out.encode('ascii')

    def close(self):
        p = self.player
        p.closed += 1
        o = p.closes.pop(0) if p.closes else 'o'
        p.events.append(('c', o))         # a close() call and its scripted outcome
        if o != 'o':
            raise make_exc(WRITE_CHARS[o], 'close')

    def reset_input_buffer(self):
        p = self.player
        o = p.resets.pop(0) if p.resets else 'o'
        if o != 'o' and p.in_connect:
            o = 'x'                       # connect()'s handshake only contains SerialException (C15's domain)
        p.events.append(('z', o))
        if o != 'o':
            raise make_exc(WRITE_CHARS[o], 'reset_input_buffer')


# ----------------------------------------------------------------------------------------------
# calls
# ----------------------------------------------------------------------------------------------
def enc_arg(a):
    if a is None:
        return 'n'
    if a is True:
        return 'b1'
    if a is False:
        return 'b0'
    if isinstance(a, int):
        return f'i{a}'
    if isinstance(a, str):
        return 's' + enc_str(a)
    raise ValueError(a)


def enc_call(call):
    name, args = call
    return ':'.join([name] + [enc_arg(a) for a in args])


def canon(v):
    if v is None:
        return 'None'
    if v is True:
        return 'True'
    if v is False:
        return 'False'
    if isinstance(v, int):
        return str(v)
    if isinstance(v, str):
        return 's' + enc_str(v)
    if isinstance(v, tuple) and len(v) == 2:
        return '(' + canon(v[0]) + ',' + canon(v[1]) + ')'
    return 'OTHER:' + type(v).__name__


def opt(s):
    return '~' if s is None else enc_str(s)


def public_methods():
    from plotink import ebb3_motion
    return sorted(n for n, f in inspect.getmembers(ebb3_motion.EBBMotionWrap, inspect.isfunction)
                  if not n.startswith('_'))


class State:
    """initial attributes of the object"""

    def __init__(self, port=True, err=None, version=None, name=None, caller=None, port_name=None):
        self.port, self.err, self.version, self.name, self.caller, self.port_name = port, err, version, name, caller, port_name

    def tokens(self):
        return ['1' if self.port else '0', opt(self.err), opt(self.version),
                '~' if self.version is None else self.version, opt(self.name), opt(self.caller), opt(self.port_name)]

    def as_dict(self):
        return {'port': self.port, 'err': self.err, 'version': self.version, 'name': self.name}


def vparsed_str(vp):
    if vp is None:
        return '~'
    try:
        return '.'.join(str(x) for x in vp.release)
    except Exception:
        return 'OTHER'


_WATCHED = {}


def watched_class():
    """EBBMotionWrap through a dynamically created subclass whose __setattr__ logs every assignment to `err`
    (an error that is recorded and erased again between two port operations is invisible to the port).
    No repository hook: the real methods run unchanged on the subclass instance."""
    from plotink import ebb3_motion
    base = ebb3_motion.EBBMotionWrap
    if base not in _WATCHED:
        def __setattr__(self, key, value):
            if key == 'err':
                pl = self.__dict__.get('_verif_player')
                if pl is not None and pl.watch:
                    old = self.__dict__.get('err')
                    pl.events.append(('e', old, value))
                    if value is not None and pl.ever_err is None:
                        pl.ever_err = value
            object.__setattr__(self, key, value)
        _WATCHED[base] = type('EBBMotionWrap', (base,), {'__setattr__': __setattr__, '__module__': base.__module__})
    return _WATCHED[base]


def side_activity(player, obj, kind):
    """something happens on ANOTHER instance in the same process while `obj` lives: state must not be shared"""
    import serial as real_serial
    cls = watched_class()
    before = obj.err
    other = cls()
    obs = {'kind': kind, 'fresh_err': other.err, 'fresh_port_is_none': other.port is None, 'main_err_before': before}
    if kind in ('ok', 'fail'):
        p2 = Player([('raise', 'serial')] if kind == 'fail' else [GOOD] * 6, [])
        p2.obj = other
        object.__setattr__(other, '_verif_player', p2)
        other.port = FakePort(p2, real_serial.SerialException)
        p2.watch = True
        try:
            r1 = other.query_steps()
            other.xy_move(1, 2, 3)
            obs['other_exc'] = None
        except Exception as ex:
            r1 = None
            obs['other_exc'] = type(ex).__name__
        obs.update({'other_ret': repr(r1), 'other_err': other.err, 'other_written': list(p2.written)})
    obs['main_err_after'] = obj.err
    player.side.append(obs)


def judge_side(ctx, desc, player, prop):
    """other instances: a fresh object starts clean, works against a good device whatever happened to the first
    object, and nothing done on it changes the first object's recorded error"""
    for obs in player.side:
        inp = dict(desc, side=obs['kind'])
        if obs['fresh_err'] is not None or not obs['fresh_port_is_none']:
            violate(ctx, 'a newly created object starts with an error / a port', inp, obs, 'err None, port None',
                    key=f'{prop}:new-instance:inherits-state')
        if obs['main_err_after'] != obs['main_err_before']:
            violate(ctx, 'activity on another object changes the recorded error of this one', inp, obs,
                    'the recorded message is never replaced', key=f'{prop}:other-instance:message-replaced')
        if obs['kind'] == 'ok' and (obs.get('other_err') is not None or obs.get('other_exc') or len(obs.get('other_written', [])) != 2):
            violate(ctx, 'an independent, connected, error-free object fails against a correct device', inp, obs,
                    'both requests transmitted, no error', key=f'{prop}:other-instance:false-error')
        if obs['kind'] == 'fail' and (obs.get('other_err') is None or len(obs.get('other_written', [])) != 1):
            violate(ctx, 'an independent object does not latch its own error', inp, obs,
                    'error recorded on that object, second request not transmitted', key=f'{prop}:other-instance:no-latch')


def real_calls(calls):
    return [c for c in calls if not c[0].startswith('@')]


def run_history(state, reads, writes, calls, closes=(), resets=()):
    """Run `calls` on a real EBBMotionWrap.  Returns (records, player).  Each record is a dict with the
    observations of one call.  Pseudo-calls `('@other', (kind,))` run side activity on another instance and
    produce no record."""
    from plotink import ebb3_motion, ebb3_serial
    import serial as real_serial
    from packaging.version import parse as vparse

    class Shim:
        """stands in for the `serial` module inside ebb3_serial while connect() runs"""
        SerialException = real_serial.SerialException
        serialutil = real_serial.serialutil

    player = Player(reads, writes, closes, resets)
    obj = watched_class()()
    player.obj = obj
    object.__setattr__(obj, '_verif_player', player)
    if state.port:
        obj.port = FakePort(player, real_serial.SerialException)
    obj.err = state.err
    obj.version = state.version
    obj.version_parsed = None if state.version is None else vparse(state.version)
    obj.name = state.name
    obj.caller = state.caller
    obj.port_name = state.port_name
    player.ever_err = state.err
    player.watch = True
    records = []
    saved = (ebb3_serial.serial, ebb3_serial.comports, ebb3_serial.find_named)
    try:
        for (name, args) in calls:
            if name == '@other':
                side_activity(player, obj, args[0])
                continue
            w0, r0, e0 = len(player.written), player.nreads, len(player.events)
            exc = None
            ret = None
            try:
                if name == 'connect':
                    given, caller, found, open_ok = args

                    def fake_serial(port_name, timeout=None, _ok=open_ok):
                        if not _ok:
                            raise real_serial.SerialException('cannot open')
                        return FakePort(player, real_serial.SerialException)
                    shim = Shim()
                    shim.Serial = fake_serial
                    ebb3_serial.serial = shim
                    ebb3_serial.comports = (lambda f=found: [] if f is None else [(f, 'EiBotBoard', 'USB VID:PID=04D8:FD92')])
                    ebb3_serial.find_named = (lambda n, f=found: f)
                    player.in_connect = True
                    ret = obj.connect(given, caller)
                elif name == 'find_first':
                    found, = args
                    ebb3_serial.comports = (lambda f=found: [] if f is None else [(f, 'EiBotBoard', 'USB VID:PID=04D8:FD92')])
                    ret = obj.find_first()
                else:
                    ret = getattr(obj, name)(*args)
            except Exception as ex:  # observed, compared with the model, judged by the oracle
                exc = type(ex).__name__
            finally:
                player.in_connect = False
                ebb3_serial.serial, ebb3_serial.comports, ebb3_serial.find_named = saved
            records.append({
                'call': (name, args), 'ret': ret, 'res': ('X' + exc) if exc else ('V' + canon(ret)), 'exc': exc,
                'written': player.written[w0:], 'nreads': player.nreads - r0,
                'port': obj.port is not None, 'err': obj.err, 'version': obj.version,
                'vparsed': vparsed_str(obj.version_parsed), 'name': obj.name, 'caller': obj.caller,
                'port_name': obj.port_name, 'events': player.events[e0:], 'ever_err': player.ever_err,
            })
    finally:
        ebb3_serial.serial, ebb3_serial.comports, ebb3_serial.find_named = saved
    return records, player


def record_tokens(r):
    wr = '.' if not r['written'] else ';'.join(enc_str(t) for t in r['written'])
    return ' '.join([r['res'], wr, str(r['nreads']), '1' if r['port'] else '0', opt(r['err']), opt(r['version']),
                     r['vparsed'], opt(r['name']), opt(r['caller']), opt(r['port_name'])])


def model_line(state, creads, cwrites, calls):
    rd = '.' if not creads else ';'.join('X' if is_raise(o) else 'L' + enc_str(o) for o in creads)
    wr = '.' if not cwrites else ''.join('o' if c == 'o' else 'x' for c in cwrites)    # one raise outcome in the model
    return ' '.join(['ebb3', 'run'] + state.tokens() + [rd, wr] + [enc_call(c) for c in real_calls(calls)])


GEN_FUEL = 1000


def gen_line(state, creads, cwrites, calls):
    """the same history for the SOURCE-REGENERATED methods (`ebb3gen run`, Drv/Ebb3Gen.lean): as `model_line`, but every
    fault keeps its exception class"""
    rd = '.' if not creads else ';'.join(('X' + o.key) if is_raise(o) else 'L' + enc_str(o) for o in creads)
    wr = '.' if not cwrites else ''.join(cwrites)
    return ' '.join(['ebb3gen', 'run', str(GEN_FUEL)] + state.tokens() + [rd, wr] + [enc_call(c) for c in real_calls(calls)])


def compare_gen(ctx, scen, records, answer, what):
    """validation of translator/pyio2lean.py: the regenerated methods must do exactly what the real methods did — result
    (value / escaping exception class), bytes written, reads consumed, port, err, version, name, caller, port_name"""
    if answer is None:
        return True
    outs = split_model_answer(answer)
    for k, r in enumerate(records):
        mine = record_tokens(r)
        o = outs[k] if k < len(outs) else 'MISSING'
        key = 'gen:same' if mine == o else 'gen:differs'
        ctx.paths[key] = ctx.paths.get(key, 0) + 1
        if mine != o:
            a, b = mine.split(' '), o.split(' ')
            diff = [FIELDS[i] for i in range(min(len(a), len(b), len(FIELDS))) if a[i] != b[i]] or ['outcome']
            ctx.disagree(f"{what}: regenerated method (Gen.{r['call'][0]}, translator/pyio2lean.py) vs implementation: call {k} "
                         f"differs in {','.join(diff)}", scen, mine, o)
            return False
    return True


def split_model_answer(ans):
    return [] if ans == '' else ans.split(' | ')


def describe(state, creads, cwrites, calls):
    return {'state': state.as_dict(),
            'reads': [repr(o) if is_raise(o) else o for o in creads],
            'writes': ''.join(cwrites),
            'calls': [[n] + [repr(a) for a in args] for n, args in calls]}


FIELDS = ['result', 'written', 'reads', 'port', 'err', 'version', 'version_parsed', 'name', 'caller', 'port_name']


def compare(ctx, scen, records, answer, what='ebb3', ignore=None):
    """exact per-call comparison of implementation records with the model's answer line.
    `ignore(k, record, model_records) -> set of field names` lets a property leave observables that none of its theorems
    speaks about to the property that owns them (differences there are logged, not a broken tie)."""
    if answer is None:
        return True
    if answer == 'BAD':
        ctx.disagree(what + ': driver rejected the scenario', scen, 'n/a', 'BAD')
        return False
    outs = split_model_answer(answer)
    if len(outs) != len(records):
        ctx.disagree(what + ': record count', scen, len(records), len(outs))
        return False
    for k, (r, o) in enumerate(zip(records, outs)):
        mine = record_tokens(r)
        if mine != o:
            a, b = mine.split(' '), o.split(' ')
            diff = [FIELDS[i] for i in range(min(len(a), len(b), len(FIELDS))) if a[i] != b[i]]
            skip = ignore(k, r, outs) if ignore else set()
            if diff and all(d in skip for d in diff):
                ctx.__dict__.setdefault('_ignored_diffs', []).append((r['call'][0], tuple(diff)))
                continue
            ctx.disagree(f"{what}: call {k} {r['call'][0]} differs in {','.join(diff)}", scen, mine, o)
            return False
    return True


# ----------------------------------------------------------------------------------------------
# argument classes (every public method)
# ----------------------------------------------------------------------------------------------
def arg_classes():
    """method -> list of argument tuples, one per argument class"""
    I32 = [0, 1, -1, -2, 255, 256, 2147483647, -2147483648, 305419896]
    return {
        'command': [('SM,10,0,0',), (' CS \n',), ('X',), ('X,5',), ('RB',), ('r',), ('BL',), ('  EM,1,1',), (None,),
                    ('T3,1,0,0,0,0,0,0,3',), ('S2,0,4,1,1',), ('L3,1,2,3,4,5,6,7,8',)],
        'query': [('QS',), (' QG\t',), ('V',), ('I,1',), ('QL,3',), ('rb',), ('R',), ('QT',), (None,), ('Q1',), ('T3,9',)],
        'query_statusbyte': [()],
        'reboot': [()], 'bootload': [()],
        'query_nickname': [()],
        'write_nickname': [(' Bob ',), ('',), ('   ',), ('East Wall',), (None,)],
        'var_write': [(5, 3), (0, 0), (255, 31)],
        'var_read': [(3,), (0,), (31,)],
        'var_write_int32': [(v, 3) for v in I32[:5]] + [(I32[6], 0), (I32[7], 28), (I32[8], 10)],
        'var_read_int32': [(3,), (0,), (28,)],
        'timed_pause': [(1600,), (750,), (751,), (1,), (0,), (-5,), (1500,), (2251,), (3100,)],
        'xy_move': [(1, 2, 3), (0, 0, 0), (-5, 7, 100)],
        'abs_move': [(100, 0, 5), (100, None, None), (100, 3, None), (0, 0, 0)],
        'motors_disable': [()],
        'motors_enable': [(1, 1), (0, 2), (3, 0), (0, 0), (7, -1), (0, 5), (2, 3)],
        'motors_query_enabled': [()],
        'query_steps': [()], 'clear_steps': [()], 'clear_accumulators': [()],
        'pen_lower': [(100, 2), (100, None), (0, 0)],
        'pen_raise': [(100, None), (50, 1), (0, 0)],
        'dio_b_config': [(1, 0, 0), (3, 1, 1)],
        'dio_b_set': [(1, 1), (0, 0)],
        'dio_b_read': [(1,), (0,)],
        'pen_pos_down': [(100,)], 'pen_pos_up': [(20000,)], 'pen_rate_down': [(5,)], 'pen_rate_up': [(0,)],
        'servo_timeout': [(1000, 1), (0, None), (60000, 0)],
        'query_voltage': [(), (None,), (300,), (0,)],
        'query_current': [()],
        # connection and helper methods
        'connect': [(None, None, 'COM3', True), ('Bob', 'axicli', 'COM3', True), (None, None, None, True),
                    ('Bob', None, None, True), (None, 'me', '/dev/ttyACM0', False)],
        'disconnect': [()],
        'record_error': [('second error',), ('',)],
        'parse_version': [('EBBv13_and_above EB Firmware Version 3.0.2',), ('nothing here',), ('Firmware Version 2.10.0  ',)],
        'min_version': [('3.0.2',), ('2.5.5',), ('10.0',), ('abc',)],
        'find_first': [('COM9',), (None,)],
    }


REQUEST_METHODS = None


def request_methods():
    ac = arg_classes()
    return [m for m in ac if m not in ('connect', 'disconnect', 'record_error', 'parse_version', 'min_version', 'find_first')]


def normalise_args(name, args):
    """query_voltage() with no argument = threshold None"""
    if name == 'query_voltage' and args == ():
        return (None,)
    return args


def rand_call(rng, include_conn=True):
    ac = arg_classes()
    names = list(ac)
    if not include_conn:
        names = request_methods()
    name = rng.choice(names)
    if name in ('min_version', 'parse_version') and rng.random() < 0.7:
        name = rng.choice(request_methods())
    args = rng.choice(ac[name])
    if rng.random() < 0.3:
        # perturb integers
        args = tuple((rng.choice([0, 1, -1, 5, 6, 255, 749, 750, 751, 2251, rng.randint(-3000, 3000)])
                      if isinstance(a, int) and not isinstance(a, bool) and name not in ('var_write_int32',) else a)
                     for a in args)
    return (name, normalise_args(name, args))


def rand_reads(rng, n, fault_rate=0.25):
    evs = []
    for _ in range(n):
        x = rng.random()
        if x > fault_rate:
            evs.append(('good', rand_payload(rng)))
        else:
            k = rng.choice(['empty', 'empty', 'err', 'nameerr', 'wrong', 'wrong1', 'raise', 'blank'])
            if k == 'blank':
                evs.append(('line', rng.choice(['\r\n', ' ', '\n', '\t\r\n'])))
            elif k == 'raise':
                evs.append(('raise', rng.choice(EXC_KEYS)))
            elif k == 'empty':
                evs.extend([('empty',)] * rng.choice([1, 1, 2, 5]))
            else:
                evs.append((k, rand_payload(rng)))
    return evs


# ----------------------------------------------------------------------------------------------
# scenarios
# ----------------------------------------------------------------------------------------------
class Scenario:
    """`closes` / `resets`: scripted outcomes of port.close() / port.reset_input_buffer() ('o' or a fault char of
    WRITE_CHARS).  The Lean model's `disconnect` has no close-fault outcome, so a scenario that scripts one is judged
    by the oracle only (no model / regenerated-code comparison): `oracle_only`."""
    __slots__ = ('state', 'reads', 'writes', 'calls', 'tag', 'focus', 'closes', 'resets')

    def __init__(self, state, reads, writes, calls, tag, focus=0, closes=(), resets=()):
        self.state, self.reads, self.writes, self.calls, self.tag, self.focus = state, reads, writes, calls, tag, focus
        self.closes, self.resets = list(closes), list(resets)

    @property
    def oracle_only(self):
        # ... and a request text with non-ASCII characters (Unicode whitespace padding that str.strip() removes): the
        # Lean models' strip is ASCII-only, so these are judged by the statement-level oracle alone
        def non_ascii(a):
            return isinstance(a, str) and any(ord(ch) > 127 for ch in a)
        return (any(c != 'o' for c in self.closes) or any(c != 'o' for c in self.resets)
                or any(non_ascii(a) for _, args in self.calls for a in args))


def jsonable(sc, creads, cwrites):
    """a replayable description of a (concrete) scenario"""
    return {'state': {'port': sc.state.port, 'err': sc.state.err, 'version': sc.state.version, 'name': sc.state.name,
                      'caller': sc.state.caller, 'port_name': sc.state.port_name},
            'reads': [(None if o.key == 'serial' else {'raise': o.key}) if is_raise(o) else o for o in creads],
            'writes': ''.join(cwrites),
            'calls': [[n, list(a)] for n, a in sc.calls], 'tag': sc.tag,
            **({'closes': ''.join(sc.closes)} if sc.closes else {}),
            **({'resets': ''.join(sc.resets)} if sc.resets else {})}


def from_json(d):
    st = State(**d['state'])
    reads = [('raise', 'serial') if o is None else ('raise', o['raise']) if isinstance(o, dict) else ('line', o)
             for o in d['reads']]
    calls = [(n, tuple(a)) for n, a in d['calls']]
    return Scenario(st, reads, list(d['writes']), calls, d.get('tag', 'replay'), closes=list(d.get('closes', '')),
                    resets=list(d.get('resets', '')))


GOOD = ('good', DEFAULT_PAY)


def fault_kinds():
    """name -> list of read events that make the pending request fail"""
    return {
        'timeout': [('empty',)] * (RETRY_STATEMENT + 1),
        'blanks': [('line', '\r\n')] * (RETRY_STATEMENT + 1),
        'err': [('err', DEFAULT_PAY)],
        'nameerr': [('nameerr', DEFAULT_PAY)],
        'wrong': [('wrong', dict(DEFAULT_PAY, m=0))],
        'wrong2': [('wrong', dict(DEFAULT_PAY, m=1))],
        'wrong3': [('wrong', dict(DEFAULT_PAY, m=5))],
        'wrong4': [('wrong', dict(DEFAULT_PAY, m=3))],
        'wrong-same-letter': [('wrong1', dict(DEFAULT_PAY, m=0))],
        'wrong-same-letter2': [('wrong1', dict(DEFAULT_PAY, m=1))],
        'raise': [('raise', 'serial')],
        'raise-notopen': [('raise', 'notopen')],
        'raise-oserror': [('raise', 'oserror')],
        'raise-ioerror': [('raise', 'ioerror')],
        'late-raise': [('empty',)] * 3 + [('raise', 'serial')],
        'late-raise-oserror': [('empty',)] * RETRY_STATEMENT + [('raise', 'oserror')],
        'late-wrong': [('empty',)] * RETRY_STATEMENT + [('wrong', DEFAULT_PAY)],
    }


def clean_counts(name, args):
    """reads / writes of a fault-free run of one call"""
    recs, pl = run_history(State(port=True), [GOOD] * 60, [], [(name, args)])
    return pl.nreads, pl.nwrites


def followups(k):
    """two later requests, rotating through all request methods"""
    rm = request_methods()
    ac = arg_classes()
    a, b = rm[k % len(rm)], rm[(k * 7 + 3) % len(rm)]
    return [(a, normalise_args(a, ac[a][0])), (b, normalise_args(b, ac[b][k % len(ac[b])]))]


def blocked_scenarios():
    ac = arg_classes()
    for name in request_methods():
        for args in ac[name]:
            args = normalise_args(name, args)
            yield Scenario(State(port=False), [GOOD] * 4, [], [(name, args)], 'blocked:noport')
            yield Scenario(State(port=True, err='first error'), [GOOD] * 4, [], [(name, args)], 'blocked:err')
            yield Scenario(State(port=True, err=''), [GOOD] * 4, [], [(name, args)], 'blocked:emptyerr')
            yield Scenario(State(port=False, err='first error'), [GOOD] * 4, [], [(name, args)], 'blocked:both')


def fault_scenarios(full_cross=False):
    """every request method x argument class x fault kind x read position / write position,
    followed by two later requests"""
    ac = arg_classes()
    fk = fault_kinds()
    k = 0
    for name in request_methods():
        for args in ac[name]:
            args = normalise_args(name, args)
            if args and args[0] is None and name in ('command', 'query', 'write_nickname'):
                continue
            nr, nw = clean_counts(name, args)
            for pos in range(nr):
                for kind, evs in fk.items():
                    k += 1
                    yield Scenario(State(port=True), [GOOD] * pos + evs + [GOOD] * 12, [], [(name, args)] + followups(k),
                                   f'fault:{kind}@r{pos}')
            for wp in range(nw):
                for ch in 'xpei':
                    k += 1
                    yield Scenario(State(port=True), [GOOD] * 40, ['o'] * wp + [ch], [(name, args)] + followups(k),
                                   f'fault:write-{WRITE_CHARS[ch]}@w{wp}')
            # fault-free run with varied payloads / line ends
            yield Scenario(State(port=True), [GOOD] * 40, [], [(name, args)] + followups(k), 'clean')


def pair_scenarios():
    """an I/O exception / error line in an earlier call of every method, then every other method"""
    ac = arg_classes()
    rm = request_methods()
    for a in rm:
        for b in rm:
            ca = (a, normalise_args(a, ac[a][0]))
            cb = (b, normalise_args(b, ac[b][0]))
            yield Scenario(State(port=True), [('raise', EXC_KEYS[(len(a) + len(b)) % 4])] + [GOOD] * 8, [], [ca, cb],
                           'pair:raise')
            yield Scenario(State(port=True), [('err', DEFAULT_PAY)] + [GOOD] * 8, [], [ca, cb], 'pair:err')


def retry_scenarios():
    """cross the retry limit on both sides: 24..27 empties, then the reply"""
    ac = arg_classes()
    names = ['command', 'query', 'query_steps', 'var_read', 'xy_move', 'query_voltage', 'query_current', 'dio_b_read',
             'motors_query_enabled', 'query_nickname', 'write_nickname', 'query_statusbyte', 'var_write']
    for name in names:
        args = normalise_args(name, ac[name][0])
        for k in (0, 1, 2, 23, 24, 25, 26, 27, 30):
            for blank in (('empty',), ('line', ' \r\n')):
                yield Scenario(State(port=True), [blank] * k + [GOOD] * 6, [], [(name, args), ('query', ('QS',))],
                               f'retry:{k}')
    # the same for arbitrary request strings
    for req in ('V', 'I,1', 'QS', ' QS ', 'S,1', 'ZZ,1,2', '\tXM,5\r\n', 'Q', 'q,5'):
        for k in (0, 24, 25, 26):
            for meth in ('command', 'query'):
                yield Scenario(State(port=True), [('empty',)] * k + [GOOD] * 3, [], [(meth, (req,))], f'retry-req:{k}')


def request_string_scenarios(rng):
    """request strings of the three syntactic classes with surrounding whitespace, against replies that
    begin with the name / with a shorter or longer prefix / with Err:"""
    letters = 'QSXvR'
    reqs = []
    for a in letters:
        reqs.append(a)
        reqs.append(a + ',1')
        reqs.append(a + ',')
        for b in 'MS,':
            reqs.append(a + b)
            reqs.append(a + b + ',7,8')
    reqs += ['RB', 'rb', 'R', 'r', 'BL', 'bl', 'Rb,1', 'QG', 'CU,50,0']
    # two-character names that end in a digit: the real ones (T3 is sent by clear_accumulators; S2, L3 are documented
    # EBB commands) and synthetic ones; a name whose second character is punctuation
    reqs += ['T3', 'T3,1,0,0,0,0,0,0,3', 'S2,0,4,1,1', 'L3,1,2,3,4,5,6,7,8', 'S2', 'L3', 'Q1', 'A9,5', 'X0', 'q7,1', 'T_,1', 'T-']
    pads = [('', ''), (' ', ''), ('', '\r\n'), ('\t ', ' \n'), ('\x1f', '\x1c')]
    # Unicode whitespace that str.strip() removes (the trimmed text is ASCII): NEL, NBSP, EM SPACE, LINE SEPARATOR, IDEOGRAPHIC SPACE
    upads = [('\x85', ''), ('', '\xa0'), ('\u2003', '\u2028'), ('\u3000 ', '\t\xa0')]
    for req in reqs:
        name = req_name(req)
        replies = [name, name + ',5', req, name[0], name + 'Z', name[0] + 'Z,1', 'Z' + name, name + ' Err: x', '!Err: 1',
                   name.lower() if name.lower() != name else name.upper(), '', name + ',,5', ',' + name,
                   name[0] + 'D', name[0] + 'R,0', name[0] + 'M', name[0] + ',0', name[0] + '3', name[0] + '2,1']
        for i, rep in enumerate(replies):
            pl, pr = pads[i % len(pads)]
            for meth in ('command', 'query'):
                yield Scenario(State(port=True), [('line', rep + '\r\n')] + [('empty',)] * 30, [],
                               [(meth, (pl + req + pr,))], 'reqstring')
                if i < 4:       # the same exchange with Unicode-whitespace padding (oracle only)
                    ul, ur = upads[(i + len(req)) % len(upads)]
                    yield Scenario(State(port=True), [('line', rep + '\r\n')] + [('empty',)] * 30, [],
                                   [(meth, (ul + req + ur,))], 'reqstring:unicode-ws')
                # I/O exception classes (F10 names included)
        for meth in ('command', 'query'):
            for key in EXC_KEYS:
                yield Scenario(State(port=True), [('raise', key)], [], [(meth, (req,))], 'reqstring:raise')
                yield Scenario(State(port=True), [GOOD], [WRITE_CHAR_OF[key]], [(meth, (req,))], 'reqstring:wraise')
                yield Scenario(State(port=True), [('empty',), ('empty',), ('raise', key)], [], [(meth, (req,))],
                               'reqstring:raise2')


def connect_scenarios():
    vers = ['3.0.2', '3.0.1', '3.0.10', '2.10.0', '10.0.0', '3.1', '3']
    goodv = lambda v: ('line', f'EBBv13_and_above EB Firmware Version {v}\r\n')
    tails = [[('query_steps', ()), ('disconnect', ()), ('xy_move', (1, 2, 3))],
             [('command', ('CS',)), ('connect', (None, None, 'COM3', True)), ('query', ('QG',))]]
    k = 0
    for v in vers:
        for pre in ([], [('empty',)], [('line', 'garbage\r\n')], [('raise',)], [('empty',), ('empty',)]):
            for conn in arg_classes()['connect']:
                k += 1
                reads = pre + [goodv(v), ('line', 'CU\r\n'), ('line', 'QT,Bob\r\n')] + [GOOD] * 6
                yield Scenario(State(port=False), reads, [], [('connect', conn)] + tails[k % 2], 'connect')
    for wr in (['x'], ['o', 'x'], ['o', 'o', 'x']):
        yield Scenario(State(port=False), [('empty',), goodv('3.0.2'), GOOD, GOOD], wr,
                       [('connect', (None, None, 'COM3', True)), ('xy_move', (1, 2, 3))], 'connect:wfault')
    # connecting while an error is recorded / reconnecting after an error
    for err in ('first error',):
        yield Scenario(State(port=False, err=err), [goodv('3.0.2'), GOOD, ('line', 'QT,Al\r\n'), GOOD], [],
                       [('connect', (None, 'me', 'COM3', True)), ('query_steps', ()), ('disconnect', ()),
                        ('connect', ('Bob', None, None, True)), ('xy_move', (1, 1, 1))], 'connect:latched')
        yield Scenario(State(port=True, err=err), [GOOD] * 4, [],
                       [('connect', (None, None, 'COM3', True)), ('reboot', ()), ('disconnect', ()), ('bootload', ())],
                       'connect:latched-open')
    yield Scenario(State(port=True), [('raise',), goodv('2.0.0'), GOOD], [],
                   [('query_steps', ()), ('disconnect', ()), ('connect', (None, None, 'COM3', True)), ('query_steps', ()),
                    ('record_error', ('other',)), ('min_version', ('2.0.0',))], 'connect:after-error')


def random_scenarios(rng, n, maxlen=30):
    for _ in range(n):
        st = State(port=rng.random() < 0.85, err=None if rng.random() < 0.85 else rng.choice(['first', '', 'E']),
                   version=rng.choice([None, None, '3.0.2', '2.9.9']), name=rng.choice([None, 'Old']))
        calls = [rand_call(rng) for _ in range(rng.randint(1, maxlen))]
        if rng.random() < 0.25:
            for _ in range(rng.randint(1, 3)):
                calls.insert(rng.randint(0, len(calls)), ('@other', (rng.choice(['new', 'ok', 'fail']),)))
        reads = rand_reads(rng, rng.randint(0, 60), fault_rate=rng.choice([0, 0.02, 0.1, 0.3]))
        writes = [rng.choice('oooooooooooooooooxpei') for _ in range(rng.randint(0, 12))] if rng.random() < 0.4 else []
        yield Scenario(st, reads, writes, calls, 'random')


def run_scenarios(ctx, scenarios, oracle, what, ignore=None):
    """run implementation, then the model on the concrete scripts (one driver batch), compare, judge.  Scenarios with a
    scripted close() / reset_input_buffer() fault (`oracle_only`) are judged by the oracle only: the model has no such
    outcome."""
    done = []
    lines = []
    pl_of = {}
    for sc in scenarios:
        recs, pl = run_history(sc.state, sc.reads, sc.writes, sc.calls, sc.closes, sc.resets)
        pl_of[id(recs)] = pl
        creads, cwrites = pl.concrete_script()
        if not sc.oracle_only:
            lines.append(model_line(sc.state, creads, cwrites, sc.calls))
        done.append((sc, recs, creads, cwrites))
    modelled = [d for d in done if not d[0].oracle_only]
    answers = ctx.driver.batch(lines) if ctx.driver else [None] * len(lines)
    gen_on = bool(getattr(ctx, 'gen_stream', False)) and ctx.driver is not None
    ganswers = ctx.driver.batch([gen_line(sc.state, cr, cw, sc.calls) for sc, _, cr, cw in modelled]) if gen_on else [None] * len(lines)
    ans_of = {id(d[1]): (a, g) for d, a, g in zip(modelled, answers, ganswers)}
    n_oracle_only = 0
    for (sc, recs, creads, cwrites) in done:
        desc = jsonable(sc, creads, cwrites)
        judge_side(ctx, desc, pl_of[id(recs)], what)
        if sc.oracle_only:
            n_oracle_only += 1
        else:
            ans, gans = ans_of[id(recs)]
            compare(ctx, desc, recs, ans, what, (lambda k, r, outs, _sc=sc, _recs=recs: ignore(_sc, _recs, k, r, outs)) if ignore else None)
            if gen_on:
                compare_gen(ctx, desc, recs, gans, what)
        oracle(ctx, sc, recs, desc)
    if n_oracle_only:
        ctx.__dict__['_oracle_only'] = ctx.__dict__.get('_oracle_only', 0) + n_oracle_only
    return len(done)


def check_method_table(ctx):
    """public methods by reflection == the model's table"""
    pub = public_methods()
    if ctx.driver is None:
        return pub, {}
    ans = ctx.driver.batch(['ebb3 methods'])[0]
    table = {}
    for tok in ans.split():
        n, g, kind = tok.split(':')
        table[n] = (g, kind)
    for n in pub:
        if n not in table:
            ctx.disagree('public method not in the model table', {'method': n}, 'present in the class', 'unmodelled')
    for n in table:
        if n not in pub:
            ctx.disagree('model table lists a method the class does not have', {'method': n}, 'absent', 'modelled')
    return pub, table


def read_source_constants():
    """the constants the model takes as parameters, read from the current source text (independent of
    translator/extract_params.py: plain regular expressions)"""
    import re, os
    from . import common
    ser = open(os.path.join(common.REPO, 'plotink', 'ebb3_serial.py')).read()
    mot = open(os.path.join(common.REPO, 'plotink', 'ebb3_motion.py')).read()

    def body(src, fn):
        m = re.search(r'\n    def ' + fn + r'\(.*?(?=\n    def |\nclass |\ndef |\Z)', src, flags=re.S)
        return m.group(0) if m else ''
    out = {}
    for key, fn in (('retryCmd', 'command'), ('retryQry', 'query')):
        m = re.search(r'n_retry_count\s*(<=?)\s*(\d+)', body(ser, fn))
        out[key] = None if not m else int(m.group(2)) + (1 if m.group(1) == '<=' else 0)
        m = re.search(r'not in \[([^\]]*)\]', body(ser, fn))
        out['ignore' + key[5:]] = None if not m else re.findall(r'["\']([^"\']*)["\']', m.group(1))
    m = re.search(r'pause_time\s*>\s*(\d+):\s*\n\s*time_delay\s*=\s*(\d+)', body(mot, 'timed_pause'))
    out['pauseCmp'], out['pauseChunk'] = (int(m.group(1)), int(m.group(2))) if m else (None, None)
    m = re.search(r'MIN_VERSION_STRING\s*=\s*["\']([^"\']*)["\']', ser)
    out['minVersion'] = m.group(1) if m else None
    m = re.search(r'threshold\s*=\s*(\d+)', body(mot, 'query_voltage'))
    out['vThreshold'] = int(m.group(1)) if m else None
    return out


def check_params(ctx):
    """Gen/Params.lean (as linked into the driver) == what the source says"""
    if ctx.driver is None:
        return
    ans = ctx.driver.batch(['ebb3 params'])[0].split(' ')
    src = read_source_constants()
    dec = lambda t: [] if t == '' else [dec_str(x) for x in t.split(';')]
    model = {'retryCmd': int(ans[0]), 'retryQry': int(ans[1]), 'ignoreCmd': dec(ans[2]), 'ignoreQry': dec(ans[3]),
             'pauseCmp': int(ans[4]), 'pauseChunk': int(ans[5]), 'minVersion': dec_str(ans[6]), 'vThreshold': int(ans[7])}
    for k, v in model.items():
        if src.get(k) != v:
            ctx.disagree('extracted constant differs from the source', {'constant': k}, src.get(k), v)
    ctx.notes.append('model parameters read from the source: ' + ', '.join(f'{k}={v!r}' for k, v in model.items()))
    return model


def check_primitives(ctx, rng, n):
    """`int()` / `strip()` / name extraction of the model against CPython"""
    if ctx.driver is None:
        return
    alpha = list('0123456789abcfxXAF_+- \t\r\n,') + ['\x1c', '\x0b', 'g', 'Q']
    cases = ['', '0', '-0', '+5', ' 12 ', '1_000', '_1', '1_', '1__0', '0x1f', '0X1F', '0x_1f', '0x', '-0x10', '3E', '3e ', 'ff',
             '0512', '- 5', '+-5', '1 2', '\x1f7\x1c', '0_0', 'x', '0b1', '0o7', '1e3', '1.0']
    for _ in range(n):
        cases.append(''.join(rng.choice(alpha) for _ in range(rng.randint(0, 6))))
    lines, meta = [], []
    for s in cases:
        for base in (10, 16):
            lines.append(f'ebb3 pyint {base} {enc_str(s)}')
            try:
                want = str(int(s, base))
            except ValueError:
                want = 'E'
            meta.append(('int', base, s, want))
        lines.append(f'ebb3 strip {enc_str(s)}')
        meta.append(('strip', 0, s, enc_str(s.strip())))
        t = s.strip()
        lines.append(f'ebb3 name {enc_str(s)}')
        meta.append(('name', 0, s, 'XIndexError' if t == '' else enc_str(req_name(t))))
    for (kind, base, s, want), got in zip(meta, ctx.driver.batch(lines)):
        ctx.count((kind, base, s), 'prim:' + kind, nontrivial=False)
        if got != want:
            ctx.disagree(f'primitive {kind}', {'base': base, 'text': s}, want, got)


def violate(ctx, what, inp, observed, required, key=None, cap=4):
    """ctx.violate with a per-key cap, so that one defect cannot crowd the others out of the report"""
    seen = ctx.__dict__.setdefault('_violation_keys', {})
    k = key or what
    seen[k] = seen.get(k, 0) + 1
    if seen[k] <= cap:
        ctx.violate(what, inp, observed, required, key=key)


def corpus_scenarios(prop):
    """corpus/<prop>/*.jsonl: one replayable scenario per line (minimised past findings, defect witnesses)"""
    import os, json
    from . import common
    d = os.path.join(common.VERIF, 'corpus', prop)
    out = []
    if os.path.isdir(d):
        for fn in sorted(os.listdir(d)):
            if fn.endswith('.jsonl'):
                for line in open(os.path.join(d, fn)):
                    line = line.strip()
                    if line and not line.startswith('#'):
                        out.append(from_json(json.loads(line)))
    return out


def probe_unmodelled(ctx, names):
    """A public method the model does not know: it cannot be compared, but the statement can still be tried on it
    — call it with small integers on a blocked object and see whether it transmits (search only)."""
    import inspect as _inspect
    from plotink import ebb3_motion
    import serial as real_serial
    for name in names:
        fn = getattr(ebb3_motion.EBBMotionWrap, name)
        try:
            params = [p for p in list(_inspect.signature(fn).parameters.values())[1:]
                      if p.default is _inspect.Parameter.empty and p.kind in (p.POSITIONAL_ONLY, p.POSITIONAL_OR_KEYWORD)]
        except (TypeError, ValueError):
            continue
        for pre in ('err', 'noport'):
            for fill in (1, 'QS'):
                player = Player([GOOD] * 8, [])
                obj = ebb3_motion.EBBMotionWrap()
                if pre == 'err':
                    obj.port = FakePort(player, real_serial.SerialException)
                    obj.err = 'first error'
                exc = None
                try:
                    getattr(obj, name)(*[fill for _ in params])
                except Exception as ex:
                    exc = type(ex).__name__
                inp = {'method': name, 'args': [fill for _ in params], 'state': pre}
                if player.written:
                    violate(ctx, f'{name} (not in the model) transmits although the object is blocked', inp,
                            {'written': player.written}, 'no bytes written', key=f'C04:{name}:writes-when-blocked')
                if pre == 'err' and obj.err != 'first error':
                    violate(ctx, f'{name} (not in the model) replaces the recorded error', inp, obj.err, 'first error',
                            key=f'C04:{name}:message-replaced')
                if exc and pre == 'noport' and fill == 1:
                    ctx.notes.append(f'unmodelled method {name} raises {exc} on an unconnected object')


def escaped_known(r):
    """reboot()/bootload(): the raw write is guarded by `except (SerialException, PortNotOpenError)` only, so a plain
    OSError/IOError raised by the port's write() escapes (finding F11, next to F10).  The model (one raise outcome)
    returns False there; everything else of the call agrees.  Returns True for exactly that case."""
    if r['call'][0] not in ('reboot', 'bootload') or r['exc'] != 'OSError':
        return False
    ws = [e for e in r['events'] if e[0] == 'w']
    return len(ws) == 1 and not ws[0][2] and ws[0][5] in ('oserror', 'ioerror')


def ignore_known(sc, recs, k, r, outs):
    return {'result'} if escaped_known(r) else set()


def probe_connect_exceptions(ctx):
    """connect()'s handshake catches serial.SerialException only; what a plain OSError from the port does there is
    C15's subject - observed and logged here, never judged by C04/C05."""
    seen = []
    for where, reads, writes in (('read', [('raise', 'oserror')], []), ('write', [], ['e'])):
        player = Player(reads, writes)
        player.in_connect = False
        sc_state = State(port=False)
        # run connect with the class NOT forced to SerialException
        from plotink import ebb3_motion, ebb3_serial
        import serial as real_serial

        class Shim:
            SerialException = real_serial.SerialException
            serialutil = real_serial.serialutil
        shim = Shim()
        shim.Serial = lambda port_name, timeout=None: FakePort(player, real_serial.SerialException)
        obj = ebb3_motion.EBBMotionWrap()
        player.obj = obj
        saved = (ebb3_serial.serial, ebb3_serial.comports)
        try:
            ebb3_serial.serial = shim
            ebb3_serial.comports = lambda: [('COM3', 'EiBotBoard', 'USB VID:PID=04D8:FD92')]
            try:
                ret = obj.connect()
                seen.append(f'{where}: returned {ret!r}, err {"set" if obj.err else "None"}')
            except Exception as ex:
                seen.append(f'{where}: {type(ex).__name__} escapes')
        finally:
            ebb3_serial.serial, ebb3_serial.comports = saved
    ctx.out_of_domain.append({'note': 'connect() handshake with a plain OSError from the port (only SerialException is caught '
                                      'there; judged by C15, not here)', 'observed': seen})


def two_object_scenarios():
    """state carried between objects: another instance is created / used / fails while this one is latched,
    connected, or fresh; every call of the sequence is judged"""
    other = lambda k: ('@other', (k,))
    q = ('query_steps', ())
    m = ('xy_move', (1, 2, 3))
    for kinds in (('new',), ('ok',), ('fail',), ('new', 'ok', 'fail')):
        side = [other(k) for k in kinds]
        # latched first, then the other object, then this one again
        yield Scenario(State(port=True), [('raise', 'serial')] + [GOOD] * 6, [], [q] + side + [m, q], 'two-objects:latched')
        yield Scenario(State(port=True, err='first error'), [GOOD] * 6, [], side + [m, q] + side + [q], 'two-objects:preset')
        # healthy object, the other one fails: this one keeps working
        yield Scenario(State(port=True), [GOOD] * 8, [], [q] + side + [m, q], 'two-objects:healthy')
        yield Scenario(State(port=False), [GOOD] * 8, [], side + [m] + side + [('connect', (None, None, 'COM3', True)), q],
                       'two-objects:unconnected')


# ----------------------------------------------------------------------------------------------
# faults of port.close() / port.reset_input_buffer()  (oracle-only stream: the model's disconnect always succeeds)
# ----------------------------------------------------------------------------------------------
F12_KEY = 'F12-disconnect-close-oserror'


def close_fault_classes(recs, upto=None):
    """fault chars of the close() calls made in recs[:upto+1]"""
    out = []
    for r in (recs if upto is None else recs[:upto + 1]):
        out += [ev[1] for ev in r['events'] if ev[0] == 'c' and ev[1] != 'o']
    return out


def close_fault_scenarios():
    """close() raising each serial I/O exception class in disconnect(), in the disconnect() inside reboot() / bootload()
    / a failed connect(), each followed by requests rotating through every request method, then connect() and a request
    again; reset_input_buffer() raising inside connect()"""
    goodv = ('line', 'EBBv13_and_above EB Firmware Version 3.0.2\r\n')
    hand = [goodv, ('line', 'CU\r\n'), ('line', 'QT,Bob\r\n')]
    conn = ('connect', (None, None, 'COM3', True))
    rm = request_methods()
    k = 0
    for ch in 'xpei':
        cls = WRITE_CHARS[ch]
        for j in range(len(rm)):
            k += 1
            fu = followups(j)
            # the coordinator's history: connect(); disconnect() [close raises]; requests; connect(); request
            yield Scenario(State(port=False), hand + [GOOD] * 4 + hand + [GOOD] * 6, [],
                           [conn, ('disconnect', ())] + fu + [conn, fu[0]], f'close:{cls}:connect-disconnect', closes=[ch])
            yield Scenario(State(port=True), [GOOD] * 8, [], [('disconnect', ())] + fu, f'close:{cls}:disconnect', closes=[ch])
            closer = ('reboot', 'bootload')[j % 2]
            yield Scenario(State(port=True), [GOOD] * 8, [], [(closer, ())] + fu, f'close:{cls}:{closer}', closes=[ch])
        # failed connect: not verified (both probes answer garbage) / handshake read raises: disconnect() inside connect
        for pre, tag in (([('line', 'garbage\r\n')] * 2, 'unverified'), ([('raise', 'serial')], 'probe-raise')):
            for nclose in (1, 2):
                yield Scenario(State(port=False), pre + [GOOD] * 6, [], [conn] + followups(k) + [('disconnect', ())] + followups(k + 1),
                               f'close:{cls}:connect-{tag}', closes=[ch] * nclose)
        # twice in a row, and a clean close after a faulty one
        yield Scenario(State(port=True), [GOOD] * 8, [], [('disconnect', ()), ('disconnect', ())] + followups(k),
                       f'close:{cls}:twice', closes=[ch, ch])
        yield Scenario(State(port=True, err='first error'), [GOOD] * 8, [], [('disconnect', ())] + followups(k),
                       f'close:{cls}:latched', closes=[ch])
        # reset_input_buffer(): first call is inside connect()'s try, second after the CU exchange
        for resets in ([ch], ['o', ch]):
            yield Scenario(State(port=False), hand + [GOOD] * 6, [], [conn] + followups(k) + [('disconnect', ())] + followups(k + 2),
                           f'reset:{cls}:{len(resets)}', resets=resets)


def random_close_scenarios(rng, n, maxlen=16):
    for sc in random_scenarios(rng, n, maxlen):
        sc.calls = list(sc.calls)
        for _ in range(rng.randint(1, 3)):
            sc.calls.insert(rng.randint(0, len(sc.calls)), (rng.choice(['disconnect', 'disconnect', 'reboot', 'bootload']), ()))
        sc.closes = [rng.choice('oxxpei') for _ in range(rng.randint(1, 4))]
        if rng.random() < 0.3:
            sc.resets = [rng.choice('oox') for _ in range(rng.randint(1, 2))]
        sc.tag = 'random-close'
        yield sc
