"""C10 — Bezier subdivision (subdivideCubicPath + bezmisc.beziersplitatt + points_in_tolerance).

Correspondence: the real subdivideCubicPath on small dyadic binary64 inputs (the literal 0.5 in the call to
beziersplitatt turns everything into floats; on these inputs every float operation is exact) vs the Lean model on
the same rationals — final node lists compared exactly as Fractions.
Oracle (from the statement, independent of the model, exact Fractions of the float values): original node objects
survive in order, first handle-in / last handle-out untouched, each original piece is replaced by its restrictions
(computed by blossoming) to dyadic intervals that tile [0,1], every resulting piece is flat (both inner control points
at distance < flat from the chord), termination within the proven bound on the number of splits.
"""
import json, math, signal
from fractions import Fraction as F
from .common import frac_str

RULE = ('exact stream: node lists of 1..5 nodes with integer coordinates in [-8,8] scaled by 2^s (s in -3..3), built from '
        'features (arbitrary, loop p0=p3, cusp handle=point, coincident nodes, collinear/already-flat, handle projecting '
        'beyond the chord end, S-shape, exact coincidence "t=1/2 point of a piece equals its start/end point": '
        'P3 = 7 P0 - 3 P1 - 3 P2 and the mirrored form) x flatness in {1,3/2,2,3,4}*2^s; points held as lists [x,y] '
        '(cubicsuperpath) or as tuples (x,y) (the repo tests), alternating; every 8th case at a very small / very large absolute '
        'size (s = +-8..60); far-from-the-origin exact class: 2..4 nodes translated by +-{1,3,5,7}*2^K (K 18..46) in x, in y or '
        'in both, local geometry on a small dyadic unit e = 2^(K-rho) (rho 16..46: almost retracted handles 1..8 e across the '
        'chord or in any direction, retracted handles, nearly coincident / coincident nodes) and a big unit 2^a e (chords along '
        'axes and diagonals, ordinary handles, sideways bulges), flatness {1/8..3} e - kept only if the exact refinement stays '
        'inside binary64 (far_reference); random binary64 stream with flatness '
        '2^-r*scale (r<=10; a few deep cases r<=18), 40% translated by up to 1e9*flat from the origin, every 5th case with handles '
        'pulled to 0.3..8*flat off their nodes (80% of these translated); long nearly straight '
        'pieces (dyadic chord length 1e3..1e9*flat, inner control points bulging sideways by 0.5..4*flat); every 2nd/4th case is '
        'followed by a second call on the same list object. non-trivial = at least one split; distinct by (node list, flat)')
TRUSTED = ['harness oracle: restrict() by blossoming and dist2() by clamped projection, in exact Fractions',
           'modelled not verified: Python list indexing / slice insertion s_p[i:1] = [x] as insertion at index i (i >= 1)',
           'binary64 rounding of the real code is outside the model (model = exact rationals): on the exact stream all '
           'operations are exact (checked: results are compared as exact Fractions); the random stream is judged by the '
           'Spec: nodes within 128 * 2^-53 * (largest |coordinate| of the piece) (measured <= 4.9), flatness exact on the '
           'stored float control points outside the relative band max(1e-9, 8 * 2^-53 * extent / flat) (see notes)']
ASSUMPTIONS = ['node lists of >= 1 nodes [hin, p, hout] (mutable lists) of points (lists or tuples) of finite floats; flat > 0; '
               'default start index i=1',
               'exact stream incl. the far-from-the-origin class: inputs on which binary64 carries out the refinement exactly '
               '(every de Casteljau point and every quantity of the distance test representable, checked per case by an exact '
               'rational reference) - no bound on |coordinates| / flat there (up to 2^49 in the generated cases)',
               'random stream: flat >= 2^-20 * (extent of the path) and |coordinates| <= 1e9 * flat — for much smaller flat, '
               'flat**2 and the squared distances lose all precision / underflow, and farther from the origin binary64 cannot '
               'resolve `flat`; the real loop need not terminate there (outside the domain)']
STAGED = []

REL = 1e-9
U53 = 2.0 ** -53
KNODE = 128      # |node - Spec| <= KNODE * u * (largest |coordinate| of the piece)
KBAND = 8.0      # flatness decisions exact outside the relative band max(REL, KBAND * u * (extent of the piece) / flat)
FUEL = 400000


class TooMany(Exception):
    pass


class Guarded(list):
    """a list that refuses to grow beyond `cap` nodes (a mutated loop may otherwise never stop)"""
    cap = 1 << 30

    def __setitem__(self, k, v):
        if isinstance(k, slice) and len(self) > self.cap:
            raise TooMany()
        return list.__setitem__(self, k, v)


TIE_SCALE = 5   # once the tie is broken the failing-input search runs at this multiple of the budget (default 10; this check is slow)

def _alarm(signum, frame):
    raise TooMany()


def dist2(p, a, b):
    dx, dy = b[0] - a[0], b[1] - a[1]
    L = dx * dx + dy * dy
    if L == 0:
        return (p[0] - a[0]) ** 2 + (p[1] - a[1]) ** 2
    t = F((p[0] - a[0]) * dx + (p[1] - a[1]) * dy) / L
    t = max(F(0), min(F(1), t))
    return (a[0] + t * dx - p[0]) ** 2 + (a[1] + t * dy - p[1]) ** 2


def restrict(P, t0, t1):
    def lerp(X, Y, t):
        return ((1 - t) * X[0] + t * Y[0], (1 - t) * X[1] + t * Y[1])

    def blossom(a, b, c):
        q = [lerp(P[i], P[i + 1], a) for i in range(3)]
        r = [lerp(q[i], q[i + 1], b) for i in range(2)]
        return lerp(r[0], r[1], c)
    return [blossom(t0, t0, t0), blossom(t0, t0, t1), blossom(t0, t1, t1), blossom(t1, t1, t1)]


def toF(p):
    return (F(p[0]), F(p[1]))


def split_bound(orig, flat):
    """number of leaves per piece guaranteed by the termination argument (squared edges shrink by 4 per split)"""
    total = 0
    for i in range(1, len(orig)):
        P = [toF(orig[i - 1][1]), toF(orig[i - 1][2]), toF(orig[i][0]), toF(orig[i][1])]
        M = max((P[j + 1][0] - P[j][0]) ** 2 + (P[j + 1][1] - P[j][1]) ** 2 for j in range(3))
        k = 0
        f2 = F(flat) ** 2
        while M >= f2 * 4 ** k:
            k += 1
        total += 2 ** k
    return total


# ------------------------------------------------------------------------------------------ generators
def gen_nodes_int(rng):
    n = rng.choice([1, 2, 2, 2, 3, 3, 4, 5])
    g = lambda: [float(rng.randint(-8, 8)), float(rng.randint(-8, 8))]
    sp = [[g(), g(), g()] for _ in range(n)]
    for i in range(1, n):
        k = rng.random()
        a, b = sp[i - 1], sp[i]
        if k < 0.12:                      # loop: coincident end points
            b[1] = list(a[1])
        elif k < 0.22:                    # cusp: handles on the nodes
            a[2] = list(a[1]); b[0] = list(b[1])
        elif k < 0.34:                    # straight and flat: handles on the chord
            a[2] = [(2 * a[1][0] + b[1][0]) // 3, (2 * a[1][1] + b[1][1]) // 3]
            b[0] = [float(b[1][0]), float(b[1][1])]
        elif k < 0.44:                    # collinear but handle beyond the chord end
            dx, dy = b[1][0] - a[1][0], b[1][1] - a[1][1]
            a[2] = [a[1][0] + 2 * dx, a[1][1] + 2 * dy]
            b[0] = [a[1][0] - dx, a[1][1] - dy]
        elif k < 0.5:                     # everything in one point
            a[2] = list(a[1]); b[0] = list(a[1]); b[1] = list(a[1])
        elif k < 0.62:                    # exact coincidence: the t=1/2 point (P0+3P1+3P2+P3)/8 IS an end point of the piece
            h = lambda: [float(rng.randint(-4, 4)), float(rng.randint(-4, 4))]
            if rng.random() < 0.5 or i > 1:
                a[2], b[0] = h(), h()      # B(1/2) = P0:  P3 = 7 P0 - 3 P1 - 3 P2
                b[1] = [7 * a[1][c] - 3 * a[2][c] - 3 * b[0][c] for c in (0, 1)]
            else:                          # B(1/2) = P3:  P0 = 7 P3 - 3 P1 - 3 P2 (first piece only: P0 is free there)
                a[2], b[0] = h(), h()
                a[1] = [7 * b[1][c] - 3 * a[2][c] - 3 * b[0][c] for c in (0, 1)]
    return sp


def gen_nodes_float(rng, scale):
    n = rng.choice([1, 2, 2, 3, 4])
    g = lambda: [rng.uniform(-scale, scale), rng.uniform(-scale, scale)]
    sp = [[g(), g(), g()] for _ in range(n)]
    for i in range(1, n):
        k = rng.random()
        a, b = sp[i - 1], sp[i]
        if k < 0.1:
            b[1] = list(a[1])
        elif k < 0.2:
            a[2] = list(a[1]); b[0] = list(b[1])
        elif k < 0.35:                    # smooth, short handles
            for h, nd in ((a[2], a), (b[0], b)):
                h[0] = nd[1][0] + (h[0] - nd[1][0]) / 8; h[1] = nd[1][1] + (h[1] - nd[1][1]) / 8
    return sp


def gen_long_piece(rng):
    """a LONG nearly straight piece: chord of dyadic length 1e3..1e9 * flat along an axis or a diagonal (inputs exact),
    inner control points inside the chord's span bulging sideways by 0.5..4 * flat — the exact answer (flat / must split)
    is decided with a wide margin, but a cancelling distance formula loses the bulge against the length"""
    flat = rng.choice([0.5, 1.0, 0.25, 2.0, 0.125])
    e = rng.uniform(math.log2(1e3), math.log2(1e9))
    L = flat * rng.choice([1, 3, 5, 7]) * 2.0 ** int(e)
    while L > 1e9 * flat:
        L /= 2
    fr = lambda: rng.randint(1, 7) / 8
    a, c = sorted([fr(), fr()])
    b1 = flat * rng.choice([0.5, 0.75, 1.0, 1.5, 2.0, 3.0, 4.0, rng.randint(5, 32) / 8]) * rng.choice([-1, 1])
    b2 = flat * rng.choice([0.0, 0.5, 1.0, 2.0, 4.0, rng.randint(0, 32) / 8]) * rng.choice([-1, 1])
    if rng.random() < 0.5:
        b1, b2 = b2, b1
    loc = [(0.0, 0.0), (a * L, b1), (c * L, b2), (L, 0.0)]            # (along, across)
    d = rng.choice(['x', 'y', '-x', 'diag'])
    rot = {'x': lambda s, t: (s, t), 'y': lambda s, t: (-t, s), '-x': lambda s, t: (-s, -t),
           'diag': lambda s, t: (s - t, s + t)}[d]
    ox = rng.choice([0.0, 0.0, flat * 2.0 ** rng.randint(4, 24) * rng.choice([-1, 1])])
    P = [[rot(s, t)[0] + ox, rot(s, t)[1]] for s, t in loc]
    g = lambda: [P[0][0] - flat * rng.randint(0, 8), P[0][1] + flat * rng.randint(-8, 8)]
    sp = [[g(), P[0], P[1]], [P[2], P[3], [P[3][0] + flat * rng.randint(0, 8), P[3][1] + flat * rng.randint(-4, 4)]]]
    if rng.random() < 0.3:                # followed by an ordinary short piece
        q = [P[3][0] + 8 * flat, P[3][1] + 8 * flat]
        sp.append([[q[0] - 2 * flat, q[1] + flat], q, list(q)])
    return sp, flat


# ------------------------------------------------------------------------------------------ far-from-the-origin exact stream
def isrep(v):
    """the rational v is exactly a binary64 value"""
    try:
        return F(float(v)) == v
    except OverflowError:
        return False


def far_reference(pieces, flat, cap=40):
    """Domain filter of the far-from-the-origin exact stream (NOT the oracle): the statement's refinement (halve a piece
    until both inner control points are closer than flat to the chord) carried out in exact rationals; returns the number
    of resulting pieces if every point met on the way (de Casteljau points included) is exactly a binary64 value AND every
    quantity of the point-to-segment distance test (differences, dot products, squared lengths, cross product and its
    square, flat^2) is exactly representable too - then binary64 evaluates the whole refinement without a single rounding
    except the final quotient cross^2 / |chord|^2, whose comparison with the representable flat^2 is decided correctly by
    monotonicity of rounding. Returns None otherwise (case not used)."""
    f2 = F(flat) ** 2
    if not isrep(f2):
        return None
    stack = list(reversed(pieces))
    visited = leaves = 0
    while stack:
        P = stack.pop()
        visited += 1
        if visited > 2 * cap:
            return None
        if not all(isrep(c) for pt in P for c in pt):
            return None
        sx, sy = P[3][0] - P[0][0], P[3][1] - P[0][1]
        L = sx * sx + sy * sy
        flat_piece = True
        for p in (P[1], P[2]):
            dx, dy = p[0] - P[0][0], p[1] - P[0][1]
            ex, ey = p[0] - P[3][0], p[1] - P[3][1]
            cr = dx * sy - sx * dy
            if not all(isrep(q) for q in (dx * sx, dy * sy, dx * sx + dy * sy, dx * dx, dy * dy, dx * dx + dy * dy, ex * ex, ey * ey,
                                          ex * ex + ey * ey, sx * sx, sy * sy, L, dx * sy, sx * dy, cr, cr * cr)):
                return None
            if not dist2(p, P[0], P[3]) < f2:
                flat_piece = False
        if flat_piece:
            leaves += 1
            continue
        mid = lambda a, b: ((a[0] + b[0]) / 2, (a[1] + b[1]) / 2)
        m1, m2, m3 = mid(P[0], P[1]), mid(P[1], P[2]), mid(P[2], P[3])
        m4, m5 = mid(m1, m2), mid(m2, m3)
        m = mid(m4, m5)
        if not all(isrep(c) for c in m2):
            return None
        stack.append((m, m5, m3, P[3]))
        stack.append((P[0], m1, m4, m))
    return leaves if leaves <= cap else None


def gen_far_exact(rng):
    """a path FAR from the origin (|coordinates| about 2^20..2^46 in x, in y or in both) whose local geometry lives on two
    much smaller dyadic scales: a small unit e = |offset| * 2^-rho (rho 16..46: handles almost retracted, chords of
    coincident-looking nodes, flatness 1/8..3 e) and a big unit 2^a e (ordinary chords and handles). Relative to the
    coordinates the small features are below any relative epsilon (1e-6, 1e-9, 1e-12, float.epsilon*1e3 ...) although
    they are 1..64 times the flatness. All numbers dyadic: see far_reference for the exactness filter."""
    K = rng.randint(20, 46)
    off = lambda: rng.choice([-1, 1]) * rng.choice([1, 1, 1, 3, 5, 7]) * 2 ** (K - rng.choice([0, 0, 1, 2]))
    ox, oy = off(), off()
    m = rng.random()
    if m < 0.12:
        ox = 0
    elif m < 0.24:
        oy = 0
    rho = rng.randint(16, 46)
    e = F(2) ** (K - rho)
    a = rng.randint(3, max(3, min(rho - 8, 22)))
    flat = e * rng.choice([1, 1, F(1, 2), F(1, 2), F(1, 4), F(1, 4), F(1, 8), 2, F(3, 2), F(3, 4), 3])
    dirs = [(1, 0), (0, 1), (-1, 0), (0, -1), (1, 1), (1, -1), (-1, 1), (-1, -1)]
    tiny = lambda: (rng.randint(-8, 8), rng.randint(-8, 8))
    n = rng.choice([2, 2, 3, 3, 4])
    pos = (0, 0)
    nodes = []                    # [hin, p, hout] in units of e, local
    chords = []
    for i in range(n):
        if i:
            d = rng.choice(dirs)
            k = rng.random()
            if k < 0.75:
                ln = rng.choice([1, 1, 1, 3, 5]) * 2 ** a
                ch = (d[0] * ln, d[1] * ln)
            elif k < 0.9:
                ch = tiny()                                   # nodes that look coincident from far away
            else:
                ch = (0, 0)
            pos = (pos[0] + ch[0], pos[1] + ch[1])
            chords.append(ch)
        nodes.append([None, pos, None])

    def handle(p, ch, sign):
        """a handle of node p of the piece with chord ch (sign +1: outgoing, towards the chord; -1: incoming)"""
        k = rng.random()
        ac = (-ch[1], ch[0])                                  # across the chord
        nrm = max(abs(ch[0]), abs(ch[1])) or 1
        ac = (ac[0] // nrm if abs(ac[0]) >= nrm else (1 if ac[0] > 0 else -1 if ac[0] < 0 else 0),
              ac[1] // nrm if abs(ac[1]) >= nrm else (1 if ac[1] > 0 else -1 if ac[1] < 0 else 0))
        if ac == (0, 0):
            ac = rng.choice(dirs)
        if k < 0.12:
            return p                                          # retracted
        if k < 0.55:                                          # almost retracted, pointing across the chord
            h = rng.choice([1, 1, 2, 2, 3, 4, 4, 6, 8]) * rng.choice([-1, 1])
            return (p[0] + h * ac[0], p[1] + h * ac[1])
        if k < 0.7:                                           # almost retracted, any direction
            t = tiny()
            return (p[0] + t[0], p[1] + t[1])
        fr = rng.choice([F(1, 4), F(1, 2), F(1, 8), F(3, 8)]) * sign
        q = (p[0] + fr * ch[0], p[1] + fr * ch[1])            # ordinary handle along the chord ...
        if k < 0.85:
            return q
        h = rng.choice([1, 2, 4, 8, 2 ** max(0, a - 4), 2 ** max(0, a - 2)]) * rng.choice([-1, 1])
        return (q[0] + h * ac[0], q[1] + h * ac[1])           # ... bulging sideways (small or big)

    for i in range(n):
        nodes[i][0] = handle(nodes[i][1], chords[i - 1], -1) if i else (nodes[i][1] if rng.random() < 0.5 else tiny())
        nodes[i][2] = handle(nodes[i][1], chords[i], 1) if i < n - 1 else (nodes[i][1] if rng.random() < 0.5 else tiny())
    ab = [[(ox + e * F(pt[0]), oy + e * F(pt[1])) for pt in nd] for nd in nodes]
    pieces = [(ab[i - 1][1], ab[i - 1][2], ab[i][0], ab[i][1]) for i in range(1, n)]
    if not all(isrep(c) for nd in ab for pt in nd for c in pt) or not isrep(flat):
        return None
    leaves = far_reference(pieces, flat)
    if leaves is None:
        return None
    return [[[float(c) for c in pt] for pt in nd] for nd in ab], float(flat), leaves > n - 1


# ------------------------------------------------------------------------------------------ one case
def show(sp):
    return [[[repr(c) for c in pt] for pt in nd] for nd in sp]


def run_real(pu, sp, flat, cap, ptype=list):
    """`ptype`: points as lists [x, y] (cubicsuperpath) or as tuples (x, y) (the repo's own tests) — the code is
    duck-typed and comparisons like `tuple == list` are False in Python, so both representations are exercised"""
    work = Guarded([[ptype(pt) for pt in nd] for nd in sp])
    objs = list(work)
    guarded_call(pu, work, flat, cap)
    return objs, work


def guarded_call(pu, work, flat, cap):
    work.cap = cap
    old = signal.signal(signal.SIGALRM, _alarm)
    signal.setitimer(signal.ITIMER_REAL, 20.0)
    try:
        pu.subdivideCubicPath(work, flat)
    finally:
        signal.setitimer(signal.ITIMER_REAL, 0)
        signal.signal(signal.SIGALRM, old)


def second_call(ctx, pu, res, flat, exact, inp, stats):
    """state carried between calls: subdivide the SAME (already subdivided) list object again and judge that call"""
    orig2 = [[[c for c in pt] for pt in nd] for nd in res]
    objs2 = list(res)
    inp2 = dict(inp, nodes=show(orig2), sequence='second call on the same list object')
    try:
        guarded_call(pu, res, flat, len(res) + split_bound(orig2, flat * (1 if exact else 1 - 1e-6)) + 4)
    except TooMany:
        ctx.violate('subdivision does not terminate within the proven bound on the number of pieces', inp2, 'too many pieces', 'terminates')
        return
    except Exception as ex:
        ctx.violate('subdivideCubicPath raised ' + type(ex).__name__, inp2, repr(ex), 'the node list is refined in place')
        return
    judge(ctx, orig2, objs2, res, flat, exact, inp2, stats)


def judge(ctx, orig, objs, res, flat, exact, inp, stats):
    """the statement, on exact Fractions of the float values; `exact` = no margin"""
    n = len(orig)
    f2 = F(flat) ** 2
    # original node objects survive in order
    pos, j = [], 0
    for o in objs:
        while j < len(res) and res[j] is not o:
            j += 1
        if j >= len(res):
            ctx.violate('an original node object does not survive in order', inp, f'{len(res)} nodes', 'all original nodes kept, in order')
            return False
        pos.append(j); j += 1
    if pos[0] != 0 or pos[-1] != len(res) - 1:
        ctx.violate('nodes were inserted before the first or after the last original node', inp, str(pos), 'first and last node stay at the ends')
        return False
    if tuple(res[0][0]) != tuple(orig[0][0]) or tuple(res[-1][2]) != tuple(orig[-1][2]) or \
            any(tuple(res[pos[i]][1]) != tuple(orig[i][1]) for i in range(n)):
        ctx.violate('an original node moved or an outer handle (first handle-in / last handle-out) changed', inp,
                    str(show([res[0], res[-1]])), 'outer handles and node points intact')
        return False
    for i in range(1, n):
        P = [toF(orig[i - 1][1]), toF(orig[i - 1][2]), toF(orig[i][0]), toF(orig[i][1])]
        size = max(max(abs(c) for c in pt) for pt in P) or F(1)
        tolr = F(0) if exact else F(KNODE) * F(U53) * size
        t0 = F(0)
        for jj in range(pos[i - 1], pos[i]):
            a, b = res[jj], res[jj + 1]
            Q = [toF(a[1]), toF(a[2]), toF(b[0]), toF(b[1])]
            found = None
            for k in range(0, 48):
                t1 = t0 + F(1, 2 ** k)
                if t1 > 1 or (t0 * 2 ** k).denominator != 1:
                    continue
                R = restrict(P, t0, t1)
                err = max(max(abs(R[m][0] - Q[m][0]), abs(R[m][1] - Q[m][1])) for m in range(4))
                if err <= tolr or (exact and err <= F(KNODE) * F(U53) * size and not all(isrep(c) for pt in R for c in pt)):
                    # exact stream: equality, unless the restriction itself is not a binary64 point (then within the float margin)
                    found = (k, t1, err); break
            if found is None:
                ctx.violate('a resulting piece is not the original piece restricted to the next dyadic interval', inp,
                            f'original piece {i}, from t={t0}: piece {[[str(c) for c in q] for q in Q]}',
                            'restriction of the original piece to [t0, t0 + 2^-k]')
                return False
            k, t1, err = found
            stats['depth'] = max(stats['depth'], k)
            stats['err'] = max(stats['err'], float(err / (F(U53) * size)))
            d1, d2 = dist2(Q[1], Q[0], Q[3]), dist2(Q[2], Q[0], Q[3])
            if exact:
                lim = f2
            else:
                dq = math.hypot(float(max(q[0] for q in Q) - min(q[0] for q in Q)), float(max(q[1] for q in Q) - min(q[1] for q in Q)))
                band = max(REL, KBAND * U53 * dq / flat)
                lim = f2 * (1 + F(band)) ** 2
                if max(d1, d2) >= f2 and dq > 0:
                    stats['flatexcess'] = max(stats['flatexcess'], (math.sqrt(max(d1, d2)) / flat - 1) / (U53 * dq / flat))
            stats['flatratio'] = max(stats['flatratio'], float(max(d1, d2) / f2))
            if not (d1 < lim and d2 < lim):
                ctx.violate('a resulting piece is not flat: an inner control point is not closer than flat to the chord', inp,
                            f'piece {[[str(c) for c in q] for q in Q]}: squared distances {d1}, {d2}', f'< flat^2 = {f2}')
                return False
            t0 = t1
        if t0 != 1:
            ctx.violate('the pieces replacing an original piece do not tile [0,1]', inp, f'piece {i} covered up to t={t0}', 'up to t=1')
            return False
    return True


def run(ctx):
    from plotink import plot_utils as pu
    rng = ctx.rng
    stats = {'depth': 0, 'err': 0.0, 'flatratio': 0.0, 'flatexcess': 0.0}
    # does the literal 0.5 force floats? (then Fractions cannot be fed to the real code)
    probe = [[[F(0), F(0)], [F(0), F(0)], [F(0), F(4)]], [[F(4), F(4)], [F(4), F(0)], [F(4), F(0)]]]
    try:
        _, pres = run_real(pu, probe, 1, 64)
        ctx.notes.append('Fraction input comes back as ' + type(pres[1][1][0]).__name__ + ' (literal 0.5 in the beziersplitatt call)')
    except Exception as ex:     # judged below on the real streams
        ctx.notes.append(f'probe with Fraction input: {type(ex).__name__}')

    cases = []
    tags = {}            # id(node list) -> class of the exact stream (evidence path)
    nfar = ctx.n(260)
    for _ in range(2 * nfar):                      # far from the origin, two small dyadic scales (see gen_far_exact)
        if len(cases) >= nfar:
            break
        g = gen_far_exact(rng)
        if g is not None:
            cases.append((g[0], g[1]))
            tags[id(g[0])] = 'far'
    for it in range(ctx.n(4000)):
        s = rng.randint(-3, 3)
        if it % 8 == 5:                            # the same shapes at very small / very large absolute size (exact scaling)
            s = rng.choice([-1, 1]) * rng.randint(8, 60)
        sp = gen_nodes_int(rng)
        sp = [[[c * 2.0 ** s for c in pt] for pt in nd] for nd in sp]
        flat = rng.choice([1.0, 1.0, 1.5, 2.0, 3.0, 4.0]) * 2.0 ** s
        cases.append((sp, flat))
        if abs(s) > 3:
            tags[id(sp)] = 'scaled'
    cases.append(([[[0.0, 0.0], [0.0, 0.0], [0.0, 4.0]], [[4.0, 4.0], [4.0, 0.0], [4.0, 0.0]]], 1.0))
    cases.append(([[[1.0, 1.0], [2.0, 2.0], [3.0, 3.0]]], 1.0))
    cases.append(([[[0.0, 0.0], [0.0, 0.0], [4.0, 3.0]], [[-6.0, -3.0], [6.0, 0.0], [6.0, 0.0]]], 0.5))     # B(1/2) = P0
    cases.append(([[[0.0, 0.0], [6.0, 0.0], [-6.0, -3.0]], [[4.0, 3.0], [0.0, 0.0], [0.0, 0.0]]], 0.5))     # B(1/2) = P3 (mirror)
    cases.append(([[[1.0, 1.0], [1.0, 1.0], [1.0, 1.0]], [[1.0, 1.0], [1.0, 1.0], [1.0, 1.0]]], 0.25))      # all in one point
    cases.append(([[[0.0, 0.0], [0.0, 0.0], [8.0, 8.0]], [[8.0, -8.0], [0.0, 0.0], [1.0, 1.0]]], 1.0))   # loop
    npin = 6
    cases[-npin:] = [c for c in cases[-npin:] for _ in (0, 1)]      # consecutive indices: list points and tuple points
    replay_float = []
    if getattr(ctx, 'replay', None):
        try:
            rp = json.load(open(ctx.replay))
            for v in rp.get('violations', []):
                i = v.get('input', {})
                if 'nodes' in i:
                    cs = ([[[float(c) for c in pt] for pt in nd] for nd in i['nodes']], float(i['flat']))
                    for _ in (0, 1):        # twice: consecutive indices run list points and tuple points
                        (cases if i.get('stream') == 'exact' else replay_float).insert(0, cs)
        except Exception as ex:
            ctx.notes.append(f'replay not understood: {ex!r}')

    lines = []
    for sp, flat in cases:
        lines.append(f'c10 sub {FUEL} {frac_str(F(flat))} ' + ' '.join(frac_str(F(c)) for nd in sp for pt in nd for c in pt))
    outs = ctx.driver.batch(lines) if ctx.driver else [None] * len(lines)
    spec_lines, spec_want = [], []
    for ci, ((sp, flat), mout) in enumerate(zip(cases, outs)):
        ptype = tuple if ci % 2 else list
        inp = {'fn': 'subdivideCubicPath', 'stream': 'exact', 'nodes': show(sp), 'flat': repr(flat), 'points': ptype.__name__}
        tag = tags.get(id(sp))
        if tag:
            inp['class'] = tag
        bound = split_bound(sp, flat)
        # the flatness as an exact rational (same value): the unchanged code only compares and multiplies it
        flat_arg = F(flat) if ci % 3 == 0 else flat
        inp['flat_type'] = type(flat_arg).__name__
        try:
            objs, res = run_real(pu, sp, flat_arg, len(sp) + bound + 4, ptype)
        except TooMany:
            ctx.count((str(sp), flat), 'nonterminating', True)
            ctx.violate('subdivision does not terminate within the proven bound on the number of pieces', inp,
                        f'more than {bound} pieces (or 20 s)', f'at most {bound} pieces')
            continue
        except Exception as ex:
            ctx.count((str(sp), flat), 'raised', True)
            ctx.violate('subdivideCubicPath raised ' + type(ex).__name__, inp, repr(ex), 'the node list is refined in place')
            continue
        nsplit = len(res) - len(sp)
        ctx.count((str(sp), flat), 'exact:' + (tag + ':' if tag else '') + ('no-split' if nsplit == 0 else 'split'), nsplit > 0)
        if nsplit:
            ctx.sample({'nodes': show(sp), 'flat': repr(flat), 'nodes_after': len(res)})
        d0 = stats['depth']
        stats_case = {'depth': 0, 'err': 0.0, 'flatratio': 0.0, 'flatexcess': 0.0}
        ok = judge(ctx, sp, objs, res, flat, True, inp, stats_case)
        for k in stats:
            stats[k] = max(stats[k], stats_case[k])
        if mout is not None:
            got = ' '.join(frac_str(F(c)) for nd in res for pt in nd for c in pt) or '-'
            if mout != got:
                if stats_case['depth'] <= 4 or not ok:
                    ctx.disagree('subdivideCubicPath node list', inp, got[:400], mout[:400])
                else:
                    ctx.out_of_domain.append({'what': 'model != real beyond depth 4 (float products no longer exact)', 'input': inp})
        if ok and ci % 4 < 2 and not ctx.violations:
            second_call(ctx, pu, res, flat, True, inp, stats_case)
        # second opinion on the harness' restrict(): the Lean Spec on the first piece, first half
        if len(sp) >= 2 and len(spec_lines) < 300:
            P = [toF(sp[0][1]), toF(sp[0][2]), toF(sp[1][0]), toF(sp[1][1])]
            t0, t1 = F(rng.randint(0, 3), 4), F(rng.randint(1, 4), 4)
            spec_lines.append('c10 restrict ' + ' '.join(frac_str(c) for pt in P for c in pt) + f' {frac_str(t0)} {frac_str(t1)}')
            spec_want.append(' '.join(frac_str(c) for pt in restrict(P, t0, t1) for c in pt))
    if ctx.driver and spec_lines:
        for ln, w, g in zip(spec_lines, spec_want, ctx.driver.batch(spec_lines)):
            if w != g:
                ctx.disagree('Lean Spec restrict vs harness restrict', ln, w, g)

    # ---------------- random binary64 stream: implementation judged by the Spec within REL
    nfl = ctx.n(1200)
    ndeep = ctx.n(6)
    nlong = ctx.n(300)
    # pinned: 3*2^27 long, both inner control points 1.0 off the chord, flat 0.5 (must split)
    replay_float = replay_float + [([[[0.0, 0.0], [0.0, 0.0], [2.0 ** 27, 1.0]], [[2.0 ** 28, 1.0], [3 * 2.0 ** 27, 0.0], [3 * 2.0 ** 27, 0.0]]], 0.5)] * 2
    for it in range(-len(replay_float), nfl + ndeep + nlong):
        if it < 0:
            sp, flat = replay_float[-it - 1]
        elif it >= nfl + ndeep:
            sp, flat = gen_long_piece(rng)
        else:
            scale = 10.0 ** rng.randint(-2, 4)
            sp = gen_nodes_float(rng, scale)
            r = rng.randint(0, 10) if it < nfl else rng.randint(13, 18)
            flat = scale * 2.0 ** (-r) * rng.uniform(1.0, 2.0)
            near = it % 5 == 3
            if near:
                # almost retracted handles: 0.3..8 * flat off their nodes, any direction (a piece that LOOKS like a straight
                # line from far away but is not flat); mostly run far from the origin
                for nd in sp:
                    for h in (0, 2):
                        if rng.random() < 0.7:
                            ang, rad = rng.uniform(0, 2 * math.pi), flat * rng.choice([rng.uniform(0.3, 1.0), rng.uniform(1.0, 2.0), rng.uniform(2.0, 8.0)])
                            nd[h] = [nd[1][0] + rad * math.cos(ang), nd[1][1] + rad * math.sin(ang)]
            if rng.random() < (0.8 if near else 0.4):
                # far from the origin: |offset| up to 1e9 * flat (beyond that binary64 cannot resolve `flat` at all)
                ox = rng.choice([-1, 1]) * flat * 10.0 ** rng.uniform(3, 9)
                oy = rng.choice([-1, 0, 1]) * flat * 10.0 ** rng.uniform(3, 9)
                sp = [[[pt[0] + ox, pt[1] + oy] for pt in nd] for nd in sp]
        far = max(abs(c) for nd in sp for pt in nd for c in pt) > 1e6 * flat
        inp = {'fn': 'subdivideCubicPath', 'stream': 'float', 'nodes': show(sp), 'flat': repr(flat)}
        bound = split_bound(sp, flat * (1 - 1e-6))
        try:
            objs, res = run_real(pu, sp, flat, len(sp) + 2 * bound + 4, tuple if it % 2 else list)
        except TooMany:
            ctx.count((str(sp), flat), 'nonterminating', True)
            ctx.violate('subdivision does not terminate within the proven bound on the number of pieces', inp,
                        f'more than {2 * bound} pieces (or 20 s)', f'at most about {bound} pieces')
            continue
        except Exception as ex:
            ctx.count((str(sp), flat), 'raised', True)
            ctx.violate('subdivideCubicPath raised ' + type(ex).__name__, inp, repr(ex), 'the node list is refined in place')
            continue
        ctx.count((str(sp), flat), 'float:long' if it >= nfl + ndeep else 'float:deep' if it >= nfl else ('float:far' if far else 'float'), len(res) > len(sp))
        if judge(ctx, sp, objs, res, flat, False, inp, stats) and it % 4 == 0 and not ctx.violations:
            second_call(ctx, pu, res, flat, False, inp, stats)
    ctx.notes.append(f"max subdivision depth seen {stats['depth']}; float stream: max |node - Spec| = "
                     f"{stats['err']:.1f} u*|coordinate| (margin {KNODE} u); max (squared distance / flat^2) over resulting pieces "
                     f"{stats['flatratio']:.12f}; worst excess of a resulting piece over flat = {stats['flatexcess']:.3f} u*extent/flat (band constant {KBAND})")

    # =================================================================================================
    # ---- the SOURCE-REGENERATED code (translator: nested loops, in-place list rewrite): see gen_stream below
    gen_stream(ctx, pu, cases)


# Generated-code stream: Gen.subdivideCubicPath with its dependencies Gen.beziersplitatt / Gen.tpoint (translated from
# the INSTALLED ink_extensions/bezmisc.py; its sha256 is in Gen/report.json) and Gen.points_in_tolerance
# (lean/Plotink/Gen/*.lean, regenerated on every run - the definitions the C10_gen_* theorems are about) under
# Rounding.ieee against the real function: the final node list must be IDENTICAL, every double bit for bit - on the
# exact (dyadic) cases above and on fresh random binary64 cases; points as lists and as tuples, alternating.
# Fuel 3 * (number of resulting nodes) + 10 (one unit per flatness test suffices: C10_gen_terminates).
GEN_FUNCTIONS = ['tpoint', 'beziersplitatt', 'points_in_tolerance', 'subdivideCubicPath']
TRUSTED = TRUSTED + ['Gen.subdivideCubicPath / beziersplitatt / tpoint are regenerated on every run (C10_gen_* theorems); not verified, '
                     'validated by the generated-code stream of this run: the translator (nested while loops on fuel, nested '
                     'in-place stores and slice insertion as rebinding) and the Py.Val library; Rounding.ieee as binary64']


def gen_stream(ctx, pu, cases):
    if not ctx.driver:
        ctx.notes.append('generated-code stream skipped: no driver')
        return
    import time
    from .common import pyval
    t0 = time.time()
    rng = ctx.rng
    jobs = [('exact', sp, flat) for sp, flat in cases[:ctx.n(2500)]]
    for _ in range(ctx.n(500)):
        scale = 10.0 ** rng.randint(-2, 4)
        jobs.append(('float', gen_nodes_float(rng, scale), scale * 2.0 ** (-rng.randint(0, 8)) * rng.uniform(1.0, 2.0)))
    real, lines, keep = [], [], []
    for k, (kind, sp, flat) in enumerate(jobs):
        ptype = tuple if k % 2 else list
        try:
            _, res = run_real(pu, sp, flat, len(sp) + 2 * split_bound(sp, flat * (1 - 1e-6)) + 4, ptype)
            want = '(None ' + pyval([[list(pt) for pt in nd] for nd in res]) + ')'
            fuel = 3 * len(res) + 10
        except TooMany:
            continue
        except Exception as ex:
            want, fuel = 'RAISE ' + type(ex).__name__, 200
        arg = '[' + ','.join('[' + ','.join('[' + ','.join(pyval(float(c)) for c in pt) + ']' for pt in nd) + ']' for nd in sp) + ']'
        lines.append(f'gen subdivideCubicPath 15 {fuel} {arg} {pyval(float(flat))} 1')
        real.append(want)
        keep.append((kind, sp, flat, ptype.__name__))
    outs = ctx.driver.batch(lines)
    n = {'exact': 0, 'float': 0}
    bad = {'exact': 0, 'float': 0}
    for (kind, sp, flat, pt), want, g in zip(keep, real, outs):
        n[kind] += 1
        ctx.count(('gen', str(sp), flat, pt), 'gen:' + kind, False)
        if g != want and not (want.startswith('RAISE') and 'ERR' in g):
            bad[kind] += 1
            ctx.disagree('Gen.subdivideCubicPath (Rounding.ieee) vs plot_utils.subdivideCubicPath',
                         {'fn': 'subdivideCubicPath', 'gen': True, 'stream': kind, 'nodes': show(sp), 'flat': repr(flat), 'points': pt},
                         want[:400], g[:400])
    ctx.notes.append(f"generated-code stream: Gen.subdivideCubicPath (Rounding.ieee) vs the real function, node lists compared bit "
                     f"for bit: {n['exact']} exact-stream cases ({bad['exact']} differ), {n['float']} random binary64 cases "
                     f"({bad['float']} differ); {time.time() - t0:.1f}s")
