"""C02 — Jerk (T3) move prediction equals the third-order firmware recurrence.

Correspondence: Gen.move_dist_t3 / Gen.rate_t3 (Rounding.ieee, through the Lean driver) against the real
`ebb_calc.move_dist_t3` / `rate_t3`, with `mpmath.mp.dps` set to a random value in {5, 15, 30, 50} before
every call (the same value is passed to the model as the ambient precision).

Oracle (Python, written from the property statement, independent of the Lean model): the firmware
recurrence by brute force for T <= 20000 and exact-integer closed forms beyond; the closed forms are
validated against brute force in the same run (and tick by tick on one move of about 2^22 ticks). The Lean Spec (`Fw.t3Spec`, `Fw.t3Rate`) is asked through
the driver as a second opinion for small T.

This module also holds the oracle helpers and generators shared with C17 (`harness/c17.py` imports them).
"""
import os, json
import mpmath
from .common import pyval, Infra, VERIF

GEN_FUNCTIONS = ['move_dist_t3', 'rate_t3']
RULE = ('one case per input tuple (T, rate, accel, jerk, accumulator|clear) inside the firmware-valid domain; generators: '
        'exhaustive small box, the 7 outcomes of the three-level clear test, accel parity x jerk mod 6 x signs (both sides '
        'of the 0.01 snap), T in {1,2,3,4}, a rate exactly on a bound of the signed 32-bit range (end / first / vertex / '
        'interior tick equal to -2^31, 2^31-1, -(2^31-1)), magnitudes at the edge of firmware validity (jerk at the Markov limit, '
        'T up to 2^32 with zero jerk), zero jerk, solved quotient/remainder splits (total accumulator = k 2^31 + r with r at '
        'distance 0, 1, 2, 3 or about 2^j from the top / bottom / middle of [0, 2^31), by solving for the start accumulator or, with '
        'a cleared accumulator, for the start rate; multi-million-tick zero-jerk moves with |total| from 2^53 to 2^63 in '
        'both directions, and every other family), random; non-trivial = first-tick rate zero, or non-zero snap '
        'correction, or T > 4; distinct by input tuple')
TRUSTED = ['translator/pynum2lean.py (validated by this correspondence run)',
           'Rounding.ieee as model of binary64 and of mpmath at 103 bits / the ambient precision (validated by this run)',
           'T3.Contract (round-to-nearest: exact on representable values, relative error 2^-p) as hypothesis on R; '
           'instance proved for Rounding.exact only',
           'mpmath.mpf.__round__ = exact round-half-even on the rational value (read from mpmath 1.4 source)']
ASSUMPTIONS = ['integer arguments; 1 <= T <= 2^32; every per-tick rate in the signed 32-bit range [-2^31, 2^31-1] and |accel| <= 2^31 '
               '(T3.ValidT3, spelled out by theorem C02_valid_iff); explicit accumulator in [0, 2^31)',
               'rate_t3(0, ...) returns rate+accel+jerk: T = 0 is outside the property (logged only)']
STAGED = ['nothing staged: C02_rate_closed, C02_total_closed, C02_clear_iff, C02_envelope (firmware validity implies the '
          'magnitude envelope |jerk| T^2 <= 2^50, |accel| T <= 2^50, i.e. the design\'s stretch goal validT3_envelope), '
          'C02_rate, C02_dist (full error analysis: mpf(jerk)/6 inexact, 0.01 snap, round), C02_range, C02_jerk0 are proved '
          'for every R with T3.Contract R and every ambient precision',
          'C02_jerk0 is stated against the LT Spec Fw.ltSpec; equality with Gen.move_dist_lt follows with C01_main '
          '(property C01, other module); the harness checks move_dist_t3(jerk=0) == move_dist_lt on the implementation',
          'Contract Rounding.ieee (that the executable rounding used by the driver meets the contract) is not proved; '
          'it is validated differentially by this run']

from fractions import Fraction

M31 = 2 ** 31
BRUTE_MAX_T = 20000


def tdiv(a, d):
    """truncation toward zero"""
    q = abs(a) // d
    return q if a >= 0 else -q


def r_start(rate, accel, jerk):
    return rate - tdiv(accel, 2) + tdiv(jerk, 6)


def brute(T, rate, accel, jerk):
    """per-tick rates r_1..r_T, accelerations a_0..a_T and the sum of rates, by the recurrence"""
    r = r_start(rate, accel, jerk)
    a = accel
    rates, accs, tot = [], [a], 0
    for _ in range(T):
        r += a
        a += jerk
        tot += r
        rates.append(r)
        accs.append(a)
    return rates, accs, tot


def rate_at(rate, accel, jerk, k):
    """closed form of r_k (exact integers)"""
    return r_start(rate, accel, jerk) + k * accel + (jerk * k * (k - 1)) // 2


def total_at(rate, accel, jerk, T, a0):
    n = 6 * a0 + 6 * T * r_start(rate, accel, jerk) + 3 * accel * T * (T + 1) + jerk * (T - 1) * T * (T + 1)
    assert n % 6 == 0
    return n // 6


def extreme_ticks(T, accel, jerk):
    """ticks in 1..T at which |r_k| can be maximal: the ends and the integers next to the vertex"""
    ks = {1, T}
    if jerk != 0:
        v = Fraction(1, 2) - Fraction(accel, jerk)   # vertex of r(k) = r0 + k accel + jerk k(k-1)/2
        f = v.numerator // v.denominator
        for c in (f - 1, f, f + 1, f + 2):
            if 1 <= c <= T:
                ks.add(c)
    return ks


def peak_closed(T, rate, accel, jerk):
    return max(abs(rate_at(rate, accel, jerk, k)) for k in extreme_ticks(T, accel, jerk))


def rate_range(T, rate, accel, jerk):
    """(min, max) of r_k over ticks 1..T, exactly (the extremes are at the ends or next to the vertex)"""
    vals = [rate_at(rate, accel, jerk, k) for k in extreme_ticks(T, accel, jerk)]
    return min(vals), max(vals)


def firmware_valid(T, rate, accel, jerk):
    """the domain of C02/C17: 1 <= T <= 2^32, every per-tick rate within the SIGNED 32-bit range
    -2^31 <= r_k <= 2^31-1 (k = 1..T; asymmetric: -2^31 is a valid rate) and every |a_k| <= 2^31 (k = 0..T);
    evaluated exactly at the extremes of the quadratic / linear sequences"""
    if not (1 <= T <= 2 ** 32):
        return False
    if max(abs(accel), abs(accel + T * jerk)) > M31:
        return False
    lo, hi = rate_range(T, rate, accel, jerk)
    return -M31 <= lo and hi <= M31 - 1


def clear_value(rate, accel, jerk):
    """cleared accumulator by the *sequence* predicate: first non-zero rate among ticks 1..3 negative"""
    for k in (1, 2, 3):
        x = rate_at(rate, accel, jerk, k)
        if x != 0:
            return M31 - 1 if x < 0 else 0
    return 0


def clear_path(rate, accel, jerk):
    r1, r2, r3 = (rate_at(rate, accel, jerk, k) for k in (1, 2, 3))
    if r1 < 0:
        return 'r1<0'
    if r1 > 0:
        return 'r1>0'
    if r2 < 0:
        return 'r1=0,r2<0'
    if r2 > 0:
        return 'r1=0,r2>0'
    if r3 < 0:
        return 'r1=r2=0,r3<0'
    if r3 > 0:
        return 'r1=r2=0,r3>0'
    return 'r1=r2=r3=0'


CLEAR_PATHS = ['r1<0', 'r1>0', 'r1=0,r2<0', 'r1=0,r2>0', 'r1=r2=0,r3<0', 'r1=r2=0,r3>0', 'r1=r2=r3=0']


def correction_sixths(accel, jerk):
    """6 * (accel/2 - int(accel/2) + int(jerk/6) - jerk/6): zero exactly when the code snaps"""
    return 3 * (accel - 2 * tdiv(accel, 2)) + (6 * tdiv(jerk, 6) - jerk)


def spec_dist(T, rate, accel, jerk, acc, brute_tot=None):
    a0 = clear_value(rate, accel, jerk) if acc == 'clear' else acc
    tot = a0 + brute_tot if brute_tot is not None else total_at(rate, accel, jerk, T, a0)
    return (tot // M31, tot % M31)


# ------------------------------------------------------------------------------------------------
# generators (all randomness from the rng passed in)
# ------------------------------------------------------------------------------------------------
def gen_T(rng):
    return rng.choice([1, 2, 3, 4, rng.randint(1, 12), rng.randint(1, 60), rng.randint(1, 400), rng.randint(1, 4000),
                       rng.randint(4000, BRUTE_MAX_T), rng.randint(BRUTE_MAX_T, 200000)])


def gen_random(rng):
    T = gen_T(rng)
    m = rng.random()
    if m < 0.3:
        jerk = rng.randint(-12, 12)
    elif m < 0.6:
        jerk = rng.randint(-2000, 2000)
    else:
        jerk = rng.randint(-10 ** 6, 10 ** 6)
    m = rng.random()
    if m < 0.3:
        accel = rng.randint(-20, 20)
    elif m < 0.6:
        accel = rng.randint(-10 ** 5, 10 ** 5)
    else:
        accel = rng.randint(-10 ** 8, 10 ** 8)
    if rng.random() < 0.4 and jerk != 0:
        k = rng.randint(1, T)
        accel = -jerk * k + rng.randint(-abs(jerk), abs(jerk))
    m = rng.random()
    base = tdiv(accel, 2) - tdiv(jerk, 6) - accel
    if m < 0.2:
        rate = base + rng.choice([0, 0, 1, -1])
    elif m < 0.5:
        rate = rng.randint(-100, 100)
    else:
        rate = rng.randint(-(M31 - 1), M31 - 1)
    return T, rate, accel, jerk


def gen_clear_paths(rng):
    """one case per outcome of the three-level clear test, for random magnitudes"""
    out = []
    for _ in range(3):
        for path in CLEAR_PATHS:
            big = rng.choice([3, 50, 10 ** 4, 10 ** 7])
            jerk = rng.randint(-big, big)
            accel = rng.randint(-big, big)
            d = 0
            if path == 'r1<0':
                d = -rng.choice([1, 1, 2, big])
            elif path == 'r1>0':
                d = rng.choice([1, 1, 2, big])
            elif path == 'r1=0,r2<0':
                accel = -jerk - rng.choice([1, 1, 2, big])
            elif path == 'r1=0,r2>0':
                accel = -jerk + rng.choice([1, 1, 2, big])
            elif path == 'r1=r2=0,r3<0':
                jerk = -abs(jerk) - 1
                accel = -jerk
            elif path == 'r1=r2=0,r3>0':
                jerk = abs(jerk) + 1
                accel = -jerk
            else:
                jerk = 0
                accel = 0
            rate = tdiv(accel, 2) - tdiv(jerk, 6) - accel + d
            T = rng.choice([1, 2, 3, 4, rng.randint(1, 40)])
            out.append((T, rate, accel, jerk))
    return out


def gen_snap(rng):
    """both parities of accel x every residue of jerk mod 6, both signs: correction zero / non-zero"""
    out = []
    for sa in (1, -1):
        for pa in (0, 1):
            for sj in (1, -1):
                for res in range(6):
                    accel = sa * (2 * rng.randint(0, 10 ** rng.randint(0, 6)) + pa)
                    jerk = sj * (6 * rng.randint(0, 10 ** rng.randint(0, 4)) + res)
                    T = rng.choice([1, 2, 3, 5, 7, rng.randint(1, 300), rng.randint(1, 3000)])
                    rate = rng.choice([0, 1, -1, rng.randint(-10 ** 6, 10 ** 6), rng.randint(-(M31 - 1), M31 - 1)])
                    out.append((T, rate, accel, jerk))
    return out


def gen_extreme(rng):
    """magnitudes at the edge of firmware validity: jerk at the Markov limit with the vertex inside the
    move and the rate swinging between -(2^31-1) and +(2^31-1); or huge T with (almost) zero jerk"""
    T = rng.choice([rng.randint(3, 100), rng.randint(100, 10 ** 4), rng.randint(10 ** 4, 2 * 10 ** 5),
                    rng.randint(10 ** 5, 2 ** 32)])
    if rng.random() < 0.6:
        jmax = max(1, (16 * M31) // max(1, (T - 1) ** 2))
        if rng.random() < 0.5:
            jerk = rng.choice([-1, 1]) * rng.randint(max(0, jmax - 3), jmax + 1)
        else:
            jerk = rng.randint(-jmax, jmax)
        vk = rng.choice([T // 2, (T + 1) // 2, 1, T, rng.randint(1, T)])
        accel = -jerk * vk + jerk // 2 + rng.randint(-2, 2)
        s = 1 if jerk > 0 else -1
        rate = -s * (M31 - 1) - (rate_at(0, accel, jerk, vk)) + rng.randint(-2, 2)
    else:
        jerk = rng.randint(-3, 3) if T < 10 ** 5 else 0
        accel = rng.randint(-(2 * M31) // T - 2, (2 * M31) // T + 2)
        rate = rng.randint(-(M31 - 1), M31 - 1)
        if rng.random() < 0.5:   # pin one end to the limit
            rate = rng.choice([-1, 1]) * (M31 - 1) - rng.choice([0, accel * T])
    return T, rate, accel, jerk


BOUND_TARGETS = [-M31, -M31, M31 - 1, -(M31 - 1), M31 - 2, -M31 + 2]


def gen_bound(rng):
    """exact coincidences with the range bounds: the rate at the last tick, at the first tick, at the tick next to
    the vertex or at a random tick is exactly -2^31, 2^31-1, -(2^31-1) (or one/two inside); accel/jerk are
    chosen so that this tick is the extreme of the move (monotone ramp into the bound, or a vertex touching it)"""
    T = rng.choice([1, 2, 3, 4, rng.randint(2, 12), rng.randint(2, 60), rng.randint(2, 3000), rng.randint(3000, 100000)])
    v = rng.choice(BOUND_TARGETS)
    s = -1 if v < 0 else 1                      # the bound is approached from inside: rates move in direction s
    shape = rng.choice(['end', 'end', 'start', 'vertex', 'flat', 'any'])
    amax = max(1, (M31 // 2) // T)
    if shape == 'flat':
        accel, jerk, k = 0, 0, rng.randint(1, T)
    elif shape == 'end':                        # monotone toward the bound, reached at tick T
        k = T
        jerk = s * rng.choice([0, 0, 1, 2, 6, rng.randint(0, max(1, amax // T))])
        accel = s * rng.choice([0, 1, 2, 10, rng.randint(0, amax)])
    elif shape == 'start':                      # leaves the bound at tick 1
        k = 1
        jerk = -s * rng.choice([0, 0, 1, 3, rng.randint(0, max(1, amax // T))])
        accel = -s * rng.choice([0, 1, 2, 60, rng.randint(0, amax)])
    elif shape == 'vertex':                     # parabola touching the bound at its vertex tick k
        k = rng.randint(1, T)
        jerk = -s * rng.choice([1, 2, 6, 7, rng.randint(1, max(1, (4 * M31) // (T * T)))])
        accel = -jerk * k + jerk // 2 + rng.choice([0, 0, 1, -1])
    else:
        k = rng.randint(1, T)
        jerk = rng.randint(-6, 6)
        accel = rng.randint(-amax, amax)
    rate = v - rate_at(0, accel, jerk, k)       # r_k is affine in `rate` with slope 1
    if shape == 'vertex':                       # put the true extreme (a tick next to k) on the bound
        lo, hi = rate_range(T, rate, accel, jerk)
        rate += (v - lo) if s < 0 else (v - hi)
    return T, rate, accel, jerk


def gen_vertex(rng):
    """C17: place the vertex t* = 1/2 - accel/jerk of the rate parabola at chosen spots of the move"""
    T = rng.choice([1, 2, 3, 4, 5, 6, rng.randint(5, 40), rng.randint(40, 3000), rng.randint(3000, 150000)])
    big = rng.choice([1, 2, 3, 7, 100, 10 ** 4, 10 ** 6])
    jerk = rng.choice([-1, 1]) * rng.randint(1, big)
    if T > 1000:
        jerk = rng.choice([-1, 1]) * rng.randint(1, max(1, (8 * M31) // (T * T)))
    spot = rng.choice(['1', '1.5', '2', 'mid', 'T-2', 'T-1.5', 'T-1', 'T', 'before', 'after', 'rand', '2.5', 'T-2.5'])
    tstar2 = {  # twice the target vertex
        '1': 2, '1.5': 3, '2': 4, '2.5': 5, 'mid': T + rng.randint(-1, 1), 'T-2': 2 * T - 4, 'T-2.5': 2 * T - 5,
        'T-1.5': 2 * T - 3, 'T-1': 2 * T - 2, 'T': 2 * T, 'before': -rng.randint(0, 2 * T + 4),
        'after': 2 * T + rng.randint(1, 2 * T + 4), 'rand': rng.randint(0, 2 * T + 2)}[spot]
    # accel = jerk (1 - 2 t*) / 2 ; nudge by 0, +-1, +-2 to land on either side
    num = jerk * (1 - tstar2)
    accel = num // 2 + rng.choice([0, 0, 0, 1, -1, 2, -2])
    m = rng.random()
    if m < 0.4:
        rate = rng.randint(-50, 50) * max(1, abs(jerk))
    elif m < 0.7:
        # make the extremum value small/large relative to the ends: centre the parabola near zero
        kv = max(1, min(T, tstar2 // 2))
        rate = -rate_at(0, accel, jerk, kv) + rng.randint(-3 * abs(jerk) - 3, 3 * abs(jerk) + 3)
    else:
        rate = rng.randint(-(M31 - 1), M31 - 1)
    return T, rate, accel, jerk


# ---- solved quotient/remainder splits: the total accumulator lands exactly on (or next to) a multiple of 2^31 ----
SPLIT_WHERE = ['top', 'top', 'top', 'bottom', 'bottom', 'mid']


def split_target(rng, where):
    """a remainder in [0, 2^31): at distance d from the top (2^31-1-d), from the bottom (d) or from the middle; d = 0, 1,
    2, 3, or next to a power of two up to 2^22 (a quotient rounded to p bits crosses an integer inside a window whose
    width is a power of two that depends on p and on the size of the total)"""
    j = rng.choice([rng.randint(1, 4), rng.randint(1, 12), rng.randint(1, 22)])
    d = rng.choice([0, 0, 0, 0, 1, 1, 2, 3, 2 ** j, 2 ** j - 1, 2 ** j + 1, rng.randint(0, 2 ** j)])
    if where == 'top':
        return M31 - 1 - d
    if where == 'bottom':
        return d
    return (M31 // 2 + rng.choice([-1, 1]) * d) % M31


def gen_long_flat(rng, sign, T=None, full=False):
    """zero-jerk move of 2^22 .. 2^32 ticks (no other jerk is firmware-valid at that length: a quadratic rate with
    leading coefficient jerk/2 swings by >= |jerk| (T-1)^2 / 8 > 2^32) running close to full speed in direction `sign`:
    net travel 2^22 .. 2^32 steps, |total accumulator| 2^53 .. 2^63"""
    T = T or rng.choice([2 ** 22 + rng.randint(0, 64), rng.randint(2 ** 22, 2 ** 23), rng.randint(2 ** 22, 2 ** 26),
                         2 ** rng.randint(22, 31) + rng.randint(-3, 3), rng.randint(2 ** 26, 2 ** 32),
                         2 ** 32 - rng.randint(0, 2)])
    T = max(2 ** 22, T)
    amax = (2 * (M31 - 1)) // (T - 1)
    accel = rng.choice([0, 0, 0, rng.choice([-1, 1]), rng.choice([-1, 1]), rng.randint(-amax, amax),
                        rng.choice([-1, 1]) * max(0, amax - rng.randint(0, 1))])
    if full:                                                    # stays next to full speed for the whole move
        accel = rng.randint(-min(amax, 3), min(amax, 3))
    if abs(accel) > amax:
        accel = 0
    span = (T - 1) * accel
    lo, hi = -M31 - min(0, span), (M31 - 1) - max(0, span)      # tick-1 rate with r_1 and r_T both in range
    u = rng.choice([0, 0, 0, rng.randint(0, 3), rng.randint(0, (hi - lo) // 4), rng.randint(0, (hi - lo) // 2),
                    rng.randint(0, hi - lo)])
    u = rng.randint(0, 3) if full else u
    r1 = hi - u if sign > 0 else lo + u
    rate = r1 - accel + tdiv(accel, 2)
    return T, rate, accel, 0


def gen_split(rng, cls=None, sign=None, where=None, mode=None):
    """a move whose exact total accumulator is k 2^31 + r with r SOLVED FOR (top / bottom / middle of [0, 2^31) and
    neighbours): position = floor(total / 2^31) and the remainder are then one rounding error away from a wrong answer.
    cls 'long': zero-jerk moves with |total| up to 2^63, both directions; cls 'any': a move of any other family
    (jerk at the Markov limit, rate on a range bound, random).  mode 'given': the start accumulator is solved for;
    mode 'clear': the accumulator is cleared (0 / 2^31-1 by the clear rule) and the start RATE is solved for
    (total is affine in rate with slope T: T odd is invertible mod 2^31)."""
    cls = cls or rng.choice(['long', 'long', 'long', 'any'])
    sign = sign or rng.choice([-1, 1])
    where = where or rng.choice(SPLIT_WHERE)
    mode = mode or rng.choice(['given', 'given', 'clear'])
    base = None
    if cls == 'long':
        base = gen_long_flat(rng, sign)
    else:
        for _ in range(20):
            c = rng.choice([gen_extreme, gen_extreme, gen_bound, gen_random])(rng)
            if c[0] >= 2 and firmware_valid(*c):
                base = c
                break
    if base is None or not firmware_valid(*base):
        base = gen_long_flat(rng, sign)
        base = base if firmware_valid(*base) else (2 ** 22 + 1, sign * (M31 - 1), 0, 0)
    T, rate, accel, jerk = base
    r = split_target(rng, where)
    if mode == 'clear':
        if T % 2 == 0:
            T2 = T - 1 if T > 1 else T + 1
            if firmware_valid(T2, rate, accel, jerk):
                T = T2
        if T % 2 == 1:
            inv = pow(T, -1, M31)
            for a0 in ((M31 - 1, 0) if sign < 0 else (0, M31 - 1)):
                d0 = ((r - total_at(rate, accel, jerk, T, a0)) * inv) % M31
                for d in ((d0 - M31, d0) if sign > 0 else (d0, d0 - M31)):   # keep the rate large in direction `sign`
                    cand = (T, rate + d, accel, jerk)
                    if firmware_valid(*cand) and clear_value(*cand[1:]) == a0:
                        assert spec_dist(T, rate + d, accel, jerk, 'clear')[1] == r
                        return cand + ('clear',)
    acc = (r - total_at(rate, accel, jerk, T, 0)) % M31
    assert spec_dist(T, rate, accel, jerk, acc)[1] == r
    return T, rate, accel, jerk, acc


def gen_split_fixed(rng):
    """one solved split per (class, direction, end of the remainder range, accumulator mode): always generated"""
    out = []
    for cls in ('long', 'any'):
        for sign in (1, -1):
            for where in ('top', 'bottom'):
                for mode in ('given', 'clear'):
                    for _ in range(40):
                        c = gen_split(rng, cls, sign, where, mode)
                        pos, rem = spec_dist(*c)
                        if cls == 'any' or ((pos >= 2 ** 22 if sign > 0 else pos < -2 ** 22) and min(rem, M31 - 1 - rem) <= 3
                                            and (c[4] == 'clear') == (mode == 'clear')):
                            break               # 'long': really beyond 2^53 in that direction, remainder within 3 of the end
                    out.append(c)
    return out


def brute_long(T, rate, accel, jerk):
    """the recurrence tick by tick without storing the sequence: (sum of rates, last rate, min rate, max rate, max |accel|)"""
    r = r_start(rate, accel, jerk)
    a = accel
    tot, lo, hi, amx = 0, None, None, abs(a)
    for _ in range(T):
        r += a
        a += jerk
        tot += r
        if lo is None or r < lo:
            lo = r
        if hi is None or r > hi:
            hi = r
        if abs(a) > amx:
            amx = abs(a)
    return tot, r, lo, hi, amx


# ------------------------------------------------------------------------------------------------
# the check
# ------------------------------------------------------------------------------------------------
DPS = [5, 15, 30, 50]


def small_box(lim, tmax):
    for T in range(1, tmax + 1):
        for rate in range(-lim, lim + 1):
            for accel in range(-lim, lim + 1):
                for jerk in range(-lim, lim + 1):
                    yield T, rate, accel, jerk


def load_first(ctx, prop, width):
    """cases that run before anything random: a replay file (if given) and the committed corpus"""
    first = []
    if getattr(ctx, 'replay', None):
        try:
            rep = json.load(open(ctx.replay))
            for v in rep.get('violations', []) + rep.get('model_vs_implementation', []):
                i = v.get('input', {})
                t = (i.get('T'), i.get('rate'), i.get('accel'), i.get('jerk'), i.get('accum', 'clear'))
                if all(isinstance(x, int) for x in t[:4]):
                    first.append(t[:width])
        except (OSError, ValueError) as ex:
            raise Infra(f'cannot read replay file {ctx.replay}: {ex}')
    path = os.path.join(VERIF, 'corpus', prop, 'cases.json')
    if os.path.exists(path):
        for c in json.load(open(path))['cases']:
            first.append(tuple(c)[:width])
    return first


def gen_cases(ctx):
    rng = ctx.rng
    first = load_first(ctx, 'C02', 5)
    cases = []
    lim = 2 if ctx.tier == 'quick' and not ctx.tie_broken else 3
    cases += list(small_box(lim, 5))
    cases += gen_clear_paths(rng)
    cases += gen_snap(rng)
    for _ in range(ctx.n(4000)):
        cases.append(gen_random(rng))
    for _ in range(ctx.n(4000)):
        cases.append(gen_extreme(rng))
    for _ in range(ctx.n(3000)):     # a rate exactly on a bound of the signed 32-bit range
        cases.append(gen_bound(rng))
    for _ in range(ctx.n(1500)):     # zero jerk, any T
        T = rng.choice([1, 2, 3, rng.randint(1, 1000), rng.randint(1, 2 ** 20), rng.randint(1, 2 ** 32)])
        accel = rng.randint(-(2 * M31) // T - 1, (2 * M31) // T + 1)
        rate = rng.choice([rng.randint(-(M31 - 1), M31 - 1), tdiv(accel, 2) - accel, tdiv(accel, 2) - accel + rng.choice([-1, 1])])
        cases.append((T, rate, accel, 0))
    for _ in range(ctx.n(600)):
        cases += gen_clear_paths(rng)[:7]
        cases += rng.sample(gen_snap(rng), 6)
    out = list(first)
    for (T, rate, accel, jerk) in cases:
        acc = rng.choice(['clear', 'clear', 'clear', 0, M31 - 1, rng.randint(0, M31 - 1)])
        out.append((T, rate, accel, jerk, acc))
    # the exhaustive box also with every accumulator kind for the clear-sensitive cases
    for (T, rate, accel, jerk) in small_box(1, 3):
        for acc in ('clear', 0, M31 - 1):
            out.append((T, rate, accel, jerk, acc))
    # solved quotient/remainder splits (total = k 2^31 + r, r at the ends of [0, 2^31)), |total| up to 2^63, both directions
    out += gen_split_fixed(rng)
    for _ in range(ctx.n(1200)):
        out.append(gen_split(rng))
    return out


def run(ctx):
    from plotink import ebb_calc
    rng = ctx.rng
    cases = gen_cases(ctx)
    # one multi-million-tick move per run is also walked tick by tick (the closed-form oracle is otherwise validated
    # against the recurrence for T <= BRUTE_MAX_T only); its accumulator is solved for the top of the remainder range
    long_brute = None
    if not getattr(ctx, '_in_sitecov', False):
        b = gen_long_flat(rng, rng.choice([-1, 1]), T=2 ** 22 + 2 ** 14 + rng.randint(1, 64), full=True)
        if firmware_valid(*b):
            long_brute = b + ((M31 - 1 - rng.choice([0, 0, 1]) - total_at(b[1], b[2], b[3], b[0], 0)) % M31,)
            cases.append(long_brute)
    lines, meta = [], []
    for c in cases:
        T, rate, accel, jerk, acc = c
        dps = rng.choice(DPS)
        a = 'clear' if acc == 'clear' else str(acc)
        lines.append(f'gen move_dist_t3 {dps} {T} {rate} {accel} {jerk} {a}')
        lines.append(f'gen rate_t3 {dps} {T} {rate} {accel} {jerk}')
        small = T <= 300
        lines.append(f'c02 spec {T} {rate} {accel} {jerk} {a}' if small else 'c02 none')
        lines.append(f'c02 rate {T} {rate} {accel} {jerk}' if small else 'c02 none')
        meta.append((c, dps))
    outs = ctx.driver.batch(lines) if ctx.driver else [None] * len(lines)
    closed_checked = 0
    judged = []
    for i, (c, dps) in enumerate(meta):
        T, rate, accel, jerk, acc = c
        m_dist, m_rate, s_dist, s_rate = outs[4 * i:4 * i + 4]
        inp = {'T': T, 'rate': rate, 'accel': accel, 'jerk': jerk, 'accum': acc, 'mp.dps': dps}
        valid = firmware_valid(T, rate, accel, jerk)
        # ---- implementation ----
        try:
            mpmath.mp.dps = dps
            g_dist = ebb_calc.move_dist_t3(T, rate, accel, jerk, acc)
            mpmath.mp.dps = dps
            g_rate = ebb_calc.rate_t3(T, rate, accel, jerk)
        except Exception as ex:
            if valid:
                ctx.count(c, 'raised')
                ctx.violate(f'move_dist_t3/rate_t3 raised {type(ex).__name__}', inp, repr(ex), 'a prediction')
            else:
                ctx.out_of_domain.append({'input': inp, 'impl': repr(ex)})
            continue
        i_dist, i_rate = pyval(tuple(g_dist)), pyval(g_rate)
        # ---- correspondence (translator + Rounding.ieee) ----
        if m_dist is not None:
            for what, impl, model in (('move_dist_t3', i_dist, m_dist), ('rate_t3', i_rate, m_rate)):
                if impl != model:
                    if valid:
                        ctx.disagree(what, inp, impl, model)
                    else:
                        ctx.out_of_domain.append({'fn': what, 'input': inp, 'impl': impl, 'model': model})
        if not valid:
            continue
        # ---- oracle: the firmware recurrence ----
        if T <= BRUTE_MAX_T:
            rates, accs, tot = brute(T, rate, accel, jerk)
            assert -M31 <= min(rates) and max(rates) <= M31 - 1 and max(abs(x) for x in accs) <= M31, \
                'harness bug: closed-form validity test disagrees with brute force'
            want_rate = rates[-1]
            want_dist = spec_dist(T, rate, accel, jerk, acc, brute_tot=tot)
            # validate the closed forms used beyond BRUTE_MAX_T
            if rate_at(rate, accel, jerk, T) != want_rate or spec_dist(T, rate, accel, jerk, acc) != want_dist \
                    or peak_closed(T, rate, accel, jerk) != max(abs(x) for x in rates):
                raise Infra(f'harness bug: closed form disagrees with brute-force recurrence on {inp}')
            closed_checked += 1
        else:
            want_rate = rate_at(rate, accel, jerk, T)
            want_dist = spec_dist(T, rate, accel, jerk, acc)
            if c is long_brute:
                tot, last, lo_b, hi_b, amx = brute_long(T, rate, accel, jerk)
                if last != want_rate or spec_dist(T, rate, accel, jerk, acc, brute_tot=tot) != want_dist or \
                        (lo_b, hi_b) != rate_range(T, rate, accel, jerk) or amx > M31:
                    raise Infra(f'harness bug: closed form disagrees with the tick-by-tick recurrence on {inp}')
                ctx.notes.append(f'closed forms also validated tick by tick on one move of {T} ticks '
                                 f'(position {want_dist[0]}, remainder {want_dist[1]})')
        cs = correction_sixths(accel, jerk)
        path = (clear_path(rate, accel, jerk) if acc == 'clear' else 'given') + ('|snap' if cs == 0 else '|nosnap') + \
               ('|brute' if T <= BRUTE_MAX_T else '|closed')
        nontriv = (acc == 'clear' and rate_at(rate, accel, jerk, 1) == 0) or cs != 0 or T > 4
        ctx.count(c, path, nontriv)
        lo, hi = rate_range(T, rate, accel, jerk)
        for tag, hit in (('end=-2^31', want_rate == -M31), ('end=2^31-1', want_rate == M31 - 1),
                         ('end=-(2^31-1)', want_rate == -(M31 - 1)), ('min=-2^31 inside', lo == -M31 and want_rate != -M31),
                         ('max=2^31-1 inside', hi == M31 - 1 and want_rate != M31 - 1)):
            if hit:
                ctx.paths['bound:' + tag] = ctx.paths.get('bound:' + tag, 0) + 1
        size = 'total>=2^53' if want_dist[0] >= 2 ** 22 else 'total<-2^53' if want_dist[0] < -2 ** 22 else None
        end = 'top' if want_dist[1] >= M31 - 4 else 'bottom' if want_dist[1] <= 3 else None
        if size and end:
            tag = f'split:{size},remainder at the {end}'
            ctx.paths[tag] = ctx.paths.get(tag, 0) + 1
        judged.append((c, dps, want_dist, want_rate))
        ctx.sample({'input': inp, 'impl': [i_dist, i_rate], 'required': [pyval(want_dist), want_rate]})
        if s_dist not in (None, 'BAD') and (s_dist != pyval(want_dist) or s_rate != str(want_rate)):
            raise Infra(f'Lean Spec (Fw.t3Spec/Fw.t3Rate) and the Python oracle differ on {inp}: {s_dist} {s_rate} '
                        f'vs {pyval(want_dist)} {want_rate}')
        if tuple(g_dist) != want_dist or not all(type(x) is int for x in g_dist):
            ctx.violate('move_dist_t3 differs from the firmware recurrence', inp, i_dist, pyval(want_dist))
        if g_rate != want_rate or type(g_rate) is not int:
            ctx.violate('rate_t3 differs from the firmware rate at tick T', inp, i_rate, str(want_rate))
        if jerk == 0:
            mpmath.mp.dps = dps
            g_lt = ebb_calc.move_dist_lt(rate, accel, T, acc)
            if tuple(g_lt) != tuple(g_dist):
                ctx.violate('zero jerk: move_dist_t3 differs from move_dist_lt', inp, i_dist, pyval(tuple(g_lt)))
    # ---- sequences of related calls in one process: no reset of mp.dps between calls (each call inherits what the
    # previous one left behind), neighbours share all but one argument, every call of the sequence is judged ----
    seq = rng.sample(judged, min(len(judged), ctx.n(1500)))
    seq.sort(key=lambda j: (j[0][0], j[0][2], j[0][3]))          # same T/accel/jerk next to each other
    seq = seq + [j for j in reversed(seq)][:len(seq) // 2]        # and the same inputs again later in the process
    mpmath.mp.dps = rng.choice(DPS)
    for n, (c, dps, want_dist, want_rate) in enumerate(seq):
        T, rate, accel, jerk, acc = c
        if n % 7 == 0:
            mpmath.mp.dps = rng.choice(DPS)
        inp = {'T': T, 'rate': rate, 'accel': accel, 'jerk': jerk, 'accum': acc, 'mp.dps': mpmath.mp.dps,
               'stream': f'call {n} of a sequence without precision reset'}
        try:
            order = rng.random() < 0.5
            if order:
                g_rate = ebb_calc.rate_t3(T, rate, accel, jerk)
            g_dist = ebb_calc.move_dist_t3(T, rate, accel, jerk, acc)
            if not order:
                g_rate = ebb_calc.rate_t3(T, rate, accel, jerk)
        except Exception as ex:
            ctx.violate(f'move_dist_t3/rate_t3 raised {type(ex).__name__} (sequence)', inp, repr(ex), 'a prediction')
            continue
        ctx.count(('seq', n, c), 'sequence', False)
        if tuple(g_dist) != want_dist:
            ctx.violate('move_dist_t3 differs from the firmware recurrence (call sequence)', inp, pyval(tuple(g_dist)),
                        pyval(want_dist))
        if g_rate != want_rate:
            ctx.violate('rate_t3 differs from the firmware rate at tick T (call sequence)', inp, pyval(g_rate),
                        str(want_rate))
    # ---- T = 0 and non-integer-valued floats: outside the property, logged only ----
    for (rate, accel, jerk) in ((5, 3, 1), (0, 0, 0)):
        mpmath.mp.dps = 30
        got = ebb_calc.rate_t3(0, rate, accel, jerk)
        ctx.out_of_domain.append({'fn': 'rate_t3', 'input': {'T': 0, 'rate': rate, 'accel': accel, 'jerk': jerk},
                                  'impl': pyval(got), 'note': 'T = 0 is outside T >= 1'})
    ctx.notes.append(f'closed forms validated against brute-force recurrence on {closed_checked} cases in this run')
    ctx.notes.append('every firmware-valid input satisfies the theorems\' envelope (C02_envelope is proved), so there is '
                     'no firmware-valid input outside the proved domain')
    # every feasible model path must have been exercised
    need = [p + s for p in CLEAR_PATHS for s in ('|snap|brute', '|nosnap|brute')] + \
           ['given|snap|brute', 'given|nosnap|brute', 'given|snap|closed', 'given|nosnap|closed']
    need = [p for p in need if not p.startswith('r1=r2=r3=0|nosnap')]   # accel = jerk = 0 always snaps
    need += ['bound:end=-2^31', 'bound:end=2^31-1', 'bound:end=-(2^31-1)', 'bound:min=-2^31 inside',
             'bound:max=2^31-1 inside', 'sequence']
    need += [f'split:{size},remainder at the {end}' for size in ('total>=2^53', 'total<-2^53') for end in ('top', 'bottom')]
    missing = [p for p in need if ctx.paths.get(p, 0) == 0]
    if missing:
        raise Infra(f'model paths without input: {missing}')
    # ======== "sitecov" input stream - self-contained, implemented at the end of this file; keep this call last ========
    _sitecov_tail(ctx)


# ================================================================================================
# "sitecov" input stream (harness/sitecov.py, DESIGN 3c): every comparison of the CURRENT source of move_dist_t3 and
# rate_t3 is driven to lhs == rhs, +-1 and both outcomes; the inputs found are pushed through `run` itself (same real
# code, driver comparison, oracle and ctx.count - additionally counted under the path 'sitecov').
# Self-contained block at the end of the file on purpose (the body of `run` is untouched except for its last line).
# ================================================================================================
def _sitecov_domain(c):
    T, rate, accel, jerk = c[:4]
    if not all(type(x) is int for x in (T, rate, accel, jerk)):
        return False
    if len(c) > 4 and not (c[4] == 'clear' or (type(c[4]) is int and 0 <= c[4] < M31)):
        return False
    return firmware_valid(T, rate, accel, jerk)


def _sitecov_rerun(ctx, cases, prune_tag):
    """push `cases` through run() itself: gen_cases is replaced for the duration of the nested call"""
    g = globals()
    orig = g['gen_cases']
    g['gen_cases'] = lambda _ctx: list(cases)
    n_notes, n_ood = len(ctx.notes), len(ctx.out_of_domain)
    ctx._in_sitecov = True
    try:
        g['run'](ctx)
    finally:
        g['gen_cases'] = orig
        ctx._in_sitecov = False
    del ctx.notes[n_notes:]                       # the nested pass repeats the closing notes of the module
    ctx.out_of_domain[n_ood:] = [o for o in ctx.out_of_domain[n_ood:] if prune_tag not in str(o)]


def _sitecov_tail(ctx):
    if getattr(ctx, '_in_sitecov', False) or getattr(ctx, 'replay', None) or os.environ.get('SITECOV_OFF'):
        return
    from . import sitecov
    from plotink import ebb_calc
    rng = ctx.rng
    # seeds: a sample of this module's own generated in-domain inputs
    pool = [gen_random(rng) for _ in range(400)]
    if not os.environ.get('SITECOV_ONLY'):
        pool += [gen_extreme(rng) for _ in range(150)] + gen_clear_paths(rng) + gen_snap(rng)
    pool = [c for c in pool if firmware_valid(*c)]
    seeds4 = rng.sample(pool, min(len(pool), 250))
    seeds5 = [c + (rng.choice(['clear', 'clear', 0, M31 - 1, rng.randint(0, M31 - 1)]),) for c in seeds4]
    saved = mpmath.mp.dps
    sitecov.stream(ctx, 'move_dist_t3', ebb_calc.move_dist_t3, seeds5, rerun=lambda cs: _sitecov_rerun(ctx, cs, 'T = 0 is outside'),
                   moves=sitecov.Moves(domain=_sitecov_domain, lo={0: 1, 4: 0}, hi={0: 2 ** 32, 4: M31 - 1}), budget=3000)
    sitecov.stream(ctx, 'rate_t3', ebb_calc.rate_t3, seeds4, rerun=lambda cs: _sitecov_rerun(ctx, cs, 'T = 0 is outside'),
                   to_case=lambda a: a + (rng.choice(['clear', 0, M31 - 1]),),
                   moves=sitecov.Moves(domain=_sitecov_domain, lo={0: 1}, hi={0: 2 ** 32}), budget=600)
    mpmath.mp.dps = saved


if os.environ.get('SITECOV_ONLY'):
    # EXPERIMENT ONLY (measures what the sitecov stream finds on its own): the structured generators, the small box and
    # the corpus are disabled - inputs = the random family + the sitecov stream; the path-coverage requirement, which
    # the random family alone does not meet, becomes a note.
    _full_run = run

    def gen_cases(ctx):       # noqa: F811
        rng = ctx.rng
        return [gen_random(rng) + (rng.choice(['clear', 'clear', 'clear', 0, M31 - 1, rng.randint(0, M31 - 1)]),)
                for _ in range(ctx.n(3000))]

    def run(ctx):             # noqa: F811
        try:
            _full_run(ctx)
        except Infra as ex:
            if 'paths without input' not in str(ex):
                raise
            if not getattr(ctx, '_in_sitecov', False):
                ctx.notes.append('SITECOV_ONLY: ' + str(ex))
                _sitecov_tail(ctx)
