"""X01 — supplementary (NOT one of the twenty listed properties, not registered in MANIFEST.json): geometry/kinematics
helpers of plot_utils — distance, dotProductXY, position_scale, points_near, vInitial_VF_A_Dx, vFinal_Vi_A_Dx.

Correspondence: the regenerated definitions run under Rounding.ieee must equal CPython bit for bit (value and type).
A small statement-level oracle (exact Fraction arithmetic on the float inputs) judges the implementation as well."""
import math
from fractions import Fraction
from .common import pyval

GEN_FUNCTIONS = ['distance', 'dotProductXY', 'position_scale', 'points_near', 'points_equal', 'square_dist', 'vInitial_VF_A_Dx', 'vFinal_Vi_A_Dx']
RULE = ('int/float argument mixtures: small integers (exact Pythagorean / kinematic triples), random floats over 30 binades, '
        'values at the clamp bounds +-1 of dotProductXY and at radicand 0 of the kinematic helpers; a case is non-trivial when '
        'a branch other than the plain one is taken or rounding occurs (float arguments); distinct by (function, arguments)')
TRUSTED = ['translator/pynum2lean.py (validated by this correspondence run)',
           'Rounding.ieee as model of binary64 +,-,*,sqrt (contract proved: contract_ieee; agreement with CPython observed here)']
ASSUMPTIONS = ['arguments are finite ints/floats of magnitude below 1e150 (no overflow to inf in a product)']
EVIDENCE_DIR = 'supplementary'


def num(rng):
    k = rng.random()
    if k < 0.35:
        return rng.randint(-40, 40)
    if k < 0.5:
        return float(rng.randint(-1000, 1000))
    if k < 0.9:
        return rng.uniform(-1, 1) * 2.0 ** rng.randint(-15, 15)
    return rng.choice([0, 0.0, 1, -1, 0.5, 1e-9, 3, 4, 5, 12, 13, 1e6, -1e6])


def lst(v):
    return '[' + ','.join(pyval(x) for x in v) + ']'


def run(ctx):
    from plotink import plot_utils as pu
    rng = ctx.rng
    lines, meta = [], []

    def add(fn, args, line_args):
        lines.append(f'gen {fn} 15 ' + ' '.join(line_args))
        meta.append((fn, args))
    triples = [(3, 4, 5), (5, 12, 13), (8, 15, 17), (20, 21, 29), (0, 7, 7), (0, 0, 0), (119, 120, 169)]
    for a, b, c in triples:
        for sa in (1, -1):
            add('distance', (sa * a, b), [pyval(sa * a), pyval(b)])
            add('distance', (float(sa * a), float(b)), [pyval(float(sa * a)), pyval(float(b))])
    for _ in range(ctx.n(1500)):
        x, y = num(rng), num(rng)
        add('distance', (x, y), [pyval(x), pyval(y)])
        a, b = [num(rng), num(rng)], [num(rng), num(rng)]
        if rng.random() < 0.4:       # unit-ish vectors: dot products near the clamp bounds
            t = rng.uniform(0, 2 * math.pi)
            a = [math.cos(t), math.sin(t)]
            b = rng.choice([a, [-a[0], -a[1]], [math.cos(t + 1e-8), math.sin(t + 1e-8)], [1.0000000001 * a[0], a[1]]])
        add('dotProductXY', (a, b), [lst(a), lst(b)])
        add('square_dist', (a, b), [lst(a), lst(b)])
        sq = pu.square_dist(a, b)
        tol = rng.choice([sq, math.nextafter(float(sq), math.inf), math.nextafter(float(sq), -math.inf), num(rng), 0, 1])
        add('points_near', (a, b, tol), [lst(a), lst(b), pyval(tol)])
        # points_equal: pairs at relative distance around math.isclose's default 1e-9, exact repeats, int/float mixtures
        pa = [num(rng), num(rng)]
        rel = rng.choice([0, 1e-9, 0.99e-9, 1.01e-9, 1.0000001e-9, 0.9999999e-9, 2e-9, 1e-12, 1e-6])
        pb = [pa[0] * (1 + rng.choice([-1, 1]) * rel) if rng.random() < 0.8 else num(rng),
              pa[1] * (1 + rng.choice([-1, 1]) * rng.choice([0, rel])) if rng.random() < 0.8 else num(rng)]
        if rng.random() < 0.2:
            pb = [math.nextafter(float(pa[0]), math.inf), pa[1]]
        add('points_equal', (pa, pb), [lst(pa), lst(pb)])
        code = rng.choice([0, 1, 2, 3, -1, 1.0, 2.0])
        add('position_scale', (x, y, code), [pyval(x), pyval(y), pyval(code)])
        v, acc, d = num(rng), num(rng), num(rng)
        if rng.random() < 0.3:       # integer kinematics with an exact root, and radicand exactly 0
            vi, acc, d = rng.randint(0, 50), rng.randint(-5, 5), rng.randint(0, 40)
            r2 = vi * vi + 2 * acc * d
            v = vi if rng.random() < 0.5 or r2 < 0 else math.isqrt(r2)
        add('vInitial_VF_A_Dx', (v, acc, d), [pyval(v), pyval(acc), pyval(d)])
        add('vFinal_Vi_A_Dx', (v, acc, d), [pyval(v), pyval(acc), pyval(d)])
    outs = ctx.driver.batch(lines) if ctx.driver else [None] * len(lines)
    for (fn, args), out in zip(meta, outs):
        inp = {'fn': fn, 'args': [pyval(a) for a in args]}
        try:
            r = getattr(pu, fn)(*args)
        except Exception as ex:
            ctx.count((fn, repr(args)))
            ctx.violate(f'{fn} raised {type(ex).__name__}', inp, repr(ex), 'a value')
            continue
        impl = pyval(r)
        flat = [z for a in args for z in (a if isinstance(a, list) else [a])]
        ctx.count((fn, repr(args)), fn, any(isinstance(z, float) for z in flat))
        ctx.sample({'fn': fn, 'args': inp['args'], 'impl': impl})
        if out is not None and out != impl:
            ctx.disagree(fn, inp, impl, out)
        # statement-level oracle on exact values
        if fn == 'points_equal':
            (x0, y0), (x1, y1) = args
            far = any(abs(Fraction(u) - Fraction(v)) > Fraction(1000000001, 10 ** 18) * max(abs(Fraction(u)), abs(Fraction(v)))
                      for u, v in ((x0, x1), (y0, y1)))
            near = all(abs(Fraction(u) - Fraction(v)) <= Fraction(999999999, 10 ** 18) * max(abs(Fraction(u)), abs(Fraction(v)))
                       for u, v in ((x0, x1), (y0, y1)))
            if (far and r) or (near and not r):
                ctx.violate('points_equal: not "relative difference <= 1e-9 on both coordinates" (margin 1e-9 relative)', inp, impl,
                            str(not r))
        if fn == 'dotProductXY' and not (-1 <= r <= 1):
            ctx.violate('dotProductXY outside [-1, 1]', inp, impl, 'a value in [-1, 1]')
        if fn == 'distance':
            ex = Fraction(args[0]) ** 2 + Fraction(args[1]) ** 2
            if r < 0 or abs(Fraction(r) ** 2 - ex) > ex * Fraction(1, 2 ** 50):
                ctx.violate('distance: not the Euclidean norm (relative 2^-50 on the square)', inp, impl, f'sqrt({ex})')
        if fn in ('vInitial_VF_A_Dx', 'vFinal_Vi_A_Dx'):
            v, acc, d = (Fraction(z) for z in args)
            ex = v * v - 2 * acc * d if fn[1] == 'I' else v * v + 2 * acc * d
            scale = v * v + abs(2 * acc * d)
            if ex < -scale * Fraction(1, 2 ** 50) and r != -1:
                ctx.violate(f'{fn}: no real root but no failure marker', inp, impl, '-1')
            if ex > scale * Fraction(1, 2 ** 50) and (r < 0 or abs(Fraction(r) ** 2 - ex) > scale * Fraction(1, 2 ** 49)):
                ctx.violate(f'{fn}: not the positive root', inp, impl, f'sqrt({ex})')
