#!/usr/bin/env python3
"""PyNum -> Lean translator.

Turns closed numeric Python functions of /repo/plotink into Lean 4
definitions over the dynamically typed value domain `Plotink.Py.Val` (see
lean/Plotink/Py.lean).

Loops: the body of the k-th loop of `f` becomes a non-recursive function `<f>_body<k>` (one pass; its
parameter `k_` stands for "go round again") and the loop itself a function `<f>_loop<k>`: for `while` by
structural recursion on an explicit `fuel : Nat` (result `Py.Loop.fuelOut` on exhaustion), for `for` by
structural recursion over the list of items.  The loop-carried variables are the names assigned in the loop body;
the other variables the body reads are fixed parameters.  A loop function returns
`Py.Loop.ret v` (the enclosing function returned `v`), `Py.Loop.done (carried…)` (loop ended) or
`Py.Loop.fuelOut`.  A function that contains a `while` loop takes an extra leading `(fuel : Nat)` and
returns `Py.Out` (`val v | fuelOut`) instead of `Py.Val`.

Strings: `str` methods (`strip lower replace split join startswith endswith format`), f-strings, `str()`,
`divmod`, `in`, slices and `float(str)` are calls of the string library of lean/Plotink/Py.lean.
Exceptions are values (`Py.Val.err`): `try: x = e … except E: H` becomes `let x := e; if Py.isErr x then H …`
(the handler is entered for any failure of a `try`-body assignment, whatever the exception type).
Module-level constants (`NAME = literal`) are inlined.  Run on every check, from the *current* source, so the
theorems in lean/Plotink/Props/*.lean that are stated about `Plotink.Gen.<f>`
are re-checked against what the code says now.

One Lean file per function (lean/Plotink/Gen/<f>.lean).  A function the
translator cannot handle is emitted as a stub returning `Py.Val.err` and is
reported in Gen/report.json; the caller treats that as a broken tie.
"""
import ast, sys, os, json, hashlib
from fractions import Fraction

RESERVED = {'at', 'end', 'from', 'in', 'then', 'else', 'if', 'do', 'let', 'have', 'show', 'fun', 'match',
            'with', 'open', 'def', 'theorem', 'by', 'where', 'instance', 'class', 'structure', 'namespace',
            'section', 'variable', 'universe', 'import', 'export', 'deriving', 'mutual', 'private',
            'protected', 'partial', 'unsafe', 'return', 'for', 'unless', 'try', 'catch', 'finally', 'mut',
            'macro', 'syntax', 'notation', 'prefix', 'infix', 'postfix', 'abbrev', 'example', 'axiom',
            'inductive', 'opaque', 'set_option', 'attribute', 'local', 'scoped', 'nomatch', 'nofun',
            'using', 'calc', 'this', 'Type', 'Prop', 'Sort', 'R', 'prec', 'ambient', 'tmp_',
            'fuel', 'it_', 'its_', 'v_', 'k_'}


class Unsupported(Exception):
    pass


def ident(n):
    return n + '_' if n in RESERVED else n


def rat(fr):
    fr = Fraction(fr)
    if fr.denominator == 1:
        return f"({fr.numerator} : Rat)" if fr.numerator >= 0 else f"(-{-fr.numerator} : Rat)"
    s = f"({abs(fr.numerator)} : Rat) / {fr.denominator}"
    return f"({s})" if fr.numerator >= 0 else f"(-({s}))"


def lean_str(s):
    out = []
    for ch in s:
        if ch == '"':
            out.append('\\"')
        elif ch == '\\':
            out.append('\\\\')
        elif ch == '\n':
            out.append('\\n')
        elif ch == '\r':
            out.append('\\r')
        elif ch == '\t':
            out.append('\\t')
        elif 32 <= ord(ch) < 127:
            out.append(ch)
        else:
            out.append('\\u{%x}' % ord(ch))
    return '"' + ''.join(out) + '"'


class FnTr:
    STR_METHODS = {'strip': (0, 'str_strip'), 'lower': (0, 'str_lower'), 'replace': (2, 'str_replace'),
                   'join': (1, 'str_join'), 'startswith': (1, 'str_startswith'), 'endswith': (1, 'str_endswith')}

    def __init__(self, fn, known, consts=None):
        """known: dict short name -> ast.FunctionDef of every translated function (for defaults).
        consts: module-level `NAME = literal` assignments of the function's module (inlined)."""
        self.fn = fn
        self.known = known
        self.consts = consts or {}
        self.deps = []
        self.mutated = []    # parameters updated in place (returned alongside the return value)
        self.storable = set()
        self.aux = []        # auxiliary loop functions, in emission order (inner loops first)
        self.loops = []      # stack of enclosing loops while a loop function is being generated
        self.nloops = 0
        self.has_fuel = any(isinstance(x, ast.While) for x in ast.walk(fn))
        # every name of the function in textual order (parameters first): fixes the parameter order of loop functions
        self.order = [ident(a.arg) for a in fn.args.args]
        for x in sorted((x for x in ast.walk(fn) if isinstance(x, ast.Name)), key=lambda x: (x.lineno, x.col_offset)):
            if ident(x.id) not in self.order:
                self.order.append(ident(x.id))

    # ---------- expressions ----------
    def val(self, e):
        if isinstance(e, ast.Constant):
            v = e.value
            if isinstance(v, bool):
                return f"(Py.Val.bool_ {'true' if v else 'false'})"
            if isinstance(v, int):
                return f"(Py.Val.int {v})"
            if isinstance(v, float):
                if v != v or v in (float('inf'), float('-inf')):
                    raise Unsupported("non-finite float literal")
                return f"(Py.Val.flt {rat(Fraction(v))})"
            if isinstance(v, str):
                return f'(Py.Val.str {lean_str(v)})'
            if v is None:
                return "Py.Val.none_"
            raise Unsupported(f"constant {v!r}")
        if isinstance(e, ast.Name):
            if ident(e.id) not in self.defined:
                if e.id in self.consts:
                    return self.val(self.consts[e.id])
                raise Unsupported(f"free name {e.id}")
            return ident(e.id)
        if isinstance(e, ast.JoinedStr):
            parts = []
            for v in e.values:
                if isinstance(v, ast.Constant) and isinstance(v.value, str):
                    parts.append(f"(Py.Val.str {lean_str(v.value)})")
                elif isinstance(v, ast.FormattedValue):
                    if v.conversion != -1:
                        raise Unsupported("f-string conversion")
                    spec = ''
                    if v.format_spec is not None:
                        if not all(isinstance(x, ast.Constant) and isinstance(x.value, str) for x in v.format_spec.values):
                            raise Unsupported("computed format spec")
                        spec = ''.join(x.value for x in v.format_spec.values)
                    parts.append(f"(Py.format_ {self.val(v.value)} {lean_str(spec)})")
                else:
                    raise Unsupported("f-string part")
            return "(Py.fjoin [" + ", ".join(parts) + "])"
        if isinstance(e, ast.UnaryOp):
            if isinstance(e.op, ast.USub):
                if isinstance(e.operand, ast.Constant) and isinstance(e.operand.value, int) \
                        and not isinstance(e.operand.value, bool):
                    return f"(Py.Val.int (-{e.operand.value}))"
                if isinstance(e.operand, ast.Constant) and isinstance(e.operand.value, float):
                    return f"(Py.Val.flt {rat(-Fraction(e.operand.value))})"
                return f"(Py.neg {self.val(e.operand)})"
            if isinstance(e.op, ast.UAdd):
                return self.val(e.operand)
            if isinstance(e.op, ast.Not):
                return f"(Py.Val.bool_ (!{self.cond(e.operand)}))"
            raise Unsupported("unary")
        if isinstance(e, ast.BinOp):
            ops = {ast.Add: 'add', ast.Sub: 'sub', ast.Mult: 'mul', ast.Div: 'truediv',
                   ast.FloorDiv: 'floordiv', ast.Mod: 'mod'}
            bitops = {ast.BitOr: 'bitor', ast.BitAnd: 'bitand', ast.BitXor: 'bitxor'}
            if type(e.op) in bitops:
                return f"(Py.{bitops[type(e.op)]} {self.val(e.left)} {self.val(e.right)})"
            if type(e.op) not in ops:
                raise Unsupported(f"binop {type(e.op).__name__}")
            return f"(Py.{ops[type(e.op)]} R prec {self.val(e.left)} {self.val(e.right)})"
        if isinstance(e, (ast.Tuple, ast.List)):
            return "(Py.Val.tup [" + ", ".join(self.val(x) for x in e.elts) + "])"
        if isinstance(e, (ast.Compare, ast.BoolOp)):
            return f"(Py.Val.bool_ {self.cond(e)})"
        if isinstance(e, ast.IfExp):
            return f"(if {self.cond(e.test)} then {self.val(e.body)} else {self.val(e.orelse)})"
        if isinstance(e, ast.Subscript):
            if isinstance(e.slice, ast.Constant) and isinstance(e.slice.value, int) and e.slice.value >= 0:
                return f"(Py.getItem {self.val(e.value)} {e.slice.value})"
            if isinstance(e.slice, ast.Slice):
                if e.slice.step is not None:
                    raise Unsupported("slice step")
                lo = self.val(e.slice.lower) if e.slice.lower is not None else "Py.Val.none_"
                hi = self.val(e.slice.upper) if e.slice.upper is not None else "Py.Val.none_"
                return f"(Py.slice {self.val(e.value)} {lo} {hi})"
            if isinstance(e.slice, ast.Tuple):
                raise Unsupported("subscript")
            return f"(Py.index {self.val(e.value)} {self.val(e.slice)})"
        if isinstance(e, ast.Call):
            return self.call(e)
        raise Unsupported(f"expr {type(e).__name__}")

    def fname(self, f):
        if isinstance(f, ast.Name):
            return f.id
        if isinstance(f, ast.Attribute) and isinstance(f.value, ast.Name):
            return f"{f.value.id}.{f.attr}"
        raise Unsupported("callee")

    def method_call(self, e):
        """`recv.method(args)` for the string methods; None if `e` is not such a call"""
        f = e.func
        if not isinstance(f, ast.Attribute):
            return None
        if isinstance(f.value, ast.Name) and ident(f.value.id) not in self.defined:
            return None            # a module (`math.floor`, `mpmath.mpf`, `ebb_calc.f`)
        if e.keywords:
            raise Unsupported("keywords on a method call")
        if f.attr == 'format' and isinstance(f.value, ast.Constant) and isinstance(f.value.value, str):
            import string as _string
            parts, auto = [], 0
            for lit, field, spec, conv in _string.Formatter().parse(f.value.value):
                if lit:
                    parts.append(f"(Py.Val.str {lean_str(lit)})")
                if field is None:
                    continue
                if conv is not None or '{' in (spec or ''):
                    raise Unsupported("format field")
                if field == '':
                    k = auto
                    auto += 1
                elif field.isdigit():
                    k = int(field)
                else:
                    raise Unsupported("named format field")
                if k >= len(e.args):
                    raise Unsupported("format index")
                parts.append(f"(Py.format_ {self.val(e.args[k])} {lean_str(spec or '')})")
            return "(Py.fjoin [" + ", ".join(parts) + "])"
        recv = self.val(f.value)
        A = [self.val(x) for x in e.args]
        if f.attr == 'split':
            if len(A) == 0:
                return f"(Py.str_split {recv})"
            if len(A) == 1:
                return f"(Py.str_split_sep {recv} {A[0]})"
            raise Unsupported("split with maxsplit")
        if f.attr in self.STR_METHODS and self.STR_METHODS[f.attr][0] == len(A):
            return f"(Py.{self.STR_METHODS[f.attr][1]} {recv}" + "".join(" " + a for a in A) + ")"
        raise Unsupported(f"method {f.attr}")

    def call(self, e):
        m = self.method_call(e)
        if m is not None:
            return m
        n = self.fname(e.func)
        short = n.split('.')[-1]
        if short in self.known and n not in ('math.floor', 'math.ceil'):
            callee = self.known[short]
            params = [a.arg for a in callee.args.args]
            defaults = callee.args.defaults
            dmap = dict(zip(params[len(params) - len(defaults):], defaults))
            bound = {}
            if len(e.args) > len(params):
                raise Unsupported("too many args")
            for p, a in zip(params, e.args):
                bound[p] = self.val(a)
            for k in e.keywords:
                if k.arg not in params or k.arg in bound:
                    raise Unsupported("bad keyword")
                bound[k.arg] = self.val(k.value)
            A = []
            for p in params:
                if p in bound:
                    A.append(bound[p])
                elif p in dmap:
                    saved = self.defined
                    self.defined = set()
                    try:
                        A.append(self.val(dmap[p]))
                    finally:
                        self.defined = saved
                else:
                    raise Unsupported(f"missing arg {p}")
            if any(isinstance(x, ast.While) for x in ast.walk(callee)):
                raise Unsupported(f"call of {short}, which contains a while loop (fuel)")
            if short not in self.deps and short != self.fn.name:
                self.deps.append(short)
            return f"({short} R prec " + " ".join(A) + ")"
        if e.keywords:
            raise Unsupported("keywords on builtin")
        A = [self.val(x) for x in e.args]
        simple = {'int': 'int_', 'float': 'float_', 'abs': 'abs_', 'round': 'round_',
                  'math.floor': 'math_floor', 'math.ceil': 'math_ceil',
                  'mpmath.floor': 'mp_floor', 'mpmath.ceil': 'mp_ceil', 'mpmath.fabs': 'mp_fabs'}
        if n in simple and len(A) == 1:
            if n == 'float':
                return f"(Py.float_ R {A[0]})"
            return f"(Py.{simple[n]} {A[0]})"
        if n == 'str' and len(A) == 1:
            return f"(Py.str_ {A[0]})"
        if n == 'divmod' and len(A) == 2:
            return f"(Py.divmod_ R prec {A[0]} {A[1]})"
        if n == 'len' and len(A) == 1:
            return f"(Py.len_ {A[0]})"
        if n == 'range' and 1 <= len(A) <= 3:
            return "(Py.range_ [" + ", ".join(A) + "])"
        if n == 'max' and len(A) >= 2:
            return "(Py.max_ [" + ", ".join(A) + "])"
        if n == 'min' and len(A) >= 2:
            return "(Py.min_ [" + ", ".join(A) + "])"
        if n == 'mpmath.mpf' and len(e.args) == 1:
            a = e.args[0]
            if isinstance(a, ast.Constant) and isinstance(a.value, str):
                try:
                    fr = Fraction(a.value)
                except ValueError:
                    raise Unsupported("mpf literal")
                return f"(Py.Val.mpf (R.mp prec {rat(fr)}))"
            return f"(Py.mpf_ R prec {A[0]})"
        if n == 'mpmath.sqrt' and len(A) == 1:
            return f"(Py.mp_sqrt R prec {A[0]})"
        raise Unsupported(f"call {n}")

    def cond(self, e):
        if isinstance(e, ast.BoolOp):
            op = ' && ' if isinstance(e.op, ast.And) else ' || '
            return "(" + op.join(self.cond(v) for v in e.values) + ")"
        if isinstance(e, ast.UnaryOp) and isinstance(e.op, ast.Not):
            return f"(!{self.cond(e.operand)})"
        if isinstance(e, ast.Compare):
            parts = []
            left = e.left
            for op, right in zip(e.ops, e.comparators):
                parts.append(self.cmp(op, left, right))
                left = right
            return parts[0] if len(parts) == 1 else "(" + " && ".join(parts) + ")"
        if isinstance(e, ast.Constant) and isinstance(e.value, bool):
            return 'true' if e.value else 'false'
        return f"(Py.truthy {self.val(e)})"

    @staticmethod
    def is_cond(e):
        return isinstance(e, (ast.Compare, ast.BoolOp)) or (
            isinstance(e, ast.UnaryOp) and isinstance(e.op, ast.Not))

    def cmp(self, op, l, r):
        if self.is_cond(l) and self.is_cond(r):
            if isinstance(op, ast.NotEq):
                return f"({self.cond(l)} != {self.cond(r)})"
            if isinstance(op, ast.Eq):
                return f"({self.cond(l)} == {self.cond(r)})"
        names = {ast.Lt: 'lt', ast.LtE: 'le', ast.Gt: 'gt', ast.GtE: 'ge', ast.Eq: 'eq', ast.NotEq: 'ne'}
        if type(op) in names:
            return f"(Py.{names[type(op)]} {self.val(l)} {self.val(r)})"
        if isinstance(op, ast.Is) and isinstance(r, ast.Constant) and r.value is None:
            return f"(Py.isNone {self.val(l)})"
        if isinstance(op, ast.IsNot) and isinstance(r, ast.Constant) and r.value is None:
            return f"(!(Py.isNone {self.val(l)}))"
        if isinstance(op, (ast.In, ast.NotIn)) and isinstance(r, (ast.Tuple, ast.List, ast.Set)):
            inner = "(" + " || ".join(f"(Py.eq {self.val(l)} {self.val(x)})" for x in r.elts) + ")"
            return inner if isinstance(op, ast.In) else f"(!{inner})"
        if isinstance(op, (ast.In, ast.NotIn)):
            inner = f"(Py.contains {self.val(l)} {self.val(r)})"
            return inner if isinstance(op, ast.In) else f"(!{inner})"
        raise Unsupported(f"cmp {type(op).__name__}")

    # ---------- statements ----------
    @staticmethod
    def strip_doc(body):
        return [s for s in body
                if not (isinstance(s, ast.Expr) and isinstance(s.value, ast.Constant)
                        and isinstance(s.value.value, str))]

    def ret_class(self, stmts):
        """'always' | 'never' | 'maybe'"""
        cls = 'never'
        for s in stmts:
            if isinstance(s, (ast.Return, ast.Continue, ast.Break)):
                return 'always'     # control leaves the block
            if isinstance(s, (ast.While, ast.For, ast.Assert, ast.Try)):
                cls = 'maybe'
            if isinstance(s, ast.If):
                a, b = self.ret_class(s.body), self.ret_class(s.orelse)
                if a == 'always' and b == 'always':
                    return 'always'
                if a != 'never' or b != 'never':
                    cls = 'maybe'
        return cls

    def target_names(self, t, out):
        if isinstance(t, ast.Name):
            if ident(t.id) not in out:
                out.append(ident(t.id))
        elif isinstance(t, (ast.Tuple, ast.List)):
            for x in t.elts:
                self.target_names(x, out)
        elif isinstance(t, ast.Attribute):
            if 'prec' not in out:
                out.append('prec')
        elif isinstance(t, ast.Subscript) and isinstance(t.value, ast.Name):
            if ident(t.value.id) not in out:    # in-place update of a list = rebinding of the name (value semantics)
                out.append(ident(t.value.id))
        else:
            raise Unsupported("assignment target")

    def assigned(self, stmts):
        out = []
        for s in stmts:
            if isinstance(s, ast.Assign):
                for t in s.targets:
                    self.target_names(t, out)
            elif isinstance(s, ast.AugAssign):
                self.target_names(s.target, out)
            elif isinstance(s, ast.Delete):
                for t in s.targets:
                    self.target_names(t, out)
            elif isinstance(s, ast.If):
                for n in self.assigned(s.body) + self.assigned(s.orelse):
                    if n not in out:
                        out.append(n)
            elif isinstance(s, ast.While):
                for n in self.assigned(s.body):
                    if n not in out:
                        out.append(n)
            elif isinstance(s, ast.Try):
                for n in self.assigned(s.body) + [x for h in s.handlers for x in self.assigned(h.body)]:
                    if n not in out:
                        out.append(n)
            elif isinstance(s, ast.For):
                self.target_names(s.target, out)
                for n in self.assigned(s.body):
                    if n not in out:
                        out.append(n)
        return out

    def unpack(self, t, src, pad, lines):
        if isinstance(t, ast.Name):
            self.defined.add(ident(t.id))
            lines.append(f"{pad}let {ident(t.id)} := {src}")
        elif isinstance(t, (ast.Tuple, ast.List)):
            self.tmp += 1
            tmp = f"tmp{self.tmp}_"
            lines.append(f"{pad}let {tmp} := Py.unpackN {src} {len(t.elts)}")
            for i, x in enumerate(t.elts):
                self.unpack(x, f"(Py.getItem {tmp} {i})", pad, lines)
        else:
            raise Unsupported("unpack target")

    def simple(self, s, ind):
        """translate a non-branching statement to `let` lines"""
        pad = '  ' * ind
        if isinstance(s, ast.Assign):
            if len(s.targets) != 1:
                raise Unsupported("multi-target")
            t = s.targets[0]
            if isinstance(t, ast.Attribute):
                if isinstance(t.value, ast.Attribute) and t.attr == 'dps' \
                        and self.fname(t.value) == 'mpmath.mp':
                    if not (isinstance(s.value, ast.Constant) and isinstance(s.value.value, int)
                            and s.value.value >= 1):
                        raise Unsupported("dps value")
                    return [f"{pad}let prec := Py.dpsToPrec {s.value.value}"]
                raise Unsupported("attribute assign")
            if isinstance(t, ast.Subscript):
                return [pad + self.store(t, self.val(s.value))]
            lines = []
            v = self.val(s.value)
            self.unpack(t, v, pad, lines)
            return lines
        if isinstance(s, ast.Delete):
            return [pad + self.store(t, None) for t in s.targets]
        if isinstance(s, ast.AugAssign):
            ops = {ast.Add: 'add', ast.Sub: 'sub', ast.Mult: 'mul', ast.Div: 'truediv'}
            bitops = {ast.BitOr: 'bitor', ast.BitAnd: 'bitand', ast.BitXor: 'bitxor'}
            if type(s.op) not in ops and type(s.op) not in bitops or not isinstance(s.target, ast.Name):
                raise Unsupported("augassign")
            n = ident(s.target.id)
            if n not in self.defined:
                raise Unsupported("augassign of undefined")
            if type(s.op) in bitops:
                return [f"{pad}let {n} := (Py.{bitops[type(s.op)]} {n} {self.val(s.value)})"]
            return [f"{pad}let {n} := (Py.{ops[type(s.op)]} R prec {n} {self.val(s.value)})"]
        if isinstance(s, ast.Pass):
            return []
        raise Unsupported(f"stmt {type(s).__name__}")

    def store(self, t, v):
        """`a[i] = v`, `a[i:j] = v`, `del a[i]`, `del a[i:j]` (v is None) on a list held in a plain name"""
        if not (isinstance(t, ast.Subscript) and isinstance(t.value, ast.Name)):
            raise Unsupported("store target")
        n = ident(t.value.id)
        if n not in self.defined:
            raise Unsupported("store into undefined name")
        if n not in self.storable:
            raise Unsupported(f"in-place update of {n}, which may be aliased")
        if isinstance(t.slice, ast.Slice):
            if t.slice.step is not None:
                raise Unsupported("slice step")
            lo = self.val(t.slice.lower) if t.slice.lower is not None else "Py.Val.none_"
            hi = self.val(t.slice.upper) if t.slice.upper is not None else "Py.Val.none_"
            return f"let {n} := (Py.setSlice {n} {lo} {hi} {v if v is not None else '(Py.Val.tup [])'})"
        if isinstance(t.slice, ast.Tuple):
            raise Unsupported("subscript")
        if v is None:
            return f"let {n} := (Py.delItem {n} {self.val(t.slice)})"
        return f"let {n} := (Py.setItem {n} {self.val(t.slice)} {v})"

    @staticmethod
    def tup(V):
        return V[0] if len(V) == 1 else "(" + ", ".join(V) + ")"

    def block_tuple(self, stmts, V, ind):
        return self.seq(stmts, ind, final=lambda i: ['  ' * i + self.tup(V)], mode='tuple')

    def seq(self, stmts, ind, final, mode):
        pad = '  ' * ind
        if not stmts:
            return final(ind)
        s, rest = stmts[0], stmts[1:]
        if isinstance(s, ast.Return):
            if mode != 'ret':
                raise Unsupported("return in joined block")
            return [pad + self.wrap_ret(self.source_ret(self.val(s.value) if s.value is not None else 'Py.Val.none_'))]
        if isinstance(s, (ast.Continue, ast.Break)):
            if mode != 'ret' or not self.loops:
                raise Unsupported("continue/break outside a loop body")
            return [pad + self.loops[-1]['continue' if isinstance(s, ast.Continue) else 'break']]
        if isinstance(s, ast.Assert):
            if mode != 'ret':
                raise Unsupported("assert in joined block")
            c = self.cond(s.test)
            return ([f"{pad}if {c} then"] + self.seq(rest, ind + 1, final, mode)
                    + [f"{pad}else", f"{pad}  {self.wrap_ret('Py.Val.err')}"])   # AssertionError
        if isinstance(s, (ast.While, ast.For)):
            if mode != 'ret':
                raise Unsupported("loop in joined block")
            return self.loop(s, rest, ind, final)
        if isinstance(s, ast.Try):
            if mode != 'ret':
                raise Unsupported("try in joined block")
            if s.orelse or s.finalbody or len(s.handlers) != 1 or s.handlers[0].name is not None:
                raise Unsupported("try form")
            return self.try_stmts(list(s.body), list(s.handlers[0].body), rest, ind, final)
        if isinstance(s, ast.If):
            a, b = self.ret_class(s.body), self.ret_class(s.orelse)
            c = self.cond(s.test)
            if a == 'never' and b == 'never':
                V = self.assigned([s])
                if not V:
                    return self.seq(rest, ind, final, mode)
                pre = []
                for v in V:
                    if v not in self.defined and v != 'prec':
                        pre.append(f"{pad}let {v} := Py.Val.err")
                        self.defined.add(v)
                saved = set(self.defined)
                A = self.block_tuple(s.body, V, ind + 2)
                self.defined = set(saved)
                B = self.block_tuple(s.orelse, V, ind + 2)
                self.defined = saved | set(V)
                head = pre + [f"{pad}let {self.tup(V)} :=", f"{pad}  if {c} then"] + A + [f"{pad}  else"] + B
                return head + self.seq(rest, ind, final, mode)
            if mode != 'ret':
                raise Unsupported("conditional return inside joined block")
            saved = set(self.defined)
            if a == 'always' and b == 'always':
                A = self.seq(s.body, ind + 1, final, 'ret')
                self.defined = set(saved)
                B = self.seq(s.orelse, ind + 1, final, 'ret')
            elif a == 'always':
                A = self.seq(s.body, ind + 1, final, 'ret')
                self.defined = set(saved)
                B = self.seq(list(s.orelse) + rest, ind + 1, final, 'ret')
            elif b == 'always':
                A = self.seq(list(s.body) + rest, ind + 1, final, 'ret')
                self.defined = set(saved)
                B = self.seq(s.orelse, ind + 1, final, 'ret')
            else:  # maybe: duplicate the continuation
                A = self.seq(list(s.body) + rest, ind + 1, final, 'ret')
                self.defined = set(saved)
                B = self.seq(list(s.orelse) + rest, ind + 1, final, 'ret')
            return [f"{pad}if {c} then"] + A + [f"{pad}else"] + B
        return self.simple(s, ind) + self.seq(rest, ind, final, mode)

    def try_stmts(self, body, hbody, rest, ind, final):
        """`try: x1 = e1; x2 = e2 … except E: H` followed by `rest`.  Exceptions are values: after each assignment
        `if Py.isErr x then H; rest else …`."""
        pad = '  ' * ind
        if not body:
            return self.seq(rest, ind, final, 'ret')
        st = body[0]
        if not (isinstance(st, ast.Assign) and len(st.targets) == 1 and isinstance(st.targets[0], ast.Name)):
            raise Unsupported("try body statement (only `name = expression`)")
        lines = self.simple(st, ind)
        n = ident(st.targets[0].id)
        saved = set(self.defined)
        H = self.seq(hbody + rest, ind + 1, final, 'ret')
        self.defined = saved
        B = self.try_stmts(body[1:], hbody, rest, ind + 1, final)
        return lines + [f"{pad}if (Py.isErr {n}) then"] + H + [f"{pad}else"] + B

    # ---------- loops ----------
    def source_ret(self, v):
        """value of a source-level `return v`: a function that mutates list parameters in place (item/slice
        assignment, `del`) returns the tuple (v, final value of each mutated parameter, in parameter order)"""
        if not self.mutated:
            return v
        return "(Py.Val.tup [" + ", ".join([v] + self.mutated) + "])"

    def wrap_ret(self, v):
        """how `return v` is rendered where we are: inside a loop function, in a function with fuel, or plainly"""
        if self.loops:
            return f"Py.Loop.ret {v}"
        if self.has_fuel:
            return f"Py.Out.val {v}"
        return v

    def fuel_out(self):
        if self.loops:
            return "Py.Loop.fuelOut"
        if self.has_fuel:
            return "Py.Out.fuelOut"
        return "Py.Val.err"     # unreachable: a function without `while` has no fuel to run out of

    @staticmethod
    def reads(nodes):
        out = set()
        for n in nodes:
            for x in ast.walk(n):
                if isinstance(x, ast.Name):
                    out.add(ident(x.id))
        return out

    def loop(self, s, rest, ind, final):
        """`while`/`for` statement followed by `rest`: emit the auxiliary loop function, return the call site"""
        pad = '  ' * ind
        if s.orelse:
            raise Unsupported("loop else clause")
        is_for = isinstance(s, ast.For)
        self.nloops += 1
        lname = f"{self.fn.name}_loop{self.nloops}"
        carried = []
        if is_for:
            self.target_names(s.target, carried)
        for n in self.assigned(s.body):
            if n not in carried:
                carried.append(n)
        if 'prec' in carried:
            raise Unsupported("precision assignment inside a loop")
        pre = []
        for v in carried:
            if v not in self.defined:
                pre.append(f"{pad}let {v} := Py.Val.err")
                self.defined.add(v)
        test = [] if is_for else [s.test]
        used = self.reads(list(s.body) + test)
        env = [v for v in self.order if v in self.defined and v in used and v not in carried]
        needs_fuel = any(isinstance(x, ast.While) for x in ast.walk(s))
        envsig = "".join(f" ({v} : Py.Val)" for v in env)
        envargs = "".join(f" {v}" for v in env)
        cargs = "".join(f" {v}" for v in carried)
        ctuple = "(" + ", ".join(carried) + ")" if carried else "()"
        ctype = " × ".join("Py.Val" for _ in carried) if carried else "Unit"
        # ----- the loop: `<f>_body<k>` is one pass (non-recursive; `k_` is "go round again"), `<f>_loop<k>` iterates it
        bname = f"{self.fn.name}_body{self.nloops}"
        inner_fuel = any(isinstance(x, ast.While) for b in s.body for x in ast.walk(b))
        saved_defined, saved_loops = self.defined, self.loops
        self.defined = set(env) | set(carried) | {'prec'}
        ktype = f"{'Py.Val → ' * len(carried)}Py.Loop ({ctype})"
        bfix = envsig + (" (fuel : Nat)" if inner_fuel else "")
        bfixargs = envargs + (" fuel" if inner_fuel else "")
        ctx = {'continue': f"k_{cargs}", 'break': f"Py.Loop.done {ctuple}"}
        self.loops = saved_loops + [ctx]
        cont = lambda i: ['  ' * i + ctx['continue']]
        csig = "".join(f" ({v} : Py.Val)" for v in carried)
        if is_for:
            bhead = [f"def {bname} (R : Rounding) (prec : Nat){bfix} (k_ : {ktype}) (it_ : Py.Val){csig} : Py.Loop ({ctype}) :="]
            body = []
            self.unpack(s.target, "it_", '  ', body)
            body += self.seq(list(s.body), 1, final=cont, mode='ret')
            fixed = envsig + (" (fuel : Nat)" if needs_fuel else "")
            fixargs = envargs + (" fuel" if needs_fuel else "")
            lhead = [f"def {lname} (R : Rounding) (prec : Nat){fixed} :",
                     f"    List Py.Val →{' Py.Val →' * len(carried)} Py.Loop ({ctype})",
                     f"  | []{''.join(', ' + v for v in carried)} => Py.Loop.done {ctuple}",
                     f"  | it_ :: its_{''.join(', ' + v for v in carried)} =>",
                     f"    {bname} R prec{bfixargs} ({lname} R prec{fixargs} its_) it_{cargs}"]
        else:
            bhead = [f"def {bname} (R : Rounding) (prec : Nat){bfix} (k_ : {ktype}){csig} : Py.Loop ({ctype}) :="]
            always = isinstance(s.test, ast.Constant) and bool(s.test.value)
            if always:
                body = self.seq(list(s.body), 1, final=cont, mode='ret')
            else:
                c = self.cond(s.test)
                body = ([f"  if {c} then"] + self.seq(list(s.body), 2, final=cont, mode='ret')
                        + ["  else", "    " + ctx['break']])
            fixargs = envargs
            lhead = [f"def {lname} (R : Rounding) (prec : Nat){envsig} :",
                     f"    Nat →{' Py.Val →' * len(carried)} Py.Loop ({ctype})",
                     f"  | 0{', _' * len(carried)} => Py.Loop.fuelOut",
                     f"  | fuel + 1{''.join(', ' + v for v in carried)} =>",
                     f"    {bname} R prec{bfixargs} ({lname} R prec{fixargs} fuel){cargs}"]
        self.aux.append("\n".join(bhead + body))
        self.aux.append("\n".join(lhead))
        self.defined, self.loops = saved_defined, saved_loops
        # ----- the call site
        inner = pad
        lines = list(pre)
        if is_for:
            lines += [f"{pad}match Py.iter {self.val(s.iter)} with",
                      f"{pad}| none => {self.wrap_ret('Py.Val.err')}",
                      f"{pad}| some its_ =>"]
            inner = pad + '  '
            call = f"{lname} R prec{fixargs} its_{cargs}"
        else:
            call = f"{lname} R prec{fixargs} fuel{cargs}"
        lines += [f"{inner}match {call} with",
                  f"{inner}| Py.Loop.ret v_ => {self.wrap_ret('v_')}",
                  f"{inner}| Py.Loop.fuelOut => {self.fuel_out()}",
                  f"{inner}| Py.Loop.done {ctuple} =>"]
        self.defined |= set(carried)
        return lines + self.seq(rest, len(inner) // 2 + 1, final, 'ret')

    def signature(self):
        params = [ident(a.arg) for a in self.fn.args.args]
        if self.has_fuel:
            return (f"def {self.fn.name} (R : Rounding) (ambient : Nat) (fuel : Nat) "
                    + " ".join(f"({p} : Py.Val)" for p in params) + " : Py.Out :=")
        return (f"def {self.fn.name} (R : Rounding) (ambient : Nat) "
                + " ".join(f"({p} : Py.Val)" for p in params) + " : Py.Val :=")

    def translate(self):
        fn = self.fn
        if fn.args.vararg or fn.args.kwarg or fn.args.kwonlyargs or fn.args.posonlyargs:
            raise Unsupported("signature")
        params = [ident(a.arg) for a in fn.args.args]
        self.defined = set(params) | {'prec'}
        self.tmp = 0
        self.analyse_stores(params)
        body = self.strip_doc(fn.body)
        if self.ret_class(body) != 'always':
            body = body + [ast.Return(value=None)]
        lines = [self.signature(), "  let prec := ambient"]
        lines += self.seq(body, 1, final=lambda i: ['  ' * i + self.wrap_ret(self.source_ret('Py.Val.none_'))], mode='ret')
        return "\n\n".join(self.aux + ["\n".join(lines)])

    def analyse_stores(self, params):
        """names updated in place (`a[i] = …`, `del a[i:j]`).  Lists are values here, so such an update is only
        faithful when the list has no second name: every other use of the name must be `a[...]` (indexing or a
        slice, which copies) or `len(a)`; and it must not be the sequence of an enclosing `for`."""
        stored = []
        for x in ast.walk(self.fn):
            tg = []
            if isinstance(x, ast.Assign):
                tg = x.targets
            elif isinstance(x, ast.Delete):
                tg = x.targets
            for t in tg:
                if isinstance(t, ast.Subscript) and isinstance(t.value, ast.Name) and ident(t.value.id) not in stored:
                    stored.append(ident(t.value.id))
        ok_use = set()
        for x in ast.walk(self.fn):
            if isinstance(x, ast.Subscript) and isinstance(x.value, ast.Name):
                ok_use.add(id(x.value))
            if isinstance(x, ast.Call) and isinstance(x.func, ast.Name) and x.func.id == 'len':
                for a in x.args:
                    if isinstance(a, ast.Name):
                        ok_use.add(id(a))
        bad = set()
        for x in ast.walk(self.fn):
            if isinstance(x, ast.Name) and ident(x.id) in stored and id(x) not in ok_use:
                bad.add(ident(x.id))
            if isinstance(x, ast.For):
                for y in ast.walk(x.iter):
                    if isinstance(y, ast.Name) and ident(y.id) in stored:
                        bad.add(ident(y.id))
        self.storable = set(stored) - bad
        self.mutated = [p for p in params if p in stored]

    def stub(self):
        return self.signature() + "\n  " + self.wrap_ret("Py.Val.err")


# (module file, function name) in dependency order
FUNCTIONS = [
    ('ebb_calc.py', 'move_dist_lt'),
    ('ebb_calc.py', 'move_dist_t3'),
    ('ebb_calc.py', 'rate_t3'),
    ('ebb_calc.py', 'max_rate_t3'),
    ('ebb_calc.py', 'calculate_lm'),
    ('ebb_motion.py', 'moveDistLM'),
    ('ebb_motion.py', 'moveDistLMA'),
    ('ebb_motion.py', 'moveTimeLM'),
    ('plot_utils.py', 'checkLimits'),
    ('plot_utils.py', 'checkLimitsTol'),
    ('plot_utils.py', 'point_in_bounds'),
    ('plot_utils.py', 'constrainLimits'),
    ('plot_utils.py', 'clip_code'),
    ('plot_utils.py', 'clip_segment'),
    ('plot_utils.py', 'points_in_tolerance'),
    ('plot_utils.py', 'supersample'),
    ('text_utils.py', 'xml_escape'),
    ('text_utils.py', 'format_hms'),
    ('plot_utils.py', 'parseLengthWithUnits'),
    ('plot_utils.py', 'unitsToUserUnits'),
    ('plot_utils.py', 'userUnitToUnits'),
    ('plot_utils.py', 'vb_scale'),
]


def generate(repo, outdir):
    os.makedirs(outdir, exist_ok=True)
    trees = {}
    fns = {}
    report = {}
    for mod, name in FUNCTIONS:
        path = os.path.join(repo, 'plotink', mod)
        if mod not in trees:
            try:
                trees[mod] = ast.parse(open(path).read())
            except (SyntaxError, OSError) as ex:
                trees[mod] = None
                report[mod] = f"parse error: {ex}"
        tree = trees[mod]
        fn = None
        if tree is not None:
            for n in tree.body:
                if isinstance(n, ast.FunctionDef) and n.name == name:
                    fn = n
        fns[name] = fn
    known = {k: v for k, v in fns.items() if v is not None}
    for mod, name in FUNCTIONS:
        fn = fns[name]
        status = 'ok'
        deps = []
        if fn is None:
            status = 'missing'
            code = f"def {name}_missing : Bool := true"
        else:
            consts = {}
            for st in trees[mod].body:
                if isinstance(st, ast.Assign) and len(st.targets) == 1 and isinstance(st.targets[0], ast.Name):
                    v = st.value
                    if isinstance(v, ast.UnaryOp) and isinstance(v.op, ast.USub):
                        v = v.operand
                    if isinstance(v, ast.Constant) and isinstance(v.value, (int, float, str)) or \
                            isinstance(v, ast.Constant) and v.value is None:
                        consts[st.targets[0].id] = st.value
            tr = FnTr(fn, known, consts)
            try:
                code = tr.translate()
                deps = tr.deps
            except Unsupported as ex:
                status = f"unsupported: {ex}"
                tr2 = FnTr(fn, known, consts)
                code = tr2.stub()
                deps = []
        imports = "import Plotink.Py\n" + "".join(f"import Plotink.Gen.{d}\n" for d in deps)
        text = (f"-- GENERATED by translator/pynum2lean.py from plotink/{mod}:{name}. Do not edit.\n"
                + imports + "namespace Plotink\nnamespace Gen\nset_option linter.unusedVariables false\n\n"
                + code + "\n\nend Gen\nend Plotink\n")
        out = os.path.join(outdir, f"{name}.lean")
        old = open(out).read() if os.path.exists(out) else None
        if old != text:
            with open(out, 'w') as f:
                f.write(text)
        report[name] = {'module': mod, 'status': status, 'deps': deps,
                        'sha256': hashlib.sha256(text.encode()).hexdigest(),
                        'changed': old is not None and old != text}
    with open(os.path.join(outdir, 'report.json'), 'w') as f:
        json.dump(report, f, indent=1, sort_keys=True)
    return report


if __name__ == '__main__':
    repo = sys.argv[1] if len(sys.argv) > 1 else '/repo'
    here = os.path.dirname(os.path.abspath(__file__))
    out = sys.argv[2] if len(sys.argv) > 2 else os.path.join(here, '..', 'lean', 'Plotink', 'Gen')
    rep = generate(repo, out)
    bad = {k: v for k, v in rep.items() if isinstance(v, dict) and v['status'] != 'ok'}
    print(json.dumps({'generated': len(rep), 'not_ok': bad}))
