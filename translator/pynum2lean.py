#!/usr/bin/env python3
"""PyNum -> Lean translator.

Turns closed numeric Python functions of /repo/plotink into Lean 4
definitions over the dynamically typed value domain `Plotink.Py.Val` (see
lean/Plotink/Py.lean).

Loops: the body of the k-th loop of `f` becomes a non-recursive function `<f>_body<k>` (one pass; its
parameter `k_` stands for "go round again") and the loop itself a function `<f>_loop<k>`: for `while` by
structural recursion on an explicit `fuel : Nat` (result `Py.Loop.fuelOut` on exhaustion), for `for` by
structural recursion over the list of items.  The loop-carried variables are the names assigned in the loop body;
the other variables the body reads are fixed parameters.  A loop function returns
`Py.Loop.ret v` (the enclosing function returned `v`), `Py.Loop.done (carried…)` (loop ended) or
`Py.Loop.fuelOut`.  A function that contains a `while` loop takes an extra leading `(fuel : Nat)` and
returns `Py.Out` (`val v | fuelOut`) instead of `Py.Val`.

Strings: `str` methods (`strip lower replace split join startswith endswith format`), f-strings, `str()`,
`divmod`, `in`, slices and `float(str)` are calls of the string library of lean/Plotink/Py.lean.
Exceptions are values (`Py.Val.err`): `try: x = e … except E: H` becomes `let x := e; if Py.isErr x then H …`
(the handler is entered for any failure of a `try`-body assignment, whatever the exception type).
Module-level constants (`NAME = literal`) are inlined.  Run on every check, from the *current* source, so the
theorems in lean/Plotink/Props/*.lean that are stated about `Plotink.Gen.<f>`
are re-checked against what the code says now.

One Lean file per function (lean/Plotink/Gen/<f>.lean).  A function the
translator cannot handle is emitted as a stub returning `Py.Val.err` and is
reported in Gen/report.json; the caller treats that as a broken tie.
"""
import ast, sys, os, json, hashlib
from fractions import Fraction

RESERVED = {'at', 'end', 'from', 'in', 'then', 'else', 'if', 'do', 'let', 'have', 'show', 'fun', 'match',
            'with', 'open', 'def', 'theorem', 'by', 'where', 'instance', 'class', 'structure', 'namespace',
            'section', 'variable', 'universe', 'import', 'export', 'deriving', 'mutual', 'private',
            'protected', 'partial', 'unsafe', 'return', 'for', 'unless', 'try', 'catch', 'finally', 'mut',
            'macro', 'syntax', 'notation', 'prefix', 'infix', 'postfix', 'abbrev', 'example', 'axiom',
            'inductive', 'opaque', 'set_option', 'attribute', 'local', 'scoped', 'nomatch', 'nofun',
            'using', 'calc', 'this', 'Type', 'Prop', 'Sort', 'R', 'prec', 'ambient', 'tmp_',
            'fuel', 'it_', 'its_', 'v_', 'k_'}


class Unsupported(Exception):
    pass


def ident(n):
    if n == '_':
        return 'u_'          # `_` is a hole in Lean terms
    return n + '_' if n in RESERVED else n


class ClassInfo:
    """a translated class: an instance is `tup (str name :: fields)`; fields = the simple class-level assignments in
    order, then every other `self.attr` the methods assign, in textual order"""

    def __init__(self, cd, prefix):
        self.node = cd
        self.name = cd.name
        self.lname = f"{prefix}_{cd.name}"        # Lean names: <prefix>_<Class>_<method>
        self.fields = []
        self.defaults = {}
        self.methods = {}
        self.meth_info = {}      # method name -> {'fuel': bool, 'mutated': [...]} once it has been translated
        for st in cd.body:
            if isinstance(st, ast.Assign) and len(st.targets) == 1 and isinstance(st.targets[0], ast.Name):
                self.fields.append(st.targets[0].id)
                self.defaults[st.targets[0].id] = st.value
            elif isinstance(st, ast.FunctionDef):
                self.methods[st.name] = st
        for m in self.methods.values():
            for x in sorted((x for x in ast.walk(m) if isinstance(x, ast.Attribute)), key=lambda x: (x.lineno, x.col_offset)):
                if isinstance(x.value, ast.Name) and x.value.id == 'self' and isinstance(x.ctx, ast.Store) \
                        and x.attr not in self.fields:
                    self.fields.append(x.attr)

    def index(self, attr):
        return self.fields.index(attr) + 1

    def lean_name(self, method):
        return f"{self.lname}_init" if method == '__init__' else f"{self.lname}_{method}"


def rat(fr):
    fr = Fraction(fr)
    if fr.denominator == 1:
        return f"({fr.numerator} : Rat)" if fr.numerator >= 0 else f"(-{-fr.numerator} : Rat)"
    s = f"({abs(fr.numerator)} : Rat) / {fr.denominator}"
    return f"({s})" if fr.numerator >= 0 else f"(-({s}))"


def lean_str(s):
    out = []
    for ch in s:
        if ch == '"':
            out.append('\\"')
        elif ch == '\\':
            out.append('\\\\')
        elif ch == '\n':
            out.append('\\n')
        elif ch == '\r':
            out.append('\\r')
        elif ch == '\t':
            out.append('\\t')
        elif 32 <= ord(ch) < 127:
            out.append(ch)
        else:
            out.append('\\u{%x}' % ord(ch))
    return '"' + ''.join(out) + '"'


class FnTr:
    STR_METHODS = {'strip': (0, 'str_strip'), 'lower': (0, 'str_lower'), 'upper': (0, 'str_upper'), 'replace': (2, 'str_replace'),
                   'join': (1, 'str_join'), 'startswith': (1, 'str_startswith'), 'endswith': (1, 'str_endswith')}

    MUT_METHODS = {'add': (1, 'set_add'), 'append': (1, 'list_append'), 'remove': (1, 'list_remove'),
                   'insert': (2, 'list_insert')}

    def __init__(self, fn, known, consts=None, cls=None, classes=None):
        """known: dict short name -> ast.FunctionDef of every translated function (for defaults).
        consts: module-level `NAME = literal` assignments of the function's module (inlined).
        cls / classes: the ClassInfo this method belongs to / every translated class (attribute and method lookup)."""
        self.fn = fn
        self.known = known
        self.consts = consts or {}
        self.cls = cls
        self.classes = classes or {}
        self.lname = cls.lean_name(fn.name) if cls else fn.name
        self.is_init = cls is not None and fn.name == '__init__'
        # units that mention `math.inf` compare with the extended operators (Py.ltE …, Py.minE, Py.maxE)
        unit = cls.node if cls else fn
        self.ext = any(isinstance(x, ast.Attribute) and x.attr == 'inf' and isinstance(x.value, ast.Name)
                       and x.value.id == 'math' for x in ast.walk(unit))
        # direct recursion: `Cls(...)` inside `Cls.__init__`, `x.m(...)` inside method `m`
        self.is_rec = False
        if cls is not None:
            for x in ast.walk(fn):
                if isinstance(x, ast.Call):
                    if self.is_init and isinstance(x.func, ast.Name) and x.func.id == cls.name:
                        self.is_rec = True
                    if not self.is_init and isinstance(x.func, ast.Attribute) and x.func.attr == fn.name:
                        self.is_rec = True
        self.nfv = 0
        self.deps = []
        self.mutated = []    # parameters updated in place (returned alongside the return value)
        self.storable = set()
        self.aux = []        # auxiliary loop functions, in emission order (inner loops first)
        self.loops = []      # stack of enclosing loops while a loop function is being generated
        self.nloops = 0
        self.has_fuel = any(isinstance(x, ast.While) for x in ast.walk(fn))
        if self.is_rec:
            if self.has_fuel:
                raise Unsupported("recursion together with a while loop")
            self.has_fuel = True     # a recursive function runs on fuel too: results are `Py.Out`
        # every name of the function in textual order (parameters first): fixes the parameter order of loop functions
        self.order = [ident(a.arg) for a in fn.args.args]
        if self.is_init:
            self.order = [x for x in self.order if x != 'self'] + ['self']
        for x in sorted((x for x in ast.walk(fn) if isinstance(x, ast.Name)), key=lambda x: (x.lineno, x.col_offset)):
            if ident(x.id) not in self.order:
                self.order.append(ident(x.id))
        self.find_abstracted()

    # ---------- opaque-object lookups replaced by parameters ----------
    @staticmethod
    def opaque_chain(e):
        """`root.a.b().c().get(<name>)`: a call of `.get` with one argument (a name or a string literal) on a chain of
        at least one attribute access / argument-less call rooted at a plain name.  Returns (root, key) or None."""
        if not (isinstance(e, ast.Call) and isinstance(e.func, ast.Attribute) and e.func.attr == 'get'
                and len(e.args) == 1 and not e.keywords):
            return None
        a = e.args[0]
        if isinstance(a, ast.Name):
            key = a.id
        elif isinstance(a, ast.Constant) and isinstance(a.value, str) and a.value.isidentifier():
            key = a.value
        else:
            return None
        x, depth = e.func.value, 0
        while True:
            if isinstance(x, ast.Attribute):
                x = x.value
                depth += 1
            elif isinstance(x, ast.Call) and not x.args and not x.keywords and isinstance(x.func, ast.Attribute):
                x = x.func
            else:
                break
        if isinstance(x, ast.Name) and depth >= 1:
            return x.id, key
        return None

    def find_abstracted(self):
        """A parameter that the function uses only as the root of such chains is an opaque object (a document, an
        element tree …): every `root.….get(<name>)` becomes the new parameter `attr_<name>` (the attribute text or
        None) in the place of `root`; a parameter that only served as `<name>` is dropped.  Recorded in report.json."""
        self.abstracted = {}       # ast.dump of the chain -> the parameter that replaces it
        self.abs_report = []
        self.abs_params = None
        if self.cls is not None:
            return
        fn = self.fn
        params = [a.arg for a in fn.args.args]
        chains = [(x, self.opaque_chain(x)) for x in ast.walk(fn)]
        chains = [(x, c) for x, c in chains if c is not None and c[0] in params]
        if not chains:
            self.find_external_parse(params)
            return
        inside = set()             # Name nodes that occur inside a chain
        for x, _ in chains:
            inside |= {id(n) for n in ast.walk(x) if isinstance(n, ast.Name)}
        outside = {n.id for n in ast.walk(fn) if isinstance(n, ast.Name) and id(n) not in inside}
        stored = {n.id for n in ast.walk(fn) if isinstance(n, ast.Name) and isinstance(n.ctx, (ast.Store, ast.Del))}
        roots = {c[0] for _, c in chains}
        roots = {r for r in roots if r not in outside and r not in stored}
        chains = sorted(((x, c) for x, c in chains if c[0] in roots), key=lambda t: (t[0].lineno, t[0].col_offset))
        if not chains:
            return
        by_root = {}
        for x, (root, key) in chains:
            pname = ident('attr_' + key)
            self.abstracted[ast.dump(x)] = pname
            if pname not in by_root.setdefault(root, []):
                by_root[root].append(pname)
            self.abs_report.append({'expression': ast.unparse(x), 'parameter': pname, 'line': x.lineno})
        keys = {c[1] for _, c in chains}
        dropped = [q for q in params if q in keys and q not in outside and q not in stored and q not in roots]
        new = []
        for q in params:
            if q in by_root:
                new += [n for n in by_root[q] if n not in new]
            elif q not in dropped:
                new.append(ident(q))
        self.abs_params = new
        for r in self.abs_report:
            r['replaces_parameters'] = sorted(roots) + dropped
        self.order = new + [x for x in self.order if x not in new and x not in {ident(q) for q in list(roots) + dropped}]

    EXTERNAL_PARSERS = {'simplepath.parsePath'}     # calls of a dependency's parser: result becomes a parameter

    def find_external_parse(self, params):
        """`<parser>(p)` with `p` a parameter used nowhere else: the parameter `p` is replaced by `parsed_p`, the value
        the parser returned (a list of `(command, [numbers…])` pairs for `simplepath.parsePath`).  Recorded in report.json."""
        fn = self.fn
        def fname_or_none(f):
            try:
                return self.fname(f)
            except Unsupported:
                return None
        calls = [x for x in ast.walk(fn) if isinstance(x, ast.Call) and fname_or_none(x.func) in self.EXTERNAL_PARSERS
                 and len(x.args) == 1 and not x.keywords and isinstance(x.args[0], ast.Name) and x.args[0].id in params]
        if not calls:
            return
        inside = {id(c.args[0]) for c in calls}
        outside = {n.id for n in ast.walk(fn) if isinstance(n, ast.Name) and id(n) not in inside}
        new = list(map(ident, params))
        for c in calls:
            q = c.args[0].id
            if q in outside:
                continue
            pname = ident('parsed_' + q)
            self.abstracted[ast.dump(c)] = pname
            new = [pname if n == ident(q) else n for n in new]
            self.abs_report.append({'expression': ast.unparse(c), 'parameter': pname, 'line': c.lineno,
                                    'replaces_parameters': [q]})
        if self.abstracted:
            self.abs_params = new
            self.order = new + [x for x in self.order if x not in new and x not in {ident(r['replaces_parameters'][0]) for r in self.abs_report}]

    # ---------- expressions ----------
    def val(self, e):
        if isinstance(e, ast.Call) and self.abstracted and ast.dump(e) in self.abstracted:
            return self.abstracted[ast.dump(e)]
        if isinstance(e, ast.Constant):
            v = e.value
            if isinstance(v, bool):
                return f"(Py.Val.bool_ {'true' if v else 'false'})"
            if isinstance(v, int):
                return f"(Py.Val.int {v})"
            if isinstance(v, float):
                if v != v or v in (float('inf'), float('-inf')):
                    raise Unsupported("non-finite float literal")
                return f"(Py.Val.flt {rat(Fraction(v))})"
            if isinstance(v, str):
                return f'(Py.Val.str {lean_str(v)})'
            if v is None:
                return "Py.Val.none_"
            raise Unsupported(f"constant {v!r}")
        if isinstance(e, ast.Name):
            if ident(e.id) not in self.defined:
                if e.id in self.consts:
                    return self.val(self.consts[e.id])
                raise Unsupported(f"free name {e.id}")
            return ident(e.id)
        if isinstance(e, ast.JoinedStr):
            parts = []
            for v in e.values:
                if isinstance(v, ast.Constant) and isinstance(v.value, str):
                    parts.append(f"(Py.Val.str {lean_str(v.value)})")
                elif isinstance(v, ast.FormattedValue):
                    if v.conversion != -1:
                        raise Unsupported("f-string conversion")
                    spec = ''
                    if v.format_spec is not None:
                        if not all(isinstance(x, ast.Constant) and isinstance(x.value, str) for x in v.format_spec.values):
                            raise Unsupported("computed format spec")
                        spec = ''.join(x.value for x in v.format_spec.values)
                    parts.append(f"(Py.format_ {self.val(v.value)} {lean_str(spec)})")
                else:
                    raise Unsupported("f-string part")
            return "(Py.fjoin [" + ", ".join(parts) + "])"
        if isinstance(e, ast.Attribute):
            if isinstance(e.value, ast.Name) and e.value.id == 'math' and e.attr == 'inf' and 'math' not in self.defined:
                return "Py.posInf"
            return f"(Py.getItem {self.val(e.value)} {self.attr_index(e)})"
        if isinstance(e, ast.ListComp):
            return self.comprehension(e, out=False)
        if isinstance(e, ast.UnaryOp):
            if isinstance(e.op, ast.USub) and isinstance(e.operand, ast.Attribute) and e.operand.attr == 'inf' \
                    and isinstance(e.operand.value, ast.Name) and e.operand.value.id == 'math':
                return "Py.negInf"
            if isinstance(e.op, ast.USub):
                if isinstance(e.operand, ast.Constant) and isinstance(e.operand.value, int) \
                        and not isinstance(e.operand.value, bool):
                    return f"(Py.Val.int (-{e.operand.value}))"
                if isinstance(e.operand, ast.Constant) and isinstance(e.operand.value, float):
                    return f"(Py.Val.flt {rat(-Fraction(e.operand.value))})"
                return f"(Py.neg {self.val(e.operand)})"
            if isinstance(e.op, ast.UAdd):
                return self.val(e.operand)
            if isinstance(e.op, ast.Not):
                return f"(Py.Val.bool_ (!{self.cond(e.operand)}))"
            raise Unsupported("unary")
        if isinstance(e, ast.BinOp):
            ops = {ast.Add: 'add', ast.Sub: 'sub', ast.Mult: 'mul', ast.Div: 'truediv',
                   ast.FloorDiv: 'floordiv', ast.Mod: 'mod'}
            bitops = {ast.BitOr: 'bitor', ast.BitAnd: 'bitand', ast.BitXor: 'bitxor'}
            if type(e.op) in bitops:
                return f"(Py.{bitops[type(e.op)]} {self.val(e.left)} {self.val(e.right)})"
            if type(e.op) not in ops:
                raise Unsupported(f"binop {type(e.op).__name__}")
            return f"(Py.{ops[type(e.op)]} R prec {self.val(e.left)} {self.val(e.right)})"
        if isinstance(e, (ast.Tuple, ast.List)):
            return "(Py.Val.tup [" + ", ".join(self.val(x) for x in e.elts) + "])"
        if isinstance(e, (ast.Compare, ast.BoolOp)):
            return f"(Py.Val.bool_ {self.cond(e)})"
        if isinstance(e, ast.IfExp):
            return f"(if {self.cond(e.test)} then {self.val(e.body)} else {self.val(e.orelse)})"
        if isinstance(e, ast.Subscript):
            if isinstance(e.slice, ast.Constant) and isinstance(e.slice.value, int) and e.slice.value >= 0:
                return f"(Py.getItem {self.val(e.value)} {e.slice.value})"
            if isinstance(e.slice, ast.Slice):
                if e.slice.step is not None:
                    raise Unsupported("slice step")
                lo = self.val(e.slice.lower) if e.slice.lower is not None else "Py.Val.none_"
                hi = self.val(e.slice.upper) if e.slice.upper is not None else "Py.Val.none_"
                return f"(Py.slice {self.val(e.value)} {lo} {hi})"
            if isinstance(e.slice, ast.Tuple):
                raise Unsupported("subscript")
            return f"(Py.index {self.val(e.value)} {self.val(e.slice)})"
        if isinstance(e, ast.Call):
            return self.call(e)
        raise Unsupported(f"expr {type(e).__name__}")

    def attr_index(self, e):
        """position of `e.attr` in the instance tuple: by the class of `self`, else by the unique translated class that
        has a field of that name"""
        if isinstance(e.value, ast.Name) and e.value.id == 'self' and self.cls and e.attr in self.cls.fields:
            return self.cls.index(e.attr)
        idx = {c.index(e.attr) for c in self.classes.values() if e.attr in c.fields}
        if len(idx) == 1:
            return idx.pop()
        raise Unsupported(f"attribute {e.attr}")

    def rec_shape(self, e):
        """is `e` syntactically a direct recursive call?"""
        if not (self.is_rec and isinstance(e, ast.Call)) or e.keywords:
            return False
        if self.is_init:
            return isinstance(e.func, ast.Name) and e.func.id == self.cls.name
        return isinstance(e.func, ast.Attribute) and e.func.attr == self.fn.name

    def fuel_shape(self, e):
        return e is not None and (self.rec_shape(e) or (isinstance(e, ast.ListComp) and self.rec_shape(e.elt)))

    def rec_call(self, e):
        """argument strings of a direct recursive call, else None"""
        if not self.rec_shape(e):
            return None
        if self.is_init:
            return [self.val(a) for a in e.args]
        return [self.val(e.func.value)] + [self.val(a) for a in e.args]

    def fuel_expr(self, e):
        """a Lean expression of type `Py.Out` for an expression that runs on fuel (a recursive call, or a list
        comprehension whose element is one), else None"""
        if self.rec_shape(e):
            return "(rec_ " + " ".join(self.rec_call(e)) + ")"
        if isinstance(e, ast.ListComp) and self.rec_shape(e.elt):
            return self.comprehension(e, out=True)
        return None

    def comprehension(self, e, out):
        if len(e.generators) != 1 or e.generators[0].is_async:
            raise Unsupported("comprehension form")
        g = e.generators[0]
        src = self.val(g.iter)
        self.tmp += 1
        it = f"it{self.tmp}_"
        saved = set(self.defined)
        lets = []
        self.unpack(g.target, it, '', lets)
        c = " && ".join(self.cond(x) for x in g.ifs) if g.ifs else None
        if out:
            elt = "(rec_ " + " ".join(self.rec_call(e.elt)) + ")"
        else:
            elt = self.val(e.elt)
        self.defined = saved
        body = f"some {elt}" if c is None else f"if ({c}) then some {elt} else none"
        return f"(Py.{'compOut' if out else 'comp'} {src} (fun {it} => " + "".join(x + "; " for x in lets) + body + "))"

    def fname(self, f):
        if isinstance(f, ast.Name):
            return f.id
        if isinstance(f, ast.Attribute) and isinstance(f.value, ast.Name):
            return f"{f.value.id}.{f.attr}"
        raise Unsupported("callee")

    def method_call(self, e):
        """`recv.method(args)` for the string methods; None if `e` is not such a call"""
        f = e.func
        if not isinstance(f, ast.Attribute):
            return None
        if isinstance(f.value, ast.Name) and ident(f.value.id) not in self.defined:
            return None            # a module (`math.floor`, `mpmath.mpf`, `ebb_calc.f`)
        if e.keywords:
            raise Unsupported("keywords on a method call")
        if f.attr == 'format' and isinstance(f.value, ast.Constant) and isinstance(f.value.value, str):
            import string as _string
            parts, auto = [], 0
            for lit, field, spec, conv in _string.Formatter().parse(f.value.value):
                if lit:
                    parts.append(f"(Py.Val.str {lean_str(lit)})")
                if field is None:
                    continue
                if conv is not None or '{' in (spec or ''):
                    raise Unsupported("format field")
                if field == '':
                    k = auto
                    auto += 1
                elif field.isdigit():
                    k = int(field)
                else:
                    raise Unsupported("named format field")
                if k >= len(e.args):
                    raise Unsupported("format index")
                parts.append(f"(Py.format_ {self.val(e.args[k])} {lean_str(spec or '')})")
            return "(Py.fjoin [" + ", ".join(parts) + "])"
        if self.rec_shape(e):
            raise Unsupported("recursive call in expression position")
        recv = self.val(f.value)
        A = [self.val(x) for x in e.args]
        if f.attr == 'copy' and not A:
            return f"(Py.list_copy {recv})"
        owners = [c for c in self.classes.values() if f.attr in c.methods]
        if owners:
            c = owners[0]
            info = c.meth_info.get(f.attr)
            if len(owners) > 1 or info is None or info['fuel'] or info['mutated']:
                raise Unsupported(f"call of method {f.attr} in expression position")
            return f"({c.lean_name(f.attr)} R prec {recv}" + "".join(" " + a for a in A) + ")"
        if f.attr == 'split':
            if len(A) == 0:
                return f"(Py.str_split {recv})"
            if len(A) == 1:
                return f"(Py.str_split_sep {recv} {A[0]})"
            raise Unsupported("split with maxsplit")
        if f.attr in self.STR_METHODS and self.STR_METHODS[f.attr][0] == len(A):
            return f"(Py.{self.STR_METHODS[f.attr][1]} {recv}" + "".join(" " + a for a in A) + ")"
        raise Unsupported(f"method {f.attr}")

    def call(self, e):
        m = self.method_call(e)
        if m is not None:
            return m
        n = self.fname(e.func)
        short = n.split('.')[-1]
        if short in self.known and n not in ('math.floor', 'math.ceil'):
            callee = self.known[short]
            params = [a.arg for a in callee.args.args]
            defaults = callee.args.defaults
            dmap = dict(zip(params[len(params) - len(defaults):], defaults))
            bound = {}
            if len(e.args) > len(params):
                raise Unsupported("too many args")
            for p, a in zip(params, e.args):
                bound[p] = self.val(a)
            for k in e.keywords:
                if k.arg not in params or k.arg in bound:
                    raise Unsupported("bad keyword")
                bound[k.arg] = self.val(k.value)
            A = []
            for p in params:
                if p in bound:
                    A.append(bound[p])
                elif p in dmap:
                    saved = self.defined
                    self.defined = set()
                    try:
                        A.append(self.val(dmap[p]))
                    finally:
                        self.defined = saved
                else:
                    raise Unsupported(f"missing arg {p}")
            if any(isinstance(x, ast.While) for x in ast.walk(callee)):
                raise Unsupported(f"call of {short}, which contains a while loop (fuel)")
            if short not in self.deps and short != self.lname:
                self.deps.append(short)
            return f"({short} R prec " + " ".join(A) + ")"
        if e.keywords:
            raise Unsupported("keywords on builtin")
        if self.rec_shape(e):
            raise Unsupported("recursive call in expression position")
        if n == 'map' and len(e.args) == 2 and isinstance(e.args[0], ast.Name) and e.args[0].id == 'len':
            self.tmp += 1
            return f"(Py.comp {self.val(e.args[1])} (fun it{self.tmp}_ => some (Py.len_ it{self.tmp}_)))"
        A = [self.val(x) for x in e.args]
        E = 'E' if self.ext else ''
        if n in ('max', 'min') and len(A) == 1:
            return f"(Py.{n}Of{E} {A[0]})"
        if n in ('max', 'min') and len(A) >= 2 and self.ext:
            return f"(Py.{n}E [" + ", ".join(A) + "])"
        simple = {'int': 'int_', 'float': 'float_', 'abs': 'abs_', 'round': 'round_',
                  'math.floor': 'math_floor', 'math.ceil': 'math_ceil',
                  'mpmath.floor': 'mp_floor', 'mpmath.ceil': 'mp_ceil', 'mpmath.fabs': 'mp_fabs'}
        if n in simple and len(A) == 1:
            if n == 'float':
                return f"(Py.float_ R {A[0]})"
            return f"(Py.{simple[n]} {A[0]})"
        if n == 'str' and len(A) == 1:
            return f"(Py.str_ {A[0]})"
        if n == 'divmod' and len(A) == 2:
            return f"(Py.divmod_ R prec {A[0]} {A[1]})"
        if n == 'set' and not A:
            return "(Py.Val.tup [])"
        if n == 'reversed' and len(A) == 1:
            return f"(Py.reversed_ {A[0]})"
        if n == 'enumerate' and len(A) == 1:
            return f"(Py.enumerate_ {A[0]})"
        if n == 'len' and len(A) == 1:
            return f"(Py.len_ {A[0]})"
        if n == 'range' and 1 <= len(A) <= 3:
            return "(Py.range_ [" + ", ".join(A) + "])"
        if n == 'max' and len(A) >= 2:
            return "(Py.max_ [" + ", ".join(A) + "])"
        if n == 'min' and len(A) >= 2:
            return "(Py.min_ [" + ", ".join(A) + "])"
        if n == 'mpmath.mpf' and len(e.args) == 1:
            a = e.args[0]
            if isinstance(a, ast.Constant) and isinstance(a.value, str):
                try:
                    fr = Fraction(a.value)
                except ValueError:
                    raise Unsupported("mpf literal")
                return f"(Py.Val.mpf (R.mp prec {rat(fr)}))"
            return f"(Py.mpf_ R prec {A[0]})"
        if n == 'mpmath.sqrt' and len(A) == 1:
            return f"(Py.mp_sqrt R prec {A[0]})"
        if n in ('isclose', 'math.isclose') and len(A) == 2:   # `from math import isclose`, default tolerances
            return f"(Py.Val.bool_ (Py.isclose R {A[0]} {A[1]}))"
        if n in ('sqrt', 'math.sqrt') and len(A) == 1:      # `from math import sqrt`: binary64, correctly rounded
            return f"(Py.math_sqrt R {A[0]})"
        raise Unsupported(f"call {n}")

    def cond(self, e):
        if isinstance(e, ast.BoolOp):
            op = ' && ' if isinstance(e.op, ast.And) else ' || '
            return "(" + op.join(self.cond(v) for v in e.values) + ")"
        if isinstance(e, ast.UnaryOp) and isinstance(e.op, ast.Not):
            return f"(!{self.cond(e.operand)})"
        if isinstance(e, ast.Compare):
            parts = []
            left = e.left
            for op, right in zip(e.ops, e.comparators):
                parts.append(self.cmp(op, left, right))
                left = right
            return parts[0] if len(parts) == 1 else "(" + " && ".join(parts) + ")"
        if isinstance(e, ast.Constant) and isinstance(e.value, bool):
            return 'true' if e.value else 'false'
        return f"(Py.truthy {self.val(e)})"

    @staticmethod
    def is_cond(e):
        return isinstance(e, (ast.Compare, ast.BoolOp)) or (
            isinstance(e, ast.UnaryOp) and isinstance(e.op, ast.Not))

    def cmp(self, op, l, r):
        if self.is_cond(l) and self.is_cond(r):
            if isinstance(op, ast.NotEq):
                return f"({self.cond(l)} != {self.cond(r)})"
            if isinstance(op, ast.Eq):
                return f"({self.cond(l)} == {self.cond(r)})"
        names = {ast.Lt: 'lt', ast.LtE: 'le', ast.Gt: 'gt', ast.GtE: 'ge', ast.Eq: 'eq', ast.NotEq: 'ne'}
        if self.ext and type(op) in (ast.Lt, ast.LtE, ast.Gt, ast.GtE):
            return f"(Py.{names[type(op)]}E {self.val(l)} {self.val(r)})"
        if type(op) in names:
            return f"(Py.{names[type(op)]} {self.val(l)} {self.val(r)})"
        if isinstance(op, ast.Is) and isinstance(r, ast.Constant) and r.value is None:
            return f"(Py.isNone {self.val(l)})"
        if isinstance(op, ast.IsNot) and isinstance(r, ast.Constant) and r.value is None:
            return f"(!(Py.isNone {self.val(l)}))"
        if isinstance(op, (ast.In, ast.NotIn)) and isinstance(r, (ast.Tuple, ast.List, ast.Set)):
            inner = "(" + " || ".join(f"(Py.eq {self.val(l)} {self.val(x)})" for x in r.elts) + ")"
            return inner if isinstance(op, ast.In) else f"(!{inner})"
        if isinstance(op, (ast.In, ast.NotIn)):
            inner = f"(Py.contains {self.val(l)} {self.val(r)})"
            return inner if isinstance(op, ast.In) else f"(!{inner})"
        raise Unsupported(f"cmp {type(op).__name__}")

    # ---------- statements ----------
    @staticmethod
    def strip_doc(body):
        return [s for s in body
                if not (isinstance(s, ast.Expr) and isinstance(s.value, ast.Constant)
                        and isinstance(s.value.value, str))]

    def ret_class(self, stmts):
        """'always' | 'never' | 'maybe'"""
        cls = 'never'
        for s in stmts:
            if isinstance(s, (ast.Return, ast.Continue, ast.Break)):
                return 'always'     # control leaves the block
            if isinstance(s, (ast.While, ast.For, ast.Assert, ast.Try)):
                cls = 'maybe'
            if isinstance(s, (ast.Assign, ast.AugAssign, ast.Return)) and self.fuel_shape(s.value):
                cls = 'maybe'      # the fuel may run out there
            if isinstance(s, ast.If):
                a, b = self.ret_class(s.body), self.ret_class(s.orelse)
                if a == 'always' and b == 'always':
                    return 'always'
                if a != 'never' or b != 'never':
                    cls = 'maybe'
        return cls

    def target_names(self, t, out):
        if isinstance(t, ast.Name):
            if ident(t.id) not in out:
                out.append(ident(t.id))
        elif isinstance(t, (ast.Tuple, ast.List)):
            for x in t.elts:
                self.target_names(x, out)
        elif isinstance(t, ast.Attribute) and isinstance(t.value, ast.Name) and t.value.id == 'self' and self.cls:
            if 'self' not in out:
                out.append('self')
        elif isinstance(t, ast.Attribute):
            if 'prec' not in out:
                out.append('prec')
        elif isinstance(t, ast.Subscript) and self.sub_base(t) is not None:
            b = ident(self.sub_base(t).id)
            if b not in out:    # in-place update of a list = rebinding of the name (value semantics)
                out.append(b)
        elif isinstance(t, ast.Subscript) and self.path_root(t) == 'self':
            if 'self' not in out:
                out.append('self')
        else:
            raise Unsupported("assignment target")

    def assigned(self, stmts):
        out = []
        for s in stmts:
            if isinstance(s, ast.Assign):
                for t in s.targets:
                    self.target_names(t, out)
            elif isinstance(s, ast.AugAssign):
                self.target_names(s.target, out)
            elif isinstance(s, ast.Delete):
                for t in s.targets:
                    self.target_names(t, out)
            elif isinstance(s, ast.Expr) and self.mut_stmt(s) is not None:
                r = self.path_root(self.mut_stmt(s)[0])
                if r is not None and r not in out:
                    out.append(r)
            elif isinstance(s, ast.Expr) and self.meth_stmt(s) is not None:
                c, m, recv = self.meth_stmt(s)
                r = self.path_root(recv)
                if c.meth_info.get(m, {}).get('mutated') and r is not None and r not in out:
                    out.append(r)
            elif isinstance(s, ast.If):
                for n in self.assigned(s.body) + self.assigned(s.orelse):
                    if n not in out:
                        out.append(n)
            elif isinstance(s, ast.While):
                for n in self.assigned(s.body):
                    if n not in out:
                        out.append(n)
            elif isinstance(s, ast.Try):
                for n in self.assigned(s.body) + [x for h in s.handlers for x in self.assigned(h.body)]:
                    if n not in out:
                        out.append(n)
            elif isinstance(s, ast.For):
                self.target_names(s.target, out)
                for n in self.assigned(s.body):
                    if n not in out:
                        out.append(n)
        return out

    def unpack(self, t, src, pad, lines):
        if isinstance(t, ast.Name):
            self.defined.add(ident(t.id))
            lines.append(f"{pad}let {ident(t.id)} := {src}")
        elif isinstance(t, (ast.Tuple, ast.List)):
            self.tmp += 1
            tmp = f"tmp{self.tmp}_"
            lines.append(f"{pad}let {tmp} := Py.unpackN {src} {len(t.elts)}")
            for i, x in enumerate(t.elts):
                self.unpack(x, f"(Py.getItem {tmp} {i})", pad, lines)
        elif isinstance(t, ast.Attribute) and self.path_root(t) == 'self':
            lines.append(pad + self.assign_path(t, src))
        else:
            raise Unsupported("unpack target")

    # ---------- object fields and in-place methods ----------
    def path_root(self, t):
        """the variable at the root of an lvalue path `x`, `x[i]…`, `self.a`, `self.a[i]…` (else None)"""
        while isinstance(t, ast.Subscript):
            t = t.value
        if isinstance(t, ast.Name):
            return ident(t.id)
        if isinstance(t, ast.Attribute) and isinstance(t.value, ast.Name) and t.value.id == 'self' and self.cls:
            return 'self'
        return None

    def assign_path(self, t, v):
        """`let root := …` that makes the lvalue path `t` hold `v` (value semantics: the spine is rebuilt)"""
        if isinstance(t, ast.Name):
            return f"let {ident(t.id)} := {v}"
        if isinstance(t, ast.Attribute) and self.path_root(t) == 'self':
            return f"let self := (Py.setField self {self.attr_index(t)} {v})"
        if isinstance(t, ast.Subscript) and not isinstance(t.slice, (ast.Slice, ast.Tuple)):
            return self.assign_path(t.value, f"(Py.setItem {self.val(t.value)} {self.val(t.slice)} {v})")
        raise Unsupported("assignment path")

    def meth_stmt(self, s):
        """`recv.method(args)` as a statement, for a method of a translated class: (class, method name, receiver)"""
        c = s.value
        if isinstance(c, ast.Call) and isinstance(c.func, ast.Attribute) and c.func.attr not in self.MUT_METHODS:
            owners = [k for k in self.classes.values() if c.func.attr in k.methods]
            if len(owners) == 1 and self.path_root(c.func.value) is not None:
                return owners[0], c.func.attr, c.func.value
        return None

    def mut_stmt(self, s):
        """`target.add(x)` / `.append(x)` / `.remove(x)` / `.insert(i, x)` as a statement: (target, library function, args)"""
        c = s.value
        if isinstance(c, ast.Call) and isinstance(c.func, ast.Attribute) and c.func.attr in self.MUT_METHODS \
                and not c.keywords and len(c.args) == self.MUT_METHODS[c.func.attr][0] \
                and self.path_root(c.func.value) is not None:
            return c.func.value, self.MUT_METHODS[c.func.attr][1], c.args
        return None

    def simple(self, s, ind):
        """translate a non-branching statement to `let` lines"""
        pad = '  ' * ind
        if isinstance(s, ast.Assign):
            if len(s.targets) != 1:
                raise Unsupported("multi-target")
            t = s.targets[0]
            if isinstance(t, ast.Attribute):
                if isinstance(t.value, ast.Attribute) and t.attr == 'dps' \
                        and self.fname(t.value) == 'mpmath.mp':
                    if not (isinstance(s.value, ast.Constant) and isinstance(s.value.value, int)
                            and s.value.value >= 1):
                        raise Unsupported("dps value")
                    return [f"{pad}let prec := Py.dpsToPrec {s.value.value}"]
                if self.path_root(t) == 'self':
                    return [pad + self.assign_path(t, self.val(s.value))]
                raise Unsupported("attribute assign")
            if isinstance(t, ast.Subscript) and self.path_root(t) == 'self':
                return [pad + self.assign_path(t, self.val(s.value))]
            if isinstance(t, ast.Subscript):
                return [pad + self.store(t, self.val(s.value))]
            lines = []
            v = self.val(s.value)
            self.unpack(t, v, pad, lines)
            return lines
        if isinstance(s, ast.Delete):
            return [pad + self.store(t, None) for t in s.targets]
        if isinstance(s, ast.Expr) and self.meth_stmt(s) is not None:
            c, m, recv = self.meth_stmt(s)
            info = c.meth_info.get(m)
            if info is None or info['fuel'] or info['mutated'] not in ([], ['self']) or s.value.keywords:
                raise Unsupported(f"method call statement {m}")
            call = f"({c.lean_name(m)} R prec {self.val(recv)}" + "".join(" " + self.val(a) for a in s.value.args) + ")"
            if not info['mutated']:
                return []            # no effect on the state kept here
            return [pad + self.assign_path(recv, f"(Py.getItem {call} 1)")]
        if isinstance(s, ast.Expr) and self.mut_stmt(s) is not None:
            t, fn_, args = self.mut_stmt(s)
            return [pad + self.assign_path(t, f"(Py.{fn_} {self.val(t)}" + "".join(" " + self.val(a) for a in args) + ")")]
        if isinstance(s, ast.AugAssign) and isinstance(s.target, ast.Attribute) and self.path_root(s.target) == 'self':
            ops = {ast.Add: 'add', ast.Sub: 'sub', ast.Mult: 'mul', ast.Div: 'truediv'}
            if type(s.op) not in ops:
                raise Unsupported("augassign")
            return [pad + self.assign_path(s.target, f"(Py.{ops[type(s.op)]} R prec {self.val(s.target)} {self.val(s.value)})")]
        if isinstance(s, ast.AugAssign):
            ops = {ast.Add: 'add', ast.Sub: 'sub', ast.Mult: 'mul', ast.Div: 'truediv'}
            bitops = {ast.BitOr: 'bitor', ast.BitAnd: 'bitand', ast.BitXor: 'bitxor'}
            if type(s.op) not in ops and type(s.op) not in bitops or not isinstance(s.target, ast.Name):
                raise Unsupported("augassign")
            n = ident(s.target.id)
            if n not in self.defined:
                raise Unsupported("augassign of undefined")
            if type(s.op) in bitops:
                return [f"{pad}let {n} := (Py.{bitops[type(s.op)]} {n} {self.val(s.value)})"]
            return [f"{pad}let {n} := (Py.{ops[type(s.op)]} R prec {n} {self.val(s.value)})"]
        if isinstance(s, ast.Pass):
            return []
        raise Unsupported(f"stmt {type(s).__name__}")

    @staticmethod
    def sub_base(t):
        """the Name at the root of a subscript chain `a[i][j]…`, else None"""
        while isinstance(t, ast.Subscript):
            t = t.value
        return t if isinstance(t, ast.Name) else None

    def store(self, t, v):
        """`a[i] = v`, `a[i:j] = v`, `del a[i]`, `del a[i:j]` (v is None) on a list held in a plain name; and
        `a[i]…[k] = v` on nested lists (rebuilds the spine: `a := setItem a i (setItem a[i] … v)`)"""
        if not (isinstance(t, ast.Subscript) and self.sub_base(t) is not None):
            raise Unsupported("store target")
        if isinstance(t.value, ast.Subscript):
            chain = []
            x = t
            while isinstance(x, ast.Subscript):
                if isinstance(x.slice, (ast.Slice, ast.Tuple)):
                    raise Unsupported("slice inside a nested store")
                chain.append(x.slice)
                x = x.value
            chain.reverse()
            n = ident(x.id)
            if n not in self.defined:
                raise Unsupported("store into undefined name")
            if n not in self.storable:
                raise Unsupported(f"in-place update of {n}, which may be aliased")
            if v is None:
                raise Unsupported("del on a nested element")
            idx = [self.val(c) for c in chain]

            def build(base, k):
                if k == len(idx) - 1:
                    return f"(Py.setItem {base} {idx[k]} {v})"
                return f"(Py.setItem {base} {idx[k]} {build(f'(Py.index {base} {idx[k]})', k + 1)})"
            return f"let {n} := {build(n, 0)}"
        n = ident(t.value.id)
        if n not in self.defined:
            raise Unsupported("store into undefined name")
        if n not in self.storable:
            raise Unsupported(f"in-place update of {n}, which may be aliased")
        if isinstance(t.slice, ast.Slice):
            if t.slice.step is not None:
                raise Unsupported("slice step")
            lo = self.val(t.slice.lower) if t.slice.lower is not None else "Py.Val.none_"
            hi = self.val(t.slice.upper) if t.slice.upper is not None else "Py.Val.none_"
            return f"let {n} := (Py.setSlice {n} {lo} {hi} {v if v is not None else '(Py.Val.tup [])'})"
        if isinstance(t.slice, ast.Tuple):
            raise Unsupported("subscript")
        if v is None:
            return f"let {n} := (Py.delItem {n} {self.val(t.slice)})"
        return f"let {n} := (Py.setItem {n} {self.val(t.slice)} {v})"

    @staticmethod
    def tup(V):
        return V[0] if len(V) == 1 else "(" + ", ".join(V) + ")"

    def block_tuple(self, stmts, V, ind):
        return self.seq(stmts, ind, final=lambda i: ['  ' * i + self.tup(V)], mode='tuple')

    def seq(self, stmts, ind, final, mode):
        pad = '  ' * ind
        if not stmts:
            return final(ind)
        s, rest = stmts[0], stmts[1:]
        if isinstance(s, (ast.Assign, ast.AugAssign, ast.Return)) and s.value is not None:
            fe = self.fuel_expr(s.value)
            if fe is not None:
                if mode != 'ret':
                    raise Unsupported("call on fuel in joined block")
                self.nfv += 1
                fv = f"fv{self.nfv}_"
                s2 = type(s)(**{k: getattr(s, k) for k in s._fields})
                s2.value = ast.Name(id=fv, ctx=ast.Load())
                self.defined.add(fv)
                return ([f"{pad}match {fe} with", f"{pad}| Py.Out.fuelOut => {self.fuel_out()}", f"{pad}| Py.Out.val {fv} =>"]
                        + self.seq([s2] + rest, ind + 1, final, mode))
        if isinstance(s, ast.Return):
            if mode != 'ret':
                raise Unsupported("return in joined block")
            return [pad + self.wrap_ret(self.source_ret(self.val(s.value) if s.value is not None else 'Py.Val.none_'))]
        if isinstance(s, (ast.Continue, ast.Break)):
            if mode != 'ret' or not self.loops:
                raise Unsupported("continue/break outside a loop body")
            return [pad + self.loops[-1]['continue' if isinstance(s, ast.Continue) else 'break']]
        if isinstance(s, ast.Assert):
            if mode != 'ret':
                raise Unsupported("assert in joined block")
            c = self.cond(s.test)
            return ([f"{pad}if {c} then"] + self.seq(rest, ind + 1, final, mode)
                    + [f"{pad}else", f"{pad}  {self.wrap_ret('Py.Val.err')}"])   # AssertionError
        if isinstance(s, (ast.While, ast.For)):
            if mode != 'ret':
                raise Unsupported("loop in joined block")
            return self.loop(s, rest, ind, final)
        if isinstance(s, ast.Try):
            if mode != 'ret':
                raise Unsupported("try in joined block")
            if s.orelse or s.finalbody or len(s.handlers) != 1 or s.handlers[0].name is not None:
                raise Unsupported("try form")
            return self.try_stmts(list(s.body), list(s.handlers[0].body), rest, ind, final)
        if isinstance(s, ast.If):
            a, b = self.ret_class(s.body), self.ret_class(s.orelse)
            c = self.cond(s.test)
            if a == 'never' and b == 'never':
                V = self.assigned([s])
                if not V:
                    return self.seq(rest, ind, final, mode)
                pre = []
                for v in V:
                    if v not in self.defined and v != 'prec':
                        pre.append(f"{pad}let {v} := Py.Val.err")
                        self.defined.add(v)
                saved = set(self.defined)
                A = self.block_tuple(s.body, V, ind + 2)
                self.defined = set(saved)
                B = self.block_tuple(s.orelse, V, ind + 2)
                self.defined = saved | set(V)
                head = pre + [f"{pad}let {self.tup(V)} :=", f"{pad}  if {c} then"] + A + [f"{pad}  else"] + B
                return head + self.seq(rest, ind, final, mode)
            if mode != 'ret':
                raise Unsupported("conditional return inside joined block")
            saved = set(self.defined)
            if a == 'always' and b == 'always':
                A = self.seq(s.body, ind + 1, final, 'ret')
                self.defined = set(saved)
                B = self.seq(s.orelse, ind + 1, final, 'ret')
            elif a == 'always':
                A = self.seq(s.body, ind + 1, final, 'ret')
                self.defined = set(saved)
                B = self.seq(list(s.orelse) + rest, ind + 1, final, 'ret')
            elif b == 'always':
                A = self.seq(list(s.body) + rest, ind + 1, final, 'ret')
                self.defined = set(saved)
                B = self.seq(s.orelse, ind + 1, final, 'ret')
            else:  # maybe: duplicate the continuation
                A = self.seq(list(s.body) + rest, ind + 1, final, 'ret')
                self.defined = set(saved)
                B = self.seq(list(s.orelse) + rest, ind + 1, final, 'ret')
            return [f"{pad}if {c} then"] + A + [f"{pad}else"] + B
        return self.simple(s, ind) + self.seq(rest, ind, final, mode)

    def try_stmts(self, body, hbody, rest, ind, final):
        """`try: x1 = e1; x2 = e2 … except E: H` followed by `rest`.  Exceptions are values: after each assignment
        `if Py.isErr x then H; rest else …`."""
        pad = '  ' * ind
        if not body:
            return self.seq(rest, ind, final, 'ret')
        st = body[0]
        if not (isinstance(st, ast.Assign) and len(st.targets) == 1 and isinstance(st.targets[0], ast.Name)):
            raise Unsupported("try body statement (only `name = expression`)")
        lines = self.simple(st, ind)
        n = ident(st.targets[0].id)
        saved = set(self.defined)
        H = self.seq(hbody + rest, ind + 1, final, 'ret')
        self.defined = saved
        B = self.try_stmts(body[1:], hbody, rest, ind + 1, final)
        return lines + [f"{pad}if (Py.isErr {n}) then"] + H + [f"{pad}else"] + B

    # ---------- loops ----------
    def source_ret(self, v):
        """value of a source-level `return v`: a function that mutates list parameters in place (item/slice
        assignment, `del`) returns the tuple (v, final value of each mutated parameter, in parameter order)"""
        if self.is_init:
            return "self"         # `Cls(...)` evaluates to the instance
        if not self.mutated:
            return v
        return "(Py.Val.tup [" + ", ".join([v] + self.mutated) + "])"

    def wrap_ret(self, v):
        """how `return v` is rendered where we are: inside a loop function, in a function with fuel, or plainly"""
        if self.loops:
            return f"Py.Loop.ret {v}"
        if self.has_fuel:
            return f"Py.Out.val {v}"
        return v

    def fuel_out(self):
        if self.loops:
            return "Py.Loop.fuelOut"
        if self.has_fuel:
            return "Py.Out.fuelOut"
        return "Py.Val.err"     # unreachable: a function without `while` has no fuel to run out of

    @staticmethod
    def reads(nodes):
        out = set()
        for n in nodes:
            for x in ast.walk(n):
                if isinstance(x, ast.Name):
                    out.add(ident(x.id))
        return out

    def loop(self, s, rest, ind, final):
        """`while`/`for` statement followed by `rest`: emit the auxiliary loop function, return the call site"""
        pad = '  ' * ind
        if s.orelse:
            raise Unsupported("loop else clause")
        is_for = isinstance(s, ast.For)
        self.nloops += 1
        lname = f"{self.lname}_loop{self.nloops}"
        carried = []
        if is_for:
            self.target_names(s.target, carried)
        for n in self.assigned(s.body):
            if n not in carried:
                carried.append(n)
        if 'prec' in carried:
            raise Unsupported("precision assignment inside a loop")
        pre = []
        for v in carried:
            if v not in self.defined:
                pre.append(f"{pad}let {v} := Py.Val.err")
                self.defined.add(v)
        test = [] if is_for else [s.test]
        used = self.reads(list(s.body) + test)
        env = [v for v in self.order if v in self.defined and v in used and v not in carried]
        needs_fuel = any(isinstance(x, ast.While) for x in ast.walk(s))
        envsig = "".join(f" ({v} : Py.Val)" for v in env)
        envargs = "".join(f" {v}" for v in env)
        if self.is_rec:      # the enclosing function one unit of fuel down
            envsig += f" (rec_ : {self.rec_type()})"
            envargs += " rec_"
        cargs = "".join(f" {v}" for v in carried)
        ctuple = "(" + ", ".join(carried) + ")" if carried else "()"
        ctype = " × ".join("Py.Val" for _ in carried) if carried else "Unit"
        # ----- the loop: `<f>_body<k>` is one pass (non-recursive; `k_` is "go round again"), `<f>_loop<k>` iterates it
        bname = f"{self.lname}_body{self.nloops}"
        inner_fuel = any(isinstance(x, ast.While) for b in s.body for x in ast.walk(b))
        saved_defined, saved_loops = self.defined, self.loops
        self.defined = set(env) | set(carried) | {'prec'}
        ktype = f"{'Py.Val → ' * len(carried)}Py.Loop ({ctype})"
        bfix = envsig + (" (fuel : Nat)" if inner_fuel else "")
        bfixargs = envargs + (" fuel" if inner_fuel else "")
        ctx = {'continue': f"k_{cargs}", 'break': f"Py.Loop.done {ctuple}"}
        self.loops = saved_loops + [ctx]
        cont = lambda i: ['  ' * i + ctx['continue']]
        csig = "".join(f" ({v} : Py.Val)" for v in carried)
        if is_for:
            bhead = [f"def {bname} (R : Rounding) (prec : Nat){bfix} (k_ : {ktype}) (it_ : Py.Val){csig} : Py.Loop ({ctype}) :="]
            body = []
            self.unpack(s.target, "it_", '  ', body)
            body += self.seq(list(s.body), 1, final=cont, mode='ret')
            fixed = envsig + (" (fuel : Nat)" if needs_fuel else "")
            fixargs = envargs + (" fuel" if needs_fuel else "")
            lhead = [f"def {lname} (R : Rounding) (prec : Nat){fixed} :",
                     f"    List Py.Val →{' Py.Val →' * len(carried)} Py.Loop ({ctype})",
                     f"  | []{''.join(', ' + v for v in carried)} => Py.Loop.done {ctuple}",
                     f"  | it_ :: its_{''.join(', ' + v for v in carried)} =>",
                     f"    {bname} R prec{bfixargs} ({lname} R prec{fixargs} its_) it_{cargs}"]
        else:
            bhead = [f"def {bname} (R : Rounding) (prec : Nat){bfix} (k_ : {ktype}){csig} : Py.Loop ({ctype}) :="]
            always = isinstance(s.test, ast.Constant) and bool(s.test.value)
            if always:
                body = self.seq(list(s.body), 1, final=cont, mode='ret')
            else:
                c = self.cond(s.test)
                body = ([f"  if {c} then"] + self.seq(list(s.body), 2, final=cont, mode='ret')
                        + ["  else", "    " + ctx['break']])
            fixargs = envargs
            lhead = [f"def {lname} (R : Rounding) (prec : Nat){envsig} :",
                     f"    Nat →{' Py.Val →' * len(carried)} Py.Loop ({ctype})",
                     f"  | 0{', _' * len(carried)} => Py.Loop.fuelOut",
                     f"  | fuel + 1{''.join(', ' + v for v in carried)} =>",
                     f"    {bname} R prec{bfixargs} ({lname} R prec{fixargs} fuel){cargs}"]
        self.aux.append("\n".join(bhead + body))
        self.aux.append("\n".join(lhead))
        self.defined, self.loops = saved_defined, saved_loops
        # ----- the call site
        inner = pad
        lines = list(pre)
        if is_for:
            lines += [f"{pad}match Py.iter {self.val(s.iter)} with",
                      f"{pad}| none => {self.wrap_ret('Py.Val.err')}",
                      f"{pad}| some its_ =>"]
            inner = pad + '  '
            call = f"{lname} R prec{fixargs} its_{cargs}"
        else:
            call = f"{lname} R prec{fixargs} fuel{cargs}"
        lines += [f"{inner}match {call} with",
                  f"{inner}| Py.Loop.ret v_ => {self.wrap_ret('v_')}",
                  f"{inner}| Py.Loop.fuelOut => {self.fuel_out()}",
                  f"{inner}| Py.Loop.done {ctuple} =>"]
        self.defined |= set(carried)
        return lines + self.seq(rest, len(inner) // 2 + 1, final, 'ret')

    def params(self):
        if self.abs_params is not None:
            return list(self.abs_params)
        ps = [ident(a.arg) for a in self.fn.args.args]
        return ps[1:] if self.is_init else ps

    def rec_type(self):
        return "Py.Val → " * len(self.params()) + "Py.Out"

    def signature(self):
        params = self.params()
        if self.is_rec:
            return (f"def {self.lname}_body (R : Rounding) (ambient : Nat) (rec_ : {self.rec_type()}) "
                    + " ".join(f"({p} : Py.Val)" for p in params) + " : Py.Out :=")
        if self.has_fuel:
            return (f"def {self.lname} (R : Rounding) (ambient : Nat) (fuel : Nat) "
                    + " ".join(f"({p} : Py.Val)" for p in params) + " : Py.Out :=")
        return (f"def {self.lname} (R : Rounding) (ambient : Nat) "
                + " ".join(f"({p} : Py.Val)" for p in params) + " : Py.Val :=")

    def rec_wrapper(self):
        """the recursive function itself: structural recursion on the fuel around the non-recursive `_body`"""
        ps = self.params()
        return "\n".join([
            f"def {self.lname} (R : Rounding) (ambient : Nat) :",
            f"    Nat → {'Py.Val → ' * len(ps)}Py.Out",
            f"  | 0{', _' * len(ps)} => Py.Out.fuelOut",
            f"  | fuel + 1{''.join(', ' + x for x in ps)} =>",
            f"    {self.lname}_body R ambient ({self.lname} R ambient fuel){''.join(' ' + x for x in ps)}"])

    def translate(self):
        fn = self.fn
        if fn.args.vararg or fn.args.kwarg or fn.args.kwonlyargs or fn.args.posonlyargs:
            raise Unsupported("signature")
        params = self.params()
        self.defined = set(params) | {'prec'}
        self.tmp = 0
        self.analyse_stores(params)
        body = self.strip_doc(fn.body)
        if self.ret_class(body) != 'always':
            body = body + [ast.Return(value=None)]
        lines = [self.signature(), "  let prec := ambient"]
        if self.is_init:
            self.defined.add('self')
            saved = self.defined
            self.defined = set()
            dflt = [self.val(self.cls.defaults[f]) if f in self.cls.defaults else "Py.Val.none_" for f in self.cls.fields]
            self.defined = saved
            lines.append(f"  let self := (Py.Val.tup [(Py.Val.str {lean_str(self.cls.name)})" + "".join(", " + d for d in dflt) + "])")
        lines += self.seq(body, 1, final=lambda i: ['  ' * i + self.wrap_ret(self.source_ret('Py.Val.none_'))], mode='ret')
        main = ["\n".join(lines)] + ([self.rec_wrapper()] if self.is_rec else [])
        return "\n\n".join(self.aux + main)

    def analyse_stores(self, params):
        """names updated in place (`a[i] = …`, `del a[i:j]`).  Lists are values here, so such an update is only
        faithful when the list has no second name: every other use of the name must be `a[...]` (indexing or a
        slice, which copies) or `len(a)`; and it must not be the sequence of an enclosing `for`."""
        stored = []
        depth = {}       # name -> deepest nested store `a[i]…[k] = v` (objects down to depth-1 inside `a` are updated)
        for x in ast.walk(self.fn):
            tg = []
            if isinstance(x, ast.Assign):
                tg = x.targets
            elif isinstance(x, ast.Delete):
                tg = x.targets
            for t in tg:
                if isinstance(t, ast.Subscript) and isinstance(t.value, ast.Name) and ident(t.value.id) not in stored:
                    stored.append(ident(t.value.id))
                elif isinstance(t, ast.Subscript) and self.sub_base(t) is not None:
                    b = ident(self.sub_base(t).id)
                    d = 0
                    x = t
                    while isinstance(x, ast.Subscript):
                        d += 1
                        x = x.value
                    depth[b] = max(depth.get(b, 1), d)
                    if b not in stored:
                        stored.append(b)
        ok_use = set()
        for x in ast.walk(self.fn):
            if isinstance(x, ast.Subscript) and isinstance(x.value, ast.Name):
                ok_use.add(id(x.value))
            if isinstance(x, ast.Call) and isinstance(x.func, ast.Name) and x.func.id == 'len':
                for a in x.args:
                    if isinstance(a, ast.Name):
                        ok_use.add(id(a))
        bad = set()
        for x in ast.walk(self.fn):
            if isinstance(x, ast.Name) and ident(x.id) in stored and id(x) not in ok_use:
                bad.add(ident(x.id))
            if isinstance(x, ast.For):
                for y in ast.walk(x.iter):
                    if isinstance(y, ast.Name) and ident(y.id) in stored:
                        bad.add(ident(y.id))
        # nested stores update inner lists: no name may be bound to such an inner list, i.e. every `a[i]…` of depth
        # < depth[a] that is read must itself be subscripted further
        parent = {}
        for x in ast.walk(self.fn):
            for c in ast.iter_child_nodes(x):
                parent[id(c)] = x
        for x in ast.walk(self.fn):
            if isinstance(x, ast.Subscript) and isinstance(x.ctx, ast.Load) and self.sub_base(x) is not None:
                b = ident(self.sub_base(x).id)
                if b in depth:
                    d = 0
                    y = x
                    while isinstance(y, ast.Subscript):
                        d += 1
                        y = y.value
                    par = parent.get(id(x))
                    wrapped = isinstance(par, ast.Subscript) and par.value is x
                    if d < depth[b] and not wrapped:
                        bad.add(b)
        self.storable = set(stored) - bad
        self.mutated = [p for p in params if p in stored]
        if self.cls is not None and not self.is_init:
            touches_self = any(isinstance(x, ast.Attribute) and isinstance(x.ctx, ast.Store) and self.path_root(x) == 'self'
                               for x in ast.walk(self.fn)) or \
                any(isinstance(x, ast.Expr) and self.mut_stmt(x) is not None and self.path_root(self.mut_stmt(x)[0]) == 'self'
                    for x in ast.walk(self.fn)) or \
                any(isinstance(x, (ast.Assign, ast.AugAssign)) and isinstance(getattr(x, 'target', None) or x.targets[0], ast.Subscript)
                    and self.path_root(getattr(x, 'target', None) or x.targets[0]) == 'self' for x in ast.walk(self.fn))
            if touches_self and 'self' not in self.mutated:
                self.mutated = ['self'] + self.mutated

    def stub(self):
        if self.is_rec:
            return self.signature() + "\n  Py.Out.val Py.Val.err\n\n" + self.rec_wrapper()
        return self.signature() + "\n  " + self.wrap_ret("Py.Val.err")


def dependency_path(module):
    """absolute path of the source of an installed dependency (the interpreter that runs the checks has it)"""
    import importlib.util
    try:
        spec = importlib.util.find_spec(module)
        if spec is not None and spec.origin:
            return spec.origin
    except (ImportError, ValueError):
        pass
    return '/venv/lib/python3.12/site-packages/' + module.replace('.', '/') + '.py'


BEZMISC = dependency_path('ink_extensions.bezmisc')

# (module file, function name) in dependency order; an absolute module path is an installed dependency
FUNCTIONS = [
    ('ebb_calc.py', 'move_dist_lt'),
    ('ebb_calc.py', 'move_dist_t3'),
    ('ebb_calc.py', 'rate_t3'),
    ('ebb_calc.py', 'max_rate_t3'),
    ('ebb_calc.py', 'calculate_lm'),
    ('ebb_motion.py', 'moveDistLM'),
    ('ebb_motion.py', 'moveDistLMA'),
    ('ebb_motion.py', 'moveTimeLM'),
    ('plot_utils.py', 'checkLimits'),
    ('plot_utils.py', 'checkLimitsTol'),
    ('plot_utils.py', 'point_in_bounds'),
    ('plot_utils.py', 'constrainLimits'),
    ('plot_utils.py', 'clip_code'),
    ('plot_utils.py', 'clip_segment'),
    ('plot_utils.py', 'points_in_tolerance'),
    ('plot_utils.py', 'supersample'),
    ('text_utils.py', 'xml_escape'),
    ('text_utils.py', 'format_hms'),
    ('plot_utils.py', 'parseLengthWithUnits'),
    ('plot_utils.py', 'unitsToUserUnits'),
    ('plot_utils.py', 'userUnitToUnits'),
    ('plot_utils.py', 'vb_scale'),
    ('plot_utils.py', 'getLength'),          # the document-attribute lookup becomes the parameter attr_name
    ('plot_utils.py', 'getLengthInches'),
    (BEZMISC, 'tpoint'),
    (BEZMISC, 'beziersplitatt'),
    ('plot_utils.py', 'subdivideCubicPath'),
    ('rtree.py', 'Index', 'rtree'),           # a class: (module, class name, Lean name prefix)
    ('plot_utils.py', 'square_dist'),
    ('spatial_grid.py', 'Index', 'grid'),
    # supplementary (X01): helpers outside the twenty listed properties
    ('plot_utils.py', 'distance'),
    ('plot_utils.py', 'dotProductXY'),
    ('plot_utils.py', 'position_scale'),
    ('plot_utils.py', 'points_near'),
    ('plot_utils.py', 'points_equal'),
    ('plot_utils.py', 'pathdata_first_point'),   # simplepath.parsePath(path) becomes the parameter parsed_path
    ('plot_utils.py', 'pathdata_last_point'),
    ('plot_utils.py', 'vInitial_VF_A_Dx'),
    ('plot_utils.py', 'vFinal_Vi_A_Dx'),
]


def generate(repo, outdir):
    os.makedirs(outdir, exist_ok=True)
    trees = {}
    srcs = {}
    fns = {}
    report = {}
    entries = [(e[0], e[1]) for e in FUNCTIONS if len(e) == 2]
    class_entries = [e for e in FUNCTIONS if len(e) == 3]
    for mod, name in entries:
        path = mod if os.path.isabs(mod) else os.path.join(repo, 'plotink', mod)   # absolute: an installed dependency
        if mod not in trees:
            try:
                srcs[mod] = open(path).read()
                trees[mod] = ast.parse(srcs[mod])
            except (SyntaxError, OSError) as ex:
                trees[mod] = None
                report[mod] = f"parse error: {ex}"
        tree = trees[mod]
        fn = None
        if tree is not None:
            for n in tree.body:
                if isinstance(n, ast.FunctionDef) and n.name == name:
                    fn = n
        fns[name] = fn
    known = {k: v for k, v in fns.items() if v is not None}
    for mod, name in entries:
        fn = fns[name]
        status = 'ok'
        deps = []
        if fn is None:
            status = 'missing'
            code = f"def {name}_missing : Bool := true"
        else:
            consts = {}
            for st in trees[mod].body:
                if isinstance(st, ast.Assign) and len(st.targets) == 1 and isinstance(st.targets[0], ast.Name):
                    v = st.value
                    if isinstance(v, ast.UnaryOp) and isinstance(v.op, ast.USub):
                        v = v.operand
                    if isinstance(v, ast.Constant) and isinstance(v.value, (int, float, str)) or \
                            isinstance(v, ast.Constant) and v.value is None:
                        consts[st.targets[0].id] = st.value
            tr = FnTr(fn, known, consts)
            try:
                code = tr.translate()
                deps = tr.deps
            except Unsupported as ex:
                status = f"unsupported: {ex}"
                tr2 = FnTr(fn, known, consts)
                code = tr2.stub()
                deps = []
        imports = "import Plotink.Py\n" + "".join(f"import Plotink.Gen.{d}\n" for d in deps)
        origin = mod if os.path.isabs(mod) else f"plotink/{mod}"
        text = (f"-- GENERATED by translator/pynum2lean.py from {origin}:{name}. Do not edit.\n"
                + imports + "namespace Plotink\nnamespace Gen\nset_option linter.unusedVariables false\n\n"
                + code + "\n\nend Gen\nend Plotink\n")
        out = os.path.join(outdir, f"{name}.lean")
        old = open(out).read() if os.path.exists(out) else None
        if old != text:
            with open(out, 'w') as f:
                f.write(text)
        report[name] = {'module': mod, 'status': status, 'deps': deps,
                        'sha256': hashlib.sha256(text.encode()).hexdigest(),
                        'changed': old is not None and old != text}
        if fn is not None and status == 'ok' and tr.abs_report:
            report[name]['abstracted'] = tr.abs_report    # opaque-object lookups replaced by parameters
        if os.path.isabs(mod) and mod in srcs:     # a dependency outside the repository: pin what was translated
            report[name]['source_sha256'] = hashlib.sha256(srcs[mod].encode()).hexdigest()
    # ---- classes: one file per class, one definition (or body + wrapper) per method
    for mod, cname, prefix in class_entries:
        lname = f"{prefix}_{cname}"
        path = os.path.join(repo, 'plotink', mod)
        status, deps, codes = 'ok', [], []
        try:
            tree = ast.parse(open(path).read())
        except (SyntaxError, OSError) as ex:
            tree = None
            status = f"parse error: {ex}"
        cd = None
        if tree is not None:
            cd = next((n for n in tree.body if isinstance(n, ast.ClassDef) and n.name == cname), None)
            if cd is None:
                status = 'missing'
        if cd is None:
            codes = [f"def {lname}_missing : Bool := true"]
        else:
            ci = ClassInfo(cd, prefix)
            consts = {}
            methods = [m for m in ci.methods.values() if m.name != '__init__'] + \
                [m for m in ci.methods.values() if m.name == '__init__']
            for m in methods:
                tr = FnTr(m, known, consts, cls=ci, classes={ci.lname: ci})
                try:
                    codes.append(tr.translate())
                    ci.meth_info[m.name] = {'fuel': tr.has_fuel, 'mutated': list(tr.mutated)}
                    deps += [d for d in tr.deps if d not in deps]
                except Unsupported as ex:
                    status = (status + '; ' if status != 'ok' else '') + f"unsupported {m.name}: {ex}"
                    codes.append(FnTr(m, known, consts, cls=ci, classes={ci.lname: ci}).stub())
        imports = "import Plotink.Py\n" + "".join(f"import Plotink.Gen.{d}\n" for d in deps)
        text = (f"-- GENERATED by translator/pynum2lean.py from plotink/{mod}:class {cname}. Do not edit.\n"
                + imports + "namespace Plotink\nnamespace Gen\nset_option linter.unusedVariables false\n\n"
                + "\n\n".join(codes) + "\n\nend Gen\nend Plotink\n")
        out = os.path.join(outdir, f"{lname}.lean")
        old = open(out).read() if os.path.exists(out) else None
        if old != text:
            with open(out, 'w') as f:
                f.write(text)
        report[lname] = {'module': mod, 'class': cname, 'status': status, 'deps': deps,
                         'sha256': hashlib.sha256(text.encode()).hexdigest(),
                         'changed': old is not None and old != text}
    with open(os.path.join(outdir, 'report.json'), 'w') as f:
        json.dump(report, f, indent=1, sort_keys=True)
    return report


if __name__ == '__main__':
    repo = sys.argv[1] if len(sys.argv) > 1 else '/repo'
    here = os.path.dirname(os.path.abspath(__file__))
    out = sys.argv[2] if len(sys.argv) > 2 else os.path.join(here, '..', 'lean', 'Plotink', 'Gen')
    rep = generate(repo, out)
    bad = {k: v for k, v in rep.items() if isinstance(v, dict) and v['status'] != 'ok'}
    print(json.dumps({'generated': len(rep), 'not_ok': bad}))
