#!/usr/bin/env python3
"""PyIO -> Lean translator: Python functions that talk to a serial port.

Companion of pynum2lean.py for the I/O subset.  Each function of `FUNCTIONS` becomes a Lean file
`lean/Plotink/Gen/<module>_<function>.lean` whose definitions are built from the combinators of
`lean/Plotink/PyIO.lean` (a shallow embedding, one combinator per statement / expression form):

    structure <g>_Env        one field (a `PyIO.Val`) per parameter and per local variable
    def <g>_test<k>          the test of the k-th `while` loop            : <g>_Env -> PyIO.Eff
    def <g>_body<k>          its body                                      : PyIO.Stmt <g>_Env
    def <g>_loop<k>          := PyIO.while_ <g>_test<k> <g>_body<k>
    def <g>_try<k>           the body of the k-th `try` statement          : PyIO.Stmt <g>_Env
    def <g>_handlers<k>      its `except` clauses                          : List (PyIO.Handler <g>_Env)
    def <g>_if<k>            the k-th `if` statement (numbered in textual order, like loops and tries)
    def <g>_main             the function body                             : PyIO.Stmt <g>_Env
    def <g> (fuel) (params…) (st : PyIO.Port) : PyIO.Out := PyIO.run <g>_main fuel {params…, locals := unbound} st

What is modelled (see PyIO.lean): the port object's `write` / `readline` as effects on a script that is threaded
through every expression; `str` vs `bytes`; real exception semantics (`try`/`except` by class with Python's
hierarchy, `as name` bound and unbound, assignments made before a raise stay visible, uncaught exceptions escape
as `PyIO.Out.exc`); `while` on the function's fuel (exhaustion = `PyIO.Out.fuelOut`); short-circuit `and`/`or`;
reads of locals that may be unbound (`UnboundLocalError`); `logger.<level>(…)` calls evaluate their arguments and are
dropped.  Evaluation order: receiver, arguments left to right, then the call (attribute lookup itself is not a
separate step).  Anything else is rejected: the function is emitted as a stub and reported in
`Gen/io_report.json` (the caller treats that as a broken tie).
"""
import ast, sys, os, json, hashlib, string

try:
    from pynum2lean import RESERVED, Unsupported
except Exception:            # pynum2lean is being edited by someone else: do not depend on it being importable
    RESERVED = {'at', 'end', 'from', 'in', 'then', 'else', 'if', 'do', 'let', 'have', 'show', 'fun', 'match',
                'with', 'open', 'def', 'theorem', 'by', 'where', 'instance', 'class', 'structure', 'namespace',
                'section', 'variable', 'universe', 'import', 'export', 'deriving', 'mutual', 'private',
                'protected', 'partial', 'unsafe', 'return', 'for', 'unless', 'try', 'catch', 'finally', 'mut',
                'macro', 'syntax', 'notation', 'prefix', 'infix', 'postfix', 'abbrev', 'example', 'axiom',
                'inductive', 'opaque', 'set_option', 'attribute', 'local', 'scoped', 'nomatch', 'nofun',
                'using', 'calc', 'this', 'Type', 'Prop', 'Sort'}

    class Unsupported(Exception):
        pass

RESERVED = set(RESERVED) | {'env', 'st', 'fuel', 'v', 'toCtorIdx', 'mk', 'rec', 'casesOn', 'noConfusion'}

# (module file, function name) ; the generated name is <module stem>_<function>
FUNCTIONS = [
    ('ebb_serial.py', 'query'),
    ('ebb_serial.py', 'command'),
]

EXC = {
    'BaseException': 'baseException', 'Exception': 'exception',
    'OSError': 'osError', 'IOError': 'osError', 'EnvironmentError': 'osError',
    'serial.SerialException': 'serialException', 'serial.serialutil.SerialException': 'serialException',
    'serial.SerialTimeoutException': 'serialTimeoutException', 'serial.PortNotOpenError': 'portNotOpenError',
    'RuntimeError': 'runtimeError', 'TypeError': 'typeError', 'AttributeError': 'attributeError',
    'ValueError': 'valueError', 'UnicodeError': 'unicodeError', 'UnicodeDecodeError': 'unicodeDecodeError',
    'UnicodeEncodeError': 'unicodeEncodeError', 'LookupError': 'lookupError', 'IndexError': 'indexError',
    'KeyError': 'keyError', 'NameError': 'nameError', 'UnboundLocalError': 'unboundLocalError',
    'ArithmeticError': 'arithmeticError', 'ZeroDivisionError': 'zeroDivisionError', 'AssertionError': 'assertionError',
}
LOG_LEVELS = {'debug', 'info', 'warning', 'warn', 'error', 'critical', 'exception', 'log'}


def ident(n):
    if n == '_':
        return 'underscore_'
    return n + '_' if n in RESERVED else n


def lean_chars(s):
    """a Python str / bytes literal as a Lean `List Char` (explicit list: reduces by `rfl`/`simp`)"""
    out = []
    for ch in s:
        o = ch if isinstance(ch, int) else ord(ch)
        if o == 39:
            out.append("'\\''")
        elif o == 92:
            out.append("'\\\\'")
        elif o == 10:
            out.append("'\\n'")
        elif o == 13:
            out.append("'\\r'")
        elif o == 9:
            out.append("'\\t'")
        elif 32 <= o < 127:
            out.append("'" + chr(o) + "'")
        else:
            out.append("(Char.ofNat %d)" % o)
    return '[' + ', '.join(out) + ']'


def lean_char(ch):
    return lean_chars(ch)[1:-1]


def dotted(e):
    if isinstance(e, ast.Name):
        return e.id
    if isinstance(e, ast.Attribute):
        b = dotted(e.value)
        return None if b is None else b + '.' + e.attr
    return None


class IoTr:
    def __init__(self, fn, gname):
        self.fn = fn
        self.g = gname
        if fn.args.vararg or fn.args.kwarg or fn.args.kwonlyargs or fn.args.posonlyargs:
            raise Unsupported('signature')
        self.params = [a.arg for a in fn.args.args]
        self.locals = []
        for x in sorted((x for x in ast.walk(fn) if isinstance(x, (ast.Name, ast.ExceptHandler))),
                        key=lambda x: (x.lineno, x.col_offset)):
            n = None
            if isinstance(x, ast.Name) and isinstance(x.ctx, (ast.Store, ast.Del)):
                n = x.id
            elif isinstance(x, ast.ExceptHandler) and x.name:
                n = x.name
            if n is not None and n not in self.params and n not in self.locals:
                self.locals.append(n)
        self.aux = []
        self.nloop = 0
        self.ntry = 0
        self.nif = 0
        self.env = f'{self.g}_Env'

    # ---------------- expressions: Lean text of type PyIO.Eff, with `env` in scope ----------------
    def E(self, e):
        if isinstance(e, ast.Constant):
            v = e.value
            if isinstance(v, bool):
                return f"(PyIO.ok (PyIO.Val.bool {'true' if v else 'false'}))"
            if isinstance(v, int):
                return f"(PyIO.ok (PyIO.Val.int ({v})))"
            if isinstance(v, str):
                return f"(PyIO.ok (PyIO.Val.str {lean_chars(v)}))"
            if isinstance(v, bytes):
                return f"(PyIO.ok (PyIO.Val.bytes {lean_chars(v)}))"
            if v is None:
                return "(PyIO.ok PyIO.Val.none)"
            raise Unsupported(f'constant {v!r}')
        if isinstance(e, ast.Name):
            if e.id in self.params and not self.rebinds(e.id):
                return f"(PyIO.ok env.{ident(e.id)})"
            if e.id in self.params or e.id in self.locals:
                return f"(PyIO.load env.{ident(e.id)})"
            raise Unsupported(f'free name {e.id}')
        if isinstance(e, ast.BoolOp):
            op = 'PyIO.and_' if isinstance(e.op, ast.And) else 'PyIO.or_'
            out = self.E(e.values[-1])
            for v in reversed(e.values[:-1]):
                out = f"({op} {self.E(v)} {out})"
            return out
        if isinstance(e, ast.UnaryOp) and isinstance(e.op, ast.Not):
            return f"(PyIO.not_ {self.E(e.operand)})"
        if isinstance(e, ast.UnaryOp) and isinstance(e.op, ast.USub) and isinstance(e.operand, ast.Constant) \
                and isinstance(e.operand.value, int) and not isinstance(e.operand.value, bool):
            return f"(PyIO.ok (PyIO.Val.int (-{e.operand.value})))"
        if isinstance(e, ast.Compare):
            if len(e.ops) != 1:
                raise Unsupported('comparison chain')
            op, l, r = e.ops[0], e.left, e.comparators[0]
            if isinstance(op, (ast.Is, ast.IsNot)):
                if not (isinstance(r, ast.Constant) and r.value is None):
                    raise Unsupported('`is` with something other than None')
                return f"(PyIO.call1 PyIO.{'op_is_none' if isinstance(op, ast.Is) else 'op_is_not_none'} {self.E(l)})"
            names = {ast.Eq: 'op_eq', ast.NotEq: 'op_ne', ast.Lt: 'op_lt', ast.LtE: 'op_le', ast.Gt: 'op_gt',
                     ast.GtE: 'op_ge', ast.In: 'op_in', ast.NotIn: 'op_not_in'}
            if type(op) not in names:
                raise Unsupported(f'comparison {type(op).__name__}')
            return f"(PyIO.call2 PyIO.{names[type(op)]} {self.E(l)} {self.E(r)})"
        if isinstance(e, ast.BinOp):
            ops = {ast.Add: 'op_add', ast.Sub: 'op_sub'}
            if type(e.op) not in ops:
                raise Unsupported(f'binop {type(e.op).__name__}')
            return f"(PyIO.call2 PyIO.{ops[type(e.op)]} {self.E(e.left)} {self.E(e.right)})"
        if isinstance(e, (ast.Tuple, ast.List)):
            return "(PyIO.mkList [" + ", ".join(self.E(x) for x in e.elts) + "])"
        if isinstance(e, ast.Subscript):
            if isinstance(e.slice, ast.Constant) and isinstance(e.slice.value, int) and not isinstance(e.slice.value, bool) \
                    and e.slice.value >= 0:
                return f"(PyIO.call2 PyIO.op_index {self.E(e.value)} (PyIO.ok (PyIO.Val.int ({e.slice.value}))))"
            raise Unsupported('subscript')
        if isinstance(e, ast.Call):
            return self.call(e)
        raise Unsupported(f'expression {type(e).__name__}')

    def rebinds(self, name):
        for x in ast.walk(self.fn):
            if isinstance(x, ast.Name) and x.id == name and isinstance(x.ctx, (ast.Store, ast.Del)):
                return True
            if isinstance(x, ast.ExceptHandler) and x.name == name:
                return True
        return False

    def is_local_value(self, e):
        """does the expression denote a value of this function (as opposed to a module / global object)?"""
        return not (isinstance(e, ast.Name) and e.id not in self.params and e.id not in self.locals)

    def call(self, e):
        f = e.func
        if isinstance(f, ast.Name):
            if e.keywords:
                raise Unsupported('keywords on a builtin')
            if f.id == 'len' and len(e.args) == 1:
                return f"(PyIO.call1 PyIO.op_len {self.E(e.args[0])})"
            raise Unsupported(f'call of {f.id}')
        if not isinstance(f, ast.Attribute):
            raise Unsupported('callee')
        if not self.is_local_value(f.value):
            # a module-level object: only the logger is understood
            if isinstance(f.value, ast.Name) and f.value.id in ('logger', 'logging') and f.attr in LOG_LEVELS:
                args = [self.E(a) for a in e.args] + [self.E(k.value) for k in e.keywords]
                return "(PyIO.logCall [" + ", ".join(args) + "])"
            raise Unsupported(f'call of {dotted(f)}')
        if e.keywords:
            raise Unsupported('keywords on a method call')
        recv, A, n = self.E(f.value), e.args, len(e.args)
        m = f.attr
        if m == 'write' and n == 1:
            return f"(PyIO.call2 PyIO.meth_write {recv} {self.E(A[0])})"
        if m == 'readline' and n == 0:
            return f"(PyIO.call1 PyIO.meth_readline {recv})"
        if m in ('encode', 'decode') and n == 1:
            if not (isinstance(A[0], ast.Constant) and isinstance(A[0].value, str)
                    and A[0].value.lower().replace('-', '_') in ('ascii', 'us_ascii')):
                raise Unsupported(f'{m} with a codec other than ascii')
            return f"(PyIO.call2 PyIO.meth_{m} {recv} {self.E(A[0])})"
        if m in ('strip', 'lower') and n == 0:
            return f"(PyIO.call1 PyIO.meth_{m} {recv})"
        if m == 'split' and n == 1:
            if not (isinstance(A[0], ast.Constant) and isinstance(A[0].value, str) and len(A[0].value) == 1):
                raise Unsupported('split with a separator that is not a one-character literal')
            return f"(PyIO.call1 (PyIO.meth_split_char {lean_char(A[0].value)}) {recv})"
        if m == 'startswith' and n == 1:
            return f"(PyIO.call2 PyIO.meth_startswith {recv} {self.E(A[0])})"
        if m == 'join' and n == 1:
            return f"(PyIO.call2 PyIO.meth_join {recv} {self.E(A[0])})"
        if m == 'format' and n == 1 and isinstance(f.value, ast.Constant) and isinstance(f.value.value, str):
            for lit, field, spec, conv in string.Formatter().parse(f.value.value):
                if field is not None and (field not in ('', '0') or spec or conv):
                    raise Unsupported('format field')
            return f"(PyIO.call2 PyIO.meth_format1 {recv} {self.E(A[0])})"
        raise Unsupported(f'method {m}/{n}')

    # ---------------- statements: Lean text of type PyIO.Stmt <Env> ----------------
    def setter(self, name):
        return f"(fun env v => {{ env with {ident(name)} := v }})"

    def fn_env(self, text):
        return f"(fun env => {text})"

    def S(self, s, ind):
        pad = '  ' * ind
        if isinstance(s, ast.Assign):
            if len(s.targets) != 1 or not isinstance(s.targets[0], ast.Name):
                raise Unsupported('assignment target')
            return f"{pad}(PyIO.assign {self.setter(s.targets[0].id)} {self.fn_env(self.E(s.value))})"
        if isinstance(s, ast.AugAssign):
            ops = {ast.Add: 'op_add', ast.Sub: 'op_sub'}
            if type(s.op) not in ops or not isinstance(s.target, ast.Name):
                raise Unsupported('augmented assignment')
            cur = self.E(ast.Name(id=s.target.id, ctx=ast.Load()))
            return (f"{pad}(PyIO.assign {self.setter(s.target.id)} "
                    f"{self.fn_env(f'(PyIO.call2 PyIO.{ops[type(s.op)]} {cur} {self.E(s.value)})')})")
        if isinstance(s, ast.Expr):
            return f"{pad}(PyIO.expr {self.fn_env(self.E(s.value))})"
        if isinstance(s, ast.Pass):
            return f"{pad}PyIO.pass"
        if isinstance(s, ast.Return):
            v = self.E(s.value) if s.value is not None else "(PyIO.ok PyIO.Val.none)"
            return f"{pad}(PyIO.return_ {self.fn_env(v)})"
        if isinstance(s, ast.If):
            self.nif += 1
            k = self.nif
            test = self.E(s.test)
            a, b = self.B(s.body, 2), self.B(s.orelse, 2)
            self.aux.append(f"def {self.g}_if{k} : PyIO.Stmt {self.env} :=\n  PyIO.ifte (fun env => {test})\n{a}\n{b}")
            return f"{pad}{self.g}_if{k}"
        if isinstance(s, ast.While):
            if s.orelse:
                raise Unsupported('while-else')
            for x in ast.walk(s):
                if isinstance(x, (ast.Break, ast.Continue)):
                    raise Unsupported('break/continue')
            self.nloop += 1
            k = self.nloop
            test = self.E(s.test)
            body = self.B(s.body, 1)
            self.aux.append(f"def {self.g}_test{k} : {self.env} → PyIO.Eff :=\n  fun env => {test}")
            self.aux.append(f"def {self.g}_body{k} : PyIO.Stmt {self.env} :=\n{body}")
            self.aux.append(f"def {self.g}_loop{k} : PyIO.Stmt {self.env} :=\n  PyIO.while_ {self.g}_test{k} {self.g}_body{k}")
            return f"{pad}{self.g}_loop{k}"
        if isinstance(s, ast.Try):
            if s.orelse or s.finalbody:
                raise Unsupported('try with else/finally')
            self.ntry += 1
            k = self.ntry
            body = self.B(s.body, 1)
            hs = []
            for h in s.handlers:
                if h.type is None:
                    classes = 'none'
                else:
                    elts = h.type.elts if isinstance(h.type, ast.Tuple) else [h.type]
                    cs = []
                    for c in elts:
                        d = dotted(c)
                        if d not in EXC:
                            raise Unsupported(f'exception class {d}')
                        cs.append(f'.{EXC[d]}')
                    classes = '(some [' + ', '.join(cs) + '])'
                bind = f'(some {self.setter(h.name)})' if h.name else 'none'
                hs.append(f"   {{ classes := {classes}, bind := {bind}, body :=\n" + self.B(h.body, 3) + " }")
            self.aux.append(f"def {self.g}_try{k} : PyIO.Stmt {self.env} :=\n{body}")
            self.aux.append(f"def {self.g}_handlers{k} : List (PyIO.Handler {self.env}) :=\n  [\n" + ",\n".join(hs) + "\n  ]")
            return f"{pad}(PyIO.tryExcept {self.g}_try{k} {self.g}_handlers{k})"
        raise Unsupported(f'statement {type(s).__name__}')

    def B(self, stmts, ind):
        pad = '  ' * ind
        stmts = [s for s in stmts if not (isinstance(s, ast.Expr) and isinstance(s.value, ast.Constant)
                                          and isinstance(s.value.value, str))]
        if not stmts:
            return f"{pad}PyIO.pass"
        if len(stmts) == 1:
            return self.S(stmts[0], ind)
        return f"{pad}(PyIO.block [\n" + ",\n".join(self.S(s, ind + 1) for s in stmts) + f"\n{pad}])"

    def header(self):
        fields = "\n".join(f"  {ident(n)} : PyIO.Val" for n in self.params + self.locals)
        return f"structure {self.env} where\n{fields}"

    def signature(self):
        ps = " ".join(f"({ident(p)} : PyIO.Val)" for p in self.params)
        return f"def {self.g} (fuel : Nat) {ps} (st : PyIO.Port) : PyIO.Out :="

    def translate(self):
        main = self.B(self.fn.body, 1)
        init = ", ".join([f"{ident(p)} := {ident(p)}" for p in self.params]
                         + [f"{ident(n)} := PyIO.Val.unbound" for n in self.locals])
        parts = [self.header()] + self.aux + [
            f"def {self.g}_main : PyIO.Stmt {self.env} :=\n{main}",
            f"{self.signature()}\n  PyIO.run {self.g}_main fuel {{ {init} }} st"]
        return "\n\n".join(parts)

    def stub(self):
        return f"{self.header()}\n\n{self.signature()}\n  PyIO.Out.fuelOut"


def gen_name(mod, name):
    return f"{os.path.splitext(mod)[0]}_{name}"


def generate(repo, outdir):
    os.makedirs(outdir, exist_ok=True)
    report = {}
    trees = {}
    for mod, name in FUNCTIONS:
        g = gen_name(mod, name)
        if mod not in trees:
            try:
                trees[mod] = ast.parse(open(os.path.join(repo, 'plotink', mod)).read())
            except (SyntaxError, OSError) as ex:
                trees[mod] = None
        tree = trees[mod]
        fn = None
        if tree is not None:
            for n in tree.body:
                if isinstance(n, ast.FunctionDef) and n.name == name:
                    fn = n
        status, defaults = 'ok', {}
        if fn is None:
            status = 'missing'
            code = f"def {g}_missing : Bool := true"
        else:
            try:
                code = IoTr(fn, g).translate()
                ps = [a.arg for a in fn.args.args]
                for p, d in zip(ps[len(ps) - len(fn.args.defaults):], fn.args.defaults):
                    defaults[p] = ast.unparse(d)
            except Unsupported as ex:
                status = f'unsupported: {ex}'
                try:
                    code = IoTr(fn, g).stub()
                except Unsupported:
                    code = f"def {g}_missing : Bool := true"
        text = (f"-- GENERATED by translator/pyio2lean.py from plotink/{mod}:{name}. Do not edit.\n"
                "import Plotink.PyIO\nnamespace Plotink\nnamespace Gen\nset_option linter.unusedVariables false\n\n"
                + code + "\n\nend Gen\nend Plotink\n")
        out = os.path.join(outdir, f"{g}.lean")
        old = open(out).read() if os.path.exists(out) else None
        if old != text:
            with open(out, 'w') as f:
                f.write(text)
        report[g] = {'module': mod, 'function': name, 'status': status, 'deps': [], 'defaults': defaults,
                     'sha256': hashlib.sha256(text.encode()).hexdigest(), 'changed': old is not None and old != text}
    with open(os.path.join(outdir, 'io_report.json'), 'w') as f:
        json.dump(report, f, indent=1, sort_keys=True)
    return report


if __name__ == '__main__':
    repo = sys.argv[1] if len(sys.argv) > 1 else '/repo'
    here = os.path.dirname(os.path.abspath(__file__))
    out = sys.argv[2] if len(sys.argv) > 2 else os.path.join(here, '..', 'lean', 'Plotink', 'Gen')
    rep = generate(repo, out)
    print(json.dumps({k: v['status'] for k, v in rep.items()}))
