#!/usr/bin/env python3
"""PyIO -> Lean translator: Python functions that talk to a serial port.

Companion of pynum2lean.py for the I/O subset.  Each function of `FUNCTIONS` becomes a Lean file
`lean/Plotink/Gen/<module>_<function>.lean` whose definitions are built from the combinators of
`lean/Plotink/PyIO.lean` (a shallow embedding, one combinator per statement / expression form):

    structure <g>_Env        one field (a `PyIO.Val`) per parameter and per local variable
    def <g>_test<k>          the test of the k-th `while` loop            : <g>_Env -> PyIO.Eff
    def <g>_body<k>          its body                                      : PyIO.Stmt <g>_Env
    def <g>_loop<k>          := PyIO.while_ <g>_test<k> <g>_body<k>
    def <g>_try<k>           the body of the k-th `try` statement          : PyIO.Stmt <g>_Env
    def <g>_handlers<k>      its `except` clauses                          : List (PyIO.Handler <g>_Env)
    def <g>_if<k>            the k-th `if` statement (numbered in textual order, like loops and tries)
    def <g>_main             the function body                             : PyIO.Stmt <g>_Env
    def <g> (fuel) (params…) (st : PyIO.Port) : PyIO.Out := PyIO.run <g>_main fuel {params…, locals := unbound} st

What is modelled (see PyIO.lean): the port object's `write` / `readline` as effects on a script that is threaded
through every expression; `str` vs `bytes`; real exception semantics (`try`/`except` by class with Python's
hierarchy, `as name` bound and unbound, assignments made before a raise stay visible, uncaught exceptions escape
as `PyIO.Out.exc`); `while` on the function's fuel (exhaustion = `PyIO.Out.fuelOut`); short-circuit `and`/`or`;
reads of locals that may be unbound (`UnboundLocalError`); `logger.<level>(…)` calls evaluate their arguments and are
dropped.  Evaluation order: receiver, arguments left to right, then the call (attribute lookup itself is not a
separate step).  Anything else is rejected: the function is emitted as a stub and reported in
`Gen/io_report.json` (the caller treats that as a broken tie).
"""
import ast, sys, os, json, hashlib, string

try:
    from pynum2lean import RESERVED, Unsupported
except Exception:            # pynum2lean is being edited by someone else: do not depend on it being importable
    RESERVED = {'at', 'end', 'from', 'in', 'then', 'else', 'if', 'do', 'let', 'have', 'show', 'fun', 'match',
                'with', 'open', 'def', 'theorem', 'by', 'where', 'instance', 'class', 'structure', 'namespace',
                'section', 'variable', 'universe', 'import', 'export', 'deriving', 'mutual', 'private',
                'protected', 'partial', 'unsafe', 'return', 'for', 'unless', 'try', 'catch', 'finally', 'mut',
                'macro', 'syntax', 'notation', 'prefix', 'infix', 'postfix', 'abbrev', 'example', 'axiom',
                'inductive', 'opaque', 'set_option', 'attribute', 'local', 'scoped', 'nomatch', 'nofun',
                'using', 'calc', 'this', 'Type', 'Prop', 'Sort'}

    class Unsupported(Exception):
        pass

RESERVED = set(RESERVED) | {'env', 'st', 'fuel', 'v', 'toCtorIdx', 'mk', 'rec', 'casesOn', 'noConfusion'}

# (module file, function name) ; the generated name is <module stem>_<function>
FUNCTIONS = [
    ('ebb_serial.py', 'query'),
    ('ebb_serial.py', 'command'),
]

EXC = {
    'BaseException': 'baseException', 'Exception': 'exception',
    'OSError': 'osError', 'IOError': 'osError', 'EnvironmentError': 'osError',
    'serial.SerialException': 'serialException', 'serial.serialutil.SerialException': 'serialException',
    'serial.SerialTimeoutException': 'serialTimeoutException', 'serial.PortNotOpenError': 'portNotOpenError',
    'RuntimeError': 'runtimeError', 'TypeError': 'typeError', 'AttributeError': 'attributeError',
    'ValueError': 'valueError', 'UnicodeError': 'unicodeError', 'UnicodeDecodeError': 'unicodeDecodeError',
    'UnicodeEncodeError': 'unicodeEncodeError', 'LookupError': 'lookupError', 'IndexError': 'indexError',
    'KeyError': 'keyError', 'NameError': 'nameError', 'UnboundLocalError': 'unboundLocalError',
    'ArithmeticError': 'arithmeticError', 'ZeroDivisionError': 'zeroDivisionError', 'AssertionError': 'assertionError',
}
LOG_LEVELS = {'debug', 'info', 'warning', 'warn', 'error', 'critical', 'exception', 'log'}


def ident(n):
    if n == '_':
        return 'underscore_'
    return n + '_' if n in RESERVED else n


def lean_chars(s):
    """a Python str / bytes literal as a Lean `List Char` (explicit list: reduces by `rfl`/`simp`)"""
    out = []
    for ch in s:
        o = ch if isinstance(ch, int) else ord(ch)
        if o == 39:
            out.append("'\\''")
        elif o == 92:
            out.append("'\\\\'")
        elif o == 10:
            out.append("'\\n'")
        elif o == 13:
            out.append("'\\r'")
        elif o == 9:
            out.append("'\\t'")
        elif 32 <= o < 127:
            out.append("'" + chr(o) + "'")
        else:
            out.append("(Char.ofNat %d)" % o)
    return '[' + ', '.join(out) + ']'


def lean_char(ch):
    return lean_chars(ch)[1:-1]


def dotted(e):
    if isinstance(e, ast.Name):
        return e.id
    if isinstance(e, ast.Attribute):
        b = dotted(e.value)
        return None if b is None else b + '.' + e.attr
    return None


class IoTr:
    def __init__(self, fn, gname):
        self.fn = fn
        self.g = gname
        if fn.args.vararg or fn.args.kwarg or fn.args.kwonlyargs or fn.args.posonlyargs:
            raise Unsupported('signature')
        self.params = [a.arg for a in fn.args.args]
        self.locals = []
        for x in sorted((x for x in ast.walk(fn) if isinstance(x, (ast.Name, ast.ExceptHandler))),
                        key=lambda x: (x.lineno, x.col_offset)):
            n = None
            if isinstance(x, ast.Name) and isinstance(x.ctx, (ast.Store, ast.Del)):
                n = x.id
            elif isinstance(x, ast.ExceptHandler) and x.name:
                n = x.name
            if n is not None and n not in self.params and n not in self.locals:
                self.locals.append(n)
        self.aux = []
        self.nloop = 0
        self.ntry = 0
        self.nif = 0
        self.env = f'{self.g}_Env'

    # ---------------- expressions: Lean text of type PyIO.Eff, with `env` in scope ----------------
    def E(self, e):
        if isinstance(e, ast.Constant):
            v = e.value
            if isinstance(v, bool):
                return f"(PyIO.ok (PyIO.Val.bool {'true' if v else 'false'}))"
            if isinstance(v, int):
                return f"(PyIO.ok (PyIO.Val.int ({v})))"
            if isinstance(v, str):
                return f"(PyIO.ok (PyIO.Val.str {lean_chars(v)}))"
            if isinstance(v, bytes):
                return f"(PyIO.ok (PyIO.Val.bytes {lean_chars(v)}))"
            if v is None:
                return "(PyIO.ok PyIO.Val.none)"
            raise Unsupported(f'constant {v!r}')
        if isinstance(e, ast.Name):
            if e.id in self.params and not self.rebinds(e.id):
                return f"(PyIO.ok env.{ident(e.id)})"
            if e.id in self.params or e.id in self.locals:
                return f"(PyIO.load env.{ident(e.id)})"
            raise Unsupported(f'free name {e.id}')
        if isinstance(e, ast.BoolOp):
            op = 'PyIO.and_' if isinstance(e.op, ast.And) else 'PyIO.or_'
            out = self.E(e.values[-1])
            for v in reversed(e.values[:-1]):
                out = f"({op} {self.E(v)} {out})"
            return out
        if isinstance(e, ast.UnaryOp) and isinstance(e.op, ast.Not):
            return f"(PyIO.not_ {self.E(e.operand)})"
        if isinstance(e, ast.UnaryOp) and isinstance(e.op, ast.USub) and isinstance(e.operand, ast.Constant) \
                and isinstance(e.operand.value, int) and not isinstance(e.operand.value, bool):
            return f"(PyIO.ok (PyIO.Val.int (-{e.operand.value})))"
        if isinstance(e, ast.Compare):
            if len(e.ops) != 1:
                raise Unsupported('comparison chain')
            op, l, r = e.ops[0], e.left, e.comparators[0]
            if isinstance(op, (ast.Is, ast.IsNot)):
                if not (isinstance(r, ast.Constant) and r.value is None):
                    raise Unsupported('`is` with something other than None')
                return f"(PyIO.call1 PyIO.{'op_is_none' if isinstance(op, ast.Is) else 'op_is_not_none'} {self.E(l)})"
            names = {ast.Eq: 'op_eq', ast.NotEq: 'op_ne', ast.Lt: 'op_lt', ast.LtE: 'op_le', ast.Gt: 'op_gt',
                     ast.GtE: 'op_ge', ast.In: 'op_in', ast.NotIn: 'op_not_in'}
            if type(op) not in names:
                raise Unsupported(f'comparison {type(op).__name__}')
            return f"(PyIO.call2 PyIO.{names[type(op)]} {self.E(l)} {self.E(r)})"
        if isinstance(e, ast.BinOp):
            ops = {ast.Add: 'op_add', ast.Sub: 'op_sub'}
            if type(e.op) not in ops:
                raise Unsupported(f'binop {type(e.op).__name__}')
            return f"(PyIO.call2 PyIO.{ops[type(e.op)]} {self.E(e.left)} {self.E(e.right)})"
        if isinstance(e, (ast.Tuple, ast.List)):
            return "(PyIO.mkList [" + ", ".join(self.E(x) for x in e.elts) + "])"
        if isinstance(e, ast.Subscript):
            if isinstance(e.slice, ast.Constant) and isinstance(e.slice.value, int) and not isinstance(e.slice.value, bool) \
                    and e.slice.value >= 0:
                return f"(PyIO.call2 PyIO.op_index {self.E(e.value)} (PyIO.ok (PyIO.Val.int ({e.slice.value}))))"
            raise Unsupported('subscript')
        if isinstance(e, ast.Call):
            return self.call(e)
        raise Unsupported(f'expression {type(e).__name__}')

    def rebinds(self, name):
        for x in ast.walk(self.fn):
            if isinstance(x, ast.Name) and x.id == name and isinstance(x.ctx, (ast.Store, ast.Del)):
                return True
            if isinstance(x, ast.ExceptHandler) and x.name == name:
                return True
        return False

    def is_local_value(self, e):
        """does the expression denote a value of this function (as opposed to a module / global object)?"""
        return not (isinstance(e, ast.Name) and e.id not in self.params and e.id not in self.locals)

    def call(self, e):
        f = e.func
        if isinstance(f, ast.Name):
            if e.keywords:
                raise Unsupported('keywords on a builtin')
            if f.id == 'len' and len(e.args) == 1:
                return f"(PyIO.call1 PyIO.op_len {self.E(e.args[0])})"
            raise Unsupported(f'call of {f.id}')
        if not isinstance(f, ast.Attribute):
            raise Unsupported('callee')
        if not self.is_local_value(f.value):
            # a module-level object: only the logger is understood
            if isinstance(f.value, ast.Name) and f.value.id in ('logger', 'logging') and f.attr in LOG_LEVELS:
                args = [self.E(a) for a in e.args] + [self.E(k.value) for k in e.keywords]
                return "(PyIO.logCall [" + ", ".join(args) + "])"
            raise Unsupported(f'call of {dotted(f)}')
        if e.keywords:
            raise Unsupported('keywords on a method call')
        recv, A, n = self.E(f.value), e.args, len(e.args)
        m = f.attr
        if m == 'write' and n == 1:
            return f"(PyIO.call2 PyIO.meth_write {recv} {self.E(A[0])})"
        if m == 'readline' and n == 0:
            return f"(PyIO.call1 PyIO.meth_readline {recv})"
        if m in ('encode', 'decode') and n == 1:
            if not (isinstance(A[0], ast.Constant) and isinstance(A[0].value, str)
                    and A[0].value.lower().replace('-', '_') in ('ascii', 'us_ascii')):
                raise Unsupported(f'{m} with a codec other than ascii')
            return f"(PyIO.call2 PyIO.meth_{m} {recv} {self.E(A[0])})"
        if m in ('strip', 'lower') and n == 0:
            return f"(PyIO.call1 PyIO.meth_{m} {recv})"
        if m == 'split' and n == 1:
            if not (isinstance(A[0], ast.Constant) and isinstance(A[0].value, str) and len(A[0].value) == 1):
                raise Unsupported('split with a separator that is not a one-character literal')
            return f"(PyIO.call1 (PyIO.meth_split_char {lean_char(A[0].value)}) {recv})"
        if m == 'startswith' and n == 1:
            return f"(PyIO.call2 PyIO.meth_startswith {recv} {self.E(A[0])})"
        if m == 'join' and n == 1:
            return f"(PyIO.call2 PyIO.meth_join {recv} {self.E(A[0])})"
        if m == 'format' and n == 1 and isinstance(f.value, ast.Constant) and isinstance(f.value.value, str):
            for lit, field, spec, conv in string.Formatter().parse(f.value.value):
                if field is not None and (field not in ('', '0') or spec or conv):
                    raise Unsupported('format field')
            return f"(PyIO.call2 PyIO.meth_format1 {recv} {self.E(A[0])})"
        raise Unsupported(f'method {m}/{n}')

    # ---------------- statements: Lean text of type PyIO.Stmt <Env> ----------------
    def setter(self, name):
        return f"(fun env v => {{ env with {ident(name)} := v }})"

    def fn_env(self, text):
        return f"(fun env => {text})"

    def S(self, s, ind):
        pad = '  ' * ind
        if isinstance(s, ast.Assign):
            if len(s.targets) != 1 or not isinstance(s.targets[0], ast.Name):
                raise Unsupported('assignment target')
            return f"{pad}(PyIO.assign {self.setter(s.targets[0].id)} {self.fn_env(self.E(s.value))})"
        if isinstance(s, ast.AugAssign):
            ops = {ast.Add: 'op_add', ast.Sub: 'op_sub'}
            if type(s.op) not in ops or not isinstance(s.target, ast.Name):
                raise Unsupported('augmented assignment')
            cur = self.E(ast.Name(id=s.target.id, ctx=ast.Load()))
            return (f"{pad}(PyIO.assign {self.setter(s.target.id)} "
                    f"{self.fn_env(f'(PyIO.call2 PyIO.{ops[type(s.op)]} {cur} {self.E(s.value)})')})")
        if isinstance(s, ast.Expr):
            return f"{pad}(PyIO.expr {self.fn_env(self.E(s.value))})"
        if isinstance(s, ast.Pass):
            return f"{pad}PyIO.pass"
        if isinstance(s, ast.Return):
            v = self.E(s.value) if s.value is not None else "(PyIO.ok PyIO.Val.none)"
            return f"{pad}(PyIO.return_ {self.fn_env(v)})"
        if isinstance(s, ast.If):
            self.nif += 1
            k = self.nif
            test = self.E(s.test)
            a, b = self.B(s.body, 2), self.B(s.orelse, 2)
            self.aux.append(f"def {self.g}_if{k} : PyIO.Stmt {self.env} :=\n  PyIO.ifte (fun env => {test})\n{a}\n{b}")
            return f"{pad}{self.g}_if{k}"
        if isinstance(s, ast.While):
            if s.orelse:
                raise Unsupported('while-else')
            for x in ast.walk(s):
                if isinstance(x, (ast.Break, ast.Continue)):
                    raise Unsupported('break/continue')
            self.nloop += 1
            k = self.nloop
            test = self.E(s.test)
            body = self.B(s.body, 1)
            self.aux.append(f"def {self.g}_test{k} : {self.env} → PyIO.Eff :=\n  fun env => {test}")
            self.aux.append(f"def {self.g}_body{k} : PyIO.Stmt {self.env} :=\n{body}")
            self.aux.append(f"def {self.g}_loop{k} : PyIO.Stmt {self.env} :=\n  PyIO.while_ {self.g}_test{k} {self.g}_body{k}")
            return f"{pad}{self.g}_loop{k}"
        if isinstance(s, ast.Try):
            if s.orelse or s.finalbody:
                raise Unsupported('try with else/finally')
            self.ntry += 1
            k = self.ntry
            body = self.B(s.body, 1)
            hs = []
            for h in s.handlers:
                if h.type is None:
                    classes = 'none'
                else:
                    elts = h.type.elts if isinstance(h.type, ast.Tuple) else [h.type]
                    cs = []
                    for c in elts:
                        d = dotted(c)
                        if d not in EXC:
                            raise Unsupported(f'exception class {d}')
                        cs.append(f'.{EXC[d]}')
                    classes = '(some [' + ', '.join(cs) + '])'
                bind = f'(some {self.setter(h.name)})' if h.name else 'none'
                hs.append(f"   {{ classes := {classes}, bind := {bind}, body :=\n" + self.B(h.body, 3) + " }")
            self.aux.append(f"def {self.g}_try{k} : PyIO.Stmt {self.env} :=\n{body}")
            self.aux.append(f"def {self.g}_handlers{k} : List (PyIO.Handler {self.env}) :=\n  [\n" + ",\n".join(hs) + "\n  ]")
            return f"{pad}(PyIO.tryExcept {self.g}_try{k} {self.g}_handlers{k})"
        raise Unsupported(f'statement {type(s).__name__}')

    def B(self, stmts, ind):
        pad = '  ' * ind
        stmts = [s for s in stmts if not (isinstance(s, ast.Expr) and isinstance(s.value, ast.Constant)
                                          and isinstance(s.value.value, str))]
        if not stmts:
            return f"{pad}PyIO.pass"
        if len(stmts) == 1:
            return self.S(stmts[0], ind)
        return f"{pad}(PyIO.block [\n" + ",\n".join(self.S(s, ind + 1) for s in stmts) + f"\n{pad}])"

    def header(self):
        fields = "\n".join(f"  {ident(n)} : PyIO.Val" for n in self.params + self.locals)
        return f"structure {self.env} where\n{fields}"

    def signature(self):
        ps = " ".join(f"({ident(p)} : PyIO.Val)" for p in self.params)
        return f"def {self.g} (fuel : Nat) {ps} (st : PyIO.Port) : PyIO.Out :="

    def translate(self):
        main = self.B(self.fn.body, 1)
        init = ", ".join([f"{ident(p)} := {ident(p)}" for p in self.params]
                         + [f"{ident(n)} := PyIO.Val.unbound" for n in self.locals])
        parts = [self.header()] + self.aux + [
            f"def {self.g}_main : PyIO.Stmt {self.env} :=\n{main}",
            f"{self.signature()}\n  PyIO.run {self.g}_main fuel {{ {init} }} st"]
        return "\n\n".join(parts)

    def stub(self):
        return f"{self.header()}\n\n{self.signature()}\n  PyIO.Out.fuelOut"



# ================================================================================================
# classes: methods over an object-state record (runtime: lean/Plotink/PyObj.lean)
# ================================================================================================
# (module file, class name) in base-before-derived order; every method of these classes is translated
CLASSES = [
    ('ebb3_serial.py', 'EBB3'),
    ('ebb3_motion.py', 'EBBMotionWrap'),
]
OBJ = 'EBB3_Obj'                 # the attribute record shared by the classes above (one inheritance chain)
EXC.update({'serial.serialutil.PortNotOpenError': 'portNotOpenError', 'serial.serialutil.SerialException': 'serialException',
            'serial.serialutil.SerialTimeoutException': 'serialTimeoutException', 'InvalidVersion': 'invalidVersion',
            'OverflowError': 'overflowError'})


class ClassInfo:
    def __init__(self, mod, node):
        self.mod, self.name, self.node = mod, node.name, node
        self.bases = [dotted(b).split('.')[-1] for b in node.bases if dotted(b)]
        self.methods = {n.name: n for n in node.body if isinstance(n, ast.FunctionDef)}
        self.consts = {}
        for st in node.body:
            if isinstance(st, ast.Assign) and len(st.targets) == 1 and isinstance(st.targets[0], ast.Name) \
                    and isinstance(st.value, ast.Constant):
                self.consts[st.targets[0].id] = st.value


def resolve(classes, cname, meth):
    """(defining class, FunctionDef) of `meth` looked up from class `cname` along the (single) inheritance chain"""
    c = classes.get(cname)
    while c is not None:
        if meth in c.methods:
            return c, c.methods[meth]
        c = classes.get(c.bases[0]) if c.bases else None
    return None, None


def class_const(classes, cname, attr):
    c = classes.get(cname)
    while c is not None:
        if attr in c.consts:
            return c.consts[attr]
        c = classes.get(c.bases[0]) if c.bases else None
    return None


def obj_fields(classes):
    """attributes assigned through `self.X = …` anywhere in the classes, `__init__` of the base first"""
    out = []
    for c in classes.values():
        order = (['__init__'] if '__init__' in c.methods else []) + [m for m in c.methods if m != '__init__']
        for m in order:
            fn = c.methods[m]
            for x in sorted((x for x in ast.walk(fn) if isinstance(x, ast.Attribute)), key=lambda x: (x.lineno, x.col_offset)):
                if isinstance(x.ctx, ast.Store) and isinstance(x.value, ast.Name) and x.value.id == 'self' and x.attr not in out:
                    out.append(x.attr)
    return out


class MethTr:
    """one method -> definitions over PyObj combinators; `fuel` and `env` are in scope in every expression"""

    def __init__(self, classes, cinfo, fn, fields):
        self.classes, self.c, self.fn, self.fields = classes, cinfo, fn, fields
        self.g = f'{cinfo.name}_{fn.name}'
        if fn.args.vararg or fn.args.kwarg or fn.args.kwonlyargs or fn.args.posonlyargs:
            raise Unsupported('signature')
        ps = [a.arg for a in fn.args.args]
        if not ps or ps[0] != 'self':
            raise Unsupported('not an instance method')
        self.params = ps[1:]
        self.locals = []
        for x in sorted((x for x in ast.walk(fn) if isinstance(x, (ast.Name, ast.ExceptHandler))),
                        key=lambda x: (x.lineno, x.col_offset)):
            n = None
            if isinstance(x, ast.Name) and isinstance(x.ctx, (ast.Store, ast.Del)):
                n = x.id
            elif isinstance(x, ast.ExceptHandler) and x.name:
                n = x.name
            if n is not None and n not in self.params and n not in self.locals and n != 'self':
                self.locals.append(n)
        # names rebound through `x.append(v)` count as assigned
        self.rebound = set()
        for x in ast.walk(fn):
            if isinstance(x, ast.Name) and isinstance(x.ctx, (ast.Store, ast.Del)):
                self.rebound.add(x.id)
            if isinstance(x, ast.ExceptHandler) and x.name:
                self.rebound.add(x.name)
            if isinstance(x, ast.Expr) and self.is_append(x.value):
                self.rebound.add(x.value.func.value.id)
        self.aux, self.deps = [], []
        self.nloop = self.ntry = self.nif = self.nfor = 0
        self.env = f'{self.g}_Env'
        self.depth = 0          # loop nesting (break / continue only inside)
        self.objty = OBJ

    # ---------------- helpers
    def is_append(self, e):
        return (isinstance(e, ast.Call) and isinstance(e.func, ast.Attribute) and e.func.attr == 'append'
                and isinstance(e.func.value, ast.Name) and e.func.value.id != 'self' and len(e.args) == 1 and not e.keywords)

    def const(self, v):
        if isinstance(v, bool):
            return f"(PyObj.ok (PyObj.Val.bool {'true' if v else 'false'}))"
        if isinstance(v, int):
            return f"(PyObj.ok (PyObj.Val.int ({v})))"
        if isinstance(v, str):
            return f"(PyObj.ok (PyObj.Val.str {lean_chars(v)}))"
        if isinstance(v, bytes):
            return f"(PyObj.ok (PyObj.Val.bytes {lean_chars(v)}))"
        if v is None:
            return "(PyObj.ok PyObj.Val.none)"
        raise Unsupported(f'constant {v!r}')

    def lit_val(self, v):
        """a literal as a `PyObj.Val` (dict keys)"""
        if isinstance(v, bool):
            return f"(PyObj.Val.bool {'true' if v else 'false'})"
        if isinstance(v, int):
            return f"(PyObj.Val.int ({v}))"
        if isinstance(v, str):
            return f"(PyObj.Val.str {lean_chars(v)})"
        raise Unsupported('dict key')

    def kw(self, e, allowed):
        """keywords of a call as a dict of constants; all must be in `allowed`"""
        out = {}
        for k in e.keywords:
            if k.arg not in allowed or not isinstance(k.value, ast.Constant):
                raise Unsupported(f'keyword {k.arg}')
            out[k.arg] = k.value.value
        return out

    # ---------------- expressions: Lean text of type PyObj.Eff OBJ
    def E(self, e):
        if isinstance(e, ast.Constant):
            return self.const(e.value)
        if isinstance(e, ast.Name):
            if e.id in self.params and e.id not in self.rebound:
                return f"(PyObj.ok env.{ident(e.id)})"
            if e.id in self.params or e.id in self.locals:
                return f"(PyObj.load env.{ident(e.id)})"
            raise Unsupported(f'free name {e.id}')
        if isinstance(e, ast.Attribute):
            if isinstance(e.value, ast.Name) and e.value.id == 'self':
                if e.attr in self.fields:
                    return f"(PyObj.getattr (·.{ident(e.attr)}))"
                c = class_const(self.classes, self.c.name, e.attr)
                if c is not None:
                    return self.const(c.value)
            raise Unsupported(f'attribute {dotted(e) or e.attr}')
        if isinstance(e, ast.BoolOp):
            op = 'PyObj.and_' if isinstance(e.op, ast.And) else 'PyObj.or_'
            out = self.E(e.values[-1])
            for v in reversed(e.values[:-1]):
                out = f"({op} {self.E(v)} {out})"
            return out
        if isinstance(e, ast.UnaryOp) and isinstance(e.op, ast.Not):
            return f"(PyObj.not_ {self.E(e.operand)})"
        if isinstance(e, ast.UnaryOp) and isinstance(e.op, ast.USub) and isinstance(e.operand, ast.Constant) \
                and isinstance(e.operand.value, int) and not isinstance(e.operand.value, bool):
            return f"(PyObj.ok (PyObj.Val.int (-{e.operand.value})))"
        if isinstance(e, ast.Compare):
            if len(e.ops) != 1:
                raise Unsupported('comparison chain')
            op, l, r = e.ops[0], e.left, e.comparators[0]
            if isinstance(op, (ast.Is, ast.IsNot)):
                if isinstance(r, ast.Constant) and isinstance(r.value, bool):
                    fn_ = 'op_is_bool' if isinstance(op, ast.Is) else 'op_is_not_bool'
                    return f"(PyObj.app1 (PyObj.{fn_} {'true' if r.value else 'false'}) {self.E(l)})"
                if not (isinstance(r, ast.Constant) and r.value is None):
                    raise Unsupported('`is` with something other than None / True / False')
                return f"(PyObj.app1 PyObj.{'op_is_none' if isinstance(op, ast.Is) else 'op_is_not_none'} {self.E(l)})"
            names = {ast.Eq: 'op_eq', ast.NotEq: 'op_ne', ast.Lt: 'op_lt', ast.LtE: 'op_le', ast.Gt: 'op_gt',
                     ast.GtE: 'op_ge', ast.In: 'op_in', ast.NotIn: 'op_not_in'}
            if type(op) not in names:
                raise Unsupported(f'comparison {type(op).__name__}')
            return f"(PyObj.app2 PyObj.{names[type(op)]} {self.E(l)} {self.E(r)})"
        if isinstance(e, ast.BinOp):
            ops = {ast.Add: 'op_add', ast.Sub: 'op_sub', ast.Mult: 'op_mul'}
            if type(e.op) not in ops:
                raise Unsupported(f'binop {type(e.op).__name__}')
            return f"(PyObj.app2 PyObj.{ops[type(e.op)]} {self.E(e.left)} {self.E(e.right)})"
        if isinstance(e, ast.Tuple):
            return "(PyObj.mkTuple [" + ", ".join(self.E(x) for x in e.elts) + "])"
        if isinstance(e, ast.List):
            return "(PyObj.mkList [" + ", ".join(self.E(x) for x in e.elts) + "])"
        if isinstance(e, ast.Dict):
            if not all(isinstance(k, ast.Constant) for k in e.keys):
                raise Unsupported('dict with computed keys')
            return ("(PyObj.mkDict [" + ", ".join(self.lit_val(k.value) for k in e.keys) + "] ["
                    + ", ".join(self.E(v) for v in e.values) + "])")
        if isinstance(e, ast.Subscript):
            if isinstance(e.slice, ast.Slice):
                if e.slice.step is not None:
                    raise Unsupported('slice step')
                lo = self.E(e.slice.lower) if e.slice.lower is not None else "(PyObj.ok PyObj.Val.none)"
                hi = self.E(e.slice.upper) if e.slice.upper is not None else "(PyObj.ok PyObj.Val.none)"
                return f"(PyObj.app3 PyObj.op_slice {self.E(e.value)} {lo} {hi})"
            if isinstance(e.slice, ast.Tuple):
                raise Unsupported('subscript')
            return f"(PyObj.app2 PyObj.op_getitem {self.E(e.value)} {self.E(e.slice)})"
        if isinstance(e, ast.JoinedStr):
            parts = []
            for v in e.values:
                if isinstance(v, ast.Constant) and isinstance(v.value, str):
                    parts.append(self.const(v.value))
                elif isinstance(v, ast.FormattedValue) and v.conversion == -1 and v.format_spec is None:
                    parts.append(self.E(v.value))
                else:
                    raise Unsupported('f-string field with conversion / format spec')
            return "(PyObj.fstr [" + ", ".join(parts) + "])"
        if isinstance(e, ast.Call):
            return self.call(e)
        raise Unsupported(f'expression {type(e).__name__}')

    def call(self, e):
        f = e.func
        d = dotted(f)
        A = e.args
        n = len(A)
        if isinstance(f, ast.Name) and f.id not in self.params and f.id not in self.locals:
            if e.keywords:
                raise Unsupported('keywords on a builtin')
            simple1 = {'len': 'op_len', 'int': 'b_int', 'bool': 'b_bool', 'str': 'b_str', 'list': 'b_list',
                       'range': 'b_range1', 'parse': 'b_parse_version'}
            simple2 = {'int': 'b_int_base', 'max': 'b_max2', 'min': 'b_min2', 'range': 'b_range2'}
            if f.id in simple1 and n == 1:
                return f"(PyObj.app1 PyObj.{simple1[f.id]} {self.E(A[0])})"
            if f.id in simple2 and n == 2:
                return f"(PyObj.app2 PyObj.{simple2[f.id]} {self.E(A[0])} {self.E(A[1])})"
            if f.id == 'comports' and n == 0:
                return "PyObj.ext_comports"
            if f.id == 'find_named' and n == 1:
                return f"(PyObj.eff1 PyObj.ext_find_named {self.E(A[0])})"
            raise Unsupported(f'call of {f.id}')
        if d == 'int.from_bytes' and n == 1:
            if self.kw(e, ('byteorder', 'signed')) != {'byteorder': 'big', 'signed': True}:
                raise Unsupported('from_bytes variant')
            return f"(PyObj.app1 PyObj.b_from_bytes_big_signed {self.E(A[0])})"
        if d == 'serial.Serial' and n >= 1:
            self.kw(e, ('timeout', 'baudrate', 'write_timeout'))
            return f"(PyObj.eff1 PyObj.ext_serial_open {self.E(A[0])})"
        if d is not None and (d == 'time.sleep' or (d.split('.')[0] in ('logger', 'logging') and d.split('.')[-1] in LOG_LEVELS)):
            args = [self.E(a) for a in A] + [self.E(k.value) for k in e.keywords]
            return "(PyObj.dropCall [" + ", ".join(args) + "])"
        if not isinstance(f, ast.Attribute):
            raise Unsupported('callee')
        # ---- a method of this object
        if isinstance(f.value, ast.Name) and f.value.id == 'self':
            dc, dfn = resolve(self.classes, self.c.name, f.attr)
            if dfn is None:
                raise Unsupported(f'unknown method self.{f.attr}')
            ps = [a.arg for a in dfn.args.args][1:]
            dmap = dict(zip(ps[len(ps) - len(dfn.args.defaults):], dfn.args.defaults))
            bound = {}
            if n > len(ps):
                raise Unsupported('too many arguments')
            for p_, a in zip(ps, A):
                bound[p_] = self.E(a)
            for k in e.keywords:
                if k.arg not in ps or k.arg in bound:
                    raise Unsupported('bad keyword')
                bound[k.arg] = self.E(k.value)
            args = []
            for p_ in ps:
                if p_ in bound:
                    args.append(bound[p_])
                elif p_ in dmap and isinstance(dmap[p_], ast.Constant):
                    args.append(self.const(dmap[p_].value))
                else:
                    raise Unsupported(f'missing argument {p_}')
            if len(args) > 3:
                raise Unsupported('more than three arguments in a method call')
            callee = f'{dc.name}_{f.attr}'
            if callee == self.g:
                raise Unsupported('recursive method')
            if callee not in self.deps:
                self.deps.append(callee)
            return f"(PyObj.mcall{len(args)} ({callee} fuel)" + "".join(" " + a for a in args) + ")"
        if isinstance(f.value, ast.Name) and f.value.id not in self.params and f.value.id not in self.locals:
            raise Unsupported(f'call of {d}')
        # ---- a method of a value
        recv, m = self.E(f.value), f.attr
        if m == 'to_bytes' and n == 1:
            if not (isinstance(A[0], ast.Constant) and A[0].value == 4) or \
                    self.kw(e, ('byteorder', 'signed')) != {'byteorder': 'big', 'signed': True}:
                raise Unsupported('to_bytes variant')
            return f"(PyObj.app1 PyObj.meth_to_bytes4_big_signed {recv})"
        if e.keywords:
            raise Unsupported('keywords on a method call')
        if m == 'write' and n == 1:
            return f"(PyObj.eff2 PyObj.meth_write {recv} {self.E(A[0])})"
        if m in ('readline', 'close', 'reset_input_buffer') and n == 0:
            return f"(PyObj.eff1 PyObj.meth_{m} {recv})"
        if m == 'flushInput' and n == 0:        # pyserial's deprecated name of reset_input_buffer
            return f"(PyObj.eff1 PyObj.meth_reset_input_buffer {recv})"
        if m in ('encode', 'decode') and n == 1:
            if not (isinstance(A[0], ast.Constant) and isinstance(A[0].value, str)
                    and A[0].value.lower().replace('-', '_') in ('ascii', 'us_ascii')):
                raise Unsupported(f'{m} with a codec other than ascii')
            return f"(PyObj.app2 PyObj.meth_{m} {recv} {self.E(A[0])})"
        if m in ('strip', 'lower', 'upper', 'isspace', 'isalpha', 'isdigit') and n == 0:
            return f"(PyObj.app1 PyObj.meth_{m} {recv})"
        if m == 'startswith' and n == 1:
            return f"(PyObj.app2 PyObj.meth_startswith {recv} {self.E(A[0])})"
        if m == 'split' and n in (1, 2):
            if not (isinstance(A[0], ast.Constant) and isinstance(A[0].value, str) and A[0].value):
                raise Unsupported('split separator is not a literal')
            sep = A[0].value
            if n == 1 and len(sep) == 1:
                return f"(PyObj.app1 (PyObj.meth_split_char {lean_char(sep)}) {recv})"
            if n == 1:
                return f"(PyObj.app1 (PyObj.meth_split_str {lean_chars(sep)}) {recv})"
            if n == 2 and isinstance(A[1], ast.Constant) and A[1].value == 1:
                if len(sep) == 1:
                    return f"(PyObj.app1 (PyObj.meth_split1_char {lean_char(sep)}) {recv})"
                return f"(PyObj.app1 (PyObj.meth_split1_str {lean_chars(sep)}) {recv})"
            raise Unsupported('split variant')
        if m == 'split' and n == 1 and isinstance(A[0], ast.Constant) and isinstance(A[0].value, str) and len(A[0].value) > 1:
            return f"(PyObj.app1 (PyObj.meth_split_str {lean_chars(A[0].value)}) {recv})"
        if m == 'find' and n == 1:
            return f"(PyObj.app2 PyObj.meth_find {recv} {self.E(A[0])})"
        if m == 'find' and n == 2:
            return f"(PyObj.app3 PyObj.meth_find_from {recv} {self.E(A[0])} {self.E(A[1])})"
        if m == 'replace' and n == 2:
            return f"(PyObj.app3 PyObj.meth_replace {recv} {self.E(A[0])} {self.E(A[1])})"
        if m == 'format' and isinstance(f.value, ast.Constant) and isinstance(f.value.value, str):
            parts, auto, explicit = [], 0, False
            for lit, field, spec, conv in string.Formatter().parse(f.value.value):
                if lit:
                    parts.append(f"(PyObj.FmtPart.lit {lean_chars(lit)})")
                if field is None:
                    continue
                if spec or conv:
                    raise Unsupported('format field with a spec / conversion')
                if field == '':
                    if explicit:
                        raise Unsupported('mixed automatic and explicit format fields')
                    k, auto = auto, auto + 1
                elif field.isdigit():
                    if auto:
                        raise Unsupported('mixed automatic and explicit format fields')
                    k, explicit = int(field), True
                else:
                    raise Unsupported('named format field')
                parts.append(f"(PyObj.FmtPart.arg {k})")
            return ("(PyObj.format_ [" + ", ".join(parts) + "] [" + ", ".join(self.E(a) for a in A) + "])")
        raise Unsupported(f'method {m}/{n}')

    # ---------------- statements: Lean text of type PyObj.Stmt OBJ <Env>
    def setter(self, name):
        return f"(fun env v => {{ env with {ident(name)} := v }})"

    def osetter(self, name):
        return f"(fun o v => {{ o with {ident(name)} := v }})"

    def X(self, text):
        return f"(fun fuel env => {text})"

    def sty(self):
        return f"PyObj.Stmt {self.objty} {self.env}"

    def S(self, s, ind):
        pad = '  ' * ind
        if isinstance(s, ast.Assign):
            if len(s.targets) != 1:
                raise Unsupported('multiple assignment targets')
            t = s.targets[0]
            if isinstance(t, ast.Name):
                return f"{pad}(PyObj.assign {self.setter(t.id)} {self.X(self.E(s.value))})"
            if isinstance(t, ast.Attribute) and isinstance(t.value, ast.Name) and t.value.id == 'self' and t.attr in self.fields:
                return f"{pad}(PyObj.setattr {self.osetter(t.attr)} {self.X(self.E(s.value))})"
            raise Unsupported('assignment target')
        if isinstance(s, ast.AugAssign):
            ops = {ast.Add: 'op_add', ast.Sub: 'op_sub', ast.Mult: 'op_mul'}
            if type(s.op) not in ops or not isinstance(s.target, ast.Name):
                raise Unsupported('augmented assignment')
            cur = self.E(ast.Name(id=s.target.id, ctx=ast.Load()))
            return (f"{pad}(PyObj.assign {self.setter(s.target.id)} "
                    f"{self.X(f'(PyObj.app2 PyObj.{ops[type(s.op)]} {cur} {self.E(s.value)})')})")
        if isinstance(s, ast.Expr):
            if self.is_append(s.value):
                nm = s.value.func.value.id
                if nm not in self.params and nm not in self.locals:
                    raise Unsupported('append to a non-local')
                cur = self.E(ast.Name(id=nm, ctx=ast.Load()))
                return (f"{pad}(PyObj.assign {self.setter(nm)} "
                        f"{self.X(f'(PyObj.app2 PyObj.meth_append {cur} {self.E(s.value.args[0])})')})")
            return f"{pad}(PyObj.expr {self.X(self.E(s.value))})"
        if isinstance(s, ast.Pass):
            return f"{pad}PyObj.pass"
        if isinstance(s, (ast.Break, ast.Continue)):
            if self.depth == 0:
                raise Unsupported('break/continue outside a loop')
            return f"{pad}PyObj.{'break_' if isinstance(s, ast.Break) else 'continue_'}"
        if isinstance(s, ast.Return):
            v = self.E(s.value) if s.value is not None else "(PyObj.ok PyObj.Val.none)"
            return f"{pad}(PyObj.return_ {self.X(v)})"
        if isinstance(s, ast.If):
            self.nif += 1
            k = self.nif
            test = self.E(s.test)
            a, b = self.B(s.body, 2), self.B(s.orelse, 2)
            self.aux.append(f"def {self.g}_if{k} : {self.sty()} :=\n  PyObj.ifte (fun fuel env => {test})\n{a}\n{b}")
            return f"{pad}{self.g}_if{k}"
        if isinstance(s, ast.While):
            if s.orelse:
                raise Unsupported('while-else')
            self.nloop += 1
            k = self.nloop
            test = self.E(s.test)
            self.depth += 1
            body = self.B(s.body, 1)
            self.depth -= 1
            self.aux.append(f"def {self.g}_test{k} : PyObj.Expr {self.objty} {self.env} :=\n  fun fuel env => {test}")
            self.aux.append(f"def {self.g}_body{k} : {self.sty()} :=\n{body}")
            self.aux.append(f"def {self.g}_loop{k} : {self.sty()} :=\n  PyObj.while_ {self.g}_test{k} {self.g}_body{k}")
            return f"{pad}{self.g}_loop{k}"
        if isinstance(s, ast.For):
            if s.orelse or not isinstance(s.target, ast.Name):
                raise Unsupported('for-else / tuple target')
            self.nfor += 1
            k = self.nfor
            it = self.E(s.iter)
            self.depth += 1
            body = self.B(s.body, 1)
            self.depth -= 1
            self.aux.append(f"def {self.g}_fbody{k} : {self.sty()} :=\n{body}")
            self.aux.append(f"def {self.g}_for{k} : {self.sty()} :=\n  PyObj.forIn {self.setter(s.target.id)} "
                            f"(fun fuel env => {it}) {self.g}_fbody{k}")
            return f"{pad}{self.g}_for{k}"
        if isinstance(s, ast.Try):
            if s.orelse or s.finalbody:
                raise Unsupported('try with else/finally')
            self.ntry += 1
            k = self.ntry
            body = self.B(s.body, 1)
            hs = []
            for h in s.handlers:
                if h.type is None:
                    classes = 'none'
                else:
                    elts = h.type.elts if isinstance(h.type, ast.Tuple) else [h.type]
                    cs = []
                    for c in elts:
                        dd = dotted(c)
                        if dd not in EXC:
                            raise Unsupported(f'exception class {dd}')
                        cs.append(f'.{EXC[dd]}')
                    classes = '(some [' + ', '.join(cs) + '])'
                bind = f'(some {self.setter(h.name)})' if h.name else 'none'
                hs.append(f"   {{ classes := {classes}, bind := {bind}, body :=\n" + self.B(h.body, 3) + " }")
            self.aux.append(f"def {self.g}_try{k} : {self.sty()} :=\n{body}")
            self.aux.append(f"def {self.g}_handlers{k} : List (PyObj.Handler {self.objty} {self.env}) :=\n  [\n" + ",\n".join(hs) + "\n  ]")
            return f"{pad}(PyObj.tryExcept {self.g}_try{k} {self.g}_handlers{k})"
        raise Unsupported(f'statement {type(s).__name__}')

    def B(self, stmts, ind):
        pad = '  ' * ind
        stmts = [s for s in stmts if not (isinstance(s, ast.Expr) and isinstance(s.value, ast.Constant)
                                          and isinstance(s.value.value, str))]
        if not stmts:
            return f"{pad}PyObj.pass"
        if len(stmts) == 1:
            return self.S(stmts[0], ind)
        return f"{pad}(PyObj.block [\n" + ",\n".join(self.S(s, ind + 1) for s in stmts) + f"\n{pad}])"

    def header(self):
        names = self.params + self.locals
        if not names:
            return f"structure {self.env} where\n  mk ::"
        fields = "\n".join(f"  {ident(n)} : PyObj.Val" for n in names)
        return f"structure {self.env} where\n{fields}"

    def signature(self):
        ps = "".join(f" ({ident(p)} : PyObj.Val)" for p in self.params)
        return f"def {self.g} (fuel : Nat){ps} (w : PyObj.World {self.objty}) : PyObj.Out {self.objty} :="

    def init_env(self):
        names = self.params + self.locals
        if not names:
            return f"{self.env}.mk"
        return "{ " + ", ".join([f"{ident(p)} := {ident(p)}" for p in self.params]
                                + [f"{ident(n)} := PyObj.Val.unbound" for n in self.locals]) + " }"

    def translate(self):
        main = self.B(self.fn.body, 1)
        parts = [self.header()] + self.aux + [
            f"def {self.g}_main : {self.sty()} :=\n{main}",
            f"{self.signature()}\n  PyObj.run {self.g}_main fuel {self.init_env()} w"]
        return "\n\n".join(parts)

    def stub(self):
        return f"{self.header()}\n\n{self.signature()}\n  PyObj.Out.fuelOut"


def generate_classes(repo, outdir, report):
    classes = {}
    for mod, cname in CLASSES:
        try:
            tree = ast.parse(open(os.path.join(repo, 'plotink', mod)).read())
        except (SyntaxError, OSError):
            tree = None
        node = None
        if tree is not None:
            for n in tree.body:
                if isinstance(n, ast.ClassDef) and n.name == cname:
                    node = n
        if node is not None:
            classes[cname] = ClassInfo(mod, node)
    fields = obj_fields(classes)

    def emit(name, code, src, imports):
        text = (f"-- GENERATED by translator/pyio2lean.py from {src}. Do not edit.\n"
                + "".join(f"import {i}\n" for i in imports)
                + "namespace Plotink\nnamespace Gen\nset_option linter.unusedVariables false\n\n"
                + code + "\n\nend Gen\nend Plotink\n")
        out = os.path.join(outdir, f"{name}.lean")
        old = open(out).read() if os.path.exists(out) else None
        if old != text:
            with open(out, 'w') as f:
                f.write(text)
        return hashlib.sha256(text.encode()).hexdigest(), old is not None and old != text

    flds = "\n".join(f"  {ident(a)} : PyObj.Val" for a in fields) if fields else "  mk ::"
    initv = {}
    for c in classes.values():
        fn = c.methods.get('__init__')
        for st in (fn.body if fn else []):
            if isinstance(st, ast.Assign) and len(st.targets) == 1 and isinstance(st.targets[0], ast.Attribute) \
                    and isinstance(st.targets[0].value, ast.Name) and st.targets[0].value.id == 'self' \
                    and isinstance(st.value, ast.Constant) and st.value.value is None:
                initv[st.targets[0].attr] = 'PyObj.Val.none'
    init = ", ".join(f"{ident(a)} := {initv.get(a, 'PyObj.Val.unbound')}" for a in fields)
    code = (f"/-- the attributes of an object of the classes {', '.join(c for _, c in CLASSES)} "
            f"(every `self.X = …` in their methods; `__init__` first) -/\nstructure {OBJ} where\n{flds}\n\n"
            f"/-- a fresh object: attributes `__init__` sets to `None`; any other attribute is not there yet -/\n"
            f"def {OBJ}.init : {OBJ} := {{ {init} }}")
    sha, ch = emit(OBJ, code, 'the classes ' + ', '.join(f'plotink/{m}:{c}' for m, c in CLASSES), ['Plotink.PyObj'])
    report[OBJ] = {'module': CLASSES[0][0], 'status': 'ok' if classes else 'missing', 'deps': [], 'fields': fields,
                   'sha256': sha, 'changed': ch}
    # every method except `__init__`, callees before callers
    todo = []
    for cname, c in classes.items():
        for m, fn in c.methods.items():
            if m != '__init__':
                todo.append((c, fn))
    done, order = set(), []
    trs = {}

    def visit(c, fn, stack):
        g = f'{c.name}_{fn.name}'
        if g in done:
            return
        done.add(g)
        status, deps, defaults = 'ok', [], {}
        try:
            tr = MethTr(classes, c, fn, fields)
            code = tr.translate()
            deps = tr.deps
            ps = [a.arg for a in fn.args.args][1:]
            for p, d in zip(ps[len(ps) - len(fn.args.defaults):], fn.args.defaults):
                defaults[p] = ast.unparse(d)
        except Unsupported as ex:
            status = f'unsupported: {ex}'
            try:
                code = MethTr(classes, c, fn, fields).stub()
            except Unsupported:
                code = f"def {g}_missing : Bool := true"
            deps = []
        for dname in deps:
            dc_name, dm = dname.split('_', 1)
            dc = classes[dc_name]
            visit(dc, dc.methods[dm], stack + [g])
        trs[g] = (c, fn, code, status, deps, defaults)
        order.append(g)

    for c, fn in todo:
        visit(c, fn, [])
    for g in order:
        c, fn, code, status, deps, defaults = trs[g]
        sha, ch = emit(g, code, f'plotink/{c.mod}:{c.name}.{fn.name}',
                       ['Plotink.PyObj', f'Plotink.Gen.{OBJ}'] + [f'Plotink.Gen.{d}' for d in deps])
        report[g] = {'module': c.mod, 'class': c.name, 'function': fn.name, 'status': status, 'deps': deps,
                     'params': [a.arg for a in fn.args.args][1:], 'defaults': defaults, 'sha256': sha, 'changed': ch}
    # files of methods that are no longer in the source are removed (a proof that refers to them stops building)
    prefixes = tuple(c + '_' for _, c in CLASSES)
    for fname in os.listdir(outdir):
        if fname.endswith('.lean') and fname.startswith(prefixes) and fname[:-5] not in report \
                and not fname.endswith('_dispatch.lean'):
            os.remove(os.path.join(outdir, fname))
    # dispatch by method name on an object of the most derived class (for the driver)
    if classes:
        top = CLASSES[-1][1]
        names, c = [], classes.get(top)
        chain = []
        while c is not None:
            chain.append(c)
            c = classes.get(c.bases[0]) if c.bases else None
        for c in reversed(chain):
            for m in c.methods:
                if m != '__init__' and m not in names:
                    names.append(m)
        alts, imps = [], []
        for m in names:
            dc, dfn = resolve(classes, top, m)
            g = f'{dc.name}_{m}'
            if g not in report:
                continue
            imps.append(g)
            ps = [a.arg for a in dfn.args.args][1:]
            dfl = dfn.args.defaults
            consts = [d for d in dfl if isinstance(d, ast.Constant)]
            ndef = len(dfl) if len(consts) == len(dfl) else 0
            for k in range(len(ps) - ndef, len(ps) + 1):
                pat = "[" + ", ".join(f"a{i}" for i in range(k)) + "]"
                rest = []
                for i in range(k, len(ps)):
                    v = dfl[i - (len(ps) - len(dfl))].value
                    rest.append("PyObj.Val.none" if v is None else
                                f"(PyObj.Val.bool {'true' if v else 'false'})" if isinstance(v, bool) else
                                f"(PyObj.Val.int ({v}))" if isinstance(v, int) else
                                f"(PyObj.Val.str {lean_chars(v)})")
                call = " ".join([g, "fuel"] + [f"a{i}" for i in range(k)] + rest + ["w"])
                alts.append(f'  | "{m}", {pat} => some ({call})')
        code = (f"/-- call of a method of `{top}` by its Python name (inherited methods resolved along the class chain,\n"
                f"trailing parameters with constant defaults may be omitted) -/\n"
                f"def {top}_dispatch (fuel : Nat) (name : String) (args : List PyObj.Val) (w : PyObj.World {OBJ}) :\n"
                f"    Option (PyObj.Out {OBJ}) :=\n  match name, args with\n" + "\n".join(alts) + "\n  | _, _ => none\n\n"
                f"def {top}_methods : List String :=\n  [" + ", ".join(f'"{m}"' for m in names) + "]")
        sha, ch = emit(f'{top}_dispatch', code, f'the methods of plotink/{classes[top].mod}:{top} and its bases',
                       ['Plotink.PyObj', f'Plotink.Gen.{OBJ}'] + [f'Plotink.Gen.{g}' for g in imps])
        report[f'{top}_dispatch'] = {'module': classes[top].mod, 'status': 'ok', 'deps': imps, 'sha256': sha, 'changed': ch}
    return report



# ================================================================================================
# module-level functions of the legacy layers (runtime: PyObj with the attribute-less object `PyObj.NoObj`)
# ================================================================================================
# (module file, function) — callees before callers is not required (dependencies are followed)
FUNCS = [
    # C06: every helper of ebb_motion.py that transmits text
    ('ebb_motion.py', 'doABMove'), ('ebb_motion.py', 'doTimedPause'), ('ebb_motion.py', 'doLowLevelMove'),
    ('ebb_motion.py', 'doXYMove'), ('ebb_motion.py', 'doAbsMove'), ('ebb_motion.py', 'QueryPenUp'),
    ('ebb_motion.py', 'QueryPRGButton'), ('ebb_motion.py', 'sendDisableMotors'), ('ebb_motion.py', 'sendEnableMotors'),
    ('ebb_motion.py', 'query_enable_motors'), ('ebb_motion.py', 'query_steps'), ('ebb_motion.py', 'sendPenDown'),
    ('ebb_motion.py', 'sendPenUp'), ('ebb_motion.py', 'PBOutConfig'), ('ebb_motion.py', 'PBOutValue'),
    ('ebb_motion.py', 'TogglePen'), ('ebb_motion.py', 'setPenDownPos'), ('ebb_motion.py', 'setPenDownRate'),
    ('ebb_motion.py', 'setPenUpPos'), ('ebb_motion.py', 'setPenUpRate'), ('ebb_motion.py', 'setEBBLV'),
    ('ebb_motion.py', 'queryEBBLV'), ('ebb_motion.py', 'queryVoltage'), ('ebb_motion.py', 'servo_timeout'),
    # C15: the legacy gates
    ('ebb_serial.py', 'queryVersion'), ('ebb_serial.py', 'min_version'), ('ebb_serial.py', 'query_nickname'),
    ('ebb_serial.py', 'write_nickname'), ('ebb_serial.py', 'reboot'), ('ebb_serial.py', 'bootload'),
    ('ebb_serial.py', 'closePort'),
    # C19: port discovery, both layers (`EBB3.find_first` is a method: see CLASSES)
    ('ebb_serial.py', 'findPort'), ('ebb_serial.py', 'find_named_ebb'), ('ebb_serial.py', 'list_port_info'),
    ('ebb_serial.py', 'listEBBports'), ('ebb_serial.py', 'list_named_ebbs'),
    ('ebb3_serial.py', 'list_ebb_ports'), ('ebb3_serial.py', 'list_named_ebbs'), ('ebb3_serial.py', 'find_named'),
    # supplementary (X02): opening a port in the legacy layer
    ('ebb_serial.py', 'testPort'), ('ebb_serial.py', 'openPort'), ('ebb_serial.py', 'open_named_port'),
]
NOOBJ = 'PyObj.NoObj'
IO_FUNCS = {('ebb_serial', 'command'): 'ebb_serial_command', ('ebb_serial', 'query'): 'ebb_serial_query'}


class FuncTr(MethTr):
    """a module-level function; `known`: (module stem, name) -> FunctionDef of every function of FUNCS"""

    def __init__(self, mod, fn, known):
        self.classes, self.c, self.fn, self.fields = {}, None, fn, []
        self.mod = os.path.splitext(mod)[0]
        self.known = known
        self.g = f'{self.mod}_{fn.name}'
        if fn.args.vararg or fn.args.kwarg or fn.args.kwonlyargs or fn.args.posonlyargs:
            raise Unsupported('signature')
        self.params = [a.arg for a in fn.args.args]
        self.locals = []
        self.rebound = set()
        for x in sorted((x for x in ast.walk(fn) if isinstance(x, (ast.Name, ast.ExceptHandler))),
                        key=lambda x: (x.lineno, x.col_offset)):
            n = None
            if isinstance(x, ast.Name) and isinstance(x.ctx, (ast.Store, ast.Del)):
                n = x.id
            elif isinstance(x, ast.ExceptHandler) and x.name:
                n = x.name
            if n is not None:
                self.rebound.add(n)
                if n not in self.params and n not in self.locals:
                    self.locals.append(n)
        for x in ast.walk(fn):
            if isinstance(x, ast.Expr) and self.is_append(x.value):
                self.rebound.add(x.value.func.value.id)
        self.aux, self.deps, self.iodeps = [], [], []
        self.nloop = self.ntry = self.nif = self.nfor = 0
        self.env = f'{self.g}_Env'
        self.depth = 0
        self.objty = NOOBJ

    def target(self, f):
        """(module stem, name) of a call of a module-level function, or None"""
        if isinstance(f, ast.Name) and f.id not in self.params and f.id not in self.locals:
            return (self.mod, f.id)
        d = dotted(f)
        if d is not None and d.count('.') == 1 and isinstance(f.value, ast.Name) \
                and f.value.id not in self.params and f.value.id not in self.locals:
            return tuple(d.split('.'))
        return None

    def bind_args(self, e, dfn):
        ps = [a.arg for a in dfn.args.args]
        dmap = dict(zip(ps[len(ps) - len(dfn.args.defaults):], dfn.args.defaults))
        bound = {}
        if len(e.args) > len(ps):
            raise Unsupported('too many arguments')
        for p_, a in zip(ps, e.args):
            bound[p_] = self.E(a)
        for k in e.keywords:
            if k.arg not in ps or k.arg in bound:
                raise Unsupported('bad keyword')
            bound[k.arg] = self.E(k.value)
        args = []
        for p_ in ps:
            if p_ in bound:
                args.append(bound[p_])
            elif p_ in dmap and isinstance(dmap[p_], ast.Constant):
                args.append(self.const(dmap[p_].value))
            else:
                raise Unsupported(f'missing argument {p_}')
        return args

    def call(self, e):
        t = self.target(e.func)
        if t in IO_FUNCS:
            # signature of ebb_serial.command / query: (port_name, cmd, verbose=True)
            sig = ast.parse('def f(port_name, cmd, verbose=True): pass').body[0]
            args = self.bind_args(e, sig)
            g = IO_FUNCS[t]
            if g not in self.iodeps:
                self.iodeps.append(g)
            return f"(PyObj.ioCall3 ({g} fuel) " + " ".join(args) + ")"
        if t in self.known:
            dfn = self.known[t]
            args = self.bind_args(e, dfn)
            if len(args) > 3:
                raise Unsupported('more than three arguments in a function call')
            g = f'{t[0]}_{t[1]}'
            if g == self.g:
                raise Unsupported('recursive function')
            if g not in self.deps:
                self.deps.append(g)
            return f"(PyObj.mcall{len(args)} ({g} fuel)" + "".join(" " + a for a in args) + ")"
        return MethTr.call(self, e)


def generate_functions(repo, outdir, report):
    trees, known = {}, {}
    for mod, name in FUNCS:
        if mod not in trees:
            try:
                trees[mod] = ast.parse(open(os.path.join(repo, 'plotink', mod)).read())
            except (SyntaxError, OSError):
                trees[mod] = None
        if trees[mod] is not None:
            for n in trees[mod].body:
                if isinstance(n, ast.FunctionDef) and n.name == name:
                    known[(os.path.splitext(mod)[0], name)] = n
    names = []
    for mod, name in FUNCS:
        stem = os.path.splitext(mod)[0]
        g = f'{stem}_{name}'
        names.append(g)
        fn = known.get((stem, name))
        status, deps, iodeps, defaults, params = 'ok', [], [], {}, []
        if fn is None:
            status = 'missing'
            code = f"def {g}_missing : Bool := true"
        else:
            params = [a.arg for a in fn.args.args]
            for p, d in zip(params[len(params) - len(fn.args.defaults):], fn.args.defaults):
                defaults[p] = ast.unparse(d)
            try:
                tr = FuncTr(mod, fn, known)
                code = tr.translate()
                deps, iodeps = tr.deps, tr.iodeps
            except Unsupported as ex:
                status = f'unsupported: {ex}'
                try:
                    code = FuncTr(mod, fn, known).stub()
                except Unsupported:
                    code = f"def {g}_missing : Bool := true"
        text = (f"-- GENERATED by translator/pyio2lean.py from plotink/{mod}:{name}. Do not edit.\n"
                + "import Plotink.PyObj\n" + "".join(f"import Plotink.Gen.{d}\n" for d in iodeps + deps)
                + "namespace Plotink\nnamespace Gen\nset_option linter.unusedVariables false\n\n"
                + code + "\n\nend Gen\nend Plotink\n")
        out = os.path.join(outdir, f"{g}.lean")
        old = open(out).read() if os.path.exists(out) else None
        if old != text:
            with open(out, 'w') as f:
                f.write(text)
        report[g] = {'module': mod, 'function': name, 'layer': 'PyObj/NoObj', 'status': status, 'deps': iodeps + deps,
                     'params': params, 'defaults': defaults, 'sha256': hashlib.sha256(text.encode()).hexdigest(),
                     'changed': old is not None and old != text}
    # dispatch by generated name (for the driver); trailing parameters with constant defaults may be omitted
    alts, imps = [], []
    for (mod, name), g in zip(FUNCS, names):
        fn = known.get((os.path.splitext(mod)[0], name))
        if fn is None or not report[g]['status'].startswith(('ok', 'unsupported')):
            continue
        if report[g]['status'] != 'ok' and '_missing' in open(os.path.join(outdir, g + '.lean')).read():
            continue
        imps.append(g)
        ps = [a.arg for a in fn.args.args]
        dfl = fn.args.defaults
        ndef = len(dfl) if all(isinstance(d, ast.Constant) for d in dfl) else 0
        for k in range(len(ps) - ndef, len(ps) + 1):
            pat = "[" + ", ".join(f"a{i}" for i in range(k)) + "]"
            rest = []
            for i2 in range(k, len(ps)):
                v = dfl[i2 - (len(ps) - len(dfl))].value
                rest.append("PyObj.Val.none" if v is None else
                            f"(PyObj.Val.bool {'true' if v else 'false'})" if isinstance(v, bool) else
                            f"(PyObj.Val.int ({v}))" if isinstance(v, int) else
                            f"(PyObj.Val.str {lean_chars(v)})")
            call = " ".join([g, "fuel"] + [f"a{i}" for i in range(k)] + rest + ["w"])
            alts.append(f'  | "{g}", {pat} => some ({call})')
    code = ("/-- call of a regenerated module-level function by its generated name -/\n"
            f"def legacy_dispatch (fuel : Nat) (name : String) (args : List PyObj.Val) (w : PyObj.World {NOOBJ}) :\n"
            f"    Option (PyObj.Out {NOOBJ}) :=\n  match name, args with\n" + "\n".join(alts) + "\n  | _, _ => none\n\n"
            "def legacy_functions : List String :=\n  [" + ", ".join(f'"{g}"' for g in imps) + "]")
    text = ("-- GENERATED by translator/pyio2lean.py from the module-level functions of FUNCS. Do not edit.\n"
            + "import Plotink.PyObj\n" + "".join(f"import Plotink.Gen.{g}\n" for g in imps)
            + "namespace Plotink\nnamespace Gen\nset_option linter.unusedVariables false\n\n" + code + "\n\nend Gen\nend Plotink\n")
    out = os.path.join(outdir, "legacy_dispatch.lean")
    old = open(out).read() if os.path.exists(out) else None
    if old != text:
        with open(out, 'w') as f:
            f.write(text)
    report['legacy_dispatch'] = {'module': '*', 'status': 'ok', 'deps': imps,
                                 'sha256': hashlib.sha256(text.encode()).hexdigest(), 'changed': old is not None and old != text}
    return report


def gen_name(mod, name):
    return f"{os.path.splitext(mod)[0]}_{name}"


def generate(repo, outdir):
    os.makedirs(outdir, exist_ok=True)
    report = {}
    trees = {}
    for mod, name in FUNCTIONS:
        g = gen_name(mod, name)
        if mod not in trees:
            try:
                trees[mod] = ast.parse(open(os.path.join(repo, 'plotink', mod)).read())
            except (SyntaxError, OSError) as ex:
                trees[mod] = None
        tree = trees[mod]
        fn = None
        if tree is not None:
            for n in tree.body:
                if isinstance(n, ast.FunctionDef) and n.name == name:
                    fn = n
        status, defaults = 'ok', {}
        if fn is None:
            status = 'missing'
            code = f"def {g}_missing : Bool := true"
        else:
            try:
                code = IoTr(fn, g).translate()
                ps = [a.arg for a in fn.args.args]
                for p, d in zip(ps[len(ps) - len(fn.args.defaults):], fn.args.defaults):
                    defaults[p] = ast.unparse(d)
            except Unsupported as ex:
                status = f'unsupported: {ex}'
                try:
                    code = IoTr(fn, g).stub()
                except Unsupported:
                    code = f"def {g}_missing : Bool := true"
        text = (f"-- GENERATED by translator/pyio2lean.py from plotink/{mod}:{name}. Do not edit.\n"
                "import Plotink.PyIO\nnamespace Plotink\nnamespace Gen\nset_option linter.unusedVariables false\n\n"
                + code + "\n\nend Gen\nend Plotink\n")
        out = os.path.join(outdir, f"{g}.lean")
        old = open(out).read() if os.path.exists(out) else None
        if old != text:
            with open(out, 'w') as f:
                f.write(text)
        report[g] = {'module': mod, 'function': name, 'status': status, 'deps': [], 'defaults': defaults,
                     'sha256': hashlib.sha256(text.encode()).hexdigest(), 'changed': old is not None and old != text}
    generate_classes(repo, outdir, report)
    generate_functions(repo, outdir, report)
    with open(os.path.join(outdir, 'io_report.json'), 'w') as f:
        json.dump(report, f, indent=1, sort_keys=True)
    return report


if __name__ == '__main__':
    repo = sys.argv[1] if len(sys.argv) > 1 else '/repo'
    here = os.path.dirname(os.path.abspath(__file__))
    out = sys.argv[2] if len(sys.argv) > 2 else os.path.join(here, '..', 'lean', 'Plotink', 'Gen')
    rep = generate(repo, out)
    print(json.dumps({k: v['status'] for k, v in rep.items()}))
