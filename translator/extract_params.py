"""Extractor of constants (DESIGN §3b): reads the *current* plotink sources and writes
`lean/Plotink/Gen/Params.lean` (namespace `Plotink.Gen.Params`) plus `params_report.json`.

`generate(repo, outdir)` is called by `harness/common.regen()` on every run.  Each extractor returns a
list of `(lean_name, lean_type, lean_value_text, status)`; a constant that cannot be located in the
source is emitted with a placeholder value and status `not-found` (the harness of the property that
uses it reports that as a broken tie; theorems stated against the concrete value stop checking).
"""
import ast, json, os, sys


def _lean_str(s):
    out = []
    for ch in s:
        if ch == '"':
            out.append('\\"')
        elif ch == '\\':
            out.append('\\\\')
        elif ch == '\n':
            out.append('\\n')
        elif 32 <= ord(ch) < 127:
            out.append(ch)
        else:
            out.append('\\u{%x}' % ord(ch))
    return '"' + ''.join(out) + '"'


def _parse(repo, mod):
    try:
        return ast.parse(open(os.path.join(repo, 'plotink', mod)).read())
    except (OSError, SyntaxError):
        return None


def _method(tree, cls, name):
    if tree is None:
        return None
    for n in tree.body:
        if isinstance(n, ast.ClassDef) and n.name == cls:
            for m in n.body:
                if isinstance(m, ast.FunctionDef) and m.name == name:
                    return m
    return None


def _int_const(node):
    if isinstance(node, ast.Constant) and isinstance(node.value, int) and not isinstance(node.value, bool):
        return node.value
    if isinstance(node, ast.UnaryOp) and isinstance(node.op, ast.USub):
        v = _int_const(node.operand)
        return None if v is None else -v
    return None


def _retry_limit(fn):
    """`while len(response) == 0 and n_retry_count < K:` -> number of *extra* reads allowed"""
    if fn is None:
        return None
    for n in ast.walk(fn):
        if isinstance(n, ast.While):
            for c in ast.walk(n.test):
                if isinstance(c, ast.Compare) and len(c.ops) == 1 and isinstance(c.left, ast.Name) \
                        and c.left.id == 'n_retry_count':
                    k = _int_const(c.comparators[0])
                    if k is None:
                        return None
                    if isinstance(c.ops[0], ast.Lt):
                        return max(k, 0)
                    if isinstance(c.ops[0], ast.LtE):
                        return max(k + 1, 0)
                    return None
    return None


def _ignore_list(fn):
    """`if name.lower() not in ["rb", "r", "bl"]:`"""
    if fn is None:
        return None
    for n in ast.walk(fn):
        if isinstance(n, ast.Compare) and len(n.ops) == 1 and isinstance(n.ops[0], ast.NotIn):
            c = n.comparators[0]
            if isinstance(c, (ast.List, ast.Tuple, ast.Set)) and all(
                    isinstance(e, ast.Constant) and isinstance(e.value, str) for e in c.elts):
                return [e.value for e in c.elts]
    return None


def _pause(fn):
    """`if pause_time > 750: time_delay = 750`"""
    if fn is None:
        return None, None
    for n in ast.walk(fn):
        if isinstance(n, ast.If) and isinstance(n.test, ast.Compare) and len(n.test.ops) == 1 \
                and isinstance(n.test.ops[0], (ast.Gt, ast.GtE)) and isinstance(n.test.left, ast.Name) \
                and n.test.left.id == 'pause_time':
            cmpv = _int_const(n.test.comparators[0])
            if cmpv is not None and isinstance(n.test.ops[0], ast.GtE):
                cmpv -= 1
            chunk = None
            for s in n.body:
                if isinstance(s, ast.Assign) and len(s.targets) == 1 and isinstance(s.targets[0], ast.Name) \
                        and s.targets[0].id == 'time_delay':
                    chunk = _int_const(s.value)
            return cmpv, chunk
    return None, None


def _class_attr(tree, cls, name):
    if tree is None:
        return None
    for n in tree.body:
        if isinstance(n, ast.ClassDef) and n.name == cls:
            for s in n.body:
                if isinstance(s, ast.Assign) and len(s.targets) == 1 and isinstance(s.targets[0], ast.Name) \
                        and s.targets[0].id == name and isinstance(s.value, ast.Constant) \
                        and isinstance(s.value.value, str):
                    return s.value.value
    return None


def _threshold(fn):
    if fn is None:
        return None
    for n in ast.walk(fn):
        if isinstance(n, ast.Assign) and len(n.targets) == 1 and isinstance(n.targets[0], ast.Name) \
                and n.targets[0].id == 'threshold':
            return _int_const(n.value)
    return None


def ebb3_params(repo):
    ser = _parse(repo, 'ebb3_serial.py')
    mot = _parse(repo, 'ebb3_motion.py')
    out = []

    def emit(name, typ, val, render, placeholder):
        if val is None:
            out.append((name, typ, placeholder, 'not-found'))
        else:
            out.append((name, typ, render(val), 'ok'))

    slist = lambda l: '[' + ', '.join(_lean_str(x) for x in l) + ']'
    ilit = lambda v: f'({v})' if v < 0 else str(v)
    emit('ebb3RetryCmd', 'Nat', _retry_limit(_method(ser, 'EBB3', 'command')), str, '0')
    emit('ebb3RetryQry', 'Nat', _retry_limit(_method(ser, 'EBB3', 'query')), str, '0')
    emit('ebb3IgnoreCmd', 'List String', _ignore_list(_method(ser, 'EBB3', 'command')), slist, '[]')
    emit('ebb3IgnoreQry', 'List String', _ignore_list(_method(ser, 'EBB3', 'query')), slist, '[]')
    cmpv, chunk = _pause(_method(mot, 'EBBMotionWrap', 'timed_pause'))
    emit('ebb3PauseCmp', 'Int', cmpv, ilit, '0')
    emit('ebb3PauseChunk', 'Int', chunk, ilit, '1')
    emit('ebb3MinVersion', 'String', _class_attr(ser, 'EBB3', 'MIN_VERSION_STRING'), _lean_str, '""')
    emit('ebb3VThreshold', 'Int', _threshold(_method(mot, 'EBBMotionWrap', 'query_voltage')), ilit, '0')
    return out


EXTRACTORS = [ebb3_params]


def generate(repo, outdir):
    os.makedirs(outdir, exist_ok=True)
    defs, report = [], {}
    for ex in EXTRACTORS:
        for name, typ, val, status in ex(repo):
            defs.append(f'def {name} : {typ} := {val}')
            report[name] = {'status': status, 'value': val}
    text = ('/-! GENERATED by translator/extract_params.py from the plotink sources on every run. Do not edit. -/\n'
            'namespace Plotink\nnamespace Gen\nnamespace Params\n\n' + '\n'.join(defs) +
            '\n\nend Params\nend Gen\nend Plotink\n')
    path = os.path.join(outdir, 'Params.lean')
    old = open(path).read() if os.path.exists(path) else None
    if old != text:                      # keep the mtime when nothing changed (incremental build)
        with open(path, 'w') as f:
            f.write(text)
    with open(os.path.join(outdir, 'params_report.json'), 'w') as f:
        json.dump(report, f, indent=1)
    return report


if __name__ == '__main__':
    print(json.dumps(generate(sys.argv[1] if len(sys.argv) > 1 else '/repo',
                              sys.argv[2] if len(sys.argv) > 2 else
                              os.path.join(os.path.dirname(os.path.abspath(__file__)), '..', 'lean', 'Plotink', 'Gen')),
                     indent=1))
