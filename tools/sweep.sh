#!/bin/bash
# tools/sweep.sh <tier> <seeds...> : run every claimed check under several seeds on the clean tree; print one line per run.
cd "$(dirname "$0")/.."
tier=$1; shift
tools/regen.py /repo >/dev/null && (cd lean && lake build Plotink driver >/dev/null 2>&1)
props=$(python3 -c "import json;print(' '.join(c['property_id'] for c in json.load(open('MANIFEST.json'))['checks']))")
for s in "$@"; do for p in $props; do
  t0=$(date +%s); out=$(VERIF_SEED=$s ./check $p --tier $tier 2>&1); rc=$?
  echo "seed=$s $p rc=$rc $(( $(date +%s) - t0 ))s $(echo "$out" | grep -E 'VIOLATION|INFRA' | head -1)"
done; done
