#!/usr/bin/env python3
"""Regenerates MANIFEST.json from the table below (keeps it schema-valid at all times)."""
import json, os
HERE = os.path.dirname(os.path.dirname(os.path.abspath(__file__)))
ALL = [f'C{i:02d}' for i in range(1, 21)]
CLAIMED = json.load(open(os.path.join(HERE, 'claims.json')))
checks, na = [], []
for p in ALL:
    c = CLAIMED.get(p)
    if not c or c.get('not_applicable'):
        na.append({'property_id': p, 'reason': (c or {}).get('not_applicable', 'check not built yet (work in progress); nothing is claimed for this property')})
        continue
    checks.append({
        'property_id': p,
        'quick_cmd': f'./check {p} --tier quick',
        'thorough_cmd': f'./check {p} --tier thorough',
        'evidence_file': f'evidence/{p}.json',
        'replay_cmd_template': f'./check {p} --replay {{path}}',
        'engine': 'lean4-proof+correspondence',
        'level_claimed': {'category': 'proof', 'text': c['text'], 'design_ref': c.get('design_ref', f'DESIGN.md §7 {p}')},
        'level_note': c['note'],
        'technique': c['technique'],
    })
m = {
    'version': 1,
    'setup_cmd': 'tools/regen.py /repo && cd lean && lake build Plotink driver',
    'hooks': {'guard': 'PLOTINK_VERIF', 'enable': 'no source hooks are needed: the harness injects fake ports/stubs through module attributes; PLOTINK_VERIF=1 is exported by ./check for completeness',
              'baseline_off_cmd': 'cd /repo && /venv/bin/python -m pytest -ra -q -p no:cacheprovider --timeout=900 --continue-on-collection-errors',
              'source_commits': [], 'add_only': True},
    'engines': [{'name': 'lean4-proof+correspondence', 'path': 'check', 'serves_properties': [c['property_id'] for c in checks],
                 'kind_free_text': 'Lean 4 theorems about generated (translator) and hand-written models; tie to /repo by regeneration on every run and by differential execution of model vs implementation; oracle = executable Spec'}],
    'checks': checks,
    'not_applicable': na,
    'notes': ('exit 0 pass / 1 VIOLATION / 2 infrastructure error. See DESIGN.md (section 0 first). Genuine defects repaired by '
              'unguarded fix: commits in /repo are listed as fixed: entries in known_findings.txt (F1-F14); open known findings: C20 '
              'xml-whitespace-normalisation, C05 F10-reboot-io-ignored. Supplementary, unregistered checks X01-X03 (./check X0n) '
              'cover library code outside the twenty properties and write to supplementary/.'),
}
json.dump(m, open(os.path.join(HERE, 'MANIFEST.json'), 'w'), indent=1)
print(len(checks), 'claimed;', len(na), 'not claimed')
