#!/bin/bash
# Re-run every claimed check (quick) on the clean /repo so that the committed evidence comes from /verif run against /repo itself.
cd "$(dirname "$0")/.."
[ -z "$(git -C /repo status --porcelain --untracked-files=no)" ] || { echo "/repo is not clean"; exit 1; }
props=${@:-$(python3 -c "import json;print(' '.join(c['property_id'] for c in json.load(open('MANIFEST.json'))['checks']))")}
for p in $props; do
  out=$(./check $p --tier quick 2>&1); rc=$?
  echo "$p rc=$rc $(echo "$out" | grep -E 'VIOLATION|KNOWN-FINDING|INFRA' | head -2 | tr '\n' ' ') $(echo "$out" | tail -1 | sed 's/.*seed=0: //')"
done
