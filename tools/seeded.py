#!/usr/bin/env python3
"""Seeded-change bookkeeping.

  tools/seeded.py import <id> <prop> <patch> <demo> <meta>   copy a confirmed change into seeded/<id>/
  tools/seeded.py verify <id>     confirm in a scratch worktree: demo passes clean; with the patch the suite passes and the demo fails
  tools/seeded.py detect <id>...  apply to /repo, run ./check <prop> (quick), undo; record the outcome in seeded/<id>/detect.json
  tools/seeded.py table           markdown table of all seeded changes and outcomes
"""
import sys, os, json, subprocess, shutil, tempfile, time
VERIF = os.path.dirname(os.path.dirname(os.path.abspath(__file__)))
REPO = '/repo'
PY = '/venv/bin/python'


def sh(cmd, cwd=None, timeout=3600, env=None):
    p = subprocess.run(cmd, cwd=cwd, shell=isinstance(cmd, str), stdout=subprocess.PIPE, stderr=subprocess.STDOUT,
                       text=True, timeout=timeout, env=env)
    return p.returncode, p.stdout


def sdir(i):
    return os.path.join(VERIF, 'seeded', i)


def cmd_import(i, prop, patch, demo, meta):
    d = sdir(i)
    os.makedirs(d, exist_ok=True)
    shutil.copy(patch, os.path.join(d, 'patch.diff'))
    shutil.copy(demo, os.path.join(d, 'demo.py'))
    m = json.load(open(meta))
    m['property'] = prop
    json.dump(m, open(os.path.join(d, 'meta.json'), 'w'), indent=1)


def cmd_verify(i):
    d = sdir(i)
    wt = tempfile.mkdtemp(prefix='seedwt_', dir='/tmp')
    os.rmdir(wt)
    res = {}
    try:
        rc, out = sh(['git', '-C', REPO, 'worktree', 'add', '--detach', wt, 'HEAD'])
        assert rc == 0, out
        rc, out = sh([PY, os.path.join(d, 'demo.py')], cwd=wt, timeout=900)
        res['demo_clean_rc'] = rc
        rc, out = sh(['git', '-C', wt, 'apply', os.path.join(d, 'patch.diff')])
        res['apply_rc'] = rc
        if rc == 0:
            rc, out = sh([PY, '-m', 'pytest', '-q', '-p', 'no:cacheprovider', '--timeout=900'], cwd=wt, timeout=1800)
            res['suite_rc'] = rc
            res['suite_tail'] = out.strip().split('\n')[-1]
            rc, out = sh([PY, os.path.join(d, 'demo.py')], cwd=wt, timeout=900)
            res['demo_patched_rc'] = rc
            res['demo_patched_tail'] = out.strip()[-400:]
    finally:
        sh(['git', '-C', REPO, 'worktree', 'remove', '--force', wt])
        shutil.rmtree(wt, ignore_errors=True)
    res['confirmed'] = (res.get('demo_clean_rc') == 0 and res.get('apply_rc') == 0 and res.get('suite_rc') == 0
                        and res.get('demo_patched_rc', 0) != 0)
    m = json.load(open(os.path.join(d, 'meta.json')))
    m['verified'] = res
    json.dump(m, open(os.path.join(d, 'meta.json'), 'w'), indent=1)
    print(i, 'confirmed' if res['confirmed'] else 'NOT CONFIRMED', res)
    return res['confirmed']


def cmd_detect(i, tier='quick', in_repo=False):
    """default: apply the patch in a scratch worktree and point the check at it (PLOTINK_REPO);
    --in-repo: apply to /repo itself and undo afterwards (only when nothing else is using /repo)"""
    d = sdir(i)
    m = json.load(open(os.path.join(d, 'meta.json')))
    prop = m['property']
    t0 = time.time()
    env = dict(os.environ)
    wt = None
    if in_repo:
        rc, out = sh(['git', '-C', REPO, 'status', '--porcelain', '--untracked-files=no'])
        assert out.strip() == '', '/repo has local modifications: ' + out
        target = REPO
    else:
        wt = tempfile.mkdtemp(prefix='seedwt_', dir='/tmp')
        os.rmdir(wt)
        rc, out = sh(['git', '-C', REPO, 'worktree', 'add', '--detach', wt, 'HEAD'])
        assert rc == 0, out
        target = wt
        env['PLOTINK_REPO'] = wt
    evp = os.path.join(VERIF, 'evidence', f'{prop}.json')
    saved_ev = open(evp).read() if os.path.exists(evp) else None
    try:
        rc, out = sh(['git', '-C', target, 'apply', os.path.join(d, 'patch.diff')])
        assert rc == 0, out
        rc, out = sh(['./check', prop, '--tier', tier], cwd=VERIF, timeout=7200, env=env)
    finally:
        if saved_ev is not None:   # the committed evidence must come from runs against /repo itself
            open(evp, 'w').write(saved_ev)
        if in_repo:
            sh(['git', '-C', REPO, 'checkout', '--', '.'])
        else:
            sh(['git', '-C', REPO, 'worktree', 'remove', '--force', wt])
            shutil.rmtree(wt, ignore_errors=True)
    viol = [l for l in out.split('\n') if l.startswith('VIOLATION')]
    res = {'check_rc': rc, 'violation_line': viol[0] if viol else None, 'wall_s': round(time.time() - t0, 1),
           'with_failing_input': bool(viol) and 'no-failing-input-found' not in viol[0], 'tier': tier,
           'applied_to': 'repo' if in_repo else 'scratch worktree via PLOTINK_REPO'}
    rp = os.path.join(VERIF, 'replays', f'{prop}.json')
    if viol and os.path.exists(rp):
        r = json.load(open(rp))
        res['replay_kind'] = r.get('kind')
        if r.get('violations'):
            res['first_violation'] = r['violations'][0]
        if r.get('no_longer_checking'):
            res['no_longer_checking'] = r['no_longer_checking']
    json.dump(res, open(os.path.join(d, 'detect.json'), 'w'), indent=1, default=str)
    print(i, prop, 'rc=%d' % rc, viol[0] if viol else 'NOT DETECTED', f'{res["wall_s"]}s')
    return rc


def cmd_table():
    rows = []
    for i in sorted(os.listdir(os.path.join(VERIF, 'seeded'))):
        d = sdir(i)
        if not os.path.exists(os.path.join(d, 'meta.json')):
            continue
        m = json.load(open(os.path.join(d, 'meta.json')))
        det = json.load(open(os.path.join(d, 'detect.json'))) if os.path.exists(os.path.join(d, 'detect.json')) else {}
        how = 'not run'
        if det:
            if det['check_rc'] == 1 and det.get('with_failing_input'):
                how = 'VIOLATION with failing input'
            elif det['check_rc'] == 1:
                how = 'VIOLATION no-failing-input-found'
            elif det['check_rc'] == 0:
                how = '**missed**'
            else:
                how = f'rc={det["check_rc"]}'
        def cut(t, n=170):
            t = ' '.join(str(t).replace('|', '/').split())
            return t if len(t) <= n else t[:n - 1] + '…'
        rows.append(f"| {i} | {m['property']} | {cut(m.get('summary', ''))} | {cut(m.get('needs', ''), 140)} | {how} |")
    print('| id | property | change | needs | caught by `./check` (quick) |\n|---|---|---|---|---|')
    print('\n'.join(rows))


if __name__ == '__main__':
    c = sys.argv[1]
    if c == 'import':
        cmd_import(*sys.argv[2:7])
    elif c == 'verify':
        ok = all([cmd_verify(i) for i in sys.argv[2:]])
        sys.exit(0 if ok else 1)
    elif c == 'detect':
        args = [a for a in sys.argv[2:] if not a.startswith('--')]
        for i in args:
            cmd_detect(i, in_repo='--in-repo' in sys.argv)
    elif c == 'table':
        cmd_table()
