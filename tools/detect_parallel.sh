#!/bin/bash
# tools/detect_parallel.sh <workers> <ids...> : run seeded detection in <workers> private copies of /verif in parallel,
# then copy the detect.json files back. /verif itself is untouched while it runs.
N=$1; shift
ids=("$@")
for w in $(seq 1 $N); do rm -rf /tmp/dv_$w; cp -a /verif /tmp/dv_$w; done
for w in $(seq 1 $N); do
  mine=(); i=0
  for id in "${ids[@]}"; do if [ $(( i % N + 1 )) -eq $w ]; then mine+=("$id"); fi; i=$((i+1)); done
  ( cd /tmp/dv_$w && python3 tools/seeded.py detect "${mine[@]}" 2>&1 | grep -v '^\[check\]' > /tmp/dv_$w.log ) &
done
wait
for w in $(seq 1 $N); do
  # copy back ONLY the results this worker produced (its copy also holds stale detect.json files of every other id)
  i=0
  for id in "${ids[@]}"; do
    if [ $(( i % N + 1 )) -eq $w ] && [ -f /tmp/dv_$w/seeded/$id/detect.json ]; then cp /tmp/dv_$w/seeded/$id/detect.json /verif/seeded/$id/detect.json; fi
    i=$((i+1))
  done
  cat /tmp/dv_$w.log; rm -rf /tmp/dv_$w
done
