#!/usr/bin/env python3
"""tools/mk_mut_prompt.py Cxx…  — write /tmp/mut/Cxx_prompt.txt (property text only) and create a scratch worktree /tmp/mut/Cxx."""
import json, subprocess, sys, os
props = {json.loads(l)['id']: json.loads(l) for l in open('/verif/properties.jsonl')}
TMPL = open(os.path.join(os.path.dirname(os.path.abspath(__file__)), 'mut_prompt_template.txt')).read()
os.makedirs('/tmp/mut', exist_ok=True)
for pid in sys.argv[1:]:
    p = props[pid]
    t = TMPL.format(wt=f'/tmp/mut/{pid}', pid=pid, title=p['title'], statement=p['statement'],
                    quant=p['quantifier']['text'], files=', '.join(p['anchors']['files']))
    open(f'/tmp/mut/{pid}_prompt.txt', 'w').write(t)
    r = subprocess.run(['git', '-C', '/repo', 'worktree', 'add', '--detach', f'/tmp/mut/{pid}', 'HEAD'], capture_output=True, text=True)
    print(pid, 'worktree rc', r.returncode)
