#!/bin/bash
# tools/merge_agent.sh <id>   — list what an agent changed in /tmp/w_<id> relative to the commit it copied,
# copy NEW files into /verif, and print diffs of MODIFIED tracked files for manual merging.
set -e
id=$1; W=/tmp/w_$id
cd $W
echo "== status in $W"; git status --short | grep -v '^?? lean/.lake' || true
echo "== copying untracked files"
git ls-files --others --exclude-standard | grep -v -e '^replays/' -e '^evidence/' -e '__pycache__' | while read f; do
  mkdir -p /verif/$(dirname "$f"); cp -a "$f" "/verif/$f"; echo "  new: $f"; done
echo "== modified tracked files (merge by hand)"
git diff --stat -- . ':!lean/Plotink/Gen' ':!evidence' | cat
