#!/venv/bin/python
"""Regenerate lean/Plotink/Gen/** (translated functions + extracted parameters) from the repository source."""
import sys, os
sys.path.insert(0, os.path.dirname(os.path.dirname(os.path.abspath(__file__))))
from harness import common
if len(sys.argv) > 1:
    common.REPO = sys.argv[1]
rep = common.regen()
print({k: v['status'] for k, v in rep.items() if isinstance(v, dict) and v.get('status') != 'ok'} or 'all translated')
