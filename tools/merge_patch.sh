#!/bin/bash
# tools/merge_patch.sh <dir> — apply an agent's working-copy changes (a later copy of /verif) as a patch, copy its new files.
set -e
W=$1
cd $W
git diff -- . ':!evidence' ':!lean/Plotink/Gen' ':!replays' ':!seeded' > /tmp/merge_patch.diff
git -C /verif apply --3way /tmp/merge_patch.diff && echo "patch applied: $(grep -c '^diff' /tmp/merge_patch.diff) files"
git ls-files --others --exclude-standard | grep -v -e '^seeded/' -e '^replays/' -e '^evidence/' -e '__pycache__' -e '^lean/Plotink/Gen/' | while read f; do
  mkdir -p /verif/$(dirname "$f"); cp -a "$f" "/verif/$f"; echo "  new: $f"; done
