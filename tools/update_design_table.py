#!/usr/bin/env python3
"""Replace the seeded-change table in DESIGN.md (between the SEEDED-TABLE markers) with the current one."""
import subprocess, os, re
H = os.path.dirname(os.path.dirname(os.path.abspath(__file__)))
tbl = subprocess.run(['python3', os.path.join(H, 'tools', 'seeded.py'), 'table'], capture_output=True, text=True).stdout
p = os.path.join(H, 'DESIGN.md')
s = open(p).read()
s = re.sub(r'<!-- SEEDED-TABLE-BEGIN -->.*?<!-- SEEDED-TABLE-END -->', '<!-- SEEDED-TABLE-BEGIN -->\n' + tbl.replace('\\', '\\\\') + '<!-- SEEDED-TABLE-END -->', s, flags=re.S)
open(p, 'w').write(s)
print('rows:', tbl.count('\n') - 2)
