import Plotink.Drv.Calc
/-! Line-protocol driver: one request per line on stdin, one answer per line on stdout. -/
open Plotink Drv

def dispatch (toks : List String) : String :=
  match toks with
  | "gen" :: rest => genHandle rest
  | _ => "BAD"

partial def loop (h : IO.FS.Stream) (out : IO.FS.Stream) : IO Unit := do
  let line ← h.getLine
  if line.isEmpty then return ()
  let toks := (line.trimAscii.toString.splitOn " ").filter (· ≠ "")
  out.putStrLn (dispatch toks)
  loop h out

def main : IO Unit := do
  loop (← IO.getStdin) (← IO.getStdout)
