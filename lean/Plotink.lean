import Plotink.Py
import Plotink.Ieee
import Plotink.Drv.Calc
