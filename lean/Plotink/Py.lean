import Plotink.Model.PyFloat
/-! Dynamically-typed numeric Python values and operators used by the generated code (core Lean only). -/
namespace Plotink

structure Rounding where
  f64 : Rat → Rat
  mp : Nat → Rat → Rat
  mpSqrt : Nat → Rat → Rat

/-- ideal arithmetic: no rounding at all (`mpSqrt` has no exact counterpart and is a dummy here) -/
def Rounding.exact : Rounding := ⟨id, fun _ => id, fun _ x => x⟩

namespace Py

inductive Val where
  | int (z : Int)
  | flt (q : Rat)
  | mpf (q : Rat)
  | str (s : String)
  | bool_ (b : Bool)
  | none_
  | tup (l : List Val)
  | err
  deriving Repr, Inhabited

open Val

def intOfRat (q : Rat) : Int := if 0 ≤ q then q.floor else -((-q).floor)
def ceilRat (q : Rat) : Int := -((-q).floor)

/-- banker's rounding of an exact value -/
def roundHE (q : Rat) : Int :=
  let f := q.floor
  let d := q - f
  if d < 1/2 then f else if d > 1/2 then f + 1 else (if f % 2 = 0 then f else f + 1)

/-- mpmath.libmp.dps_to_prec: max(1, round((dps+1)*3.3219280948873626)), in Nat arithmetic so `decide` evaluates it -/
def dpsToPrec (dps : Nat) : Nat :=
  let n := (dps + 1) * 33219280948873626
  let q := n / 10000000000000000
  let r := n % 10000000000000000
  max 1 (if 2 * r < 10000000000000000 then q else if 2 * r > 10000000000000000 then q + 1 else (if q % 2 = 0 then q else q + 1))

inductive Kind where | i | f | m | bad
def kind : Val → Kind
  | int _ => .i | bool_ _ => .i | flt _ => .f | mpf _ => .m | _ => .bad
def num : Val → Rat
  | int z => z | bool_ b => if b then 1 else 0 | flt q => q | mpf q => q | _ => 0
def toInt : Val → Int
  | int z => z | bool_ b => if b then 1 else 0 | _ => 0

/-- result kind of a binary arithmetic operator -/
def join : Kind → Kind → Kind
  | .bad, _ => .bad | _, .bad => .bad
  | .m, _ => .m | _, .m => .m
  | .f, _ => .f | _, .f => .f
  | .i, .i => .i

def pack (R : Rounding) (prec : Nat) (k : Kind) (exactInt : Int) (q : Rat) : Val :=
  match k with
  | .i => int exactInt
  | .f => flt (R.f64 q)
  | .m => mpf (R.mp prec q)
  | .bad => err

def add (R : Rounding) (prec : Nat) (a b : Val) : Val :=
  match a, b with
  | str s, str t => str (s ++ t)        -- `+` on two strings is concatenation
  | a, b => pack R prec (join (kind a) (kind b)) (toInt a + toInt b) (num a + num b)
def sub (R : Rounding) (prec : Nat) (a b : Val) : Val :=
  pack R prec (join (kind a) (kind b)) (toInt a - toInt b) (num a - num b)
def mul (R : Rounding) (prec : Nat) (a b : Val) : Val :=
  pack R prec (join (kind a) (kind b)) (toInt a * toInt b) (num a * num b)
def truediv (R : Rounding) (prec : Nat) (a b : Val) : Val :=
  if num b = 0 then err else
  match join (kind a) (kind b) with
  | .i => flt (R.f64 (num a / num b))       -- int / int: one correctly rounded quotient
  | k => pack R prec k 0 (num a / num b)
def neg (a : Val) : Val :=
  match a with
  | int z => int (-z) | bool_ b => int (-(if b then 1 else 0)) | flt q => flt (-q) | mpf q => mpf (-q) | _ => err

def lt (a b : Val) : Bool := decide (num a < num b)
def le (a b : Val) : Bool := decide (num a ≤ num b)
def gt (a b : Val) : Bool := decide (num a > num b)
def ge (a b : Val) : Bool := decide (num a ≥ num b)
def eq (a b : Val) : Bool :=
  match a, b with
  | str s, str t => s == t
  | str _, _ => false
  | _, str _ => false
  | none_, none_ => true
  | none_, _ => false
  | _, none_ => false
  | a, b => decide (num a = num b)
def ne (a b : Val) : Bool := !(eq a b)

def int_ (a : Val) : Val :=
  match a with
  | int z => int z | bool_ b => int (if b then 1 else 0) | flt q => int (intOfRat q) | mpf q => int (intOfRat q) | _ => err
def abs_ (a : Val) : Val :=
  match a with
  | int z => int (if z < 0 then -z else z) | flt q => flt (if q < 0 then -q else q)
  | mpf q => mpf (if q < 0 then -q else q) | _ => err
def round_ (a : Val) : Val :=
  match a with
  | int z => int z | flt q => int (roundHE q) | mpf q => int (roundHE q) | _ => err
def max_ (l : List Val) : Val :=
  match l with
  | [] => err
  | x :: xs => xs.foldl (fun m v => if gt v m then v else m) x
def math_floor (a : Val) : Val :=
  match a with | int z => int z | flt q => int q.floor | mpf q => int q.floor | _ => err
def math_ceil (a : Val) : Val :=
  match a with | int z => int z | flt q => int (ceilRat q) | mpf q => int (ceilRat q) | _ => err
def mpf_ (R : Rounding) (prec : Nat) (a : Val) : Val :=
  match a with
  | int z => mpf (R.mp prec z) | flt q => mpf (R.mp prec q) | mpf q => mpf (R.mp prec q) | _ => err
def mp_floor (a : Val) : Val :=
  match a with | int z => mpf z | flt q => mpf q.floor | mpf q => mpf q.floor | _ => err
def mp_ceil (a : Val) : Val :=
  match a with | int z => mpf z | flt q => mpf (ceilRat q) | mpf q => mpf (ceilRat q) | _ => err
def mp_fabs (a : Val) : Val :=
  match a with | int z => mpf (if z < 0 then -z else z) | flt q => mpf (if q < 0 then -q else q)
               | mpf q => mpf (if q < 0 then -q else q) | _ => err
def mp_sqrt (R : Rounding) (prec : Nat) (a : Val) : Val :=
  match kind a with
  | .bad => err
  | _ => if num a < 0 then err else mpf (R.mpSqrt prec (num a))

/-- `math.sqrt`: the argument is converted to a binary64 float first (`int` → one correct rounding; an `mpf` is not
accepted here), a negative argument raises `ValueError`; the result is the correctly rounded root (53 bits) -/
def math_sqrt (R : Rounding) (a : Val) : Val :=
  match a with
  | int z => if z < 0 then err else flt (R.mpSqrt 53 (R.f64 z))
  | bool_ b => flt (if b then 1 else 0)
  | flt q => if q < 0 then err else flt (R.mpSqrt 53 q)
  | _ => err

/-- the double nearest to `1e-9` (`math.isclose`'s default `rel_tol`) -/
def relTolLit : Rat := (4835703278458517 : Rat) / 4835703278458516698824704
/-- `float(x)` of an `int`/`float` argument as `math.isclose` sees it -/
def asF64 (R : Rounding) : Val → Option Rat
  | int z => some (R.f64 z) | bool_ b => some (if b then 1 else 0) | flt q => some q | _ => Option.none
/-- `math.isclose(a, b)` with the default `rel_tol=1e-09`, `abs_tol=0.0` on finite values (CPython's `math_isclose_impl`):
equal values are close; otherwise `diff = fabs(b - a)` (one rounding) is compared with `fabs(rel_tol * b)` and
`fabs(rel_tol * a)` (one rounding each) and with `abs_tol`.  Non-numeric arguments (a `TypeError`) are `false` here. -/
def isclose (R : Rounding) (a b : Val) : Bool :=
  match asF64 R a, asF64 R b with
  | some x, some y =>
    if x = y then true else
    let diff := R.f64 (y - x)
    let diff := if diff < 0 then -diff else diff
    let rb := R.f64 (relTolLit * y)
    let rb := if rb < 0 then -rb else rb
    let ra := R.f64 (relTolLit * x)
    let ra := if ra < 0 then -ra else ra
    decide (diff ≤ rb) || decide (diff ≤ ra) || decide (diff ≤ 0)
  | _, _ => false

def min_ (l : List Val) : Val :=
  match l with
  | [] => err
  | x :: xs => xs.foldl (fun m v => if lt v m then v else m) x
def float_ (R : Rounding) (a : Val) : Val :=
  match a with
  | int z => flt (R.f64 z) | bool_ b => flt (if b then 1 else 0) | flt q => flt q | mpf q => flt (R.f64 q)
  | str s =>
    -- `float(str)`: the executable grammar of `Model/PyFloat.lean` (ASCII), then one correct rounding.
    -- `err` is the ValueError.  `inf`/`nan` numerals are outside this value domain (no non-finite floats): also `err`.
    (match PyFloat.parseFloat s.toList with
     | some (.fin q) => flt (R.f64 q)
     | _ => err)
  | _ => err
def isNone (a : Val) : Bool :=
  match a with | none_ => true | _ => false
/-- Python floor division / modulo; only the int/int case is modelled, everything else is `err`. -/
def floordiv (_R : Rounding) (_prec : Nat) (a b : Val) : Val :=
  match a, b with
  | int x, int y => if y = 0 then err else int (Int.fdiv x y)
  | _, _ => err
def mod (_R : Rounding) (_prec : Nat) (a b : Val) : Val :=
  match a, b with
  | int x, int y => if y = 0 then err else int (Int.fmod x y)
  | _, _ => err
/-- target-list unpacking: the value must be a sequence of exactly `n` items -/
def unpackN (a : Val) (n : Nat) : Val :=
  match a with
  | tup l => if l.length = n then tup l else err
  | _ => err

def getItem (a : Val) (i : Nat) : Val :=
  match a with
  | tup l => l.getD i err
  | str s => (match s.toList[i]? with | some c => str (String.ofList [c]) | none => err)
  | _ => err
def truthy (a : Val) : Bool :=
  match a with
  | int z => z != 0 | bool_ b => b | flt q => q != 0 | mpf q => q != 0 | str s => s != "" | none_ => false
  | tup l => !l.isEmpty | err => false

/-! ## Loops, sequences and bit operations (used by translated code with `while`/`for`) -/

/-- outcome of a translated loop: the enclosing function executed `return v` inside the loop; the loop
ended (condition false, sequence exhausted, `break`) with the loop-carried variables `s`; or the fuel
of a `while` loop ran out (distinct from every Python value and from `err`). -/
inductive Loop (σ : Type) where
  | ret (v : Val)
  | done (s : σ)
  | fuelOut

/-- result of a translated function that contains a `while` loop -/
inductive Out where
  | val (v : Val)
  | fuelOut
  deriving Inhabited

/-- bits of `n` that are not in `m` -/
def natAndNot (n m : Nat) : Nat := n ^^^ (n &&& m)
/-- two's-complement `&`, `|`, `^` on unbounded integers (`Int.negSucc n` is `~n`) -/
def iand (a b : Int) : Int :=
  match a, b with
  | .ofNat m, .ofNat n => .ofNat (m &&& n)
  | .ofNat m, .negSucc n => .ofNat (natAndNot m n)
  | .negSucc m, .ofNat n => .ofNat (natAndNot n m)
  | .negSucc m, .negSucc n => .negSucc (m ||| n)
def ior (a b : Int) : Int :=
  match a, b with
  | .ofNat m, .ofNat n => .ofNat (m ||| n)
  | .ofNat m, .negSucc n => .negSucc (natAndNot n m)
  | .negSucc m, .ofNat n => .negSucc (natAndNot m n)
  | .negSucc m, .negSucc n => .negSucc (m &&& n)
def ixor (a b : Int) : Int :=
  match a, b with
  | .ofNat m, .ofNat n => .ofNat (m ^^^ n)
  | .ofNat m, .negSucc n => .negSucc (m ^^^ n)
  | .negSucc m, .ofNat n => .negSucc (m ^^^ n)
  | .negSucc m, .negSucc n => .ofNat (m ^^^ n)

/-- Python `|`, `&`, `^` on ints/bools; anything else is a TypeError -/
def bitor (a b : Val) : Val :=
  match a, b with
  | bool_ x, bool_ y => bool_ (x || y)
  | tup x, tup y => tup (x ++ y.filter (fun v => !(x.any (fun w => eq v w))))   -- `|` on two sets (duplicate-free lists)
  | a, b => match kind a, kind b with
    | .i, .i => int (ior (toInt a) (toInt b))
    | _, _ => err
def bitand (a b : Val) : Val :=
  match a, b with
  | bool_ x, bool_ y => bool_ (x && y)
  | a, b => match kind a, kind b with
    | .i, .i => int (iand (toInt a) (toInt b))
    | _, _ => err
def bitxor (a b : Val) : Val :=
  match a, b with
  | bool_ x, bool_ y => bool_ (x != y)
  | a, b => match kind a, kind b with
    | .i, .i => int (ixor (toInt a) (toInt b))
    | _, _ => err

/-- `len(x)` of a list/tuple or string -/
def len_ (a : Val) : Val :=
  match a with | tup l => int l.length | str s => int s.length | _ => err

/-- `a[i]` with a computed index: list/tuple only, int (or bool) index, negative indices count from the
end, IndexError/TypeError are `err` -/
def index (a i : Val) : Val :=
  match a, kind i with
  | tup l, .i =>
    let k := toInt i
    let k := if k < 0 then k + l.length else k
    if 0 ≤ k ∧ k < l.length then l.getD k.toNat err else err
  | str s, .i =>
    let l := s.toList
    let k := toInt i
    let k := if k < 0 then k + l.length else k
    if 0 ≤ k ∧ k < l.length then (match l[k.toNat]? with | some c => str (String.ofList [c]) | none => err) else err
  | _, _ => err

/-- one bound of a slice over a sequence of length `n`, clamped as Python does; `dflt` for an omitted bound -/
def sliceBound (n : Nat) (v : Val) (dflt : Nat) : Option Nat :=
  match v with
  | none_ => some dflt
  | int k => some (if k < 0 then (k + n).toNat else min k.toNat n)
  | bool_ b => some (min (if b then 1 else 0) n)
  | _ => none

/-- `a[lo:hi]` (no step) of a list/tuple -/
def slice (a lo hi : Val) : Val :=
  match a with
  | tup l =>
    match sliceBound l.length lo 0, sliceBound l.length hi l.length with
    | some i, some j => tup ((l.take j).drop i)
    | _, _ => err
  | str s =>
    let l := s.toList
    match sliceBound l.length lo 0, sliceBound l.length hi l.length with
    | some i, some j => str (String.ofList ((l.take j).drop i))
    | _, _ => err
  | _ => err

/-- `a[lo:hi] = v` on a list (value semantics: the updated list is returned); `del a[lo:hi]` is `v = []` -/
def setSlice (a lo hi v : Val) : Val :=
  match a, v with
  | tup l, tup w =>
    match sliceBound l.length lo 0, sliceBound l.length hi l.length with
    | some i, some j => tup (l.take i ++ w ++ l.drop (max i j))
    | _, _ => err
  | _, _ => err

/-- position of a computed index in a sequence of length `n` (negative indices count from the end) -/
def indexPos (n : Nat) (i : Val) : Option Nat :=
  match kind i with
  | .i =>
    let k := toInt i
    let k := if k < 0 then k + n else k
    if 0 ≤ k ∧ k < n then some k.toNat else none
  | _ => none

/-- `a[i] = v` and `del a[i]` on a list (value semantics) -/
def setItem (a i v : Val) : Val :=
  match a with
  | tup l => match indexPos l.length i with
    | some k => tup (l.take k ++ v :: l.drop (k + 1))
    | none => err
  | _ => err
def delItem (a i : Val) : Val :=
  match a with
  | tup l => match indexPos l.length i with
    | some k => tup (l.take k ++ l.drop (k + 1))
    | none => err
  | _ => err

/-- the items a `for` statement iterates over (`none`: not iterable here — only lists/tuples are) -/
def iter (a : Val) : Option (List Val) :=
  match a with | tup l => some l | _ => none

/-- `range(stop)`, `range(start, stop)`, `range(start, stop, step)` as a list of ints -/
def range_ (args : List Val) : Val :=
  let mk (a b s : Int) : Val :=
    if s = 0 then err
    else
      let n : Nat := if 0 < s then ((b - a + s - 1) / s).toNat else ((a - b + (-s) - 1) / (-s)).toNat
      tup ((List.range n).map (fun (k : Nat) => int (a + (k : Int) * s)))
  match args with
  | [int b] => mk 0 b 1
  | [int a, int b] => mk a b 1
  | [int a, int b, int s] => mk a b s
  | _ => err

/-! ## Strings (`str` methods, formatting, `float(str)`, `try`/`except`)

A Python `str` is `Val.str` over Lean `String`; every operation goes through the code-point list
(`String.toList` / `String.ofList`), so the bridges to the `List Char` hand models are one rewrite with
`String.toList_ofList`.  White space, lower-casing, `split()` and `float()` are the ASCII models of
`Model/PyFloat.lean` (the same functions the hand models use). -/

/-- a string value from its code points -/
def ofL (l : List Char) : Val := str (String.ofList l)

/-- `s.replace(pat, rep)` for a non-empty `pat`: left to right, non-overlapping. `skip` = characters of the
current match still to be dropped -/
def replaceGo (pat rep : List Char) : Nat → List Char → List Char
  | _, [] => []
  | skip + 1, _ :: cs => replaceGo pat rep skip cs
  | 0, c :: cs =>
    if pat.isPrefixOf (c :: cs) then rep ++ replaceGo pat rep (pat.length - 1) cs
    else c :: replaceGo pat rep 0 cs
/-- `s.replace(pat, rep)` (all occurrences); an empty pattern matches before every character and at the end -/
def replaceL (pat rep s : List Char) : List Char :=
  if pat = [] then rep ++ s.flatMap (fun c => c :: rep) else replaceGo pat rep 0 s
def str_replace (s a b : Val) : Val :=
  match s, a, b with
  | str s, str a, str b => ofL (replaceL a.toList b.toList s.toList)
  | _, _, _ => err
def str_strip (s : Val) : Val :=
  match s with | str s => ofL (PyFloat.pyStrip s.toList) | _ => err
def str_lower (s : Val) : Val :=
  match s with | str s => ofL (PyFloat.lower s.toList) | _ => err
/-- `str.upper()` on ASCII -/
def upperAscii (c : Char) : Char :=
  if 97 ≤ c.toNat && c.toNat ≤ 122 then Char.ofNat (c.toNat - 32) else c
def str_upper (s : Val) : Val :=
  match s with | str s => ofL (s.toList.map upperAscii) | _ => err
/-- `reversed(seq)` of a list/tuple, as the sequence it iterates -/
def reversed_ (a : Val) : Val :=
  match a with | tup l => tup l.reverse | _ => err
/-- `s.split()` -/
def str_split (s : Val) : Val :=
  match s with | str s => tup ((PyFloat.pySplit s.toList).map ofL) | _ => err
/-- `s.split(sep)` for a non-empty separator: `cur` is the field being collected (reversed) -/
def splitOnGo (sep : List Char) : Nat → List Char → List Char → List (List Char)
  | _, [], cur => [cur.reverse]
  | skip + 1, _ :: cs, cur => splitOnGo sep skip cs cur
  | 0, c :: cs, cur =>
    if sep.isPrefixOf (c :: cs) then cur.reverse :: splitOnGo sep (sep.length - 1) cs []
    else splitOnGo sep 0 cs (c :: cur)
def str_split_sep (s sep : Val) : Val :=
  match s, sep with
  | str s, str sep => if sep = "" then err else tup ((splitOnGo sep.toList 0 s.toList []).map ofL)
  | _, _ => err
/-- `sep.join(items)`: every item must be a string -/
def str_join (sep items : Val) : Val :=
  match sep, items with
  | str sep, tup l =>
    let rec go : List Val → Option (List (List Char))
      | [] => some []
      | str x :: r => (go r).map (x.toList :: ·)
      | _ :: _ => none
    match go l with
    | some parts => ofL (sep.toList.intercalate parts)
    | none => err
  | _, _ => err
def str_startswith (s p : Val) : Val :=
  match s, p with | str s, str p => bool_ (p.toList.isPrefixOf s.toList) | _, _ => err
def str_endswith (s p : Val) : Val :=
  match s, p with | str s, str p => bool_ (p.toList.isSuffixOf s.toList) | _, _ => err
/-- `pat` occurs in `s` (as a contiguous block) -/
def infixOf (pat : List Char) : List Char → Bool
  | [] => pat.isEmpty
  | c :: cs => pat.isPrefixOf (c :: cs) || infixOf pat cs
/-- `x in c` for a string (substring test) or a list/tuple (some item equal to `x`) -/
def contains (x c : Val) : Bool :=
  match c, x with
  | str s, str p => infixOf p.toList s.toList
  | tup l, x => l.any (fun v => eq x v)
  | _, _ => false

/-! ### decimal rendering -/
def digitChar (d : Nat) : Char :=
  match d with
  | 0 => '0' | 1 => '1' | 2 => '2' | 3 => '3' | 4 => '4'
  | 5 => '5' | 6 => '6' | 7 => '7' | 8 => '8' | _ => '9'
/-- decimal digits of a natural number, no leading zeros -/
def natDigits (n : Nat) : List Char :=
  if n < 10 then [digitChar n] else natDigits (n / 10) ++ [digitChar (n % 10)]
termination_by n
decreasing_by omega
/-- `str(z)` of an int -/
def intDigits (z : Int) : List Char :=
  if z < 0 then '-' :: natDigits z.natAbs else natDigits z.toNat
/-- format spec `0w` / `0wd` on an int: minimum width `w`, zeros between the sign and the digits -/
def zeroPad (w : Nat) (z : Int) : List Char :=
  let d := natDigits z.natAbs
  if z < 0 then '-' :: (List.replicate (w - 1 - d.length) '0' ++ d) else List.replicate (w - d.length) '0' ++ d
/-- format spec `w` / `wd` on an int: minimum width `w`, right aligned, blanks -/
def blankPad (w : Nat) (z : Int) : List Char :=
  let d := intDigits z
  List.replicate (w - d.length) ' ' ++ d
/-- format spec `.pf`: the exact value correctly rounded (half to even) to `p` decimals; the sign is that of the
value itself (`-0.0004` prints as `-0.000`, as CPython does) -/
def fixedDigits (p : Nat) (q : Rat) : List Char :=
  let n : Int := roundHE (q * ((10 ^ p : Nat) : Rat))
  let a := n.natAbs
  (if q < 0 then ['-'] else []) ++ natDigits (a / 10 ^ p) ++
    (if p = 0 then [] else '.' :: (List.range p).map (fun i => digitChar (a / 10 ^ (p - 1 - i) % 10)))

/-- `str(x)`: strings, ints, bools and `None` (the `repr` of a float is not modelled: `err`) -/
def str_ (a : Val) : Val :=
  match a with
  | str s => str s
  | int z => ofL (intDigits z)
  | bool_ b => str (if b then "True" else "False")
  | none_ => str "None"
  | _ => err

def parseNatChars (l : List Char) : Option Nat :=
  if l.isEmpty || !l.all PyFloat.isDigit then none else some (PyFloat.digitsVal l)

/-- `format(v, spec)` / `f'{v:spec}'` for the specs `''`, `d`, `[0]w[d]` on ints and `.pf` on ints and floats
(everything else: `err`) -/
def format_ (v : Val) (spec : String) : Val :=
  let l := spec.toList
  if l = [] then str_ v
  else if l = ['d'] then (match v with | int z => ofL (intDigits z) | _ => err)
  else
    match l with
    | '.' :: r =>
      (match r.reverse with
       | 'f' :: pr =>
         (match parseNatChars pr.reverse, v with
          | some p, int z => ofL (fixedDigits p z)
          | some p, flt q => ofL (fixedDigits p q)
          | _, _ => err)
       | _ => err)
    | _ =>
      let body := if l.getLast? = some 'd' then l.dropLast else l
      match body, v with
      | '0' :: w, int z => (match parseNatChars w with | some w => ofL (zeroPad w z) | none => err)
      | w, int z => (match parseNatChars w with | some w => ofL (blankPad w z) | none => err)
      | _, _ => err

/-- concatenation of the pieces of an f-string / `str.format` result: every piece must be a string -/
def fjoin (parts : List Val) : Val :=
  let rec go : List Val → Option (List Char)
    | [] => some []
    | str x :: r => (go r).map (x.toList ++ ·)
    | _ :: _ => none
  match go parts with
  | some l => ofL l
  | none => err

/-- `divmod(a, b)` (ints only, like `//` and `%` here) -/
def divmod_ (R : Rounding) (prec : Nat) (a b : Val) : Val :=
  match floordiv R prec a b, mod R prec a b with
  | int q, int r => tup [int q, int r]
  | _, _ => err

/-- did the evaluation of a `try` body statement fail?  Exceptions are values here (`err`), so a handler
`except SomeError:` is entered whenever the value just computed is `err`, whatever the exception type. -/
def isErr (a : Val) : Bool :=
  match a with | err => true | _ => false

/-! ## Objects, infinities, comprehensions, sets (translated classes)

* An instance of a translated class is `tup (str "<ClassName>" :: fields)` with the fields in the order the class
  body and then the methods first mention them; `obj.attr` is `getItem obj (k+1)`, `self.attr = v` is `setField`.
* `math.inf` / `-math.inf`: `Val` has no non-finite floats; they are the sentinels `posInf` / `negInf` (otherwise
  ill-typed operands) understood by the *extended* comparisons `ltE` … and `minE` / `maxE`, which the translator uses
  in every unit that mentions `math.inf` and which agree with `lt` … on all other values.
* A `set` is a duplicate-free list in insertion order (`set_add`, `bitor` on two lists = union). -/

def posInf : Val := str "inf"
def negInf : Val := str "-inf"
def infSign (a : Val) : Int :=
  match a with
  | str s => if s = "inf" then 1 else if s = "-inf" then -1 else 0
  | _ => 0
def ltE (a b : Val) : Bool := if infSign a = 0 ∧ infSign b = 0 then lt a b else decide (infSign a < infSign b)
def leE (a b : Val) : Bool := if infSign a = 0 ∧ infSign b = 0 then le a b else decide (infSign a ≤ infSign b)
def gtE (a b : Val) : Bool := if infSign a = 0 ∧ infSign b = 0 then gt a b else decide (infSign a > infSign b)
def geE (a b : Val) : Bool := if infSign a = 0 ∧ infSign b = 0 then ge a b else decide (infSign a ≥ infSign b)
def minE (l : List Val) : Val :=
  match l with
  | [] => err
  | x :: xs => xs.foldl (fun m v => if ltE v m then v else m) x
def maxE (l : List Val) : Val :=
  match l with
  | [] => err
  | x :: xs => xs.foldl (fun m v => if gtE v m then v else m) x
/-- `max(iterable)` / `min(iterable)` -/
def maxOf (a : Val) : Val := match a with | tup l => max_ l | _ => err
def minOf (a : Val) : Val := match a with | tup l => min_ l | _ => err
def maxOfE (a : Val) : Val := match a with | tup l => maxE l | _ => err
def minOfE (a : Val) : Val := match a with | tup l => minE l | _ => err

/-- `obj.attr = v` for the attribute stored at position `k` -/
def setField (obj : Val) (k : Nat) (v : Val) : Val :=
  match obj with
  | tup l => if k < l.length then tup (l.set k v) else err
  | _ => err

/-- `[f(x) for x in src if …]`: `f` answers `none` for an item the condition rejects -/
def comp (src : Val) (f : Val → Option Val) : Val :=
  match iter src with
  | some l => tup (l.filterMap f)
  | none => err
/-- the same when the element expression calls a function that runs on fuel -/
def compOut (src : Val) (f : Val → Option Out) : Out :=
  let rec go : List Val → List Val → Out
    | [], acc => .val (tup acc.reverse)
    | x :: xs, acc =>
      match f x with
      | none => go xs acc
      | some (.val v) => go xs (v :: acc)
      | some .fuelOut => .fuelOut
  match iter src with
  | some l => go l []
  | none => .val err

def set_add (s x : Val) : Val :=
  match s with
  | tup l => if l.any (fun v => eq x v) then tup l else tup (l ++ [x])
  | _ => err
def list_append (l x : Val) : Val :=
  match l with | tup l => tup (l ++ [x]) | _ => err
def list_copy (l : Val) : Val :=
  match l with | tup l => tup l | _ => err
/-- `l.remove(x)`: the first item equal to `x` (ValueError: `err`) -/
def list_remove (l x : Val) : Val :=
  let rec go : List Val → Option (List Val)
    | [] => none
    | v :: vs => if eq v x then some vs else (go vs).map (v :: ·)
  match l with
  | tup l => (match go l with | some r => tup r | none => err)
  | _ => err
def list_insert (l i x : Val) : Val :=
  match l, i with
  | tup l, int k =>
    let n : Int := l.length
    let k := if k < 0 then max (k + n) 0 else min k n
    tup (l.take k.toNat ++ x :: l.drop k.toNat)
  | _, _ => err
/-- `enumerate(seq)` as a list of pairs -/
def enumerate_ (a : Val) : Val :=
  match a with
  | tup l => tup (l.zipIdx.map (fun p => tup [int p.2, p.1]))
  | _ => err

end Py
end Plotink
