/-! Dynamically-typed numeric Python values and operators used by the generated code (core Lean only). -/
namespace Plotink

structure Rounding where
  f64 : Rat → Rat
  mp : Nat → Rat → Rat
  mpSqrt : Nat → Rat → Rat

/-- ideal arithmetic: no rounding at all (`mpSqrt` has no exact counterpart and is a dummy here) -/
def Rounding.exact : Rounding := ⟨id, fun _ => id, fun _ x => x⟩

namespace Py

inductive Val where
  | int (z : Int)
  | flt (q : Rat)
  | mpf (q : Rat)
  | str (s : String)
  | bool_ (b : Bool)
  | none_
  | tup (l : List Val)
  | err
  deriving Repr, Inhabited

open Val

def intOfRat (q : Rat) : Int := if 0 ≤ q then q.floor else -((-q).floor)
def ceilRat (q : Rat) : Int := -((-q).floor)

/-- banker's rounding of an exact value -/
def roundHE (q : Rat) : Int :=
  let f := q.floor
  let d := q - f
  if d < 1/2 then f else if d > 1/2 then f + 1 else (if f % 2 = 0 then f else f + 1)

/-- mpmath.libmp.dps_to_prec: max(1, round((dps+1)*3.3219280948873626)), in Nat arithmetic so `decide` evaluates it -/
def dpsToPrec (dps : Nat) : Nat :=
  let n := (dps + 1) * 33219280948873626
  let q := n / 10000000000000000
  let r := n % 10000000000000000
  max 1 (if 2 * r < 10000000000000000 then q else if 2 * r > 10000000000000000 then q + 1 else (if q % 2 = 0 then q else q + 1))

inductive Kind where | i | f | m | bad
def kind : Val → Kind
  | int _ => .i | bool_ _ => .i | flt _ => .f | mpf _ => .m | _ => .bad
def num : Val → Rat
  | int z => z | bool_ b => if b then 1 else 0 | flt q => q | mpf q => q | _ => 0
def toInt : Val → Int
  | int z => z | bool_ b => if b then 1 else 0 | _ => 0

/-- result kind of a binary arithmetic operator -/
def join : Kind → Kind → Kind
  | .bad, _ => .bad | _, .bad => .bad
  | .m, _ => .m | _, .m => .m
  | .f, _ => .f | _, .f => .f
  | .i, .i => .i

def pack (R : Rounding) (prec : Nat) (k : Kind) (exactInt : Int) (q : Rat) : Val :=
  match k with
  | .i => int exactInt
  | .f => flt (R.f64 q)
  | .m => mpf (R.mp prec q)
  | .bad => err

def add (R : Rounding) (prec : Nat) (a b : Val) : Val :=
  pack R prec (join (kind a) (kind b)) (toInt a + toInt b) (num a + num b)
def sub (R : Rounding) (prec : Nat) (a b : Val) : Val :=
  pack R prec (join (kind a) (kind b)) (toInt a - toInt b) (num a - num b)
def mul (R : Rounding) (prec : Nat) (a b : Val) : Val :=
  pack R prec (join (kind a) (kind b)) (toInt a * toInt b) (num a * num b)
def truediv (R : Rounding) (prec : Nat) (a b : Val) : Val :=
  if num b = 0 then err else
  match join (kind a) (kind b) with
  | .i => flt (R.f64 (num a / num b))       -- int / int: one correctly rounded quotient
  | k => pack R prec k 0 (num a / num b)
def neg (a : Val) : Val :=
  match a with
  | int z => int (-z) | bool_ b => int (-(if b then 1 else 0)) | flt q => flt (-q) | mpf q => mpf (-q) | _ => err

def lt (a b : Val) : Bool := decide (num a < num b)
def le (a b : Val) : Bool := decide (num a ≤ num b)
def gt (a b : Val) : Bool := decide (num a > num b)
def ge (a b : Val) : Bool := decide (num a ≥ num b)
def eq (a b : Val) : Bool :=
  match a, b with
  | str s, str t => s == t
  | str _, _ => false
  | _, str _ => false
  | none_, none_ => true
  | none_, _ => false
  | _, none_ => false
  | a, b => decide (num a = num b)
def ne (a b : Val) : Bool := !(eq a b)

def int_ (a : Val) : Val :=
  match a with
  | int z => int z | bool_ b => int (if b then 1 else 0) | flt q => int (intOfRat q) | mpf q => int (intOfRat q) | _ => err
def abs_ (a : Val) : Val :=
  match a with
  | int z => int (if z < 0 then -z else z) | flt q => flt (if q < 0 then -q else q)
  | mpf q => mpf (if q < 0 then -q else q) | _ => err
def round_ (a : Val) : Val :=
  match a with
  | int z => int z | flt q => int (roundHE q) | mpf q => int (roundHE q) | _ => err
def max_ (l : List Val) : Val :=
  match l with
  | [] => err
  | x :: xs => xs.foldl (fun m v => if gt v m then v else m) x
def math_floor (a : Val) : Val :=
  match a with | int z => int z | flt q => int q.floor | mpf q => int q.floor | _ => err
def math_ceil (a : Val) : Val :=
  match a with | int z => int z | flt q => int (ceilRat q) | mpf q => int (ceilRat q) | _ => err
def mpf_ (R : Rounding) (prec : Nat) (a : Val) : Val :=
  match a with
  | int z => mpf (R.mp prec z) | flt q => mpf (R.mp prec q) | mpf q => mpf (R.mp prec q) | _ => err
def mp_floor (a : Val) : Val :=
  match a with | int z => mpf z | flt q => mpf q.floor | mpf q => mpf q.floor | _ => err
def mp_ceil (a : Val) : Val :=
  match a with | int z => mpf z | flt q => mpf (ceilRat q) | mpf q => mpf (ceilRat q) | _ => err
def mp_fabs (a : Val) : Val :=
  match a with | int z => mpf (if z < 0 then -z else z) | flt q => mpf (if q < 0 then -q else q)
               | mpf q => mpf (if q < 0 then -q else q) | _ => err
def mp_sqrt (R : Rounding) (prec : Nat) (a : Val) : Val :=
  match kind a with
  | .bad => err
  | _ => if num a < 0 then err else mpf (R.mpSqrt prec (num a))

def min_ (l : List Val) : Val :=
  match l with
  | [] => err
  | x :: xs => xs.foldl (fun m v => if lt v m then v else m) x
def float_ (R : Rounding) (a : Val) : Val :=
  match a with
  | int z => flt (R.f64 z) | bool_ b => flt (if b then 1 else 0) | flt q => flt q | mpf q => flt (R.f64 q) | _ => err
def isNone (a : Val) : Bool :=
  match a with | none_ => true | _ => false
/-- Python floor division / modulo; only the int/int case is modelled, everything else is `err`. -/
def floordiv (_R : Rounding) (_prec : Nat) (a b : Val) : Val :=
  match a, b with
  | int x, int y => if y = 0 then err else int (Int.fdiv x y)
  | _, _ => err
def mod (_R : Rounding) (_prec : Nat) (a b : Val) : Val :=
  match a, b with
  | int x, int y => if y = 0 then err else int (Int.fmod x y)
  | _, _ => err
/-- target-list unpacking: the value must be a sequence of exactly `n` items -/
def unpackN (a : Val) (n : Nat) : Val :=
  match a with
  | tup l => if l.length = n then tup l else err
  | _ => err

def getItem (a : Val) (i : Nat) : Val :=
  match a with | tup l => l.getD i err | _ => err
def truthy (a : Val) : Bool :=
  match a with
  | int z => z != 0 | bool_ b => b | flt q => q != 0 | mpf q => q != 0 | str s => s != "" | none_ => false
  | tup l => !l.isEmpty | err => false

end Py
end Plotink
