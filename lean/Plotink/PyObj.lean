import Plotink.PyIO
import Plotink.Model.Ebb3
import Plotink.Model.C19
/-! # PyObj — object layer of the runtime for source-regenerated I/O code (core Lean only)

`translator/pyio2lean.py` turns the *methods of a class* into Lean definitions built from the combinators of this
file.  It is the object-oriented sibling of `Plotink/PyIO.lean` (plain functions): same ideas, one more piece of state.

* **State** threaded through every expression and statement: `World ω = { obj : ω, port : PyIO.Port, ext : Ext }`.
  `ω` is the record of the object's attributes (generated: one `Val` field per attribute assigned in `__init__`);
  `port` is the device *script* of `PyIO` (`reads`/`writes` outcomes with exception classes, write log, read count)
  shared by every port object opened during a history; `ext` holds the inputs that come from outside the class the
  way `Model/Ebb3.lean` treats them: what `comports()` yields, what `find_named(…)` returns, whether
  `serial.Serial(…)` opens.
* **Values** `Val`: `str`/`bytes` distinct, `int`, `bool`, `none`, `list`, `tuple`, `dict`, `port` (a port object),
  `exc c`, `version r` (a parsed `packaging` version, release segments), `unbound` (unassigned local / attribute).
* **String, `int()` and version primitives are those of `Model/Ebb3.lean` §1–3** (`Ebb3.strip`, `lower`,
  `startsWith`, `hasSub`, `splitOn`, `split1`, `splitSub1`, `showInt`, `pyInt`, `parseRelease`, `vle`, `toBytes4`,
  `fromBytes4`), so that a bridge to that model is about control flow and exceptions, not about two string libraries.
* **Expressions** `Expr ω σ = Nat → σ → Eff ω` (fuel, locals ↦ effect), `Eff ω = World ω → Res × World ω`,
  `Res = ok v | exc c | fuelOut`.  Pure operations are `… → Except ExcClass Val` lifted by `app1/app2/app3`; effects are
  attribute reads (`getattr`), the port methods, the external calls, and calls of other generated methods
  (`mcall0 … mcall3` on the method's `Out`).
* **Statements** `Stmt ω σ = Nat → σ → World ω → Flow ω σ`,
  `Flow = norm env w | ret v w | exc c env w | brk env w | cont env w | fuelOut`.  `tryExcept` dispatches by class
  (Python's hierarchy, `PyIO.ExcClass.isSub`); an exception carries the locals at the raise point; attribute
  assignments made before a raise stay (they are in the world).  `while_` runs on the fuel; `forIn` is structural.
-/
namespace Plotink
namespace PyObj
open PyIO (ExcClass Rd Wr Port catches)

abbrev Str := List Char

inductive Val where
  | str (s : Str)
  | bytes (b : Str)
  | int (n : Int)
  | bool (b : Bool)
  | none
  | list (l : List Val)
  | tuple (l : List Val)
  | dict (kv : List (Val × Val))
  | port
  | exc (c : ExcClass)
  | version (r : List Nat)
  | unbound
  deriving Repr

/-- inputs from outside the class -/
structure Ext where
  /-- what `list(comports())` yields (a list of 3-tuples of `str`), or the exception it raises -/
  comports : Except ExcClass Val := .ok (.list [])
  /-- what the module-level `find_named(name)` returns -/
  findNamed : Val := .none
  /-- does `serial.Serial(name, …)` open?  (`false`: it raises `SerialException`) -/
  openOk : Bool := true

structure World (ω : Type) where
  obj : ω
  port : Port
  ext : Ext := {}

inductive Res where
  | ok (v : Val)
  | exc (c : ExcClass)
  | fuelOut

abbrev Eff (ω : Type) := World ω → Res × World ω

inductive Flow (ω σ : Type) where
  | norm (env : σ) (w : World ω)
  | ret (v : Val) (w : World ω)
  | exc (c : ExcClass) (env : σ) (w : World ω)
  | brk (env : σ) (w : World ω)
  | cont (env : σ) (w : World ω)
  | fuelOut

abbrev Expr (ω σ : Type) := Nat → σ → Eff ω
abbrev Stmt (ω σ : Type) := Nat → σ → World ω → Flow ω σ

/-- result of a generated method -/
inductive Out (ω : Type) where
  | val (v : Val) (w : World ω)
  | exc (c : ExcClass) (w : World ω)
  | fuelOut

/-! ## pure operations -/

abbrev P := Except ExcClass Val

def truthy : Val → Bool
  | .str s => !s.isEmpty
  | .bytes b => !b.isEmpty
  | .int n => n != 0
  | .bool b => b
  | .none => false
  | .list l => !l.isEmpty
  | .tuple l => !l.isEmpty
  | .dict kv => !kv.isEmpty
  | .port => true
  | .exc _ => true
  | .version _ => true
  | .unbound => false

def isNone : Val → Bool
  | .none => true
  | _ => false

def intOf : Val → Option Int
  | .int n => some n
  | .bool b => some (if b then 1 else 0)
  | _ => Option.none

mutual
/-- Python `==` (bool/int coercion; lists and tuples elementwise; dicts, ports, exceptions by identity = `false`) -/
def pyEq : Val → Val → Bool
  | .str a, .str b => a == b
  | .bytes a, .bytes b => a == b
  | .int a, .int b => a == b
  | .bool a, .bool b => a == b
  | .int a, .bool b => a == (if b then 1 else 0)
  | .bool a, .int b => (if a then 1 else 0) == b
  | .none, .none => true
  | .list a, .list b => pyEqList a b
  | .tuple a, .tuple b => pyEqList a b
  | .version a, .version b => Ebb3.vle a b && Ebb3.vle b a
  | .port, .port => true
  | _, _ => false
def pyEqList : List Val → List Val → Bool
  | [], [] => true
  | a :: as, b :: bs => pyEq a b && pyEqList as bs
  | _, _ => false
end

def op_len : Val → P
  | .str s => .ok (.int s.length)
  | .bytes b => .ok (.int b.length)
  | .list l => .ok (.int l.length)
  | .tuple l => .ok (.int l.length)
  | .dict kv => .ok (.int kv.length)
  | _ => .error .typeError

def op_eq (a b : Val) : P := .ok (.bool (pyEq a b))
def op_ne (a b : Val) : P := .ok (.bool (!pyEq a b))
def op_is_none (a : Val) : P := .ok (.bool (isNone a))
def op_is_not_none (a : Val) : P := .ok (.bool (!isNone a))

/-- `a <= b` on ints and on versions -/
def leVal : Val → Val → Option Bool
  | .version a, .version b => some (Ebb3.vle a b)
  | a, b => match intOf a, intOf b with
    | some x, some y => some (decide (x ≤ y))
    | _, _ => Option.none
def ltVal : Val → Val → Option Bool
  | .version a, .version b => some (Ebb3.vle a b && !Ebb3.vle b a)
  | a, b => match intOf a, intOf b with
    | some x, some y => some (decide (x < y))
    | _, _ => Option.none

def ofOptBool : Option Bool → P
  | some b => .ok (.bool b)
  | Option.none => .error .typeError

def op_le (a b : Val) : P := ofOptBool (leVal a b)
def op_lt (a b : Val) : P := ofOptBool (ltVal a b)
def op_ge (a b : Val) : P := ofOptBool (leVal b a)
def op_gt (a b : Val) : P := ofOptBool (ltVal b a)

def op_add : Val → Val → P
  | .str a, .str b => .ok (.str (a ++ b))
  | .bytes a, .bytes b => .ok (.bytes (a ++ b))
  | .list a, .list b => .ok (.list (a ++ b))
  | .tuple a, .tuple b => .ok (.tuple (a ++ b))
  | a, b => match intOf a, intOf b with
    | some x, some y => .ok (.int (x + y))
    | _, _ => .error .typeError
def op_sub (a b : Val) : P :=
  match intOf a, intOf b with
  | some x, some y => .ok (.int (x - y))
  | _, _ => .error .typeError
def op_mul (a b : Val) : P :=
  match intOf a, intOf b with
  | some x, some y => .ok (.int (x * y))
  | _, _ => .error .typeError

/-- `a in b` -/
def op_in : Val → Val → P
  | a, .list l => .ok (.bool (l.any (fun x => pyEq a x)))
  | a, .tuple l => .ok (.bool (l.any (fun x => pyEq a x)))
  | a, .dict kv => .ok (.bool (kv.any (fun x => pyEq a x.1)))
  | .str a, .str b => .ok (.bool (Ebb3.hasSub a b))
  | .bytes a, .bytes b => .ok (.bool (Ebb3.hasSub a b))
  | _, _ => .error .typeError
def op_not_in (a b : Val) : P :=
  match op_in a b with
  | .ok v => .ok (.bool (!truthy v))
  | e => e

/-- Python index normalisation: negative indices count from the end -/
def normIdx (len : Nat) (i : Int) : Option Nat :=
  if 0 ≤ i then (if i.toNat < len then some i.toNat else Option.none)
  else (if -i ≤ (len : Int) then some (len - (-i).toNat) else Option.none)

def dictGet : List (Val × Val) → Val → Option Val
  | [], _ => Option.none
  | (k, v) :: r, a => if pyEq a k then some v else dictGet r a

/-- `a[i]` -/
def op_getitem : Val → Val → P
  | .dict kv, k => match dictGet kv k with
    | some v => .ok v
    | Option.none => .error .keyError
  | a, i =>
    match intOf i with
    | Option.none => .error .typeError
    | some i =>
      match a with
      | .list l => (match normIdx l.length i with
        | some k => (match l[k]? with | some v => .ok v | Option.none => .error .indexError)
        | Option.none => .error .indexError)
      | .tuple l => (match normIdx l.length i with
        | some k => (match l[k]? with | some v => .ok v | Option.none => .error .indexError)
        | Option.none => .error .indexError)
      | .str s => (match normIdx s.length i with
        | some k => (match s[k]? with | some c => .ok (.str [c]) | Option.none => .error .indexError)
        | Option.none => .error .indexError)
      | .bytes s => (match normIdx s.length i with
        | some k => (match s[k]? with | some c => .ok (.int c.toNat) | Option.none => .error .indexError)
        | Option.none => .error .indexError)
      | _ => .error .typeError

/-- slice bound: `None` ↦ default, negative counts from the end, clipped to `[0, len]` -/
def sliceBound (len : Nat) (dflt : Nat) : Val → Option Nat
  | .none => some dflt
  | v => match intOf v with
    | some i => some (if 0 ≤ i then min i.toNat len else (len - min (-i).toNat len))
    | Option.none => Option.none

def sliceList {α : Type} (l : List α) (lo hi : Nat) : List α := (l.take hi).drop lo

/-- `a[lo:hi]` -/
def op_slice (a lo hi : Val) : P :=
  let go (len : Nat) (k : Nat → Nat → Val) : P :=
    match sliceBound len 0 lo, sliceBound len len hi with
    | some l, some h => .ok (k l h)
    | _, _ => .error .typeError
  match a with
  | .str s => go s.length (fun l h => .str (sliceList s l h))
  | .bytes s => go s.length (fun l h => .bytes (sliceList s l h))
  | .list s => go s.length (fun l h => .list (sliceList s l h))
  | .tuple s => go s.length (fun l h => .tuple (sliceList s l h))
  | _ => .error .typeError

/-! ### builtins -/

/-- `int(x)` -/
def b_int : Val → P
  | .str s => (match Ebb3.pyInt 10 s with | some z => .ok (.int z) | Option.none => .error .valueError)
  | .int z => .ok (.int z)
  | .bool b => .ok (.int (if b then 1 else 0))
  | _ => .error .typeError
/-- `int(x, base)` for `base ∈ {10, 16}` -/
def b_int_base : Val → Val → P
  | .str s, .int b =>
    if b = 10 ∨ b = 16 then
      (match Ebb3.pyInt b.toNat s with | some z => .ok (.int z) | Option.none => .error .valueError)
    else .error .valueError
  | _, _ => .error .typeError
def b_bool (v : Val) : P := .ok (.bool (truthy v))

/-- `str(x)` / f-string rendering; lists, dicts, ports … are placeholders (they only reach messages) -/
def strOf : Val → Str
  | .str s => s
  | .int n => Ebb3.showInt n
  | .bool true => "True".toList
  | .bool false => "False".toList
  | .none => "None".toList
  | .version r => ".".toList.intercalate (r.map (fun n => (toString n).toList))
  | .bytes b => ['b', '\''] ++ b ++ ['\'']
  | _ => "<object>".toList
def b_str (v : Val) : P := .ok (.str (strOf v))

def b_max2 (a b : Val) : P :=
  match ltVal a b with       -- max(a, b): b if b > a else a
  | some lt => .ok (if lt then b else a)
  | Option.none => .error .typeError
def b_min2 (a b : Val) : P :=
  match ltVal b a with       -- min(a, b): b if b < a else a
  | some lt => .ok (if lt then b else a)
  | Option.none => .error .typeError

/-- items of an iterable (`for x in …`, `list(…)`) -/
def items : Val → Option (List Val)
  | .list l => some l
  | .tuple l => some l
  | .bytes b => some (b.map (fun c => Val.int c.toNat))
  | .str s => some (s.map (fun c => Val.str [c]))
  | .dict kv => some (kv.map (·.1))
  | _ => Option.none
def b_list (v : Val) : P :=
  match items v with
  | some l => .ok (.list l)
  | Option.none => .error .typeError

def rangeList (lo : Int) : Nat → List Val
  | 0 => []
  | n + 1 => .int lo :: rangeList (lo + 1) n
/-- `range(lo, hi)` as a list -/
def b_range2 (lo hi : Val) : P :=
  match intOf lo, intOf hi with
  | some a, some b => .ok (.list (rangeList a (b - a).toNat))
  | _, _ => .error .typeError
def b_range1 (hi : Val) : P := b_range2 (.int 0) hi

/-- `packaging.version.parse(s)` (release-only model of `Ebb3.parseRelease`) -/
def b_parse_version : Val → P
  | .str s => (match Ebb3.parseRelease s with | some r => .ok (.version r) | Option.none => .error .invalidVersion)
  | _ => .error .typeError

/-- `x.to_bytes(4, byteorder='big', signed=True)` -/
def meth_to_bytes4_big_signed (v : Val) : P :=
  match intOf v with
  | some z => (match Ebb3.toBytes4 z with
    | .ok (a, b, c, d) => .ok (.bytes [Char.ofNat a.toNat, Char.ofNat b.toNat, Char.ofNat c.toNat, Char.ofNat d.toNat])
    | .error _ => .error .overflowError)
  | Option.none => .error .attributeError

def excOfEbb3 : Ebb3.PyExc → ExcClass
  | .attributeError => .attributeError | .valueError => .valueError | .indexError => .indexError
  | .typeError => .typeError | .keyError => .keyError | .overflowError => .overflowError
  | .invalidVersion => .invalidVersion | .serialException => .serialException

def toEbb3Val : Val → Ebb3.Val
  | .int z => .int z
  | .bool b => .bool b
  | .str s => .str s
  | _ => .none

/-- `int.from_bytes(xs, byteorder='big', signed=True)` for a 4-element list (`Ebb3.fromBytes4`) -/
def b_from_bytes_big_signed (v : Val) : P :=
  match items v with
  | some [a, b, c, d] =>
    (match Ebb3.fromBytes4 (toEbb3Val a) (toEbb3Val b) (toEbb3Val c) (toEbb3Val d) with
     | .ok z => .ok (.int z)
     | .error e => .error (excOfEbb3 e))
  | some _ => .error .valueError        -- other lengths: outside what the translator's users need
  | Option.none => .error .typeError

/-! ### `str` / `bytes` methods -/

def meth_strip : Val → P
  | .str s => .ok (.str (Ebb3.strip s))
  | .bytes s => .ok (.bytes (Ebb3.strip s))
  | _ => .error .attributeError
def meth_lower : Val → P
  | .str s => .ok (.str (Ebb3.lower s))
  | .bytes s => .ok (.bytes (Ebb3.lower s))
  | _ => .error .attributeError
def meth_isspace : Val → P
  | .str s => .ok (.bool (Ebb3.isSpaceStr s))
  | .bytes s => .ok (.bool (Ebb3.isSpaceStr s))
  | _ => .error .attributeError
def isAlphaC (c : Char) : Bool := (65 ≤ c.toNat && c.toNat ≤ 90) || (97 ≤ c.toNat && c.toNat ≤ 122)
def isDigitC (c : Char) : Bool := 48 ≤ c.toNat && c.toNat ≤ 57
def upperC (c : Char) : Char := if 97 ≤ c.toNat ∧ c.toNat ≤ 122 then Char.ofNat (c.toNat - 32) else c
/-- `isalpha` / `isdigit` / `upper` on ASCII text -/
def meth_isalpha : Val → P
  | .str s => .ok (.bool (!s.isEmpty && s.all isAlphaC))
  | .bytes s => .ok (.bool (!s.isEmpty && s.all isAlphaC))
  | _ => .error .attributeError
def meth_isdigit : Val → P
  | .str s => .ok (.bool (!s.isEmpty && s.all isDigitC))
  | .bytes s => .ok (.bool (!s.isEmpty && s.all isDigitC))
  | _ => .error .attributeError
def meth_upper : Val → P
  | .str s => .ok (.str (s.map upperC))
  | .bytes s => .ok (.bytes (s.map upperC))
  | _ => .error .attributeError
def meth_startswith : Val → Val → P
  | .str s, .str p => .ok (.bool (Ebb3.startsWith p s))
  | .bytes s, .bytes p => .ok (.bool (Ebb3.startsWith p s))
  | .str _, _ => .error .typeError
  | .bytes _, _ => .error .typeError
  | _, _ => .error .attributeError
def meth_encode : Val → Val → P
  | .str s, .str _ => if PyIO.isAscii s then .ok (.bytes s) else .error .unicodeEncodeError
  | .str _, _ => .error .typeError
  | _, _ => .error .attributeError
def meth_decode : Val → Val → P
  | .bytes b, .str _ => if PyIO.isAscii b then .ok (.str b) else .error .unicodeDecodeError
  | .bytes _, _ => .error .typeError
  | _, _ => .error .attributeError
/-- `x.split(d)` for a one-character literal `d` -/
def meth_split_char (d : Char) : Val → P
  | .str s => .ok (.list ((Ebb3.splitOn d s).map Val.str))
  | .bytes _ => .error .typeError
  | _ => .error .attributeError
/-- `x.split(d, 1)` for a one-character literal `d` -/
def meth_split1_char (d : Char) : Val → P
  | .str s => (match Ebb3.split1 d s with
    | (a, Option.none) => .ok (.list [.str a])
    | (a, some b) => .ok (.list [.str a, .str b]))
  | .bytes _ => .error .typeError
  | _ => .error .attributeError
/-- `x.split(p, 1)` for a literal separator `p` of several characters -/
def meth_split1_str (p : Str) : Val → P
  | .str s => (match Ebb3.splitSub1 p s with
    | Option.none => .ok (.list [.str s])
    | some (a, b) => .ok (.list [.str a, .str b]))
  | .bytes _ => .error .typeError
  | _ => .error .attributeError

/-- `xs.append(v)` on a list held in a local name (value semantics: the name is rebound) -/
def meth_append : Val → Val → P
  | .list l, v => .ok (.list (l ++ [v]))
  | _, _ => .error .attributeError

/-! ## effects -/

section
variable {ω σ : Type}

def ok (v : Val) : Eff ω := fun w => (.ok v, w)
def raise (c : ExcClass) : Eff ω := fun w => (.exc c, w)
def ofP (p : P) : Eff ω :=
  match p with
  | .ok v => ok v
  | .error c => raise c

def bind (m : Eff ω) (f : Val → Eff ω) : Eff ω := fun w =>
  match m w with
  | (.ok v, w') => f v w'
  | (.exc c, w') => (.exc c, w')
  | (.fuelOut, w') => (.fuelOut, w')

/-- pure operations applied to evaluated operands (left to right) -/
def app1 (f : Val → P) (a : Eff ω) : Eff ω := bind a fun x => ofP (f x)
def app2 (f : Val → Val → P) (a b : Eff ω) : Eff ω := bind a fun x => bind b fun y => ofP (f x y)
def app3 (f : Val → Val → Val → P) (a b c : Eff ω) : Eff ω :=
  bind a fun x => bind b fun y => bind c fun z => ofP (f x y z)
/-- effectful operations applied to evaluated operands -/
def eff1 (f : Val → Eff ω) (a : Eff ω) : Eff ω := bind a f
def eff2 (f : Val → Val → Eff ω) (a b : Eff ω) : Eff ω := bind a fun x => bind b fun y => f x y

/-- read of a local variable -/
def load (v : Val) : Eff ω :=
  match v with
  | .unbound => raise .unboundLocalError
  | v => ok v

/-- `self.attr` -/
def getattr (get : ω → Val) : Eff ω := fun w =>
  match get w.obj with
  | .unbound => (.exc .attributeError, w)
  | v => (.ok v, w)

def and_ (a b : Eff ω) : Eff ω := bind a fun x => if truthy x then b else ok x
def or_ (a b : Eff ω) : Eff ω := bind a fun x => if truthy x then ok x else b
def not_ (a : Eff ω) : Eff ω := bind a fun x => ok (.bool (!truthy x))

def evalList : List (Eff ω) → (List Val → Eff ω) → Eff ω
  | [], k => k []
  | a :: r, k => bind a fun x => evalList r fun xs => k (x :: xs)
def mkList (l : List (Eff ω)) : Eff ω := evalList l fun xs => ok (.list xs)
def mkTuple (l : List (Eff ω)) : Eff ω := evalList l fun xs => ok (.tuple xs)
/-- a dict display with literal keys -/
def mkDict (keys : List Val) (vals : List (Eff ω)) : Eff ω := evalList vals fun xs => ok (.dict (keys.zip xs))
/-- an f-string: literal parts are `str` values, the others are rendered with `strOf` -/
def fstr (parts : List (Eff ω)) : Eff ω := evalList parts fun xs => ok (.str (xs.map strOf).flatten)
/-- `logger.…(args)` / `time.sleep(t)`: arguments evaluated, nothing else happens -/
def dropCall (args : List (Eff ω)) : Eff ω := evalList args fun _ => ok .none

/-! ### the port object and the external calls -/

/-- `port.readline()` -/
def meth_readline : Val → Eff ω
  | .port => fun w =>
    let st := w.port
    match st.reads with
    | [] => (.ok (.bytes []), { w with port := { st with nread := st.nread + 1 } })
    | .line b :: r => (.ok (.bytes b), { w with port := { st with reads := r, nread := st.nread + 1 } })
    | .empty :: r => (.ok (.bytes []), { w with port := { st with reads := r, nread := st.nread + 1 } })
    | .raise c :: r => (.exc c, { w with port := { st with reads := r, nread := st.nread + 1 } })
  | _ => raise .attributeError

/-- `port.write(data)` (pyserial refuses anything but bytes) -/
def meth_write : Val → Val → Eff ω
  | .port, .bytes b => fun w =>
    let st := w.port
    match st.writes with
    | [] => (.ok (.int b.length), { w with port := { st with log := st.log ++ [b] } })
    | .ok :: ws => (.ok (.int b.length), { w with port := { st with writes := ws, log := st.log ++ [b] } })
    | .raise c :: ws => (.exc c, { w with port := { st with writes := ws, log := st.log ++ [b] } })
  | .port, _ => raise .typeError
  | _, _ => raise .attributeError

/-- `port.close()` -/
def meth_close : Val → Eff ω
  | .port => ok .none
  | _ => raise .attributeError
/-- `port.reset_input_buffer()` (a script has no buffer) -/
def meth_reset_input_buffer : Val → Eff ω
  | .port => ok .none
  | _ => raise .attributeError

/-- `comports()` -/
def ext_comports : Eff ω := fun w =>
  match w.ext.comports with
  | .ok v => (.ok v, w)
  | .error c => (.exc c, w)
/-- `find_named(name)` -/
def ext_find_named (_name : Val) : Eff ω := fun w => (.ok w.ext.findNamed, w)
/-- `serial.Serial(name, …)` -/
def ext_serial_open (_name : Val) : Eff ω := fun w =>
  if w.ext.openOk then (.ok .port, w) else (.exc .serialException, w)

/-! ### calls of other generated methods -/

def ofOut : Out ω → Res × World ω → Res × World ω
  | .val v w, _ => (.ok v, w)
  | .exc c w, _ => (.exc c, w)
  | .fuelOut, r => (.fuelOut, r.2)

def mcall0 (f : World ω → Out ω) : Eff ω := fun w => ofOut (f w) (.fuelOut, w)
def mcall1 (f : Val → World ω → Out ω) (a : Eff ω) : Eff ω := bind a fun x w => ofOut (f x w) (.fuelOut, w)
def mcall2 (f : Val → Val → World ω → Out ω) (a b : Eff ω) : Eff ω :=
  bind a fun x => bind b fun y w => ofOut (f x y w) (.fuelOut, w)
def mcall3 (f : Val → Val → Val → World ω → Out ω) (a b c : Eff ω) : Eff ω :=
  bind a fun x => bind b fun y => bind c fun z w => ofOut (f x y z w) (.fuelOut, w)

/-! ## statements -/

def pass : Stmt ω σ := fun _ env w => .norm env w
def break_ : Stmt ω σ := fun _ env w => .brk env w
def continue_ : Stmt ω σ := fun _ env w => .cont env w

def seq (a b : Stmt ω σ) : Stmt ω σ := fun fuel env w =>
  match a fuel env w with
  | .norm env' w' => b fuel env' w'
  | r => r

def block : List (Stmt ω σ) → Stmt ω σ
  | [] => pass
  | [a] => a
  | a :: r => seq a (block r)

/-- `x = e` -/
def assign (set : σ → Val → σ) (e : Expr ω σ) : Stmt ω σ := fun fuel env w =>
  match e fuel env w with
  | (.ok v, w') => .norm (set env v) w'
  | (.exc c, w') => .exc c env w'
  | (.fuelOut, _) => .fuelOut

/-- `self.attr = e` -/
def setattr (set : ω → Val → ω) (e : Expr ω σ) : Stmt ω σ := fun fuel env w =>
  match e fuel env w with
  | (.ok v, w') => .norm env { w' with obj := set w'.obj v }
  | (.exc c, w') => .exc c env w'
  | (.fuelOut, _) => .fuelOut

def expr (e : Expr ω σ) : Stmt ω σ := fun fuel env w =>
  match e fuel env w with
  | (.ok _, w') => .norm env w'
  | (.exc c, w') => .exc c env w'
  | (.fuelOut, _) => .fuelOut

def return_ (e : Expr ω σ) : Stmt ω σ := fun fuel env w =>
  match e fuel env w with
  | (.ok v, w') => .ret v w'
  | (.exc c, w') => .exc c env w'
  | (.fuelOut, _) => .fuelOut

def ifte (c : Expr ω σ) (a b : Stmt ω σ) : Stmt ω σ := fun fuel env w =>
  match c fuel env w with
  | (.ok v, w') => if truthy v then a fuel env w' else b fuel env w'
  | (.exc e, w') => .exc e env w'
  | (.fuelOut, _) => .fuelOut

/-- `while c: body` with `n` passes left -/
def whileLoop (c : Expr ω σ) (body : Stmt ω σ) (fuel : Nat) : Nat → σ → World ω → Flow ω σ
  | 0, _, _ => .fuelOut
  | n + 1, env, w =>
    match c fuel env w with
    | (.exc e, w') => .exc e env w'
    | (.fuelOut, _) => .fuelOut
    | (.ok v, w') =>
      if truthy v then
        match body fuel env w' with
        | .norm env' w'' => whileLoop c body fuel n env' w''
        | .cont env' w'' => whileLoop c body fuel n env' w''
        | .brk env' w'' => .norm env' w''
        | r => r
      else .norm env w'

def while_ (c : Expr ω σ) (body : Stmt ω σ) : Stmt ω σ := fun fuel env w => whileLoop c body fuel fuel env w

/-- the passes of `for x in items: body` -/
def forLoop (set : σ → Val → σ) (body : Stmt ω σ) (fuel : Nat) : List Val → σ → World ω → Flow ω σ
  | [], env, w => .norm env w
  | x :: xs, env, w =>
    match body fuel (set env x) w with
    | .norm env' w' => forLoop set body fuel xs env' w'
    | .cont env' w' => forLoop set body fuel xs env' w'
    | .brk env' w' => .norm env' w'
    | r => r

/-- `for x in e: body` -/
def forIn (set : σ → Val → σ) (e : Expr ω σ) (body : Stmt ω σ) : Stmt ω σ := fun fuel env w =>
  match e fuel env w with
  | (.exc c, w') => .exc c env w'
  | (.fuelOut, _) => .fuelOut
  | (.ok v, w') =>
    match items v with
    | some xs => forLoop set body fuel xs env w'
    | Option.none => .exc .typeError env w'

structure Handler (ω σ : Type) where
  classes : Option (List ExcClass)
  bind : Option (σ → Val → σ)
  body : Stmt ω σ

def Handler.matches (h : Handler ω σ) (e : ExcClass) : Bool :=
  match h.classes with
  | Option.none => true
  | some cs => catches cs e

def runHandler (h : Handler ω σ) (e : ExcClass) : Stmt ω σ := fun fuel env w =>
  match h.bind with
  | Option.none => h.body fuel env w
  | some set =>
    match h.body fuel (set env (.exc e)) w with
    | .norm env' w' => .norm (set env' .unbound) w'
    | .exc c env' w' => .exc c (set env' .unbound) w'
    | .brk env' w' => .brk (set env' .unbound) w'
    | .cont env' w' => .cont (set env' .unbound) w'
    | r => r

def dispatch (hs : List (Handler ω σ)) (e : ExcClass) : Stmt ω σ := fun fuel env w =>
  match hs with
  | [] => .exc e env w
  | h :: r => if h.matches e then runHandler h e fuel env w else dispatch r e fuel env w

/-- `try: body except …` (no `else` / `finally`) -/
def tryExcept (body : Stmt ω σ) (hs : List (Handler ω σ)) : Stmt ω σ := fun fuel env w =>
  match body fuel env w with
  | .exc e env' w' => dispatch hs e fuel env' w'
  | r => r

/-- run a method body: falling off the end returns `None`; `break`/`continue` cannot reach here (the translator
only emits them inside loops) -/
def run (body : Stmt ω σ) (fuel : Nat) (env : σ) (w : World ω) : Out ω :=
  match body fuel env w with
  | .norm _ w' => .val .none w'
  | .ret v w' => .val v w'
  | .exc c _ w' => .exc c w'
  | .brk _ w' => .val .none w'
  | .cont _ w' => .val .none w'
  | .fuelOut => .fuelOut

end

/-! ## module-level functions (the legacy layers): no object, calls of `PyIO`-layer functions, more `str` methods

Functions are translated like methods of an object without attributes (`ω = NoObj`); they call each other with
`mcall0 … mcall3` and the two functions of the `PyIO` layer (`Gen.ebb_serial_command`, `Gen.ebb_serial_query`, which
are bridged to `Model/C07.lean`) through `ioCall3`, which converts arguments and result between the two value types and
threads the same device script. -/

/-- `x is True` / `x is False` (identity with the singleton: `1 is True` is false) -/
def op_is_bool (b : Bool) : Val → P
  | .bool c => .ok (.bool (b == c))
  | _ => .ok (.bool false)
def op_is_not_bool (b : Bool) : Val → P
  | .bool c => .ok (.bool (b != c))
  | _ => .ok (.bool true)

/-- the "object" of a module-level function -/
structure NoObj where
  mk ::

mutual
def toIO : Val → PyIO.Val
  | .str s => .str s
  | .bytes b => .bytes b
  | .int n => .int n
  | .bool b => .bool b
  | .none => .none
  | .list l => .list (toIOList l)
  | .tuple l => .list (toIOList l)
  | .port => .port
  | .exc c => .exc c
  | _ => .unbound
def toIOList : List Val → List PyIO.Val
  | [] => []
  | a :: r => toIO a :: toIOList r
end

mutual
def ofIO : PyIO.Val → Val
  | .str s => .str s
  | .bytes b => .bytes b
  | .int n => .int n
  | .bool b => .bool b
  | .none => .none
  | .list l => .list (ofIOList l)
  | .port => .port
  | .exc c => .exc c
  | .unbound => .unbound
def ofIOList : List PyIO.Val → List Val
  | [] => []
  | a :: r => ofIO a :: ofIOList r
end

/-- the outcome of a `PyIO`-layer function as a result of this layer -/
def ofIOOut {ω : Type} (w : World ω) : PyIO.Out → Res × World ω
  | .val v p => (.ok (ofIO v), { w with port := p })
  | .exc c p => (.exc c, { w with port := p })
  | .fuelOut => (.fuelOut, w)

/-- call of a three-argument function of the `PyIO` layer (`ebb_serial.command/query(port, text, verbose)`) -/
def ioCall3 {ω : Type} (f : PyIO.Val → PyIO.Val → PyIO.Val → PyIO.Port → PyIO.Out) (a b c : Eff ω) : Eff ω :=
  bind a fun x => bind b fun y => bind c fun z => fun w => ofIOOut w (f (toIO x) (toIO y) (toIO z) w.port)

/-- one piece of a `str.format` template -/
inductive FmtPart where
  | lit (s : Str)
  | arg (i : Nat)

def renderFmt : List FmtPart → List Val → Option Str
  | [], _ => some []
  | .lit s :: r, xs => (renderFmt r xs).map (s ++ ·)
  | .arg i :: r, xs =>
    match xs[i]? with
    | some v => (renderFmt r xs).map (strOf v ++ ·)
    | Option.none => Option.none

/-- `'…{0}…{1}…'.format(a, b, …)` with positional fields (arguments evaluated once, left to right) -/
def format_ {ω : Type} (tpl : List FmtPart) (args : List (Eff ω)) : Eff ω :=
  evalList args fun xs =>
    match renderFmt tpl xs with
    | some s => ok (.str s)
    | Option.none => raise .indexError

/-- `s.split(p)` for a literal separator of several characters: all occurrences, left to right
(third argument: characters of a matched separator still to be skipped) -/
def splitSubGo (p : Str) : Str → Str → Nat → List Str
  | [], acc, _ => [acc.reverse]
  | _ :: cs, acc, k + 1 => splitSubGo p cs acc k
  | c :: cs, acc, 0 =>
    if p.isPrefixOf (c :: cs) then acc.reverse :: splitSubGo p cs [] (p.length - 1)
    else splitSubGo p cs (c :: acc) 0
def meth_split_str (p : Str) : Val → P
  | .str s => .ok (.list ((splitSubGo p s [] 0).map Val.str))
  | .bytes _ => .error .typeError
  | _ => .error .attributeError

/-- `s.find(n)` (`-1` when absent; `C19.findIdx`) -/
def meth_find : Val → Val → P
  | .str s, .str n => .ok (.int (match C19.findIdx n s with | some i => (i : Int) | Option.none => -1))
  | .str _, _ => .error .typeError
  | _, _ => .error .attributeError
/-- `s.find(n, start)` for `0 ≤ start` (`C19.findFrom`; beyond the end: `-1`) -/
def meth_find_from : Val → Val → Val → P
  | .str s, .str n, st =>
    (match intOf st with
     | some i =>
       let k : Nat := if 0 ≤ i then i.toNat else (s.length - (-i).toNat)
       if k ≤ s.length then
         .ok (.int (match C19.findFrom n s k with | some j => (j : Int) | Option.none => -1))
       else .ok (.int (-1))
     | Option.none => .error .typeError)
  | .str _, _, _ => .error .typeError
  | _, _, _ => .error .attributeError
/-- `s.replace(a, b)` for a non-empty `a` (for the empty pattern the text is returned unchanged: the translated
code only ever discards the result) -/
def meth_replace : Val → Val → Val → P
  | .str s, .str a, .str b =>
    if a.isEmpty then .ok (.str s) else .ok (.str (b.intercalate (splitSubGo a s [] 0)))
  | .str _, _, _ => .error .typeError
  | _, _, _ => .error .attributeError

end PyObj
end Plotink
