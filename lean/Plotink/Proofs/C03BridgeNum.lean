import Plotink.Proofs.Contract
import Plotink.Proofs.C03Roots
import Mathlib.Data.Rat.Floor
import Mathlib.Algebra.Order.Floor.Ring
import Mathlib.Tactic.FieldSimp
/-! # C03 numeric bridge — rounding lemmas (no generated code here)

* `ceilRat_eq_iff`, `divCeil`: `ceil(mp(mp(y)/a)) = m` as soon as the *exact* quotient `y/a` lies in
  `[m − 1 + 2^-52, m]` (only exactness and monotonicity of `mp` are used);
* the computed square root brackets correctly against half-integers, with a margin `a·2^-52` whenever the
  integer gap is at least `4a` (from `sqrt_sq`, `sqrt_exact`);
* hence the ceiled computed roots are the integer-square-root expressions of the model. -/
namespace Plotink
namespace C03
open Py

theorem ceilRat_eq_iff (q : Rat) (m : Int) : Py.ceilRat q = m ↔ ((m : Rat) - 1 < q ∧ q ≤ m) := by
  unfold Py.ceilRat
  constructor
  · intro h
    have h1 : (-q).floor = -m := by omega
    have a := Rat.floor_le (-q)
    have b := Rat.lt_floor_add_one (-q)
    rw [h1] at a b
    push_cast at a b
    constructor <;> linarith
  · rintro ⟨h1, h2⟩
    have : (-q).floor = -m := by
      apply le_antisymm
      · have : (-q).floor < -m + 1 := by
          rw [Rat.floor_lt_iff]; push_cast; linarith
        omega
      · rw [Rat.le_floor_iff]; push_cast; linarith
    omega

theorem ceilRat_int (m : Int) : Py.ceilRat (m : Rat) = m := by
  rw [ceilRat_eq_iff]; constructor <;> linarith

/-- `ceil(mp(mp(y)/a)) = m` when the exact quotient is in `[m − 1 + 2^-52, m]` -/
theorem divCeil {R : Rounding} (hR : ContractBasic R) (a m : Int) (y : Rat) (ha0 : a ≠ 0)
    (ha : |a| ≤ 2 ^ 33) (hm : |m| ≤ 2 ^ 50) (ham : |a * (m - 1)| ≤ 2 ^ 50)
    (h1 : (m : Rat) - 1 + 1 / 2 ^ 52 ≤ y / a) (h2 : y / a ≤ m) :
    Py.ceilRat (R.mp 103 (R.mp 103 y / (a : Rat))) = m := by
  have hmono := hR.mp_mono 103 (by norm_num)
  -- the two representable bounds of the numerator and of the quotient
  have repA : Rep 103 ((a : Rat) * ((m : Rat) - 1 + 1 / 2 ^ 52)) := by
    have e : (a : Rat) * ((m : Rat) - 1 + 1 / 2 ^ 52) = ((a * (m - 1) * 2 ^ 52 + a : Int) : Rat) / 2 ^ 52 := by
      push_cast; field_simp; try norm_num
    rw [e]; apply rep_div_pow2
    have : |a * (m - 1) * 2 ^ 52| ≤ 2 ^ 50 * 2 ^ 52 := by
      rw [abs_mul]; exact mul_le_mul ham (by norm_num) (abs_nonneg _) (by norm_num)
    have := abs_add_le (a * (m - 1) * 2 ^ 52) a
    have : (2 : Int) ^ 50 * 2 ^ 52 + 2 ^ 33 < 2 ^ 103 := by norm_num
    linarith
  have repB : Rep 103 ((a : Rat) * (m : Rat)) := by
    have e : (a : Rat) * (m : Rat) = ((a * m : Int) : Rat) := by push_cast; ring
    rw [e]; apply rep_int
    have e2 : a * m = a * (m - 1) + a := by ring
    rw [e2]
    have := abs_add_le (a * (m - 1)) a
    have : (2 : Int) ^ 50 + 2 ^ 33 < 2 ^ 103 := by norm_num
    linarith
  have repW : Rep 103 ((m : Rat) - 1 + 1 / 2 ^ 52) := by
    have e : (m : Rat) - 1 + 1 / 2 ^ 52 = (((m - 1) * 2 ^ 52 + 1 : Int) : Rat) / 2 ^ 52 := by
      push_cast; field_simp; try norm_num
    rw [e]; apply rep_div_pow2
    have : |(m - 1) * 2 ^ 52| ≤ (2 ^ 50 + 1) * 2 ^ 52 := by
      rw [abs_mul]
      have : |m - 1| ≤ 2 ^ 50 + 1 := by
        have := abs_sub m 1; simp at this; linarith
      exact mul_le_mul this (by norm_num) (abs_nonneg _) (by norm_num)
    have := abs_add_le ((m - 1) * 2 ^ 52) 1
    have : ((2 : Int) ^ 50 + 1) * 2 ^ 52 + |1| < 2 ^ 103 := by norm_num
    linarith
  have repM : Rep 103 (m : Rat) := rep_int 103 m (lt_of_le_of_lt hm (by norm_num))
  have eA := hR.mp_exact 103 _ repA
  have eB := hR.mp_exact 103 _ repB
  have eW := hR.mp_exact 103 _ repW
  have eM := hR.mp_exact 103 _ repM
  rw [ceilRat_eq_iff]
  have hwpos : (m : Rat) - 1 < (m : Rat) - 1 + 1 / 2 ^ 52 := by
    have : (0 : Rat) < 1 / 2 ^ 52 := by positivity
    linarith
  rcases lt_or_gt_of_ne ha0 with han | hap
  · -- a < 0
    have haq : (a : Rat) < 0 := by exact_mod_cast han
    have hy1 : y ≤ (a : Rat) * ((m : Rat) - 1 + 1 / 2 ^ 52) := by
      have := (le_div_iff_of_neg haq).mp h1; linarith
    have hy2 : (a : Rat) * (m : Rat) ≤ y := by
      have := (div_le_iff_of_neg haq).mp h2; linarith
    have g1 := hmono _ _ hy1
    have g2 := hmono _ _ hy2
    rw [eA] at g1; rw [eB] at g2
    have q1 : (m : Rat) - 1 + 1 / 2 ^ 52 ≤ R.mp 103 y / a := by
      rw [le_div_iff_of_neg haq]; linarith
    have q2 : R.mp 103 y / a ≤ m := by
      rw [div_le_iff_of_neg haq]; linarith
    have r1 := hmono _ _ q1
    have r2 := hmono _ _ q2
    rw [eW] at r1; rw [eM] at r2
    exact ⟨lt_of_lt_of_le hwpos r1, r2⟩
  · have haq : (0 : Rat) < (a : Rat) := by exact_mod_cast hap
    have hy1 : (a : Rat) * ((m : Rat) - 1 + 1 / 2 ^ 52) ≤ y := by
      have := (le_div_iff₀ haq).mp h1; linarith
    have hy2 : y ≤ (a : Rat) * (m : Rat) := by
      have := (div_le_iff₀ haq).mp h2; linarith
    have g1 := hmono _ _ hy1
    have g2 := hmono _ _ hy2
    rw [eA] at g1; rw [eB] at g2
    have q1 : (m : Rat) - 1 + 1 / 2 ^ 52 ≤ R.mp 103 y / a := by
      rw [le_div_iff₀ haq]; linarith
    have q2 : R.mp 103 y / a ≤ m := by
      rw [div_le_iff₀ haq]; linarith
    have r1 := hmono _ _ q1
    have r2 := hmono _ _ q2
    rw [eW] at r1; rw [eM] at r2
    exact ⟨lt_of_lt_of_le hwpos r1, r2⟩

/-- one `mp` division of integers followed by `ceil` is the exact ceiling division (divisor up to `2^33`,
dividend up to `2^64`): a non-integer quotient is at least `1/r` away from the integer below it -/
theorem divCeilLin {R : Rounding} (hR : ContractBasic R) (x r : Int) (hr0 : 0 < r) (hr : r ≤ 2 ^ 33)
    (hx : |x| ≤ 2 ^ 64) : Py.ceilRat (R.mp 103 ((x : Rat) / (r : Rat))) = cdiv x r := by
  have hmono := hR.mp_mono 103 (by norm_num)
  set m := cdiv x r with hm
  have u := (cdiv_le_iff x r m hr0).mp (le_refl _)
  have l := (lt_cdiv_iff x r (m - 1) hr0).mp (by omega)
  rw [abs_le] at hx
  have hmb : |m| ≤ 2 ^ 64 + 1 := by
    rw [abs_le]; constructor <;> nlinarith
  have hrq : (0 : Rat) < (r : Rat) := by exact_mod_cast hr0
  have hrqb : (r : Rat) ≤ 2 ^ 33 := by exact_mod_cast hr
  have q2 : (x : Rat) / r ≤ m := by
    rw [div_le_iff₀ hrq]; exact_mod_cast (by linarith : x ≤ m * r)
  have q1 : (m : Rat) - 1 + 1 / 2 ^ 33 ≤ (x : Rat) / r := by
    rw [le_div_iff₀ hrq]
    have h1 : ((r * (m - 1) + 1 : Int) : Rat) ≤ (x : Rat) := by exact_mod_cast (by omega : r * (m - 1) + 1 ≤ x)
    push_cast at h1
    have : (1 : Rat) / 2 ^ 33 * r ≤ 1 := by
      rw [div_mul_eq_mul_div, div_le_iff₀ (by positivity)]; linarith
    nlinarith
  have repW : Rep 103 ((m : Rat) - 1 + 1 / 2 ^ 33) := by
    have e : (m : Rat) - 1 + 1 / 2 ^ 33 = (((m - 1) * 2 ^ 33 + 1 : Int) : Rat) / 2 ^ 33 := by
      push_cast; field_simp; try norm_num
    rw [e]; apply rep_div_pow2
    have : |(m - 1) * 2 ^ 33| ≤ (2 ^ 64 + 2) * 2 ^ 33 := by
      rw [abs_mul]
      have : |m - 1| ≤ 2 ^ 64 + 2 := by
        have := abs_sub m 1; simp at this; linarith
      exact mul_le_mul this (by norm_num) (abs_nonneg _) (by norm_num)
    have := abs_add_le ((m - 1) * 2 ^ 33) 1
    have : ((2 : Int) ^ 64 + 2) * 2 ^ 33 + |1| < 2 ^ 103 := by norm_num
    linarith
  have repM : Rep 103 (m : Rat) := rep_int 103 m (lt_of_le_of_lt hmb (by norm_num))
  have r1 := hmono _ _ q1
  have r2 := hmono _ _ q2
  rw [hR.mp_exact 103 _ repW] at r1
  rw [hR.mp_exact 103 _ repM] at r2
  rw [ceilRat_eq_iff]
  have : (0 : Rat) < 1 / 2 ^ 33 := by positivity
  exact ⟨by linarith, r2⟩

/-- the binary64 computation `floor(0.5 − rate/accel)` for `rate/accel = −p/q` (`1 ≤ p, q ≤ 2^32`) is the exact
floor `(q + 2p) / (2q)`: a non-integer value of `(q + 2p)/(2q)` is at least `1/(2q)` away from the integers,
far more than the two rounding errors -/
theorem trev_num {R : Rounding} (hR : ContractBasic R) (p q : Int) (hp : 1 ≤ p) (hpb : p ≤ 2 ^ 32)
    (hq : 1 ≤ q) (hqb : q ≤ 2 ^ 32) :
    (R.f64 ((1 : Rat) / 2 - R.f64 (-(p : Rat) / (q : Rat)))).floor = (q + 2 * p) / (2 * q) := by
  have h2q : (0 : Int) < 2 * q := by omega
  set τ := (q + 2 * p) / (2 * q) with hτ
  set r := (q + 2 * p) % (2 * q) with hr
  have hdm : 2 * q * τ + r = q + 2 * p := Int.mul_ediv_add_emod (q + 2 * p) (2 * q)
  have hr0 : 0 ≤ r := Int.emod_nonneg _ (by omega)
  have hr1 : r < 2 * q := Int.emod_lt_of_pos _ h2q
  have hτ0 : 0 ≤ τ := Int.ediv_nonneg (by omega) (by omega)
  have hτb : 2 * q * τ ≤ q + 2 * p := by omega
  have hτ33 : τ ≤ 2 ^ 33 := by nlinarith
  have hqq : (0 : Rat) < (q : Rat) := by exact_mod_cast (by omega : (0 : Int) < q)
  have hqq1 : (1 : Rat) ≤ (q : Rat) := by exact_mod_cast hq
  have hpq : (0 : Rat) < (p : Rat) := by exact_mod_cast (by omega : (0 : Int) < p)
  have hpbq : (p : Rat) ≤ 2 ^ 32 := by exact_mod_cast hpb
  have hqbq : (q : Rat) ≤ 2 ^ 32 := by exact_mod_cast hqb
  have hτq0 : (0 : Rat) ≤ (τ : Rat) := by exact_mod_cast hτ0
  have hdmq : 2 * (q : Rat) * τ + r = q + 2 * p := by exact_mod_cast hdm
  -- the exact value
  have hy : (1 : Rat) / 2 - (-(p : Rat) / q) = τ + (r : Rat) / (2 * q) := by
    field_simp
    linarith
  have repτ : Rep 53 (τ : Rat) := rep_int 53 τ (by rw [abs_of_nonneg hτ0]; exact lt_of_le_of_lt hτ33 (by norm_num))
  rcases eq_or_lt_of_le hr0 with hz | hpos
  · -- (q + 2p) divisible by 2q: rate/accel is a half-integer, everything is exact
    have hr' : (r : Rat) = 0 := by exact_mod_cast hz.symm
    have hx : -(p : Rat) / q = ((-(2 * τ - 1) : Int) : Rat) / 2 := by
      rw [hr'] at hdmq
      field_simp
      push_cast
      linarith
    have repx : Rep 53 (-(p : Rat) / q) := by
      rw [hx]; apply rep_half
      rw [abs_neg, abs_lt]; constructor <;> omega
    rw [hR.f64_exact _ repx, hy, hr']
    simp only [zero_div, add_zero]
    rw [hR.f64_exact _ repτ]
    exact Rat.floor_intCast τ
  · have hr1' : (1 : Rat) ≤ (r : Rat) := by exact_mod_cast (by omega : (1 : Int) ≤ r)
    have hr2' : (r : Rat) ≤ 2 * q - 1 := by exact_mod_cast (by omega : r ≤ 2 * q - 1)
    set x := -(p : Rat) / q with hx
    have hxabs : |x| = (p : Rat) / q := by
      rw [hx, neg_div, abs_neg, abs_of_pos (by positivity)]
    have herr := hR.f64_err x
    rw [hxabs, abs_le] at herr
    set z := (1 : Rat) / 2 - R.f64 x with hz
    have hδ : (p : Rat) / q / 2 ^ 53 ≤ 1 / (2 * q) / 2 ^ 20 := by
      rw [div_div, div_div, div_le_div_iff₀ (by positivity) (by positivity)]
      nlinarith
    have hfrac1 : (1 : Rat) / (2 * q) ≤ (r : Rat) / (2 * q) := by
      apply div_le_div_of_nonneg_right hr1' (by positivity)
    have hfrac2 : (r : Rat) / (2 * q) ≤ 1 - 1 / (2 * q) := by
      rw [div_le_iff₀ (by positivity)]
      field_simp
      linarith
    have hinv : (0 : Rat) < 1 / (2 * q) := by positivity
    have hinvb : (1 : Rat) / (2 * q) / 2 ^ 20 ≤ 1 / (2 * q) / 2 := by
      apply div_le_div_of_nonneg_left (le_of_lt hinv) (by norm_num) (by norm_num)
    have hzlo : (τ : Rat) ≤ z := by
      have : z = τ + (r : Rat) / (2 * q) - (R.f64 x - x) := by rw [hz, ← hy]; ring
      rw [this]; linarith
    have hzhi : z ≤ τ + 1 - 1 / (2 * q) + 1 / (2 * q) / 2 ^ 20 := by
      have : z = τ + (r : Rat) / (2 * q) - (R.f64 x - x) := by rw [hz, ← hy]; ring
      rw [this]; linarith
    have hlo : (τ : Rat) ≤ R.f64 z := by
      have := hR.f64_mono _ _ hzlo
      rwa [hR.f64_exact _ repτ] at this
    have hhi : R.f64 z < τ + 1 := by
      have herr2 := hR.f64_err z
      have hz0 : 0 ≤ z := le_trans hτq0 hzlo
      rw [abs_of_nonneg hz0, abs_le] at herr2
      have hzb : z ≤ τ + 1 := by linarith
      -- (τ + 1)/2^53 < 1/(2q)·(1 − 2^-20)
      have hτ1 : ((τ : Rat) + 1) / 2 ^ 53 ≤ 1 / (2 * q) / 4 := by
        rw [div_div, div_le_div_iff₀ (by positivity) (by positivity)]
        have : 2 * (q : Rat) * τ ≤ q + 2 * p := by linarith
        nlinarith
      have : z / 2 ^ 53 ≤ ((τ : Rat) + 1) / 2 ^ 53 := by
        apply div_le_div_of_nonneg_right hzb (by positivity)
      have h4 : (1 : Rat) / (2 * q) / 2 ^ 20 ≤ 1 / (2 * q) / 4 := by
        apply div_le_div_of_nonneg_left (le_of_lt hinv) (by norm_num) (by norm_num)
      have h5 : (1 : Rat) / (2 * q) / 4 + 1 / (2 * q) / 4 < 1 / (2 * q) := by
        have : (1 : Rat) / (2 * q) / 4 = 1 / (2 * q) * (1 / 4) := by ring
        rw [this]; nlinarith
      linarith [herr2.2]
    apply le_antisymm
    · have : (R.f64 z).floor < τ + 1 := by rw [Rat.floor_lt_iff]; push_cast; exact hhi
      omega
    · rw [Rat.le_floor_iff]; exact hlo

/-! ## the computed square root against half-integers -/

section sqrt
variable {R : Rounding} (hS : ContractSqrt R)
include hS

/-- the absolute error of the squared computed root is below `1/4` for arguments below `2^98` -/
theorem sqrt_sq_quarter (D4 : Int) (h0 : 0 ≤ D4) (hb : D4 < 2 ^ 100) :
    0 ≤ R.mpSqrt 103 ((D4 : Rat) / 4) ∧
      |(R.mpSqrt 103 ((D4 : Rat) / 4)) ^ 2 - (D4 : Rat) / 4| ≤ 1 / 4 := by
  have hD : (0 : Rat) ≤ (D4 : Rat) / 4 := by
    have : (0 : Rat) ≤ (D4 : Rat) := by exact_mod_cast h0
    positivity
  obtain ⟨h1, h2⟩ := hS.sqrt_sq 103 _ hD
  refine ⟨h1, le_trans h2 ?_⟩
  have : (D4 : Rat) < 2 ^ 100 := by exact_mod_cast hb
  rw [div_le_iff₀ (by positivity)]
  norm_num
  linarith

/-- `D4 ≤ w²  ⇒  sqrt(D4/4) ≤ w/2` (computed root, `w ≥ 0` an integer) -/
theorem sqrt_le_half (D4 w : Int) (h0 : 0 ≤ D4) (hb : D4 < 2 ^ 100) (hw : 0 ≤ w) (hwb : w < 2 ^ 103)
    (h : D4 ≤ w * w) : R.mpSqrt 103 ((D4 : Rat) / 4) ≤ (w : Rat) / 2 := by
  have hwq : (0 : Rat) ≤ (w : Rat) := by exact_mod_cast hw
  rcases eq_or_lt_of_le h with he | hlt
  · have e : (D4 : Rat) / 4 = ((w : Rat) / 2) * ((w : Rat) / 2) := by
      rw [he]; push_cast; ring
    rw [e, hS.sqrt_exact 103 _ (by positivity) (rep_half 103 w (by rw [abs_of_nonneg hw]; exact hwb))]
  · obtain ⟨s0, s1⟩ := sqrt_sq_quarter hS D4 h0 hb
    have hgap : (D4 : Rat) + 1 ≤ (w : Rat) * w := by exact_mod_cast hlt
    rw [abs_le] at s1
    by_contra hc
    push Not at hc
    nlinarith

/-- `w² ≤ D4  ⇒  w/2 ≤ sqrt(D4/4)` -/
theorem half_le_sqrt (D4 w : Int) (h0 : 0 ≤ D4) (hb : D4 < 2 ^ 100) (hw : 0 ≤ w) (hwb : w < 2 ^ 103)
    (h : w * w ≤ D4) : (w : Rat) / 2 ≤ R.mpSqrt 103 ((D4 : Rat) / 4) := by
  have hwq : (0 : Rat) ≤ (w : Rat) := by exact_mod_cast hw
  rcases eq_or_lt_of_le h with he | hlt
  · have e : (D4 : Rat) / 4 = ((w : Rat) / 2) * ((w : Rat) / 2) := by
      rw [← he]; push_cast; ring
    rw [e, hS.sqrt_exact 103 _ (by positivity) (rep_half 103 w (by rw [abs_of_nonneg hw]; exact hwb))]
  · obtain ⟨s0, s1⟩ := sqrt_sq_quarter hS D4 h0 hb
    have hgap : (w : Rat) * w + 1 ≤ (D4 : Rat) := by exact_mod_cast hlt
    rw [abs_le] at s1
    by_contra hc
    push Not at hc
    nlinarith

/-- with an integer gap of `4a` below: `v² + 4a ≤ D4  ⇒  v/2 + a·2^-52 ≤ sqrt(D4/4)` -/
theorem margin_le_sqrt (D4 v a : Int) (h0 : 0 ≤ D4) (hb : D4 < 2 ^ 100) (hv : 0 ≤ v) (ha1 : 1 ≤ a)
    (ha : a ≤ 2 ^ 33) (h : v * v + 4 * a ≤ D4) :
    (v : Rat) / 2 + (a : Rat) / 2 ^ 52 ≤ R.mpSqrt 103 ((D4 : Rat) / 4) := by
  obtain ⟨s0, s1⟩ := sqrt_sq_quarter hS D4 h0 hb
  rw [abs_le] at s1
  have hvb : v < 2 ^ 50 := by
    by_contra hc; push Not at hc
    nlinarith
  have hvq : (0 : Rat) ≤ (v : Rat) := by exact_mod_cast hv
  have hvbq : (v : Rat) < 2 ^ 50 := by exact_mod_cast hvb
  have haq1 : (1 : Rat) ≤ (a : Rat) := by exact_mod_cast ha1
  have haq : (a : Rat) ≤ 2 ^ 33 := by exact_mod_cast ha
  have hgap : (v : Rat) * v + 4 * a ≤ (D4 : Rat) := by exact_mod_cast h
  by_contra hc
  push Not at hc
  -- sq < u, so sq² < u²; u² = v²/4 + v·a/2^52 + a²/2^104 ≤ v²/4 + a/2
  set sq := R.mpSqrt 103 ((D4 : Rat) / 4) with hsq
  have hu : (0 : Rat) ≤ (v : Rat) / 2 + (a : Rat) / 2 ^ 52 := by positivity
  have h1 : sq ^ 2 < ((v : Rat) / 2 + (a : Rat) / 2 ^ 52) ^ 2 := by nlinarith
  have h2 : (v : Rat) * a / 2 ^ 52 ≤ a / 4 := by
    rw [div_le_div_iff₀ (by positivity) (by positivity)]
    nlinarith
  have h3 : (a : Rat) * a / 2 ^ 104 ≤ a / 4 := by
    rw [div_le_div_iff₀ (by positivity) (by positivity)]
    nlinarith
  have h4 : ((v : Rat) / 2 + (a : Rat) / 2 ^ 52) ^ 2 = (v : Rat) * v / 4 + (v : Rat) * a / 2 ^ 52 + (a : Rat) * a / 2 ^ 104 := by
    ring
  nlinarith

/-- with an integer gap of `4a` above: `D4 + 4a ≤ w²  ⇒  sqrt(D4/4) ≤ w/2 − a·2^-52` -/
theorem sqrt_le_margin (D4 w a : Int) (h0 : 0 ≤ D4) (hb : D4 < 2 ^ 100) (hw : 1 ≤ w) (hwb : w ≤ 2 ^ 51)
    (ha1 : 1 ≤ a) (ha : a ≤ 2 ^ 33) (h : D4 + 4 * a ≤ w * w) :
    R.mpSqrt 103 ((D4 : Rat) / 4) ≤ (w : Rat) / 2 - (a : Rat) / 2 ^ 52 := by
  obtain ⟨s0, s1⟩ := sqrt_sq_quarter hS D4 h0 hb
  rw [abs_le] at s1
  have hwq : (1 : Rat) ≤ (w : Rat) := by exact_mod_cast hw
  have hwbq : (w : Rat) ≤ 2 ^ 51 := by exact_mod_cast hwb
  have haq1 : (1 : Rat) ≤ (a : Rat) := by exact_mod_cast ha1
  have haq : (a : Rat) ≤ 2 ^ 33 := by exact_mod_cast ha
  have hgap : (D4 : Rat) + 4 * a ≤ (w : Rat) * w := by exact_mod_cast h
  set sq := R.mpSqrt 103 ((D4 : Rat) / 4) with hsq
  have hsmall : (a : Rat) / 2 ^ 52 ≤ 1 / 4 := by
    rw [div_le_div_iff₀ (by positivity) (by positivity)]; nlinarith
  have hu : (0 : Rat) ≤ (w : Rat) / 2 - (a : Rat) / 2 ^ 52 := by linarith
  by_contra hc
  push Not at hc
  have h1 : ((w : Rat) / 2 - (a : Rat) / 2 ^ 52) ^ 2 < sq ^ 2 := by nlinarith
  have h2 : (w : Rat) * a / 2 ^ 52 ≤ a / 2 := by
    rw [div_le_div_iff₀ (by positivity) (by positivity)]
    nlinarith
  have h4 : ((w : Rat) / 2 - (a : Rat) / 2 ^ 52) ^ 2 = (w : Rat) * w / 4 - (w : Rat) * a / 2 ^ 52 + (a : Rat) * a / 2 ^ 104 := by
    ring
  have h5 : (0 : Rat) ≤ (a : Rat) * a / 2 ^ 104 := by positivity
  nlinarith

/-! ## the exact quotients of the two roots (a > 0) lie in `[m − 1 + 2^-52, m]` -/

omit hS in
theorem csqrt_bounds (D4 : Int) (h0 : 0 ≤ D4) (hb : D4 < 2 ^ 100) : 0 ≤ csqrt D4 ∧ csqrt D4 ≤ 2 ^ 50 := by
  constructor
  · have := (csqrt_spec D4 h0 (csqrt D4)).mp (le_refl _); exact this.1
  · rw [csqrt_spec D4 h0]; constructor <;> norm_num; linarith

omit hS in
theorem fsqrt_bounds' (D4 : Int) (h0 : 0 ≤ D4) (hb : D4 < 2 ^ 100) : 0 ≤ fsqrt D4 ∧ fsqrt D4 ≤ 2 ^ 50 := by
  constructor
  · rw [fsqrt_spec D4 h0]; left; exact le_refl _
  · by_contra hc
    have h1 : (2 : Int) ^ 50 + 1 ≤ fsqrt D4 := by omega
    rcases (fsqrt_spec D4 h0 _).mp h1 with h | h
    · norm_num at h
    · norm_num at h; linarith

omit hS in
theorem big_bounds (a K c : Int) (ha1 : 1 ≤ a) (ha : a ≤ 2 ^ 33) (hK : |K| ≤ 2 ^ 35)
    (hD0 : 0 ≤ K * K - 8 * a * c) (hDb : K * K - 8 * a * c < 2 ^ 100) :
    |cdiv (csqrt (K * K - 8 * a * c) - K) (2 * a)| ≤ 2 ^ 50 ∧
      |a * (cdiv (csqrt (K * K - 8 * a * c) - K) (2 * a) - 1)| ≤ 2 ^ 50 := by
  obtain ⟨c0, c1⟩ := csqrt_bounds _ hD0 hDb
  set m := cdiv (csqrt (K * K - 8 * a * c) - K) (2 * a) with hm
  have h2a : (0 : Int) < 2 * a := by omega
  have u := (cdiv_le_iff _ (2 * a) m h2a).mp (le_refl _)
  have l := (lt_cdiv_iff (csqrt (K * K - 8 * a * c) - K) (2 * a) (m - 1) h2a).mp (by omega)
  rw [abs_le] at hK
  have e : 2 * a * (m - 1) = 2 * (a * (m - 1)) := by ring
  have e' : 2 * a * m = 2 * (a * (m - 1)) + 2 * a := by ring
  rw [e] at l; rw [e'] at u
  have hx : -(2 ^ 49) ≤ a * (m - 1) ∧ a * (m - 1) ≤ 2 ^ 50 - 2 ^ 34 := by constructor <;> omega
  constructor
  · rw [abs_le]; constructor <;> nlinarith
  · rw [abs_le]; constructor <;> omega

omit hS in
theorem small_bounds (a K c : Int) (ha1 : 1 ≤ a) (ha : a ≤ 2 ^ 33) (hK : |K| ≤ 2 ^ 35)
    (hD0 : 0 ≤ K * K - 8 * a * c) (hDb : K * K - 8 * a * c < 2 ^ 100) :
    |cdiv (-fsqrt (K * K - 8 * a * c) - K) (2 * a)| ≤ 2 ^ 50 ∧
      |a * (cdiv (-fsqrt (K * K - 8 * a * c) - K) (2 * a) - 1)| ≤ 2 ^ 50 := by
  obtain ⟨c0, c1⟩ := fsqrt_bounds' _ hD0 hDb
  set m := cdiv (-fsqrt (K * K - 8 * a * c) - K) (2 * a) with hm
  have h2a : (0 : Int) < 2 * a := by omega
  have u := (cdiv_le_iff _ (2 * a) m h2a).mp (le_refl _)
  have l := (lt_cdiv_iff (-fsqrt (K * K - 8 * a * c) - K) (2 * a) (m - 1) h2a).mp (by omega)
  rw [abs_le] at hK
  have e : 2 * a * (m - 1) = 2 * (a * (m - 1)) := by ring
  have e' : 2 * a * m = 2 * (a * (m - 1)) + 2 * a := by ring
  rw [e] at l; rw [e'] at u
  have hx : -(2 ^ 50 - 2 ^ 34) ≤ a * (m - 1) ∧ a * (m - 1) ≤ 2 ^ 49 := by constructor <;> omega
  constructor
  · rw [abs_le]; constructor <;> nlinarith
  · rw [abs_le]; constructor <;> omega

/-- larger root: the exact quotient `(−K/2 + sqrt(D4/4)) / a` is in `[m − 1 + 2^-52, m]` -/
theorem big_sandwich (a K c : Int) (ha1 : 1 ≤ a) (ha : a ≤ 2 ^ 33) (hK : |K| ≤ 2 ^ 35)
    (hD0 : 0 ≤ K * K - 8 * a * c) (hDb : K * K - 8 * a * c < 2 ^ 100) :
    ((cdiv (csqrt (K * K - 8 * a * c) - K) (2 * a) : Int) : Rat) - 1 + 1 / 2 ^ 52
        ≤ (-((K : Rat) / 2) + R.mpSqrt 103 (((K * K - 8 * a * c : Int) : Rat) / 4)) / (a : Rat) ∧
      (-((K : Rat) / 2) + R.mpSqrt 103 (((K * K - 8 * a * c : Int) : Rat) / 4)) / (a : Rat)
        ≤ ((cdiv (csqrt (K * K - 8 * a * c) - K) (2 * a) : Int) : Rat) := by
  have hap : 0 < a := by omega
  have haq : (0 : Rat) < (a : Rat) := by exact_mod_cast hap
  have haq1 : (1 : Rat) ≤ (a : Rat) := by exact_mod_cast ha1
  have haqb : (a : Rat) ≤ 2 ^ 33 := by exact_mod_cast ha
  set D4 := K * K - 8 * a * c with hD4
  set m := cdiv (csqrt D4 - K) (2 * a) with hm
  set sq := R.mpSqrt 103 ((D4 : Rat) / 4) with hsq
  obtain ⟨s0, _⟩ := sqrt_sq_quarter hS D4 hD0 hDb
  obtain ⟨bm, bam⟩ := big_bounds a K c ha1 ha hK hD0 hDb
  rw [← hD4, ← hm] at bm bam
  rw [abs_le] at hK bm bam
  have spec := big_root_spec a K c hap hD0
  rw [← hD4] at spec
  constructor
  · -- lower
    have hn : ¬ (m ≤ m - 1) := by omega
    rw [← hm] at spec
    rw [spec] at hn
    have key : ((2 * a * (m - 1) + K : Int) : Rat) / 2 + (a : Rat) / 2 ^ 52 ≤ sq := by
      by_cases hv : 0 ≤ 2 * a * (m - 1) + K
      · have hq : a * (m - 1) * (m - 1) + K * (m - 1) + 2 * c < 0 := by
          by_contra hc; exact hn ⟨hv, by omega⟩
        have id := disc_identity a K c (m - 1)
        rw [← hD4] at id
        have : (2 * a * (m - 1) + K) * (2 * a * (m - 1) + K) + 4 * a ≤ D4 := by nlinarith
        exact margin_le_sqrt hS D4 _ a hD0 hDb hv ha1 ha this
      · have hv' : 2 * a * (m - 1) + K ≤ -1 := by omega
        have hvq : ((2 * a * (m - 1) + K : Int) : Rat) ≤ -1 := by exact_mod_cast hv'
        have : (a : Rat) / 2 ^ 52 ≤ 1 / 2 := by
          rw [div_le_div_iff₀ (by positivity) (by positivity)]; nlinarith
        linarith
    rw [le_div_iff₀ haq]
    push_cast at key
    have : ((m : Rat) - 1 + 1 / 2 ^ 52) * (a : Rat) = (2 * (a : Rat) * ((m : Rat) - 1) + K) / 2 - K / 2 + (a : Rat) / 2 ^ 52 := by
      ring
    rw [this]; linarith
  · -- upper
    have hu := (spec m).mp (by rw [← hm])
    have id := disc_identity a K c m
    rw [← hD4] at id
    have hle : D4 ≤ (2 * a * m + K) * (2 * a * m + K) := by nlinarith [hu.2]
    have hvb : 2 * a * m + K < 2 ^ 103 := by
      have : a * m = a * (m - 1) + a := by ring
      nlinarith
    have := sqrt_le_half hS D4 (2 * a * m + K) hD0 hDb hu.1 hvb hle
    rw [div_le_iff₀ haq]
    push_cast at this
    linarith

/-- smaller root: the exact quotient `(−K/2 − sqrt(D4/4)) / a` is in `[m − 1 + 2^-52, m]` -/
theorem small_sandwich (a K c : Int) (ha1 : 1 ≤ a) (ha : a ≤ 2 ^ 33) (hK : |K| ≤ 2 ^ 35)
    (hD0 : 0 ≤ K * K - 8 * a * c) (hDb : K * K - 8 * a * c < 2 ^ 100) :
    ((cdiv (-fsqrt (K * K - 8 * a * c) - K) (2 * a) : Int) : Rat) - 1 + 1 / 2 ^ 52
        ≤ (-((K : Rat) / 2) - R.mpSqrt 103 (((K * K - 8 * a * c : Int) : Rat) / 4)) / (a : Rat) ∧
      (-((K : Rat) / 2) - R.mpSqrt 103 (((K * K - 8 * a * c : Int) : Rat) / 4)) / (a : Rat)
        ≤ ((cdiv (-fsqrt (K * K - 8 * a * c) - K) (2 * a) : Int) : Rat) := by
  have hap : 0 < a := by omega
  have haq : (0 : Rat) < (a : Rat) := by exact_mod_cast hap
  have haq1 : (1 : Rat) ≤ (a : Rat) := by exact_mod_cast ha1
  have haqb : (a : Rat) ≤ 2 ^ 33 := by exact_mod_cast ha
  set D4 := K * K - 8 * a * c with hD4
  set m := cdiv (-fsqrt D4 - K) (2 * a) with hm
  set sq := R.mpSqrt 103 ((D4 : Rat) / 4) with hsq
  obtain ⟨s0, _⟩ := sqrt_sq_quarter hS D4 hD0 hDb
  obtain ⟨bm, bam⟩ := small_bounds a K c ha1 ha hK hD0 hDb
  obtain ⟨f0, f1⟩ := fsqrt_bounds' D4 hD0 hDb
  rw [← hD4, ← hm] at bm bam
  rw [abs_le] at hK bm bam
  have spec := small_root_spec a K c hap hD0
  rw [← hD4] at spec
  have h2a : (0 : Int) < 2 * a := by omega
  constructor
  · -- lower: sq ≤ −v_{m−1}/2 − a/2^52
    have hn : ¬ (m ≤ m - 1) := by omega
    rw [← hm] at spec
    rw [spec] at hn
    push Not at hn
    obtain ⟨hv, hq⟩ := hn
    have id := disc_identity a K c (m - 1)
    rw [← hD4] at id
    have hw1 : 1 ≤ -(2 * a * (m - 1) + K) := by omega
    have hwb : -(2 * a * (m - 1) + K) ≤ 2 ^ 51 := by
      have u := (cdiv_le_iff (-fsqrt D4 - K) (2 * a) m h2a).mp (by rw [← hm])
      have e' : 2 * a * m = 2 * a * (m - 1) + 2 * a := by ring
      rw [e'] at u
      omega
    have hgap : D4 + 4 * a ≤ (-(2 * a * (m - 1) + K)) * (-(2 * a * (m - 1) + K)) := by nlinarith
    have key := sqrt_le_margin hS D4 _ a hD0 hDb hw1 hwb ha1 ha hgap
    rw [le_div_iff₀ haq]
    push_cast at key
    have : ((m : Rat) - 1 + 1 / 2 ^ 52) * (a : Rat) = (2 * (a : Rat) * ((m : Rat) - 1) + K) / 2 - K / 2 + (a : Rat) / 2 ^ 52 := by
      ring
    rw [this]; linarith
  · -- upper: −v_m/2 ≤ sq
    have hu := (spec m).mp (by rw [← hm])
    rw [div_le_iff₀ haq]
    by_cases hv : 0 ≤ 2 * a * m + K
    · have hvq : (0 : Rat) ≤ ((2 * a * m + K : Int) : Rat) := by exact_mod_cast hv
      push_cast at hvq
      linarith
    · have hq : a * m * m + K * m + 2 * c ≤ 0 := by
        rcases hu with h | h
        · exact absurd h hv
        · exact h
      have id := disc_identity a K c m
      rw [← hD4] at id
      have hw0 : 0 ≤ -(2 * a * m + K) := by omega
      have hle : (-(2 * a * m + K)) * (-(2 * a * m + K)) ≤ D4 := by nlinarith
      have hwb : -(2 * a * m + K) < 2 ^ 103 := by
        have : a * m = a * (m - 1) + a := by ring
        nlinarith
      have := half_le_sqrt hS D4 _ hD0 hDb hw0 hwb hle
      push_cast at this
      linarith

end sqrt

/-! ## the ceiled computed roots are the model's integer-square-root expressions -/

section roots
variable {R : Rounding} (hR : ContractBasic R) (hS : ContractSqrt R)
include hR hS

theorem posRoot_pos (a K c : Int) (ha1 : 1 ≤ a) (ha : a ≤ 2 ^ 33) (hK : |K| ≤ 2 ^ 35)
    (hD0 : 0 ≤ K * K - 8 * a * c) (hDb : K * K - 8 * a * c < 2 ^ 100) :
    Py.ceilRat (R.mp 103 (R.mp 103 (-((K : Rat) / 2) + R.mpSqrt 103 (((K * K - 8 * a * c : Int) : Rat) / 4)) / (a : Rat)))
      = cdiv (csqrt (K * K - 8 * a * c) - K) (2 * a) := by
  obtain ⟨b1, b2⟩ := big_bounds a K c ha1 ha hK hD0 hDb
  obtain ⟨s1, s2⟩ := big_sandwich hS a K c ha1 ha hK hD0 hDb
  exact divCeil hR a _ _ (by omega) (by rw [abs_of_nonneg (by omega)]; exact ha) b1 b2 s1 s2

theorem negRoot_pos (a K c : Int) (ha1 : 1 ≤ a) (ha : a ≤ 2 ^ 33) (hK : |K| ≤ 2 ^ 35)
    (hD0 : 0 ≤ K * K - 8 * a * c) (hDb : K * K - 8 * a * c < 2 ^ 100) :
    Py.ceilRat (R.mp 103 (R.mp 103 (-((K : Rat) / 2) - R.mpSqrt 103 (((K * K - 8 * a * c : Int) : Rat) / 4)) / (a : Rat)))
      = cdiv (-fsqrt (K * K - 8 * a * c) - K) (2 * a) := by
  obtain ⟨b1, b2⟩ := small_bounds a K c ha1 ha hK hD0 hDb
  obtain ⟨s1, s2⟩ := small_sandwich hS a K c ha1 ha hK hD0 hDb
  exact divCeil hR a _ _ (by omega) (by rw [abs_of_nonneg (by omega)]; exact ha) b1 b2 s1 s2

/-- negative leading coefficient: `pos_root` is the *smaller* root of the mirrored quadratic -/
theorem posRoot_neg (a K c : Int) (ha1 : a ≤ -1) (ha : -(2 ^ 33) ≤ a) (hK : |K| ≤ 2 ^ 35)
    (hD0 : 0 ≤ K * K - 8 * a * c) (hDb : K * K - 8 * a * c < 2 ^ 100) :
    Py.ceilRat (R.mp 103 (R.mp 103 (-((K : Rat) / 2) + R.mpSqrt 103 (((K * K - 8 * a * c : Int) : Rat) / 4)) / (a : Rat)))
      = cdiv (K - fsqrt (K * K - 8 * a * c)) (-(2 * a)) := by
  have eD : (-K) * (-K) - 8 * (-a) * (-c) = K * K - 8 * a * c := by ring
  have hK' : |(-K)| ≤ 2 ^ 35 := by rwa [abs_neg]
  have hD0' : 0 ≤ (-K) * (-K) - 8 * (-a) * (-c) := by rw [eD]; exact hD0
  have hDb' : (-K) * (-K) - 8 * (-a) * (-c) < 2 ^ 100 := by rw [eD]; exact hDb
  obtain ⟨b1, b2⟩ := small_bounds (-a) (-K) (-c) (by omega) (by omega) hK' hD0' hDb'
  obtain ⟨s1, s2⟩ := small_sandwich hS (-a) (-K) (-c) (by omega) (by omega) hK' hD0' hDb'
  rw [eD] at b1 b2 s1 s2
  have em : cdiv (-fsqrt (K * K - 8 * a * c) - -K) (2 * -a) = cdiv (K - fsqrt (K * K - 8 * a * c)) (-(2 * a)) := by
    congr 1 <;> ring
  rw [em] at b1 b2 s1 s2
  have haq : (a : Rat) ≠ 0 := by
    have : a ≠ 0 := by omega
    exact_mod_cast this
  have eq : (-(((-K : Int) : Rat) / 2) - R.mpSqrt 103 (((K * K - 8 * a * c : Int) : Rat) / 4)) / ((-a : Int) : Rat)
      = (-((K : Rat) / 2) + R.mpSqrt 103 (((K * K - 8 * a * c : Int) : Rat) / 4)) / (a : Rat) := by
    push_cast; field_simp; ring
  rw [eq] at s1 s2
  have b2' : |a * (cdiv (K - fsqrt (K * K - 8 * a * c)) (-(2 * a)) - 1)| ≤ 2 ^ 50 := by
    have : a * (cdiv (K - fsqrt (K * K - 8 * a * c)) (-(2 * a)) - 1)
        = -(-a * (cdiv (K - fsqrt (K * K - 8 * a * c)) (-(2 * a)) - 1)) := by ring
    rw [this, abs_neg]; exact b2
  exact divCeil hR a _ _ (by omega) (by rw [abs_le]; constructor <;> omega) b1 b2' s1 s2

/-- negative leading coefficient: `neg_root` is the *larger* root of the mirrored quadratic -/
theorem negRoot_neg (a K c : Int) (ha1 : a ≤ -1) (ha : -(2 ^ 33) ≤ a) (hK : |K| ≤ 2 ^ 35)
    (hD0 : 0 ≤ K * K - 8 * a * c) (hDb : K * K - 8 * a * c < 2 ^ 100) :
    Py.ceilRat (R.mp 103 (R.mp 103 (-((K : Rat) / 2) - R.mpSqrt 103 (((K * K - 8 * a * c : Int) : Rat) / 4)) / (a : Rat)))
      = cdiv (csqrt (K * K - 8 * a * c) + K) (-(2 * a)) := by
  have eD : (-K) * (-K) - 8 * (-a) * (-c) = K * K - 8 * a * c := by ring
  have hK' : |(-K)| ≤ 2 ^ 35 := by rwa [abs_neg]
  have hD0' : 0 ≤ (-K) * (-K) - 8 * (-a) * (-c) := by rw [eD]; exact hD0
  have hDb' : (-K) * (-K) - 8 * (-a) * (-c) < 2 ^ 100 := by rw [eD]; exact hDb
  obtain ⟨b1, b2⟩ := big_bounds (-a) (-K) (-c) (by omega) (by omega) hK' hD0' hDb'
  obtain ⟨s1, s2⟩ := big_sandwich hS (-a) (-K) (-c) (by omega) (by omega) hK' hD0' hDb'
  rw [eD] at b1 b2 s1 s2
  have em : cdiv (csqrt (K * K - 8 * a * c) - -K) (2 * -a) = cdiv (csqrt (K * K - 8 * a * c) + K) (-(2 * a)) := by
    congr 1 <;> ring
  rw [em] at b1 b2 s1 s2
  have haq : (a : Rat) ≠ 0 := by
    have : a ≠ 0 := by omega
    exact_mod_cast this
  have eq : (-(((-K : Int) : Rat) / 2) + R.mpSqrt 103 (((K * K - 8 * a * c : Int) : Rat) / 4)) / ((-a : Int) : Rat)
      = (-((K : Rat) / 2) - R.mpSqrt 103 (((K * K - 8 * a * c : Int) : Rat) / 4)) / (a : Rat) := by
    push_cast; field_simp; ring
  rw [eq] at s1 s2
  have b2' : |a * (cdiv (csqrt (K * K - 8 * a * c) + K) (-(2 * a)) - 1)| ≤ 2 ^ 50 := by
    have : a * (cdiv (csqrt (K * K - 8 * a * c) + K) (-(2 * a)) - 1)
        = -(-a * (cdiv (csqrt (K * K - 8 * a * c) + K) (-(2 * a)) - 1)) := by ring
    rw [this, abs_neg]; exact b2
  exact divCeil hR a _ _ (by omega) (by rw [abs_le]; constructor <;> omega) b1 b2' s1 s2

end roots

end C03
end Plotink
