import Plotink.Gen.EBB3_command
import Plotink.Model.Ebb3Params
import Plotink.Proofs.PyIOLemmas
import Plotink.Proofs.C04Latch

/-! # Bridge: the source-regenerated `EBB3` methods = the hand model `Ebb3.run`  (worked example: `command`)

`Gen.EBB3_<method>` / `Gen.EBBMotionWrap_<method>` are regenerated from `plotink/ebb3_serial.py` /
`plotink/ebb3_motion.py` on every run (`translator/pyio2lean.py`, runtime `Plotink/PyObj.lean`).  This file sets up
the abstraction from the worlds of the regenerated code to the worlds of `Model/Ebb3.lean` and proves the bridge for
`command`, the primitive every other request method calls.  `Proofs/EBB3GEN_NOTES.md` explains the pattern.

* `absWorld : PyObj.World Gen.EBB3_Obj → Ebb3.World Ebb3.Script` — attributes ↦ `Ebb3.St`, the script with exception
  classes ↦ the model's script (`raise c ↦ raise`, `empty ↦ line []`), write log ↦ `out`, read count ↦ `nreads`.
* `Good w` — the domain: the attributes hold values of the types the class gives them (`ObjOk`), every scripted
  fault is a serial I/O exception of a class the handlers name (`IoClass`), every scripted line is ASCII.
* `Sim out r` — a regenerated method ended like the model: same value / same escaping exception, worlds related
  by `absWorld`, and the final world is `Good` again (so bridges compose along call sequences and for callers).
* `command_bridge` — for every object state, every script in the domain, every request text (or `None`), fuel ≥ 26:
  `Sim (Gen.EBB3_command fuel (encReq req) w) (Ebb3.run srcParams scriptDev (.command req) (absWorld w))`.
-/

namespace Plotink
namespace Ebb3Gen
open PyObj
set_option linter.unusedSimpArgs false
set_option linter.unusedVariables false

/-! ## abstraction -/

def absRd : PyIO.Rd → Ebb3.ReadEv
  | .line b => .line b
  | .empty => .line []
  | .raise _ => .raise

def absWr : PyIO.Wr → Ebb3.WriteEv
  | .ok => .ok
  | .raise _ => .raise

def absOpt : Val → Option Ebb3.Str
  | .str s => some s
  | _ => Option.none

def absVer : Val → Option (List Nat)
  | .version r => some r
  | _ => Option.none

def absPort : Val → Bool
  | .port => true
  | _ => false

def absSt (o : Gen.EBB3_Obj) : Ebb3.St :=
  ⟨absPort o.port, absOpt o.err, absOpt o.version, absVer o.version_parsed, absOpt o.name, absOpt o.caller,
   absOpt o.port_name⟩

def absWorld (w : World Gen.EBB3_Obj) : Ebb3.World Ebb3.Script :=
  ⟨absSt w.obj, ⟨w.port.reads.map absRd, w.port.writes.map absWr⟩, w.port.log, w.port.nread⟩

def encVal : Ebb3.Val → Val
  | .none => .none
  | .bool b => .bool b
  | .int z => .int z
  | .str s => .str s
  | .pair a b => .tuple [encVal a, encVal b]

/-- a request text as the Python argument: `None` or a `str` -/
def encReq : Option Ebb3.Str → Val
  | Option.none => .none
  | some s => .str s

/-- `None` or a `str` -/
def IsOptStr : Val → Prop
  | .none => True
  | .str _ => True
  | _ => False

/-- the attributes hold what the class puts there -/
structure ObjOk (o : Gen.EBB3_Obj) : Prop where
  port : o.port = .port ∨ o.port = .none
  err : IsOptStr o.err
  version : IsOptStr o.version
  version_parsed : o.version_parsed = .none ∨ ∃ r, o.version_parsed = .version r
  name : IsOptStr o.name
  caller : IsOptStr o.caller
  port_name : IsOptStr o.port_name

/-- the classes named by the handlers of `command` / `query` / `query_statusbyte` / `connect` -/
def handlerClasses : List PyIO.ExcClass := [.serialException, .osError, .runtimeError, .osError]

def IoClass (c : PyIO.ExcClass) : Prop := PyIO.catches handlerClasses c = true

def IoReads (rs : List PyIO.Rd) : Prop := ∀ c, PyIO.Rd.raise c ∈ rs → IoClass c
def IoWrites (ws : List PyIO.Wr) : Prop := ∀ c, PyIO.Wr.raise c ∈ ws → IoClass c
def AsciiReads (rs : List PyIO.Rd) : Prop := ∀ b, PyIO.Rd.line b ∈ rs → PyIO.isAscii b = true

/-- the domain of the bridges -/
structure Good (w : World Gen.EBB3_Obj) : Prop where
  obj : ObjOk w.obj
  ioR : IoReads w.port.reads
  ioW : IoWrites w.port.writes
  ascii : AsciiReads w.port.reads

/-- how a regenerated method ended, against the model -/
def Sim (out : Out Gen.EBB3_Obj) (r : Except Ebb3.PyExc Ebb3.Val × Ebb3.World Ebb3.Script) : Prop :=
  match out, r with
  | .val v w', (.ok v', aw') => v = encVal v' ∧ absWorld w' = aw' ∧ Good w'
  | .exc c w', (.error e, aw') => c = excOfEbb3 e ∧ absWorld w' = aw' ∧ Good w'
  | _, _ => False

theorem IoReads.tail {r : PyIO.Rd} {rs : List PyIO.Rd} (h : IoReads (r :: rs)) : IoReads rs :=
  fun c hc => h c (List.mem_cons_of_mem _ hc)
theorem IoReads.head {c : PyIO.ExcClass} {rs : List PyIO.Rd} (h : IoReads (.raise c :: rs)) : IoClass c :=
  h c List.mem_cons_self
theorem IoWrites.tail {r : PyIO.Wr} {rs : List PyIO.Wr} (h : IoWrites (r :: rs)) : IoWrites rs :=
  fun c hc => h c (List.mem_cons_of_mem _ hc)
theorem IoWrites.head {c : PyIO.ExcClass} {rs : List PyIO.Wr} (h : IoWrites (.raise c :: rs)) : IoClass c :=
  h c List.mem_cons_self
theorem AsciiReads.tail {r : PyIO.Rd} {rs : List PyIO.Rd} (h : AsciiReads (r :: rs)) : AsciiReads rs :=
  fun b hb => h b (List.mem_cons_of_mem _ hb)
theorem AsciiReads.head {b : List Char} {rs : List PyIO.Rd} (h : AsciiReads (.line b :: rs)) : PyIO.isAscii b = true :=
  h b List.mem_cons_self

/-! ## the guard `(self.port is None) or (self.err is not None)` -/

theorem blocked_iff (o : Gen.EBB3_Obj) (h : ObjOk o) :
    (absSt o).blocked = (isNone o.port || !isNone o.err) := by
  obtain ⟨hp, he, _⟩ := h
  unfold Ebb3.St.blocked absSt
  rcases hp with hp | hp <;> rw [hp] <;> revert he <;> cases o.err <;> simp [IsOptStr, absPort, absOpt, isNone]

/-! ## the port primitives -/

def ascii : Val := .str ['a', 's', 'c', 'i', 'i']

/-- `self.port.readline().decode('ascii').strip()` -/
def readX : Eff Gen.EBB3_Obj :=
  app1 meth_strip (app2 meth_decode (eff1 meth_readline (getattr (·.port))) (ok ascii))

/-- one read of the regenerated code against `Ebb3.portRead` -/
theorem read_sim (w : World Gen.EBB3_Obj) (hp : w.obj.port = .port) (hg : Good w) :
    (∃ c w', IoClass c ∧ readX w = (.exc c, w') ∧
      Ebb3.portRead Ebb3.scriptDev (absWorld w) = (.ok Option.none, absWorld w') ∧ w'.obj = w.obj ∧ Good w' ∧
      w'.port.writes = w.port.writes) ∨
    (∃ l w', readX w = (.ok (.str (Ebb3.strip l)), w') ∧
      Ebb3.portRead Ebb3.scriptDev (absWorld w) = (.ok (some l), absWorld w') ∧ w'.obj = w.obj ∧ Good w' ∧
      w'.port.writes = w.port.writes) := by
  obtain ⟨obj, ⟨reads, writes, log, nread⟩, ext⟩ := w
  simp only at hp
  obtain ⟨ho, hr, hw, ha⟩ := hg
  simp only at ho hr hw ha
  have hga : getattr (fun o : Gen.EBB3_Obj => o.port) (⟨obj, ⟨reads, writes, log, nread⟩, ext⟩ : World Gen.EBB3_Obj)
      = (.ok .port, ⟨obj, ⟨reads, writes, log, nread⟩, ext⟩) := by
    rw [getattr_apply (by simp [hp])]
    simp only [hp]
  cases reads with
  | nil =>
    right
    refine ⟨[], ⟨obj, ⟨[], writes, log, nread + 1⟩, ext⟩, ?_, rfl, rfl, ⟨ho, hr, hw, ha⟩, rfl⟩
    simp only [readX, app1, app2, eff1, PyObj.bind, hga, meth_readline, ok, ofP, meth_decode, ascii, meth_strip, PyIO.isAscii,
      List.all_nil, ↓reduceIte]
  | cons r rs =>
    cases r with
    | empty =>
      right
      refine ⟨[], ⟨obj, ⟨rs, writes, log, nread + 1⟩, ext⟩, ?_, rfl, rfl, ⟨ho, hr.tail, hw, ha.tail⟩, rfl⟩
      simp only [readX, app1, app2, eff1, PyObj.bind, hga, meth_readline, ok, ofP, meth_decode, ascii, meth_strip, PyIO.isAscii,
        List.all_nil, ↓reduceIte]
    | raise c =>
      left
      refine ⟨c, ⟨obj, ⟨rs, writes, log, nread + 1⟩, ext⟩, hr.head, ?_, rfl, rfl, ⟨ho, hr.tail, hw, ha.tail⟩, rfl⟩
      simp only [readX, app1, app2, eff1, PyObj.bind, hga, meth_readline]
    | line b =>
      right
      have hb : PyIO.isAscii b = true := ha.head
      refine ⟨b, ⟨obj, ⟨rs, writes, log, nread + 1⟩, ext⟩, ?_, rfl, rfl, ⟨ho, hr.tail, hw, ha.tail⟩, rfl⟩
      simp only [readX, app1, app2, eff1, PyObj.bind, hga, meth_readline, ok, ofP, meth_decode, ascii, meth_strip, hb, ↓reduceIte]

/-- `self.port.write(text)` of the regenerated code against `Ebb3.portWrite` -/
theorem write_sim (text : List Char) (w : World Gen.EBB3_Obj) (hp : w.obj.port = .port) (hg : Good w) :
    (∃ w', meth_write .port (.bytes text) w = (.ok (.int text.length), w') ∧
      Ebb3.portWrite Ebb3.scriptDev text (absWorld w) = (.ok true, absWorld w') ∧ w'.obj = w.obj ∧ Good w') ∨
    (∃ c w', IoClass c ∧ meth_write .port (.bytes text) w = (.exc c, w') ∧
      Ebb3.portWrite Ebb3.scriptDev text (absWorld w) = (.ok false, absWorld w') ∧ w'.obj = w.obj ∧ Good w') := by
  obtain ⟨obj, ⟨reads, writes, log, nread⟩, ext⟩ := w
  obtain ⟨ho, hr, hw, ha⟩ := hg
  simp only at ho hr hw ha
  cases writes with
  | nil =>
    left
    exact ⟨⟨obj, ⟨reads, [], log ++ [text], nread⟩, ext⟩, rfl, rfl, rfl, ⟨ho, hr, hw, ha⟩⟩
  | cons x ws =>
    cases x with
    | ok =>
      left
      exact ⟨⟨obj, ⟨reads, ws, log ++ [text], nread⟩, ext⟩, rfl, rfl, rfl, ⟨ho, hr, hw.tail, ha⟩⟩
    | raise c =>
      right
      exact ⟨c, ⟨obj, ⟨reads, ws, log ++ [text], nread⟩, ext⟩, hw.head, rfl, rfl, rfl, ⟨ho, hr, hw.tail, ha⟩⟩

/-! ## `record_error` -/

/-- what `record_error(msg)` does to the attributes -/
def recErr (m : List Char) (o : Gen.EBB3_Obj) : Gen.EBB3_Obj :=
  if isNone o.err then { o with err := .str m } else o

theorem record_error_eval (fuel : Nat) (m : List Char) (w : World Gen.EBB3_Obj) (ho : ObjOk w.obj) :
    Gen.EBB3_record_error fuel (.str m) w = .val .none { w with obj := recErr m w.obj } := by
  obtain ⟨obj, port, ext⟩ := w
  have he := ho.err
  simp only at he
  unfold Gen.EBB3_record_error Gen.EBB3_record_error_main Gen.EBB3_record_error_if1 recErr
  have hga : ∀ v, obj.err = v → v ≠ .unbound →
      getattr (fun o : Gen.EBB3_Obj => o.err) (⟨obj, port, ext⟩ : World Gen.EBB3_Obj) = (.ok v, ⟨obj, port, ext⟩) := by
    intro v hv hne
    rw [getattr_apply (by simp [hv, hne])]
    simp only [hv]
  cases herr : obj.err <;> rw [herr] at he <;> simp only [IsOptStr] at he
  · simp only [run, ifte, app1, PyObj.bind, hga _ herr (by simp), ofP, op_is_none, isNone, ok, truthy, ↓reduceIte,
      Bool.false_eq_true, pass]
  · simp only [run, ifte, app1, PyObj.bind, hga _ herr (by simp), ofP, op_is_none, isNone, ok, truthy, ↓reduceIte, setattr]

theorem absSt_recErr (m : List Char) (o : Gen.EBB3_Obj) (ho : ObjOk o) :
    absSt (recErr m o) = Ebb3.recordErrorSt m (absSt o) := by
  have he := ho.err
  unfold recErr Ebb3.recordErrorSt absSt
  cases herr : o.err <;> rw [herr] at he <;> simp only [IsOptStr] at he <;> simp [isNone, absOpt, herr]

theorem objOk_recErr (m : List Char) (o : Gen.EBB3_Obj) (ho : ObjOk o) : ObjOk (recErr m o) := by
  unfold recErr
  split
  · exact ⟨ho.port, trivial, ho.version, ho.version_parsed, ho.name, ho.caller, ho.port_name⟩
  · exact ho

theorem recErr_port (m : List Char) (o : Gen.EBB3_Obj) : (recErr m o).port = o.port := by
  unfold recErr; split <;> rfl

/-- `self.record_error(msg)` as a statement of a caller: the model's `recordError msg` -/
theorem record_error_stmt {σ : Type} (fuel : Nat) (m : List Char) (env : σ) (w : World Gen.EBB3_Obj) (hg : Good w)
    (e : Expr Gen.EBB3_Obj σ) (he : e fuel env = ok (.str m)) :
    ∃ w', expr (fun fuel env => mcall1 (Gen.EBB3_record_error fuel) (e fuel env)) fuel env w = .norm env w' ∧
      Ebb3.recordError m (absWorld w) = (.ok (), absWorld w') ∧ Good w' ∧ w'.obj.port = w.obj.port ∧
      w'.port = w.port := by
  refine ⟨{ w with obj := recErr m w.obj }, ?_, ?_, ⟨objOk_recErr m _ hg.obj, hg.ioR, hg.ioW, hg.ascii⟩,
    recErr_port m _, rfl⟩
  · simp only [expr, he, mcall1_ok_apply, record_error_eval fuel m w hg.obj, ofOut_val]
  · simp only [Ebb3.recordError, Ebb3.modifySt_apply, absWorld, absSt_recErr m _ hg.obj]

/-! ## the retry loop `while len(response) == 0 and n_retry_count < K: response = <read>; n_retry_count += 1`,
generically in the record of locals (the same loop occurs in `command` and in `query`) -/

section Retry
variable {σ : Type} (getR getN : σ → Val) (setR setN : σ → Val → σ)

def retryTest (K : Int) : Expr Gen.EBB3_Obj σ :=
  fun fuel env => and_ (app2 op_eq (app1 op_len (load (getR env))) (ok (.int 0)))
    (app2 op_lt (load (getN env)) (ok (.int K)))

def retryBody : Stmt Gen.EBB3_Obj σ :=
  block [
    assign setR (fun fuel env => readX),
    assign setN (fun fuel env => app2 op_add (load (getN env)) (ok (.int 1)))]

structure Lens : Prop where
  getR_setR : ∀ e v, getR (setR e v) = v
  getR_setN : ∀ e v, getR (setN e v) = getR e
  getN_setN : ∀ e v, getN (setN e v) = v
  getN_setR : ∀ e v, getN (setR e v) = getN e
  setR_setN : ∀ e n r, setR (setN e n) r = setN (setR e r) n
  setR_setR : ∀ e a b, setR (setR e a) b = setR e b
  setN_setN : ∀ e a b, setN (setN e a) b = setN e b
  eta : ∀ e, setN (setR e (getR e)) (getN e) = e

theorem retryTest_eval (K a : Int) (fuel : Nat) (env : σ) (s : List Char)
    (hR : getR env = .str s) (hN : getN env = .int a) :
    retryTest getR getN K fuel env = ok (.bool (s.isEmpty && decide (a < K))) := by
  unfold retryTest
  rw [hR, hN]
  simp only [load_str, load_int, app1_ok, app2_ok, op_len, ofP_ok, op_eq, op_lt, ofOptBool, ltVal, intOf, pyEq, and_ok,
    truthy_bool]
  cases s with
  | nil => simp
  | cons c t =>
    have h1 : ¬ ((t.length : Int) + 1 = 0) := by omega
    have h2 : ((t.length : Int) + 1 == 0) = false := by rw [beq_eq_false_iff_ne]; omega
    simp [h1, h2]

/-- how the loop ends, against the rest of the model's `readLoop` -/
def LoopSim (env : σ) (w : World Gen.EBB3_Obj) (fl : Flow Gen.EBB3_Obj σ) :
    Except Ebb3.PyExc (Option Ebb3.Str) × Ebb3.World Ebb3.Script → Prop
  | (.ok (some s'), aw') => ∃ (m : Int) (w' : World Gen.EBB3_Obj),
      fl = .norm (setN (setR env (.str s')) (.int m)) w' ∧ absWorld w' = aw' ∧ w'.obj = w.obj ∧ Good w' ∧
      w'.port.writes = w.port.writes
  | (.ok Option.none, aw') => ∃ (m : Int) (c : PyIO.ExcClass) (w' : World Gen.EBB3_Obj), IoClass c ∧
      fl = .exc c (setN (setR env (.str [])) (.int m)) w' ∧ absWorld w' = aw' ∧ w'.obj = w.obj ∧ Good w' ∧
      w'.port.writes = w.port.writes
  | (.error _, _) => False

/-- the model's continuation after a read that gave `s` (already stripped) with `k` retries left -/
def restLoop (k : Nat) (s : List Char) : Ebb3.M Ebb3.Script (Option Ebb3.Str) :=
  if s.isEmpty then Ebb3.readLoop Ebb3.scriptDev k else pure (some s)

theorem retryLoop_sim (L : Lens getR getN setR setN) (K : Nat) (fuel : Nat) :
    ∀ (k : Nat), k ≤ K → ∀ (n : Nat), k + 1 ≤ n → ∀ (env : σ) (s : List Char),
      getR env = .str s → getN env = .int ((K : Int) - k) →
      ∀ (w : World Gen.EBB3_Obj), w.obj.port = .port → Good w →
      LoopSim setR setN env w
        (whileLoop (retryTest getR getN K) (retryBody getN setR setN) fuel n env w)
        (restLoop k s (absWorld w)) := by
  intro k
  induction k with
  | zero =>
    intro _ n hn env s hR hN w hp hg
    obtain ⟨n', rfl⟩ : ∃ n', n = n' + 1 := ⟨n - 1, by omega⟩
    have ht := retryTest_eval getR getN K ((K : Int) - (0 : Nat)) fuel env s hR hN
    have hfalse : (s.isEmpty && decide ((K : Int) - (0 : Nat) < K)) = false := by simp
    rw [hfalse] at ht
    unfold whileLoop
    simp only [ht, ok_apply, truthy_bool, Bool.false_eq_true, ↓reduceIte]
    have hrest : restLoop 0 s (absWorld w) = (.ok (some s), absWorld w) := by
      unfold restLoop Ebb3.readLoop
      cases s with
      | nil => rfl
      | cons c t => rfl
    rw [hrest]
    refine ⟨(K : Int) - (0 : Nat), w, ?_, rfl, rfl, hg, rfl⟩
    rw [← hR, ← hN, L.eta]
  | succ k ih =>
    intro hk n hn env s hR hN w hp hg
    obtain ⟨n', rfl⟩ : ∃ n', n = n' + 1 := ⟨n - 1, by omega⟩
    have ht := retryTest_eval getR getN K ((K : Int) - ((k + 1 : Nat) : Int)) fuel env s hR hN
    have hlt : decide ((K : Int) - ((k + 1 : Nat) : Int) < K) = true := by
      simp only [decide_eq_true_eq]; omega
    rw [hlt, Bool.and_true] at ht
    unfold whileLoop
    have henv : env = setN (setR env (.str s)) (.int ((K : Int) - ((k + 1 : Nat) : Int))) := by
      rw [← hR, ← hN, L.eta]
    cases s with
    | cons c t =>
      -- a non-empty reply ends the loop
      simp only [ht, ok_apply, truthy_bool, List.isEmpty_cons, Bool.false_eq_true, ↓reduceIte]
      have hrest : restLoop (k + 1) (c :: t) (absWorld w) = (.ok (some (c :: t)), absWorld w) := rfl
      rw [hrest]
      exact ⟨_, w, by rw [← henv], rfl, rfl, hg, rfl⟩
    | nil =>
      simp only [ht, ok_apply, truthy_bool, List.isEmpty_nil, ↓reduceIte]
      have hrest : restLoop (k + 1) [] (absWorld w)
          = (Ebb3.portRead Ebb3.scriptDev >>= fun r => match r with
              | Option.none => pure Option.none
              | some l => if (Ebb3.strip l).isEmpty then Ebb3.readLoop Ebb3.scriptDev k else pure (some (Ebb3.strip l)))
            (absWorld w) := rfl
      rw [hrest]
      have hexc : ∀ c w', readX w = (.exc c, w') → retryBody getN setR setN fuel env w = .exc c env w' := by
        intro c w' e1
        unfold retryBody
        rw [block_cons2, block_one, seq_exc (assign_exc (e := fun _ _ => readX) e1)]
      have hbody : ∀ x w', readX w = (.ok (.str x), w') →
          retryBody getN setR setN fuel env w = .norm (setN (setR env (.str x)) (.int ((K : Int) - (k : Nat)))) w' := by
        intro x w' e1
        unfold retryBody
        rw [block_cons2, block_one, seq_norm (assign_of (e := fun _ _ => readX) e1)]
        have h2 : (fun (fuel : Nat) (env : σ) => app2 op_add (load (getN env)) (ok (.int 1))) fuel (setR env (.str x)) w'
            = (.ok (.int ((K : Int) - (k : Nat))), w') := by
          simp only [L.getN_setR, hN, load_int, app2_ok, op_add, intOf, ofP_ok, ok_apply]
          congr 3
          omega
        rw [assign_of h2]
      rcases read_sim w hp hg with ⟨c, w', hc, e1, e2, ho', hg', hw'⟩ | ⟨l, w', e1, e2, ho', hg', hw'⟩
      · rw [hexc c w' e1, Ebb3.bind_ok e2]
        simp only [Ebb3.pure_apply, LoopSim]
        exact ⟨_, c, w', hc, by rw [← henv], rfl, ho', hg', hw'⟩
      · rw [hbody _ w' e1, Ebb3.bind_ok e2]
        have := ih (by omega) n' (by omega) (setN (setR env (.str (Ebb3.strip l))) (.int ((K : Int) - (k : Nat))))
          (Ebb3.strip l) (by rw [L.getR_setN, L.getR_setR]) (by rw [L.getN_setN]) w' (by rw [ho', hp]) hg'
        have hrest' : (if (Ebb3.strip l).isEmpty = true then Ebb3.readLoop Ebb3.scriptDev k else pure (some (Ebb3.strip l)))
            (absWorld w') = restLoop k (Ebb3.strip l) (absWorld w') := rfl
        simp only [hrest']
        generalize restLoop k (Ebb3.strip l) (absWorld w') = r at this ⊢
        obtain ⟨res, aw'⟩ := r
        cases res with
        | error e => exact this
        | ok o =>
          cases o with
          | none =>
            obtain ⟨m, c, w'', hc, e3, e4, e5, e6, e7⟩ := this
            refine ⟨m, c, w'', hc, ?_, e4, by rw [e5, ho'], e6, by rw [e7, hw']⟩
            rw [e3]
            simp only [L.setR_setN, L.setR_setR, L.setN_setN]
          | some s' =>
            obtain ⟨m, w'', e3, e4, e5, e6, e7⟩ := this
            refine ⟨m, w'', ?_, e4, by rw [e5, ho'], e6, by rw [e7, hw']⟩
            rw [e3]
            simp only [L.setR_setN, L.setR_setR, L.setN_setN]

end Retry


/-! ### the message literals of `Ebb3.Msg` as explicit character lists (closed terms: `decide`) -/

theorem lit_cmdUnexpectedA : "\nUnexpected response from EBB.    Command: ".toList = ['\n', 'U', 'n', 'e', 'x', 'p', 'e', 'c', 't', 'e', 'd', ' ', 'r', 'e', 's', 'p', 'o', 'n', 's', 'e', ' ', 'f', 'r', 'o', 'm', ' ', 'E', 'B', 'B', '.', ' ', ' ', ' ', ' ', 'C', 'o', 'm', 'm', 'a', 'n', 'd', ':', ' '] := by decide
theorem lit_respB : "\n    Response: ".toList = ['\n', ' ', ' ', ' ', ' ', 'R', 'e', 's', 'p', 'o', 'n', 's', 'e', ':', ' '] := by decide
theorem lit_cmdTimeoutA : "EBB Serial Timeout after command: ".toList = ['E', 'B', 'B', ' ', 'S', 'e', 'r', 'i', 'a', 'l', ' ', 'T', 'i', 'm', 'e', 'o', 'u', 't', ' ', 'a', 'f', 't', 'e', 'r', ' ', 'c', 'o', 'm', 'm', 'a', 'n', 'd', ':', ' '] := by decide
theorem lit_cmdUsbA : "USB communication error after command: ".toList = ['U', 'S', 'B', ' ', 'c', 'o', 'm', 'm', 'u', 'n', 'i', 'c', 'a', 't', 'i', 'o', 'n', ' ', 'e', 'r', 'r', 'o', 'r', ' ', 'a', 'f', 't', 'e', 'r', ' ', 'c', 'o', 'm', 'm', 'a', 'n', 'd', ':', ' '] := by decide
theorem lit_cmdErrA : "Error reported by EBB.\n    Command: ".toList = ['E', 'r', 'r', 'o', 'r', ' ', 'r', 'e', 'p', 'o', 'r', 't', 'e', 'd', ' ', 'b', 'y', ' ', 'E', 'B', 'B', '.', '\n', ' ', ' ', ' ', ' ', 'C', 'o', 'm', 'm', 'a', 'n', 'd', ':', ' '] := by decide

theorem msg_cmdTimeout (c : List Char) : Ebb3.Msg.cmdTimeout c = ['E', 'B', 'B', ' ', 'S', 'e', 'r', 'i', 'a', 'l', ' ', 'T', 'i', 'm', 'e', 'o', 'u', 't', ' ', 'a', 'f', 't', 'e', 'r', ' ', 'c', 'o', 'm', 'm', 'a', 'n', 'd', ':', ' '] ++ c := by
  unfold Ebb3.Msg.cmdTimeout; rw [lit_cmdTimeoutA]
theorem msg_cmdUsb (c : List Char) : Ebb3.Msg.cmdUsb c = ['U', 'S', 'B', ' ', 'c', 'o', 'm', 'm', 'u', 'n', 'i', 'c', 'a', 't', 'i', 'o', 'n', ' ', 'e', 'r', 'r', 'o', 'r', ' ', 'a', 'f', 't', 'e', 'r', ' ', 'c', 'o', 'm', 'm', 'a', 'n', 'd', ':', ' '] ++ c := by
  unfold Ebb3.Msg.cmdUsb; rw [lit_cmdUsbA]
theorem msg_cmdUnexpected (c r : List Char) : Ebb3.Msg.cmdUnexpected c r = ['\n', 'U', 'n', 'e', 'x', 'p', 'e', 'c', 't', 'e', 'd', ' ', 'r', 'e', 's', 'p', 'o', 'n', 's', 'e', ' ', 'f', 'r', 'o', 'm', ' ', 'E', 'B', 'B', '.', ' ', ' ', ' ', ' ', 'C', 'o', 'm', 'm', 'a', 'n', 'd', ':', ' '] ++ c ++ ['\n', ' ', ' ', ' ', ' ', 'R', 'e', 's', 'p', 'o', 'n', 's', 'e', ':', ' '] ++ r := by
  unfold Ebb3.Msg.cmdUnexpected; rw [lit_cmdUnexpectedA, lit_respB]
theorem msg_cmdErr (c r : List Char) : Ebb3.Msg.cmdErr c r = ['E', 'r', 'r', 'o', 'r', ' ', 'r', 'e', 'p', 'o', 'r', 't', 'e', 'd', ' ', 'b', 'y', ' ', 'E', 'B', 'B', '.', '\n', ' ', ' ', ' ', ' ', 'C', 'o', 'm', 'm', 'a', 'n', 'd', ':', ' '] ++ c ++ ['\n', ' ', ' ', ' ', ' ', 'R', 'e', 's', 'p', 'o', 'n', 's', 'e', ':', ' '] ++ r := by
  unfold Ebb3.Msg.cmdErr; rw [lit_cmdErrA, lit_respB]

theorem flatten_strs2 (a b : List Char) : (List.map strOf [Val.str a, Val.str b]).flatten = a ++ b := by
  simp [strOf]
theorem flatten_strs4 (a b c d : List Char) :
    (List.map strOf [Val.str a, Val.str b, Val.str c, Val.str d]).flatten = a ++ (b ++ (c ++ d)) := by
  simp [strOf]

/-! ## `command` -/

section Command
open Gen

theorem cmd_lens : Lens (σ := EBB3_command_Env) (·.response) (·.n_retry_count)
    (fun env v => { env with response := v }) (fun env v => { env with n_retry_count := v }) :=
  ⟨fun _ _ => rfl, fun _ _ => rfl, fun _ _ => rfl, fun _ _ => rfl, fun _ _ _ => rfl, fun _ _ _ => rfl,
   fun _ _ _ => rfl, fun _ => rfl⟩

theorem cmd_test1_eq : EBB3_command_test1 = retryTest (σ := EBB3_command_Env) (·.response) (·.n_retry_count) 25 := rfl
theorem cmd_body1_eq : EBB3_command_body1 = retryBody (σ := EBB3_command_Env) (·.n_retry_count)
    (fun env v => { env with response := v }) (fun env v => { env with n_retry_count := v }) := rfl

theorem srcRetryCmd : Ebb3.srcParams.retryCmd = 25 := rfl
theorem srcIgnoreCmd : Ebb3.srcParams.ignoreCmd = [['r', 'b'], ['r'], ['b', 'l']] := by decide

/-- the one- or two-letter name (`if len(cmd) == 1: … elif cmd[1] == ',': … else: …`) is `Ebb3.cmdName` -/
theorem cmd_if2 (fuel : Nat) (env : EBB3_command_Env) (c : List Char) (hc : env.cmd = .str c) (w : World EBB3_Obj) :
    EBB3_command_if2 fuel env w =
      (match Ebb3.cmdName c with
       | .ok name => .norm { env with cmd_name := .str name } w
       | .error e => .exc (excOfEbb3 e) env w) := by
  unfold EBB3_command_if2 EBB3_command_if3
  match c, hc with
  | [], hc =>
    simp only [ifte, assign, hc, load_str, ok_apply, app1_ok, app2_ok, op_len, op_eq, ofP_ok, pyEq, truthy_bool,
      List.length_nil, op_getitem, intOf, normIdx, Ebb3.cmdName]
    rfl
  | [x], hc =>
    simp only [ifte, assign, hc, load_str, ok_apply, app1_ok, app2_ok, op_len, op_eq, ofP_ok, pyEq, truthy_bool,
      List.length_cons, List.length_nil, op_getitem, intOf, normIdx, Ebb3.cmdName]
    rfl
  | x :: y :: rest, hc =>
    have hlen : ((((x :: y :: rest).length : Nat) : Int) == 1) = false := by
      rw [beq_eq_false_iff_ne]; simp only [List.length_cons]; omega
    have h1 : op_getitem (.str (x :: y :: rest)) (.int 1) = .ok (.str [y]) := by
      simp only [op_getitem, intOf, normIdx, List.length_cons]
      have : (1 : Int).toNat < rest.length + 1 + 1 := by simp
      simp [this]
    have h0 : op_getitem (.str (x :: y :: rest)) (.int 0) = .ok (.str [x]) := by
      simp only [op_getitem, intOf, normIdx, List.length_cons]
      simp
    have hs : op_slice (.str (x :: y :: rest)) (.int 0) (.int 2) = .ok (.str [x, y]) := by
      simp only [op_slice, sliceBound, intOf, sliceList, List.length_cons]
      have : min (2 : Int).toNat (rest.length + 1 + 1) = 2 := by simp
      simp
    simp only [ifte, assign, hc, load_str, ok_apply, app1_ok, app2_ok, app3_ok, op_len, op_eq, ofP_ok, pyEq, hlen,
      truthy_bool, Bool.false_eq_true, ↓reduceIte, h1, h0, hs, Ebb3.cmdName]
    by_cases hy : y = ','
    · subst hy
      simp
    · have : ([y] == [',']) = false := by simp [hy]
      simp [this, hy]

/-- `error_msg = …` of the "reply does not start with the name" branch -/
theorem cmd_if5 (fuel : Nat) (env : EBB3_command_Env) (c resp : List Char) (hc : env.cmd = .str c)
    (hr : env.response = .str resp) (w : World EBB3_Obj) :
    EBB3_command_if5 fuel env w =
      .norm { env with error_msg := .str (if resp.isEmpty then Ebb3.Msg.cmdTimeout c else Ebb3.Msg.cmdUnexpected c resp) } w := by
  obtain ⟨cmd, cmd_name, response, nrc, emsg⟩ := env
  simp only at hc hr
  subst hc hr
  unfold EBB3_command_if5
  simp only [ifte, assign, load_str, ok_apply, truthy_str, fstr, evalList_cons_ok, evalList_nil, app2_ok_left, bind_ok,
    op_add, ofP_ok]
  cases resp with
  | nil =>
    simp only [List.isEmpty_nil, Bool.not_true, Bool.false_eq_true, ↓reduceIte, flatten_strs2, msg_cmdTimeout]
  | cons a t =>
    simp only [List.isEmpty_cons, Bool.not_false, ↓reduceIte, Bool.false_eq_true, flatten_strs4, msg_cmdUnexpected,
      List.cons_append, List.nil_append, List.append_assoc]

/-- the judgement of the reply: `if not response.startswith(cmd_name): …record_error…` -/
theorem cmd_if4 (fuel : Nat) (env : EBB3_command_Env) (c name resp : List Char) (hc : env.cmd = .str c)
    (hn : env.cmd_name = .str name) (hr : env.response = .str resp) (w : World EBB3_Obj) (hg : Good w) :
    ∃ em w', EBB3_command_if4 fuel env w = .norm { env with error_msg := em } w' ∧
      (if Ebb3.startsWith name resp then (pure () : Ebb3.M Ebb3.Script Unit)
       else if resp.isEmpty then Ebb3.recordError (Ebb3.Msg.cmdTimeout c)
       else Ebb3.recordError (Ebb3.Msg.cmdUnexpected c resp)) (absWorld w) = (.ok (), absWorld w') ∧
      Good w' ∧ w'.obj.port = w.obj.port ∧ w'.port = w.port := by
  obtain ⟨cmd, cmd_name, response, nrc, emsg⟩ := env
  simp only at hc hn hr
  subst hc hn hr
  unfold EBB3_command_if4
  simp only [ifte, load_str, app2_ok, meth_startswith, ofP_ok, not_ok, ok_apply, truthy_bool]
  by_cases hs : Ebb3.startsWith name resp = true
  · simp only [hs, Bool.not_true, Bool.false_eq_true, ↓reduceIte, pass]
    exact ⟨emsg, w, rfl, rfl, hg, rfl, rfl⟩
  · simp only [hs, Bool.not_false, ↓reduceIte, Bool.false_eq_true, block_cons2, block_one]
    rw [seq_norm (cmd_if5 fuel _ c resp rfl rfl w)]
    obtain ⟨w', e1, e2, hg', hp', hport'⟩ := record_error_stmt fuel
      (if resp.isEmpty then Ebb3.Msg.cmdTimeout c else Ebb3.Msg.cmdUnexpected c resp)
      (⟨.str c, .str name, .str resp, nrc,
        .str (if resp.isEmpty then Ebb3.Msg.cmdTimeout c else Ebb3.Msg.cmdUnexpected c resp)⟩ : EBB3_command_Env)
      w hg (fun fuel env => load env.error_msg) rfl
    refine ⟨_, w', e1, ?_, hg', hp', hport'⟩
    by_cases he : resp.isEmpty = true
    · simp only [he, ↓reduceIte] at e2 ⊢
      exact e2
    · simp only [he, Bool.false_eq_true, ↓reduceIte] at e2 ⊢
      exact e2

/-- `if 'Err:' in response: …record_error…` -/
theorem cmd_if7 (fuel : Nat) (env : EBB3_command_Env) (c resp : List Char) (hc : env.cmd = .str c)
    (hr : env.response = .str resp) (w : World EBB3_Obj) (hg : Good w) :
    ∃ em w', EBB3_command_if7 fuel env w = .norm { env with error_msg := em } w' ∧
      (if Ebb3.hasErr resp then Ebb3.recordError (Ebb3.Msg.cmdErr c resp) else (pure () : Ebb3.M Ebb3.Script Unit))
        (absWorld w) = (.ok (), absWorld w') ∧
      Good w' ∧ w'.obj.port = w.obj.port ∧ w'.port = w.port := by
  obtain ⟨cmd, cmd_name, response, nrc, emsg⟩ := env
  simp only at hc hr
  subst hc hr
  unfold EBB3_command_if7
  have hin : op_in (.str ['E', 'r', 'r', ':']) (.str resp) = .ok (.bool (Ebb3.hasErr resp)) := by
    simp [op_in, Ebb3.hasErr]
  simp only [ifte, load_str, app2_ok, hin, ofP_ok, ok_apply, truthy_bool]
  by_cases hs : Ebb3.hasErr resp = true
  · simp only [hs, ↓reduceIte, block_cons2, block_one]
    have hmsg : ∀ e : Expr EBB3_Obj EBB3_command_Env,
        e fuel ⟨.str c, cmd_name, .str resp, nrc, emsg⟩ = ok (.str (Ebb3.Msg.cmdErr c resp)) →
        assign (fun (env : EBB3_command_Env) v => { env with error_msg := v }) e fuel
          ⟨.str c, cmd_name, .str resp, nrc, emsg⟩ w
          = .norm ⟨.str c, cmd_name, .str resp, nrc, .str (Ebb3.Msg.cmdErr c resp)⟩ w := by
      intro e he
      simp only [assign, he, ok_apply]
    rw [seq_norm (hmsg _ (by
      simp only [load_str, fstr, evalList_cons_ok, evalList_nil, app2_ok_left, bind_ok, op_add, ofP_ok, flatten_strs4,
        msg_cmdErr, List.cons_append, List.nil_append, List.append_assoc]))]
    obtain ⟨w', e1, e2, hg', hp', hport'⟩ := record_error_stmt fuel (Ebb3.Msg.cmdErr c resp)
      (⟨.str c, cmd_name, .str resp, nrc, .str (Ebb3.Msg.cmdErr c resp)⟩ : EBB3_command_Env)
      w hg (fun fuel env => load env.error_msg) rfl
    exact ⟨_, w', e1, e2, hg', hp', hport'⟩
  · simp only [hs, Bool.false_eq_true, ↓reduceIte, pass]
    exact ⟨emsg, w, rfl, rfl, hg, rfl, rfl⟩

/-- the body of the `except` clause: `if cmd_name.lower() not in ["rb", "r", "bl"]: …record_error…` -/
theorem cmd_if6 (fuel : Nat) (env : EBB3_command_Env) (c name : List Char) (hc : env.cmd = .str c)
    (hn : env.cmd_name = .str name) (w : World EBB3_Obj) (hg : Good w) :
    ∃ em w', EBB3_command_if6 fuel env w = .norm { env with error_msg := em } w' ∧
      (if Ebb3.srcParams.ignoreCmd.contains (Ebb3.lower name) then (pure () : Ebb3.M Ebb3.Script Unit)
       else Ebb3.recordError (Ebb3.Msg.cmdUsb c)) (absWorld w) = (.ok (), absWorld w') ∧
      Good w' ∧ w'.obj.port = w.obj.port ∧ w'.port = w.port := by
  obtain ⟨cmd, cmd_name, response, nrc, emsg⟩ := env
  simp only at hc hn
  subst hc hn
  unfold EBB3_command_if6
  have htest : (app2 op_not_in (app1 meth_lower (load (.str name)))
      (mkList [ok (.str ['r', 'b']), ok (.str ['r']), ok (.str ['b', 'l'])]) : Eff EBB3_Obj)
      = ok (.bool (!(Ebb3.srcParams.ignoreCmd.contains (Ebb3.lower name)))) := by
    simp only [load_str, app1_ok, meth_lower, ofP_ok, mkList, evalList_cons_ok, evalList_nil, app2_ok, op_not_in, op_in,
      List.any_cons, List.any_nil, pyEq, Bool.or_false, truthy_bool, srcIgnoreCmd, List.contains_cons, List.contains_nil]
  simp only [ifte, htest, ok_apply, truthy_bool]
  by_cases hs : Ebb3.srcParams.ignoreCmd.contains (Ebb3.lower name) = true
  · simp only [hs, Bool.not_true, Bool.false_eq_true, ↓reduceIte, pass]
    exact ⟨emsg, w, rfl, rfl, hg, rfl, rfl⟩
  · simp only [hs, Bool.not_false, ↓reduceIte, Bool.false_eq_true, block_cons2, block_one]
    have hmsg : ∀ e : Expr EBB3_Obj EBB3_command_Env,
        e fuel ⟨.str c, .str name, response, nrc, emsg⟩ = ok (.str (Ebb3.Msg.cmdUsb c)) →
        assign (fun (env : EBB3_command_Env) v => { env with error_msg := v }) e fuel
          ⟨.str c, .str name, response, nrc, emsg⟩ w
          = .norm ⟨.str c, .str name, response, nrc, .str (Ebb3.Msg.cmdUsb c)⟩ w := by
      intro e he
      simp only [assign, he, ok_apply]
    rw [seq_norm (hmsg _ (by
      simp only [load_str, fstr, evalList_cons_ok, evalList_nil, flatten_strs2, msg_cmdUsb]))]
    obtain ⟨w', e1, e2, hg', hp', hport'⟩ := record_error_stmt fuel (Ebb3.Msg.cmdUsb c)
      (⟨.str c, .str name, response, nrc, .str (Ebb3.Msg.cmdUsb c)⟩ : EBB3_command_Env)
      w hg (fun fuel env => load env.error_msg) rfl
    exact ⟨_, w', e1, e2, hg', hp', hport'⟩

/-- the first part of `commandJudge` on a reply -/
def judge1 (c name resp : List Char) : Ebb3.M Ebb3.Script Unit :=
  if Ebb3.startsWith name resp then pure ()
  else if resp.isEmpty then Ebb3.recordError (Ebb3.Msg.cmdTimeout c)
  else Ebb3.recordError (Ebb3.Msg.cmdUnexpected c resp)

/-- how the `try` block of `command` ends, against the model's `exchange` (and, for a reply, the first half of
`commandJudge`, which the Python code runs inside the `try`) -/
def TrySim (c name : List Char) (fl : Flow EBB3_Obj EBB3_command_Env) :
    Except Ebb3.PyExc (Option Ebb3.Str) × Ebb3.World Ebb3.Script → Prop
  | (.ok (some resp), aw1) => ∃ (env' : EBB3_command_Env) (w' : World EBB3_Obj), fl = .norm env' w' ∧
      env'.cmd = .str c ∧ env'.cmd_name = .str name ∧ env'.response = .str resp ∧
      judge1 c name resp aw1 = (.ok (), absWorld w') ∧ Good w' ∧ w'.obj.port = .port
  | (.ok Option.none, aw1) => ∃ (cl : PyIO.ExcClass) (env' : EBB3_command_Env) (w' : World EBB3_Obj), IoClass cl ∧
      fl = .exc cl env' w' ∧ env'.cmd = .str c ∧ env'.cmd_name = .str name ∧ env'.response = .str [] ∧
      absWorld w' = aw1 ∧ Good w' ∧ w'.obj.port = .port
  | (.error _, _) => False

theorem cmd_try1 (fuel : Nat) (hf : 26 ≤ fuel) (c name : List Char) (hc : PyIO.isAscii c = true) (nrc emsg : Val)
    (w : World EBB3_Obj) (hp : w.obj.port = .port) (hg : Good w) :
    TrySim c name (EBB3_command_try1 fuel ⟨.str c, .str name, .str [], nrc, emsg⟩ w)
      (Ebb3.exchange Ebb3.scriptDev Ebb3.srcParams.retryCmd c (absWorld w)) := by
  unfold EBB3_command_try1 Ebb3.exchange
  simp only [block_cons2, block_one, srcRetryCmd]
  -- the write
  have hasc : PyIO.isAscii (c ++ ['\r']) = true := by
    unfold PyIO.isAscii at hc ⊢
    simp only [List.all_append, hc, Bool.true_and, List.all_cons, List.all_nil, Bool.and_true]
    decide
  have hga : getattr (fun o : EBB3_Obj => o.port) w = (.ok .port, w) := by
    rw [getattr_apply (by simp [hp])]; simp only [hp]
  have hwr : ∀ r, meth_write .port (.bytes (c ++ ['\r'])) w = r →
      (fun (fuel : Nat) (env : EBB3_command_Env) => eff2 meth_write (getattr (·.port))
        (app2 meth_encode (app2 op_add (load env.cmd) (ok (.str ['\r']))) (ok (.str ['a', 's', 'c', 'i', 'i']))))
        fuel ⟨.str c, .str name, .str [], nrc, emsg⟩ w = r := by
    intro r hr
    subst hr
    simp only [load_str, app2_ok, op_add, ofP_ok, meth_encode, hasc, ↓reduceIte, eff2, PyObj.bind, hga, ok_apply]
  rcases write_sim (c ++ ['\r']) w hp hg with ⟨w1, e1, e2, ho1, hg1⟩ | ⟨cl, w1, hcl, e1, e2, ho1, hg1⟩
  · rw [seq_norm (expr_of (hwr _ e1)), Ebb3.bind_ok e2]
    simp only [↓reduceIte]
    have hp1 : w1.obj.port = .port := by rw [ho1, hp]
    -- the first read
    have hrest : Ebb3.readLoop Ebb3.scriptDev (25 + 1) (absWorld w1)
        = (Ebb3.portRead Ebb3.scriptDev >>= fun r => match r with
            | Option.none => pure Option.none
            | some l => if (Ebb3.strip l).isEmpty then Ebb3.readLoop Ebb3.scriptDev 25 else pure (some (Ebb3.strip l)))
          (absWorld w1) := rfl
    rw [hrest]
    rcases read_sim w1 hp1 hg1 with ⟨cl, w2, hcl, e3, e4, ho2, hg2, _⟩ | ⟨l, w2, e3, e4, ho2, hg2, _⟩
    · rw [seq_exc (assign_exc (e := fun (fuel : Nat) (env : EBB3_command_Env) => app1 meth_strip (app2 meth_decode (eff1 meth_readline (getattr (fun o : EBB3_Obj => o.port))) (ok (.str ['a', 's', 'c', 'i', 'i'])))) e3), Ebb3.bind_ok e4]
      exact ⟨cl, _, w2, hcl, rfl, rfl, rfl, rfl, rfl, hg2, by rw [ho2, hp1]⟩
    · rw [seq_norm (assign_of (e := fun (fuel : Nat) (env : EBB3_command_Env) => app1 meth_strip (app2 meth_decode (eff1 meth_readline (getattr (fun o : EBB3_Obj => o.port))) (ok (.str ['a', 's', 'c', 'i', 'i'])))) e3), Ebb3.bind_ok e4]
      rw [seq_norm (assign_of (set := fun (env : EBB3_command_Env) v => { env with n_retry_count := v })
        (e := fun _ _ => ok (.int 0)) (v := .int 0) (w' := w2) rfl)]
      have hp2 : w2.obj.port = .port := by rw [ho2, hp1]
      have hloop : LoopSim (σ := EBB3_command_Env) (fun env v => { env with response := v })
          (fun env v => { env with n_retry_count := v }) ⟨.str c, .str name, .str (Ebb3.strip l), .int 0, emsg⟩ w2
          (EBB3_command_loop1 fuel ⟨.str c, .str name, .str (Ebb3.strip l), .int 0, emsg⟩ w2)
          (restLoop 25 (Ebb3.strip l) (absWorld w2)) :=
        retryLoop_sim _ _ _ _ cmd_lens 25 fuel 25 (Nat.le_refl _) fuel (by omega)
          ⟨.str c, .str name, .str (Ebb3.strip l), .int 0, emsg⟩ (Ebb3.strip l) rfl rfl w2 hp2 hg2
      show TrySim c name (seq EBB3_command_loop1 EBB3_command_if4 fuel ⟨.str c, .str name, .str (Ebb3.strip l), .int 0, emsg⟩ w2)
        (restLoop 25 (Ebb3.strip l) (absWorld w2))
      generalize restLoop 25 (Ebb3.strip l) (absWorld w2) = r at hloop ⊢
      obtain ⟨res, aw3⟩ := r
      cases res with
      | error e => exact hloop
      | ok o =>
        cases o with
        | none =>
          obtain ⟨m, cl, w3, hcl, e5, e6, ho3, hg3, _⟩ := hloop
          rw [seq_exc e5]
          exact ⟨cl, _, w3, hcl, rfl, rfl, rfl, rfl, e6, hg3, by rw [ho3, hp2]⟩
        | some resp =>
          obtain ⟨m, w3, e5, e6, ho3, hg3, _⟩ := hloop
          rw [seq_norm e5]
          obtain ⟨em, w4, e7, e8, hg4, hp4, _⟩ := cmd_if4 fuel
            (⟨.str c, .str name, .str resp, .int m, emsg⟩ : EBB3_command_Env) c name resp rfl rfl rfl w3 hg3
          refine ⟨_, w4, e7, rfl, rfl, rfl, ?_, hg4, by rw [hp4, ho3, hp2]⟩
          rw [← e6]
          exact e8
  · rw [seq_exc (expr_exc (hwr _ e1)), Ebb3.bind_ok e2]
    exact ⟨cl, _, w1, hcl, rfl, rfl, rfl, rfl, rfl, hg1, by rw [ho1, hp]⟩

/-- the `except` clause of `command` -/
theorem cmd_dispatch (fuel : Nat) (env : EBB3_command_Env) (cl : PyIO.ExcClass) (w : World EBB3_Obj) :
    dispatch EBB3_command_handlers1 cl fuel env w =
      if PyIO.catches handlerClasses cl = true then EBB3_command_if6 fuel env w else .exc cl env w := by
  unfold EBB3_command_handlers1
  simp only [dispatch, Handler.matches, runHandler]
  rfl

/-! ### the guards -/

theorem getattr_port (w : World EBB3_Obj) (ho : ObjOk w.obj) :
    getattr (fun o : EBB3_Obj => o.port) w = (.ok w.obj.port, w) := by
  apply getattr_apply
  rcases ho.port with h | h <;> simp [h]

theorem getattr_err (w : World EBB3_Obj) (ho : ObjOk w.obj) :
    getattr (fun o : EBB3_Obj => o.err) w = (.ok w.obj.err, w) := by
  apply getattr_apply
  have := ho.err
  cases h : w.obj.err <;> rw [h] at this <;> simp_all [IsOptStr]

/-- `(self.port is None) or (self.err is not None)` is the model's `St.blocked` (the guard of 32 methods) -/
theorem guard2_eval (w : World EBB3_Obj) (ho : ObjOk w.obj) :
    (or_ (app1 op_is_none (getattr (fun o : EBB3_Obj => o.port))) (app1 op_is_not_none (getattr (fun o : EBB3_Obj => o.err)))) w
      = (.ok (.bool (absSt w.obj).blocked), w) := by
  rw [blocked_iff _ ho]
  have he := ho.err
  rcases ho.port with h | h <;> cases herr : w.obj.err <;> rw [herr] at he <;> simp only [IsOptStr] at he <;>
    simp [or_, app1, PyObj.bind, getattr_port w ho, getattr_err w ho, ofP, op_is_none, op_is_not_none, ok, h, herr,
      isNone, truthy]

/-- the three-way guard of `command` / `query` / `write_nickname`:
`(self.port is None) or (self.err is not None) or (<argument> is None)` -/
theorem guard3_eval (w : World EBB3_Obj) (ho : ObjOk w.obj) (x : Eff EBB3_Obj) :
    (or_ (app1 op_is_none (getattr (fun o : EBB3_Obj => o.port)))
      (or_ (app1 op_is_not_none (getattr (fun o : EBB3_Obj => o.err))) x)) w
      = if (absSt w.obj).blocked = true then (.ok (.bool true), w) else x w := by
  rw [blocked_iff _ ho]
  have he := ho.err
  rcases ho.port with h | h <;> cases herr : w.obj.err <;> rw [herr] at he <;> simp only [IsOptStr] at he <;>
    simp [or_, app1, PyObj.bind, getattr_port w ho, getattr_err w ho, ofP, op_is_none, op_is_not_none, ok, h, herr,
      isNone, truthy]

theorem not_blocked_port (o : EBB3_Obj) (ho : ObjOk o) (h : (absSt o).blocked = false) : o.port = .port := by
  rw [blocked_iff _ ho] at h
  rcases ho.port with hp | hp
  · exact hp
  · rw [hp] at h; simp [isNone] at h

theorem errIsNone_sim (w : World EBB3_Obj) (ho : ObjOk w.obj) :
    (Ebb3.errIsNone : Ebb3.M Ebb3.Script Ebb3.Val) (absWorld w) = (.ok (.bool (isNone w.obj.err)), absWorld w) := by
  have he := ho.err
  unfold Ebb3.errIsNone
  simp only [Ebb3.bind_apply, Ebb3.getSt_apply, Ebb3.pure_apply, absWorld, absSt]
  cases herr : w.obj.err <;> rw [herr] at he <;> simp_all [IsOptStr, isNone, absOpt]

theorem isAscii_nil : PyIO.isAscii [] = true := rfl

/-- **Bridge for `command`.**  For every object state and script of the domain (`Good w`), every request text
(ASCII after trimming) or `None`, and fuel ≥ 26, the regenerated `EBB3.command` ends exactly like the model's
`Ebb3.run srcParams scriptDev (.command req)` on the abstracted world: same value or same escaping exception, related
final worlds (attributes, script left, write log, read count), and the final world is in the domain again. -/
theorem command_bridge (fuel : Nat) (hf : 26 ≤ fuel) (req : Option Ebb3.Str)
    (hasc : ∀ s, req = some s → PyIO.isAscii (Ebb3.strip s) = true) (w : World EBB3_Obj) (hg : Good w) :
    Sim (EBB3_command fuel (encReq req) w)
      (Ebb3.run Ebb3.srcParams Ebb3.scriptDev (.command req) (absWorld w)) := by
  have ho := hg.obj
  unfold EBB3_command EBB3_command_main Ebb3.run
  show Sim (PyObj.run _ fuel _ w) (Ebb3.guardM (.bool false) (Ebb3.commandBody Ebb3.srcParams Ebb3.scriptDev req) (absWorld w))
  simp only [PyObj.run, block_cons2, block_one]
  -- the guard
  unfold Ebb3.guardM
  show Sim _ (if (absSt w.obj).blocked = true then _ else _)
  by_cases hb : (absSt w.obj).blocked = true
  · -- blocked: `False`, nothing touched
    rw [seq_ret (v := .bool false) (w' := w) (by
      unfold EBB3_command_if1
      simp only [ifte, guard3_eval w ho, hb, ↓reduceIte, truthy_bool, return_, ok_apply])]
    simp only [hb, ↓reduceIte]
    exact ⟨rfl, rfl, hg⟩
  · have hb' : (absSt w.obj).blocked = false := by simpa using hb
    have hp : w.obj.port = .port := not_blocked_port _ ho hb'
    simp only [hb', Bool.false_eq_true, ↓reduceIte]
    cases req with
    | none =>
      rw [seq_ret (v := .bool false) (w' := w) (by
        unfold EBB3_command_if1
        simp only [ifte, guard3_eval w ho, hb', Bool.false_eq_true, ↓reduceIte, encReq, load_none, app1_ok, op_is_none, isNone,
          ofP_ok, ok_apply, truthy_bool, return_])]
      exact ⟨rfl, rfl, hg⟩
    | some s =>
      have hc := hasc s rfl
      rw [seq_norm (env' := ⟨.str s, .unbound, .unbound, .unbound, .unbound⟩) (w' := w) (by
        unfold EBB3_command_if1
        simp only [ifte, guard3_eval w ho, hb', Bool.false_eq_true, ↓reduceIte, encReq, load_str, app1_ok, op_is_none, isNone,
          ofP_ok, ok_apply, truthy_bool, pass])]
      -- cmd = cmd.strip()
      rw [seq_norm (env' := ⟨.str (Ebb3.strip s), .unbound, .unbound, .unbound, .unbound⟩) (w' := w) (by
        simp only [assign, load_str, app1_ok, meth_strip, ofP_ok, ok_apply])]
      -- the name
      show Sim _ (Ebb3.commandCore Ebb3.srcParams Ebb3.scriptDev (Ebb3.strip s) (absWorld w))
      unfold Ebb3.commandCore
      rw [seq, cmd_if2 fuel _ (Ebb3.strip s) rfl w]
      cases hname : Ebb3.cmdName (Ebb3.strip s) with
      | error e =>
        simp only
        exact ⟨rfl, rfl, hg⟩
      | ok name =>
        simp only
        -- response = ''
        rw [seq_norm (env' := ⟨.str (Ebb3.strip s), .str name, .str [], .unbound, .unbound⟩) (w' := w) (by
          simp only [assign, ok_apply])]
        -- the try statement
        have htry := cmd_try1 fuel hf (Ebb3.strip s) name hc .unbound .unbound w hp hg
        rw [Ebb3.bind_apply]
        generalize Ebb3.exchange Ebb3.scriptDev Ebb3.srcParams.retryCmd (Ebb3.strip s) (absWorld w) = r at htry ⊢
        obtain ⟨res, aw1⟩ := r
        cases res with
        | error e => exact htry.elim
        | ok o =>
          simp only
          cases o with
          | some resp =>
            obtain ⟨env', w1, e1, hcmd, hnm, hresp, ej, hg1, hp1⟩ := htry
            have e1' : tryExcept EBB3_command_try1 EBB3_command_handlers1 fuel
                ⟨.str (Ebb3.strip s), .str name, .str [], .unbound, .unbound⟩ w = .norm env' w1 := by
              simp only [tryExcept, e1]
            rw [seq_norm e1']
            obtain ⟨em, w2, e2, ej2, hg2, hp2, _⟩ := cmd_if7 fuel env' (Ebb3.strip s) resp hcmd hresp w1 hg1
            rw [seq_norm e2]
            simp only [return_, app1, PyObj.bind, getattr_err w2 hg2.obj, ofP, op_is_none, b_bool, ok, truthy_bool]
            -- the model: commandJudge (some resp); errIsNone
            have hj : Ebb3.commandJudge Ebb3.srcParams (Ebb3.strip s) name (some resp) aw1 = (.ok (), absWorld w2) := by
              unfold Ebb3.commandJudge
              simp only []
              have ej' : (if Ebb3.startsWith name resp = true then (pure () : Ebb3.M Ebb3.Script Unit)
                  else if resp.isEmpty = true then Ebb3.recordError (Ebb3.Msg.cmdTimeout (Ebb3.strip s))
                  else Ebb3.recordError (Ebb3.Msg.cmdUnexpected (Ebb3.strip s) resp)) aw1 = (.ok (), absWorld w1) := ej
              rw [Ebb3.bind_ok ej']
              exact ej2
            rw [Ebb3.bind_ok hj, errIsNone_sim w2 hg2.obj]
            exact ⟨rfl, rfl, hg2⟩
          | none =>
            obtain ⟨cl, env', w1, hcl, e1, hcmd, hnm, hresp, ea, hg1, hp1⟩ := htry
            obtain ⟨em6, w2, e6, ej6, hg2, hp2, _⟩ := cmd_if6 fuel env' (Ebb3.strip s) name hcmd hnm w1 hg1
            have e1' : tryExcept EBB3_command_try1 EBB3_command_handlers1 fuel
                ⟨.str (Ebb3.strip s), .str name, .str [], .unbound, .unbound⟩ w = .norm { env' with error_msg := em6 } w2 := by
              simp only [tryExcept, e1, cmd_dispatch, show PyIO.catches handlerClasses cl = true from hcl, ↓reduceIte, e6]
            rw [seq_norm e1']
            obtain ⟨em, w3, e2, ej2, hg3, hp3, _⟩ := cmd_if7 fuel { env' with error_msg := em6 } (Ebb3.strip s) [] hcmd hresp w2 hg2
            rw [seq_norm e2]
            simp only [return_, app1, PyObj.bind, getattr_err w3 hg3.obj, ofP, op_is_none, b_bool, ok, truthy_bool]
            have hj : Ebb3.commandJudge Ebb3.srcParams (Ebb3.strip s) name Option.none aw1 = (.ok (), absWorld w3) := by
              unfold Ebb3.commandJudge
              simp only []
              rw [← ea]
              have hw23 : absWorld w3 = absWorld w2 := by
                have : (if Ebb3.hasErr [] = true then Ebb3.recordError (Ebb3.Msg.cmdErr (Ebb3.strip s) [])
                    else (pure () : Ebb3.M Ebb3.Script Unit)) (absWorld w2) = (.ok (), absWorld w2) := rfl
                rw [this] at ej2
                exact (Prod.mk.inj ej2).2.symm
              rw [hw23]
              exact ej6
            rw [Ebb3.bind_ok hj, errIsNone_sim w3 hg3.obj]
            exact ⟨rfl, rfl, hg3⟩

/-! ### trimming keeps ASCII text ASCII -/

theorem mem_rstrip {x : Char} : ∀ {s : List Char}, x ∈ Ebb3.rstrip s → x ∈ s := by
  intro s
  induction s with
  | nil => intro h; simp [Ebb3.rstrip] at h
  | cons c cs ih =>
    intro h
    unfold Ebb3.rstrip at h
    split at h
    · split at h
      · simp at h
      · simp only [List.mem_singleton] at h; subst h; exact List.mem_cons_self
    · next r hr =>
      rcases List.mem_cons.mp h with rfl | h'
      · exact List.mem_cons_self
      · exact List.mem_cons_of_mem _ (ih h')

theorem isAscii_strip (s : List Char) (h : PyIO.isAscii s = true) : PyIO.isAscii (Ebb3.strip s) = true := by
  unfold PyIO.isAscii at h ⊢
  rw [List.all_eq_true] at h ⊢
  intro x hx
  exact h x ((List.dropWhile_sublist _).subset (mem_rstrip hx))

/-- `command_bridge` for an ASCII request text -/
theorem command_bridge_ascii (fuel : Nat) (hf : 26 ≤ fuel) (req : Option Ebb3.Str)
    (hasc : ∀ s, req = some s → PyIO.isAscii s = true) (w : World EBB3_Obj) (hg : Good w) :
    Sim (EBB3_command fuel (encReq req) w)
      (Ebb3.run Ebb3.srcParams Ebb3.scriptDev (.command req) (absWorld w)) :=
  command_bridge fuel hf req (fun s hs => isAscii_strip s (hasc s hs)) w hg

end Command

end Ebb3Gen
end Plotink
