import Plotink.Model.C09
import Mathlib.Tactic.Linarith
import Mathlib.Tactic.Ring
import Mathlib.Tactic.FieldSimp
import Mathlib.Tactic.Positivity
import Mathlib.Tactic.SplitIfs
import Mathlib.Tactic.Push
import Mathlib.Tactic.LinearCombination
import Mathlib.Algebra.Order.Field.Basic
import Mathlib.Algebra.Order.Field.Rat

/-! Geometry lemmas for C09: the three-region formula is the minimum squared distance to the segment. -/
namespace Plotink
namespace C09

theorem distSq_le_atSq (a b p : Pt) (t : Rat) (h0 : 0 ≤ t) (h1 : t ≤ 1) :
    distSq a b p ≤ atSq a b p t := by
  obtain ⟨ax, ay⟩ := a; obtain ⟨bx, by_⟩ := b; obtain ⟨px, py⟩ := p
  unfold distSq atSq
  simp only
  split_ifs with hc1 hc2
  · nlinarith [mul_nonneg h0 (neg_nonneg.mpr hc1),
      mul_nonneg (mul_nonneg h0 h0) (add_nonneg (mul_self_nonneg (bx - ax)) (mul_self_nonneg (by_ - ay)))]
  · have ht : 0 ≤ 1 - t := by linarith
    have hc : 0 ≤ (px - ax) * (bx - ax) + (py - ay) * (by_ - ay)
        - ((bx - ax) * (bx - ax) + (by_ - ay) * (by_ - ay)) := by linarith
    nlinarith [mul_nonneg ht hc,
      mul_nonneg ht (mul_nonneg ht (add_nonneg (mul_self_nonneg (bx - ax)) (mul_self_nonneg (by_ - ay))))]
  · push Not at hc1 hc2
    have hc2pos : 0 < (bx - ax) * (bx - ax) + (by_ - ay) * (by_ - ay) := lt_trans hc1 hc2
    rw [div_le_iff₀ hc2pos]
    nlinarith [mul_self_nonneg (t * ((bx - ax) * (bx - ax) + (by_ - ay) * (by_ - ay))
      - ((px - ax) * (bx - ax) + (py - ay) * (by_ - ay)))]

theorem distSq_attained (a b p : Pt) :
    ∃ t : Rat, 0 ≤ t ∧ t ≤ 1 ∧ atSq a b p t = distSq a b p := by
  obtain ⟨ax, ay⟩ := a; obtain ⟨bx, by_⟩ := b; obtain ⟨px, py⟩ := p
  unfold distSq atSq
  simp only
  split_ifs with hc1 hc2
  · exact ⟨0, le_refl _, by norm_num, by ring⟩
  · exact ⟨1, by norm_num, le_refl _, by ring⟩
  · push Not at hc1 hc2
    have hc2pos : 0 < (bx - ax) * (bx - ax) + (by_ - ay) * (by_ - ay) := lt_trans hc1 hc2
    have hne : (bx - ax) * (bx - ax) + (by_ - ay) * (by_ - ay) ≠ 0 := ne_of_gt hc2pos
    obtain ⟨t, ht⟩ : ∃ t : Rat, t * ((bx - ax) * (bx - ax) + (by_ - ay) * (by_ - ay))
        = (px - ax) * (bx - ax) + (py - ay) * (by_ - ay) := ⟨_, div_mul_cancel₀ _ hne⟩
    have ht0 : 0 ≤ t := by
      by_contra hneg; push Not at hneg
      nlinarith [mul_pos_of_neg_of_neg hneg (neg_neg_of_pos hc2pos)]
    have ht1 : t ≤ 1 := by
      by_contra hgt; push Not at hgt
      nlinarith [mul_pos (sub_pos.mpr hgt) hc2pos]
    refine ⟨t, ht0, ht1, ?_⟩
    rw [eq_div_iff hne]
    linear_combination (t * ((bx - ax) * (bx - ax) + (by_ - ay) * (by_ - ay))
      - ((px - ax) * (bx - ax) + (py - ay) * (by_ - ay))) * ht

theorem distSq_nonneg (a b p : Pt) : 0 ≤ distSq a b p := by
  obtain ⟨t, _, _, ht⟩ := distSq_attained a b p
  rw [← ht]; unfold atSq; exact add_nonneg (mul_self_nonneg _) (mul_self_nonneg _)

/-- the unrolled per-point test of `points_in_tolerance` is "squared distance < tol²" -/
theorem ptOk_iff (s0 s1 : Pt) (tolSq : Rat) (p : Pt) :
    ptOk s0 s1 tolSq p = true ↔ distSq s0 s1 p < tolSq := by
  obtain ⟨ax, ay⟩ := s0; obtain ⟨bx, by_⟩ := s1; obtain ⟨px, py⟩ := p
  unfold ptOk distSq
  simp only [ge_iff_le]
  split_ifs with h1 h2 h3 h4 h5 h6 <;> simp_all
  · -- segLenSq = 0 yet temp1 > 0 and segLenSq > temp1: impossible
    linarith
  
end C09
end Plotink
