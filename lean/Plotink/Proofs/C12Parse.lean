import Plotink.Model.C12
import Plotink.Proofs.C11Str
import Plotink.Proofs.PyFloatLast
/-! The suffix cascade of `parseLengthWithUnits` on `blanks ++ numeral ++ unit ++ blanks`. -/
namespace Plotink
namespace C12
open PyFloat

theorem lastN_append_len (b u : List Char) : lastN u.length (b ++ u) = u := by
  simp [lastN]

theorem dropLastN_append_len (b u : List Char) : dropLastN u.length (b ++ u) = b := by
  simp [dropLastN]

theorem lastN2_two (b : List Char) (x y : Char) : lastN 2 (b ++ [x, y]) = [x, y] :=
  lastN_append_len b [x, y]
theorem dropLastN2_two (b : List Char) (x y : Char) : dropLastN 2 (b ++ [x, y]) = b :=
  dropLastN_append_len b [x, y]
theorem lastN1_one (b : List Char) (x : Char) : lastN 1 (b ++ [x]) = [x] :=
  lastN_append_len b [x]
theorem dropLastN1_one (b : List Char) (x : Char) : dropLastN 1 (b ++ [x]) = b :=
  dropLastN_append_len b [x]

/-- the last character of `s[-2:]` is the last character of `s` -/
theorem lastN2_snoc_ne (b : List Char) (d p q : Char) (h : q ≠ d) : lastN 2 (b ++ [d]) ≠ [p, q] := by
  intro e
  have h1 : (lastN 2 (b ++ [d])).getLast? = some d := by
    unfold lastN
    rw [List.getLast?_drop]
    simp
    omega
  rw [e] at h1
  simp at h1
  exact h h1

/-- the canonical unit the parser reports -/
def canonUnit (u : List Char) : List Char :=
  if u = [] then ['p', 'x'] else if u = ['q'] then ['Q'] else u

theorem digit_toNat (d : Char) (h : isDigit d = true) : 48 ≤ d.toNat ∧ d.toNat ≤ 57 := by
  simpa [isDigit] using h

theorem splitUnit_none (b : List Char) (d : Char) (hd : isDigit d = true ∨ d = '.') :
    splitUnit (b ++ [d]) = (b ++ [d], ['p', 'x']) := by
  have ne : ∀ c : Char, (isDigit c = false ∧ c ≠ '.') → c ≠ d := by
    intro c hc e
    subst e
    rcases hd with h | h
    · rw [h] at hc; exact absurd hc.1 (by simp)
    · exact hc.2 h
  have hx := lastN2_snoc_ne b d 'p' 'x' (ne 'x' (by decide))
  have hn := lastN2_snoc_ne b d 'i' 'n' (ne 'n' (by decide))
  have hm := lastN2_snoc_ne b d 'm' 'm' (ne 'm' (by decide))
  have hcm := lastN2_snoc_ne b d 'c' 'm' (ne 'm' (by decide))
  have ht := lastN2_snoc_ne b d 'p' 't' (ne 't' (by decide))
  have hc := lastN2_snoc_ne b d 'p' 'c' (ne 'c' (by decide))
  have hQ : lastN 1 (b ++ [d]) ≠ ['Q'] := by
    rw [lastN1_one]; intro e; injection e with e _; exact ne 'Q' (by decide) e.symm
  have hq : lastN 1 (b ++ [d]) ≠ ['q'] := by
    rw [lastN1_one]; intro e; injection e with e _; exact ne 'q' (by decide) e.symm
  have hp : lastN 1 (b ++ [d]) ≠ ['%'] := by
    rw [lastN1_one]; intro e; injection e with e _; exact ne '%' (by decide) e.symm
  unfold splitUnit
  simp only [hx, hn, hm, hcm, ht, hc, hQ, hq, hp, if_false, or_self]

/-- numeral (ending in a digit or `.`) followed by one of the ten unit spellings -/
theorem splitUnit_spec (b : List Char) (d : Char) (hd : isDigit d = true ∨ d = '.') (u : List Char)
    (hu : u ∈ [[], ['p','x'], ['i','n'], ['m','m'], ['c','m'], ['p','t'], ['p','c'], ['Q'], ['q'], ['%']]) :
    splitUnit ((b ++ [d]) ++ u) = (b ++ [d], canonUnit u) := by
  simp only [List.mem_cons, List.not_mem_nil, or_false] at hu
  rcases hu with rfl | rfl | rfl | rfl | rfl | rfl | rfl | rfl | rfl | rfl
  · rw [List.append_nil, splitUnit_none b d hd]; rfl
  all_goals first
    | (unfold splitUnit; rw [lastN2_two, dropLastN2_two]; simp [canonUnit]; done)
    | skip
  all_goals
    have e2 : ∀ x : Char, lastN 2 ((b ++ [d]) ++ [x]) = [d, x] := by
      intro x; rw [List.append_assoc]; exact lastN2_two b d x
    unfold splitUnit
    rw [e2, lastN1_one, dropLastN1_one]
    simp [canonUnit]

theorem unit_last_nonspace (u : List Char)
    (hu : u ∈ [[], ['p','x'], ['i','n'], ['m','m'], ['c','m'], ['p','t'], ['p','c'], ['Q'], ['q'], ['%']]) :
    ∀ c, u.getLast? = some c → isPySpace c = false := by
  simp only [List.mem_cons, List.not_mem_nil, or_false] at hu
  rcases hu with rfl | rfl | rfl | rfl | rfl | rfl | rfl | rfl | rfl | rfl <;> intro c hc <;>
    simp at hc <;> subst hc <;> decide

theorem digit_or_dot_nonspace (d : Char) (hd : isDigit d = true ∨ d = '.') : isPySpace d = false := by
  rcases hd with h | h
  · have := digit_toNat d h
    simp only [isPySpace, isCSpace]
    simp
    omega
  · subst h; decide

/-- `parseLengthWithUnits` on `blanks ++ numeral ++ unit ++ blanks` -/
theorem parseLength_spec (ws ws' body u : List Char) (v : Num)
    (hws : ∀ c ∈ ws, isPySpace c = true) (hws' : ∀ c ∈ ws', isPySpace c = true)
    (hv : parseFloat body = some v)
    (hfirst : ∀ c, body.head? = some c → isPySpace c = false)
    (hlast : ∃ d, body.getLast? = some d ∧ (isDigit d = true ∨ d = '.'))
    (hu : u ∈ [[], ['p','x'], ['i','n'], ['m','m'], ['c','m'], ['p','t'], ['p','c'], ['Q'], ['q'], ['%']]) :
    parseLength (some (ws ++ ((body ++ u) ++ ws'))) = some (v, canonUnit u) := by
  obtain ⟨d, hd, hdd⟩ := hlast
  obtain ⟨b, rfl⟩ : ∃ b, body = b ++ [d] := by
    rw [List.getLast?_eq_some_iff] at hd; exact hd
  have hstrip : pyStrip (ws ++ (((b ++ [d]) ++ u) ++ ws')) = (b ++ [d]) ++ u := by
    apply stripBy_core isPySpace ws _ ws' hws hws'
    · intro c hc
      apply hfirst c
      cases b <;> simpa using hc
    · intro c hc
      by_cases hue : u = []
      · subst hue
        simp at hc
        subst hc
        exact digit_or_dot_nonspace _ hdd
      · rw [List.getLast?_append] at hc
        cases hul : u.getLast? with
        | none => exact absurd (List.getLast?_eq_none_iff.mp hul) hue
        | some e =>
          rw [hul] at hc
          simp at hc
          subst hc
          exact unit_last_nonspace u hu _ hul
  unfold parseLength
  simp only [hstrip, splitUnit_spec b d hdd u hu, hv]

/-! ### rejection -/

theorem pyStrip_last_nonspace (s : List Char) (c : Char) (h : (pyStrip s).getLast? = some c) :
    isPySpace c = false := by
  unfold pyStrip stripBy at h
  rw [List.getLast?_reverse] at h
  cases hb : isPySpace c with
  | false => rfl
  | true =>
    exfalso
    have := List.head?_dropWhile_not isPySpace (s.dropWhile isPySpace).reverse
    rw [h] at this
    simp [hb] at this

theorem isCSpace_of_not_pySpace (c : Char) (h : isPySpace c = false) : isCSpace c = false := by
  unfold isPySpace at h
  simp only [Bool.or_eq_false_iff] at h
  exact h.1

theorem splitUnit_unrecognized (t : List Char)
    (h2 : lastN 2 t ∉ [['p','x'], ['i','n'], ['m','m'], ['c','m'], ['p','t'], ['p','c']])
    (h1 : lastN 1 t ∉ [['Q'], ['q'], ['%']]) : splitUnit t = (t, ['p', 'x']) := by
  simp only [List.mem_cons, List.not_mem_nil, or_false, not_or] at h2 h1
  unfold splitUnit
  simp only [h2.1, h2.2.1, h2.2.2.1, h2.2.2.2.1, h2.2.2.2.2.1, h2.2.2.2.2.2, h1.1, h1.2.1, h1.2.2, if_false, or_self]

/-- when the parser yields `None`, so do the three functions that call it -/
theorem none_of_parse_none (s : List Char) (h : parseLength (some s) = none) :
    (∀ ref, unitsToUserUnits (some s) ref = .none) ∧ (s ≠ [] → ∀ d, getLength (some s) d = .none) ∧
    getLengthInches (some s) = .none := by
  refine ⟨fun ref => by unfold unitsToUserUnits; rw [h], fun hs d => ?_, ?_⟩
  · unfold getLength; simp only [hs, if_false]; rw [h]
  · unfold getLengthInches
    by_cases hs : s = []
    · simp [hs]
    · simp only [hs, if_false]; rw [h]

/-- text ending in an unsupported suffix -/
theorem parseLength_reject_suffix (s : List Char) (c : Char) (hc : (pyStrip s).getLast? = some c)
    (hd : isDigit c = false) (hdot : c ≠ '.') (hfyn : lowerAscii c ∉ ['f', 'y', 'n'])
    (h2 : lastN 2 (pyStrip s) ∉ [['p','x'], ['i','n'], ['m','m'], ['c','m'], ['p','t'], ['p','c']])
    (h1 : c ∉ ['Q', 'q', '%']) : parseLength (some s) = none := by
  have hsp := isCSpace_of_not_pySpace c (pyStrip_last_nonspace s c hc)
  simp only [List.mem_cons, List.not_mem_nil, or_false, not_or] at hfyn h1
  have hl1 : lastN 1 (pyStrip s) = [c] := by
    obtain ⟨b, hb⟩ := List.getLast?_eq_some_iff.mp hc
    rw [hb]; exact lastN1_one b c
  have hsu := splitUnit_unrecognized (pyStrip s) h2 (by
    rw [hl1]
    simp only [List.mem_cons, List.not_mem_nil, or_false, not_or, List.cons.injEq, and_true]
    exact ⟨h1.1, h1.2.1, h1.2.2⟩)
  unfold parseLength
  simp only [hsu, parseFloat_reject (pyStrip s) c hc hsp hd hdot hfyn.1 hfyn.2.1 hfyn.2.2]

/-- a unit (or nothing) without a number -/
theorem parseLength_reject_nonum (ws ws' u : List Char)
    (hws : ∀ c ∈ ws, isPySpace c = true) (hws' : ∀ c ∈ ws', isPySpace c = true)
    (hu : u ∈ [[], ['p','x'], ['i','n'], ['m','m'], ['c','m'], ['p','t'], ['p','c'], ['Q'], ['q'], ['%']]) :
    parseLength (some (ws ++ (u ++ ws'))) = none := by
  have hstrip : pyStrip (ws ++ (u ++ ws')) = u := by
    apply stripBy_core isPySpace ws u ws' hws hws'
    · simp only [List.mem_cons, List.not_mem_nil, or_false] at hu
      rcases hu with rfl | rfl | rfl | rfl | rfl | rfl | rfl | rfl | rfl | rfl <;> intro c hc <;>
        simp at hc <;> subst hc <;> decide
    · exact unit_last_nonspace u hu
  unfold parseLength
  simp only [hstrip]
  simp only [List.mem_cons, List.not_mem_nil, or_false] at hu
  rcases hu with rfl | rfl | rfl | rfl | rfl | rfl | rfl | rfl | rfl | rfl <;> decide

end C12
end Plotink
