import Plotink.Model.Ebb3
/-!
Lemmas behind C04 (and reused by C05): the monad laws needed for symbolic execution, the guard
lemma, "a recorded error is kept" (`KeepsErr`) and "no I/O" (`NoIO`) as compositional predicates.
Core Lean only.
-/
namespace Plotink
namespace Ebb3
open M

variable {σ : Type} {α β : Type}

/-! ### symbolic execution of `M` -/

@[simp] theorem pure_apply (a : α) (w : World σ) : (Pure.pure a : M σ α) w = (.ok a, w) := rfl
@[simp] theorem ret_apply (a : α) (w : World σ) : (M.ret a : M σ α) w = (.ok a, w) := rfl
@[simp] theorem raise_apply (e : PyExc) (w : World σ) : (M.raise e : M σ α) w = (.error e, w) := rfl
@[simp] theorem getSt_apply (w : World σ) : (getSt : M σ St) w = (.ok w.st, w) := rfl
@[simp] theorem modifySt_apply (f : St → St) (w : World σ) :
    (modifySt f : M σ Unit) w = (.ok (), { w with st := f w.st }) := rfl

theorem bind_apply (x : M σ α) (f : α → M σ β) (w : World σ) :
    (x >>= f) w = match x w with
      | (.ok a, w') => f a w'
      | (.error e, w') => (.error e, w') := rfl

theorem bind_ok {x : M σ α} {f : α → M σ β} {w w' : World σ} {a : α} (h : x w = (.ok a, w')) :
    (x >>= f) w = f a w' := by
  simp [bind_apply, h]

theorem bind_error {x : M σ α} {f : α → M σ β} {w w' : World σ} {e : PyExc} (h : x w = (.error e, w')) :
    (x >>= f) w = (.error e, w') := by
  simp [bind_apply, h]

@[simp] theorem ofOption_some (e : PyExc) (a : α) (w : World σ) :
    (ofOption e (some a) : M σ α) w = (.ok a, w) := rfl
@[simp] theorem ofOption_none (e : PyExc) (w : World σ) :
    (ofOption e (Option.none : Option α) : M σ α) w = (.error e, w) := rfl

/-! ### the guard -/

theorem guardM_blocked (fv : Val) (body : M σ Val) (w : World σ) (h : w.st.blocked = true) :
    guardM fv body w = (.ok fv, w) := by
  simp [guardM, h]

theorem guardM_open (fv : Val) (body : M σ Val) (w : World σ) (h : w.st.blocked = false) :
    guardM fv body w = body w := by
  simp [guardM, h]

theorem Prog.run_blocked (p : Prog σ) (fv : Val) (hg : p.guard = some fv) (w : World σ)
    (h : w.st.blocked = true) : p.run w = (.ok fv, w) := by
  simp [Prog.run, hg, guardM_blocked _ _ _ h]

theorem blocked_of_err {st : St} {e : Str} (h : st.err = some e) : st.blocked = true := by
  simp [St.blocked, h]

theorem blocked_of_noport {st : St} (h : st.port = false) : st.blocked = true := by
  simp [St.blocked, h]

/-- every call's guard is the table's entry for its method -/
theorem prog_guard (P : Params) (D : Device σ) (c : Call) : (prog P D c).guard = guardOf c.method := by
  cases c <;> rfl

/-- all members of the enumeration -/
theorem Method.mem_all (m : Method) : m ∈ Method.all := by
  cases m <;> decide

/-- the checked fact about the table: every request method carries the guard -/
theorem request_guarded_all : ∀ m ∈ Method.all, m.isRequest = true → (guardOf m).isSome = true := by
  decide

theorem request_guarded (m : Method) (h : m.isRequest = true) : (guardOf m).isSome = true :=
  request_guarded_all m (Method.mem_all m) h

/-- the value a method returns when it is blocked -/
def blockedVal (m : Method) : Val := (guardOf m).getD .none

theorem guardOf_request (m : Method) (h : m.isRequest = true) : guardOf m = some (blockedVal m) := by
  have := request_guarded m h
  unfold blockedVal
  cases hg : guardOf m with
  | none => simp [hg] at this
  | some v => rfl

/-- generic lemma: a request call in a blocked state returns its failure value and leaves the whole
world (object, device, write log, read counter) untouched -/
theorem run_blocked (P : Params) (D : Device σ) (c : Call) (hc : c.method.isRequest = true)
    (w : World σ) (h : w.st.blocked = true) : run P D c w = (.ok (blockedVal c.method), w) := by
  unfold run
  exact Prog.run_blocked _ _ (by rw [prog_guard, guardOf_request _ hc]) w h

/-! ### a recorded error is kept -/

/-- the computation never replaces a recorded error message -/
def KeepsErr (x : M σ α) : Prop := ∀ (w : World σ) (e : Str), w.st.err = some e → (x w).2.st.err = some e

theorem KeepsErr.pure (a : α) : KeepsErr (Pure.pure a : M σ α) := fun _ _ h => h
theorem KeepsErr.raise (e : PyExc) : KeepsErr (M.raise e : M σ α) := fun _ _ h => h
theorem KeepsErr.getSt : KeepsErr (getSt : M σ St) := fun _ _ h => h

theorem KeepsErr.bind {x : M σ α} {f : α → M σ β} (hx : KeepsErr x) (hf : ∀ a, KeepsErr (f a)) :
    KeepsErr (x >>= f) := by
  intro w e h
  have h1 := hx w e h
  rw [bind_apply]
  rcases hxw : x w with ⟨r, w'⟩
  rw [hxw] at h1
  cases r with
  | ok a => exact hf a w' e h1
  | error _ => exact h1

theorem KeepsErr.modifySt {f : St → St} (hf : ∀ st, (f st).err = st.err) : KeepsErr (modifySt f : M σ Unit) := by
  intro w e h
  simp [hf, h]

theorem recordErrorSt_keeps (msg : Str) (st : St) (e : Str) (h : st.err = some e) :
    (recordErrorSt msg st).err = some e := by
  simp [recordErrorSt, h]

theorem KeepsErr.recordError (msg : Str) : KeepsErr (recordError msg : M σ Unit) := by
  intro w e h
  simp [Ebb3.recordError, recordErrorSt_keeps msg w.st e h]

theorem KeepsErr.disconnectM : KeepsErr (disconnectM : M σ Unit) :=
  KeepsErr.modifySt (fun _ => rfl)

theorem KeepsErr.portWrite (D : Device σ) (t : Str) : KeepsErr (portWrite D t) := fun _ _ h => h
theorem KeepsErr.portRead (D : Device σ) : KeepsErr (portRead D) := fun _ _ h => h
theorem KeepsErr.portReset (D : Device σ) : KeepsErr (portReset D) := fun _ _ h => h

theorem KeepsErr.ite {c : Prop} [Decidable c] {x y : M σ α} (hx : KeepsErr x) (hy : KeepsErr y) :
    KeepsErr (if c then x else y) := by
  split <;> assumption

theorem KeepsErr.guardM {fv : Val} {body : M σ Val} (hb : KeepsErr body) : KeepsErr (guardM fv body) := by
  intro w e h
  unfold Ebb3.guardM
  split
  · exact h
  · exact hb w e h

/-- a guarded program keeps a recorded error whatever its body is: it is blocked -/
theorem KeepsErr.guarded (p : Prog σ) (fv : Val) (hg : p.guard = some fv) : KeepsErr p.run := by
  intro w e h
  rw [Prog.run_blocked p fv hg w (blocked_of_err h)]
  exact h

theorem KeepsErr.probe (D : Device σ) : KeepsErr (probe D) := by
  unfold Ebb3.probe
  refine KeepsErr.bind (KeepsErr.portWrite D _) (fun b => ?_)
  cases b
  · exact KeepsErr.pure _
  · refine KeepsErr.bind (KeepsErr.portRead D) (fun r => ?_)
    cases r <;> exact KeepsErr.pure _

theorem KeepsErr.parseVersionM (s : Str) : KeepsErr (parseVersionM s : M σ Unit) := by
  unfold Ebb3.parseVersionM
  split
  · exact KeepsErr.pure _
  · refine KeepsErr.bind (KeepsErr.modifySt (fun _ => rfl)) (fun _ => ?_)
    split
    · exact KeepsErr.modifySt (fun _ => rfl)
    · exact KeepsErr.raise _

theorem KeepsErr.minVersionM (s : Str) : KeepsErr (minVersionM s : M σ Val) := by
  unfold Ebb3.minVersionM
  split
  · exact KeepsErr.pure _
  · refine KeepsErr.bind KeepsErr.getSt (fun st => ?_)
    split
    · exact KeepsErr.raise _
    · exact KeepsErr.pure _

theorem KeepsErr.setVersion (v : Str) : KeepsErr (setVersion v : M σ Unit) := by
  unfold Ebb3.setVersion
  refine KeepsErr.bind (KeepsErr.modifySt (fun _ => rfl)) (fun _ => ?_)
  split
  · exact KeepsErr.modifySt (fun _ => rfl)
  · exact KeepsErr.raise _

macro "keeps_step" : tactic => `(tactic| first
  | exact KeepsErr.pure _ | exact KeepsErr.raise _ | exact KeepsErr.getSt
  | exact KeepsErr.recordError _ | exact KeepsErr.disconnectM | exact KeepsErr.portWrite _ _
  | exact KeepsErr.portRead _ | exact KeepsErr.portReset _ | exact KeepsErr.probe _
  | exact KeepsErr.parseVersionM _ | exact KeepsErr.minVersionM _
  | exact KeepsErr.modifySt (fun _ => rfl)
  | exact KeepsErr.guarded _ _ rfl
  | refine KeepsErr.bind ?_ (fun _ => ?_)
  | split)

theorem KeepsErr.getPortName (g f : Option Str) : KeepsErr (getPortName g f : M σ Unit) := by
  unfold Ebb3.getPortName
  repeat keeps_step

theorem KeepsErr.probeFail (pn : Str) : KeepsErr (probeFail pn : M σ (Option Str)) := by
  unfold Ebb3.probeFail
  repeat keeps_step

theorem KeepsErr.identify (D : Device σ) (pn : Str) (o : Bool) : KeepsErr (identify D pn o) := by
  unfold Ebb3.identify
  repeat (first | exact KeepsErr.probeFail _ | keeps_step)

theorem KeepsErr.setCaller (c : Option Str) : KeepsErr (setCaller c : M σ Unit) := by
  unfold Ebb3.setCaller
  repeat keeps_step

theorem KeepsErr.enterFuture (P : Params) (D : Device σ) (c : Option Str) : KeepsErr (enterFuture P D c) := by
  unfold Ebb3.enterFuture
  repeat (first | exact KeepsErr.setCaller _ | keeps_step)

theorem KeepsErr.checkVersion (P : Params) (D : Device σ) (c : Option Str) (sv : Str) :
    KeepsErr (checkVersion P D c sv) := by
  unfold Ebb3.checkVersion
  repeat (first | exact KeepsErr.enterFuture _ _ _ | keeps_step)

theorem KeepsErr.connectFailed (pn : Str) : KeepsErr (connectFailed pn : M σ Val) := by
  unfold Ebb3.connectFailed
  repeat keeps_step

theorem KeepsErr.connectBody (P : Params) (D : Device σ) (g c f : Option Str) (o : Bool) :
    KeepsErr (connectBody P D g c f o) := by
  unfold Ebb3.connectBody
  repeat (first | exact KeepsErr.getPortName _ _ | exact KeepsErr.identify _ _ _ | exact KeepsErr.connectFailed _ | exact KeepsErr.checkVersion _ _ _ _ | keeps_step)


/-- every public method keeps a recorded error message -/
theorem run_keepsErr (P : Params) (D : Device σ) (c : Call) : KeepsErr (run P D c) := by
  by_cases hr : c.method.isRequest = true
  · exact KeepsErr.guarded _ _ (by rw [prog_guard, guardOf_request _ hr])
  · cases c <;> first | exact (hr rfl).elim | skip
    case find_first f =>
      show KeepsErr (findFirstP f).body
      unfold findFirstP; repeat keeps_step
    case record_error m =>
      show KeepsErr (recordErrorP m).body
      unfold recordErrorP; repeat keeps_step
    case parse_version s =>
      show KeepsErr (parseVersionP s).body
      unfold parseVersionP; repeat keeps_step
    case disconnect =>
      show KeepsErr (disconnectP).body
      unfold disconnectP; repeat keeps_step
    case connect g cl f o => exact KeepsErr.connectBody P D g cl f o
    case min_version v => exact KeepsErr.minVersionM v

/-! ### no I/O -/

/-- the computation performs no port operation -/
def NoIO (x : M σ α) : Prop :=
  ∀ w : World σ, (x w).2.dev = w.dev ∧ (x w).2.out = w.out ∧ (x w).2.nreads = w.nreads

theorem NoIO.pure (a : α) : NoIO (Pure.pure a : M σ α) := fun _ => ⟨rfl, rfl, rfl⟩
theorem NoIO.raise (e : PyExc) : NoIO (M.raise e : M σ α) := fun _ => ⟨rfl, rfl, rfl⟩
theorem NoIO.getSt : NoIO (getSt : M σ St) := fun _ => ⟨rfl, rfl, rfl⟩
theorem NoIO.modifySt (f : St → St) : NoIO (modifySt f : M σ Unit) := fun _ => ⟨rfl, rfl, rfl⟩
theorem NoIO.recordError (m : Str) : NoIO (recordError m : M σ Unit) := fun _ => ⟨rfl, rfl, rfl⟩
theorem NoIO.disconnectM : NoIO (disconnectM : M σ Unit) := fun _ => ⟨rfl, rfl, rfl⟩

theorem NoIO.bind {x : M σ α} {f : α → M σ β} (hx : NoIO x) (hf : ∀ a, NoIO (f a)) : NoIO (x >>= f) := by
  intro w
  have h1 := hx w
  rw [bind_apply]
  rcases hxw : x w with ⟨r, w'⟩
  rw [hxw] at h1
  cases r with
  | ok a =>
    have h2 := hf a w'
    exact ⟨h2.1.trans h1.1, h2.2.1.trans h1.2.1, h2.2.2.trans h1.2.2⟩
  | error _ => exact h1

macro "noio_step" : tactic => `(tactic| first
  | exact NoIO.pure _ | exact NoIO.raise _ | exact NoIO.getSt | exact NoIO.modifySt _
  | exact NoIO.recordError _ | exact NoIO.disconnectM
  | refine NoIO.bind ?_ (fun _ => ?_)
  | split)

/-- the helper methods and `disconnect` perform no port I/O -/
theorem run_noIO (P : Params) (D : Device σ) (c : Call)
    (hc : c.method.isHelper = true ∨ c.method = .disconnect) : NoIO (run P D c) := by
  cases c <;> first | (rcases hc with h | h <;> simp [Call.method, Method.isHelper] at h; done) | skip
  case find_first f =>
    show NoIO (findFirstP f).body
    unfold findFirstP; repeat noio_step
  case record_error m =>
    show NoIO (recordErrorP m).body
    unfold recordErrorP; repeat noio_step
  case parse_version s =>
    show NoIO (parseVersionP s).body
    unfold parseVersionP parseVersionM; repeat (first | unfold setVersion | noio_step)
  case disconnect =>
    show NoIO (disconnectP).body
    unfold disconnectP; repeat noio_step
  case min_version v =>
    show NoIO (minVersionM v)
    unfold minVersionM; repeat noio_step

/-- once an error is recorded it is the error after every later history -/
theorem finalWorld_err {σ : Type} (P : Params) (D : Device σ) (cs : List Call) (w : World σ) (e : Str)
    (h : w.st.err = some e) : (finalWorld P D cs w).st.err = some e := by
  induction cs generalizing w with
  | nil => exact h
  | cons c cs ih => exact ih _ (run_keepsErr P D c w e h)

theorem finalWorld_append {σ : Type} (P : Params) (D : Device σ) (as bs : List Call) (w : World σ) :
    finalWorld P D (as ++ bs) w = finalWorld P D bs (finalWorld P D as w) := by
  induction as generalizing w with
  | nil => rfl
  | cons a as ih => exact ih _

end Ebb3
end Plotink
