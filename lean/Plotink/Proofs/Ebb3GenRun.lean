import Plotink.Proofs.Ebb3GenConnect
import Plotink.Proofs.C05Script
import Plotink.Proofs.C05FailRep

/-! # The regenerated methods as one `genRun`, the set `S` of bridged methods, the master bridge, histories

`genRun fuel c w` calls the regenerated method of the call `c` with its arguments encoded as Python values.
`InS c` = the method of `c` is bridged (the set **S**, now all 38 public methods); `gen_bridge` is the union of the
per-method bridges;
`gen_final_sim` / `gen_calls_sim` carry it along histories. -/

namespace Plotink
namespace Ebb3Gen
open PyObj Gen
set_option linter.unusedSimpArgs false
set_option linter.unusedVariables false

/-- the regenerated method of a call (`connect` / `find_first` take their environment from `w.ext`) -/
def genRun (fuel : Nat) : Ebb3.Call → World EBB3_Obj → Out EBB3_Obj
  | .command req => EBB3_command fuel (encReq req)
  | .query req => EBB3_query fuel (encReq req)
  | .query_statusbyte => EBB3_query_statusbyte fuel
  | .record_error m => EBB3_record_error fuel (.str m)
  | .disconnect => EBB3_disconnect fuel
  | .reboot => EBB3_reboot fuel
  | .bootload => EBB3_bootload fuel
  | .var_write v i => EBB3_var_write fuel (.int v) (.int i)
  | .var_read i => EBB3_var_read fuel (.int i)
  | .timed_pause t => EBBMotionWrap_timed_pause fuel (.int t)
  | .xy_move dx dy dur => EBBMotionWrap_xy_move fuel (.int dx) (.int dy) (.int dur)
  | .abs_move r a b => EBBMotionWrap_abs_move fuel (.int r) (encOptInt a) (encOptInt b)
  | .motors_disable => EBBMotionWrap_motors_disable fuel
  | .clear_steps => EBBMotionWrap_clear_steps fuel
  | .clear_accumulators => EBBMotionWrap_clear_accumulators fuel
  | .pen_lower d p => EBBMotionWrap_pen_lower fuel (.int d) (encOptInt p)
  | .pen_raise d p => EBBMotionWrap_pen_raise fuel (.int d) (encOptInt p)
  | .dio_b_set p s => EBBMotionWrap_dio_b_set fuel (.int p) (.int s)
  | .pen_pos_down v => EBBMotionWrap_pen_pos_down fuel (.int v)
  | .pen_pos_up v => EBBMotionWrap_pen_pos_up fuel (.int v)
  | .pen_rate_down v => EBBMotionWrap_pen_rate_down fuel (.int v)
  | .pen_rate_up v => EBBMotionWrap_pen_rate_up fuel (.int v)
  | .servo_timeout m s => EBBMotionWrap_servo_timeout fuel (.int m) (encOptInt s)
  | .find_first _ => EBB3_find_first fuel
  | .parse_version s => EBB3_parse_version fuel (.str s)
  | .query_nickname => EBB3_query_nickname fuel
  | .write_nickname n => EBB3_write_nickname fuel (encReq n)
  | .connect g c _ _ => EBB3_connect fuel (encReq g) (encReq c)
  | .min_version v => EBB3_min_version fuel (.str v)
  | .var_write_int32 v i => EBB3_var_write_int32 fuel (.int v) (.int i)
  | .var_read_int32 i => EBB3_var_read_int32 fuel (.int i)
  | .motors_enable a b => EBBMotionWrap_motors_enable fuel (.int a) (.int b)
  | .motors_query_enabled => EBBMotionWrap_motors_query_enabled fuel
  | .query_steps => EBBMotionWrap_query_steps fuel
  | .dio_b_config p s d => EBBMotionWrap_dio_b_config fuel (.int p) (.int s) (.int d)
  | .dio_b_read p => EBBMotionWrap_dio_b_read fuel (.int p)
  | .query_voltage t => EBBMotionWrap_query_voltage fuel (encOptInt t)
  | .query_current => EBBMotionWrap_query_current fuel

/-- **the set S** of methods whose regenerated code is bridged to the model -/
def inS : Ebb3.Method → Bool
  | _ => true

/-- request texts are ASCII (the regenerated `encode('ascii')` raises `UnicodeEncodeError` otherwise; outside the
alphabet of the properties) -/
def ArgsAscii : Ebb3.Call → Prop
  | .command (some s) => PyIO.isAscii s = true
  | .query (some s) => PyIO.isAscii s = true
  | .write_nickname (some s) => PyIO.isAscii s = true
  | _ => True

/-- fuel that covers the loops of a call: 26 for the retry loops, the number of chunks for `timed_pause` -/
def fuelNeed : Ebb3.Call → Nat
  | .timed_pause t => max 26 (t.toNat + 1)
  | _ => 26

/-- per-call side condition of the bridge, on the world the call starts in: `reboot` / `bootload` on an unblocked
object need the next write fault (if any) to be of a class their handler names; `find_first` / `connect` take the
model's environment arguments from `w.ext` (`PortIn`: the port-search result is C19's `findFirst` of the `comports()`
input, or what `find_named` returns; the open outcome is `ext.openOk`), and `connect` lets a fault of its last
exchange escape, so the fault classes of the scripts must be the model's `SerialException` -/
def Pre (c : Ebb3.Call) (w : World EBB3_Obj) : Prop :=
  match c with
  | .reboot => (absSt w.obj).blocked = false → RebootOk w
  | .bootload => (absSt w.obj).blocked = false → RebootOk w
  | .find_first f => PortIn Option.none f w.ext
  | .connect g _ f o => PortIn g f w.ext ∧ o = w.ext.openOk ∧ SerialOnly w
  | _ => True

/-- no write fault of the script is of a class outside the handler of `reboot` / `bootload` -/
def RebootW (w : World EBB3_Obj) : Prop :=
  ∀ c, PyIO.Wr.raise c ∈ w.port.writes → PyIO.catches rebootClasses c = true

/-- the *static* form of `Pre`: a condition on the inputs (scripts, `ext`) that no regenerated method can break
(`Env.fr`), so it is imposed once, on the world a history starts in -/
def Env (c : Ebb3.Call) (w : World EBB3_Obj) : Prop :=
  match c with
  | .reboot => RebootW w
  | .bootload => RebootW w
  | .find_first f => PortIn Option.none f w.ext
  | .connect g _ f o => PortIn g f w.ext ∧ o = w.ext.openOk ∧ SerialOnly w
  | _ => True

theorem RebootW.ok {w : World EBB3_Obj} (h : RebootW w) : RebootOk w :=
  fun c ws hw => h c (by rw [hw]; exact List.mem_cons_self)

theorem Env.pre {c : Ebb3.Call} {w : World EBB3_Obj} (h : Env c w) : Pre c w := by
  cases c <;> first | exact h | exact fun _ => RebootW.ok h

theorem Env.fr {c : Ebb3.Call} {w w' : World EBB3_Obj} (h : Env c w) (hf : Fr w w') : Env c w' := by
  cases c <;> try exact h
  case reboot => exact fun c hc => h c (hf.2.2 _ hc)
  case bootload => exact fun c hc => h c (hf.2.2 _ hc)
  case find_first f =>
    show PortIn Option.none f w'.ext
    rw [hf.1]; exact h
  case connect g cl f o =>
    obtain ⟨h1, h2, h3⟩ := h
    show PortIn g f w'.ext ∧ o = w'.ext.openOk ∧ SerialOnly w'
    rw [hf.1]
    exact ⟨h1, h2, h3.fr hf⟩

/-- everything a call needs to be covered by the bridge -/
structure Covered (fuel : Nat) (c : Ebb3.Call) : Prop where
  inS : inS c.method = true
  ascii : ArgsAscii c
  fuel : fuelNeed c ≤ fuel

/-- **master bridge**: for every call of every public method -/
theorem gen_bridge (fuel : Nat) (c : Ebb3.Call) (hc : Covered fuel c) (w : World EBB3_Obj) (hg : Good w) (hp : Pre c w) :
    Sim (genRun fuel c w) (Ebb3.run Ebb3.srcParams Ebb3.scriptDev c (absWorld w)) := by
  obtain ⟨hs, ha, hf⟩ := hc
  cases c <;> simp only [Ebb3.Call.method, inS, Bool.false_eq_true] at hs <;> simp only [fuelNeed] at hf <;>
    simp only [genRun]
  case find_first f => exact find_first_bridge' fuel f w hg hp
  case connect g cl f o =>
    obtain ⟨hin, ho, hso⟩ := hp
    subst ho
    exact connect_bridge fuel hf g cl f w hg hin hso
  case reboot => exact reboot_bridge fuel w hg hp
  case bootload => exact bootload_bridge fuel w hg hp
  case record_error m => exact record_error_bridge fuel m w hg
  case disconnect => exact disconnect_bridge fuel w hg
  case command req =>
    exact command_bridge_ascii fuel hf req (fun s hs => by subst hs; exact ha) w hg
  case query req =>
    exact query_bridge_ascii fuel hf req (fun s hs => by subst hs; exact ha) w hg
  case query_statusbyte => exact query_statusbyte_bridge fuel w hg
  case var_write v i => exact var_write_bridge fuel hf v i w hg
  case var_read i => exact var_read_bridge fuel hf i w hg
  case timed_pause t => exact timed_pause_bridge fuel (by omega) t (by omega) w hg
  case xy_move dx dy dur => exact xy_move_bridge fuel hf dx dy dur w hg
  case abs_move r a b => exact abs_move_bridge fuel hf r a b w hg
  case motors_disable => exact motors_disable_bridge fuel hf w hg
  case clear_steps => exact clear_steps_bridge fuel hf w hg
  case clear_accumulators => exact clear_accumulators_bridge fuel hf w hg
  case pen_lower d p => exact pen_lower_bridge fuel hf d p w hg
  case pen_raise d p => exact pen_raise_bridge fuel hf d p w hg
  case dio_b_set p s => exact dio_b_set_bridge fuel hf p s w hg
  case pen_pos_down v => exact pen_pos_down_bridge fuel hf v w hg
  case pen_pos_up v => exact pen_pos_up_bridge fuel hf v w hg
  case pen_rate_down v => exact pen_rate_down_bridge fuel hf v w hg
  case pen_rate_up v => exact pen_rate_up_bridge fuel hf v w hg
  case servo_timeout m s => exact servo_timeout_bridge fuel hf m s w hg
  case dio_b_config p s d => exact dio_b_config_bridge fuel hf p s d w hg
  case dio_b_read p => exact dio_b_read_bridge fuel hf p w hg
  case query_nickname => exact query_nickname_bridge fuel hf w hg
  case write_nickname n => exact write_nickname_bridge fuel hf n (fun s hs => by subst hs; exact ha) w hg
  case query_current => exact query_current_bridge fuel hf w hg
  case query_voltage t => exact query_voltage_bridge fuel hf t w hg
  case query_steps => exact query_steps_bridge fuel hf w hg
  case motors_query_enabled => exact motors_query_enabled_bridge fuel hf w hg
  case var_write_int32 v i => exact var_write_int32_bridge fuel hf v i w hg
  case var_read_int32 i => exact var_read_int32_bridge fuel hf i w hg
  case motors_enable a b => exact motors_enable_bridge fuel hf a b w hg
  case parse_version s => exact parse_version_bridge fuel s w hg
  case min_version v => exact min_version_bridge fuel v w hg

/-! ## consequences of `Sim` -/

def outWorld : Out EBB3_Obj → Option (World EBB3_Obj)
  | .val _ w => some w
  | .exc _ w => some w
  | .fuelOut => Option.none

theorem sim_world {out : Out EBB3_Obj} {r : Except Ebb3.PyExc Ebb3.Val × Ebb3.World Ebb3.Script} (h : Sim out r) :
    ∃ w', outWorld out = some w' ∧ absWorld w' = r.2 ∧ Good w' := by
  obtain ⟨res, aw⟩ := r
  cases out with
  | fuelOut => cases res <;> exact h.elim
  | val v w' =>
    cases res with
    | error e => exact h.elim
    | ok v' => exact ⟨w', rfl, h.2.1, h.2.2⟩
  | exc c w' =>
    cases res with
    | ok v' => exact h.elim
    | error e => exact ⟨w', rfl, h.2.1, h.2.2⟩

theorem sim_val {out : Out EBB3_Obj} {v' : Ebb3.Val} {aw : Ebb3.World Ebb3.Script} (h : Sim out (.ok v', aw)) :
    ∃ w', out = .val (encVal v') w' ∧ absWorld w' = aw ∧ Good w' := by
  cases out with
  | fuelOut => exact h.elim
  | exc c w' => exact h.elim
  | val v w' => exact ⟨w', by rw [h.1], h.2.1, h.2.2⟩

/-! ## histories -/

/-- the world after a history on the regenerated methods (`none`: out of fuel) -/
def genFinal (fuel : Nat) : List Ebb3.Call → World EBB3_Obj → Option (World EBB3_Obj)
  | [], w => some w
  | c :: cs, w => match outWorld (genRun fuel c w) with
    | some w' => genFinal fuel cs w'
    | Option.none => Option.none

/-- the outcomes of the calls of a history, in order (stops if a call runs out of fuel) -/
def genCalls (fuel : Nat) : List Ebb3.Call → World EBB3_Obj → List (Out EBB3_Obj)
  | [], _ => []
  | c :: cs, w => genRun fuel c w :: (match outWorld (genRun fuel c w) with
    | some w' => genCalls fuel cs w'
    | Option.none => [])

/-- the per-call side conditions along a history -/
def HistPre (fuel : Nat) : List Ebb3.Call → World EBB3_Obj → Prop
  | [], _ => True
  | c :: cs, w => Pre c w ∧ ∀ w', outWorld (genRun fuel c w) = some w' → HistPre fuel cs w'

/-- every regenerated method has the frame property -/
theorem genRun_fr (fuel : Nat) (c : Ebb3.Call) (w : World EBB3_Obj) : FrO w (genRun fuel c w) := by
  cases c <;> simp only [genRun]
  case command req => exact fr_EBB3_command fuel _ w
  case query req => exact fr_EBB3_query fuel _ w
  case query_statusbyte => exact fr_EBB3_query_statusbyte fuel w
  case record_error m => exact fr_EBB3_record_error fuel _ w
  case disconnect => exact fr_EBB3_disconnect fuel w
  case reboot => exact fr_EBB3_reboot fuel w
  case bootload => exact fr_EBB3_bootload fuel w
  case var_write v i => exact fr_EBB3_var_write fuel _ _ w
  case var_read i => exact fr_EBB3_var_read fuel _ w
  case timed_pause t => exact fr_EBBMotionWrap_timed_pause fuel _ w
  case xy_move dx dy dur => exact fr_EBBMotionWrap_xy_move fuel _ _ _ w
  case abs_move r a b => exact fr_EBBMotionWrap_abs_move fuel _ _ _ w
  case motors_disable => exact fr_EBBMotionWrap_motors_disable fuel w
  case clear_steps => exact fr_EBBMotionWrap_clear_steps fuel w
  case clear_accumulators => exact fr_EBBMotionWrap_clear_accumulators fuel w
  case pen_lower d p => exact fr_EBBMotionWrap_pen_lower fuel _ _ w
  case pen_raise d p => exact fr_EBBMotionWrap_pen_raise fuel _ _ w
  case dio_b_set p s => exact fr_EBBMotionWrap_dio_b_set fuel _ _ w
  case pen_pos_down v => exact fr_EBBMotionWrap_pen_pos_down fuel _ w
  case pen_pos_up v => exact fr_EBBMotionWrap_pen_pos_up fuel _ w
  case pen_rate_down v => exact fr_EBBMotionWrap_pen_rate_down fuel _ w
  case pen_rate_up v => exact fr_EBBMotionWrap_pen_rate_up fuel _ w
  case servo_timeout m s => exact fr_EBBMotionWrap_servo_timeout fuel _ _ w
  case find_first f => exact fr_EBB3_find_first fuel w
  case parse_version s => exact fr_EBB3_parse_version fuel _ w
  case query_nickname => exact fr_EBB3_query_nickname fuel w
  case write_nickname n => exact fr_EBB3_write_nickname fuel _ w
  case connect g cl f o => exact fr_EBB3_connect fuel _ _ w
  case min_version v => exact fr_EBB3_min_version fuel _ w
  case var_write_int32 v i => exact fr_EBB3_var_write_int32 fuel _ _ w
  case var_read_int32 i => exact fr_EBB3_var_read_int32 fuel _ w
  case motors_enable a b => exact fr_EBBMotionWrap_motors_enable fuel _ _ w
  case motors_query_enabled => exact fr_EBBMotionWrap_motors_query_enabled fuel w
  case query_steps => exact fr_EBBMotionWrap_query_steps fuel w
  case dio_b_config p s d => exact fr_EBBMotionWrap_dio_b_config fuel _ _ _ w
  case dio_b_read p => exact fr_EBBMotionWrap_dio_b_read fuel _ w
  case query_voltage t => exact fr_EBBMotionWrap_query_voltage fuel _ w
  case query_current => exact fr_EBBMotionWrap_query_current fuel w

theorem fr_of_outWorld {w w' : World EBB3_Obj} {out : Out EBB3_Obj} (h : FrO w out) (hw : outWorld out = some w') :
    Fr w w' := by
  cases out with
  | fuelOut => cases hw
  | val v w1 => injection hw with hw; rw [← hw]; exact h
  | exc c w1 => injection hw with hw; rw [← hw]; exact h

/-- **the side conditions along a history follow from the static ones on its first world**: the regenerated methods
leave `ext` alone and only consume the scripts (`genRun_fr`) -/
theorem histPre_of_env (fuel : Nat) : ∀ (cs : List Ebb3.Call) (w : World EBB3_Obj),
    (∀ c ∈ cs, Env c w) → HistPre fuel cs w
  | [], _, _ => trivial
  | c :: cs, w, h => by
    refine ⟨(h c List.mem_cons_self).pre, fun w' hw' => histPre_of_env fuel cs w' (fun c' hc' => ?_)⟩
    exact (h c' (List.mem_cons_of_mem _ hc')).fr (fr_of_outWorld (genRun_fr fuel c w) hw')

theorem env_of_plain {c : Ebb3.Call} (w : World EBB3_Obj)
    (h : c.method ≠ .reboot ∧ c.method ≠ .bootload ∧ c.method ≠ .find_first ∧ c.method ≠ .connect) : Env c w := by
  cases c <;> simp_all [Env, Ebb3.Call.method]

/-- the final world of a history over S is the model's final world -/
theorem gen_final_sim (fuel : Nat) : ∀ (cs : List Ebb3.Call) (w : World EBB3_Obj),
    (∀ c ∈ cs, Covered fuel c) → Good w → HistPre fuel cs w →
    ∃ w', genFinal fuel cs w = some w' ∧
      absWorld w' = Ebb3.finalWorld Ebb3.srcParams Ebb3.scriptDev cs (absWorld w) ∧ Good w'
  | [], w, _, hg, _ => ⟨w, rfl, rfl, hg⟩
  | c :: cs, w, hc, hg, hp => by
    obtain ⟨w1, h1, h2, hg1⟩ := sim_world (gen_bridge fuel c (hc c List.mem_cons_self) w hg hp.1)
    obtain ⟨w2, h3, h4, hg2⟩ := gen_final_sim fuel cs w1 (fun c' hc' => hc c' (List.mem_cons_of_mem _ hc')) hg1 (hp.2 w1 h1)
    refine ⟨w2, by simp only [genFinal, h1, h3], ?_, hg2⟩
    rw [h4, h2]
    rfl

/-- two outcome lists pair up call by call -/
inductive CallsSim : List (Out EBB3_Obj) → List (Ebb3.Outcome Ebb3.Script) → Prop
  | nil : CallsSim [] []
  | cons {o : Out EBB3_Obj} {m : Ebb3.Outcome Ebb3.Script} {os : List (Out EBB3_Obj)}
      {ms : List (Ebb3.Outcome Ebb3.Script)} : Sim o (m.res, m.world) → CallsSim os ms → CallsSim (o :: os) (m :: ms)

/-- call by call: the outcomes of the regenerated methods pair up with the model's outcomes -/
theorem gen_calls_sim (fuel : Nat) : ∀ (cs : List Ebb3.Call) (w : World EBB3_Obj),
    (∀ c ∈ cs, Covered fuel c) → Good w → HistPre fuel cs w →
    CallsSim (genCalls fuel cs w) (Ebb3.runCalls Ebb3.srcParams Ebb3.scriptDev cs (absWorld w))
  | [], _, _, _, _ => CallsSim.nil
  | c :: cs, w, hc, hg, hp => by
    have hb := gen_bridge fuel c (hc c List.mem_cons_self) w hg hp.1
    obtain ⟨w1, h1, h2, hg1⟩ := sim_world hb
    have ih := gen_calls_sim fuel cs w1 (fun c' hc' => hc c' (List.mem_cons_of_mem _ hc')) hg1 (hp.2 w1 h1)
    simp only [genCalls, h1, Ebb3.runCalls]
    refine CallsSim.cons ?_ ?_
    · exact hb
    · have : (Ebb3.runCall Ebb3.srcParams Ebb3.scriptDev c (absWorld w)).world = absWorld w1 := by
        rw [h2]; rfl
      rw [this]
      exact ih

end Ebb3Gen
end Plotink
