import Plotink.Proofs.Ebb3GenHelpers
import Plotink.Proofs.C05Script
import Plotink.Proofs.C05FailRep

/-! # The regenerated methods as one `genRun`, the set `S` of bridged methods, the master bridge, histories

`genRun fuel c w` calls the regenerated method of the call `c` with its arguments encoded as Python values.
`InS c` = the method of `c` is bridged (the set **S**); `gen_bridge` is the union of the per-method bridges;
`gen_final_sim` / `gen_calls_sim` carry it along histories. -/

namespace Plotink
namespace Ebb3Gen
open PyObj Gen
set_option linter.unusedSimpArgs false
set_option linter.unusedVariables false

/-- the regenerated method of a call (methods outside `S` run too — they are simply not covered by `gen_bridge`;
`connect` / `find_first` take their environment from `w.ext`) -/
def genRun (fuel : Nat) : Ebb3.Call → World EBB3_Obj → Out EBB3_Obj
  | .command req => EBB3_command fuel (encReq req)
  | .query req => EBB3_query fuel (encReq req)
  | .query_statusbyte => EBB3_query_statusbyte fuel
  | .record_error m => EBB3_record_error fuel (.str m)
  | .disconnect => EBB3_disconnect fuel
  | .reboot => EBB3_reboot fuel
  | .bootload => EBB3_bootload fuel
  | .var_write v i => EBB3_var_write fuel (.int v) (.int i)
  | .var_read i => EBB3_var_read fuel (.int i)
  | .timed_pause t => EBBMotionWrap_timed_pause fuel (.int t)
  | .xy_move dx dy dur => EBBMotionWrap_xy_move fuel (.int dx) (.int dy) (.int dur)
  | .abs_move r a b => EBBMotionWrap_abs_move fuel (.int r) (encOptInt a) (encOptInt b)
  | .motors_disable => EBBMotionWrap_motors_disable fuel
  | .clear_steps => EBBMotionWrap_clear_steps fuel
  | .clear_accumulators => EBBMotionWrap_clear_accumulators fuel
  | .pen_lower d p => EBBMotionWrap_pen_lower fuel (.int d) (encOptInt p)
  | .pen_raise d p => EBBMotionWrap_pen_raise fuel (.int d) (encOptInt p)
  | .dio_b_set p s => EBBMotionWrap_dio_b_set fuel (.int p) (.int s)
  | .pen_pos_down v => EBBMotionWrap_pen_pos_down fuel (.int v)
  | .pen_pos_up v => EBBMotionWrap_pen_pos_up fuel (.int v)
  | .pen_rate_down v => EBBMotionWrap_pen_rate_down fuel (.int v)
  | .pen_rate_up v => EBBMotionWrap_pen_rate_up fuel (.int v)
  | .servo_timeout m s => EBBMotionWrap_servo_timeout fuel (.int m) (encOptInt s)
  -- not (yet) bridged
  | .find_first _ => EBB3_find_first fuel
  | .parse_version s => EBB3_parse_version fuel (.str s)
  | .query_nickname => EBB3_query_nickname fuel
  | .write_nickname n => EBB3_write_nickname fuel (encReq n)
  | .connect g c _ _ => EBB3_connect fuel (encReq g) (encReq c)
  | .min_version v => EBB3_min_version fuel (.str v)
  | .var_write_int32 v i => EBB3_var_write_int32 fuel (.int v) (.int i)
  | .var_read_int32 i => EBB3_var_read_int32 fuel (.int i)
  | .motors_enable a b => EBBMotionWrap_motors_enable fuel (.int a) (.int b)
  | .motors_query_enabled => EBBMotionWrap_motors_query_enabled fuel
  | .query_steps => EBBMotionWrap_query_steps fuel
  | .dio_b_config p s d => EBBMotionWrap_dio_b_config fuel (.int p) (.int s) (.int d)
  | .dio_b_read p => EBBMotionWrap_dio_b_read fuel (.int p)
  | .query_voltage t => EBBMotionWrap_query_voltage fuel (encOptInt t)
  | .query_current => EBBMotionWrap_query_current fuel

/-- **the set S** of methods whose regenerated code is bridged to the model -/
def inS : Ebb3.Method → Bool
  | .command | .query | .query_statusbyte | .record_error | .disconnect | .reboot | .bootload
  | .var_write | .var_read | .timed_pause | .xy_move | .abs_move | .motors_disable | .clear_steps
  | .clear_accumulators | .pen_lower | .pen_raise | .dio_b_set | .pen_pos_down | .pen_pos_up
  | .pen_rate_down | .pen_rate_up | .servo_timeout
  | .dio_b_config | .dio_b_read | .query_nickname | .write_nickname | .query_current | .query_voltage
  | .query_steps | .motors_query_enabled | .var_write_int32 | .var_read_int32 | .motors_enable
  | .parse_version | .min_version => true
  | _ => false

/-- request texts are ASCII (the regenerated `encode('ascii')` raises `UnicodeEncodeError` otherwise; outside the
alphabet of the properties) -/
def ArgsAscii : Ebb3.Call → Prop
  | .command (some s) => PyIO.isAscii s = true
  | .query (some s) => PyIO.isAscii s = true
  | .write_nickname (some s) => PyIO.isAscii s = true
  | _ => True

/-- fuel that covers the loops of a call: 26 for the retry loops, the number of chunks for `timed_pause` -/
def fuelNeed : Ebb3.Call → Nat
  | .timed_pause t => max 26 (t.toNat + 1)
  | _ => 26

/-- per-call side condition: `reboot` / `bootload` on an unblocked object need the next write fault (if any) to be
of a class their handler names -/
def Pre (c : Ebb3.Call) (w : World EBB3_Obj) : Prop :=
  match c with
  | .reboot => (absSt w.obj).blocked = false → RebootOk w
  | .bootload => (absSt w.obj).blocked = false → RebootOk w
  | _ => True

/-- everything a call needs to be covered by the bridge -/
structure Covered (fuel : Nat) (c : Ebb3.Call) : Prop where
  inS : inS c.method = true
  ascii : ArgsAscii c
  fuel : fuelNeed c ≤ fuel

/-- **master bridge**: for every call of a method in S -/
theorem gen_bridge (fuel : Nat) (c : Ebb3.Call) (hc : Covered fuel c) (w : World EBB3_Obj) (hg : Good w) (hp : Pre c w) :
    Sim (genRun fuel c w) (Ebb3.run Ebb3.srcParams Ebb3.scriptDev c (absWorld w)) := by
  obtain ⟨hs, ha, hf⟩ := hc
  cases c <;> simp only [Ebb3.Call.method, inS, Bool.false_eq_true] at hs <;> simp only [fuelNeed] at hf <;>
    simp only [genRun]
  case reboot => exact reboot_bridge fuel w hg hp
  case bootload => exact bootload_bridge fuel w hg hp
  case record_error m => exact record_error_bridge fuel m w hg
  case disconnect => exact disconnect_bridge fuel w hg
  case command req =>
    exact command_bridge_ascii fuel hf req (fun s hs => by subst hs; exact ha) w hg
  case query req =>
    exact query_bridge_ascii fuel hf req (fun s hs => by subst hs; exact ha) w hg
  case query_statusbyte => exact query_statusbyte_bridge fuel w hg
  case var_write v i => exact var_write_bridge fuel hf v i w hg
  case var_read i => exact var_read_bridge fuel hf i w hg
  case timed_pause t => exact timed_pause_bridge fuel (by omega) t (by omega) w hg
  case xy_move dx dy dur => exact xy_move_bridge fuel hf dx dy dur w hg
  case abs_move r a b => exact abs_move_bridge fuel hf r a b w hg
  case motors_disable => exact motors_disable_bridge fuel hf w hg
  case clear_steps => exact clear_steps_bridge fuel hf w hg
  case clear_accumulators => exact clear_accumulators_bridge fuel hf w hg
  case pen_lower d p => exact pen_lower_bridge fuel hf d p w hg
  case pen_raise d p => exact pen_raise_bridge fuel hf d p w hg
  case dio_b_set p s => exact dio_b_set_bridge fuel hf p s w hg
  case pen_pos_down v => exact pen_pos_down_bridge fuel hf v w hg
  case pen_pos_up v => exact pen_pos_up_bridge fuel hf v w hg
  case pen_rate_down v => exact pen_rate_down_bridge fuel hf v w hg
  case pen_rate_up v => exact pen_rate_up_bridge fuel hf v w hg
  case servo_timeout m s => exact servo_timeout_bridge fuel hf m s w hg
  case dio_b_config p s d => exact dio_b_config_bridge fuel hf p s d w hg
  case dio_b_read p => exact dio_b_read_bridge fuel hf p w hg
  case query_nickname => exact query_nickname_bridge fuel hf w hg
  case write_nickname n => exact write_nickname_bridge fuel hf n (fun s hs => by subst hs; exact ha) w hg
  case query_current => exact query_current_bridge fuel hf w hg
  case query_voltage t => exact query_voltage_bridge fuel hf t w hg
  case query_steps => exact query_steps_bridge fuel hf w hg
  case motors_query_enabled => exact motors_query_enabled_bridge fuel hf w hg
  case var_write_int32 v i => exact var_write_int32_bridge fuel hf v i w hg
  case var_read_int32 i => exact var_read_int32_bridge fuel hf i w hg
  case motors_enable a b => exact motors_enable_bridge fuel hf a b w hg
  case parse_version s => exact parse_version_bridge fuel s w hg
  case min_version v => exact min_version_bridge fuel v w hg

/-! ## consequences of `Sim` -/

def outWorld : Out EBB3_Obj → Option (World EBB3_Obj)
  | .val _ w => some w
  | .exc _ w => some w
  | .fuelOut => Option.none

theorem sim_world {out : Out EBB3_Obj} {r : Except Ebb3.PyExc Ebb3.Val × Ebb3.World Ebb3.Script} (h : Sim out r) :
    ∃ w', outWorld out = some w' ∧ absWorld w' = r.2 ∧ Good w' := by
  obtain ⟨res, aw⟩ := r
  cases out with
  | fuelOut => cases res <;> exact h.elim
  | val v w' =>
    cases res with
    | error e => exact h.elim
    | ok v' => exact ⟨w', rfl, h.2.1, h.2.2⟩
  | exc c w' =>
    cases res with
    | ok v' => exact h.elim
    | error e => exact ⟨w', rfl, h.2.1, h.2.2⟩

theorem sim_val {out : Out EBB3_Obj} {v' : Ebb3.Val} {aw : Ebb3.World Ebb3.Script} (h : Sim out (.ok v', aw)) :
    ∃ w', out = .val (encVal v') w' ∧ absWorld w' = aw ∧ Good w' := by
  cases out with
  | fuelOut => exact h.elim
  | exc c w' => exact h.elim
  | val v w' => exact ⟨w', by rw [h.1], h.2.1, h.2.2⟩

/-! ## histories -/

/-- the world after a history on the regenerated methods (`none`: out of fuel) -/
def genFinal (fuel : Nat) : List Ebb3.Call → World EBB3_Obj → Option (World EBB3_Obj)
  | [], w => some w
  | c :: cs, w => match outWorld (genRun fuel c w) with
    | some w' => genFinal fuel cs w'
    | Option.none => Option.none

/-- the outcomes of the calls of a history, in order (stops if a call runs out of fuel) -/
def genCalls (fuel : Nat) : List Ebb3.Call → World EBB3_Obj → List (Out EBB3_Obj)
  | [], _ => []
  | c :: cs, w => genRun fuel c w :: (match outWorld (genRun fuel c w) with
    | some w' => genCalls fuel cs w'
    | Option.none => [])

/-- the per-call side conditions along a history -/
def HistPre (fuel : Nat) : List Ebb3.Call → World EBB3_Obj → Prop
  | [], _ => True
  | c :: cs, w => Pre c w ∧ ∀ w', outWorld (genRun fuel c w) = some w' → HistPre fuel cs w'

theorem histPre_of_no_reboot (fuel : Nat) : ∀ (cs : List Ebb3.Call) (w : World EBB3_Obj),
    (∀ c ∈ cs, c.method ≠ .reboot ∧ c.method ≠ .bootload) → HistPre fuel cs w
  | [], _, _ => trivial
  | c :: cs, w, h => by
    refine ⟨?_, fun w' _ => histPre_of_no_reboot fuel cs w' (fun c' hc' => h c' (List.mem_cons_of_mem _ hc'))⟩
    have := h c List.mem_cons_self
    cases c <;> simp_all [Pre, Ebb3.Call.method]

/-- the final world of a history over S is the model's final world -/
theorem gen_final_sim (fuel : Nat) : ∀ (cs : List Ebb3.Call) (w : World EBB3_Obj),
    (∀ c ∈ cs, Covered fuel c) → Good w → HistPre fuel cs w →
    ∃ w', genFinal fuel cs w = some w' ∧
      absWorld w' = Ebb3.finalWorld Ebb3.srcParams Ebb3.scriptDev cs (absWorld w) ∧ Good w'
  | [], w, _, hg, _ => ⟨w, rfl, rfl, hg⟩
  | c :: cs, w, hc, hg, hp => by
    obtain ⟨w1, h1, h2, hg1⟩ := sim_world (gen_bridge fuel c (hc c List.mem_cons_self) w hg hp.1)
    obtain ⟨w2, h3, h4, hg2⟩ := gen_final_sim fuel cs w1 (fun c' hc' => hc c' (List.mem_cons_of_mem _ hc')) hg1 (hp.2 w1 h1)
    refine ⟨w2, by simp only [genFinal, h1, h3], ?_, hg2⟩
    rw [h4, h2]
    rfl

/-- two outcome lists pair up call by call -/
inductive CallsSim : List (Out EBB3_Obj) → List (Ebb3.Outcome Ebb3.Script) → Prop
  | nil : CallsSim [] []
  | cons {o : Out EBB3_Obj} {m : Ebb3.Outcome Ebb3.Script} {os : List (Out EBB3_Obj)}
      {ms : List (Ebb3.Outcome Ebb3.Script)} : Sim o (m.res, m.world) → CallsSim os ms → CallsSim (o :: os) (m :: ms)

/-- call by call: the outcomes of the regenerated methods pair up with the model's outcomes -/
theorem gen_calls_sim (fuel : Nat) : ∀ (cs : List Ebb3.Call) (w : World EBB3_Obj),
    (∀ c ∈ cs, Covered fuel c) → Good w → HistPre fuel cs w →
    CallsSim (genCalls fuel cs w) (Ebb3.runCalls Ebb3.srcParams Ebb3.scriptDev cs (absWorld w))
  | [], _, _, _, _ => CallsSim.nil
  | c :: cs, w, hc, hg, hp => by
    have hb := gen_bridge fuel c (hc c List.mem_cons_self) w hg hp.1
    obtain ⟨w1, h1, h2, hg1⟩ := sim_world hb
    have ih := gen_calls_sim fuel cs w1 (fun c' hc' => hc c' (List.mem_cons_of_mem _ hc')) hg1 (hp.2 w1 h1)
    simp only [genCalls, h1, Ebb3.runCalls]
    refine CallsSim.cons ?_ ?_
    · exact hb
    · have : (Ebb3.runCall Ebb3.srcParams Ebb3.scriptDev c (absWorld w)).world = absWorld w1 := by
        rw [h2]; rfl
      rw [this]
      exact ih

end Ebb3Gen
end Plotink
