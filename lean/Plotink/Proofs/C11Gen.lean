import Plotink.Gen.vb_scale
import Plotink.Proofs.C12Gen
import Plotink.Proofs.C20Gen
import Plotink.Proofs.C11Core
import Plotink.Model.C11

/-! # C11 — bridge: the source-regenerated `vb_scale` = the hand model `C11.vbScale`

`Gen.vb_scale` is regenerated from `plotink/plot_utils.py` on every run.  Strings are `Py.Val.str` over `String`,
the model is over `List Char`.

* `vb_tokens` / `par_tokens` — `strip().replace(',', ' ')[.lower()].split()` in the generated code is
  `pySplit (… (commaToBlank (pyStrip …)))` of the model (Python's general `replace` on a one-character pattern);
* `vb_none`, `vb_short`, `vb_err` (every rounding mode) — missing attribute, fewer than four tokens, a token that the
  generated `float()` rejects (`try`/`except ValueError`, translated as `err`-tests): the tuple `(1, 1, 0, 0)`;
* `G.par`, `G.core` — verbatim copies of two blocks of the generated text; `vb_staged` proves that the generated
  function is their composition behind the two sign tests (by unfolding both: any change of the generated text
  breaks it); `par_bridge` (`G.par` = `parTokens`), `core_bridge` (`G.core` = `vbCore`, exact arithmetic);
* `vb_scale_bridge`, `vb_scale_valid`.

viewBox numbers that `float()` reads as `inf`/`nan` are outside the generated code's value domain (`parseVB = nonfinite`
is excluded by hypothesis; the model makes no claim there either). -/

namespace Plotink
namespace C11
open Py Py.Val PyFloat
set_option linter.unusedSimpArgs false
set_option linter.unusedVariables false

theorem replaceL_comma (l : List Char) : Py.replaceL [','] [' '] l = commaToBlank l := by
  rw [C20.replaceL_single]
  unfold commaToBlank
  induction l with
  | nil => rfl
  | cons x xs ih =>
    rw [C20.replaceChar_cons, ih, List.map_cons]
    by_cases h : x = ',' <;> simp [h]

theorem comma_lit : ("," : String).toList = [','] := by decide
theorem blank_lit : (" " : String).toList = [' '] := by decide

theorem str_replace_comma (l : List Char) :
    Py.str_replace (Py.ofL l) (.str ",") (.str " ") = Py.ofL (commaToBlank l) := by
  show Py.ofL (Py.replaceL (",":String).toList (" ":String).toList (String.ofList l).toList) = _
  rw [comma_lit, blank_lit, String.toList_ofList, replaceL_comma]
theorem str_lower_ofL (l : List Char) : Py.str_lower (Py.ofL l) = Py.ofL (lower l) := by
  show Py.ofL (lower (String.ofList l).toList) = _
  rw [String.toList_ofList]
theorem str_split_ofL (l : List Char) : Py.str_split (Py.ofL l) = .tup ((pySplit l).map Py.ofL) := by
  show Val.tup ((pySplit (String.ofList l).toList).map Py.ofL) = _
  rw [String.toList_ofList]

/-- the token list of the viewBox attribute, as the generated code computes it -/
theorem vb_tokens (s : String) :
    Py.str_split (Py.str_replace (Py.str_strip (.str s)) (.str ",") (.str " "))
      = .tup ((pySplit (commaToBlank (pyStrip s.toList))).map Py.ofL) := by
  rw [C12.str_strip_str, str_replace_comma, str_split_ofL]
/-- … and of the preserveAspectRatio attribute -/
theorem par_tokens (s : String) :
    Py.str_split (Py.str_lower (Py.str_replace (Py.str_strip (.str s)) (.str ",") (.str " ")))
      = .tup ((pySplit (lower (commaToBlank (pyStrip s.toList)))).map Py.ofL) := by
  rw [C12.str_strip_str, str_replace_comma, str_lower_ofL, str_split_ofL]


/-- an optional attribute text as a Python value -/
def encOS : Option String → Val
  | none => .none_
  | some s => .str s

/-- the four numbers of a transform as a Python tuple of `int`s / `float`s -/
def EncXf (r : Val) (t : Xf) : Prop :=
  ∃ a b c d, r = .tup [a, b, c, d] ∧ IsNum a t.sx ∧ IsNum b t.sy ∧ IsNum c t.ox ∧ IsNum d t.oy

def identityVal : Val := .tup [.int 1, .int 1, .int 0, .int 0]
theorem encXf_identity : EncXf identityVal identity :=
  ⟨_, _, _, _, rfl, Or.inr ⟨1, rfl, by norm_num [identity]⟩, Or.inr ⟨1, rfl, by norm_num [identity]⟩,
    Or.inr ⟨0, rfl, by norm_num [identity]⟩, Or.inr ⟨0, rfl, by norm_num [identity]⟩⟩

/-- the four-way verdict of `parseVB` as a function of the four `float()` results -/
def classify (p0 p1 p2 p3 : Option Num) : VB :=
  match p0, p1, p2, p3 with
  | some a, some b, some c, some d =>
    match finOf a, finOf b, finOf c, finOf d with
    | some x, some y, some w, some h => .ok x y w h
    | _, _, _, _ => .nonfinite
  | _, _, _, _ => .bad

theorem parseVB_tokens (v : List Char) (t0 t1 t2 t3 : List Char) (rest : List (List Char))
    (h : pySplit (commaToBlank (pyStrip v)) = t0 :: t1 :: t2 :: t3 :: rest) :
    parseVB (some v) = classify (parseFloat t0) (parseFloat t1) (parseFloat t2) (parseFloat t3) := by
  unfold parseVB classify
  simp only [h]
  rcases parseFloat t0 with _ | a <;> rcases parseFloat t1 with _ | b <;> rcases parseFloat t2 with _ | c <;>
    rcases parseFloat t3 with _ | d <;> rfl

theorem parseVB_short (v : List Char) (h : (pySplit (commaToBlank (pyStrip v))).length < 4) :
    parseVB (some v) = .short := by
  unfold parseVB
  simp only
  match hh : pySplit (commaToBlank (pyStrip v)) with
  | [] => rfl
  | [_] => rfl
  | [_, _] => rfl
  | [_, _, _] => rfl
  | _ :: _ :: _ :: _ :: _ => rw [hh] at h; simp at h; omega

/-- a token the generated code's `float()` turns into `err` makes the model's verdict `bad`, unless it is `nonfinite` -/
theorem classify_err (R : Rounding) (p0 p1 p2 p3 : Option Num) (hn : classify p0 p1 p2 p3 ≠ .nonfinite)
    (he : C12.fltOf R p0 = .err ∨ C12.fltOf R p1 = .err ∨ C12.fltOf R p2 = .err ∨ C12.fltOf R p3 = .err) :
    classify p0 p1 p2 p3 = .bad := by
  rcases p0 with _ | ⟨_ | _ | _⟩ <;> rcases p1 with _ | ⟨_ | _ | _⟩ <;> rcases p2 with _ | ⟨_ | _ | _⟩ <;>
    rcases p3 with _ | ⟨_ | _ | _⟩ <;> simp_all [classify, finOf, C12.fltOf]

theorem classify_ok (p0 p1 p2 p3 : Option Num) (x y w h : Rat)
    (h0 : p0 = some (.fin x)) (h1 : p1 = some (.fin y)) (h2 : p2 = some (.fin w)) (h3 : p3 = some (.fin h)) :
    classify p0 p1 p2 p3 = .ok x y w h := by
  subst h0 h1 h2 h3; rfl

theorem fltOf_cases (R : Rounding) (p : Option Num) :
    C12.fltOf R p = .err ∨ ∃ q, p = some (.fin q) ∧ C12.fltOf R p = .flt (R.f64 q) := by
  rcases p with _ | ⟨q | _ | _⟩
  · exact Or.inl rfl
  · exact Or.inr ⟨q, rfl, rfl⟩
  · exact Or.inl rfl
  · exact Or.inl rfl


theorem vb_none (R : Rounding) (amb : Nat) (parv Wv Hv : Val) :
    Gen.vb_scale R amb .none_ parv Wv Hv = identityVal := rfl

theorem len_lt4 (l : List (List Char)) :
    Py.lt (Py.len_ (.tup (l.map Py.ofL))) (.int 4) = decide (l.length < 4) := by
  simp only [Py.len_, List.length_map, C20.lt_int_int']
  congr 1
  exact propext (by omega)

theorem vb_short (R : Rounding) (amb : Nat) (s : String) (parv Wv Hv : Val)
    (h : (pySplit (commaToBlank (pyStrip s.toList))).length < 4) :
    Gen.vb_scale R amb (.str s) parv Wv Hv = identityVal := by
  unfold Gen.vb_scale
  simp only [Py.isNone, Bool.false_eq_true, if_false, vb_tokens, len_lt4, h, decide_true, if_true]
  rfl


theorem isErr_err : Py.isErr .err = true := rfl
theorem isErr_flt (q : Rat) : Py.isErr (.flt q) = false := rfl

theorem vb_err (R : Rounding) (amb : Nat) (s : String) (parv Wv Hv : Val) (t0 t1 t2 t3 : List Char)
    (rest : List (List Char)) (hs : pySplit (commaToBlank (pyStrip s.toList)) = t0 :: t1 :: t2 :: t3 :: rest)
    (he : C12.fltOf R (parseFloat t0) = .err ∨ C12.fltOf R (parseFloat t1) = .err ∨
      C12.fltOf R (parseFloat t2) = .err ∨ C12.fltOf R (parseFloat t3) = .err) :
    Gen.vb_scale R amb (.str s) parv Wv Hv = identityVal := by
  have hl : ¬ (t0 :: t1 :: t2 :: t3 :: rest).length < 4 := by simp
  unfold Gen.vb_scale
  simp only [Py.isNone, Bool.false_eq_true, if_false, vb_tokens, hs, len_lt4, hl, decide_false, List.map_cons,
    Py.getItem_cons_zero, Py.getItem_cons_succ, C12.float_ofL]
  rcases fltOf_cases R (parseFloat t0) with e0 | ⟨q0, _, e0⟩
  · simp only [e0, isErr_err, if_true, ite_self]; rfl
  rcases fltOf_cases R (parseFloat t1) with e1 | ⟨q1, _, e1⟩
  · simp only [e0, e1, isErr_err, isErr_flt, Bool.false_eq_true, if_false, if_true, ite_self]; rfl
  rcases fltOf_cases R (parseFloat t2) with e2 | ⟨q2, _, e2⟩
  · simp only [e0, e1, e2, isErr_err, isErr_flt, Bool.false_eq_true, if_false, if_true, ite_self]; rfl
  rcases fltOf_cases R (parseFloat t3) with e3 | ⟨q3, _, e3⟩
  · simp only [e0, e1, e2, e3, isErr_err, isErr_flt, Bool.false_eq_true, if_false, if_true, ite_self]; rfl
  · rw [e0, e1, e2, e3] at he
    simp at he

/-- verbatim copy of the block of the generated `vb_scale` that reads the preserveAspectRatio attribute:
`(par_array, par0, par_align, par_mos)` -/
def G.par (p_a_r : Py.Val) : Py.Val × Py.Val × Py.Val × Py.Val :=
  let par_align := (Py.Val.str "xmidymid")
  let par_mos := (Py.Val.str "meet")
  let par_array := Py.Val.err
  let par0 := Py.Val.err
  let (par_array, par0, par_align, par_mos) :=
    if (!(Py.isNone p_a_r)) then
      let par_array := (Py.str_split (Py.str_lower (Py.str_replace (Py.str_strip p_a_r) (Py.Val.str ",") (Py.Val.str " "))))
      let (par0, par_align, par_mos) :=
        if (Py.gt (Py.len_ par_array) (Py.Val.int 0)) then
          let par0 := (Py.getItem par_array 0)
          let (par_align, par_mos) :=
            if (Py.eq par0 (Py.Val.str "defer")) then
              let (par_align, par_mos) :=
                if (Py.gt (Py.len_ par_array) (Py.Val.int 1)) then
                  let par_align := (Py.getItem par_array 1)
                  let par_mos :=
                    if (Py.gt (Py.len_ par_array) (Py.Val.int 2)) then
                      let par_mos := (Py.getItem par_array 2)
                      par_mos
                    else
                      par_mos
                  (par_align, par_mos)
                else
                  (par_align, par_mos)
              (par_align, par_mos)
            else
              let par_align := par0
              let par_mos :=
                if (Py.gt (Py.len_ par_array) (Py.Val.int 1)) then
                  let par_mos := (Py.getItem par_array 1)
                  par_mos
                else
                  par_mos
              (par_align, par_mos)
          (par0, par_align, par_mos)
        else
          (par0, par_align, par_mos)
      (par_array, par0, par_align, par_mos)
    else
      (par_array, par0, par_align, par_mos)
  (par_array, par0, par_align, par_mos)

/-- verbatim copy of the numeric tail of the generated `vb_scale` (from `if par_align == "none"` on) -/
def G.core (R : Rounding) (prec : Nat) (min_x min_y width height d_width d_height ar_doc ar_vb par_align par_mos : Py.Val) : Py.Val :=
  if (Py.eq par_align (Py.Val.str "none")) then
    let s_x := (Py.truediv R prec d_width width)
    let s_y := (Py.truediv R prec d_height height)
    let o_x := (Py.neg min_x)
    let o_y := (Py.neg min_y)
    (Py.Val.tup [s_x, s_y, o_x, o_y])
  else
    if (((Py.ge ar_doc ar_vb) && (Py.eq par_mos (Py.Val.str "meet"))) || ((Py.lt ar_doc ar_vb) && (Py.eq par_mos (Py.Val.str "slice")))) then
      let s_x := (Py.truediv R prec d_width width)
      let s_y := s_x
      let o_x := (Py.neg min_x)
      let scaled_vb_height := (Py.mul R prec ar_doc width)
      let excess_height := (Py.sub R prec scaled_vb_height height)
      let o_y := Py.Val.err
      let o_y :=
        if ((Py.eq par_align (Py.Val.str "xminymin")) || (Py.eq par_align (Py.Val.str "xmidymin")) || (Py.eq par_align (Py.Val.str "xmaxymin"))) then
          let o_y := (Py.neg min_y)
          o_y
        else
          let o_y :=
            if ((Py.eq par_align (Py.Val.str "xminymax")) || (Py.eq par_align (Py.Val.str "xmidymax")) || (Py.eq par_align (Py.Val.str "xmaxymax"))) then
              let o_y := (Py.add R prec (Py.neg min_y) excess_height)
              o_y
            else
              let o_y := (Py.add R prec (Py.neg min_y) (Py.truediv R prec excess_height (Py.Val.int 2)))
              o_y
          o_y
      (Py.Val.tup [s_x, s_y, o_x, o_y])
    else
      let s_y := (Py.truediv R prec d_height height)
      let s_x := s_y
      let o_y := (Py.neg min_y)
      let scaled_vb_width := (Py.truediv R prec height ar_doc)
      let excess_width := (Py.sub R prec scaled_vb_width width)
      let o_x := Py.Val.err
      let o_x :=
        if ((Py.eq par_align (Py.Val.str "xminymin")) || (Py.eq par_align (Py.Val.str "xminymid")) || (Py.eq par_align (Py.Val.str "xminymax"))) then
          let o_x := (Py.neg min_x)
          o_x
        else
          let o_x :=
            if ((Py.eq par_align (Py.Val.str "xmaxymin")) || (Py.eq par_align (Py.Val.str "xmaxymid")) || (Py.eq par_align (Py.Val.str "xmaxymax"))) then
              let o_x := (Py.add R prec (Py.neg min_x) excess_width)
              o_x
            else
              let o_x := (Py.add R prec (Py.neg min_x) (Py.truediv R prec excess_width (Py.Val.int 2)))
              o_x
          o_x
      (Py.Val.tup [s_x, s_y, o_x, o_y])

theorem le_flt_int0 (q : Rat) : Py.le (.flt q) (.int 0) = decide (q ≤ 0) := by
  simp [Py.le, Py.num]

/-- the generated `vb_scale` on a viewBox of four finite numbers, exact arithmetic: the two sign tests, then the
copied blocks -/
theorem vb_staged (amb : Nat) (s : String) (parv Wv Hv : Val) (W H : Rat) (hW : IsNum Wv W) (hH : IsNum Hv H)
    (t0 t1 t2 t3 : List Char) (rest : List (List Char))
    (hs : pySplit (commaToBlank (pyStrip s.toList)) = t0 :: t1 :: t2 :: t3 :: rest) (x y w h : Rat)
    (h0 : parseFloat t0 = some (.fin x)) (h1 : parseFloat t1 = some (.fin y))
    (h2 : parseFloat t2 = some (.fin w)) (h3 : parseFloat t3 = some (.fin h)) :
    Gen.vb_scale Rounding.exact amb (.str s) parv Wv Hv =
      if w ≤ 0 ∨ h ≤ 0 then identityVal
      else if W ≤ 0 ∨ H ≤ 0 then identityVal
      else G.core Rounding.exact amb (.flt x) (.flt y) (.flt w) (.flt h) (.flt W) (.flt H)
        (Py.truediv Rounding.exact amb (.flt H) (.flt W)) (Py.truediv Rounding.exact amb (.flt h) (.flt w))
        (G.par parv).2.2.1 (G.par parv).2.2.2 := by
  have hl : ¬ (t0 :: t1 :: t2 :: t3 :: rest).length < 4 := by simp
  have fW : Py.float_ Rounding.exact Wv = .flt W := by rcases hW with rfl | ⟨z, rfl, rfl⟩ <;> rfl
  have fH : Py.float_ Rounding.exact Hv = .flt H := by rcases hH with rfl | ⟨z, rfl, rfl⟩ <;> rfl
  have e0 : C12.fltOf Rounding.exact (parseFloat t0) = .flt x := by rw [h0]; rfl
  have e1 : C12.fltOf Rounding.exact (parseFloat t1) = .flt y := by rw [h1]; rfl
  have e2 : C12.fltOf Rounding.exact (parseFloat t2) = .flt w := by rw [h2]; rfl
  have e3 : C12.fltOf Rounding.exact (parseFloat t3) = .flt h := by rw [h3]; rfl
  have hlt : Py.lt (Py.len_ (.tup (Py.ofL t0 :: Py.ofL t1 :: Py.ofL t2 :: Py.ofL t3 :: List.map Py.ofL rest))) (.int 4) = false := by
    have := len_lt4 (t0 :: t1 :: t2 :: t3 :: rest)
    simp only [List.map_cons] at this
    rw [this]; simp
  unfold Gen.vb_scale G.core G.par
  simp only [Py.isNone, Bool.false_eq_true, if_false, vb_tokens, hs, List.map_cons, hlt,
    Py.getItem_cons_zero, Py.getItem_cons_succ, C12.float_ofL, e0, e1, e2, e3, isErr_flt, fW, fH, le_flt_int0,
    Bool.or_eq_true, decide_eq_true_eq]
  by_cases c1 : w ≤ 0 ∨ h ≤ 0
  · simp only [if_pos c1]; rfl
  · by_cases c2 : W ≤ 0 ∨ H ≤ 0
    · simp only [if_neg c1, if_pos c2]; rfl
    · simp only [if_neg c1, if_neg c2]


theorem str_xmidymid : Val.str "xmidymid" = Py.ofL sXmidYmid := by
  have : ("xmidymid" : String) = String.ofList sXmidYmid := by decide
  unfold Py.ofL; rw [this]
theorem str_meet : Val.str "meet" = Py.ofL sMeet := by
  have : ("meet" : String) = String.ofList sMeet := by decide
  unfold Py.ofL; rw [this]
theorem lit_defer : ("defer" : String).toList = sDefer := by decide

theorem gt_len (l : List (List Char)) (k : Nat) :
    Py.gt (Py.len_ (.tup (l.map Py.ofL))) (.int (k : Int)) = decide (l.length > k) := by
  simp only [Py.len_, List.length_map, Py.gt, Py.num]
  congr 1
  exact propext (by constructor <;> intro h <;> exact_mod_cast h)
theorem gt_len0 (l : List (List Char)) : Py.gt (Py.len_ (.tup (l.map Py.ofL))) (.int 0) = decide (l.length > 0) := gt_len l 0
theorem gt_len1 (l : List (List Char)) : Py.gt (Py.len_ (.tup (l.map Py.ofL))) (.int 1) = decide (l.length > 1) := gt_len l 1
theorem gt_len2 (l : List (List Char)) : Py.gt (Py.len_ (.tup (l.map Py.ofL))) (.int 2) = decide (l.length > 2) := gt_len l 2
theorem getItem_map (l : List (List Char)) (i : Nat) (t : List Char) (h : l[i]? = some t) :
    Py.getItem (.tup (l.map Py.ofL)) i = Py.ofL t := by
  simp [Py.getItem, List.getD, h]

/-- the preserveAspectRatio block of the generated code computes the model's `parTokens` -/
theorem par_bridge (par : Option String) :
    (G.par (encOS par)).2.2.1 = Py.ofL (parTokens (par.map String.toList)).1 ∧
    (G.par (encOS par)).2.2.2 = Py.ofL (parTokens (par.map String.toList)).2 := by
  cases par with
  | none =>
    unfold G.par encOS parTokens
    simp only [Py.isNone, Bool.not_true, Bool.false_eq_true, if_false, Option.map_none, str_xmidymid, str_meet,
      and_self]
  | some p =>
    unfold G.par encOS parTokens
    simp only [Py.isNone, Bool.not_false, if_true, Option.map_some, par_tokens, gt_len0, gt_len1, gt_len2,
      str_xmidymid, str_meet]
    generalize pySplit (lower (commaToBlank (pyStrip p.toList))) = l
    match l with
    | [] => simp
    | [p0] =>
      by_cases hd : p0 = sDefer <;>
        simp [getItem_map, C12.eq_ofL_str, lit_defer, hd]
    | [p0, p1] =>
      by_cases hd : p0 = sDefer <;>
        simp [getItem_map, C12.eq_ofL_str, lit_defer, hd]
    | p0 :: p1 :: p2 :: r =>
      by_cases hd : p0 = sDefer <;>
        simp [getItem_map, C12.eq_ofL_str, lit_defer, hd]

theorem litc_none : ("none" : String).toList = sNone := by decide
theorem litc_meet : ("meet" : String).toList = sMeet := by decide
theorem litc_slice : ("slice" : String).toList = sSlice := by decide
theorem litc_xminymin : ("xminymin" : String).toList = sXminYmin := by decide
theorem litc_xmidymin : ("xmidymin" : String).toList = sXmidYmin := by decide
theorem litc_xmaxymin : ("xmaxymin" : String).toList = sXmaxYmin := by decide
theorem litc_xminymid : ("xminymid" : String).toList = sXminYmid := by decide
theorem litc_xmidymid : ("xmidymid" : String).toList = sXmidYmid := by decide
theorem litc_xmaxymid : ("xmaxymid" : String).toList = sXmaxYmid := by decide
theorem litc_xminymax : ("xminymax" : String).toList = sXminYmax := by decide
theorem litc_xmidymax : ("xmidymax" : String).toList = sXmidYmax := by decide
theorem litc_xmaxymax : ("xmaxymax" : String).toList = sXmaxYmax := by decide

def xfVal (t : Xf) : Val := .tup [.flt t.sx, .flt t.sy, .flt t.ox, .flt t.oy]

theorem ge_flt_flt (a b : Rat) : Py.ge (.flt a) (.flt b) = decide (a ≥ b) := rfl
theorem lt_flt_flt (a b : Rat) : Py.lt (.flt a) (.flt b) = decide (a < b) := rfl
theorem neg_flt (a : Rat) : Py.neg (.flt a) = .flt (-a) := rfl
theorem add_exact (p : Nat) (a b : Rat) : Py.add Rounding.exact p (.flt a) (.flt b) = .flt (a + b) := rfl
theorem sub_exact (p : Nat) (a b : Rat) : Py.sub Rounding.exact p (.flt a) (.flt b) = .flt (a - b) := rfl
theorem div2_exact (p : Nat) (a : Rat) : Py.truediv Rounding.exact p (.flt a) (.int 2) = .flt (a / 2) := by
  simp [Py.truediv, Py.num, Py.join, Py.kind, Py.pack, Rounding.exact]

/-- the numeric tail of the generated code, exact arithmetic, is the model's `vbCore` -/
theorem core_bridge (amb : Nat) (a m : List Char) (x y w h W H : Rat)
    (hw : 0 < w) (hh : 0 < h) (hW : 0 < W) (hH : 0 < H) :
    G.core Rounding.exact amb (.flt x) (.flt y) (.flt w) (.flt h) (.flt W) (.flt H)
      (Py.truediv Rounding.exact amb (.flt H) (.flt W)) (Py.truediv Rounding.exact amb (.flt h) (.flt w))
      (Py.ofL a) (Py.ofL m) = xfVal (vbCore a m x y w h W H) := by
  have nw : w ≠ 0 := ne_of_gt hw
  have nh : h ≠ 0 := ne_of_gt hh
  have nW : W ≠ 0 := ne_of_gt hW
  have nar : H / W ≠ 0 := div_ne_zero (ne_of_gt hH) nW
  rw [C12.div_exact _ _ _ nW, C12.div_exact _ _ _ nw]
  unfold G.core vbCore xfVal
  simp only [C12.eq_ofL_str, litc_none, litc_meet, litc_slice, litc_xminymin, litc_xmidymin, litc_xmaxymin, litc_xminymid, litc_xmidymid, litc_xmaxymid, litc_xminymax, litc_xmidymax, litc_xmaxymax, ge_flt_flt, lt_flt_flt, neg_flt, add_exact, sub_exact, C12.mul_exact,
    div2_exact, C12.div_exact _ _ _ nw, C12.div_exact _ _ _ nh, C12.div_exact _ _ _ nar,
    Bool.or_eq_true, Bool.and_eq_true, decide_eq_true_eq, or_assoc]
  split_ifs <;> rfl


theorem encXf_xfVal (t : Xf) : EncXf (xfVal t) t := ⟨_, _, _, _, rfl, Or.inl rfl, Or.inl rfl, Or.inl rfl, Or.inl rfl⟩

theorem shape4 (l : List (List Char)) (h : ¬ l.length < 4) : ∃ t0 t1 t2 t3 rest, l = t0 :: t1 :: t2 :: t3 :: rest := by
  match l, h with
  | t0 :: t1 :: t2 :: t3 :: rest, _ => exact ⟨t0, t1, t2, t3, rest, rfl⟩
  | [], h => simp at h
  | [_], h => simp at h
  | [_, _], h => simp at h
  | [_, _, _], h => simp at h

/-- **bridge**: the regenerated `vb_scale`, exact arithmetic, returns the transform of the hand model `vbScale`
(as a tuple of `int`s / `float`s), for every viewBox text whose four numbers are not `inf`/`nan` -/
theorem vb_scale_bridge (amb : Nat) (vb par : Option String) (Wv Hv : Val) (W H : Rat)
    (hW : IsNum Wv W) (hH : IsNum Hv H) (hfin : parseVB (vb.map String.toList) ≠ .nonfinite) :
    ∃ t, vbScale (vb.map String.toList) (par.map String.toList) W H = .xf t ∧
      EncXf (Gen.vb_scale Rounding.exact amb (encOS vb) (encOS par) Wv Hv) t := by
  cases vb with
  | none => exact ⟨identity, rfl, by rw [show encOS none = Val.none_ from rfl, vb_none]; exact encXf_identity⟩
  | some s =>
    simp only [Option.map_some] at hfin ⊢
    show ∃ t, _ ∧ EncXf (Gen.vb_scale Rounding.exact amb (.str s) (encOS par) Wv Hv) t
    by_cases hlen : (pySplit (commaToBlank (pyStrip s.toList))).length < 4
    · refine ⟨identity, ?_, by rw [vb_short _ _ _ _ _ _ hlen]; exact encXf_identity⟩
      unfold vbScale; rw [parseVB_short _ hlen]
    · obtain ⟨t0, t1, t2, t3, rest, hs⟩ := shape4 _ hlen
      have hcl := parseVB_tokens s.toList t0 t1 t2 t3 rest hs
      rw [hcl] at hfin
      have bad : (C12.fltOf Rounding.exact (parseFloat t0) = .err ∨ C12.fltOf Rounding.exact (parseFloat t1) = .err ∨
          C12.fltOf Rounding.exact (parseFloat t2) = .err ∨ C12.fltOf Rounding.exact (parseFloat t3) = .err) →
          ∃ t, vbScale (some s.toList) (par.map String.toList) W H = .xf t ∧
            EncXf (Gen.vb_scale Rounding.exact amb (.str s) (encOS par) Wv Hv) t := by
        intro he
        refine ⟨identity, ?_, by rw [vb_err _ _ _ _ _ _ t0 t1 t2 t3 rest hs he]; exact encXf_identity⟩
        unfold vbScale; rw [hcl, classify_err _ _ _ _ _ hfin he]
      rcases fltOf_cases Rounding.exact (parseFloat t0) with e0 | ⟨x, h0, _⟩
      · exact bad (Or.inl e0)
      rcases fltOf_cases Rounding.exact (parseFloat t1) with e1 | ⟨y, h1, _⟩
      · exact bad (Or.inr (Or.inl e1))
      rcases fltOf_cases Rounding.exact (parseFloat t2) with e2 | ⟨w, h2, _⟩
      · exact bad (Or.inr (Or.inr (Or.inl e2)))
      rcases fltOf_cases Rounding.exact (parseFloat t3) with e3 | ⟨h, h3, _⟩
      · exact bad (Or.inr (Or.inr (Or.inr e3)))
      have hok : parseVB (some s.toList) = .ok x y w h := by rw [hcl]; exact classify_ok _ _ _ _ x y w h h0 h1 h2 h3
      rw [vb_staged amb s (encOS par) Wv Hv W H hW hH t0 t1 t2 t3 rest hs x y w h h0 h1 h2 h3]
      unfold vbScale
      rw [hok]
      simp only
      by_cases c1 : w ≤ 0 ∨ h ≤ 0
      · rw [if_pos c1, if_pos c1]; exact ⟨identity, rfl, encXf_identity⟩
      rw [if_neg c1, if_neg c1]
      by_cases c2 : W ≤ 0 ∨ H ≤ 0
      · rw [if_pos c2, if_pos c2]; exact ⟨identity, rfl, encXf_identity⟩
      rw [if_neg c2, if_neg c2]
      simp only [not_or, not_le] at c1 c2
      refine ⟨_, rfl, ?_⟩
      rw [(par_bridge par).1, (par_bridge par).2, core_bridge amb _ _ x y w h W H c1.1 c1.2 c2.1 c2.2]
      exact encXf_xfVal _


theorem classify_ok_inv (p0 p1 p2 p3 : Option Num) (x y w h : Rat) (hc : classify p0 p1 p2 p3 = .ok x y w h) :
    p0 = some (.fin x) ∧ p1 = some (.fin y) ∧ p2 = some (.fin w) ∧ p3 = some (.fin h) := by
  rcases p0 with _ | ⟨_ | _ | _⟩ <;> rcases p1 with _ | ⟨_ | _ | _⟩ <;> rcases p2 with _ | ⟨_ | _ | _⟩ <;>
    rcases p3 with _ | ⟨_ | _ | _⟩ <;> simp_all [classify, finOf]

/-- valid viewBox, positive sizes: the regenerated code returns exactly the four floats of `vbCore` -/
theorem vb_scale_valid (amb : Nat) (s : String) (par : Option String) (Wv Hv : Val) (x y w h W H : Rat)
    (hW : IsNum Wv W) (hH : IsNum Hv H) (hvb : parseVB (some s.toList) = .ok x y w h)
    (hw : 0 < w) (hh : 0 < h) (hW0 : 0 < W) (hH0 : 0 < H) :
    Gen.vb_scale Rounding.exact amb (.str s) (encOS par) Wv Hv =
      xfVal (vbCore (parTokens (par.map String.toList)).1 (parTokens (par.map String.toList)).2 x y w h W H) := by
  have hlen : ¬ (pySplit (commaToBlank (pyStrip s.toList))).length < 4 := by
    intro hl; rw [parseVB_short _ hl] at hvb; cases hvb
  obtain ⟨t0, t1, t2, t3, rest, hs⟩ := shape4 _ hlen
  rw [parseVB_tokens s.toList t0 t1 t2 t3 rest hs] at hvb
  obtain ⟨h0, h1, h2, h3⟩ := classify_ok_inv _ _ _ _ x y w h hvb
  rw [vb_staged amb s (encOS par) Wv Hv W H hW hH t0 t1 t2 t3 rest hs x y w h h0 h1 h2 h3,
    if_neg (by simp only [not_or, not_le]; exact ⟨hw, hh⟩), if_neg (by simp only [not_or, not_le]; exact ⟨hW0, hH0⟩),
    (par_bridge par).1, (par_bridge par).2, core_bridge amb _ _ x y w h W H hw hh hW0 hH0]

end C11
end Plotink
