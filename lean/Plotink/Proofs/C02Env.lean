import Plotink.Proofs.C02Rate

/-! # C02 — firmware validity implies the magnitude envelope (a discrete Markov inequality)

If every per-tick rate of a T3 move stays within the signed 32-bit range then the second difference
`jerk` of the rate parabola is at most `≈ 16·2^31 / T²`, hence `|jerk|·T²` and `|accel|·T` are far below
`2^50` and every intermediate of the Python computation is exactly representable / negligibly rounded. -/

namespace Plotink
namespace T3
open Fw

/-- The firmware-valid domain of the property statement: `1 ≤ T` (a 32-bit tick count), every per-tick
rate within the signed 32-bit range `[−2^31, 2^31−1]` (asymmetric: `−2^31` is a valid rate) and every
per-tick acceleration within `±2^31`. -/
structure ValidT3 (rate accel jerk T : Int) : Prop where
  hT1 : 1 ≤ T
  hT : T ≤ 2 ^ 32
  hrate : ∀ k : Nat, 1 ≤ k → (k : Int) ≤ T →
    -2 ^ 31 ≤ t3Rate rate accel jerk k ∧ t3Rate rate accel jerk k ≤ 2 ^ 31 - 1
  haccel : ∀ k : Nat, (k : Int) ≤ T → |t3Accel rate accel jerk k| ≤ 2 ^ 31

/-- three-point (divided difference) identity for `p k = 2·r_k` -/
theorem three_point (q accel jerk m T : Int) :
    (2 * q + 2 * 1 * accel + jerk * 1 * (1 - 1)) * (T - m)
      - (2 * q + 2 * m * accel + jerk * m * (m - 1)) * (T - 1)
      + (2 * q + 2 * T * accel + jerk * T * (T - 1)) * (m - 1)
    = jerk * ((m - 1) * (T - m) * (T - 1)) := by ring

theorem envelope_of_valid {rate accel jerk T : Int} (hv : ValidT3 rate accel jerk T) :
    EnvT3 rate accel jerk T := by
  obtain ⟨hT1, hT, hrate, haccel⟩ := hv
  -- input magnitudes
  have ha : |accel| ≤ 2 ^ 31 := by
    have := haccel 0 (by simp; omega)
    rwa [accel_closed, Nat.cast_zero, zero_mul, add_zero] at this
  have hj : |jerk| ≤ 2 ^ 32 := by
    have h1 := haccel 1 (by simp; omega)
    rw [accel_closed] at h1
    simp only [Nat.cast_one, one_mul] at h1
    rw [abs_le] at ha h1 ⊢
    constructor <;> linarith [ha.1, ha.2, h1.1, h1.2]
  have hTn : ((T.toNat : Nat) : Int) = T := Int.toNat_of_nonneg (by omega)
  -- p k = 2 r_k is bounded by 2^32 on 1..T
  have hp : ∀ k : Int, 1 ≤ k → k ≤ T →
      |2 * r0 rate accel jerk + 2 * k * accel + jerk * k * (k - 1)| ≤ 2 ^ 32 := by
    intro k hk1 hkT
    have hkn : ((k.toNat : Nat) : Int) = k := Int.toNat_of_nonneg (by omega)
    have h := hrate k.toNat (by omega) (by rw [hkn]; exact hkT)
    have hc := rate_closed rate accel jerk k.toNat
    rw [hkn] at hc
    rw [← hc, abs_mul]
    have habs : |t3Rate rate accel jerk k.toNat| ≤ 2 ^ 31 := by
      rw [abs_le]; constructor <;> linarith [h.1, h.2]
    norm_num
    linarith
  have hr : |rate| ≤ 2 ^ 40 := by
    have h1 := hp 1 (le_refl _) hT1
    have e : 2 * r0 rate accel jerk + 2 * 1 * accel + jerk * 1 * (1 - 1) = 2 * (r0 rate accel jerk + accel) := by ring
    rw [e, abs_mul] at h1
    norm_num at h1
    have h2 := le_trans (tdiv2_abs accel) ha
    have h3 := le_trans (tdiv6_abs jerk) hj
    unfold r0 at h1
    have h1' : |rate - tdiv accel 2 + tdiv jerk 6 + accel| ≤ 2 ^ 31 := by linarith
    rw [abs_le] at h1' h2 h3 ha hj ⊢
    constructor <;> linarith [h1'.1, h1'.2, h2.1, h2.2, h3.1, h3.2, ha.1, ha.2, hj.1, hj.2]
  set q := r0 rate accel jerk with hq
  -- |jerk|·T² by the three-point identity at 1, m, T
  have hjT : |jerk| * T * T ≤ 2 ^ 38 := by
    by_cases hT3 : T ≤ 2
    · have h0 := abs_nonneg jerk
      have : |jerk| * T * T ≤ |jerk| * 2 * 2 :=
        mul_le_mul (mul_le_mul_of_nonneg_left hT3 h0) hT3 (by omega) (by linarith)
      linarith
    · have hT3' : 3 ≤ T := by omega
      obtain ⟨m, hm⟩ : ∃ m : Int, T = 2 * m ∨ T = 2 * m - 1 := ⟨(T + 1) / 2, by omega⟩
      have hm2 : 2 ≤ m := by omega
      have hmT : m ≤ T - 1 := by omega
      have id3 := three_point q accel jerk m T
      have p1 := hp 1 (le_refl _) hT1
      have pm := hp m (by omega) (by omega)
      have pT := hp T hT1 (le_refl _)
      have hTm : 0 ≤ T - m := by omega
      have hT1' : 0 ≤ T - 1 := by omega
      have hm1 : 0 ≤ m - 1 := by omega
      have hprod : 0 ≤ (m - 1) * (T - m) * (T - 1) := mul_nonneg (mul_nonneg hm1 hTm) hT1'
      have habs : |jerk| * ((m - 1) * (T - m) * (T - 1)) ≤ 2 ^ 32 * (T - m) + 2 ^ 32 * (T - 1) + 2 ^ 32 * (m - 1) := by
        rw [← abs_of_nonneg hprod, ← abs_mul, ← id3]
        refine le_trans (abs_add_le _ _) ?_
        refine add_le_add (le_trans (abs_sub _ _) (add_le_add ?_ ?_)) ?_
        · rw [abs_mul, abs_of_nonneg hTm]; exact mul_le_mul_of_nonneg_right p1 hTm
        · rw [abs_mul, abs_of_nonneg hT1']; exact mul_le_mul_of_nonneg_right pm hT1'
        · rw [abs_mul, abs_of_nonneg hm1]; exact mul_le_mul_of_nonneg_right pT hm1
      -- divide by (T - 1) > 0
      have hcore : |jerk| * ((m - 1) * (T - m)) ≤ 2 ^ 33 := by
        have e : 2 ^ 32 * (T - m) + 2 ^ 32 * (T - 1) + 2 ^ 32 * (m - 1) = 2 ^ 33 * (T - 1) := by ring
        rw [e] at habs
        have e2 : |jerk| * ((m - 1) * (T - m) * (T - 1)) = (|jerk| * ((m - 1) * (T - m))) * (T - 1) := by ring
        rw [e2] at habs
        exact le_of_mul_le_mul_right habs (by omega)
      have hTT : T * T ≤ 12 * ((m - 1) * (T - m)) := by
        rcases hm with hm | hm <;> (subst hm; nlinarith)
      have h0 := abs_nonneg jerk
      calc |jerk| * T * T = |jerk| * (T * T) := by ring
        _ ≤ |jerk| * (12 * ((m - 1) * (T - m))) := mul_le_mul_of_nonneg_left hTT h0
        _ = 12 * (|jerk| * ((m - 1) * (T - m))) := by ring
        _ ≤ 12 * 2 ^ 33 := by linarith
        _ ≤ 2 ^ 38 := by norm_num
  -- |accel|·T from the end points
  have haT : |accel| * T ≤ 2 ^ 40 := by
    by_cases hT2 : T = 1
    · rw [hT2]; linarith
    · have p1 := hp 1 (le_refl _) hT1
      have pT := hp T hT1 (le_refl _)
      have hT1' : 0 < T - 1 := by omega
      have id2 : (2 * q + 2 * T * accel + jerk * T * (T - 1)) - (2 * q + 2 * 1 * accel + jerk * 1 * (1 - 1))
          = (2 * accel + jerk * T) * (T - 1) := by ring
      have h1 : |2 * accel + jerk * T| * (T - 1) ≤ 2 ^ 33 := by
        rw [← abs_of_pos hT1', ← abs_mul, ← id2]
        refine le_trans (abs_sub _ _) ?_
        linarith
      have h2 : |2 * accel + jerk * T| * T ≤ 2 ^ 34 := by
        have h0 := abs_nonneg (2 * accel + jerk * T)
        have : |2 * accel + jerk * T| * T ≤ |2 * accel + jerk * T| * (2 * (T - 1)) :=
          mul_le_mul_of_nonneg_left (by omega) h0
        linarith
      have h3 : |2 * accel| ≤ |2 * accel + jerk * T| + |jerk * T| := by
        have h := abs_sub (2 * accel + jerk * T) (jerk * T)
        have e : 2 * accel + jerk * T - jerk * T = 2 * accel := by ring
        rwa [e] at h
      have h4 : |2 * accel| * T ≤ |2 * accel + jerk * T| * T + |jerk * T| * T :=
        by rw [← add_mul]; exact mul_le_mul_of_nonneg_right h3 (by omega)
      have h5 : |jerk * T| * T = |jerk| * T * T := by rw [abs_mul, abs_of_nonneg (by omega : (0:Int) ≤ T)]
      have h6 : |2 * accel| = 2 * |accel| := by rw [abs_mul]; norm_num
      rw [h5, h6] at h4
      have : 2 * |accel| * T = 2 * (|accel| * T) := by ring
      linarith
  exact ⟨hT1, hT, hr, le_trans ha (by norm_num), le_trans hj (by norm_num),
    le_trans haT (by norm_num), le_trans hjT (by norm_num)⟩

end T3
end Plotink
