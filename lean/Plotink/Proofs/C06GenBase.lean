import Plotink.Proofs.C06GenPort
import Plotink.Proofs.LegacyGen
/-! # C06 over the regenerated code, part 1: one transmission, and the wire text of a request line

* `ioCommand_io` / `ioCommand_dom`, `ioQuery_dom`: what a call `ebb_serial.command(port, text, verbose)` /
  `ebb_serial.query(…)` of a regenerated legacy helper does to the world — through `C07_gen_bridge`.
* `wire_toList`, `isAscii_wire`: the characters of `C06.Cmd.wire`, so that the text a generated `format_` renders can be
  recognised as the wire text of a documented command. -/
namespace Plotink
namespace C06Gen
open PyObj Gen
set_option linter.unusedSimpArgs false
set_option linter.unusedVariables false

abbrev outWorld {ω : Type} := @LegacyGen.outWorld ω

/-! ## one call of `command` / `query` -/

theorem toIO_port : toIO .port = PyIO.Val.port := rfl
theorem toIO_str (s : List Char) : toIO (.str s) = PyIO.Val.str s := rfl

theorem command_val (P : C07.Params) (c : C07.Str) (p : C07.Port) (v : C07.Val) (h : (C07.command P c p).1 = .ok v) :
    v = .none := by
  unfold C07.command at h
  generalize C07.commandBody P c p = r at h
  obtain ⟨f, p'⟩ := r
  cases f with
  | done => cases h; rfl
  | io => cases h; rfl
  | py e => cases h

/-- `ebb_serial.command(port, text, verbose)` on any script whose faults are serial I/O exceptions: the text is
written exactly once; the call returns `None` or lets an exception escape (a non-ASCII reply) -/
theorem ioCommand_io (fuel : Nat) (hf : 101 ≤ fuel) (t : List Char) (ht : PyIO.isAscii t = true) (vb : Val)
    (w : World NoObj) (hio : C07Gen.IoScript w.port) :
    ∃ p', p'.log = w.port.log ++ [t] ∧ Shrinks p' w.port ∧
      ((ioCall3 (ebb_serial_command fuel) (ok .port) (ok (.str t)) (ok vb) : Eff NoObj) w = (.ok .none, { w with port := p' }) ∨
       ∃ c, (ioCall3 (ebb_serial_command fuel) (ok .port) (ok (.str t)) (ok vb) : Eff NoObj) w = (.exc c, { w with port := p' })) := by
  have hb := (C07_gen_bridge fuel hf t (toIO vb) w.port hio).2
  have hl := C07.command_log C07.std t w.port ht
  have hs := command_shrinks C07.std t w.port
  have hv := command_val C07.std t w.port
  simp only [ioCall3, bind_ok, toIO_port, toIO_str, hb]
  rcases hc : C07.command C07.std t w.port with ⟨r, p'⟩
  rw [hc] at hl hs hv
  refine ⟨p', hl, hs, ?_⟩
  cases r with
  | ok v =>
    left
    have := hv v rfl
    subst this
    rfl
  | error e => right; exact ⟨_, rfl⟩

/-- … and when moreover every scripted line is ASCII it returns `None`, and the rest of the script is in the domain again -/
theorem ioCommand_dom (fuel : Nat) (hf : 101 ≤ fuel) (t : List Char) (ht : PyIO.isAscii t = true) (vb : Val)
    (w : World NoObj) (hd : Dom w.port) :
    ∃ p', p'.log = w.port.log ++ [t] ∧ Dom p' ∧
      (ioCall3 (ebb_serial_command fuel) (ok .port) (ok (.str t)) (ok vb) : Eff NoObj) w = (.ok .none, { w with port := p' }) := by
  have hb := (C07_gen_bridge fuel hf t (toIO vb) w.port hd.1).2
  have hl := C07.command_log C07.std t w.port ht
  have hs := command_shrinks C07.std t w.port
  have hok := (C07.command_ok C07.std t w.port ht hd.2).1
  simp only [ioCall3, bind_ok, toIO_port, toIO_str, hb]
  rcases hc : C07.command C07.std t w.port with ⟨r, p'⟩
  rw [hc] at hl hs hok
  simp only at hok
  subst hok
  exact ⟨p', hl, hd.shrinks hs, rfl⟩

/-- `ebb_serial.query(port, text, verbose)` in the domain: the text is written exactly once and a `str` comes back -/
theorem ioQuery_dom (fuel : Nat) (hf : 101 ≤ fuel) (t : List Char) (ht : PyIO.isAscii t = true) (vb : Val)
    (w : World NoObj) (hd : Dom w.port) :
    ∃ p' s, p'.log = w.port.log ++ [t] ∧ Dom p' ∧
      (ioCall3 (ebb_serial_query fuel) (ok .port) (ok (.str t)) (ok vb) : Eff NoObj) w = (.ok (.str s), { w with port := p' }) := by
  have hb := (C07_gen_bridge fuel hf t (toIO vb) w.port hd.1).1
  have hl := C07.query_log C07.std t w.port ht
  have hs := query_shrinks C07.std t w.port
  have hok := (C07.query_text C07.std t w.port rfl ht hd.2).1
  simp only [ioCall3, bind_ok, toIO_port, toIO_str, hb]
  rcases hc : C07.query C07.std t w.port with ⟨r, p'⟩
  rw [hc] at hl hs hok
  simp only at hok
  subst hok
  exact ⟨p', _, hl, hd.shrinks hs, rfl⟩

/-- no port: nothing is touched -/
theorem ioCommand_none (fuel : Nat) (t vb : Val) (w : World NoObj) :
    (ioCall3 (ebb_serial_command fuel) (ok .none) (ok t) (ok vb) : Eff NoObj) w = (.ok .none, w) := by
  have h := C07Gen.command_noop fuel .none (toIO t) (toIO vb) w.port (Or.inl rfl)
  simp only [ioCall3, bind_ok]
  show ofIOOut w (ebb_serial_command fuel PyIO.Val.none (toIO t) (toIO vb) w.port) = _
  rw [h]
  rfl

/-! ## the wire text of a request line as characters -/

/-- `,a1,a2,…` as characters -/
def argChars : List Int → List Char
  | [] => []
  | a :: r => ',' :: (Ebb3.showInt a ++ argChars r)

theorem lit_comma : ",".toList = [','] := by decide
theorem lit_cr : "\r".toList = ['\r'] := by decide
theorem lit_empty : "".toList = [] := by decide

theorem argsText_toList (l : List Int) : (C06.argsText l).toList = argChars l := by
  induction l with
  | nil => simp only [C06.argsText, argChars, lit_empty]
  | cons a r ih =>
    simp only [C06.argsText, argChars, String.toList_append, lit_comma, ih, List.cons_append, List.nil_append, List.append_assoc]
    rfl

theorem wire_toList (n : String) (l : List Int) :
    (C06.Cmd.wire ⟨n, l⟩).toList = n.toList ++ (argChars l ++ ['\r']) := by
  simp only [C06.Cmd.wire, C06.Cmd.text, String.toList_append, argsText_toList, lit_cr, List.append_assoc]

theorem isAscii_argChars (l : List Int) : PyIO.isAscii (argChars l) = true := by
  induction l with
  | nil => rfl
  | cons a r ih =>
    show PyIO.isAscii ([','] ++ (Ebb3.showInt a ++ argChars r)) = true
    exact LegacyGen.isAscii_append _ _ (by decide) (LegacyGen.isAscii_append _ _ (LegacyGen.isAscii_showInt a) ih)

theorem isAscii_wire (n : String) (l : List Int) (hn : PyIO.isAscii n.toList = true) :
    PyIO.isAscii (C06.Cmd.wire ⟨n, l⟩).toList = true := by
  rw [wire_toList]
  exact LegacyGen.isAscii_append _ _ hn (LegacyGen.isAscii_append _ _ (isAscii_argChars l) (by decide))

/-! ## shared encodings and literals -/

/-- an optional integer argument -/
def encOpt : Option Int → Val
  | some z => .int z
  | Option.none => .none

theorem lit_SM : "SM".toList = ['S', 'M'] := by decide
theorem lit_XM : "XM".toList = ['X', 'M'] := by decide
theorem lit_EM : "EM".toList = ['E', 'M'] := by decide
theorem lit_PO_B : "PO,B".toList = ['P', 'O', ',', 'B'] := by decide
theorem lit_PD_B : "PD,B".toList = ['P', 'D', ',', 'B'] := by decide
theorem lit_TP : "TP".toList = ['T', 'P'] := by decide
theorem lit_SC : "SC".toList = ['S', 'C'] := by decide
theorem lit_SL : "SL".toList = ['S', 'L'] := by decide
theorem lit_HM : "HM".toList = ['H', 'M'] := by decide
theorem lit_SP : "SP".toList = ['S', 'P'] := by decide
theorem lit_LM : "LM".toList = ['L', 'M'] := by decide
theorem lit_SR : "SR".toList = ['S', 'R'] := by decide
theorem lit_CS : "CS".toList = ['C', 'S'] := by decide
theorem lit_T3 : "T3".toList = ['T', '3'] := by decide
theorem showInt_0 : Ebb3.showInt 0 = ['0'] := by decide
theorem showInt_1 : Ebb3.showInt 1 = ['1'] := by decide
theorem showInt_3 : Ebb3.showInt 3 = ['3'] := by decide
theorem showInt_4 : Ebb3.showInt 4 = ['4'] := by decide
theorem showInt_5 : Ebb3.showInt 5 = ['5'] := by decide
theorem showInt_11 : Ebb3.showInt 11 = ['1', '1'] := by decide
theorem showInt_12 : Ebb3.showInt 12 = ['1', '2'] := by decide

end C06Gen
end Plotink
