import Plotink.Proofs.Ebb3GenVars
import Plotink.Gen.EBBMotionWrap_timed_pause

/-! # Bridge: `timed_pause` (the chunk loop against `pauseChunks` / `runCmds`) -/

namespace Plotink
namespace Ebb3Gen
open PyObj Gen
set_option linter.unusedSimpArgs false
set_option linter.unusedVariables false

theorem srcPauseCmp : Ebb3.srcParams.pauseCmp = 750 := rfl
theorem srcPauseChunk : Ebb3.srcParams.pauseChunk = 750 := rfl

/-- the chunk the loop body computes -/
def chunkOf (t : Int) : Int := if t > 750 then 750 else max t 1

theorem pauseChunks_succ (k : Nat) (t : Int) :
    Ebb3.pauseChunks Ebb3.srcParams (k + 1) t
      = if t > 0 then chunkOf t :: Ebb3.pauseChunks Ebb3.srcParams k (t - chunkOf t) else [] := by
  by_cases h : t > 0 <;> simp [Ebb3.pauseChunks, srcPauseCmp, srcPauseChunk, chunkOf, h]

theorem chunkOf_pos (t : Int) (h : t > 0) : 1 ≤ chunkOf t ∧ chunkOf t ≤ t := by
  unfold chunkOf
  split
  · omega
  · have : max t 1 = t := by omega
    omega

theorem pauseText_ascii (d : Int) : PyIO.isAscii (Ebb3.pauseText d) = true := by
  unfold Ebb3.pauseText
  simp only [isAscii_append, isAscii_showInt, Bool.and_true]
  decide

/-- `time_delay = 750 if pause_time > 750 else max(pause_time, 1)` -/
theorem pause_if2 (fuel : Nat) (t : Int) (td : Val) (w : World EBB3_Obj) :
    EBBMotionWrap_timed_pause_if2 fuel ⟨.int t, td⟩ w = .norm ⟨.int t, .int (chunkOf t)⟩ w := by
  unfold EBBMotionWrap_timed_pause_if2 chunkOf
  have hgt : op_gt (.int t) (.int 750) = .ok (.bool (decide (t > 750))) := by
    simp only [op_gt, ltVal, intOf, ofOptBool]
  simp only [ifte, load_int, app2_ok, hgt, ofP_ok, ok_apply, truthy_bool]
  by_cases h : t > 750
  · simp only [h, decide_true, ↓reduceIte, assign, ok_apply]
  · simp only [h, decide_false, Bool.false_eq_true, ↓reduceIte, assign, load_int, app2_ok, b_max2, ltVal, intOf, ofP_ok, ok_apply]
    by_cases h1 : t < 1
    · have : max t 1 = 1 := by omega
      simp [h1, this]
    · have : max t 1 = t := by omega
      simp [h1, this]

/-- how the pause loop ends, against `runCmds` -/
def PauseSim (fl : Flow EBB3_Obj EBBMotionWrap_timed_pause_Env) :
    Except Ebb3.PyExc Unit × Ebb3.World Ebb3.Script → Prop
  | (.ok _, aw') => ∃ env' w', fl = .norm env' w' ∧ absWorld w' = aw' ∧ Good w'
  | (.error ex, aw') => ∃ env' w', fl = .exc (excOfEbb3 ex) env' w' ∧ absWorld w' = aw' ∧ Good w'

theorem pause_loop (fuel : Nat) (hf : 26 ≤ fuel) :
    ∀ (k n : Nat), k + 1 ≤ n → ∀ (t : Int) (td : Val) (w : World EBB3_Obj), Good w → t.toNat ≤ k →
      PauseSim (whileLoop EBBMotionWrap_timed_pause_test1 EBBMotionWrap_timed_pause_body1 fuel n ⟨.int t, td⟩ w)
        (Ebb3.runCmds Ebb3.srcParams Ebb3.scriptDev ((Ebb3.pauseChunks Ebb3.srcParams (k + 1) t).map Ebb3.pauseText) (absWorld w)) := by
  intro k
  induction k with
  | zero =>
    intro n hn t td w hg ht
    obtain ⟨n', rfl⟩ : ∃ n', n = n' + 1 := ⟨n - 1, by omega⟩
    have ht0 : ¬ t > 0 := by omega
    have htest : EBBMotionWrap_timed_pause_test1 fuel ⟨.int t, td⟩ w = (.ok (.bool false), w) := by
      unfold EBBMotionWrap_timed_pause_test1
      simp only [load_int, app2_ok, op_gt, ltVal, intOf, ofOptBool, ofP_ok, ok_apply]
      simp [ht0]
    unfold whileLoop
    simp only [htest, truthy_bool, Bool.false_eq_true, ↓reduceIte]
    rw [pauseChunks_succ]
    simp only [ht0, ↓reduceIte, List.map_nil]
    exact ⟨_, w, rfl, rfl, hg⟩
  | succ k ih =>
    intro n hn t td w hg ht
    obtain ⟨n', rfl⟩ : ∃ n', n = n' + 1 := ⟨n - 1, by omega⟩
    rw [pauseChunks_succ]
    by_cases ht0 : t > 0
    · have htest : EBBMotionWrap_timed_pause_test1 fuel ⟨.int t, td⟩ w = (.ok (.bool true), w) := by
        unfold EBBMotionWrap_timed_pause_test1
        simp only [load_int, app2_ok, op_gt, ltVal, intOf, ofOptBool, ofP_ok, ok_apply]
        simp [ht0]
      unfold whileLoop
      simp only [htest, truthy_bool, ↓reduceIte, ht0, List.map_cons]
      -- the body
      have hc := chunkOf_pos t ht0
      unfold EBBMotionWrap_timed_pause_body1
      rw [block_cons2, block_cons2, block_one, seq_norm (pause_if2 fuel t td w)]
      have hs := command_stmt fuel hf (Ebb3.pauseText (chunkOf t)) (pauseText_ascii _)
        (⟨.int t, .int (chunkOf t)⟩ : EBBMotionWrap_timed_pause_Env) w hg
        (fun fuel env => fstr [ok (.str ['S', 'M', ',']), load env.time_delay, ok (.str [',', '0', ',', '0'])]) (by
          simp only [load_int, fstr, evalList_cons_ok, evalList_nil, flatten_cons_str, flatten_cons_int, flatten_nil,
            Ebb3.pauseText, lit_SMc, lit_c0c0, List.append_assoc, List.append_nil, List.cons_append, List.nil_append])
      show PauseSim _ ((Ebb3.cmd_ Ebb3.srcParams Ebb3.scriptDev (Ebb3.pauseText (chunkOf t)) >>= fun _ =>
        Ebb3.runCmds Ebb3.srcParams Ebb3.scriptDev _) (absWorld w))
      rw [Ebb3.bind_apply]
      generalize Ebb3.cmd_ Ebb3.srcParams Ebb3.scriptDev _ (absWorld w) = r at hs ⊢
      obtain ⟨res, aw'⟩ := r
      cases res with
      | error ex =>
        obtain ⟨w', e1, e2, hg'⟩ := hs
        rw [seq_exc e1]
        exact ⟨_, w', rfl, e2, hg'⟩
      | ok u =>
        obtain ⟨w', e1, e2, hg'⟩ := hs
        rw [seq_norm e1]
        have hsub : assign (fun (env : EBBMotionWrap_timed_pause_Env) v => { env with pause_time := v })
            (fun fuel env => app2 op_sub (load env.pause_time) (load env.time_delay)) fuel ⟨.int t, .int (chunkOf t)⟩ w'
            = .norm ⟨.int (t - chunkOf t), .int (chunkOf t)⟩ w' := by
          simp only [assign, load_int, app2_ok, op_sub, intOf, ofP_ok, ok_apply]
        rw [hsub]
        simp only
        rw [← e2]
        exact ih n' (by omega) (t - chunkOf t) _ w' hg' (by omega)
    · have htest : EBBMotionWrap_timed_pause_test1 fuel ⟨.int t, td⟩ w = (.ok (.bool false), w) := by
        unfold EBBMotionWrap_timed_pause_test1
        simp only [load_int, app2_ok, op_gt, ltVal, intOf, ofOptBool, ofP_ok, ok_apply]
        simp [ht0]
      unfold whileLoop
      simp only [htest, truthy_bool, Bool.false_eq_true, ↓reduceIte, ht0, List.map_nil]
      exact ⟨_, w, rfl, rfl, hg⟩

/-- **`timed_pause`** (fuel must cover the number of chunks: `t.toNat + 1 ≤ fuel` is enough) -/
theorem timed_pause_bridge (fuel : Nat) (hf : 26 ≤ fuel) (t : Int) (hft : t.toNat + 1 ≤ fuel) (w : World EBB3_Obj) (hg : Good w) :
    Sim (EBBMotionWrap_timed_pause fuel (.int t) w)
      (Ebb3.run Ebb3.srcParams Ebb3.scriptDev (.timed_pause t) (absWorld w)) := by
  unfold EBBMotionWrap_timed_pause EBBMotionWrap_timed_pause_main EBBMotionWrap_timed_pause_if1
  rw [block_cons2, run_guard2 _ _ _ _ _ hg.obj, block_one]
  show Sim _ (Ebb3.guardM .none _ (absWorld w))
  unfold Ebb3.guardM
  show Sim _ (if (absSt w.obj).blocked = true then _ else _)
  by_cases hb : (absSt w.obj).blocked = true
  · simp only [hb, ↓reduceIte]
    exact ⟨rfl, rfl, hg⟩
  · simp only [hb, Bool.false_eq_true, ↓reduceIte]
    have hl := pause_loop fuel hf t.toNat fuel hft t .unbound w hg (Nat.le_refl _)
    show Sim _ ((Ebb3.runCmds Ebb3.srcParams Ebb3.scriptDev _ >>= fun _ => pure Ebb3.Val.none) (absWorld w))
    rw [Ebb3.bind_apply]
    unfold EBBMotionWrap_timed_pause_loop1 while_ PyObj.run
    simp only []
    generalize Ebb3.runCmds Ebb3.srcParams Ebb3.scriptDev _ (absWorld w) = r at hl ⊢
    obtain ⟨res, aw'⟩ := r
    cases res with
    | error ex =>
      obtain ⟨env', w', e1, e2, hg'⟩ := hl
      rw [e1]
      exact ⟨rfl, e2, hg'⟩
    | ok u =>
      obtain ⟨env', w', e1, e2, hg'⟩ := hl
      rw [e1]
      exact ⟨rfl, e2, hg'⟩

end Ebb3Gen
end Plotink
