import Plotink.Proofs.Ebb3GenPause
import Plotink.Proofs.C05FailRep
import Plotink.Gen.EBBMotionWrap_dispatch

/-! # More bridges: `dio_b_config`, and the helpers of shape *guard → `x = self.query(text)` → decode* -/

namespace Plotink
namespace Ebb3Gen
open PyObj Gen
set_option linter.unusedSimpArgs false
set_option linter.unusedVariables false

/-- a generic frame for guarded methods: evaluate the guard on both sides -/
theorem guarded_sim {σ : Type} (X : Ebb3.Val) (rest : Stmt EBB3_Obj σ) (fuel : Nat) (env : σ) (w : World EBB3_Obj)
    (hg : Good w) (body : Ebb3.M Ebb3.Script Ebb3.Val)
    (h : (absSt w.obj).blocked = false → Sim (PyObj.run rest fuel env w) (body (absWorld w))) :
    Sim (PyObj.run (seq (ifte (guard2E (σ := σ)) (return_ (fun fuel env => ok (encVal X))) pass) rest) fuel env w)
      (Ebb3.guardM X body (absWorld w)) := by
  rw [run_guard2 _ _ _ _ _ hg.obj]
  unfold Ebb3.guardM
  show Sim _ (if (absSt w.obj).blocked = true then _ else _)
  by_cases hb : (absSt w.obj).blocked = true
  · simp only [hb, ↓reduceIte]
    exact ⟨rfl, rfl, hg⟩
  · have hb' : (absSt w.obj).blocked = false := by simpa using hb
    simp only [hb', Bool.false_eq_true, ↓reduceIte]
    exact h hb'

/-- **`dio_b_config`** -/
theorem dio_b_config_bridge (fuel : Nat) (hf : 26 ≤ fuel) (pin state dir : Int) (w : World EBB3_Obj) (hg : Good w) :
    Sim (EBBMotionWrap_dio_b_config fuel (.int pin) (.int state) (.int dir) w)
      (Ebb3.run Ebb3.srcParams Ebb3.scriptDev (.dio_b_config pin state dir) (absWorld w)) := by
  unfold EBBMotionWrap_dio_b_config EBBMotionWrap_dio_b_config_main EBBMotionWrap_dio_b_config_if1
  rw [block_cons2]
  refine guarded_sim .none _ fuel _ w hg _ (fun hb => ?_)
  rw [block_cons2, block_one]
  have hs1 := command_stmt fuel hf ("PO,B,".toList ++ Ebb3.commaInts [pin, state]) (isAscii_lit_comma _ _ (by decide))
    (⟨.int pin, .int state, .int dir⟩ : EBBMotionWrap_dio_b_config_Env) w hg
    (fun fuel env => fstr [ok (.str ['P', 'O', ',', 'B', ',']), ok env.pin, ok (.str [',']), ok env.state]) (by fstr_eval)
  show Sim _ ((Ebb3.cmd_ Ebb3.srcParams Ebb3.scriptDev _ >>= fun _ => Ebb3.cmd_ Ebb3.srcParams Ebb3.scriptDev _ >>= fun _ =>
    pure Ebb3.Val.none) (absWorld w))
  rw [Ebb3.bind_apply]
  generalize Ebb3.cmd_ Ebb3.srcParams Ebb3.scriptDev _ (absWorld w) = r at hs1 ⊢
  obtain ⟨res, aw'⟩ := r
  cases res with
  | error ex =>
    obtain ⟨w', e1, e2, hg'⟩ := hs1
    unfold PyObj.run
    rw [seq_exc e1]
    exact ⟨rfl, e2, hg'⟩
  | ok u =>
    obtain ⟨w1, e1, e2, hg1⟩ := hs1
    rw [run_seq_norm e1]
    simp only
    have hs2 := command_stmt fuel hf ("PD,B,".toList ++ Ebb3.commaInts [pin, dir]) (isAscii_lit_comma _ _ (by decide))
      (⟨.int pin, .int state, .int dir⟩ : EBBMotionWrap_dio_b_config_Env) w1 hg1
      (fun fuel env => fstr [ok (.str ['P', 'D', ',', 'B', ',']), ok env.pin, ok (.str [',']), ok env.direction]) (by fstr_eval)
    rw [← e2, Ebb3.bind_apply]
    generalize Ebb3.cmd_ Ebb3.srcParams Ebb3.scriptDev _ (absWorld w1) = r2 at hs2 ⊢
    obtain ⟨res2, aw2⟩ := r2
    unfold PyObj.run
    cases res2 with
    | error ex =>
      obtain ⟨w', e3, e4, hg'⟩ := hs2
      rw [e3]
      exact ⟨rfl, e4, hg'⟩
    | ok u2 =>
      obtain ⟨w', e3, e4, hg'⟩ := hs2
      rw [e3]
      exact ⟨rfl, e4, hg'⟩

/-- **generic bridge of the shape `x = self.query(text)`; tail(x)** : it is enough to relate the tail for the two kinds
of value `query` returns (`None`; a string, with no error recorded) -/
theorem queryShape_sim {σ : Type} (fuel : Nat) (hf : 26 ≤ fuel) (q : List Char) (hasc : PyIO.isAscii q = true) (env : σ)
    (set : σ → Val → σ) (e : Expr EBB3_Obj σ) (he : e fuel env = ok (.str q)) (tail : Stmt EBB3_Obj σ)
    (k : Ebb3.Val → Ebb3.M Ebb3.Script Ebb3.Val) (w : World EBB3_Obj) (hg : Good w)
    (htail : ∀ (v : Ebb3.Val) (w1 : World EBB3_Obj), Good w1 →
      (v = .none ∨ ∃ s, v = .str s ∧ w1.obj.err = .none) →
      Sim (PyObj.run tail fuel (set env (encVal v)) w1) (k v (absWorld w1))) :
    Sim (PyObj.run (seq (assign set (fun fuel env => mcall1 (EBB3_query fuel) (e fuel env))) tail) fuel env w)
      (((Ebb3.queryP Ebb3.srcParams Ebb3.scriptDev (some q)).run >>= k) (absWorld w)) := by
  have hs := query_assign fuel hf q hasc env set w hg e he
  rw [Ebb3.bind_apply]
  have hres : ∀ v aw', (Ebb3.queryP Ebb3.srcParams Ebb3.scriptDev (some q)).run (absWorld w) = (.ok v, aw') →
      v = .none ∨ (∃ s, v = .str s ∧ aw'.st.err = Option.none) := fun v aw' h => Ebb3.query_res _ _ _ h
  generalize (Ebb3.queryP Ebb3.srcParams Ebb3.scriptDev (some q)).run (absWorld w) = r at hs hres ⊢
  obtain ⟨res, aw'⟩ := r
  cases res with
  | error ex =>
    obtain ⟨w', e1, e2, hg'⟩ := hs
    unfold PyObj.run
    rw [seq_exc e1]
    exact ⟨rfl, e2, hg'⟩
  | ok v =>
    obtain ⟨w1, e1, e2, hg1⟩ := hs
    rw [run_seq_norm e1]
    simp only
    rw [← e2]
    refine htail v w1 hg1 ?_
    rcases hres v aw' rfl with h | ⟨s, hs', herr⟩
    · exact Or.inl h
    · refine Or.inr ⟨s, hs', ?_⟩
      rw [← e2] at herr
      exact absOpt_none hg1.obj.err herr

/-- **`dio_b_read`** -/
theorem dio_b_read_bridge (fuel : Nat) (hf : 26 ≤ fuel) (pin : Int) (w : World EBB3_Obj) (hg : Good w) :
    Sim (EBBMotionWrap_dio_b_read fuel (.int pin) w)
      (Ebb3.run Ebb3.srcParams Ebb3.scriptDev (.dio_b_read pin) (absWorld w)) := by
  unfold EBBMotionWrap_dio_b_read EBBMotionWrap_dio_b_read_main EBBMotionWrap_dio_b_read_if1
  rw [block_cons2]
  refine guarded_sim .none _ fuel _ w hg _ (fun hb => ?_)
  rw [block_cons2]
  refine queryShape_sim fuel hf ("PI,B,".toList ++ Ebb3.showInt pin) (isAscii_lit_int _ _ (by decide))
    (⟨.int pin, .unbound⟩ : EBBMotionWrap_dio_b_read_Env) (fun env v => { env with response := v })
    (fun fuel env => fstr [ok (.str ['P', 'I', ',', 'B', ',']), ok env.pin]) (by fstr_eval) _
    (fun r => match r with | .str s => Ebb3.boolOfStr s | _ => pure .none) w hg (fun v w1 hg1 hv => ?_)
  unfold EBBMotionWrap_dio_b_read_if2
  rcases hv with rfl | ⟨s, rfl, -⟩
  · simp only [PyObj.run, block_cons2, block_one, seq, ifte, encVal, load_none, app1_ok, op_is_none, isNone, ofP_ok, ok_apply,
      truthy_bool, ↓reduceIte, return_]
    exact ⟨rfl, rfl, hg1⟩
  · simp only [PyObj.run, block_cons2, block_one, seq, ifte, encVal, load_str, app1_ok, op_is_none, isNone, ofP_ok, ok_apply,
      truthy_bool, Bool.false_eq_true, ↓reduceIte, pass, return_, b_int, Ebb3.boolOfStr]
    cases hpi : Ebb3.pyInt 10 s with
    | some z =>
      simp only [ofP_ok, app1_ok, b_bool, truthy, ok_apply]
      refine ⟨?_, rfl, hg1⟩
      simp only [encVal]
      congr 1
      by_cases hz : z = 0 <;> simp [hz]
    | none =>
      simp only [ofP_error, app1_raise, raise_apply]
      exact ⟨rfl, rfl, hg1⟩

/-- **`query_nickname`** -/
theorem query_nickname_bridge (fuel : Nat) (hf : 26 ≤ fuel) (w : World EBB3_Obj) (hg : Good w) :
    Sim (EBB3_query_nickname fuel w)
      (Ebb3.run Ebb3.srcParams Ebb3.scriptDev .query_nickname (absWorld w)) := by
  unfold EBB3_query_nickname EBB3_query_nickname_main EBB3_query_nickname_if1
  rw [block_cons2]
  refine guarded_sim .none _ fuel _ w hg _ (fun hb => ?_)
  rw [block_cons2, block_one]
  show Sim _ (((Ebb3.queryP Ebb3.srcParams Ebb3.scriptDev (some "QT".toList)).run >>= _) (absWorld w))
  rw [lit_QT]
  refine queryShape_sim fuel hf ['Q', 'T'] (by decide)
    (⟨.unbound⟩ : EBB3_query_nickname_Env) (fun env v => { env with raw_string := v })
    (fun fuel env => ok (.str ['Q', 'T'])) rfl _ _ w hg (fun v w1 hg1 hv => ?_)
  unfold EBB3_query_nickname_if2 EBB3_query_nickname_if3
  rcases hv with rfl | ⟨s, rfl, -⟩
  · simp only [PyObj.run, ifte, encVal, load_none, app1_ok, op_is_not_none, isNone, ofP_ok, ok_apply, truthy_bool,
      Bool.not_true, Bool.false_eq_true, ↓reduceIte, pass]
    exact ⟨rfl, rfl, hg1⟩
  · by_cases hsp : Ebb3.isSpaceStr s = true
    · simp only [PyObj.run, ifte, encVal, load_str, app1_ok, op_is_not_none, isNone, ofP_ok, ok_apply, truthy_bool,
        Bool.not_false, ↓reduceIte, meth_isspace, not_ok, hsp, Bool.not_true, Bool.false_eq_true, pass]
      simp only [hsp, ↓reduceIte, Ebb3.bind_apply, Ebb3.pure_apply]
      exact ⟨rfl, rfl, hg1⟩
    · simp only [PyObj.run, ifte, encVal, load_str, app1_ok, op_is_not_none, isNone, ofP_ok, ok_apply, truthy_bool,
        Bool.not_false, ↓reduceIte, meth_isspace, not_ok, hsp, setattr, b_str, strOf, meth_strip]
      simp only [hsp, Bool.false_eq_true, ↓reduceIte, Ebb3.bind_apply, Ebb3.setName, Ebb3.modifySt_apply, Ebb3.pure_apply]
      refine ⟨rfl, rfl, ⟨?_, hg1.ioR, hg1.ioW, hg1.ascii⟩⟩
      exact ⟨hg1.obj.port, hg1.obj.err, hg1.obj.version, hg1.obj.version_parsed, trivial, hg1.obj.caller, hg1.obj.port_name⟩

theorem srcVThreshold : Ebb3.srcParams.vThreshold = 250 := rfl

/-- **`query_current`** -/
theorem query_current_bridge (fuel : Nat) (hf : 26 ≤ fuel) (w : World EBB3_Obj) (hg : Good w) :
    Sim (EBBMotionWrap_query_current fuel w)
      (Ebb3.run Ebb3.srcParams Ebb3.scriptDev .query_current (absWorld w)) := by
  unfold EBBMotionWrap_query_current EBBMotionWrap_query_current_main EBBMotionWrap_query_current_if1
  rw [block_cons2]
  have hx : (fun (fuel : Nat) (env : EBBMotionWrap_query_current_Env) => mkTuple [ok Val.none, ok Val.none] : Expr EBB3_Obj _)
      = (fun fuel env => ok (encVal (.pair .none .none))) := by
    funext fuel env
    simp only [mkTuple, evalList_cons_ok, evalList_nil, encVal]
  rw [hx]
  refine guarded_sim (.pair .none .none) _ fuel _ w hg _ (fun hb => ?_)
  rw [block_cons2]
  show Sim _ (((Ebb3.queryP Ebb3.srcParams Ebb3.scriptDev (some "QC".toList)).run >>= _) (absWorld w))
  rw [lit_QC]
  refine queryShape_sim fuel hf ['Q', 'C'] (by decide)
    (⟨.unbound, .unbound, .unbound⟩ : EBBMotionWrap_query_current_Env) (fun env v => { env with response := v })
    (fun fuel env => ok (.str ['Q', 'C'])) rfl _ _ w hg (fun v w1 hg1 hv => ?_)
  unfold EBBMotionWrap_query_current_if2 EBBMotionWrap_query_current_if3
  rcases hv with rfl | ⟨s, rfl, -⟩
  · simp only [PyObj.run, block_cons2, block_one, seq, ifte, encVal, load_none, app1_ok, op_is_none, isNone, ofP_ok, ok_apply,
      truthy_bool, ↓reduceIte, return_, mkTuple, evalList_cons_ok, evalList_nil]
    exact ⟨rfl, rfl, hg1⟩
  · simp only [Ebb3.currentDecode]
    rcases hsp : Ebb3.split1 ',' s with ⟨a, ob⟩
    cases ob with
    | none =>
      simp only [PyObj.run, block_cons2, block_one, seq, ifte, encVal, load_str, app1_ok, op_is_none, isNone, ofP_ok, ok_apply,
        truthy_bool, Bool.false_eq_true, ↓reduceIte, pass, assign, meth_split1_char, hsp, op_len, List.length_cons,
        List.length_nil, load_int, app2_ok, op_gt, ltVal, intOf, ofOptBool, return_, mkTuple, evalList_cons_ok, evalList_nil]
      exact ⟨rfl, rfl, hg1⟩
    | some b =>
      have hl : ∀ (x y : Val), load (Val.list [x, y]) = (ok (Val.list [x, y]) : Eff EBB3_Obj) := fun x y => rfl
      have hg0 : op_getitem (.list [.str a, .str b]) (.int 0) = .ok (.str a) := rfl
      have hg1' : op_getitem (.list [.str a, .str b]) (.int 1) = .ok (.str b) := rfl
      simp only [PyObj.run, block_cons2, block_one, seq, ifte, encVal, load_str, app1_ok, op_is_none, isNone, ofP_ok, ok_apply,
        truthy_bool, Bool.false_eq_true, ↓reduceIte, pass, assign, meth_split1_char, hsp, op_len, List.length_cons,
        List.length_nil, load_int, app2_ok, op_gt, ltVal, intOf, ofOptBool, return_, mkTuple, hl, hg0, hg1', b_int]
      cases ha : Ebb3.pyInt 10 a with
      | none =>
        simp only [evalList, ofP_error, bind_raise, raise_apply, Ebb3.bind_apply, Ebb3.ofOption_none]
        exact ⟨rfl, rfl, hg1⟩
      | some za =>
        cases hb' : Ebb3.pyInt 10 b with
        | none =>
          simp only [evalList, ofP_ok, ofP_error, bind_ok, bind_raise, raise_apply, Ebb3.bind_apply, Ebb3.ofOption_some,
            Ebb3.ofOption_none]
          exact ⟨rfl, rfl, hg1⟩
        | some zb =>
          simp only [evalList, ofP_ok, bind_ok, ok_apply, Ebb3.bind_apply, Ebb3.ofOption_some, Ebb3.pure_apply]
          exact ⟨rfl, rfl, hg1⟩

/-- **`query_voltage`** -/
theorem query_voltage_bridge (fuel : Nat) (hf : 26 ≤ fuel) (th : Option Int) (w : World EBB3_Obj) (hg : Good w) :
    Sim (EBBMotionWrap_query_voltage fuel (encOptInt th) w)
      (Ebb3.run Ebb3.srcParams Ebb3.scriptDev (.query_voltage th) (absWorld w)) := by
  unfold EBBMotionWrap_query_voltage EBBMotionWrap_query_voltage_main EBBMotionWrap_query_voltage_if1
  rw [block_cons2]
  refine guarded_sim .none _ fuel _ w hg _ (fun hb => ?_)
  rw [block_cons2]
  rw [run_seq_norm (env' := ⟨.int (th.getD Ebb3.srcParams.vThreshold), .unbound, .unbound, .unbound, .unbound⟩) (w' := w) (by
    unfold EBBMotionWrap_query_voltage_if2
    cases th <;>
      simp only [encOptInt, ifte, load_none, load_int, app1_ok, op_is_none, isNone, ofP_ok, ok_apply, truthy_bool,
        Bool.false_eq_true, ↓reduceIte, assign, pass, Option.getD, srcVThreshold])]
  rw [block_cons2]
  show Sim _ (((Ebb3.queryP Ebb3.srcParams Ebb3.scriptDev (some "QC".toList)).run >>= _) (absWorld w))
  rw [lit_QC]
  refine queryShape_sim fuel hf ['Q', 'C'] (by decide)
    (⟨.int (th.getD Ebb3.srcParams.vThreshold), .unbound, .unbound, .unbound, .unbound⟩ : EBBMotionWrap_query_voltage_Env)
    (fun env v => { env with response := v })
    (fun fuel env => ok (.str ['Q', 'C'])) rfl _ _ w hg (fun v w1 hg1 hv => ?_)
  unfold EBBMotionWrap_query_voltage_if3 EBBMotionWrap_query_voltage_if4 EBBMotionWrap_query_voltage_if5
  generalize th.getD Ebb3.srcParams.vThreshold = t
  rcases hv with rfl | ⟨s, rfl, -⟩
  · simp only [PyObj.run, block_cons2, block_one, seq, ifte, encVal, load_none, app1_ok, op_is_none, isNone, ofP_ok, ok_apply,
      truthy_bool, ↓reduceIte, return_]
    exact ⟨rfl, rfl, hg1⟩
  · simp only [Ebb3.voltageDecode]
    rcases hsp : Ebb3.split1 ',' s with ⟨a, ob⟩
    cases ob with
    | none =>
      simp only [PyObj.run, block_cons2, block_one, seq, ifte, encVal, load_str, app1_ok, op_is_none, isNone, ofP_ok, ok_apply,
        truthy_bool, Bool.false_eq_true, ↓reduceIte, pass, assign, meth_split1_char, hsp, op_len, List.length_cons,
        List.length_nil, load_int, app2_ok, op_gt, ltVal, intOf, ofOptBool, return_]
      exact ⟨rfl, rfl, hg1⟩
    | some b =>
      have hl : ∀ (x y : Val), load (Val.list [x, y]) = (ok (Val.list [x, y]) : Eff EBB3_Obj) := fun x y => rfl
      have hg1' : op_getitem (.list [.str a, .str b]) (.int 1) = .ok (.str b) := rfl
      simp only [PyObj.run, block_cons2, block_one, seq, ifte, encVal, load_str, app1_ok, op_is_none, isNone, ofP_ok, ok_apply,
        truthy_bool, Bool.false_eq_true, ↓reduceIte, pass, assign, meth_split1_char, hsp, op_len, List.length_cons,
        List.length_nil, load_int, app2_ok, op_gt, ltVal, intOf, ofOptBool, return_, hl, hg1', b_int]
      cases hb' : Ebb3.pyInt 10 b with
      | none =>
        simp only [ofP_error, raise_apply]
        exact ⟨rfl, rfl, hg1⟩
      | some zb =>
        have h12 : decide ((1 : Int) < ((0 + 1 + 1 : Nat) : Int)) = true := by decide
        simp only [ofP_ok, ok_apply, load_int, app2_ok, op_lt, ltVal, intOf, ofOptBool, truthy_bool, h12, ↓reduceIte]
        by_cases hlt : zb < t
        · simp only [hlt, decide_true, ↓reduceIte, return_, ok_apply, Bool.not_true]
          exact ⟨rfl, rfl, hg1⟩
        · simp only [hlt, decide_false, Bool.false_eq_true, ↓reduceIte, pass, return_, ok_apply, Bool.not_false]
          exact ⟨rfl, rfl, hg1⟩

theorem errTruthy_eq (w : World EBB3_Obj) (ho : ObjOk w.obj) : Ebb3.errTruthy (absWorld w).st = truthy w.obj.err := by
  have he := ho.err
  simp only [Ebb3.errTruthy, absWorld, absSt]
  cases herr : w.obj.err <;> rw [herr] at he <;> simp_all [IsOptStr, absOpt, truthy]

theorem splitOn_ne_nil (sep : Char) : ∀ s : List Char, Ebb3.splitOn sep s ≠ []
  | [] => by simp [Ebb3.splitOn]
  | c :: cs => by
    have ih := splitOn_ne_nil sep cs
    simp only [Ebb3.splitOn]
    split
    · simp
    · split
      · simp
      · simp

/-- `(int(l[0]), int(l[1]))` on a list of strings = the model's `int2` -/
theorem int2_sim {σ : Type} (fuel : Nat) (env : σ) (l : List (List Char)) (hne : l ≠ []) (w : World EBB3_Obj) (hg : Good w) :
    Sim (PyObj.run (return_ (fun (fuel : Nat) (env : σ) => mkTuple [
        app1 b_int (app2 op_getitem (ok (.list (l.map Val.str))) (ok (.int 0))),
        app1 b_int (app2 op_getitem (ok (.list (l.map Val.str))) (ok (.int 1)))])) fuel env w)
      (Ebb3.int2 l (absWorld w)) := by
  unfold Ebb3.int2
  match l, hne with
  | [a], _ =>
    have h0 : op_getitem (.list [.str a]) (.int 0) = .ok (.str a) := rfl
    have h1 : op_getitem (.list [.str a]) (.int 1) = .error .indexError := rfl
    simp only [PyObj.run, return_, mkTuple, List.map_cons, List.map_nil, app2_ok, h0, h1, ofP_ok, ofP_error, app1_ok, app1_raise,
      b_int, List.getD_cons_zero]
    cases ha : Ebb3.pyInt 10 a with
    | none =>
      simp only [evalList, ofP_error, bind_raise, raise_apply, Ebb3.bind_apply, Ebb3.ofOption_none]
      exact ⟨rfl, rfl, hg⟩
    | some za =>
      simp only [evalList, ofP_ok, bind_ok, bind_raise, raise_apply, Ebb3.bind_apply, Ebb3.ofOption_some, Ebb3.raise_apply]
      exact ⟨rfl, rfl, hg⟩
  | a :: b :: r, _ =>
    have h0 : op_getitem (.list (.str a :: .str b :: r.map Val.str)) (.int 0) = .ok (.str a) := by
      simp [op_getitem, intOf, normIdx]
    have h1 : op_getitem (.list (.str a :: .str b :: r.map Val.str)) (.int 1) = .ok (.str b) := by
      simp [op_getitem, intOf, normIdx]
    simp only [PyObj.run, return_, mkTuple, List.map_cons, app2_ok, h0, h1, ofP_ok, app1_ok, b_int, List.getD_cons_zero]
    cases ha : Ebb3.pyInt 10 a with
    | none =>
      simp only [evalList, ofP_error, bind_raise, raise_apply, Ebb3.bind_apply, Ebb3.ofOption_none]
      exact ⟨rfl, rfl, hg⟩
    | some za =>
      cases hb : Ebb3.pyInt 10 b with
      | none =>
        simp only [evalList, ofP_ok, ofP_error, bind_ok, bind_raise, raise_apply, Ebb3.bind_apply, Ebb3.ofOption_some,
          Ebb3.ofOption_none]
        exact ⟨rfl, rfl, hg⟩
      | some zb =>
        simp only [evalList, ofP_ok, bind_ok, ok_apply, Ebb3.bind_apply, Ebb3.ofOption_some, Ebb3.pure_apply]
        exact ⟨rfl, rfl, hg⟩

/-- **`query_steps`** -/
theorem query_steps_bridge (fuel : Nat) (hf : 26 ≤ fuel) (w : World EBB3_Obj) (hg : Good w) :
    Sim (EBBMotionWrap_query_steps fuel w)
      (Ebb3.run Ebb3.srcParams Ebb3.scriptDev .query_steps (absWorld w)) := by
  unfold EBBMotionWrap_query_steps EBBMotionWrap_query_steps_main EBBMotionWrap_query_steps_if1
  rw [block_cons2]
  refine guarded_sim .none _ fuel _ w hg _ (fun hb => ?_)
  rw [block_cons2]
  show Sim _ (((Ebb3.queryP Ebb3.srcParams Ebb3.scriptDev (some "QS".toList)).run >>= fun r => Ebb3.M.getSt >>= fun st =>
    if Ebb3.errTruthy st = true then pure Ebb3.Val.none
    else match r with
      | .str s => Ebb3.int2 (Ebb3.splitOn ',' (Ebb3.strip s))
      | _ => Ebb3.M.raise .attributeError) (absWorld w))
  rw [lit_QS]
  refine queryShape_sim fuel hf ['Q', 'S'] (by decide)
    (⟨.unbound, .unbound⟩ : EBBMotionWrap_query_steps_Env) (fun env v => { env with result := v })
    (fun fuel env => ok (.str ['Q', 'S'])) rfl _ _ w hg (fun v w1 hg1 hv => ?_)
  unfold EBBMotionWrap_query_steps_if2
  rw [Ebb3.bind_apply, Ebb3.getSt_apply]
  simp only [errTruthy_eq w1 hg1.obj]
  rw [block_cons2, block_cons2, block_one]
  by_cases ht : truthy w1.obj.err = true
  · have : ∀ rest, PyObj.run (seq (ifte (fun (fuel : Nat) (env : EBBMotionWrap_query_steps_Env) => getattr (fun o : EBB3_Obj => o.err))
        (return_ (fun fuel env => ok Val.none)) pass) rest) fuel ⟨encVal v, .unbound⟩ w1 = .val .none w1 := by
      intro rest
      simp only [PyObj.run, seq, ifte, getattr_err w1 hg1.obj, ht, ↓reduceIte, return_, ok_apply]
    rw [this]
    simp only [ht, ↓reduceIte]
    exact ⟨rfl, rfl, hg1⟩
  · have ht' : truthy w1.obj.err = false := by simpa using ht
    rw [run_seq_norm (env' := ⟨encVal v, .unbound⟩) (w' := w1) (by
      simp only [ifte, getattr_err w1 hg1.obj, ht', Bool.false_eq_true, ↓reduceIte, pass])]
    simp only [ht', Bool.false_eq_true, ↓reduceIte]
    rcases hv with rfl | ⟨s, rfl, -⟩
    · simp only [PyObj.run, seq, assign, encVal, load_none, app1_ok, meth_strip, ofP_error, app1_raise, raise_apply]
      exact ⟨rfl, rfl, hg1⟩
    · rw [run_seq_norm (env' := ⟨.str s, .list ((Ebb3.splitOn ',' (Ebb3.strip s)).map Val.str)⟩) (w' := w1) (by
        simp only [assign, encVal, load_str, app1_ok, meth_strip, ofP_ok, meth_split_char, ok_apply])]
      have := int2_sim fuel (⟨.str s, .list ((Ebb3.splitOn ',' (Ebb3.strip s)).map Val.str)⟩ : EBBMotionWrap_query_steps_Env)
        (Ebb3.splitOn ',' (Ebb3.strip s)) (splitOn_ne_nil _ _) w1 hg1
      simp only [PyObj.run, return_] at this ⊢
      have hl : (load (Val.list ((Ebb3.splitOn ',' (Ebb3.strip s)).map Val.str)) : Eff EBB3_Obj)
          = ok (Val.list ((Ebb3.splitOn ',' (Ebb3.strip s)).map Val.str)) := rfl
      simp only [hl]
      exact this

/-- the decode table of `motors_query_enabled` -/
def resDict : Val := .dict [(.int 16, .int 1), (.int 8, .int 2), (.int 4, .int 3), (.int 2, .int 4), (.int 1, .int 5), (.int 0, .int 0)]

theorem resDict_get (a : Int) :
    op_getitem resDict (.int a) = (match Ebb3.resMap a with | some r => .ok (.int r) | Option.none => .error .keyError) := by
  unfold resDict Ebb3.resMap
  simp only [op_getitem, dictGet, pyEq]
  by_cases h16 : a = 16
  · subst h16; rfl
  by_cases h8 : a = 8
  · subst h8; rfl
  by_cases h4 : a = 4
  · subst h4; rfl
  by_cases h2 : a = 2
  · subst h2; rfl
  by_cases h1 : a = 1
  · subst h1; rfl
  by_cases h0 : a = 0
  · subst h0; rfl
  simp [h16, h8, h4, h2, h1, h0]

/-- `(res_map[int(l[0])], res_map[int(l[1])])` = the model's `qeDecode` -/
theorem qeDecode_sim {σ : Type} (fuel : Nat) (env : σ) (l : List (List Char)) (hne : l ≠ []) (w : World EBB3_Obj) (hg : Good w) :
    Sim (PyObj.run (return_ (fun (fuel : Nat) (env : σ) => mkTuple [
        app2 op_getitem (ok resDict) (app1 b_int (app2 op_getitem (ok (.list (l.map Val.str))) (ok (.int 0)))),
        app2 op_getitem (ok resDict) (app1 b_int (app2 op_getitem (ok (.list (l.map Val.str))) (ok (.int 1))))])) fuel env w)
      (Ebb3.qeDecode l (absWorld w)) := by
  unfold Ebb3.qeDecode
  match l, hne with
  | [a], _ =>
    have h0 : op_getitem (.list [.str a]) (.int 0) = .ok (.str a) := rfl
    have h1 : op_getitem (.list [.str a]) (.int 1) = .error .indexError := rfl
    simp only [PyObj.run, return_, mkTuple, List.map_cons, List.map_nil, app2_ok, h0, h1, ofP_ok, ofP_error, app1_ok, app1_raise,
      b_int, List.getD_cons_zero]
    cases ha : Ebb3.pyInt 10 a with
    | none =>
      simp only [evalList, ofP_error, app2_ok_left, bind_raise, raise_apply, Ebb3.bind_apply, Ebb3.ofOption_none]
      exact ⟨rfl, rfl, hg⟩
    | some za =>
      simp only [ofP_ok, app2_ok, bind_ok, resDict_get]
      cases hr : Ebb3.resMap za with
      | none =>
        simp only [evalList, ofP_error, app2_ok_left, bind_raise, raise_apply, Ebb3.bind_apply, hr, Ebb3.ofOption_some, Ebb3.ofOption_none]
        exact ⟨rfl, rfl, hg⟩
      | some ra =>
        simp only [evalList, ofP_ok, ofP_error, app1_raise, app2_ok_left, bind_ok, bind_raise, raise_apply, Ebb3.bind_apply, hr, Ebb3.ofOption_some, Ebb3.raise_apply]
        exact ⟨rfl, rfl, hg⟩
  | a :: b :: r, _ =>
    have h0 : op_getitem (.list (.str a :: .str b :: r.map Val.str)) (.int 0) = .ok (.str a) := by
      simp [op_getitem, intOf, normIdx]
    have h1 : op_getitem (.list (.str a :: .str b :: r.map Val.str)) (.int 1) = .ok (.str b) := by
      simp [op_getitem, intOf, normIdx]
    simp only [PyObj.run, return_, mkTuple, List.map_cons, app2_ok, h0, h1, ofP_ok, app1_ok, b_int, List.getD_cons_zero]
    cases ha : Ebb3.pyInt 10 a with
    | none =>
      simp only [evalList, ofP_error, app2_ok_left, bind_raise, raise_apply, Ebb3.bind_apply, Ebb3.ofOption_none]
      exact ⟨rfl, rfl, hg⟩
    | some za =>
      simp only [ofP_ok, app2_ok, bind_ok, resDict_get]
      cases hr : Ebb3.resMap za with
      | none =>
        simp only [evalList, ofP_error, app2_ok_left, bind_raise, raise_apply, Ebb3.bind_apply, hr, Ebb3.ofOption_some, Ebb3.ofOption_none]
        exact ⟨rfl, rfl, hg⟩
      | some ra =>
        cases hb : Ebb3.pyInt 10 b with
        | none =>
          simp only [evalList, ofP_ok, ofP_error, app2_ok_left, bind_ok, bind_raise, raise_apply, Ebb3.bind_apply, hr, Ebb3.ofOption_some,
            Ebb3.ofOption_none]
          exact ⟨rfl, rfl, hg⟩
        | some zb =>
          simp only [evalList, ofP_ok, app2_ok, bind_ok, resDict_get]
          cases hr2 : Ebb3.resMap zb with
          | none =>
            simp only [ofP_error, bind_raise, raise_apply, Ebb3.bind_apply, hr, hr2, Ebb3.ofOption_some, Ebb3.ofOption_none]
            exact ⟨rfl, rfl, hg⟩
          | some rb =>
            simp only [ofP_ok, bind_ok, ok_apply, Ebb3.bind_apply, hr, hr2, Ebb3.ofOption_some, Ebb3.pure_apply]
            exact ⟨rfl, rfl, hg⟩

/-- **`motors_query_enabled`** -/
theorem motors_query_enabled_bridge (fuel : Nat) (hf : 26 ≤ fuel) (w : World EBB3_Obj) (hg : Good w) :
    Sim (EBBMotionWrap_motors_query_enabled fuel w)
      (Ebb3.run Ebb3.srcParams Ebb3.scriptDev .motors_query_enabled (absWorld w)) := by
  unfold EBBMotionWrap_motors_query_enabled EBBMotionWrap_motors_query_enabled_main EBBMotionWrap_motors_query_enabled_if1
  rw [block_cons2]
  refine guarded_sim .none _ fuel _ w hg _ (fun hb => ?_)
  rw [block_cons2]
  show Sim _ (((Ebb3.queryP Ebb3.srcParams Ebb3.scriptDev (some "QE".toList)).run >>= _) (absWorld w))
  rw [lit_QE]
  refine queryShape_sim fuel hf ['Q', 'E'] (by decide)
    (⟨.unbound, .unbound, .unbound⟩ : EBBMotionWrap_motors_query_enabled_Env) (fun env v => { env with response := v })
    (fun fuel env => ok (.str ['Q', 'E'])) rfl _ _ w hg (fun v w1 hg1 hv => ?_)
  unfold EBBMotionWrap_motors_query_enabled_if2
  rw [block_cons2, block_cons2, block_cons2, block_one]
  rcases hv with rfl | ⟨s, rfl, -⟩
  · simp only [PyObj.run, seq, ifte, encVal, load_none, app1_ok, op_is_none, isNone, ofP_ok, ok_apply, truthy_bool, ↓reduceIte,
      return_]
    exact ⟨rfl, rfl, hg1⟩
  · rw [run_seq_norm (env' := ⟨.str s, .unbound, .unbound⟩) (w' := w1) (by
      simp only [ifte, encVal, load_str, app1_ok, op_is_none, isNone, ofP_ok, ok_apply, truthy_bool, Bool.false_eq_true,
        ↓reduceIte, pass])]
    rw [run_seq_norm (env' := ⟨.str s, resDict, .unbound⟩) (w' := w1) (by
      simp only [assign, mkDict, evalList_cons_ok, evalList_nil, ok_apply, resDict, List.zip_cons_cons, List.zip_nil_right])]
    rw [run_seq_norm (env' := ⟨.str s, resDict, .list ((Ebb3.splitOn ',' s).map Val.str)⟩) (w' := w1) (by
      simp only [assign, load_str, app1_ok, meth_split_char, ofP_ok, ok_apply])]
    have := qeDecode_sim fuel (⟨.str s, resDict, .list ((Ebb3.splitOn ',' s).map Val.str)⟩ : EBBMotionWrap_motors_query_enabled_Env)
      (Ebb3.splitOn ',' s) (splitOn_ne_nil _ _) w1 hg1
    have hl : (load (Val.list ((Ebb3.splitOn ',' s).map Val.str)) : Eff EBB3_Obj)
        = ok (Val.list ((Ebb3.splitOn ',' s).map Val.str)) := rfl
    have hd : (load resDict : Eff EBB3_Obj) = ok resDict := rfl
    simp only [hl, hd]
    exact this

/-- in the model, `command` on a non-blank text returns (no exception) -/
theorem commandRun_ok {σ : Type} (P : Ebb3.Params) (D : Ebb3.Device σ) (text : List Char) (hnb : Ebb3.strip text ≠ [])
    (w : Ebb3.World σ) : ∃ v w', (Ebb3.commandP P D (some text)).run w = (.ok v, w') := by
  by_cases hb : w.st.blocked = true
  · exact ⟨_, w, Ebb3.Prog.run_blocked _ _ rfl w hb⟩
  · rw [Ebb3.Prog.run_open _ _ rfl w (by simpa using hb)]
    show ∃ v w', Ebb3.commandCore P D (Ebb3.strip text) w = (.ok v, w')
    obtain ⟨name, hn, -⟩ := Ebb3.cmdName_ok_of_ne hnb
    unfold Ebb3.commandCore
    simp only [hn]
    obtain ⟨r, w1, h1, -⟩ := Ebb3.exchange_st D P.retryCmd (Ebb3.strip text) w
    rw [Ebb3.bind_ok h1]
    have hj : ∃ w2, Ebb3.commandJudge P (Ebb3.strip text) name r w1 = (.ok (), w2) := by
      unfold Ebb3.commandJudge
      cases r with
      | none => simp only []; split <;> exact ⟨_, rfl⟩
      | some resp =>
        simp only []
        have h1 : ∃ w2, (if Ebb3.startsWith name resp = true then (pure () : Ebb3.M σ Unit)
            else if resp.isEmpty = true then Ebb3.recordError (Ebb3.Msg.cmdTimeout (Ebb3.strip text))
            else Ebb3.recordError (Ebb3.Msg.cmdUnexpected (Ebb3.strip text) resp)) w1 = (.ok (), w2) := by
          split
          · exact ⟨_, rfl⟩
          · split <;> exact ⟨_, rfl⟩
        obtain ⟨w2, h2⟩ := h1
        rw [Ebb3.bind_ok h2]
        split <;> exact ⟨_, rfl⟩
    obtain ⟨w2, h2⟩ := hj
    rw [Ebb3.bind_ok h2]
    exact ⟨_, w2, rfl⟩

theorem objOk_setName (o : EBB3_Obj) (ho : ObjOk o) (n : List Char) : ObjOk { o with name := .str n } :=
  ⟨ho.port, ho.err, ho.version, ho.version_parsed, trivial, ho.caller, ho.port_name⟩

/-- **`write_nickname`** -/
theorem write_nickname_bridge (fuel : Nat) (hf : 26 ≤ fuel) (nick : Option Ebb3.Str)
    (hasc : ∀ s, nick = some s → PyIO.isAscii s = true) (w : World EBB3_Obj) (hg : Good w) :
    Sim (EBB3_write_nickname fuel (encReq nick) w)
      (Ebb3.run Ebb3.srcParams Ebb3.scriptDev (.write_nickname nick) (absWorld w)) := by
  have ho := hg.obj
  unfold EBB3_write_nickname EBB3_write_nickname_main
  show Sim _ (Ebb3.guardM (.bool false) _ (absWorld w))
  rw [block_cons2]
  unfold Ebb3.guardM
  show Sim _ (if (absSt w.obj).blocked = true then _ else _)
  by_cases hb : (absSt w.obj).blocked = true
  · have : ∀ rest, PyObj.run (seq EBB3_write_nickname_if1 rest) fuel ⟨encReq nick⟩ w = .val (.bool false) w := by
      intro rest
      unfold PyObj.run
      rw [seq_ret (v := .bool false) (w' := w) (by
        unfold EBB3_write_nickname_if1
        simp only [ifte, guard3_eval w ho, hb, ↓reduceIte, truthy_bool, return_, ok_apply])]
    rw [this]
    simp only [hb, ↓reduceIte]
    exact ⟨rfl, rfl, hg⟩
  · have hb' : (absSt w.obj).blocked = false := by simpa using hb
    simp only [hb', Bool.false_eq_true, ↓reduceIte]
    cases nick with
    | none =>
      have : ∀ rest, PyObj.run (seq EBB3_write_nickname_if1 rest) fuel ⟨encReq Option.none⟩ w = .val (.bool false) w := by
        intro rest
        unfold PyObj.run
        rw [seq_ret (v := .bool false) (w' := w) (by
          unfold EBB3_write_nickname_if1
          simp only [ifte, guard3_eval w ho, hb', Bool.false_eq_true, ↓reduceIte, encReq, load_none, app1_ok, op_is_none, isNone,
            ofP_ok, ok_apply, truthy_bool, return_])]
      rw [this]
      exact ⟨rfl, rfl, hg⟩
    | some n0 =>
      have hasc' : PyIO.isAscii (Ebb3.strip n0) = true := isAscii_strip n0 (hasc n0 rfl)
      rw [run_seq_norm (env' := ⟨.str n0⟩) (w' := w) (by
        unfold EBB3_write_nickname_if1
        simp only [ifte, guard3_eval w ho, hb', Bool.false_eq_true, ↓reduceIte, encReq, load_str, app1_ok, op_is_none, isNone,
          ofP_ok, ok_apply, truthy_bool, pass])]
      rw [block_cons2, run_seq_assign_ok (v := .str (Ebb3.strip n0)) (by simp only [load_str, app1_ok, meth_strip, ofP_ok]),
        block_cons2]
      rw [run_seq_norm (env' := ⟨.str (Ebb3.strip n0)⟩) (w' := w) (by
        unfold EBB3_write_nickname_if2
        simp only [ifte, load_str, app1_ok, b_bool, ofP_ok, not_ok, ok_apply, truthy_bool, truthy_str]
        cases hs : Ebb3.strip n0 with
        | nil => simp [assign, ok_apply]
        | cons a t => simp [pass])]
      rw [block_one]
      -- the command
      have htext : PyIO.isAscii ("ST,".toList ++ Ebb3.strip n0) = true := by
        rw [isAscii_append, hasc']; decide
      have hc := command_bridge_ascii fuel hf (some ("ST,".toList ++ Ebb3.strip n0))
        (fun s hs => by injection hs with hs; rw [← hs]; exact htext) w hg
      rw [run_command_eq] at hc
      simp only [encReq] at hc
      have hres : ∀ v aw', (Ebb3.commandP Ebb3.srcParams Ebb3.scriptDev (some ("ST,".toList ++ Ebb3.strip n0))).run (absWorld w)
          = (.ok v, aw') → v = .bool false ∨ (v = .bool true ∧ aw'.st.err = Option.none) :=
        fun v aw' h => Ebb3.command_res _ _ _ h
      obtain ⟨v0, aw0, hok⟩ := commandRun_ok Ebb3.srcParams Ebb3.scriptDev ("ST,".toList ++ Ebb3.strip n0)
        (Ebb3.strip_ne_of_prefix _ _ (by decide)) (absWorld w)
      show Sim _ (((Ebb3.commandP Ebb3.srcParams Ebb3.scriptDev (some ("ST,".toList ++ Ebb3.strip n0))).run >>= _) (absWorld w))
      have hres' := hres v0 aw0 hok
      rw [Ebb3.bind_apply, hok]
      rw [hok] at hc
      obtain ⟨w1, h1, h2, hg1⟩ : ∃ w1, EBB3_command fuel (.str ("ST,".toList ++ Ebb3.strip n0)) w = .val (encVal v0) w1 ∧
          absWorld w1 = aw0 ∧ Good w1 := by
        cases hout : EBB3_command fuel (.str ("ST,".toList ++ Ebb3.strip n0)) w with
        | fuelOut => rw [hout] at hc; exact hc.elim
        | exc c w' => rw [hout] at hc; exact hc.elim
        | val v w' => rw [hout] at hc; exact ⟨w', by rw [hc.1], hc.2.1, hc.2.2⟩
      have hcond : (not_ (mcall1 (EBB3_command fuel) (app2 op_add (ok (.str ['S', 'T', ','])) (ok (.str (Ebb3.strip n0))))) : Eff EBB3_Obj) w
          = (.ok (.bool (!truthy (encVal v0))), w1) := by
        simp only [app2_ok, op_add, ofP_ok, not_, mcall1_ok_apply, PyObj.bind, ← lit_STc]
        rw [show ("ST,".toList ++ Ebb3.strip n0) = ("ST,".toList ++ Ebb3.strip n0) from rfl, h1]
        rfl
      unfold EBB3_write_nickname_try1 EBB3_write_nickname_if3 EBB3_write_nickname_handlers1
      rcases hres' with rfl | ⟨rfl, herr⟩
      · simp only [encVal, truthy_bool, Bool.not_false] at hcond
        simp only [PyObj.run, tryExcept, block_cons2, block_one, seq, ifte, load_str, hcond, truthy_bool, ↓reduceIte, return_, ok_apply]
        exact ⟨rfl, h2, hg1⟩
      · simp only [encVal, truthy_bool, Bool.not_true] at hcond
        simp only [PyObj.run, tryExcept, block_cons2, block_one, seq, ifte, load_str, hcond, truthy_bool, Bool.false_eq_true, ↓reduceIte, pass,
          setattr, ok_apply, return_]
        simp only [Ebb3.bind_apply, Ebb3.setName, Ebb3.modifySt_apply, Ebb3.pure_apply]
        refine ⟨rfl, ?_, ⟨objOk_setName _ hg1.obj _, hg1.ioR, hg1.ioW, hg1.ascii⟩⟩
        rw [← h2]
        rfl

end Ebb3Gen
end Plotink
