import Plotink.Proofs.C15GenLegacy
import Plotink.Proofs.C15GenHead
import Plotink.Gen.EBB3_connect
/-! # C15 (regenerated code) — the EBB3 layer

* `record_error_gen`, `disconnect_gen`, `parse_version_gen`, `min_version3_gen`: the regenerated helper methods on an
  object in state `st` (`encSt st`).
* `try_gen`: the `try:` block of the regenerated `connect`, with its handler, is `C15.handshake` on the same script.
* `connect_head_gen`: the regenerated `connect` up to the minimum-version check is the head of `C15.connect`
  (`connectHeadP`, with the runtime's `parse` for the reply's version text): every refusal returns `False` in the model's
  state with at most two probes attempted; every failure is an escaping exception.  Port location
  (`_get_port_name`) is an input, as in the model; `get_port_name_named` discharges it for a given name. -/
namespace Plotink.C15Gen
open PyObj Gen
set_option linter.unusedSimpArgs false
set_option linter.unusedVariables false

def optStr : Option (List Char) → Val
  | some s => .str s
  | Option.none => .none

/-- the attributes of an `EBB3` object in state `st` -/
def encSt (st : C15.St) : EBB3_Obj :=
  { port_name := optStr st.portName, port := if st.port then .port else .none, version := optStr st.version,
    version_parsed := (match st.vparsed with | some v => .version v | Option.none => .none),
    name := optStr st.name, err := optStr st.err, caller := optStr st.caller }

theorem optStr_ne_unbound (o : Option (List Char)) : optStr o ≠ .unbound := by cases o <;> simp [optStr]

theorem getattr_err (st : C15.St) (p : PyIO.Port) (ext : Ext) :
    getattr (fun o : EBB3_Obj => o.err) (⟨encSt st, p, ext⟩ : World EBB3_Obj) = (.ok (optStr st.err), ⟨encSt st, p, ext⟩) :=
  getattr_apply (optStr_ne_unbound _)

theorem record_error_gen (fuel : Nat) (m : List Char) (st : C15.St) (p : PyIO.Port) (ext : Ext) :
    EBB3_record_error fuel (.str m) ⟨encSt st, p, ext⟩ = .val .none ⟨encSt (C15.recordError st m), p, ext⟩ := by
  unfold EBB3_record_error EBB3_record_error_main EBB3_record_error_if1 C15.recordError
  cases he : st.err with
  | none =>
    simp only [PyObj.run, ifte, app1, PyObj.bind, getattr_err, he, optStr, ofP, op_is_none, isNone, ok, truthy,
      ↓reduceIte, setattr]
    simp only [encSt, he, optStr]
  | some e =>
    simp only [PyObj.run, ifte, app1, PyObj.bind, getattr_err, he, optStr, ofP, op_is_none, isNone, ok, truthy,
      Bool.false_eq_true, ↓reduceIte, pass]

theorem getattr_port (st : C15.St) (p : PyIO.Port) (ext : Ext) :
    getattr (fun o : EBB3_Obj => o.port) (⟨encSt st, p, ext⟩ : World EBB3_Obj)
      = (.ok (if st.port then .port else .none), ⟨encSt st, p, ext⟩) :=
  getattr_apply (by simp only [encSt]; cases st.port <;> simp)

theorem disconnect_gen (fuel : Nat) (st : C15.St) (p : PyIO.Port) (ext : Ext) :
    EBB3_disconnect fuel ⟨encSt st, p, ext⟩ = .val .none ⟨encSt (C15.disconnect st), p, ext⟩ := by
  unfold EBB3_disconnect EBB3_disconnect_main EBB3_disconnect_if1 EBB3_disconnect_try1 C15.disconnect
  simp only [PyObj.run, block_cons2, block_one, seq]
  cases hp : st.port with
  | false =>
    simp only [ifte, app1, PyObj.bind, getattr_port, hp, Bool.false_eq_true, ↓reduceIte, ofP, op_is_not_none, isNone, ok,
      truthy, Bool.not_true, pass, setattr]
    simp only [encSt, hp, Bool.false_eq_true, ↓reduceIte]
  | true =>
    simp only [ifte, app1, PyObj.bind, getattr_port, hp, ↓reduceIte, ofP, op_is_not_none, isNone, ok,
      truthy, Bool.not_false, tryExcept, expr, eff1, meth_close, setattr]
    simp only [encSt, hp, ↓reduceIte, Bool.false_eq_true]


theorem versionText_eq (sv : List Char) :
    C15.versionText sv = (Ebb3.splitSub1 ['F', 'i', 'r', 'm', 'w', 'a', 'r', 'e', ' ', 'V', 'e', 'r', 's', 'i', 'o', 'n', ' '] sv).map
      (fun ab => Ebb3.strip ab.2) := by
  unfold C15.versionText
  rw [LegacyGen.lit_fwv, ← LegacyGen.splitSub1_agree]
  cases Ebb3.splitSub1 _ sv with
  | none => rfl
  | some ab => simp [LegacyGen.strip_agree]

/-- the regenerated `EBB3.parse_version` -/
theorem parse_version_gen (fuel : Nat) (sv : List Char) (st : C15.St) (p : PyIO.Port) (ext : Ext) :
    EBB3_parse_version fuel (.str sv) ⟨encSt st, p, ext⟩ =
      match C15.versionText sv with
      | Option.none => .val .none ⟨encSt st, p, ext⟩
      | some t => match Ebb3.parseRelease t with
        | some v => .val .none ⟨encSt { st with version := some t, vparsed := some v }, p, ext⟩
        | Option.none => .exc .invalidVersion ⟨encSt { st with version := some t }, p, ext⟩ := by
  rw [versionText_eq]
  unfold EBB3_parse_version EBB3_parse_version_main EBB3_parse_version_if1
  simp only [PyObj.run, block_cons2, block_one]
  cases hs : Ebb3.splitSub1 ['F', 'i', 'r', 'm', 'w', 'a', 'r', 'e', ' ', 'V', 'e', 'r', 's', 'i', 'o', 'n', ' '] sv with
  | none =>
    rw [seq_norm (env' := ⟨.list [.str sv]⟩) (w' := ⟨encSt st, p, ext⟩) (by
      simp only [assign, load_str, app1_ok, meth_split1_str, hs, ofP_ok, ok_apply])]
    simp only [seq, ifte, LegacyGen.load_list, app1_ok, op_len, ofP_ok, app2_ok, op_gt, ofOptBool, ltVal, intOf, ok_apply,
      truthy_bool, List.length_singleton, return_, Option.map_none]
    rfl
  | some ab =>
    obtain ⟨a, b⟩ := ab
    rw [seq_norm (env' := ⟨.list [.str a, .str b]⟩) (w' := ⟨encSt st, p, ext⟩) (by
      simp only [assign, load_str, app1_ok, meth_split1_str, hs, ofP_ok, ok_apply])]
    have hif : ∀ w : World EBB3_Obj, ifte (fun fuel (env : EBB3_parse_version_Env) =>
          app2 op_gt (app1 op_len (load env.ebb_version_string)) (ok (Val.int 1)))
        (assign (fun env v => { env with ebb_version_string := v }) (fun fuel env =>
          app2 op_getitem (load env.ebb_version_string) (ok (Val.int 1))))
        (return_ (fun fuel env => ok Val.none)) fuel ⟨.list [.str a, .str b]⟩ w = .norm ⟨.str b⟩ w := by
      intro w
      have hidx : op_getitem (.list [.str a, .str b]) (.int 1) = .ok (.str b) := rfl
      simp only [ifte, LegacyGen.load_list, app1_ok, op_len, ofP_ok, app2_ok, op_gt, ofOptBool, ltVal, intOf, ok_apply,
        truthy_bool, List.length_cons, List.length_nil, assign, hidx]
      rfl
    rw [seq_norm (hif _)]
    rw [seq_norm (env' := ⟨.str (Ebb3.strip b)⟩) (w' := ⟨encSt st, p, ext⟩) (by
      simp only [assign, load_str, app1_ok, meth_strip, ofP_ok, ok_apply])]
    rw [seq_norm (env' := ⟨.str (Ebb3.strip b)⟩) (w' := ⟨encSt { st with version := some (Ebb3.strip b) }, p, ext⟩) (by
      simp only [setattr, load_str, ok_apply]; rfl)]
    simp only [Option.map_some]
    cases hv : Ebb3.parseRelease (Ebb3.strip b) with
    | none =>
      simp only [setattr, load_str, app1_ok, b_parse_version, hv, ofP_error, raise_apply]
    | some v =>
      simp only [setattr, load_str, app1_ok, b_parse_version, hv, ofP_ok, ok_apply]
      rfl

theorem getattr_vp (st : C15.St) (p : PyIO.Port) (ext : Ext) :
    getattr (fun o : EBB3_Obj => o.version_parsed) (⟨encSt st, p, ext⟩ : World EBB3_Obj)
      = (.ok (match st.vparsed with | some v => .version v | Option.none => .none), ⟨encSt st, p, ext⟩) :=
  getattr_apply (by simp only [encSt]; cases st.vparsed <;> simp)

/-- the regenerated `EBB3.min_version` for a threshold the runtime parses -/
theorem min_version3_gen (fuel : Nat) (thr : List Char) (g : List Nat) (hg : Ebb3.parseRelease thr = some g)
    (st : C15.St) (p : PyIO.Port) (ext : Ext) :
    EBB3_min_version fuel (.str thr) ⟨encSt st, p, ext⟩ =
      match st.vparsed with
      | some v => .val (.bool (C15.versionGe v g)) ⟨encSt st, p, ext⟩
      | Option.none => .exc .typeError ⟨encSt st, p, ext⟩ := by
  unfold EBB3_min_version EBB3_min_version_main EBB3_min_version_try1 EBB3_min_version_if1
  simp only [PyObj.run, block_cons2, block_one]
  rw [seq_norm (env' := ⟨.str thr, .version g⟩) (w' := ⟨encSt st, p, ext⟩) (by
    simp only [tryExcept, assign, app1_ok, b_parse_version, hg, ofP_ok, ok_apply])]
  cases hv : st.vparsed with
  | none =>
    simp only [seq, ifte, app2, PyObj.bind, getattr_vp, hv, load, ok, ofP, op_ge, ofOptBool, leVal, intOf, raise]
  | some v =>
    simp only [seq, ifte, app2, PyObj.bind, getattr_vp, hv, load, ok, ofP, op_ge, ofOptBool, leVal, LegacyGen.vle_agree,
      truthy_bool]
    cases C15.versionGe v g <;> simp [return_, pass, ok]


theorem lit_vProbe : C15.vProbe = ['v', '\r'] := by decide

/-- the two statements of a version probe, as they stand (twice) in the regenerated `connect` -/
def probeStmt : Stmt EBB3_Obj EBB3_connect_Env :=
  seq (expr (fun fuel env => eff2 meth_write (getattr (·.port))
      (app2 meth_encode (ok (Val.str ['v', '\r'])) (ok (Val.str ['a', 's', 'c', 'i', 'i'])))))
    (assign (fun env v => { env with str_version := v }) (fun fuel env =>
      app1 meth_strip (app2 meth_decode (eff1 meth_readline (getattr (·.port))) (ok (Val.str ['a', 's', 'c', 'i', 'i'])))))

theorem portOk_writes_tail {r : List PyIO.Rd} {x : PyIO.Wr} {ws : List PyIO.Wr} {l : List (List Char)} {n : Nat}
    (h : PortOk ⟨r, x :: ws, l, n⟩) (l' : List (List Char)) (n' : Nat) : PortOk ⟨r, ws, l', n'⟩ :=
  ⟨⟨h.io.1, fun c hc => h.io.2 c (List.mem_cons_of_mem _ hc)⟩, h.ascii⟩

theorem portOk_reads_tail {x : PyIO.Rd} {r : List PyIO.Rd} {ws : List PyIO.Wr} {l : List (List Char)} {n : Nat}
    (h : PortOk ⟨x :: r, ws, l, n⟩) (l' : List (List Char)) (n' : Nat) : PortOk ⟨r, ws, l', n'⟩ :=
  ⟨⟨fun c hc => h.io.1 c (List.mem_cons_of_mem _ hc), h.io.2⟩, C07.allAscii_tail h.ascii⟩

theorem portOk_log {r : List PyIO.Rd} {ws : List PyIO.Wr} {l : List (List Char)} {n : Nat}
    (h : PortOk ⟨r, ws, l, n⟩) (l' : List (List Char)) (n' : Nat) : PortOk ⟨r, ws, l', n'⟩ :=
  ⟨⟨h.io.1, h.io.2⟩, h.ascii⟩

/-- the read half of a probe -/
theorem probe_read_gen (fuel : Nat) (env : EBB3_connect_Env) (st : C15.St) (hp : st.port = true)
    (p : PyIO.Port) (ext : Ext) (hok : PortOk p) (io : C15.Io) (hrel : Rel p io) :
    match io.read with
    | (Option.none, io2) => ∃ c p2,
        assign (fun (env : EBB3_connect_Env) v => { env with str_version := v }) (fun fuel env =>
          app1 meth_strip (app2 meth_decode (eff1 meth_readline (getattr (·.port))) (ok (Val.str ['a', 's', 'c', 'i', 'i']))))
          fuel env ⟨encSt st, p, ext⟩ = .exc c env ⟨encSt st, p2, ext⟩ ∧
        C07Gen.IoClass c ∧ Rel p2 io2 ∧ PortOk p2 ∧ p2.log = p.log
    | (some l, io2) => ∃ p2,
        assign (fun (env : EBB3_connect_Env) v => { env with str_version := v }) (fun fuel env =>
          app1 meth_strip (app2 meth_decode (eff1 meth_readline (getattr (·.port))) (ok (Val.str ['a', 's', 'c', 'i', 'i']))))
          fuel env ⟨encSt st, p, ext⟩ = .norm { env with str_version := .str (C15.strip l) } ⟨encSt st, p2, ext⟩ ∧
        Rel p2 io2 ∧ PortOk p2 ∧ p2.log = p.log := by
  obtain ⟨reads, writes, log, nread⟩ := p
  obtain ⟨hr, hw⟩ := hrel
  simp only at hr hw
  unfold C15.Io.read
  rw [hr]
  cases reads with
  | nil =>
    refine ⟨⟨[], writes, log, nread + 1⟩, ?_, ⟨by simp [hr], hw⟩, portOk_log hok _ _, rfl⟩
    simp only [assign, app1, app2, eff1, PyObj.bind, getattr_port, hp, ↓reduceIte, meth_readline, ok, meth_decode,
      ofP, meth_strip, PyIO.isAscii, List.all_nil, LegacyGen.strip_agree]
  | cons r rs =>
    cases r with
    | line b =>
      have hb : PyIO.isAscii b = true := C07.allAscii_head hok.ascii
      refine ⟨⟨rs, writes, log, nread + 1⟩, ?_, ⟨by simp [hr], hw⟩, portOk_reads_tail hok _ _, rfl⟩
      simp only [assign, app1, app2, eff1, PyObj.bind, getattr_port, hp, ↓reduceIte, meth_readline, ok, meth_decode,
        ofP, meth_strip, hb, LegacyGen.strip_agree, List.map_cons, absRd]
    | empty =>
      refine ⟨⟨rs, writes, log, nread + 1⟩, ?_, ⟨by simp [hr], hw⟩, portOk_reads_tail hok _ _, rfl⟩
      simp only [assign, app1, app2, eff1, PyObj.bind, getattr_port, hp, ↓reduceIte, meth_readline, ok, meth_decode,
        ofP, meth_strip, PyIO.isAscii, List.all_nil, LegacyGen.strip_agree, List.map_cons, absRd]
    | raise c =>
      refine ⟨c, ⟨rs, writes, log, nread + 1⟩, ?_, hok.io.1 c (by simp), ⟨by simp [hr], hw⟩,
        portOk_reads_tail hok _ _, rfl⟩
      simp only [assign, app1, app2, eff1, PyObj.bind, getattr_port, hp, ↓reduceIte, meth_readline, List.map_cons, absRd]


/-- the write half of a probe (or of the `CU` command): `self.port.write(text.encode('ascii'))` -/
theorem write_gen (fuel : Nat) (env : EBB3_connect_Env) (text : List Char) (ht : PyIO.isAscii text = true)
    (st : C15.St) (hp : st.port = true)
    (p : PyIO.Port) (ext : Ext) (hok : PortOk p) (io : C15.Io) (hrel : Rel p io) :
    match io.write text with
    | (true, io1) => ∃ c p1,
        expr (fun fuel (env : EBB3_connect_Env) => eff2 meth_write (getattr (·.port))
          (app2 meth_encode (ok (Val.str text)) (ok (Val.str ['a', 's', 'c', 'i', 'i']))))
          fuel env ⟨encSt st, p, ext⟩ = .exc c env ⟨encSt st, p1, ext⟩ ∧
        C07Gen.IoClass c ∧ Rel p1 io1 ∧ PortOk p1 ∧ p1.log = p.log ++ [text]
    | (false, io1) => ∃ p1,
        expr (fun fuel (env : EBB3_connect_Env) => eff2 meth_write (getattr (·.port))
          (app2 meth_encode (ok (Val.str text)) (ok (Val.str ['a', 's', 'c', 'i', 'i']))))
          fuel env ⟨encSt st, p, ext⟩ = .norm env ⟨encSt st, p1, ext⟩ ∧
        Rel p1 io1 ∧ PortOk p1 ∧ p1.log = p.log ++ [text] := by
  obtain ⟨reads, writes, log, nread⟩ := p
  obtain ⟨hr, hw⟩ := hrel
  simp only at hr hw
  unfold C15.Io.write
  rw [hw]
  cases writes with
  | nil =>
    refine ⟨⟨reads, [], log ++ [text], nread⟩, ?_, ⟨hr, by simp [hw]⟩, portOk_log hok _ _, rfl⟩
    simp only [expr, eff2, app2, PyObj.bind, getattr_port, hp, ↓reduceIte, ok, meth_encode, ht, ofP, meth_write]
  | cons x ws =>
    cases x with
    | ok =>
      refine ⟨⟨reads, ws, log ++ [text], nread⟩, ?_, ⟨hr, by simp [hw]⟩, portOk_writes_tail hok _ _, rfl⟩
      simp only [expr, eff2, app2, PyObj.bind, getattr_port, hp, ↓reduceIte, ok, meth_encode, ht, ofP, meth_write,
        List.map_cons, absWr]
    | raise c =>
      refine ⟨c, ⟨reads, ws, log ++ [text], nread⟩, ?_, hok.io.2 c (by simp), ⟨hr, by simp [hw]⟩,
        portOk_writes_tail hok _ _, rfl⟩
      simp only [expr, eff2, app2, PyObj.bind, getattr_port, hp, ↓reduceIte, ok, meth_encode, ht, ofP, meth_write,
        List.map_cons, absWr]


theorem lit_msgTestA : "Error testing USB connection (port name: ".toList = ['E', 'r', 'r', 'o', 'r', ' ', 't', 'e', 's', 't', 'i', 'n', 'g', ' ', 'U', 'S', 'B', ' ', 'c', 'o', 'n', 'n', 'e', 'c', 't', 'i', 'o', 'n', ' ', '(', 'p', 'o', 'r', 't', ' ', 'n', 'a', 'm', 'e', ':', ' '] := by decide
theorem lit_msgFailA : "Failed to connect via USB (port name: ".toList = ['F', 'a', 'i', 'l', 'e', 'd', ' ', 't', 'o', ' ', 'c', 'o', 'n', 'n', 'e', 'c', 't', ' ', 'v', 'i', 'a', ' ', 'U', 'S', 'B', ' ', '(', 'p', 'o', 'r', 't', ' ', 'n', 'a', 'm', 'e', ':', ' '] := by decide
theorem lit_rparen : ")".toList = [')'] := by decide

theorem getattr_port_name (st : C15.St) (p : PyIO.Port) (ext : Ext) :
    getattr (fun o : EBB3_Obj => o.port_name) (⟨encSt st, p, ext⟩ : World EBB3_Obj)
      = (.ok (optStr st.portName), ⟨encSt st, p, ext⟩) :=
  getattr_apply (optStr_ne_unbound _)

/-- `self.record_error(f"…{self.port_name})")` then `self.disconnect()` -/
theorem recdisc_gen (fuel : Nat) (env : EBB3_connect_Env) (A : List Char) (st : C15.St) (pn : List Char)
    (hpn : st.portName = some pn) (p : PyIO.Port) (ext : Ext) :
    seq (expr (fun fuel (env : EBB3_connect_Env) => mcall1 (EBB3_record_error fuel)
          (fstr [ok (Val.str A), getattr (·.port_name), ok (Val.str [')'])])))
        (expr (fun fuel env => mcall0 (EBB3_disconnect fuel))) fuel env ⟨encSt st, p, ext⟩
      = .norm env ⟨encSt (C15.disconnect (C15.recordError st (A ++ pn ++ [')']))), p, ext⟩ := by
  have h1 : expr (fun fuel (env : EBB3_connect_Env) => mcall1 (EBB3_record_error fuel)
        (fstr [ok (Val.str A), getattr (·.port_name), ok (Val.str [')'])])) fuel env ⟨encSt st, p, ext⟩
      = .norm env ⟨encSt (C15.recordError st (A ++ pn ++ [')'])), p, ext⟩ := by
    simp only [expr, mcall1, fstr, evalList, PyObj.bind, ok, getattr_port_name, hpn, optStr, List.map, strOf,
      List.flatten, List.append_nil, record_error_gen, ofOut, List.append_assoc]
    rfl
  rw [seq_norm h1]
  simp only [expr, mcall0_apply, disconnect_gen, ofOut_val]


theorem lit_ebbTag : C15.ebbTag = ['E', 'B', 'B'] := by decide

/-- `if str_version: if "EBB" in str_version: verified = True` (both copies) -/
theorem if3_gen (fuel : Nat) (gn cl vf em : Val) (s : List Char) (w : World EBB3_Obj) :
    EBB3_connect_if3 fuel ⟨gn, cl, vf, .str s, em⟩ w
      = .norm ⟨gn, cl, if C15.isEbb s then .bool true else vf, .str s, em⟩ w := by
  unfold EBB3_connect_if3 EBB3_connect_if4 C15.isEbb
  rw [lit_ebbTag, ← hasSub_agree]
  simp only [ifte, load_str, ok_apply, truthy_str]
  by_cases hs : s.isEmpty = true
  · simp [hs, pass]
  · have hs' : s.isEmpty = false := by simpa using hs
    simp only [hs', Bool.not_false, ↓reduceIte, app2_ok, op_in, ofP_ok, ok_apply, truthy_bool, Bool.true_and]
    cases Ebb3.hasSub ['E', 'B', 'B'] s <;> simp [assign, pass, ok]

theorem if6_gen (fuel : Nat) (gn cl vf em : Val) (s : List Char) (w : World EBB3_Obj) :
    EBB3_connect_if6 fuel ⟨gn, cl, vf, .str s, em⟩ w
      = .norm ⟨gn, cl, if C15.isEbb s then .bool true else vf, .str s, em⟩ w := if3_gen fuel gn cl vf em s w

/-- the handler of the `try:` block runs for the I/O classes -/
theorem handler_gen (fuel : Nat) (env : EBB3_connect_Env) (c : PyIO.ExcClass) (hc : C07Gen.IoClass c)
    (st : C15.St) (pn : List Char) (hpn : st.portName = some pn) (p : PyIO.Port) (ext : Ext) :
    dispatch EBB3_connect_handlers1 c fuel env ⟨encSt st, p, ext⟩
      = .norm env ⟨encSt (C15.disconnect (C15.recordError st (C15.msgTest pn))), p, ext⟩ := by
  have hm : C15.msgTest pn = "Error testing USB connection (port name: ".toList ++ pn ++ [')'] := by
    unfold C15.msgTest; rw [lit_rparen]
  rw [hm, lit_msgTestA, ← recdisc_gen fuel env _ st pn hpn p ext]
  unfold EBB3_connect_handlers1
  have : PyIO.catches [.serialException, .osError, .runtimeError, .osError] c = true := hc
  simp only [dispatch, Handler.matches, this, ↓reduceIte, runHandler, block_cons2, block_one]


/-- the `C15` script of a world: whether `serial.Serial(...)` opens, and the port's outcome lists -/
def ioOf (ext : Ext) (p : PyIO.Port) : C15.Io := ⟨[ext.openOk], p.reads.map absRd, p.writes.map absWr, []⟩

theorem ascii_vProbe : PyIO.isAscii ['v', '\r'] = true := by decide

/-- the second probe: `if not verified: <probe>; <if6>` entered with `verified = False` -/
theorem if5_gen (fuel : Nat) (gn cl em : Val) (s0 : List Char) (st : C15.St) (hp : st.port = true)
    (p : PyIO.Port) (ext : Ext) (hok : PortOk p) (io : C15.Io) (hrel : Rel p io) :
    match io.write C15.vProbe with
    | (true, io1) => ∃ c p1, EBB3_connect_if5 fuel ⟨gn, cl, .bool false, .str s0, em⟩ ⟨encSt st, p, ext⟩
          = .exc c ⟨gn, cl, .bool false, .str s0, em⟩ ⟨encSt st, p1, ext⟩ ∧
        C07Gen.IoClass c ∧ Rel p1 io1 ∧ PortOk p1 ∧ p1.log = p.log ++ [C15.vProbe]
    | (false, io1) =>
      match io1.read with
      | (Option.none, io2) => ∃ c p2, EBB3_connect_if5 fuel ⟨gn, cl, .bool false, .str s0, em⟩ ⟨encSt st, p, ext⟩
            = .exc c ⟨gn, cl, .bool false, .str s0, em⟩ ⟨encSt st, p2, ext⟩ ∧
          C07Gen.IoClass c ∧ Rel p2 io2 ∧ PortOk p2 ∧ p2.log = p.log ++ [C15.vProbe]
      | (some l, io2) => ∃ p2, EBB3_connect_if5 fuel ⟨gn, cl, .bool false, .str s0, em⟩ ⟨encSt st, p, ext⟩
            = .norm ⟨gn, cl, .bool (C15.isEbb (C15.strip l)), .str (C15.strip l), em⟩ ⟨encSt st, p2, ext⟩ ∧
          Rel p2 io2 ∧ PortOk p2 ∧ p2.log = p.log ++ [C15.vProbe] := by
  rw [lit_vProbe]
  have hw := write_gen fuel ⟨gn, cl, .bool false, .str s0, em⟩ ['v', '\r'] ascii_vProbe st hp p ext hok io hrel
  have hhead : ∀ (A B : Stmt EBB3_Obj EBB3_connect_Env) w,
      ifte (fun fuel (env : EBB3_connect_Env) => not_ (load env.verified)) A B fuel ⟨gn, cl, .bool false, .str s0, em⟩ w
        = A fuel ⟨gn, cl, .bool false, .str s0, em⟩ w := by
    intro A B w
    simp only [ifte, load_bool, not_ok, ok_apply, truthy_bool, Bool.not_false, ↓reduceIte]
  unfold EBB3_connect_if5
  simp only [hhead, block_cons2, block_one]
  rcases hwr : io.write ['v', '\r'] with ⟨b, io1⟩
  rw [hwr] at hw
  cases b
  · simp only at hw ⊢
    obtain ⟨p1, e1, r1, ok1, l1⟩ := hw
    have hr := probe_read_gen fuel ⟨gn, cl, .bool false, .str s0, em⟩ st hp p1 ext ok1 io1 r1
    rcases hrd : io1.read with ⟨ol, io2⟩
    rw [hrd] at hr
    cases ol with
    | none =>
      simp only at hr ⊢
      obtain ⟨c, p2, e2, hc, r2, ok2, l2⟩ := hr
      exact ⟨c, p2, by rw [seq_norm e1, seq_exc e2], hc, r2, ok2, by rw [l2, l1]⟩
    | some l =>
      simp only at hr ⊢
      obtain ⟨p2, e2, r2, ok2, l2⟩ := hr
      refine ⟨p2, ?_, r2, ok2, by rw [l2, l1]⟩
      rw [seq_norm e1, seq_norm e2, if6_gen]
      cases C15.isEbb (C15.strip l) <;> rfl
  · simp only at hw ⊢
    obtain ⟨c, p1, e1, hc, r1, ok1, l1⟩ := hw
    exact ⟨c, p1, by rw [seq_exc e1], hc, r1, ok1, l1⟩


theorem ioClass_serial : C07Gen.IoClass .serialException := by
  show PyIO.catches _ _ = true
  decide

theorem rel_ioOf (ext : Ext) (p : PyIO.Port) : Rel p (ioOf ext p) := ⟨rfl, rfl⟩

/-- **the `try:` block of the regenerated `connect` (with its handler) is the model's `handshake`** -/
theorem try_gen (fuel : Nat) (gn cl sv0 em : Val) (st0 : C15.St) (hp0 : st0.port = false) (pn : List Char)
    (hpn : st0.portName = some pn) (p : PyIO.Port) (ext : Ext) (hok : PortOk p) :
    ∃ sv p1 k, tryExcept EBB3_connect_try1 EBB3_connect_handlers1 fuel ⟨gn, cl, .bool false, sv0, em⟩ ⟨encSt st0, p, ext⟩
        = .norm ⟨gn, cl, .bool (C15.handshake (ioOf ext p)).verified, sv, em⟩
            ⟨encSt (if (C15.handshake (ioOf ext p)).raised then
                C15.disconnect (C15.recordError (if (C15.handshake (ioOf ext p)).opened then { st0 with port := true } else st0)
                  (C15.msgTest pn))
              else (if (C15.handshake (ioOf ext p)).opened then { st0 with port := true } else st0)), p1, ext⟩ ∧
      ((C15.handshake (ioOf ext p)).verified = true → sv = .str (C15.handshake (ioOf ext p)).sv) ∧
      Rel p1 (C15.handshake (ioOf ext p)).io ∧ PortOk p1 ∧ k ≤ 2 ∧
      p1.log = p.log ++ List.replicate k C15.vProbe ∧ (ext.openOk = false → k = 0) := by
  have hopen : (ioOf ext p).open = (ext.openOk, { ioOf ext p with opens := [] }) := rfl
  unfold EBB3_connect_try1
  simp only [block_cons2, block_one]
  cases ho : ext.openOk with
  | false =>
    have hhs : C15.handshake (ioOf ext p) = ⟨false, true, false, [], { ioOf ext p with opens := [] }⟩ := by
      unfold C15.handshake; rw [hopen, ho]
    rw [hhs]
    have e1 : setattr (fun (o : EBB3_Obj) v => { o with port := v }) (fun fuel (env : EBB3_connect_Env) =>
          eff1 ext_serial_open (getattr (·.port_name))) fuel ⟨gn, cl, .bool false, sv0, em⟩ ⟨encSt st0, p, ext⟩
        = .exc .serialException ⟨gn, cl, .bool false, sv0, em⟩ ⟨encSt st0, p, ext⟩ := by
      simp only [setattr, eff1, PyObj.bind, getattr_port_name, ext_serial_open, ho, Bool.false_eq_true, ↓reduceIte]
    refine ⟨sv0, p, 0, ?_, by simp, ⟨rfl, rfl⟩, hok, by omega, by simp, fun _ => rfl⟩
    simp only [tryExcept, seq_exc e1, handler_gen fuel _ _ ioClass_serial st0 pn hpn, Bool.false_eq_true, ↓reduceIte]
  | true =>
    have hst1 : ({ st0 with port := true } : C15.St).port = true := rfl
    have hpn1 : ({ st0 with port := true } : C15.St).portName = some pn := hpn
    have e1 : setattr (fun (o : EBB3_Obj) v => { o with port := v }) (fun fuel (env : EBB3_connect_Env) =>
          eff1 ext_serial_open (getattr (·.port_name))) fuel ⟨gn, cl, .bool false, sv0, em⟩ ⟨encSt st0, p, ext⟩
        = .norm ⟨gn, cl, .bool false, sv0, em⟩ ⟨encSt { st0 with port := true }, p, ext⟩ := by
      simp only [setattr, eff1, PyObj.bind, getattr_port_name, ext_serial_open, ho, ↓reduceIte]
      rfl
    have e2 : expr (fun fuel (env : EBB3_connect_Env) => eff1 meth_reset_input_buffer (getattr (·.port))) fuel
          ⟨gn, cl, .bool false, sv0, em⟩ ⟨encSt { st0 with port := true }, p, ext⟩
        = .norm ⟨gn, cl, .bool false, sv0, em⟩ ⟨encSt { st0 with port := true }, p, ext⟩ := by
      simp only [expr, eff1, PyObj.bind, getattr_port, hst1, ↓reduceIte, meth_reset_input_buffer, ok]
    have hrel0 : Rel p { ioOf ext p with opens := [] } := ⟨rfl, rfl⟩
    have hw := write_gen fuel ⟨gn, cl, .bool false, sv0, em⟩ ['v', '\r'] ascii_vProbe { st0 with port := true } hst1 p ext hok _ hrel0
    rcases hwr : C15.Io.write { ioOf ext p with opens := [] } ['v', '\r'] with ⟨b, io1⟩
    rw [hwr] at hw
    cases b
    · simp only at hw
      obtain ⟨p1, e3, r1, ok1, l1⟩ := hw
      have hr := probe_read_gen fuel ⟨gn, cl, .bool false, sv0, em⟩ { st0 with port := true } hst1 p1 ext ok1 io1 r1
      rcases hrd : io1.read with ⟨ol, io2⟩
      rw [hrd] at hr
      cases ol with
      | none =>
        simp only at hr
        obtain ⟨c, p2, e4, hc, r2, ok2, l2⟩ := hr
        have hhs : C15.handshake (ioOf ext p) = ⟨false, true, true, [], io2⟩ := by
          unfold C15.handshake; rw [hopen, ho]; simp only [lit_vProbe, hwr, hrd]
        rw [hhs]
        refine ⟨sv0, p2, 1, ?_, by simp, r2, ok2, by omega, by rw [l2, l1, lit_vProbe]; rfl, by simp⟩
        simp only [tryExcept, seq_norm e1, seq_norm e2, seq_norm e3, seq_exc e4,
          handler_gen fuel _ _ hc _ pn hpn1, ↓reduceIte]
      | some l =>
        simp only at hr
        obtain ⟨p2, e4, r2, ok2, l2⟩ := hr
        by_cases hebb : C15.isEbb (C15.strip l) = true
        · have hhs : C15.handshake (ioOf ext p) = ⟨true, false, true, C15.strip l, io2⟩ := by
            unfold C15.handshake; rw [hopen, ho]; simp only [lit_vProbe, hwr, hrd, hebb, ↓reduceIte]
          rw [hhs]
          refine ⟨.str (C15.strip l), p2, 1, ?_, fun _ => rfl, r2, ok2, by omega, by rw [l2, l1, lit_vProbe]; rfl, by simp⟩
          have e6 : EBB3_connect_if5 fuel ⟨gn, cl, .bool true, .str (C15.strip l), em⟩ ⟨encSt { st0 with port := true }, p2, ext⟩
              = .norm ⟨gn, cl, .bool true, .str (C15.strip l), em⟩ ⟨encSt { st0 with port := true }, p2, ext⟩ := by
            unfold EBB3_connect_if5
            simp only [ifte, load_bool, not_ok, ok_apply, truthy_bool, Bool.not_true, Bool.false_eq_true, ↓reduceIte, pass]
          have e45 := if3_gen fuel gn cl (.bool false) em (C15.strip l) ⟨encSt { st0 with port := true }, p2, ext⟩
          simp only [hebb, ↓reduceIte] at e45
          simp only [tryExcept, seq_norm e1, seq_norm e2, seq_norm e3, seq_norm e4, seq_norm e45, e6,
            Bool.false_eq_true, ↓reduceIte]
        · have hebb' : C15.isEbb (C15.strip l) = false := by simpa using hebb
          have e45 := if3_gen fuel gn cl (.bool false) em (C15.strip l) ⟨encSt { st0 with port := true }, p2, ext⟩
          simp only [hebb', Bool.false_eq_true, ↓reduceIte] at e45
          have h5 := if5_gen fuel gn cl em (C15.strip l) { st0 with port := true } hst1 p2 ext ok2 io2 r2
          rw [lit_vProbe] at h5
          rcases hwr2 : io2.write ['v', '\r'] with ⟨b2, io3⟩
          rw [hwr2] at h5
          cases b2
          · simp only at h5
            rcases hrd2 : io3.read with ⟨ol2, io4⟩
            rw [hrd2] at h5
            cases ol2 with
            | none =>
              simp only at h5
              obtain ⟨c, p3, e5, hc, r3, ok3, l3⟩ := h5
              have hhs : C15.handshake (ioOf ext p) = ⟨false, true, true, C15.strip l, io4⟩ := by
                unfold C15.handshake; rw [hopen, ho]
                simp only [lit_vProbe, hwr, hrd, hebb', Bool.false_eq_true, ↓reduceIte, hwr2, hrd2]
              rw [hhs]
              refine ⟨.str (C15.strip l), p3, 2, ?_, by simp, r3, ok3, by omega,
                by rw [l3, l2, l1, lit_vProbe]; simp [List.replicate], by simp⟩
              simp only [tryExcept, seq_norm e1, seq_norm e2, seq_norm e3, seq_norm e4, seq_norm e45,
                Bool.false_eq_true, ↓reduceIte, e5, handler_gen fuel _ _ hc _ pn hpn1]
            | some l2' =>
              simp only at h5
              obtain ⟨p3, e5, r3, ok3, l3⟩ := h5
              have hhs : C15.handshake (ioOf ext p) =
                  ⟨C15.isEbb (C15.strip l2'), false, true, C15.strip l2', io4⟩ := by
                unfold C15.handshake; rw [hopen, ho]
                simp only [lit_vProbe, hwr, hrd, hebb', Bool.false_eq_true, ↓reduceIte, hwr2, hrd2]
              rw [hhs]
              refine ⟨.str (C15.strip l2'), p3, 2, ?_, fun _ => rfl, r3, ok3, by omega,
                by rw [l3, l2, l1, lit_vProbe]; simp [List.replicate], by simp⟩
              simp only [tryExcept, seq_norm e1, seq_norm e2, seq_norm e3, seq_norm e4, seq_norm e45,
                Bool.false_eq_true, ↓reduceIte, e5]
          · simp only at h5
            obtain ⟨c, p3, e5, hc, r3, ok3, l3⟩ := h5
            have hhs : C15.handshake (ioOf ext p) = ⟨false, true, true, C15.strip l, io3⟩ := by
              unfold C15.handshake; rw [hopen, ho]
              simp only [lit_vProbe, hwr, hrd, hebb', Bool.false_eq_true, ↓reduceIte, hwr2]
            rw [hhs]
            refine ⟨.str (C15.strip l), p3, 2, ?_, by simp, r3, ok3, by omega,
              by rw [l3, l2, l1, lit_vProbe]; simp [List.replicate], by simp⟩
            simp only [tryExcept, seq_norm e1, seq_norm e2, seq_norm e3, seq_norm e4, seq_norm e45,
              Bool.false_eq_true, ↓reduceIte, e5, handler_gen fuel _ _ hc _ pn hpn1]
    · simp only at hw
      obtain ⟨c, p1, e3, hc, r1, ok1, l1⟩ := hw
      have hhs : C15.handshake (ioOf ext p) = ⟨false, true, true, [], io1⟩ := by
        unfold C15.handshake; rw [hopen, ho]; simp only [lit_vProbe, hwr]
      rw [hhs]
      refine ⟨sv0, p1, 1, ?_, by simp, r1, ok1, by omega, by rw [l1, lit_vProbe]; rfl, by simp⟩
      simp only [tryExcept, seq_norm e1, seq_norm e2, seq_exc e3, handler_gen fuel _ _ hc _ pn hpn1, ↓reduceIte]


theorem lit_oldA : "Firmware version (".toList = ['F', 'i', 'r', 'm', 'w', 'a', 'r', 'e', ' ', 'v', 'e', 'r', 's', 'i', 'o', 'n', ' ', '('] := by decide
theorem lit_oldB : ") not supported.\nFirmware ".toList = [')', ' ', 'n', 'o', 't', ' ', 's', 'u', 'p', 'p', 'o', 'r', 't', 'e', 'd', '.', '\n', 'F', 'i', 'r', 'm', 'w', 'a', 'r', 'e', ' '] := by decide
theorem lit_oldC : " or newer is required.\nVisit https://bantam.tools/ndfw to update your firmware.".toList = [' ', 'o', 'r', ' ', 'n', 'e', 'w', 'e', 'r', ' ', 'i', 's', ' ', 'r', 'e', 'q', 'u', 'i', 'r', 'e', 'd', '.', '\n', 'V', 'i', 's', 'i', 't', ' ', 'h', 't', 't', 'p', 's', ':', '/', '/', 'b', 'a', 'n', 't', 'a', 'm', '.', 't', 'o', 'o', 'l', 's', '/', 'n', 'd', 'f', 'w', ' ', 't', 'o', ' ', 'u', 'p', 'd', 'a', 't', 'e', ' ', 'y', 'o', 'u', 'r', ' ', 'f', 'i', 'r', 'm', 'w', 'a', 'r', 'e', '.'] := by decide

theorem getattr_version (st : C15.St) (p : PyIO.Port) (ext : Ext) :
    getattr (fun o : EBB3_Obj => o.version) (⟨encSt st, p, ext⟩ : World EBB3_Obj)
      = (.ok (optStr st.version), ⟨encSt st, p, ext⟩) :=
  getattr_apply (optStr_ne_unbound _)

theorem strOf_optStr (o : Option (List Char)) :
    strOf (optStr o) = (match o with | some v => v | Option.none => "None".toList) := by
  cases o <;> rfl


theorem rec_gen (fuel : Nat) (env : EBB3_connect_Env) (A : List Char) (st : C15.St) (pn : List Char)
    (hpn : st.portName = some pn) (p : PyIO.Port) (ext : Ext) :
    expr (fun fuel (env : EBB3_connect_Env) => mcall1 (EBB3_record_error fuel)
        (fstr [ok (Val.str A), getattr (·.port_name), ok (Val.str [')'])])) fuel env ⟨encSt st, p, ext⟩
      = .norm env ⟨encSt (C15.recordError st (A ++ pn ++ [')'])), p, ext⟩ := by
  simp only [expr, mcall1, fstr, evalList, PyObj.bind, ok, getattr_port_name, hpn, optStr, List.map, strOf,
    List.flatten, List.append_nil, record_error_gen, ofOut, List.append_assoc]
  rfl

theorem disc_gen (fuel : Nat) (env : EBB3_connect_Env) (st : C15.St) (p : PyIO.Port) (ext : Ext) :
    expr (fun fuel (env : EBB3_connect_Env) => mcall0 (EBB3_disconnect fuel)) fuel env ⟨encSt st, p, ext⟩
      = .norm env ⟨encSt (C15.disconnect st), p, ext⟩ := by
  simp only [expr, mcall0_apply, disconnect_gen, ofOut_val]

/-- the object after `_get_port_name`: the located port name, and an error when none was found (port location is
C19's business: an input here, as in the model) -/
def locSt (st : C15.St) (given found : Option (List Char)) : C15.St :=
  match found with
  | Option.none => C15.recordError { st with portName := Option.none } (C15.msgLocate given)
  | some pn => { st with portName := some pn }

theorem parse_min : Ebb3.parseRelease ['3', '.', '0', '.', '2'] = some [3, 0, 2] := by decide
theorem parse_minC : C15.parseVersion ['3', '.', '0', '.', '2'] = some [3, 0, 2] := by decide

theorem if9_typeError (fuel : Nat) (env : EBB3_connect_Env) (s3 : C15.St) (hv : s3.vparsed = Option.none)
    (p : PyIO.Port) (ext : Ext) :
    EBB3_connect_if9 fuel env ⟨encSt s3, p, ext⟩ = .exc .typeError env ⟨encSt s3, p, ext⟩ := by
  unfold EBB3_connect_if9
  have := min_version3_gen fuel _ _ parse_min s3 p ext
  rw [hv] at this
  simp only [ifte, not_, PyObj.bind, mcall1_ok_apply, this, ofOut_exc]

theorem if9_old (fuel : Nat) (env : EBB3_connect_Env) (s3 : C15.St) (v : List Nat) (hv : s3.vparsed = some v)
    (hge : C15.versionGe v [3, 0, 2] = false) (p : PyIO.Port) (ext : Ext) :
    EBB3_connect_if9 fuel env ⟨encSt s3, p, ext⟩
      = .ret (.bool false) ⟨encSt (C15.recordError s3 (C15.msgOld s3.version ['3', '.', '0', '.', '2'])), p, ext⟩ := by
  unfold EBB3_connect_if9
  have := min_version3_gen fuel _ _ parse_min s3 p ext
  rw [hv] at this
  simp only [hge] at this
  obtain ⟨gn, cl, vf, sv, em⟩ := env
  simp only [ifte, not_, PyObj.bind, mcall1_ok_apply, this, ofOut_val, ok, truthy, Bool.not_false, ↓reduceIte,
    block_cons2, block_one]
  have hmsg : C15.msgOld s3.version ['3', '.', '0', '.', '2'] =
      ((['F', 'i', 'r', 'm', 'w', 'a', 'r', 'e', ' ', 'v', 'e', 'r', 's', 'i', 'o', 'n', ' ', '('] ++ strOf (optStr s3.version) ++
        [')', ' ', 'n', 'o', 't', ' ', 's', 'u', 'p', 'p', 'o', 'r', 't', 'e', 'd', '.', '\n']) ++
       (['F', 'i', 'r', 'm', 'w', 'a', 'r', 'e', ' '] ++ ['3', '.', '0', '.', '2'] ++
        [' ', 'o', 'r', ' ', 'n', 'e', 'w', 'e', 'r', ' ', 'i', 's', ' ', 'r', 'e', 'q', 'u', 'i', 'r', 'e', 'd', '.', '\n'])) ++
      ['V', 'i', 's', 'i', 't', ' ', 'h', 't', 't', 'p', 's', ':', '/', '/', 'b', 'a', 'n', 't', 'a', 'm', '.', 't', 'o', 'o', 'l', 's', '/', 'n', 'd', 'f', 'w', ' ', 't', 'o', ' ', 'u', 'p', 'd', 'a', 't', 'e', ' ', 'y', 'o', 'u', 'r', ' ', 'f', 'i', 'r', 'm', 'w', 'a', 'r', 'e', '.'] := by
    unfold C15.msgOld
    rw [lit_oldA, lit_oldB, lit_oldC, strOf_optStr]
    simp only [List.append_assoc, List.cons_append, List.nil_append]
    rfl
  rw [hmsg]
  rw [seq_norm (env' := ⟨gn, cl, vf, sv, .str (['F', 'i', 'r', 'm', 'w', 'a', 'r', 'e', ' ', 'v', 'e', 'r', 's', 'i', 'o', 'n', ' ', '('] ++ strOf (optStr s3.version) ++
        [')', ' ', 'n', 'o', 't', ' ', 's', 'u', 'p', 'p', 'o', 'r', 't', 'e', 'd', '.', '\n'])⟩) (w' := ⟨encSt s3, p, ext⟩) (by
    simp only [assign, fstr, evalList, PyObj.bind, ok, getattr_version, List.map, List.flatten, List.append_nil,
      List.append_assoc] <;> rfl)]
  rw [seq_norm (env' := ⟨gn, cl, vf, sv, .str ((['F', 'i', 'r', 'm', 'w', 'a', 'r', 'e', ' ', 'v', 'e', 'r', 's', 'i', 'o', 'n', ' ', '('] ++ strOf (optStr s3.version) ++
        [')', ' ', 'n', 'o', 't', ' ', 's', 'u', 'p', 'p', 'o', 'r', 't', 'e', 'd', '.', '\n']) ++
       (['F', 'i', 'r', 'm', 'w', 'a', 'r', 'e', ' '] ++ ['3', '.', '0', '.', '2'] ++
        [' ', 'o', 'r', ' ', 'n', 'e', 'w', 'e', 'r', ' ', 'i', 's', ' ', 'r', 'e', 'q', 'u', 'i', 'r', 'e', 'd', '.', '\n']))⟩) (w' := ⟨encSt s3, p, ext⟩) (by
    simp only [assign, app2, fstr, evalList, PyObj.bind, ok, load, ofP, op_add, List.map, List.flatten, List.append_nil,
      List.append_assoc] <;> rfl)]
  rw [seq_norm (env' := ⟨gn, cl, vf, sv, .str (((['F', 'i', 'r', 'm', 'w', 'a', 'r', 'e', ' ', 'v', 'e', 'r', 's', 'i', 'o', 'n', ' ', '('] ++ strOf (optStr s3.version) ++
        [')', ' ', 'n', 'o', 't', ' ', 's', 'u', 'p', 'p', 'o', 'r', 't', 'e', 'd', '.', '\n']) ++
       (['F', 'i', 'r', 'm', 'w', 'a', 'r', 'e', ' '] ++ ['3', '.', '0', '.', '2'] ++
        [' ', 'o', 'r', ' ', 'n', 'e', 'w', 'e', 'r', ' ', 'i', 's', ' ', 'r', 'e', 'q', 'u', 'i', 'r', 'e', 'd', '.', '\n'])) ++
      ['V', 'i', 's', 'i', 't', ' ', 'h', 't', 't', 'p', 's', ':', '/', '/', 'b', 'a', 'n', 't', 'a', 'm', '.', 't', 'o', 'o', 'l', 's', '/', 'n', 'd', 'f', 'w', ' ', 't', 'o', ' ', 'u', 'p', 'd', 'a', 't', 'e', ' ', 'y', 'o', 'u', 'r', ' ', 'f', 'i', 'r', 'm', 'w', 'a', 'r', 'e', '.'])⟩) (w' := ⟨encSt s3, p, ext⟩) (by
    simp only [assign, app2, PyObj.bind, ok, load, ofP, op_add])]
  rw [seq_norm (expr_of (v := .none) (w' := ⟨encSt (C15.recordError s3 _), p, ext⟩) (by
    simp only [load_str, mcall1_ok_apply, record_error_gen, ofOut_val] <;> rfl))]
  simp only [return_, ok_apply]

/-- after `parse_version`: the minimum-version check of the regenerated `connect` against the model's -/
theorem after_parse (fuel : Nat) (P : C15.Params) (hmin : P.minVersion = ['3', '.', '0', '.', '2'])
    (env : EBB3_connect_Env) (s3 : C15.St) (p p1 : PyIO.Port) (ext : Ext) (io' : C15.Io) (k : Nat) (c0 : Prop)
    (tail : Stmt EBB3_Obj EBB3_connect_Env)
    (r1 : Rel p1 io') (hk : k ≤ 2) (hl1 : p1.log = p.log ++ List.replicate k C15.vProbe) (hk0 : c0 → k = 0) :
    match (match C15.minVersion3 s3 P.minVersion with
      | .error e => Head.failed e s3 io'
      | .ok false => Head.refused (C15.recordError s3 (C15.msgOld s3.version P.minVersion)) io'
      | .ok true => Head.pass s3 io') with
    | .refused st' io'' => ∃ p' k,
        PyObj.run (seq EBB3_connect_if9 tail) fuel env ⟨encSt s3, p1, ext⟩ = .val (.bool false) ⟨encSt st', p', ext⟩ ∧
        Rel p' io'' ∧ k ≤ 2 ∧ p'.log = p.log ++ List.replicate k C15.vProbe ∧ (c0 → k = 0)
    | .failed e st' io'' => ∃ c w', PyObj.run (seq EBB3_connect_if9 tail) fuel env ⟨encSt s3, p1, ext⟩ = .exc c w'
    | .pass _ _ => True := by
  unfold C15.minVersion3
  rw [hmin, parse_minC]
  simp only
  cases hv : s3.vparsed with
  | none =>
    simp only
    exact ⟨.typeError, ⟨encSt s3, p1, ext⟩, by simp only [PyObj.run, seq_exc (if9_typeError fuel env s3 hv p1 ext)]⟩
  | some v =>
    simp only
    cases hge : C15.versionGe v [3, 0, 2] with
    | true => trivial
    | false =>
      simp only
      exact ⟨p1, k, by simp only [PyObj.run, seq_ret (if9_old fuel env s3 v hv hge p1 ext)], r1, hk, hl1, hk0⟩

/-- **the regenerated `EBB3.connect`, up to the minimum-version check, is the head of `C15.connect`** (with the
runtime's parser for the reply's version text): every refusal returns `False` in exactly the model's state, having
attempted at most two probes; every failure of the head is an escaping exception. -/
theorem connect_head_gen (fuel : Nat) (P : C15.Params) (hmin : P.minVersion = ['3', '.', '0', '.', '2'])
    (st : C15.St) (hp : st.port = false) (given found caller : Option (List Char))
    (p : PyIO.Port) (ext : Ext) (hok : PortOk p)
    (hloc : EBB3__get_port_name fuel (optStr given) ⟨encSt st, p, ext⟩
      = .val .none ⟨encSt (locSt st given found), p, ext⟩) :
    match connectHeadP Ebb3.parseRelease P st given found (ioOf ext p) with
    | .refused st' io' => ∃ p' k,
        EBB3_connect fuel (optStr given) (optStr caller) ⟨encSt st, p, ext⟩ = .val (.bool false) ⟨encSt st', p', ext⟩ ∧
        Rel p' io' ∧ k ≤ 2 ∧ p'.log = p.log ++ List.replicate k C15.vProbe ∧
        (found = Option.none ∨ ext.openOk = false → k = 0)
    | .failed e st' io' => ∃ c w', EBB3_connect fuel (optStr given) (optStr caller) ⟨encSt st, p, ext⟩ = .exc c w'
    | .pass _ _ => True := by
  unfold EBB3_connect EBB3_connect_main connectHeadP
  simp only [PyObj.run, block_cons2, block_one]
  have h1 : ∀ env : EBB3_connect_Env, EBB3_connect_if1 fuel env ⟨encSt st, p, ext⟩ = .norm env ⟨encSt st, p, ext⟩ := by
    intro env
    unfold EBB3_connect_if1
    simp only [ifte, app1, PyObj.bind, getattr_port, hp, Bool.false_eq_true, ↓reduceIte, ofP, op_is_not_none, isNone, ok,
      truthy, Bool.not_true, pass]
  rw [seq_norm (h1 _)]
  rw [seq_norm (expr_of (v := .none) (w' := ⟨encSt (locSt st given found), p, ext⟩) (by
    simp only [mcall1_ok_apply, hloc, ofOut_val]))]
  cases found with
  | none =>
    simp only
    refine ⟨p, 0, ?_, rel_ioOf ext p, by omega, by simp, fun _ => rfl⟩
    have h2 : ∀ env : EBB3_connect_Env, EBB3_connect_if2 fuel env ⟨encSt (locSt st given Option.none), p, ext⟩
        = .ret (.bool false) ⟨encSt (locSt st given Option.none), p, ext⟩ := by
      intro env
      unfold EBB3_connect_if2
      simp only [ifte, app1, PyObj.bind, getattr_port_name, locSt, C15.recordError, ofP, op_is_none, ok, return_]
      cases st.err <;> rfl
    rw [seq_ret (h2 _)]
    rfl
  | some pn =>
    simp only
    have h2 : ∀ env : EBB3_connect_Env, EBB3_connect_if2 fuel env ⟨encSt (locSt st given (some pn)), p, ext⟩
        = .norm env ⟨encSt (locSt st given (some pn)), p, ext⟩ := by
      intro env
      unfold EBB3_connect_if2
      simp only [ifte, app1, PyObj.bind, getattr_port_name, locSt, optStr, ofP, op_is_none, isNone, ok, truthy,
        Bool.false_eq_true, ↓reduceIte, pass]
    rw [seq_norm (h2 _)]
    rw [seq_norm (env' := ⟨optStr given, optStr caller, .bool false, .unbound, .unbound⟩)
      (w' := ⟨encSt (locSt st given (some pn)), p, ext⟩) (by simp only [assign, ok_apply])]
    have hst0p : (locSt st given (some pn)).port = false := hp
    have hst0n : (locSt st given (some pn)).portName = some pn := rfl
    obtain ⟨sv, p1, k, etry, hsv, r1, ok1, hk, hl1, hk0⟩ :=
      try_gen fuel (optStr given) (optStr caller) .unbound .unbound (locSt st given (some pn)) hst0p pn hst0n p ext hok
    rw [seq_norm etry]
    have hloc' : locSt st given (some pn) = { st with portName := some pn } := rfl
    rw [hloc'] at *
    generalize hst2 : (if (C15.handshake (ioOf ext p)).raised = true then
        C15.disconnect (C15.recordError (if (C15.handshake (ioOf ext p)).opened = true then
          ({ ({ st with portName := some pn } : C15.St) with port := true } : C15.St) else { st with portName := some pn })
          (C15.msgTest pn))
      else (if (C15.handshake (ioOf ext p)).opened = true then
          ({ ({ st with portName := some pn } : C15.St) with port := true } : C15.St) else { st with portName := some pn })) = st2
    have hpn2 : st2.portName = some pn := by
      rw [← hst2]
      split
      · simp only [C15.disconnect, C15.recordError]
        split <;> split <;> rfl
      · split <;> rfl
    cases hv : (C15.handshake (ioOf ext p)).verified with
    | false =>
      simp only [Bool.not_false, ↓reduceIte]
      refine ⟨p1, k, ?_, r1, hk, hl1, fun h => hk0 (by rcases h with h | h; cases h; exact h)⟩
      have hm : C15.msgFail pn = "Failed to connect via USB (port name: ".toList ++ pn ++ [')'] := by
        unfold C15.msgFail; rw [lit_rparen]
      rw [hm, lit_msgFailA]
      have h8 : EBB3_connect_if8 fuel ⟨optStr given, optStr caller, .bool false, sv, .unbound⟩ ⟨encSt st2, p1, ext⟩
          = .ret (.bool false) ⟨encSt (C15.disconnect (C15.recordError st2
              (['F', 'a', 'i', 'l', 'e', 'd', ' ', 't', 'o', ' ', 'c', 'o', 'n', 'n', 'e', 'c', 't', ' ', 'v', 'i', 'a', ' ', 'U', 'S', 'B', ' ', '(', 'p', 'o', 'r', 't', ' ', 'n', 'a', 'm', 'e', ':', ' '] ++ pn ++ [')']))), p1, ext⟩ := by
        unfold EBB3_connect_if8
        simp only [ifte, load_bool, not_ok, ok_apply, truthy_bool, Bool.not_false, ↓reduceIte, block_cons2, block_one]
        rw [seq_norm (rec_gen fuel _ _ st2 pn hpn2 p1 ext), seq_norm (disc_gen fuel _ _ p1 ext)]
        rfl
      rw [seq_ret h8]
    | true =>
      have hsv' := hsv hv
      subst hsv'
      simp only [Bool.not_true, Bool.false_eq_true, ↓reduceIte]
      have h8 : EBB3_connect_if8 fuel ⟨optStr given, optStr caller, .bool true, .str (C15.handshake (ioOf ext p)).sv, .unbound⟩
            ⟨encSt st2, p1, ext⟩
          = .norm ⟨optStr given, optStr caller, .bool true, .str (C15.handshake (ioOf ext p)).sv, .unbound⟩
            ⟨encSt st2, p1, ext⟩ := by
        unfold EBB3_connect_if8
        simp only [ifte, load_bool, not_ok, ok_apply, truthy_bool, Bool.not_true, Bool.false_eq_true, ↓reduceIte, pass]
      rw [seq_norm h8]
      have hpv := parse_version_gen fuel (C15.handshake (ioOf ext p)).sv st2 p1 ext
      unfold parseStmtP
      cases hvt : C15.versionText (C15.handshake (ioOf ext p)).sv with
      | none =>
        rw [hvt] at hpv
        simp only at hpv ⊢
        rw [seq_norm (expr_of (v := .none) (w' := ⟨encSt st2, p1, ext⟩) (by
          simp only [load_str, mcall1_ok_apply, hpv, ofOut_val]))]
        exact after_parse fuel P hmin _ st2 p p1 ext _ k _ _ r1 hk hl1
          (fun h => hk0 (by rcases h with h | h; cases h; exact h))
      | some t =>
        rw [hvt] at hpv
        simp only at hpv ⊢
        cases hpr : Ebb3.parseRelease t with
        | none =>
          rw [hpr] at hpv
          simp only at hpv ⊢
          refine ⟨.invalidVersion, ⟨encSt { st2 with version := some t }, p1, ext⟩, ?_⟩
          rw [seq_exc (expr_exc (c := .invalidVersion) (w' := ⟨encSt { st2 with version := some t }, p1, ext⟩) (by
            simp only [load_str, mcall1_ok_apply, hpv, ofOut_exc]))]
        | some v =>
          rw [hpr] at hpv
          simp only at hpv ⊢
          rw [seq_norm (expr_of (v := .none) (w' := ⟨encSt { st2 with version := some t, vparsed := some v }, p1, ext⟩) (by
            simp only [load_str, mcall1_ok_apply, hpv, ofOut_val]))]
          exact after_parse fuel P hmin _ _ p p1 ext _ k _ _ r1 hk hl1
            (fun h => hk0 (by rcases h with h | h; cases h; exact h))


theorem lit_locA : "Unable to locate ".toList = ['U', 'n', 'a', 'b', 'l', 'e', ' ', 't', 'o', ' ', 'l', 'o', 'c', 'a', 't', 'e', ' '] := by decide
theorem lit_locB : " on USB".toList = [' ', 'o', 'n', ' ', 'U', 'S', 'B'] := by decide

/-- `_get_port_name(given)` for a given name: `find_named` is the input `ext.findNamed` -/
theorem get_port_name_named (fuel : Nat) (g : List Char) (found : Option (List Char)) (st : C15.St)
    (p : PyIO.Port) (ext : Ext) (hext : ext.findNamed = optStr found) :
    EBB3__get_port_name fuel (optStr (some g)) ⟨encSt st, p, ext⟩
      = .val .none ⟨encSt (locSt st (some g) found), p, ext⟩ := by
  unfold EBB3__get_port_name EBB3__get_port_name_main EBB3__get_port_name_if1
  have hhead : ∀ (A B : Stmt EBB3_Obj EBB3__get_port_name_Env) w,
      ifte (fun fuel (env : EBB3__get_port_name_Env) => app1 op_is_none (ok env.given_name)) A B fuel ⟨.str g⟩ w
        = B fuel ⟨.str g⟩ w := by
    intro A B w
    simp only [ifte, app1_ok, op_is_none, isNone, ofP_ok, ok_apply, truthy_bool, Bool.false_eq_true, ↓reduceIte]
  simp only [PyObj.run, optStr, hhead, block_cons2, block_one]
  have e1 : setattr (fun (o : EBB3_Obj) v => { o with port_name := v }) (fun fuel (env : EBB3__get_port_name_Env) =>
        eff1 ext_find_named (ok env.given_name)) fuel ⟨.str g⟩ ⟨encSt st, p, ext⟩
      = .norm ⟨.str g⟩ ⟨encSt { st with portName := found }, p, ext⟩ := by
    simp only [setattr, eff1_ok, ext_find_named, hext]
    rfl
  rw [seq_norm e1]
  unfold EBB3__get_port_name_if3
  cases found with
  | none =>
    have e2 : expr (fun fuel (env : EBB3__get_port_name_Env) => mcall1 (EBB3_record_error fuel)
          (fstr [ok (Val.str ['U', 'n', 'a', 'b', 'l', 'e', ' ', 't', 'o', ' ', 'l', 'o', 'c', 'a', 't', 'e', ' ']),
            ok env.given_name, ok (Val.str [' ', 'o', 'n', ' ', 'U', 'S', 'B'])])) fuel ⟨.str g⟩
          ⟨encSt { st with portName := Option.none }, p, ext⟩
        = .norm ⟨.str g⟩ ⟨encSt (C15.recordError { st with portName := Option.none }
            (['U', 'n', 'a', 'b', 'l', 'e', ' ', 't', 'o', ' ', 'l', 'o', 'c', 'a', 't', 'e', ' '] ++ g ++
              [' ', 'o', 'n', ' ', 'U', 'S', 'B'])), p, ext⟩ := by
      simp only [expr, mcall1, fstr, evalList, PyObj.bind, ok, List.map, strOf, List.flatten, List.append_nil,
        record_error_gen, ofOut, List.append_assoc]
      rfl
    have hm : C15.msgLocate (some g) = ['U', 'n', 'a', 'b', 'l', 'e', ' ', 't', 'o', ' ', 'l', 'o', 'c', 'a', 't', 'e', ' '] ++ g ++
        [' ', 'o', 'n', ' ', 'U', 'S', 'B'] := by
      unfold C15.msgLocate; rw [lit_locA, lit_locB]
    simp only [ifte, app1, PyObj.bind, getattr_port_name, optStr, ofP, op_is_none, isNone, ok, truthy, ↓reduceIte, e2,
      locSt, hm]
  | some pn =>
    simp only [ifte, app1, PyObj.bind, getattr_port_name, optStr, ofP, op_is_none, isNone, ok, truthy, Bool.false_eq_true,
      ↓reduceIte, pass, locSt]

end Plotink.C15Gen
