import Plotink.Gen.ebb_serial_findPort
import Plotink.Gen.ebb_motion_doXYMove
import Plotink.Gen.ebb_serial_min_version
import Plotink.Proofs.PyIOLemmas
import Plotink.Props.C07
import Plotink.Proofs.C06
import Plotink.Model.C15
import Plotink.Proofs.C15Version
import Plotink.Model.C19

/-! # Worked bridges for the regenerated module-level functions (legacy layers, port discovery)

One bridge per group, as a pattern for the owners of C06 / C15 / C19 (`Proofs/LEGACYGEN_NOTES.md`):

* `findPort_bridge` (C19): `Gen.ebb_serial_findPort` with `comports()` yielding the encoded port list returns
  `C19.Legacy.findFirst ports` — two `for … break` loops by induction over the list.
* `doXYMove_bridge` (C06): `Gen.ebb_motion_doXYMove` appends exactly the wire text of
  `C06.legacyEmit port fwOk (.xyMove dx dy dur)` to the write log, for every script whose faults are serial I/O
  exceptions — through `C07_gen_one_write` for the regenerated `ebb_serial.command` it calls.
* `min_version_bridge` (C15): the decision layer of `Gen.ebb_serial_min_version` against `C15.lminVersion`, given what
  the version query returned; the agreement of the two version-parsing libraries on the texts involved is an explicit
  hypothesis (`PyObj` uses the primitives of `Model/Ebb3.lean`).
-/

namespace Plotink
namespace LegacyGen
open PyObj Gen
set_option linter.unusedSimpArgs false
set_option linter.unusedVariables false

theorem load_tuple {ω : Type} (l : List Val) : (load (.tuple l) : Eff ω) = ok (.tuple l) := rfl
theorem load_list {ω : Type} (l : List Val) : (load (.list l) : Eff ω) = ok (.list l) := rfl

/-! ## C19: `findPort` -/

def encPort (p : C19.Port) : Val := .tuple [.str p.dev, .str p.desc, .str p.hwid]

def encOptStr : Option C19.Str → Val
  | some s => .str s
  | Option.none => .none

theorem lit_ebbName : C19.ebbName = ['E', 'i', 'B', 'o', 't', 'B', 'o', 'a', 'r', 'd'] := by decide
theorem lit_vidpid : C19.vidpid = ['U', 'S', 'B', ' ', 'V', 'I', 'D', ':', 'P', 'I', 'D', '=', '0', '4', 'D', '8', ':', 'F', 'D', '9', '2'] := by
  decide

/-- the first loop: `for port in com_ports_list: if port[1].startswith("EiBotBoard"): ebb_port = port[0]; break` -/
theorem for1_eval (fuel : Nat) (ports : List C19.Port) (env : ebb_serial_findPort_Env) (w : World NoObj) :
    ∃ pv, forLoop (fun (env : ebb_serial_findPort_Env) v => { env with port := v }) ebb_serial_findPort_fbody1 fuel
        (ports.map encPort) env w
      = .norm { env with port := pv, ebb_port := (match C19.firstBy C19.descMatch ports with
                                                  | some d => .str d
                                                  | Option.none => env.ebb_port) } w := by
  induction ports generalizing env with
  | nil => exact ⟨env.port, rfl⟩
  | cons p ps ih =>
    simp only [List.map_cons, forLoop, C19.firstBy]
    have hbody : ebb_serial_findPort_fbody1 fuel { env with port := encPort p } w =
        if C19.descMatch p = true then .brk { env with port := encPort p, ebb_port := .str p.dev } w
        else .norm { env with port := encPort p } w := by
      unfold ebb_serial_findPort_fbody1 ebb_serial_findPort_if1
      have h1 : op_getitem (.tuple [.str p.dev, .str p.desc, .str p.hwid]) (.int 1) = .ok (.str p.desc) := rfl
      have h0 : op_getitem (.tuple [.str p.dev, .str p.desc, .str p.hwid]) (.int 0) = .ok (.str p.dev) := rfl
      simp only [ifte, encPort, load_tuple, app2_ok, h1, h0, ofP_ok, meth_startswith, ok_apply, truthy_bool, C19.descMatch,
        lit_ebbName, Ebb3.startsWith, block_cons2, block_one, seq, assign, break_, pass]
    rw [hbody]
    by_cases hd : C19.descMatch p = true
    · simp only [hd, ↓reduceIte]
      exact ⟨encPort p, rfl⟩
    · simp only [hd, Bool.false_eq_true, ↓reduceIte]
      obtain ⟨pv, e⟩ := ih { env with port := encPort p }
      exact ⟨pv, e⟩

/-- the second loop, on the hardware id -/
theorem for2_eval (fuel : Nat) (ports : List C19.Port) (env : ebb_serial_findPort_Env) (w : World NoObj) :
    ∃ pv, forLoop (fun (env : ebb_serial_findPort_Env) v => { env with port := v }) ebb_serial_findPort_fbody2 fuel
        (ports.map encPort) env w
      = .norm { env with port := pv, ebb_port := (match C19.firstBy C19.idMatch ports with
                                                  | some d => .str d
                                                  | Option.none => env.ebb_port) } w := by
  induction ports generalizing env with
  | nil => exact ⟨env.port, rfl⟩
  | cons p ps ih =>
    simp only [List.map_cons, forLoop, C19.firstBy]
    have hbody : ebb_serial_findPort_fbody2 fuel { env with port := encPort p } w =
        if C19.idMatch p = true then .brk { env with port := encPort p, ebb_port := .str p.dev } w
        else .norm { env with port := encPort p } w := by
      unfold ebb_serial_findPort_fbody2 ebb_serial_findPort_if3
      have h2 : op_getitem (.tuple [.str p.dev, .str p.desc, .str p.hwid]) (.int 2) = .ok (.str p.hwid) := rfl
      have h0 : op_getitem (.tuple [.str p.dev, .str p.desc, .str p.hwid]) (.int 0) = .ok (.str p.dev) := rfl
      simp only [ifte, encPort, load_tuple, app2_ok, h2, h0, ofP_ok, meth_startswith, ok_apply, truthy_bool, C19.idMatch,
        lit_vidpid, Ebb3.startsWith, block_cons2, block_one, seq, assign, break_, pass]
    rw [hbody]
    by_cases hd : C19.idMatch p = true
    · simp only [hd, ↓reduceIte]
      exact ⟨encPort p, rfl⟩
    · simp only [hd, Bool.false_eq_true, ↓reduceIte]
      obtain ⟨pv, e⟩ := ih { env with port := encPort p }
      exact ⟨pv, e⟩

/-- **C19 worked bridge.**  With `list(comports())` yielding the (encoded) port list, the regenerated `findPort`
returns what the hand model `C19.Legacy.findFirst` returns, touches nothing, and needs no fuel. -/
theorem findPort_bridge (fuel : Nat) (ports : List C19.Port) (w : World NoObj)
    (hc : w.ext.comports = .ok (.list (ports.map encPort))) :
    ebb_serial_findPort fuel w = .val (encOptStr (C19.Legacy.findFirst ports)) w := by
  unfold ebb_serial_findPort ebb_serial_findPort_main
  simp only [PyObj.run, block_cons2, block_one]
  -- `com_ports_list = list(comports())`
  have htry : tryExcept ebb_serial_findPort_try1 ebb_serial_findPort_handlers1 fuel
      ⟨.unbound, .unbound, .unbound⟩ w = .norm ⟨.list (ports.map encPort), .unbound, .unbound⟩ w := by
    unfold ebb_serial_findPort_try1
    simp only [tryExcept, assign, app1, PyObj.bind, ext_comports, hc, ofP, b_list, items, ok]
  rw [seq_norm htry]
  rw [seq_norm (assign_of (set := fun (env : ebb_serial_findPort_Env) v => { env with ebb_port := v })
    (e := fun _ _ => ok .none) (v := .none) (w' := w) rfl)]
  -- first loop
  have hfor1 : ∃ pv, ebb_serial_findPort_for1 fuel ⟨.list (ports.map encPort), .none, .unbound⟩ w
      = .norm ⟨.list (ports.map encPort), encOptStr (C19.firstBy C19.descMatch ports), pv⟩ w := by
    obtain ⟨pv, e⟩ := for1_eval fuel ports ⟨.list (ports.map encPort), .none, .unbound⟩ w
    refine ⟨pv, ?_⟩
    unfold ebb_serial_findPort_for1
    simp only [PyObj.forIn, load_list, ok_apply, items, e]
    cases C19.firstBy C19.descMatch ports <;> rfl
  obtain ⟨pv1, e1⟩ := hfor1
  rw [seq_norm e1]
  unfold C19.Legacy.findFirst
  cases h1 : C19.firstBy C19.descMatch ports with
  | some d =>
    -- found by description: the second loop is skipped
    have hif : ebb_serial_findPort_if2 fuel ⟨.list (ports.map encPort), encOptStr (some d), pv1⟩ w
        = .norm ⟨.list (ports.map encPort), .str d, pv1⟩ w := by
      unfold ebb_serial_findPort_if2
      simp only [ifte, encOptStr, load_str, app1_ok, op_is_none, isNone, ofP_ok, ok_apply, truthy_bool, Bool.false_eq_true,
        ↓reduceIte, pass]
    rw [seq_norm hif]
    simp only [return_, load_str, ok_apply, encOptStr]
  | none =>
    have hif : ∃ pv, ebb_serial_findPort_if2 fuel ⟨.list (ports.map encPort), encOptStr Option.none, pv1⟩ w
        = .norm ⟨.list (ports.map encPort), encOptStr (C19.firstBy C19.idMatch ports), pv⟩ w := by
      obtain ⟨pv, e⟩ := for2_eval fuel ports ⟨.list (ports.map encPort), .none, pv1⟩ w
      refine ⟨pv, ?_⟩
      unfold ebb_serial_findPort_if2 ebb_serial_findPort_for2
      simp only [ifte, encOptStr, load_none, app1_ok, op_is_none, isNone, ofP_ok, ok_apply, truthy_bool, ↓reduceIte, PyObj.forIn,
        load_list, items, e]
    obtain ⟨pv2, e2⟩ := hif
    rw [seq_norm e2]
    cases h2 : C19.firstBy C19.idMatch ports with
    | some d => simp only [return_, encOptStr, load_str, ok_apply]
    | none => simp only [return_, encOptStr, load_none, ok_apply]

/-! ## C06: `doXYMove` -/

/-- where a call leaves the world (`none`: out of fuel) -/
def outWorld {ω : Type} : Out ω → Option (World ω)
  | .val _ w => some w
  | .exc _ w => some w
  | .fuelOut => Option.none

theorem digit_lt (c : Char) (h : c.isDigit = true) : c.toNat < 128 := by
  simp only [Char.isDigit, Bool.and_eq_true, decide_eq_true_eq] at h
  have h2 : c.val.toNat ≤ 57 := by
    have := UInt32.le_iff_toNat_le.mp h.2
    simpa using this
  simp only [Char.toNat]
  omega

/-- the decimal rendering of an `int` is ASCII -/
theorem isAscii_showInt (z : Int) : PyIO.isAscii (Ebb3.showInt z) = true := by
  unfold PyIO.isAscii Ebb3.showInt
  rw [List.all_eq_true]
  intro c hc
  have hc' : c ∈ (Int.repr z).toList := hc
  rcases C06.numChar_of_mem_repr hc' with h | rfl
  · simpa using digit_lt c h
  · decide

theorem isAscii_append (a b : List Char) (ha : PyIO.isAscii a = true) (hb : PyIO.isAscii b = true) :
    PyIO.isAscii (a ++ b) = true := by
  unfold PyIO.isAscii at *
  rw [List.all_append, ha, hb]; rfl

theorem lit_SM : "SM".toList = ['S', 'M'] := by decide
theorem lit_comma : ",".toList = [','] := by decide
theorem lit_cr : "\r".toList = ['\r'] := by decide
theorem lit_empty : "".toList = [] := by decide

/-- the text `'SM,{0},{1},{2}\r'.format(a, b, c)` renders -/
def smText (a b c : Int) : List Char :=
  ['S', 'M', ','] ++ (Ebb3.showInt a ++ ([','] ++ (Ebb3.showInt b ++ ([','] ++ (Ebb3.showInt c ++ (['\r'] ++ []))))))

/-- … is the wire text of the documented command -/
theorem smText_eq_wire (a b c : Int) : smText a b c = (C06.Cmd.wire ⟨"SM", [a, b, c]⟩).toList := by
  unfold smText C06.Cmd.wire C06.Cmd.text
  simp only [C06.argsText, String.toList_append, lit_SM, lit_comma, lit_cr, lit_empty, List.append_assoc, List.append_nil,
    List.cons_append, List.nil_append]
  rfl

theorem isAscii_smText (a b c : Int) : PyIO.isAscii (smText a b c) = true := by
  unfold smText
  refine isAscii_append _ _ (by decide) (isAscii_append _ _ (isAscii_showInt a) (isAscii_append _ _ (by decide)
    (isAscii_append _ _ (isAscii_showInt b) (isAscii_append _ _ (by decide) (isAscii_append _ _ (isAscii_showInt c) (by decide))))))

/-- **C06 worked bridge.**  For every script whose faults are serial I/O exceptions (fuel ≥ 101), with or without a
port: the regenerated `doXYMove` ends (value or escaping exception, never out of fuel) having appended to the write log
exactly the wire texts of `C06.legacyEmit port fwOk (.xyMove dx dy dur)` — one `SM,<dur>,<dy>,<dx>\r`, or nothing
without a port. -/
theorem doXYMove_bridge (fuel : Nat) (hf : 101 ≤ fuel) (present fwOk : Bool) (dx dy dur : Int) (vb : Val)
    (w : World NoObj) (hio : C07Gen.IoScript w.port) :
    ∃ w', outWorld (ebb_motion_doXYMove fuel (if present then .port else .none) (.int dx) (.int dy) (.int dur) vb w) = some w' ∧
      w'.port.log = w.port.log ++
        ((C06.legacyEmit present fwOk (.xyMove dx dy dur)).getD []).map (fun c => c.wire.toList) := by
  unfold ebb_motion_doXYMove ebb_motion_doXYMove_main ebb_motion_doXYMove_if1
  cases present with
  | false =>
    refine ⟨w, ?_, ?_⟩
    · simp only [PyObj.run, ifte, Bool.false_eq_true, ↓reduceIte, app1_ok, op_is_not_none, isNone, ofP_ok, ok_apply, truthy_bool,
        Bool.not_true, pass, outWorld]
    · simp [C06.legacyEmit, C06.legacyEmitWith]
  | true =>
    have htext : (format_ [FmtPart.lit ['S', 'M', ','], FmtPart.arg 0, FmtPart.lit [','], FmtPart.arg 1, FmtPart.lit [','],
        FmtPart.arg 2, FmtPart.lit ['\r']] [ok (.int dur), ok (.int dy), ok (.int dx)] : Eff NoObj)
        = ok (.str (smText dur dy dx)) := by
      simp only [format_, evalList_cons_ok, evalList_nil, renderFmt, List.getElem?_cons_zero, List.getElem?_cons_succ,
        Option.map_some, strOf, smText]
    obtain ⟨_, ⟨p', hp', hlog⟩, _⟩ := C07_gen_one_write fuel hf (smText dur dy dx) (isAscii_smText dur dy dx) (toIO vb) w.port hio
    refine ⟨{ w with port := p' }, ?_, ?_⟩
    · simp only [PyObj.run, ifte, ↓reduceIte, app1_ok, op_is_not_none, isNone, ofP_ok, ok_apply, truthy_bool, Bool.not_false,
        block_cons2, block_one, seq, assign, htext, expr, load_str, ioCall3, bind_ok]
      have h1 : toIO .port = PyIO.Val.port := rfl
      have h2 : toIO (.str (smText dur dy dx)) = PyIO.Val.str (smText dur dy dx) := rfl
      simp only [h1, h2]
      generalize ebb_serial_command fuel PyIO.Val.port (PyIO.Val.str (smText dur dy dx)) (toIO vb) w.port = o at hp'
      cases o with
      | val v q => simp only [C07.outPort, Option.some.injEq] at hp'; subst hp'; rfl
      | exc c q => simp only [C07.outPort, Option.some.injEq] at hp'; subst hp'; rfl
      | fuelOut => simp [C07.outPort] at hp'
    · simp only [hlog, C06.legacyEmit, C06.legacyEmitWith, ↓reduceIte, Option.getD_some, List.map_cons, List.map_nil,
        smText_eq_wire]

/-! ## C15: `min_version`

### agreement of the string / version primitives of `Model/Ebb3.lean` (used by `PyObj`) and `Model/C15.lean` -/

/-- drop the longest suffix whose elements satisfy `p`, by recursion from the front (the shape of
`Ebb3.rstrip` and of `C15.versionKey`) -/
def rdrop {α : Type} (p : α → Bool) : List α → List α
  | [] => []
  | a :: r =>
    match rdrop p r with
    | [] => if p a then [] else [a]
    | k => a :: k

theorem dropWhile_append_singleton {α : Type} (p : α → Bool) (l : List α) (a : α) :
    (l ++ [a]).dropWhile p = if l.dropWhile p = [] then (if p a then [] else [a]) else l.dropWhile p ++ [a] := by
  induction l with
  | nil => cases h : p a <;> simp [List.dropWhile, h]
  | cons b t ih =>
    by_cases hb : p b = true
    · simp only [List.cons_append, List.dropWhile_cons_of_pos hb, ih]
    · have hb' : p b = false := by simpa using hb
      simp [List.dropWhile, hb']

/-- `rdrop` is "reverse, drop the prefix, reverse" -/
theorem rdrop_eq {α : Type} (p : α → Bool) (l : List α) : rdrop p l = (l.reverse.dropWhile p).reverse := by
  induction l with
  | nil => rfl
  | cons a r ih =>
    simp only [rdrop, ih, List.reverse_cons, dropWhile_append_singleton]
    by_cases h : r.reverse.dropWhile p = []
    · simp only [h, List.reverse_nil, ↓reduceIte]
      by_cases ha : p a = true <;> simp [ha]
    · simp only [h, ↓reduceIte, List.reverse_append, List.reverse_cons, List.reverse_nil, List.nil_append,
        List.singleton_append]
      cases hk : (r.reverse.dropWhile p).reverse with
      | nil => exact absurd (by simpa using hk) h
      | cons x xs => rfl

theorem isSpace_eq_isWs : Ebb3.isSpace = C15.isWs := rfl

theorem ebb3_rstrip_eq_rdrop (s : List Char) : Ebb3.rstrip s = rdrop Ebb3.isSpace s := by
  induction s with
  | nil => rfl
  | cons c cs ih =>
    simp only [Ebb3.rstrip, rdrop, ih]
    cases rdrop Ebb3.isSpace cs <;> rfl

/-- `str.strip()` of the two models is the same function -/
theorem strip_agree (s : List Char) : Ebb3.strip s = C15.strip s := by
  unfold Ebb3.strip C15.strip C15.rstrip C15.lstrip Ebb3.lstrip
  rw [ebb3_rstrip_eq_rdrop, rdrop_eq, isSpace_eq_isWs]

theorem versionKey_eq_rdrop (l : List Nat) : C15.versionKey l = rdrop (· == 0) l := by
  induction l with
  | nil => rfl
  | cons a r ih =>
    simp only [C15.versionKey, rdrop, ih]
    cases rdrop (· == 0) r with
    | nil => by_cases h : a = 0 <;> simp [h]
    | cons x xs => rfl

theorem lexLe_eq_tupleLe (a b : List Nat) : Ebb3.lexLe a b = C15.tupleLe a b := by
  induction a generalizing b with
  | nil => cases b <;> rfl
  | cons x xs ih => cases b with
    | nil => rfl
    | cons y ys => simp only [Ebb3.lexLe, C15.tupleLe, ih]

/-- `Version(a) >= Version(b)` of the two models is the same function -/
theorem vle_agree (a b : List Nat) : Ebb3.vle b a = C15.versionGe a b := by
  unfold Ebb3.vle C15.versionGe Ebb3.dropTrailingZeros
  rw [lexLe_eq_tupleLe, versionKey_eq_rdrop, versionKey_eq_rdrop, rdrop_eq, rdrop_eq]

/-- the text after the first occurrence of a separator: `s.split(p, 1)[1]` of the two models -/
theorem splitSub1_agree (p : List Char) (s : List Char) :
    (Ebb3.splitSub1 p s).map (·.2) = C15.afterFirst p s := by
  induction s with
  | nil =>
    unfold Ebb3.splitSub1 C15.afterFirst
    split <;> rfl
  | cons c t ih =>
    unfold Ebb3.splitSub1 C15.afterFirst
    split
    · rfl
    · rw [← ih]
      cases Ebb3.splitSub1 p t <;> rfl

theorem lit_fwv : C15.fwv = ['F', 'i', 'r', 'm', 'w', 'a', 'r', 'e', ' ', 'V', 'e', 'r', 's', 'i', 'o', 'n', ' '] := by decide

/-- how the result of the model's gate shows as the outcome of the regenerated function -/
def encGate (w : World NoObj) : Except C15.PyExc (Option Bool) → Out NoObj
  | .ok Option.none => .val .none w
  | .ok (some b) => .val (.bool b) w
  | .error .versionSyntax => .exc .invalidVersion w
  | .error .typeError => .exc .typeError w
  | .error .valueError => .exc .valueError w
  | .error _ => .exc .exception w

/-- **C15 worked bridge** (the decision layer of the legacy gate).  Suppose the version query returned the text
`reply` — in the regenerated code (`hq`) and in the hand model (`hm`; relating the two I/O models `C07.query` and
`C15.lquery` is a model-to-model matter) — and the two version parsers agree on the two texts involved (`hp1`, `hp2`:
they differ on a leading `v`, which `Ebb3.parseRelease` rejects).  Then the regenerated `min_version` returns exactly
what `C15.lminVersion` returns: `None` without the `Firmware Version ` marker, `True`/`False` by
`Version(reply) >= Version(threshold)`, `InvalidVersion` for an unparsable text. -/
theorem min_version_bridge (fuel : Nat) (thr reply : List Char) (w w' : World NoObj)
    (hq : ebb_serial_queryVersion fuel .port w = .val (.str reply) w')
    (P : C15.Params) (io io1 : C15.Io) (hm : C15.lquery P io C15.vQuery = (io1, .ok reply))
    (hp1 : ∀ t, C15.versionText reply = some t → Ebb3.parseRelease t = C15.parseVersion t)
    (hp2 : Ebb3.parseRelease thr = C15.parseVersion thr) :
    ebb_serial_min_version fuel .port (.str thr) w = encGate w' (C15.lminVersion P io thr).2 := by
  unfold ebb_serial_min_version ebb_serial_min_version_main ebb_serial_min_version_if1 C15.lminVersion
  rw [hm]
  simp only [PyObj.run, block_cons2, block_one]
  -- `if port_name is not None:` and the version query
  have hguard : ∀ (A B : Stmt NoObj ebb_serial_min_version_Env) (env : ebb_serial_min_version_Env) (v : World NoObj),
      env.port_name = .port →
      ifte (fun fuel env => app1 op_is_not_none (ok env.port_name)) A B fuel env v = A fuel env v := by
    intro A B env v h
    simp only [ifte, h, app1_ok, op_is_not_none, isNone, ofP_ok, ok_apply, truthy_bool, Bool.not_false, ↓reduceIte]
  rw [seq, hguard _ _ _ _ rfl]
  rw [seq_norm (env' := ⟨.port, .str thr, .str reply⟩) (w' := w') (by
    simp only [assign, mcall1_ok_apply, hq, ofOut_val])]
  -- `.split("Firmware Version ", 1)`
  have hsplit := splitSub1_agree C15.fwv reply
  rw [lit_fwv] at hsplit
  unfold C15.versionText at hp1 ⊢
  cases hs : Ebb3.splitSub1 ['F', 'i', 'r', 'm', 'w', 'a', 'r', 'e', ' ', 'V', 'e', 'r', 's', 'i', 'o', 'n', ' '] reply with
  | none =>
    rw [hs] at hsplit
    rw [seq_norm (env' := ⟨.port, .str thr, .list [.str reply]⟩) (w' := w') (by
      simp only [assign, load_str, app1_ok, meth_split1_str, hs, ofP_ok, ok_apply])]
    have hif2 : ebb_serial_min_version_if2 fuel ⟨.port, .str thr, .list [.str reply]⟩ w' = .ret .none w' := by
      unfold ebb_serial_min_version_if2
      simp only [ifte, load_list, app1_ok, op_len, ofP_ok, app2_ok, op_gt, ofOptBool, ltVal, intOf, ok_apply, truthy_bool,
        List.length_singleton, return_]
      rfl
    rw [seq_ret hif2]
    simp only [lit_fwv, ← hsplit, Option.map_none, encGate]
  | some ab =>
    obtain ⟨a, b⟩ := ab
    rw [hs] at hsplit
    simp only [Option.map_some] at hsplit
    rw [seq_norm (env' := ⟨.port, .str thr, .list [.str a, .str b]⟩) (w' := w') (by
      simp only [assign, load_str, app1_ok, meth_split1_str, hs, ofP_ok, ok_apply])]
    have hif2 : ebb_serial_min_version_if2 fuel ⟨.port, .str thr, .list [.str a, .str b]⟩ w'
        = .norm ⟨.port, .str thr, .str b⟩ w' := by
      unfold ebb_serial_min_version_if2
      have hidx : op_getitem (.list [.str a, .str b]) (.int 1) = .ok (.str b) := rfl
      simp only [ifte, load_list, app1_ok, op_len, ofP_ok, app2_ok, op_gt, ofOptBool, ltVal, intOf, ok_apply, truthy_bool,
        List.length_cons, List.length_nil, assign, hidx]
      rfl
    rw [seq_norm hif2]
    rw [seq_norm (env' := ⟨.port, .str thr, .str (Ebb3.strip b)⟩) (w' := w') (by
      simp only [assign, load_str, app1_ok, meth_strip, ofP_ok, ok_apply])]
    -- the comparison
    have ht : C15.versionText reply = some (C15.strip b) := by
      unfold C15.versionText
      rw [lit_fwv, ← hsplit]; rfl
    have hpt := hp1 (C15.strip b) ht
    rw [← strip_agree] at hpt
    simp only [lit_fwv, ← hsplit, Option.map_some, ← strip_agree]
    unfold ebb_serial_min_version_if3
    rw [seq]
    simp only [ifte, load_str, app1_ok, b_parse_version, hpt, hp2]
    cases hv : C15.parseVersion (Ebb3.strip b) with
    | none =>
      simp only [ofP_error, app2, bind_raise, raise_apply]
      cases C15.parseVersion thr <;> rfl
    | some v =>
      cases hg : C15.parseVersion thr with
      | none =>
        simp only [ofP_ok, ofP_error, app2, bind_ok, bind_raise, raise_apply]
        rfl
      | some g =>
        simp only [ofP_ok, app2_ok, op_ge, ofOptBool, leVal, vle_agree, ok_apply, truthy_bool]
        cases C15.versionGe v g
        · simp only [Bool.false_eq_true, ↓reduceIte, pass, return_, ok_apply, encGate]
        · simp only [↓reduceIte, return_, ok_apply, encGate]

end LegacyGen
end Plotink
