import Plotink.Proofs.Ebb3GenRun

/-! # Lemmas for lifting the C04 / C05 theorems from the hand model to the regenerated code -/

namespace Plotink
namespace Ebb3Gen
open PyObj Gen
set_option linter.unusedSimpArgs false
set_option linter.unusedVariables false

/-- in the model: once an error is recorded, a history without `connect` does no I/O at all -/
theorem finalWorld_quiet {σ : Type} (P : Ebb3.Params) (D : Ebb3.Device σ) : ∀ (cs : List Ebb3.Call) (w : Ebb3.World σ) (e : Ebb3.Str),
    w.st.err = some e → (∀ c ∈ cs, c.method ≠ .connect) →
    (Ebb3.finalWorld P D cs w).out = w.out ∧ (Ebb3.finalWorld P D cs w).nreads = w.nreads ∧
    (Ebb3.finalWorld P D cs w).dev = w.dev ∧ (Ebb3.finalWorld P D cs w).st.err = some e
  | [], w, e, h, _ => ⟨rfl, rfl, rfl, h⟩
  | c :: cs, w, e, h, hnc => by
    have hkeep := Ebb3.run_keepsErr P D c w e h
    have ih := finalWorld_quiet P D cs (Ebb3.run P D c w).2 e hkeep (fun c' hc' => hnc c' (List.mem_cons_of_mem _ hc'))
    have hio : (Ebb3.run P D c w).2.dev = w.dev ∧ (Ebb3.run P D c w).2.out = w.out ∧ (Ebb3.run P D c w).2.nreads = w.nreads := by
      by_cases hr : c.method.isRequest = true
      · rw [Ebb3.run_blocked P D c hr w (Ebb3.blocked_of_err h)]
        exact ⟨rfl, rfl, rfl⟩
      · have hne := hnc c List.mem_cons_self
        have hh : c.method.isHelper = true ∨ c.method = .disconnect := by
          revert hr hne
          cases c.method <;> simp [Ebb3.Method.isRequest, Ebb3.Method.isHelper]
        exact Ebb3.run_noIO P D c hh w
    show (Ebb3.finalWorld P D cs (Ebb3.run P D c w).2).out = w.out ∧ _
    refine ⟨ih.1.trans hio.2.1, ih.2.1.trans hio.2.2, ih.2.2.1.trans hio.1, ih.2.2.2⟩

/-- a prefix of a history over S: its final world is the model's, and the rest of the history is still covered -/
theorem gen_prefix_sim (fuel : Nat) : ∀ (cs rest : List Ebb3.Call) (w : World EBB3_Obj),
    (∀ c ∈ cs ++ rest, Covered fuel c) → Good w → HistPre fuel (cs ++ rest) w →
    ∃ w', genFinal fuel cs w = some w' ∧
      absWorld w' = Ebb3.finalWorld Ebb3.srcParams Ebb3.scriptDev cs (absWorld w) ∧ Good w' ∧ HistPre fuel rest w'
  | [], rest, w, _, hg, hp => ⟨w, rfl, rfl, hg, hp⟩
  | c :: cs, rest, w, hc, hg, hp => by
    obtain ⟨wa, ha1, ha2, hga⟩ := sim_world (gen_bridge fuel c (hc c (by simp)) w hg hp.1)
    obtain ⟨wb, hb1, hb2, hgb, hpb⟩ := gen_prefix_sim fuel cs rest wa
      (fun c' hc' => hc c' (List.mem_cons_of_mem _ hc')) hga (hp.2 wa ha1)
    refine ⟨wb, by simp only [genFinal, ha1, hb1], ?_, hgb, hpb⟩
    rw [hb2, ha2]; rfl

/-- the guard condition in terms of the attributes -/
theorem blocked_of_attrs (w : World EBB3_Obj) (h : w.obj.port = .none ∨ ∃ e, w.obj.err = .str e) :
    (absSt w.obj).blocked = true := by
  rcases h with h | ⟨e, h⟩ <;> simp [Ebb3.St.blocked, absSt, h, absPort, absOpt]

theorem ready_of_attrs (w : World EBB3_Obj) (hp : w.obj.port = .port) (he : w.obj.err = .none) :
    Ebb3.Ready (absWorld w) := by
  constructor <;> simp [absWorld, absSt, hp, he, absPort, absOpt]

/-- the fault alphabet survives whatever regenerated code does: it only consumes the script (`Fr`) -/
theorem admScript_of_fr {w w' : World EBB3_Obj} (hf : Fr w w') (ha : Ebb3.AdmScript (absWorld w)) :
    Ebb3.AdmScript (absWorld w') := by
  intro ev hev
  obtain ⟨r, hr, rfl⟩ := List.mem_map.mp hev
  exact ha _ (List.mem_map.mpr ⟨r, hf.2.1 r hr, rfl⟩)

theorem encVal_failure {v : Ebb3.Val} (h : Ebb3.IsFailure v) :
    encVal v = .bool false ∨ encVal v = .none ∨ encVal v = .tuple [.none, .none] := by
  rcases h with h | h | h <;> subst h <;> simp [encVal]

end Ebb3Gen
end Plotink

namespace Plotink
namespace Ebb3Gen
open PyObj Gen Ebb3.Spec
set_option linter.unusedSimpArgs false
set_option linter.unusedVariables false

/-- `command` of the regenerated code on a connected, error-free object, exactly -/
theorem command_gen_exact (fuel : Nat) (hf : 26 ≤ fuel) (req name : List Char) (hasc : PyIO.isAscii req = true)
    (hn : Ebb3.cmdName (Ebb3.strip req) = .ok name) (hne : name ≠ []) (w : World EBB3_Obj) (hg : Good w)
    (hp : w.obj.port = .port) (he : w.obj.err = .none) :
    ∃ w', EBB3_command fuel (.str req) w
        = .val (.bool (commandError Ebb3.srcParams (Ebb3.strip req) name (firstWrite (absWorld w).dev) (absWorld w).dev.reads).isNone) w' ∧
      absWorld w' = ⟨{ absSt w.obj with err := commandError Ebb3.srcParams (Ebb3.strip req) name (firstWrite (absWorld w).dev) (absWorld w).dev.reads },
        ⟨(absWorld w).dev.reads.drop (Ebb3.usedReads (Ebb3.srcParams.retryCmd + 1) (firstWrite (absWorld w).dev) (absWorld w).dev.reads),
         (absWorld w).dev.writes.tail⟩,
        w.port.log ++ [Ebb3.strip req ++ ['\r']],
        w.port.nread + Ebb3.usedReads (Ebb3.srcParams.retryCmd + 1) (firstWrite (absWorld w).dev) (absWorld w).dev.reads⟩ ∧
      Good w' := by
  have hs := command_bridge_ascii fuel hf (some req) (fun s hs => by injection hs with hs; rw [← hs]; exact hasc) w hg
  have hr := ready_of_attrs w hp he
  rw [Ebb3.run_command_ready Ebb3.srcParams Ebb3.scriptDev req _ hr] at hs
  have hcore := Ebb3.commandCore_script Ebb3.srcParams (Ebb3.strip req) name hn hne (absSt w.obj) hr.2
    (absWorld w).dev.reads (absWorld w).dev.writes w.port.log w.port.nread
  have hw : absWorld w = ⟨absSt w.obj, ⟨(absWorld w).dev.reads, (absWorld w).dev.writes⟩, w.port.log, w.port.nread⟩ := rfl
  rw [hw, hcore] at hs
  obtain ⟨w', h1, h2, h3⟩ := sim_val hs
  exact ⟨w', h1, h2, h3⟩

/-- `query` of the regenerated code on a connected, error-free object, exactly -/
theorem query_gen_exact (fuel : Nat) (hf : 26 ≤ fuel) (req name : List Char) (hasc : PyIO.isAscii req = true)
    (hn : Ebb3.cmdName (Ebb3.strip req) = .ok name) (hne : name ≠ []) (w : World EBB3_Obj) (hg : Good w)
    (hp : w.obj.port = .port) (he : w.obj.err = .none) :
    ∃ w', EBB3_query fuel (.str req) w
        = .val (encVal (queryValue Ebb3.srcParams (Ebb3.strip req) name (firstWrite (absWorld w).dev) (absWorld w).dev.reads)) w' ∧
      absWorld w' = ⟨{ absSt w.obj with err := queryError Ebb3.srcParams (Ebb3.strip req) name (firstWrite (absWorld w).dev) (absWorld w).dev.reads },
        ⟨(absWorld w).dev.reads.drop (Ebb3.usedReads (Ebb3.srcParams.retryQry + 1) (firstWrite (absWorld w).dev) (absWorld w).dev.reads),
         (absWorld w).dev.writes.tail⟩,
        w.port.log ++ [Ebb3.strip req ++ ['\r']],
        w.port.nread + Ebb3.usedReads (Ebb3.srcParams.retryQry + 1) (firstWrite (absWorld w).dev) (absWorld w).dev.reads⟩ ∧
      Good w' := by
  have hs := query_bridge_ascii fuel hf (some req) (fun s hs => by injection hs with hs; rw [← hs]; exact hasc) w hg
  have hr := ready_of_attrs w hp he
  rw [Ebb3.run_query_ready Ebb3.srcParams Ebb3.scriptDev req _ hr] at hs
  have hcore := Ebb3.queryCore_script Ebb3.srcParams (Ebb3.strip req) name hn hne (absSt w.obj) hr.2
    (absWorld w).dev.reads (absWorld w).dev.writes w.port.log w.port.nread
  have hw : absWorld w = ⟨absSt w.obj, ⟨(absWorld w).dev.reads, (absWorld w).dev.writes⟩, w.port.log, w.port.nread⟩ := rfl
  rw [hw, hcore] at hs
  obtain ⟨w', h1, h2, h3⟩ := sim_val hs
  exact ⟨w', h1, h2, h3⟩

theorem usedReads_le (n : Nat) (wo : Ebb3.WriteEv) (reads : List Ebb3.ReadEv) : Ebb3.usedReads n wo reads ≤ n := by
  cases wo
  · exact Ebb3.readsUsed_le n reads
  · simp [Ebb3.usedReads]

theorem err_of_absSt {o o' : EBB3_Obj} (ho' : ObjOk o') {x : Option Ebb3.Str}
    (h : absSt o' = { absSt o with err := x }) : o'.err = encReq x := by
  have he : absOpt o'.err = x := congrArg (·.err) h
  cases x with
  | none => exact absOpt_none ho'.err he
  | some m => exact absOpt_str he

end Ebb3Gen
end Plotink
