import Plotink.Model.PyFloat
import Mathlib.Data.List.TakeWhile
/-! Lemmas about the `str` helpers of `Model/PyFloat.lean` (strip, split, lower, comma replacement).
-/
namespace Plotink
namespace PyFloat

/-! ### split -/

theorem splitGo_spaces (l r : List Char) (hl : ∀ c ∈ l, isPySpace c = true) :
    splitGo (l ++ r) [] = splitGo r [] := by
  induction l with
  | nil => rfl
  | cons c l ih =>
    have hc : isPySpace c = true := hl c (by simp)
    have := ih (fun d hd => hl d (by simp [hd]))
    simp [splitGo, hc, this]

theorem splitGo_tok (tok r cur : List Char) (ht : ∀ c ∈ tok, isPySpace c = false) :
    splitGo (tok ++ r) cur = splitGo r (tok.reverse ++ cur) := by
  induction tok generalizing cur with
  | nil => rfl
  | cons c tok ih =>
    have hc : isPySpace c = false := ht c (by simp)
    have := ih (c :: cur) (fun d hd => ht d (by simp [hd]))
    simp [splitGo, hc, this]

theorem splitGo_trailing (r : List Char) (hr : ∀ c ∈ r, isPySpace c = true) (cur : List Char) :
    splitGo r cur = if cur = [] then [] else [cur.reverse] := by
  induction r generalizing cur with
  | nil => rfl
  | cons c r ih =>
    have hc : isPySpace c = true := hr c (by simp)
    have h0 := ih (fun d hd => hr d (by simp [hd])) []
    by_cases hcur : cur = []
    · simp [splitGo, hc, hcur, h0]
    · simp [splitGo, hc, hcur, h0]

/-- a non-empty token followed by a non-empty run of blanks -/
theorem splitGo_tok_sep (tok sp r : List Char) (hne : tok ≠ []) (ht : ∀ c ∈ tok, isPySpace c = false)
    (hsne : sp ≠ []) (hs : ∀ c ∈ sp, isPySpace c = true) :
    splitGo (tok ++ (sp ++ r)) [] = tok :: splitGo r [] := by
  rw [splitGo_tok tok _ [] ht]
  cases sp with
  | nil => exact absurd rfl hsne
  | cons c sp =>
    have hc : isPySpace c = true := hs c (by simp)
    have hrev : tok.reverse ++ [] ≠ [] := by simp [hne]
    simp only [List.cons_append, splitGo, hc, if_true, hrev, if_false]
    rw [splitGo_spaces sp r (fun d hd => hs d (by simp [hd]))]
    simp

/-- a final token followed only by blanks -/
theorem splitGo_tok_end (tok sp : List Char) (hne : tok ≠ []) (ht : ∀ c ∈ tok, isPySpace c = false)
    (hs : ∀ c ∈ sp, isPySpace c = true) :
    splitGo (tok ++ sp) [] = [tok] := by
  rw [splitGo_tok tok _ [] ht, splitGo_trailing sp hs]
  simp [hne]

/-! ### strip -/

theorem dropWhile_append_of_all {p : Char → Bool} (l r : List Char) (hl : ∀ c ∈ l, p c = true) :
    (l ++ r).dropWhile p = r.dropWhile p := by
  induction l with
  | nil => rfl
  | cons c l ih =>
    have hc : p c = true := hl c (by simp)
    simp [List.dropWhile_cons, hc, ih (fun d hd => hl d (by simp [hd]))]

/-- stripping `l ++ m ++ r` where `l`, `r` consist of strippable characters and `m` neither starts nor
ends with one -/
theorem stripBy_core (p : Char → Bool) (l m r : List Char)
    (hl : ∀ c ∈ l, p c = true) (hr : ∀ c ∈ r, p c = true)
    (hfirst : ∀ c, m.head? = some c → p c = false) (hlast : ∀ c, m.getLast? = some c → p c = false) :
    stripBy p (l ++ (m ++ r)) = m := by
  unfold stripBy
  rw [dropWhile_append_of_all l _ hl]
  cases m with
  | nil =>
    have : ([] ++ r).dropWhile p = [] := by
      rw [List.nil_append, List.dropWhile_eq_nil_iff]; exact hr
    rw [this]; rfl
  | cons c m =>
    have hc : p c = false := hfirst c (by simp)
    have h1 : (c :: m ++ r).dropWhile p = c :: m ++ r := by
      simp [List.dropWhile_cons, hc]
    rw [h1, List.reverse_append,
      dropWhile_append_of_all r.reverse _ (fun d hd => hr d (by simpa using hd))]
    have h2 : (c :: m).reverse.dropWhile p = (c :: m).reverse := by
      cases hrev : (c :: m).reverse with
      | nil => rfl
      | cons d t =>
        have hd : (c :: m).getLast? = some d := by
          rw [List.getLast?_eq_head?_reverse, hrev]; rfl
        simp [List.dropWhile_cons, hlast d hd]
    rw [h2, List.reverse_reverse]

/-- any string is blanks ++ its stripped form ++ blanks -/
theorem stripBy_decomp (p : Char → Bool) (s : List Char) :
    ∃ l r, (∀ c ∈ l, p c = true) ∧ (∀ c ∈ r, p c = true) ∧ s = l ++ (stripBy p s ++ r) := by
  refine ⟨s.takeWhile p, ((s.dropWhile p).reverse.takeWhile p).reverse, ?_, ?_, ?_⟩
  · intro c hc; exact List.mem_takeWhile_imp hc
  · intro c hc
    rw [List.mem_reverse] at hc
    exact List.mem_takeWhile_imp hc
  · unfold stripBy
    rw [← List.reverse_append, List.takeWhile_append_dropWhile, List.reverse_reverse,
      List.takeWhile_append_dropWhile]

end PyFloat
end Plotink
