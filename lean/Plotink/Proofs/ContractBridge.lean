import Plotink.Proofs.Contract
import Plotink.Proofs.ContractIeee
import Plotink.Proofs.ContractT3

/-! The contract assumed by the T3 proofs (C02, C17) is implied by `ContractBasic` (C01's file), hence
it is met by the concrete rounding instance `Rounding.ieee` that the driver executes and that the
correspondence run validates against CPython/mpmath: the hypotheses of C02/C17 are not vacuous for the
arithmetic that is actually modelled. -/
namespace Plotink

theorem T3.rep_iff (p : Nat) (x : Rat) : T3.Rep p x ↔ Rep p x := Iff.rfl

theorem T3.contract_of_basic {R : Rounding} (h : ContractBasic R) : T3.Contract R where
  f64_exact := fun x hx => h.f64_exact x hx
  mp_exact := fun p x hx => h.mp_exact p x hx
  f64_err := h.f64_err
  mp_err := h.mp_err

/-- the IEEE / mpmath round-to-nearest instance satisfies the T3 contract -/
theorem T3.contract_ieee : T3.Contract Rounding.ieee := T3.contract_of_basic contractBasic_ieee

end Plotink
