import Plotink.Gen.rate_t3
import Plotink.Proofs.C02Num

/-! # C02 — `Gen.rate_t3` equals the firmware rate after `T` ticks (numeric bridge + algebra) -/

namespace Plotink
namespace T3
open Py Py.Val Fw

/-- Magnitude envelope under which every binary64 / 103-bit intermediate of `rate_t3` and
`move_dist_t3` is exactly representable or has a negligible error. It is implied by firmware validity
(`envelope_of_valid` in `Proofs/C02Env.lean`); the numeric theorems only use the envelope, so they are
stronger than the property asks. -/
structure EnvT3 (rate accel jerk T : Int) : Prop where
  hT1 : 1 ≤ T
  hT : T ≤ 2 ^ 32
  hr : |rate| ≤ 2 ^ 40
  ha : |accel| ≤ 2 ^ 40
  hj : |jerk| ≤ 2 ^ 40
  haT : |accel| * T ≤ 2 ^ 50
  hjT : |jerk| * T * T ≤ 2 ^ 50

/-- the envelope is inherited by every earlier tick of the same move -/
theorem EnvT3.mono {rate accel jerk T : Int} (h : EnvT3 rate accel jerk T) (k : Int) (hk1 : 1 ≤ k) (hkT : k ≤ T) :
    EnvT3 rate accel jerk k := by
  obtain ⟨hT1, hT, hr, ha, hj, haT, hjT⟩ := h
  have ha0 := abs_nonneg accel
  have hj0 := abs_nonneg jerk
  refine ⟨hk1, le_trans hkT hT, hr, ha, hj, ?_, ?_⟩
  · have : |accel| * k ≤ |accel| * T := mul_le_mul_of_nonneg_left hkT ha0
    linarith
  · have h1 : |jerk| * k ≤ |jerk| * T := mul_le_mul_of_nonneg_left hkT hj0
    have h2 : |jerk| * k * k ≤ |jerk| * T * T :=
      mul_le_mul h1 hkT (by linarith) (by nlinarith)
    linarith

theorem r0_abs (rate accel jerk : Int) : |r0 rate accel jerk| ≤ |rate| + |accel| + |jerk| := by
  unfold r0
  have h1 := tdiv2_abs accel
  have h2 := tdiv6_abs jerk
  have := abs_add_le (rate - tdiv accel 2) (tdiv jerk 6)
  have := abs_sub (rate) (tdiv accel 2)
  linarith

/-- `Gen.rate_t3` on integer arguments inside the envelope returns the firmware rate at tick `T` -/
theorem rate_main {R : Rounding} (hR : Contract R) (amb : Nat) (T rate accel jerk : Int)
    (hE : EnvT3 rate accel jerk T) :
    Gen.rate_t3 R amb (.int T) (.int rate) (.int accel) (.int jerk)
      = .int (t3Rate rate accel jerk T.toNat) := by
  obtain ⟨hT1, hT, hr, ha, hj, haT, hjT⟩ := hE
  have hT0 : T ≠ 0 := by omega
  have hTa : |T| = T := abs_of_nonneg (by omega)
  unfold Gen.rate_t3
  simp only [int_int, eq_int_int, hT0, decide_false, Bool.false_eq_true, ↓reduceIte,
    div_int_int _ _ _ _ (by norm_num : (2:Int) ≠ 0), div_int_int _ _ _ _ (by norm_num : (6:Int) ≠ 0), int_flt,
    sub_int_int, add_int_int, sub_int_flt, mul_flt_int, mul_int_int, add_int_flt, add_flt_flt, round_flt,
    Int.cast_ofNat]
  -- rounding sites, inside out
  have e1 : R.f64 ((accel : Rat) / 2) = (accel : Rat) / 2 :=
    f64_half hR accel (lt_of_le_of_lt ha (by norm_num))
  have e2 := intOfRat_sixth hR jerk (le_trans hj (by norm_num))
  have e3 : R.f64 ((jerk : Rat) / 2) = (jerk : Rat) / 2 :=
    f64_half hR jerk (lt_of_le_of_lt hj (by norm_num))
  rw [e1, intOfRat_half, e2, e3]
  change Val.int (roundHE (R.f64 (R.f64 (((r0 rate accel jerk : Int) : Rat) + _) + _))) = _
  set c : Int := 2 * accel - jerk with hc
  have bc : |c| ≤ 2 ^ 42 := by
    have := abs_sub (2 * accel) jerk
    have : |2 * accel| = 2 * |accel| := by rw [abs_mul]; norm_num
    rw [hc]; linarith
  have e4 : R.f64 ((accel : Rat) - (jerk : Rat) / 2) = (c : Rat) / 2 := by
    have : (accel : Rat) - (jerk : Rat) / 2 = (c : Rat) / 2 := by rw [hc]; push_cast; ring
    rw [this]; exact f64_half hR c (lt_of_le_of_lt bc (by norm_num))
  have bcT : |c * T| ≤ 2 ^ 52 := by
    rw [abs_mul, hTa]
    have h1 : |c| ≤ 2 * |accel| + |jerk| := by
      have := abs_sub (2 * accel) jerk
      have : |2 * accel| = 2 * |accel| := by rw [abs_mul]; norm_num
      rw [hc]; linarith
    have h2 : |c| * T ≤ (2 * |accel| + |jerk|) * T := mul_le_mul_of_nonneg_right h1 (by omega)
    have h3 : |jerk| * T ≤ |jerk| * T * T := by
      have h0 : 0 ≤ |jerk| * T := mul_nonneg (abs_nonneg jerk) (by omega)
      have := mul_le_mul_of_nonneg_left hT1 h0
      linarith
    have h4 : (2 * |accel| + |jerk|) * T = 2 * (|accel| * T) + |jerk| * T := by ring
    linarith
  have e5 : R.f64 ((c : Rat) / 2 * (T : Rat)) = ((c * T : Int) : Rat) / 2 := by
    have : (c : Rat) / 2 * (T : Rat) = ((c * T : Int) : Rat) / 2 := by push_cast; ring
    rw [this]; exact f64_half hR _ (lt_of_le_of_lt bcT (by norm_num))
  have br0 : |r0 rate accel jerk| ≤ 2 ^ 42 := by
    have := r0_abs rate accel jerk
    linarith
  set q : Int := r0 rate accel jerk with hq
  have b6 : |2 * q + c * T| ≤ 2 ^ 43 + 2 ^ 52 := by
    have := abs_add_le (2 * q) (c * T)
    have : |2 * q| = 2 * |q| := by rw [abs_mul]; norm_num
    linarith
  have e6 : R.f64 ((q : Rat) + ((c * T : Int) : Rat) / 2) = ((2 * q + c * T : Int) : Rat) / 2 := by
    have : (q : Rat) + ((c * T : Int) : Rat) / 2 = ((2 * q + c * T : Int) : Rat) / 2 := by push_cast; ring
    rw [this]; exact f64_half hR _ (lt_of_le_of_lt b6 (by norm_num))
  have bj : |jerk * T * T| ≤ 2 ^ 50 := by
    rw [abs_mul, abs_mul, hTa]; exact hjT
  have e7 : R.f64 (((jerk * T * T : Int) : Rat) / 2) = ((jerk * T * T : Int) : Rat) / 2 :=
    f64_half hR _ (lt_of_le_of_lt bj (by norm_num))
  -- the total is twice the firmware rate
  have hTn : ((T.toNat : Nat) : Int) = T := Int.toNat_of_nonneg (by omega)
  have hcl := rate_closed rate accel jerk T.toNat
  rw [hTn, ← hq] at hcl
  set rT := t3Rate rate accel jerk T.toNat with hrT
  have hN : 2 * q + c * T + jerk * T * T = 2 * rT := by rw [hcl, hc]; ring
  have b8 : |2 * rT| ≤ 2 ^ 43 + 2 ^ 52 + 2 ^ 50 := by
    rw [← hN]
    have := abs_add_le (2 * q + c * T) (jerk * T * T)
    linarith
  have brT : |rT| < 2 ^ 53 := by
    have : |2 * rT| = 2 * |rT| := by rw [abs_mul]; norm_num
    have := abs_nonneg rT
    linarith
  have e8 : R.f64 (((2 * q + c * T : Int) : Rat) / 2 + ((jerk * T * T : Int) : Rat) / 2) = (rT : Rat) := by
    have : ((2 * q + c * T : Int) : Rat) / 2 + ((jerk * T * T : Int) : Rat) / 2 = (rT : Rat) := by
      have : ((2 * q + c * T + jerk * T * T : Int) : Rat) = ((2 * rT : Int) : Rat) := by rw [hN]
      push_cast at this ⊢
      linarith
    rw [this]; exact f64_int hR _ brT
  rw [e4, e5, e6, e7, e8, roundHE_int]

end T3
end Plotink
