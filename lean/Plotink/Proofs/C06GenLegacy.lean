import Plotink.Proofs.C06GenBase
import Plotink.Gen.ebb_motion_doABMove
import Plotink.Gen.ebb_motion_doXYMove
import Plotink.Gen.ebb_motion_sendDisableMotors
import Plotink.Gen.ebb_motion_PBOutValue
import Plotink.Gen.ebb_motion_TogglePen
import Plotink.Gen.ebb_motion_setPenDownPos
import Plotink.Gen.ebb_motion_setPenUpPos
import Plotink.Gen.ebb_motion_setPenDownRate
import Plotink.Gen.ebb_motion_setPenUpRate
import Plotink.Gen.ebb_motion_setEBBLV
import Plotink.Gen.ebb_motion_sendEnableMotors
import Plotink.Gen.ebb_motion_doAbsMove
import Plotink.Gen.ebb_motion_sendPenDown
import Plotink.Gen.ebb_motion_sendPenUp
import Plotink.Gen.ebb_motion_doLowLevelMove
import Plotink.Gen.ebb_motion_PBOutConfig
import Plotink.Gen.ebb_motion_doTimedPause
/-! # C06 over the regenerated code, part 2: the legacy helpers (`plotink/ebb_motion.py`) -/
namespace Plotink
namespace C06Gen
open PyObj Gen
set_option linter.unusedSimpArgs false
set_option linter.unusedVariables false

/-- the port argument of a legacy helper -/
def encPort (present : Bool) : Val := if present then .port else .none
/-- the call ended (value or escaping exception, never out of fuel) and the write log grew by exactly the wire texts
of `cs` -/
def Wrote (o : Out NoObj) (w : World NoObj) (cs : Option (List C06.Cmd)) : Prop :=
  ∃ w', outWorld o = some w' ∧ w'.port.log = w.port.log ++ (cs.getD []).map (fun c => c.wire.toList)

/-- a helper whose body comes down to transmitting one text -/
theorem run_send {σ : Type} (fuel : Nat) (hf : 101 ≤ fuel) (main : Stmt NoObj σ) (env env1 : σ) (w : World NoObj)
    (n : String) (l : List Int) (hn : PyIO.isAscii n.toList = true) (vb : Val) (hio : C07Gen.IoScript w.port)
    (hmain : main fuel env w =
      expr (fun _ _ => ioCall3 (ebb_serial_command fuel) (ok .port) (ok (.str (C06.Cmd.wire ⟨n, l⟩).toList)) (ok vb)) fuel env1 w) :
    Wrote (run main fuel env w) w (some [⟨n, l⟩]) := by
  obtain ⟨p', hl, _, h | ⟨cl, h⟩⟩ := ioCommand_io fuel hf (C06.Cmd.wire ⟨n, l⟩).toList (isAscii_wire n l hn) vb w hio
  · refine ⟨{ w with port := p' }, ?_, by simpa using hl⟩
    rw [run, hmain, expr_of h]; rfl
  · refine ⟨{ w with port := p' }, ?_, by simpa using hl⟩
    rw [run, hmain, expr_exc h]; rfl


/-- `doXYMove`: `SM,<dur>,<dy>,<dx>` -/
theorem doXYMove_bridge (fuel : Nat) (hf : 101 ≤ fuel) (present fwOk : Bool) (dx : Int) (dy : Int) (dur : Int) (vb : Val)
    (w : World NoObj) (hio : C07Gen.IoScript w.port) :
    Wrote (ebb_motion_doXYMove fuel (encPort present) (.int dx) (.int dy) (.int dur) vb w) w
      (C06.legacyEmit present fwOk (.xyMove dx dy dur)) := by
  unfold ebb_motion_doXYMove ebb_motion_doXYMove_main ebb_motion_doXYMove_if1
  cases present with
  | false =>
    refine ⟨w, ?_, ?_⟩
    · simp only [PyObj.run, encPort, encOpt, ifte, ↓reduceIte, app1_ok, op_is_not_none, op_is_none, isNone, ofP_ok, ok_apply, truthy_bool, Bool.not_false, Bool.not_true, Bool.false_eq_true, block_cons2, block_one, seq, assign, expr, load_str, load_int, pass, outWorld, LegacyGen.outWorld]
    · simp [C06.legacyEmit, C06.legacyEmitWith]
  | true =>
    have htext : (format_ [FmtPart.lit ['S', 'M', ','], FmtPart.arg 0, FmtPart.lit [','], FmtPart.arg 1, FmtPart.lit [','], FmtPart.arg 2, FmtPart.lit ['\r']] [ok (.int dur), ok (.int dy), ok (.int dx)] : Eff NoObj)
        = ok (.str (C06.Cmd.wire ⟨"SM", [dur, dy, dx]⟩).toList) := by
      simp only [format_, evalList_cons_ok, evalList_nil, renderFmt, List.getElem?_cons_zero, List.getElem?_cons_succ, Option.map_some, strOf, wire_toList, argChars, showInt_0, showInt_1, showInt_4, showInt_5, showInt_11, showInt_12, List.cons_append, List.nil_append, List.append_assoc, List.append_nil, lit_SM]
    simp only [C06.legacyEmit, C06.legacyEmitWith, ↓reduceIte]
    refine run_send fuel hf _ _ ⟨.port, .int dx, .int dy, .int dur, vb, .str (C06.Cmd.wire ⟨"SM", [dur, dy, dx]⟩).toList⟩ w "SM" [dur, dy, dx] (by decide) vb hio ?_
    simp only [encPort, encOpt, ifte, ↓reduceIte, app1_ok, op_is_not_none, op_is_none, isNone, ofP_ok, ok_apply, truthy_bool, Bool.not_false, Bool.not_true, Bool.false_eq_true, block_cons2, block_one, seq, assign, expr, load_str, load_int, pass, htext]

/-- `doABMove`: `XM,<dur>,<a>,<b>` -/
theorem doABMove_bridge (fuel : Nat) (hf : 101 ≤ fuel) (present fwOk : Bool) (da : Int) (db : Int) (dur : Int) (vb : Val)
    (w : World NoObj) (hio : C07Gen.IoScript w.port) :
    Wrote (ebb_motion_doABMove fuel (encPort present) (.int da) (.int db) (.int dur) vb w) w
      (C06.legacyEmit present fwOk (.abMove da db dur)) := by
  unfold ebb_motion_doABMove ebb_motion_doABMove_main ebb_motion_doABMove_if1
  cases present with
  | false =>
    refine ⟨w, ?_, ?_⟩
    · simp only [PyObj.run, encPort, encOpt, ifte, ↓reduceIte, app1_ok, op_is_not_none, op_is_none, isNone, ofP_ok, ok_apply, truthy_bool, Bool.not_false, Bool.not_true, Bool.false_eq_true, block_cons2, block_one, seq, assign, expr, load_str, load_int, pass, outWorld, LegacyGen.outWorld]
    · simp [C06.legacyEmit, C06.legacyEmitWith]
  | true =>
    have htext : (format_ [FmtPart.lit ['X', 'M', ','], FmtPart.arg 0, FmtPart.lit [','], FmtPart.arg 1, FmtPart.lit [','], FmtPart.arg 2, FmtPart.lit ['\r']] [ok (.int dur), ok (.int da), ok (.int db)] : Eff NoObj)
        = ok (.str (C06.Cmd.wire ⟨"XM", [dur, da, db]⟩).toList) := by
      simp only [format_, evalList_cons_ok, evalList_nil, renderFmt, List.getElem?_cons_zero, List.getElem?_cons_succ, Option.map_some, strOf, wire_toList, argChars, showInt_0, showInt_1, showInt_4, showInt_5, showInt_11, showInt_12, List.cons_append, List.nil_append, List.append_assoc, List.append_nil, lit_XM]
    simp only [C06.legacyEmit, C06.legacyEmitWith, ↓reduceIte]
    refine run_send fuel hf _ _ ⟨.port, .int da, .int db, .int dur, vb, .str (C06.Cmd.wire ⟨"XM", [dur, da, db]⟩).toList⟩ w "XM" [dur, da, db] (by decide) vb hio ?_
    simp only [encPort, encOpt, ifte, ↓reduceIte, app1_ok, op_is_not_none, op_is_none, isNone, ofP_ok, ok_apply, truthy_bool, Bool.not_false, Bool.not_true, Bool.false_eq_true, block_cons2, block_one, seq, assign, expr, load_str, load_int, pass, htext]

/-- `sendDisableMotors`: `EM,0,0` -/
theorem sendDisableMotors_bridge (fuel : Nat) (hf : 101 ≤ fuel) (present fwOk : Bool)  (vb : Val)
    (w : World NoObj) (hio : C07Gen.IoScript w.port) :
    Wrote (ebb_motion_sendDisableMotors fuel (encPort present)  vb w) w
      (C06.legacyEmit present fwOk (.disable)) := by
  unfold ebb_motion_sendDisableMotors ebb_motion_sendDisableMotors_main ebb_motion_sendDisableMotors_if1
  cases present with
  | false =>
    refine ⟨w, ?_, ?_⟩
    · simp only [PyObj.run, encPort, encOpt, ifte, ↓reduceIte, app1_ok, op_is_not_none, op_is_none, isNone, ofP_ok, ok_apply, truthy_bool, Bool.not_false, Bool.not_true, Bool.false_eq_true, block_cons2, block_one, seq, assign, expr, load_str, load_int, pass, outWorld, LegacyGen.outWorld]
    · simp [C06.legacyEmit, C06.legacyEmitWith]
  | true =>
    have htext : ['E', 'M', ',', '0', ',', '0', '\r'] = (C06.Cmd.wire ⟨"EM", [0, 0]⟩).toList := by
      simp only [format_, evalList_cons_ok, evalList_nil, renderFmt, List.getElem?_cons_zero, List.getElem?_cons_succ, Option.map_some, strOf, wire_toList, argChars, showInt_0, showInt_1, showInt_4, showInt_5, showInt_11, showInt_12, List.cons_append, List.nil_append, List.append_assoc, List.append_nil, lit_EM]
    simp only [C06.legacyEmit, C06.legacyEmitWith, ↓reduceIte]
    refine run_send fuel hf _ _ ⟨.port, vb⟩ w "EM" [0, 0] (by decide) vb hio ?_
    simp only [encPort, encOpt, ifte, ↓reduceIte, app1_ok, op_is_not_none, op_is_none, isNone, ofP_ok, ok_apply, truthy_bool, Bool.not_false, Bool.not_true, Bool.false_eq_true, block_cons2, block_one, seq, assign, expr, load_str, load_int, pass, htext]

/-- `PBOutValue`: `PO,B,<pin>,<state>` -/
theorem PBOutValue_bridge (fuel : Nat) (hf : 101 ≤ fuel) (present fwOk : Bool) (pin : Int) (state : Int) (vb : Val)
    (w : World NoObj) (hio : C07Gen.IoScript w.port) :
    Wrote (ebb_motion_PBOutValue fuel (encPort present) (.int pin) (.int state) vb w) w
      (C06.legacyEmit present fwOk (.pbSet pin state)) := by
  unfold ebb_motion_PBOutValue ebb_motion_PBOutValue_main ebb_motion_PBOutValue_if1
  cases present with
  | false =>
    refine ⟨w, ?_, ?_⟩
    · simp only [PyObj.run, encPort, encOpt, ifte, ↓reduceIte, app1_ok, op_is_not_none, op_is_none, isNone, ofP_ok, ok_apply, truthy_bool, Bool.not_false, Bool.not_true, Bool.false_eq_true, block_cons2, block_one, seq, assign, expr, load_str, load_int, pass, outWorld, LegacyGen.outWorld]
    · simp [C06.legacyEmit, C06.legacyEmitWith]
  | true =>
    have htext : (format_ [FmtPart.lit ['P', 'O', ',', 'B', ','], FmtPart.arg 0, FmtPart.lit [','], FmtPart.arg 1, FmtPart.lit ['\r']] [ok (.int pin), ok (.int state)] : Eff NoObj)
        = ok (.str (C06.Cmd.wire ⟨"PO,B", [pin, state]⟩).toList) := by
      simp only [format_, evalList_cons_ok, evalList_nil, renderFmt, List.getElem?_cons_zero, List.getElem?_cons_succ, Option.map_some, strOf, wire_toList, argChars, showInt_0, showInt_1, showInt_4, showInt_5, showInt_11, showInt_12, List.cons_append, List.nil_append, List.append_assoc, List.append_nil, lit_PO_B]
    simp only [C06.legacyEmit, C06.legacyEmitWith, ↓reduceIte]
    refine run_send fuel hf _ _ ⟨.port, .int pin, .int state, vb, .str (C06.Cmd.wire ⟨"PO,B", [pin, state]⟩).toList⟩ w "PO,B" [pin, state] (by decide) vb hio ?_
    simp only [encPort, encOpt, ifte, ↓reduceIte, app1_ok, op_is_not_none, op_is_none, isNone, ofP_ok, ok_apply, truthy_bool, Bool.not_false, Bool.not_true, Bool.false_eq_true, block_cons2, block_one, seq, assign, expr, load_str, load_int, pass, htext]

/-- `TogglePen`: `TP` -/
theorem TogglePen_bridge (fuel : Nat) (hf : 101 ≤ fuel) (present fwOk : Bool)  (vb : Val)
    (w : World NoObj) (hio : C07Gen.IoScript w.port) :
    Wrote (ebb_motion_TogglePen fuel (encPort present)  vb w) w
      (C06.legacyEmit present fwOk (.togglePen)) := by
  unfold ebb_motion_TogglePen ebb_motion_TogglePen_main ebb_motion_TogglePen_if1
  cases present with
  | false =>
    refine ⟨w, ?_, ?_⟩
    · simp only [PyObj.run, encPort, encOpt, ifte, ↓reduceIte, app1_ok, op_is_not_none, op_is_none, isNone, ofP_ok, ok_apply, truthy_bool, Bool.not_false, Bool.not_true, Bool.false_eq_true, block_cons2, block_one, seq, assign, expr, load_str, load_int, pass, outWorld, LegacyGen.outWorld]
    · simp [C06.legacyEmit, C06.legacyEmitWith]
  | true =>
    have htext : ['T', 'P', '\r'] = (C06.Cmd.wire ⟨"TP", []⟩).toList := by
      simp only [format_, evalList_cons_ok, evalList_nil, renderFmt, List.getElem?_cons_zero, List.getElem?_cons_succ, Option.map_some, strOf, wire_toList, argChars, showInt_0, showInt_1, showInt_4, showInt_5, showInt_11, showInt_12, List.cons_append, List.nil_append, List.append_assoc, List.append_nil, lit_TP]
    simp only [C06.legacyEmit, C06.legacyEmitWith, ↓reduceIte]
    refine run_send fuel hf _ _ ⟨.port, vb⟩ w "TP" [] (by decide) vb hio ?_
    simp only [encPort, encOpt, ifte, ↓reduceIte, app1_ok, op_is_not_none, op_is_none, isNone, ofP_ok, ok_apply, truthy_bool, Bool.not_false, Bool.not_true, Bool.false_eq_true, block_cons2, block_one, seq, assign, expr, load_str, load_int, pass, htext]

/-- `setPenDownPos`: `SC,5,<v>` -/
theorem setPenDownPos_bridge (fuel : Nat) (hf : 101 ≤ fuel) (present fwOk : Bool) (v : Int) (vb : Val)
    (w : World NoObj) (hio : C07Gen.IoScript w.port) :
    Wrote (ebb_motion_setPenDownPos fuel (encPort present) (.int v) vb w) w
      (C06.legacyEmit present fwOk (.penPosDown v)) := by
  unfold ebb_motion_setPenDownPos ebb_motion_setPenDownPos_main ebb_motion_setPenDownPos_if1
  cases present with
  | false =>
    refine ⟨w, ?_, ?_⟩
    · simp only [PyObj.run, encPort, encOpt, ifte, ↓reduceIte, app1_ok, op_is_not_none, op_is_none, isNone, ofP_ok, ok_apply, truthy_bool, Bool.not_false, Bool.not_true, Bool.false_eq_true, block_cons2, block_one, seq, assign, expr, load_str, load_int, pass, outWorld, LegacyGen.outWorld]
    · simp [C06.legacyEmit, C06.legacyEmitWith]
  | true =>
    have htext : (format_ [FmtPart.lit ['S', 'C', ',', '5', ','], FmtPart.arg 0, FmtPart.lit ['\r']] [ok (.int v)] : Eff NoObj)
        = ok (.str (C06.Cmd.wire ⟨"SC", [5, v]⟩).toList) := by
      simp only [format_, evalList_cons_ok, evalList_nil, renderFmt, List.getElem?_cons_zero, List.getElem?_cons_succ, Option.map_some, strOf, wire_toList, argChars, showInt_0, showInt_1, showInt_4, showInt_5, showInt_11, showInt_12, List.cons_append, List.nil_append, List.append_assoc, List.append_nil, lit_SC]
    simp only [C06.legacyEmit, C06.legacyEmitWith, ↓reduceIte]
    refine run_send fuel hf _ _ ⟨.port, .int v, vb⟩ w "SC" [5, v] (by decide) vb hio ?_
    simp only [encPort, encOpt, ifte, ↓reduceIte, app1_ok, op_is_not_none, op_is_none, isNone, ofP_ok, ok_apply, truthy_bool, Bool.not_false, Bool.not_true, Bool.false_eq_true, block_cons2, block_one, seq, assign, expr, load_str, load_int, pass, htext]

/-- `setPenUpPos`: `SC,4,<v>` -/
theorem setPenUpPos_bridge (fuel : Nat) (hf : 101 ≤ fuel) (present fwOk : Bool) (v : Int) (vb : Val)
    (w : World NoObj) (hio : C07Gen.IoScript w.port) :
    Wrote (ebb_motion_setPenUpPos fuel (encPort present) (.int v) vb w) w
      (C06.legacyEmit present fwOk (.penPosUp v)) := by
  unfold ebb_motion_setPenUpPos ebb_motion_setPenUpPos_main ebb_motion_setPenUpPos_if1
  cases present with
  | false =>
    refine ⟨w, ?_, ?_⟩
    · simp only [PyObj.run, encPort, encOpt, ifte, ↓reduceIte, app1_ok, op_is_not_none, op_is_none, isNone, ofP_ok, ok_apply, truthy_bool, Bool.not_false, Bool.not_true, Bool.false_eq_true, block_cons2, block_one, seq, assign, expr, load_str, load_int, pass, outWorld, LegacyGen.outWorld]
    · simp [C06.legacyEmit, C06.legacyEmitWith]
  | true =>
    have htext : (format_ [FmtPart.lit ['S', 'C', ',', '4', ','], FmtPart.arg 0, FmtPart.lit ['\r']] [ok (.int v)] : Eff NoObj)
        = ok (.str (C06.Cmd.wire ⟨"SC", [4, v]⟩).toList) := by
      simp only [format_, evalList_cons_ok, evalList_nil, renderFmt, List.getElem?_cons_zero, List.getElem?_cons_succ, Option.map_some, strOf, wire_toList, argChars, showInt_0, showInt_1, showInt_4, showInt_5, showInt_11, showInt_12, List.cons_append, List.nil_append, List.append_assoc, List.append_nil, lit_SC]
    simp only [C06.legacyEmit, C06.legacyEmitWith, ↓reduceIte]
    refine run_send fuel hf _ _ ⟨.port, .int v, vb⟩ w "SC" [4, v] (by decide) vb hio ?_
    simp only [encPort, encOpt, ifte, ↓reduceIte, app1_ok, op_is_not_none, op_is_none, isNone, ofP_ok, ok_apply, truthy_bool, Bool.not_false, Bool.not_true, Bool.false_eq_true, block_cons2, block_one, seq, assign, expr, load_str, load_int, pass, htext]

/-- `setPenDownRate`: `SC,12,<v>` -/
theorem setPenDownRate_bridge (fuel : Nat) (hf : 101 ≤ fuel) (present fwOk : Bool) (v : Int) (vb : Val)
    (w : World NoObj) (hio : C07Gen.IoScript w.port) :
    Wrote (ebb_motion_setPenDownRate fuel (encPort present) (.int v) vb w) w
      (C06.legacyEmit present fwOk (.penRateDown v)) := by
  unfold ebb_motion_setPenDownRate ebb_motion_setPenDownRate_main ebb_motion_setPenDownRate_if1
  cases present with
  | false =>
    refine ⟨w, ?_, ?_⟩
    · simp only [PyObj.run, encPort, encOpt, ifte, ↓reduceIte, app1_ok, op_is_not_none, op_is_none, isNone, ofP_ok, ok_apply, truthy_bool, Bool.not_false, Bool.not_true, Bool.false_eq_true, block_cons2, block_one, seq, assign, expr, load_str, load_int, pass, outWorld, LegacyGen.outWorld]
    · simp [C06.legacyEmit, C06.legacyEmitWith]
  | true =>
    have htext : (format_ [FmtPart.lit ['S', 'C', ',', '1', '2', ','], FmtPart.arg 0, FmtPart.lit ['\r']] [ok (.int v)] : Eff NoObj)
        = ok (.str (C06.Cmd.wire ⟨"SC", [12, v]⟩).toList) := by
      simp only [format_, evalList_cons_ok, evalList_nil, renderFmt, List.getElem?_cons_zero, List.getElem?_cons_succ, Option.map_some, strOf, wire_toList, argChars, showInt_0, showInt_1, showInt_4, showInt_5, showInt_11, showInt_12, List.cons_append, List.nil_append, List.append_assoc, List.append_nil, lit_SC]
    simp only [C06.legacyEmit, C06.legacyEmitWith, ↓reduceIte]
    refine run_send fuel hf _ _ ⟨.port, .int v, vb⟩ w "SC" [12, v] (by decide) vb hio ?_
    simp only [encPort, encOpt, ifte, ↓reduceIte, app1_ok, op_is_not_none, op_is_none, isNone, ofP_ok, ok_apply, truthy_bool, Bool.not_false, Bool.not_true, Bool.false_eq_true, block_cons2, block_one, seq, assign, expr, load_str, load_int, pass, htext]

/-- `setPenUpRate`: `SC,11,<v>` -/
theorem setPenUpRate_bridge (fuel : Nat) (hf : 101 ≤ fuel) (present fwOk : Bool) (v : Int) (vb : Val)
    (w : World NoObj) (hio : C07Gen.IoScript w.port) :
    Wrote (ebb_motion_setPenUpRate fuel (encPort present) (.int v) vb w) w
      (C06.legacyEmit present fwOk (.penRateUp v)) := by
  unfold ebb_motion_setPenUpRate ebb_motion_setPenUpRate_main ebb_motion_setPenUpRate_if1
  cases present with
  | false =>
    refine ⟨w, ?_, ?_⟩
    · simp only [PyObj.run, encPort, encOpt, ifte, ↓reduceIte, app1_ok, op_is_not_none, op_is_none, isNone, ofP_ok, ok_apply, truthy_bool, Bool.not_false, Bool.not_true, Bool.false_eq_true, block_cons2, block_one, seq, assign, expr, load_str, load_int, pass, outWorld, LegacyGen.outWorld]
    · simp [C06.legacyEmit, C06.legacyEmitWith]
  | true =>
    have htext : (format_ [FmtPart.lit ['S', 'C', ',', '1', '1', ','], FmtPart.arg 0, FmtPart.lit ['\r']] [ok (.int v)] : Eff NoObj)
        = ok (.str (C06.Cmd.wire ⟨"SC", [11, v]⟩).toList) := by
      simp only [format_, evalList_cons_ok, evalList_nil, renderFmt, List.getElem?_cons_zero, List.getElem?_cons_succ, Option.map_some, strOf, wire_toList, argChars, showInt_0, showInt_1, showInt_4, showInt_5, showInt_11, showInt_12, List.cons_append, List.nil_append, List.append_assoc, List.append_nil, lit_SC]
    simp only [C06.legacyEmit, C06.legacyEmitWith, ↓reduceIte]
    refine run_send fuel hf _ _ ⟨.port, .int v, vb⟩ w "SC" [11, v] (by decide) vb hio ?_
    simp only [encPort, encOpt, ifte, ↓reduceIte, app1_ok, op_is_not_none, op_is_none, isNone, ofP_ok, ok_apply, truthy_bool, Bool.not_false, Bool.not_true, Bool.false_eq_true, block_cons2, block_one, seq, assign, expr, load_str, load_int, pass, htext]

/-- `setEBBLV`: `SL,<v>` -/
theorem setEBBLV_bridge (fuel : Nat) (hf : 101 ≤ fuel) (present fwOk : Bool) (v : Int) (vb : Val)
    (w : World NoObj) (hio : C07Gen.IoScript w.port) :
    Wrote (ebb_motion_setEBBLV fuel (encPort present) (.int v) vb w) w
      (C06.legacyEmit present fwOk (.setLayer v)) := by
  unfold ebb_motion_setEBBLV ebb_motion_setEBBLV_main ebb_motion_setEBBLV_if1
  cases present with
  | false =>
    refine ⟨w, ?_, ?_⟩
    · simp only [PyObj.run, encPort, encOpt, ifte, ↓reduceIte, app1_ok, op_is_not_none, op_is_none, isNone, ofP_ok, ok_apply, truthy_bool, Bool.not_false, Bool.not_true, Bool.false_eq_true, block_cons2, block_one, seq, assign, expr, load_str, load_int, pass, outWorld, LegacyGen.outWorld]
    · simp [C06.legacyEmit, C06.legacyEmitWith]
  | true =>
    have htext : (format_ [FmtPart.lit ['S', 'L', ','], FmtPart.arg 0, FmtPart.lit ['\r']] [ok (.int v)] : Eff NoObj)
        = ok (.str (C06.Cmd.wire ⟨"SL", [v]⟩).toList) := by
      simp only [format_, evalList_cons_ok, evalList_nil, renderFmt, List.getElem?_cons_zero, List.getElem?_cons_succ, Option.map_some, strOf, wire_toList, argChars, showInt_0, showInt_1, showInt_4, showInt_5, showInt_11, showInt_12, List.cons_append, List.nil_append, List.append_assoc, List.append_nil, lit_SL]
    simp only [C06.legacyEmit, C06.legacyEmitWith, ↓reduceIte]
    refine run_send fuel hf _ _ ⟨.port, .int v, vb⟩ w "SL" [v] (by decide) vb hio ?_
    simp only [encPort, encOpt, ifte, ↓reduceIte, app1_ok, op_is_not_none, op_is_none, isNone, ofP_ok, ok_apply, truthy_bool, Bool.not_false, Bool.not_true, Bool.false_eq_true, block_cons2, block_one, seq, assign, expr, load_str, load_int, pass, htext]


/-! ## clamp, optional arguments, suppression -/

theorem b_max2_int0 (r : Int) : b_max2 (.int r) (.int 0) = .ok (.int (max r 0)) := by
  unfold b_max2 ltVal
  simp only [intOf]
  by_cases h : r < 0
  · have : max r 0 = 0 := by omega
    simp [h, this]
  · have : max r 0 = r := by omega
    simp [h, this]

theorem b_min2_int5 (x : Int) : b_min2 (.int x) (.int 5) = .ok (.int (min x 5)) := by
  unfold b_min2 ltVal
  simp only [intOf]
  by_cases h : 5 < x
  · have : min x 5 = 5 := by omega
    simp [h, this]
  · have : min x 5 = x := by omega
    simp [h, this]

/-- `sendEnableMotors`: `EM,<c>,<c>` with `c = min(max(res, 0), 5)` -/
theorem sendEnableMotors_bridge (fuel : Nat) (hf : 101 ≤ fuel) (present fwOk : Bool) (r : Int) (vb : Val)
    (w : World NoObj) (hio : C07Gen.IoScript w.port) :
    Wrote (ebb_motion_sendEnableMotors fuel (encPort present) (.int r) vb w) w
      (C06.legacyEmit present fwOk (.enable r r)) := by
  unfold ebb_motion_sendEnableMotors ebb_motion_sendEnableMotors_main ebb_motion_sendEnableMotors_if1
  cases present with
  | false =>
    refine ⟨w, ?_, ?_⟩
    · simp only [PyObj.run, encPort, encOpt, ifte, ↓reduceIte, app1_ok, op_is_not_none, op_is_none, isNone, ofP_ok, ok_apply, truthy_bool, Bool.not_false, Bool.not_true, Bool.false_eq_true, block_cons2, block_one, seq, assign, expr, load_str, load_int, pass, and_ok, or_ok, app2_ok, b_max2_int0, b_min2_int5, outWorld, LegacyGen.outWorld]
    · simp [C06.legacyEmit, C06.legacyEmitWith]
  | true =>
    have htext : (format_ [FmtPart.lit ['E', 'M', ','], FmtPart.arg 0, FmtPart.lit [','], FmtPart.arg 0, FmtPart.lit ['\r']]
        [ok (.int (min (max r 0) 5))] : Eff NoObj)
        = ok (.str (C06.Cmd.wire ⟨"EM", [min (max r 0) 5, min (max r 0) 5]⟩).toList) := by
      simp only [format_, evalList_cons_ok, evalList_nil, renderFmt, List.getElem?_cons_zero, List.getElem?_cons_succ, Option.map_some, strOf, wire_toList, argChars, showInt_0, showInt_1, showInt_4, showInt_5, showInt_11, showInt_12, List.cons_append, List.nil_append, List.append_assoc, List.append_nil, lit_EM]
    simp only [C06.legacyEmit, C06.legacyEmitWith, ↓reduceIte, C06.clampRes]
    refine run_send fuel hf _ _ ⟨.port, .int (min (max r 0) 5), vb⟩ w "EM" [min (max r 0) 5, min (max r 0) 5] (by decide) vb hio ?_
    simp only [encPort, encOpt, ifte, ↓reduceIte, app1_ok, op_is_not_none, op_is_none, isNone, ofP_ok, ok_apply, truthy_bool, Bool.not_false, Bool.not_true, Bool.false_eq_true, block_cons2, block_one, seq, assign, expr, load_str, load_int, pass, and_ok, or_ok, app2_ok, b_max2_int0, b_min2_int5, htext]

/-- `doAbsMove`: `HM,<rate>,<p1>,<p2>` when both positions are supplied (zero included), else `HM,<rate>` -/
theorem doAbsMove_bridge (fuel : Nat) (hf : 101 ≤ fuel) (present fwOk : Bool) (rate : Int) (p1 p2 : Option Int) (vb : Val)
    (w : World NoObj) (hio : C07Gen.IoScript w.port) :
    Wrote (ebb_motion_doAbsMove fuel (encPort present) (.int rate) (encOpt p1) (encOpt p2) vb w) w
      (C06.legacyEmit present fwOk (.absMove rate p1 p2)) := by
  unfold ebb_motion_doAbsMove ebb_motion_doAbsMove_main ebb_motion_doAbsMove_if1 ebb_motion_doAbsMove_if2
  cases present with
  | false =>
    refine ⟨w, ?_, ?_⟩
    · simp only [PyObj.run, encPort, encOpt, ifte, ↓reduceIte, app1_ok, op_is_not_none, op_is_none, isNone, ofP_ok, ok_apply, truthy_bool, Bool.not_false, Bool.not_true, Bool.false_eq_true, block_cons2, block_one, seq, assign, expr, load_str, load_int, pass, and_ok, or_ok, outWorld, LegacyGen.outWorld]
    · simp [C06.legacyEmit, C06.legacyEmitWith]
  | true =>
    have hhome : (format_ [FmtPart.lit ['H', 'M', ','], FmtPart.arg 0, FmtPart.lit ['\r']] [ok (.int rate)] : Eff NoObj)
        = ok (.str (C06.Cmd.wire ⟨"HM", [rate]⟩).toList) := by
      simp only [format_, evalList_cons_ok, evalList_nil, renderFmt, List.getElem?_cons_zero, List.getElem?_cons_succ, Option.map_some, strOf, wire_toList, argChars, showInt_0, showInt_1, showInt_4, showInt_5, showInt_11, showInt_12, List.cons_append, List.nil_append, List.append_assoc, List.append_nil, lit_HM]
    cases p1 with
    | none =>
      have e : C06.legacyEmit true fwOk (.absMove rate Option.none p2) = some [⟨"HM", [rate]⟩] := by
        cases p2 <;> simp [C06.legacyEmit, C06.legacyEmitWith, C06.present]
      rw [e]
      refine run_send fuel hf _ _ ⟨.port, .int rate, .none, encOpt p2, vb, .str (C06.Cmd.wire ⟨"HM", [rate]⟩).toList⟩ w "HM" [rate] (by decide) vb hio ?_
      simp only [encPort, encOpt, ifte, ↓reduceIte, app1_ok, op_is_not_none, op_is_none, isNone, ofP_ok, ok_apply, truthy_bool, Bool.not_false, Bool.not_true, Bool.false_eq_true, block_cons2, block_one, seq, assign, expr, load_str, load_int, pass, and_ok, or_ok, hhome]
    | some a =>
      cases p2 with
      | none =>
        have e : C06.legacyEmit true fwOk (.absMove rate (some a) Option.none) = some [⟨"HM", [rate]⟩] := by
          simp [C06.legacyEmit, C06.legacyEmitWith, C06.present]
        rw [e]
        refine run_send fuel hf _ _ ⟨.port, .int rate, .int a, .none, vb, .str (C06.Cmd.wire ⟨"HM", [rate]⟩).toList⟩ w "HM" [rate] (by decide) vb hio ?_
        simp only [encPort, encOpt, ifte, ↓reduceIte, app1_ok, op_is_not_none, op_is_none, isNone, ofP_ok, ok_apply, truthy_bool, Bool.not_false, Bool.not_true, Bool.false_eq_true, block_cons2, block_one, seq, assign, expr, load_str, load_int, pass, and_ok, or_ok, hhome]
      | some b =>
        have htext : (format_ [FmtPart.lit ['H', 'M', ','], FmtPart.arg 0, FmtPart.lit [','], FmtPart.arg 1, FmtPart.lit [','],
            FmtPart.arg 2, FmtPart.lit ['\r']] [ok (.int rate), ok (.int a), ok (.int b)] : Eff NoObj)
            = ok (.str (C06.Cmd.wire ⟨"HM", [rate, a, b]⟩).toList) := by
          simp only [format_, evalList_cons_ok, evalList_nil, renderFmt, List.getElem?_cons_zero, List.getElem?_cons_succ, Option.map_some, strOf, wire_toList, argChars, showInt_0, showInt_1, showInt_4, showInt_5, showInt_11, showInt_12, List.cons_append, List.nil_append, List.append_assoc, List.append_nil, lit_HM]
        have e : C06.legacyEmit true fwOk (.absMove rate (some a) (some b)) = some [⟨"HM", [rate, a, b]⟩] := by
          simp [C06.legacyEmit, C06.legacyEmitWith, C06.present]
        rw [e]
        refine run_send fuel hf _ _ ⟨.port, .int rate, .int a, .int b, vb, .str (C06.Cmd.wire ⟨"HM", [rate, a, b]⟩).toList⟩ w "HM" [rate, a, b] (by decide) vb hio ?_
        simp only [encPort, encOpt, ifte, ↓reduceIte, app1_ok, op_is_not_none, op_is_none, isNone, ofP_ok, ok_apply, truthy_bool, Bool.not_false, Bool.not_true, Bool.false_eq_true, block_cons2, block_one, seq, assign, expr, load_str, load_int, pass, and_ok, or_ok, htext]

/-- `sendPenDown`: `SP,0,<delay>[,<pin>]` — the pin whenever it is supplied (zero included) -/
theorem sendPenDown_bridge (fuel : Nat) (hf : 101 ≤ fuel) (present fwOk : Bool) (delay : Int) (pin : Option Int) (vb : Val)
    (w : World NoObj) (hio : C07Gen.IoScript w.port) :
    Wrote (ebb_motion_sendPenDown fuel (encPort present) (.int delay) (encOpt pin) vb w) w
      (C06.legacyEmit present fwOk (.penDown delay pin)) := by
  unfold ebb_motion_sendPenDown ebb_motion_sendPenDown_main ebb_motion_sendPenDown_if1 ebb_motion_sendPenDown_if2
  cases present with
  | false =>
    refine ⟨w, ?_, ?_⟩
    · simp only [PyObj.run, encPort, encOpt, ifte, ↓reduceIte, app1_ok, op_is_not_none, op_is_none, isNone, ofP_ok, ok_apply, truthy_bool, Bool.not_false, Bool.not_true, Bool.false_eq_true, block_cons2, block_one, seq, assign, expr, load_str, load_int, pass, and_ok, or_ok, outWorld, LegacyGen.outWorld]
    · simp [C06.legacyEmit, C06.legacyEmitWith]
  | true =>
    cases pin with
    | none =>
      have htext : (format_ [FmtPart.lit ['S', 'P', ',', '0', ','], FmtPart.arg 0, FmtPart.lit ['\r']] [ok (.int delay)] : Eff NoObj)
          = ok (.str (C06.Cmd.wire ⟨"SP", [0, delay]⟩).toList) := by
        simp only [format_, evalList_cons_ok, evalList_nil, renderFmt, List.getElem?_cons_zero, List.getElem?_cons_succ, Option.map_some, strOf, wire_toList, argChars, showInt_0, showInt_1, showInt_4, showInt_5, showInt_11, showInt_12, List.cons_append, List.nil_append, List.append_assoc, List.append_nil, lit_SP]
      have e : C06.legacyEmit true fwOk (.penDown delay Option.none) = some [⟨"SP", [0, delay]⟩] := by
        simp [C06.legacyEmit, C06.legacyEmitWith, C06.present]
      rw [e]
      refine run_send fuel hf _ _ ⟨.port, .int delay, .none, vb, .str (C06.Cmd.wire ⟨"SP", [0, delay]⟩).toList⟩ w "SP" [0, delay] (by decide) vb hio ?_
      simp only [encPort, encOpt, ifte, ↓reduceIte, app1_ok, op_is_not_none, op_is_none, isNone, ofP_ok, ok_apply, truthy_bool, Bool.not_false, Bool.not_true, Bool.false_eq_true, block_cons2, block_one, seq, assign, expr, load_str, load_int, pass, and_ok, or_ok, htext]
    | some q =>
      have htext : (format_ [FmtPart.lit ['S', 'P', ',', '0', ','], FmtPart.arg 0, FmtPart.lit [','], FmtPart.arg 1, FmtPart.lit ['\r']]
          [ok (.int delay), ok (.int q)] : Eff NoObj)
          = ok (.str (C06.Cmd.wire ⟨"SP", [0, delay, q]⟩).toList) := by
        simp only [format_, evalList_cons_ok, evalList_nil, renderFmt, List.getElem?_cons_zero, List.getElem?_cons_succ, Option.map_some, strOf, wire_toList, argChars, showInt_0, showInt_1, showInt_4, showInt_5, showInt_11, showInt_12, List.cons_append, List.nil_append, List.append_assoc, List.append_nil, lit_SP]
      have e : C06.legacyEmit true fwOk (.penDown delay (some q)) = some [⟨"SP", [0, delay, q]⟩] := by
        simp [C06.legacyEmit, C06.legacyEmitWith, C06.present]
      rw [e]
      refine run_send fuel hf _ _ ⟨.port, .int delay, .int q, vb, .str (C06.Cmd.wire ⟨"SP", [0, delay, q]⟩).toList⟩ w "SP" [0, delay, q] (by decide) vb hio ?_
      simp only [encPort, encOpt, ifte, ↓reduceIte, app1_ok, op_is_not_none, op_is_none, isNone, ofP_ok, ok_apply, truthy_bool, Bool.not_false, Bool.not_true, Bool.false_eq_true, block_cons2, block_one, seq, assign, expr, load_str, load_int, pass, and_ok, or_ok, htext]

/-- `sendPenUp`: `SP,1,<delay>[,<pin>]` — the pin whenever it is supplied (zero included) -/
theorem sendPenUp_bridge (fuel : Nat) (hf : 101 ≤ fuel) (present fwOk : Bool) (delay : Int) (pin : Option Int) (vb : Val)
    (w : World NoObj) (hio : C07Gen.IoScript w.port) :
    Wrote (ebb_motion_sendPenUp fuel (encPort present) (.int delay) (encOpt pin) vb w) w
      (C06.legacyEmit present fwOk (.penUp delay pin)) := by
  unfold ebb_motion_sendPenUp ebb_motion_sendPenUp_main ebb_motion_sendPenUp_if1 ebb_motion_sendPenUp_if2
  cases present with
  | false =>
    refine ⟨w, ?_, ?_⟩
    · simp only [PyObj.run, encPort, encOpt, ifte, ↓reduceIte, app1_ok, op_is_not_none, op_is_none, isNone, ofP_ok, ok_apply, truthy_bool, Bool.not_false, Bool.not_true, Bool.false_eq_true, block_cons2, block_one, seq, assign, expr, load_str, load_int, pass, and_ok, or_ok, outWorld, LegacyGen.outWorld]
    · simp [C06.legacyEmit, C06.legacyEmitWith]
  | true =>
    cases pin with
    | none =>
      have htext : (format_ [FmtPart.lit ['S', 'P', ',', '1', ','], FmtPart.arg 0, FmtPart.lit ['\r']] [ok (.int delay)] : Eff NoObj)
          = ok (.str (C06.Cmd.wire ⟨"SP", [1, delay]⟩).toList) := by
        simp only [format_, evalList_cons_ok, evalList_nil, renderFmt, List.getElem?_cons_zero, List.getElem?_cons_succ, Option.map_some, strOf, wire_toList, argChars, showInt_0, showInt_1, showInt_4, showInt_5, showInt_11, showInt_12, List.cons_append, List.nil_append, List.append_assoc, List.append_nil, lit_SP]
      have e : C06.legacyEmit true fwOk (.penUp delay Option.none) = some [⟨"SP", [1, delay]⟩] := by
        simp [C06.legacyEmit, C06.legacyEmitWith, C06.present]
      rw [e]
      refine run_send fuel hf _ _ ⟨.port, .int delay, .none, vb, .str (C06.Cmd.wire ⟨"SP", [1, delay]⟩).toList⟩ w "SP" [1, delay] (by decide) vb hio ?_
      simp only [encPort, encOpt, ifte, ↓reduceIte, app1_ok, op_is_not_none, op_is_none, isNone, ofP_ok, ok_apply, truthy_bool, Bool.not_false, Bool.not_true, Bool.false_eq_true, block_cons2, block_one, seq, assign, expr, load_str, load_int, pass, and_ok, or_ok, htext]
    | some q =>
      have htext : (format_ [FmtPart.lit ['S', 'P', ',', '1', ','], FmtPart.arg 0, FmtPart.lit [','], FmtPart.arg 1, FmtPart.lit ['\r']]
          [ok (.int delay), ok (.int q)] : Eff NoObj)
          = ok (.str (C06.Cmd.wire ⟨"SP", [1, delay, q]⟩).toList) := by
        simp only [format_, evalList_cons_ok, evalList_nil, renderFmt, List.getElem?_cons_zero, List.getElem?_cons_succ, Option.map_some, strOf, wire_toList, argChars, showInt_0, showInt_1, showInt_4, showInt_5, showInt_11, showInt_12, List.cons_append, List.nil_append, List.append_assoc, List.append_nil, lit_SP]
      have e : C06.legacyEmit true fwOk (.penUp delay (some q)) = some [⟨"SP", [1, delay, q]⟩] := by
        simp [C06.legacyEmit, C06.legacyEmitWith, C06.present]
      rw [e]
      refine run_send fuel hf _ _ ⟨.port, .int delay, .int q, vb, .str (C06.Cmd.wire ⟨"SP", [1, delay, q]⟩).toList⟩ w "SP" [1, delay, q] (by decide) vb hio ?_
      simp only [encPort, encOpt, ifte, ↓reduceIte, app1_ok, op_is_not_none, op_is_none, isNone, ofP_ok, ok_apply, truthy_bool, Bool.not_false, Bool.not_true, Bool.false_eq_true, block_cons2, block_one, seq, assign, expr, load_str, load_int, pass, and_ok, or_ok, htext]

theorem and_bools (a b : Bool) : (and_ (ok (.bool a)) (ok (.bool b)) : Eff NoObj) = ok (.bool (a && b)) := by
  cases a <;> simp only [and_ok, truthy_bool, Bool.false_eq_true, ↓reduceIte, Bool.false_and, Bool.true_and]
theorem or_bools (a b : Bool) : (or_ (ok (.bool a)) (ok (.bool b)) : Eff NoObj) = ok (.bool (a || b)) := by
  cases a <;> simp only [or_ok, truthy_bool, Bool.false_eq_true, ↓reduceIte, Bool.false_or, Bool.true_or]
theorem eq_int0 (x : Int) : (app2 op_eq (ok (.int x)) (ok (.int 0)) : Eff NoObj) = ok (.bool (decide (x = 0))) := by
  simp only [app2_ok, op_eq, ofP_ok, pyEq]
  rfl

/-- the suppression test of `doLowLevelMove` evaluates to the Boolean of the condition in the source -/
theorem lm_test (r1 s1 a1 r2 s2 a2 : Int) :
    (and_ (or_ (and_ (app2 op_eq (ok (.int r1)) (ok (.int 0))) (app2 op_eq (ok (.int a1)) (ok (.int 0))))
              (app2 op_eq (ok (.int s1)) (ok (.int 0))))
          (or_ (and_ (app2 op_eq (ok (.int r2)) (ok (.int 0))) (app2 op_eq (ok (.int a2)) (ok (.int 0))))
              (app2 op_eq (ok (.int s2)) (ok (.int 0)))) : Eff NoObj)
      = ok (.bool (decide (((r1 = 0 ∧ a1 = 0) ∨ s1 = 0) ∧ ((r2 = 0 ∧ a2 = 0) ∨ s2 = 0)))) := by
  simp only [eq_int0, and_bools, or_bools, Bool.decide_and, Bool.decide_or]

/-- `doLowLevelMove`: nothing when neither axis can move, else `LM,<r1>,<s1>,<a1>,<r2>,<s2>,<a2>[,<clear>]` -/
theorem doLowLevelMove_bridge (fuel : Nat) (hf : 101 ≤ fuel) (present fwOk : Bool) (r1 s1 a1 r2 s2 a2 : Int)
    (clear : Option Int) (vb : Val) (w : World NoObj) (hio : C07Gen.IoScript w.port) :
    Wrote (ebb_motion_doLowLevelMove fuel (encPort present) (.int r1) (.int s1) (.int a1) (.int r2) (.int s2) (.int a2)
        (encOpt clear) vb w) w
      (C06.legacyEmit present fwOk (.lowLevel r1 s1 a1 r2 s2 a2 clear)) := by
  unfold ebb_motion_doLowLevelMove ebb_motion_doLowLevelMove_main ebb_motion_doLowLevelMove_if1
    ebb_motion_doLowLevelMove_if2 ebb_motion_doLowLevelMove_if3
  cases present with
  | false =>
    refine ⟨w, ?_, ?_⟩
    · simp only [PyObj.run, encPort, encOpt, ifte, ↓reduceIte, app1_ok, op_is_not_none, op_is_none, isNone, ofP_ok, ok_apply, truthy_bool, Bool.not_false, Bool.not_true, Bool.false_eq_true, block_cons2, block_one, seq, assign, expr, load_str, load_int, pass, and_ok, or_ok, outWorld, LegacyGen.outWorld]
    · simp [C06.legacyEmit, C06.legacyEmitWith]
  | true =>
    by_cases hc : ((r1 = 0 ∧ a1 = 0) ∨ s1 = 0) ∧ ((r2 = 0 ∧ a2 = 0) ∨ s2 = 0)
    · -- suppressed: `return`
      have hd := decide_eq_true hc
      refine ⟨w, ?_, ?_⟩
      · simp only [PyObj.run, encPort, encOpt, ifte, ↓reduceIte, app1_ok, op_is_not_none, isNone, ofP_ok, ok_apply, truthy_bool,
          Bool.not_false, block_cons2, block_one, seq, lm_test, hd, return_, outWorld, LegacyGen.outWorld]
      · simp [C06.legacyEmit, C06.legacyEmitWith, hc]
    · have hd := decide_eq_false hc
      cases clear with
      | none =>
        have htext : (format_ [FmtPart.lit ['L', 'M', ','], FmtPart.arg 0, FmtPart.lit [','], FmtPart.arg 1, FmtPart.lit [','],
            FmtPart.arg 2, FmtPart.lit [','], FmtPart.arg 3, FmtPart.lit [','], FmtPart.arg 4, FmtPart.lit [','], FmtPart.arg 5,
            FmtPart.lit ['\r']] [ok (.int r1), ok (.int s1), ok (.int a1), ok (.int r2), ok (.int s2), ok (.int a2)] : Eff NoObj)
            = ok (.str (C06.Cmd.wire ⟨"LM", [r1, s1, a1, r2, s2, a2]⟩).toList) := by
          simp only [format_, evalList_cons_ok, evalList_nil, renderFmt, List.getElem?_cons_zero, List.getElem?_cons_succ, Option.map_some, strOf, wire_toList, argChars, showInt_0, showInt_1, showInt_4, showInt_5, showInt_11, showInt_12, List.cons_append, List.nil_append, List.append_assoc, List.append_nil, lit_LM]
        have e : C06.legacyEmit true fwOk (.lowLevel r1 s1 a1 r2 s2 a2 Option.none) = some [⟨"LM", [r1, s1, a1, r2, s2, a2]⟩] := by
          simp [C06.legacyEmit, C06.legacyEmitWith, C06.present, hc]
        rw [e]
        refine run_send fuel hf _ _ ⟨.port, .int r1, .int s1, .int a1, .int r2, .int s2, .int a2, .none, vb,
          .str (C06.Cmd.wire ⟨"LM", [r1, s1, a1, r2, s2, a2]⟩).toList⟩ w "LM" [r1, s1, a1, r2, s2, a2] (by decide) vb hio ?_
        simp only [encPort, encOpt, ifte, ↓reduceIte, app1_ok, op_is_not_none, op_is_none, isNone, ofP_ok, ok_apply, truthy_bool, Bool.not_false, Bool.not_true, Bool.false_eq_true, block_cons2, block_one, seq, assign, expr, load_str, load_int, pass, and_ok, or_ok, lm_test, hd, htext]
      | some c =>
        have htext : (format_ [FmtPart.lit ['L', 'M', ','], FmtPart.arg 0, FmtPart.lit [','], FmtPart.arg 1, FmtPart.lit [','],
            FmtPart.arg 2, FmtPart.lit [','], FmtPart.arg 3, FmtPart.lit [','], FmtPart.arg 4, FmtPart.lit [','], FmtPart.arg 5,
            FmtPart.lit [','], FmtPart.arg 6, FmtPart.lit ['\r']]
            [ok (.int r1), ok (.int s1), ok (.int a1), ok (.int r2), ok (.int s2), ok (.int a2), ok (.int c)] : Eff NoObj)
            = ok (.str (C06.Cmd.wire ⟨"LM", [r1, s1, a1, r2, s2, a2, c]⟩).toList) := by
          simp only [format_, evalList_cons_ok, evalList_nil, renderFmt, List.getElem?_cons_zero, List.getElem?_cons_succ, Option.map_some, strOf, wire_toList, argChars, showInt_0, showInt_1, showInt_4, showInt_5, showInt_11, showInt_12, List.cons_append, List.nil_append, List.append_assoc, List.append_nil, lit_LM]
        have e : C06.legacyEmit true fwOk (.lowLevel r1 s1 a1 r2 s2 a2 (some c)) = some [⟨"LM", [r1, s1, a1, r2, s2, a2, c]⟩] := by
          simp [C06.legacyEmit, C06.legacyEmitWith, C06.present, hc]
        rw [e]
        refine run_send fuel hf _ _ ⟨.port, .int r1, .int s1, .int a1, .int r2, .int s2, .int a2, .int c, vb,
          .str (C06.Cmd.wire ⟨"LM", [r1, s1, a1, r2, s2, a2, c]⟩).toList⟩ w "LM" [r1, s1, a1, r2, s2, a2, c] (by decide) vb hio ?_
        simp only [encPort, encOpt, ifte, ↓reduceIte, app1_ok, op_is_not_none, op_is_none, isNone, ofP_ok, ok_apply, truthy_bool, Bool.not_false, Bool.not_true, Bool.false_eq_true, block_cons2, block_one, seq, assign, expr, load_str, load_int, pass, and_ok, or_ok, lm_test, hd, htext]

/-! ## helpers that transmit several commands (domain: faults are serial I/O exceptions, lines are ASCII) -/

/-- the call returned, the write log grew by exactly the wire texts of `cs`, and the rest of the script is in the
domain again -/
def WroteDom (o : Out NoObj) (w : World NoObj) (cs : Option (List C06.Cmd)) : Prop :=
  ∃ w' v, o = .val v w' ∧ w'.port.log = w.port.log ++ (cs.getD []).map (fun c => c.wire.toList) ∧ Dom w'.port

theorem WroteDom.wrote {o : Out NoObj} {w : World NoObj} {cs : Option (List C06.Cmd)} (h : WroteDom o w cs) : Wrote o w cs := by
  obtain ⟨w', v, e, hl, _⟩ := h
  exact ⟨w', by rw [e]; rfl, hl⟩

/-- one `ebb_serial.command(port, text, verbose)` statement in the domain -/
theorem send_dom {σ : Type} (fuel : Nat) (hf : 101 ≤ fuel) (e : Expr NoObj σ) (env : σ) (w : World NoObj)
    (n : String) (l : List Int) (hn : PyIO.isAscii n.toList = true) (vb : Val) (hd : Dom w.port)
    (he : e fuel env = ioCall3 (ebb_serial_command fuel) (ok .port) (ok (.str (C06.Cmd.wire ⟨n, l⟩).toList)) (ok vb)) :
    ∃ w', expr e fuel env w = .norm env w' ∧ w'.port.log = w.port.log ++ [(C06.Cmd.wire ⟨n, l⟩).toList] ∧ Dom w'.port := by
  obtain ⟨p', hl, hd', h⟩ := ioCommand_dom fuel hf (C06.Cmd.wire ⟨n, l⟩).toList (isAscii_wire n l hn) vb w hd
  refine ⟨{ w with port := p' }, ?_, hl, hd'⟩
  exact expr_of (by rw [he]; exact h)

/-- `PBOutConfig`: `PO,B,<pin>,<state>` then `PD,B,<pin>,0` -/
theorem PBOutConfig_bridge (fuel : Nat) (hf : 101 ≤ fuel) (present fwOk : Bool) (pin state : Int) (vb : Val)
    (w : World NoObj) (hd : Dom w.port) :
    WroteDom (ebb_motion_PBOutConfig fuel (encPort present) (.int pin) (.int state) vb w) w
      (C06.legacyEmit present fwOk (.pbConfig pin state 0)) := by
  unfold ebb_motion_PBOutConfig ebb_motion_PBOutConfig_main ebb_motion_PBOutConfig_if1
  cases present with
  | false =>
    refine ⟨w, .none, ?_, ?_, hd⟩
    · simp only [PyObj.run, encPort, encOpt, ifte, ↓reduceIte, app1_ok, op_is_not_none, op_is_none, isNone, ofP_ok, ok_apply, truthy_bool, Bool.not_false, Bool.not_true, Bool.false_eq_true, block_cons2, block_one, seq, assign, expr, load_str, load_int, pass, and_ok, or_ok]
    · simp [C06.legacyEmit, C06.legacyEmitWith]
  | true =>
    have ht1 : (format_ [FmtPart.lit ['P', 'O', ',', 'B', ','], FmtPart.arg 0, FmtPart.lit [','], FmtPart.arg 1, FmtPart.lit ['\r']]
        [ok (.int pin), ok (.int state)] : Eff NoObj) = ok (.str (C06.Cmd.wire ⟨"PO,B", [pin, state]⟩).toList) := by
      simp only [format_, evalList_cons_ok, evalList_nil, renderFmt, List.getElem?_cons_zero, List.getElem?_cons_succ, Option.map_some, strOf, wire_toList, argChars, showInt_0, showInt_1, showInt_4, showInt_5, showInt_11, showInt_12, List.cons_append, List.nil_append, List.append_assoc, List.append_nil, lit_PO_B]
    have ht2 : (format_ [FmtPart.lit ['P', 'D', ',', 'B', ','], FmtPart.arg 0, FmtPart.lit [',', '0', '\r']]
        [ok (.int pin)] : Eff NoObj) = ok (.str (C06.Cmd.wire ⟨"PD,B", [pin, 0]⟩).toList) := by
      simp only [format_, evalList_cons_ok, evalList_nil, renderFmt, List.getElem?_cons_zero, List.getElem?_cons_succ, Option.map_some, strOf, wire_toList, argChars, showInt_0, showInt_1, showInt_4, showInt_5, showInt_11, showInt_12, List.cons_append, List.nil_append, List.append_assoc, List.append_nil, lit_PD_B]
    simp only [PyObj.run, encPort, ifte, ↓reduceIte, app1_ok, op_is_not_none, isNone, ofP_ok, ok_apply, truthy_bool, Bool.not_false,
      block_cons2, block_one]
    rw [seq_norm (assign_of (set := fun (env : ebb_motion_PBOutConfig_Env) v => { env with str_output := v })
      (v := .str (C06.Cmd.wire ⟨"PO,B", [pin, state]⟩).toList) (w' := w) (by simp only [ht1, ok_apply]))]
    obtain ⟨w1, e1, l1, d1⟩ := send_dom fuel hf
      (fun fuel (env : ebb_motion_PBOutConfig_Env) => ioCall3 (ebb_serial_command fuel) (ok env.port_name) (load env.str_output) (ok env.verbose))
      ⟨.port, .int pin, .int state, vb, .str (C06.Cmd.wire ⟨"PO,B", [pin, state]⟩).toList⟩ w "PO,B" [pin, state] (by decide) vb hd rfl
    rw [seq_norm e1]
    rw [seq_norm (assign_of (set := fun (env : ebb_motion_PBOutConfig_Env) v => { env with str_output := v })
      (v := .str (C06.Cmd.wire ⟨"PD,B", [pin, 0]⟩).toList) (w' := w1) (by simp only [ht2, ok_apply]))]
    obtain ⟨w2, e2, l2, d2⟩ := send_dom fuel hf
      (fun fuel (env : ebb_motion_PBOutConfig_Env) => ioCall3 (ebb_serial_command fuel) (ok env.port_name) (load env.str_output) (ok env.verbose))
      ⟨.port, .int pin, .int state, vb, .str (C06.Cmd.wire ⟨"PD,B", [pin, 0]⟩).toList⟩ w1 "PD,B" [pin, 0] (by decide) vb d1 rfl
    rw [e2]
    refine ⟨w2, .none, rfl, ?_, d2⟩
    rw [l2, l1]
    simp [C06.legacyEmit, C06.legacyEmitWith]

/-! ## `doTimedPause` -/

/-- the chunk the source uses — read off the regenerated `if n_pause > 750: time_delay = 750` -/
theorem pauseChunk_src : C06.pauseChunk = 750 := rfl

theorem gt_int (a b : Int) : (app2 op_gt (ok (.int a)) (ok (.int b)) : Eff NoObj) = ok (.bool (decide (b < a))) := by
  simp only [app2_ok, op_gt, ltVal, intOf, ofOptBool, ofP_ok]
theorem lt_int (a b : Int) : (app2 op_lt (ok (.int a)) (ok (.int b)) : Eff NoObj) = ok (.bool (decide (a < b))) := by
  simp only [app2_ok, op_lt, ltVal, intOf, ofOptBool, ofP_ok]
theorem sub_int (a b : Int) : (app2 op_sub (ok (.int a)) (ok (.int b)) : Eff NoObj) = ok (.int (a - b)) := by
  simp only [app2_ok, op_sub, intOf, ofP_ok]

/-- the duration one pass of the loop chooses -/
def pauseStep (n : Int) : Int := if n > 750 then 750 else (if n < 1 then 1 else n)

/-- `if n_pause > 750: time_delay = 750 else: time_delay = n_pause; if time_delay < 1: time_delay = 1` -/
theorem pause_if2 (fuel : Nat) (n : Int) (vb td : Val) (w : World NoObj) :
    ebb_motion_doTimedPause_if2 fuel ⟨.port, .int n, vb, td⟩ w = .norm ⟨.port, .int n, vb, .int (pauseStep n)⟩ w := by
  unfold ebb_motion_doTimedPause_if2 ebb_motion_doTimedPause_if3
  by_cases h : n > 750
  · have hd : decide (750 < n) = true := decide_eq_true h
    have hp : pauseStep n = 750 := by simp [pauseStep, h]
    rw [hp]
    simp only [ifte, load_int, gt_int, ok_apply, truthy_bool, hd, ↓reduceIte, assign]
  · have hd : decide (750 < n) = false := decide_eq_false h
    by_cases h1 : n < 1
    · have hd1 : decide (n < 1) = true := decide_eq_true h1
      have hp : pauseStep n = 1 := by simp [pauseStep, h, h1]
      rw [hp]
      simp only [ifte, load_int, gt_int, lt_int, ok_apply, truthy_bool, hd, hd1, Bool.false_eq_true, ↓reduceIte, assign, block_cons2,
        block_one, seq]
    · have hd1 : decide (n < 1) = false := decide_eq_false h1
      have hp : pauseStep n = n := by simp [pauseStep, h, h1]
      rw [hp]
      simp only [ifte, load_int, gt_int, lt_int, ok_apply, truthy_bool, hd, hd1, Bool.false_eq_true, ↓reduceIte, assign, block_cons2,
        block_one, seq, pass]

/-- the `while n_pause > 0` loop against the model's `legacyPauseLoop` (`m` = fuel of the model, `k` = passes left) -/
theorem pause_loop (fuel : Nat) (hf : 101 ≤ fuel) (vb : Val) :
    ∀ (m k : Nat) (n : Int) (td : Val) (w : World NoObj), n.toNat ≤ m → m + 1 ≤ k → Dom w.port →
      ∃ n' td' w', whileLoop ebb_motion_doTimedPause_test1 ebb_motion_doTimedPause_body1 fuel k ⟨.port, .int n, vb, td⟩ w
          = .norm ⟨.port, .int n', vb, td'⟩ w' ∧
        w'.port.log = w.port.log ++ (C06.legacyPauseLoop 750 m n).map (fun d => (C06.Cmd.wire ⟨"SM", [d, 0, 0]⟩).toList) ∧
        Dom w'.port := by
  intro m
  induction m with
  | zero =>
    intro k n td w hn hk hd
    obtain ⟨k', rfl⟩ : ∃ k', k = k' + 1 := ⟨k - 1, by omega⟩
    have h0 : ¬ (0 < n) := by omega
    refine ⟨n, td, w, ?_, by simp [C06.legacyPauseLoop], hd⟩
    simp only [whileLoop, ebb_motion_doTimedPause_test1, load_int, gt_int, ok_apply, truthy_bool, decide_eq_false h0,
      Bool.false_eq_true, ↓reduceIte]
  | succ m ih =>
    intro k n td w hn hk hd
    obtain ⟨k', rfl⟩ : ∃ k', k = k' + 1 := ⟨k - 1, by omega⟩
    by_cases hpos : n > 0
    · -- one pass
      have hstep : C06.legacyPauseLoop 750 (m + 1) n = pauseStep n :: C06.legacyPauseLoop 750 m (n - pauseStep n) := by
        simp only [C06.legacyPauseLoop, hpos, ↓reduceIte, pauseStep]
      have hd1 : 1 ≤ pauseStep n := by
        unfold pauseStep
        split
        · omega
        · split <;> omega
      have htext : (format_ [FmtPart.lit ['S', 'M', ','], FmtPart.arg 0, FmtPart.lit [',', '0', ',', '0', '\r']]
          [ok (.int (pauseStep n))] : Eff NoObj) = ok (.str (C06.Cmd.wire ⟨"SM", [pauseStep n, 0, 0]⟩).toList) := by
        simp only [format_, evalList_cons_ok, evalList_nil, renderFmt, List.getElem?_cons_zero, List.getElem?_cons_succ, Option.map_some, strOf, wire_toList, argChars, showInt_0, showInt_1, showInt_4, showInt_5, showInt_11, showInt_12, List.cons_append, List.nil_append, List.append_assoc, List.append_nil, lit_SM]
      obtain ⟨w1, e1, l1, d1⟩ := send_dom fuel hf
        (fun fuel (env : ebb_motion_doTimedPause_Env) => ioCall3 (ebb_serial_command fuel) (ok env.port_name)
          (format_ [FmtPart.lit ['S', 'M', ','], FmtPart.arg 0, FmtPart.lit [',', '0', ',', '0', '\r']] [load env.time_delay])
          (ok env.verbose))
        ⟨.port, .int n, vb, .int (pauseStep n)⟩ w "SM" [pauseStep n, 0, 0] (by decide) vb hd
        (by simp only [load_int, htext])
      have hbody : ebb_motion_doTimedPause_body1 fuel ⟨.port, .int n, vb, td⟩ w
          = .norm ⟨.port, .int (n - pauseStep n), vb, .int (pauseStep n)⟩ w1 := by
        unfold ebb_motion_doTimedPause_body1
        simp only [block_cons2, block_one]
        rw [seq_norm (pause_if2 fuel n vb td w), seq_norm e1]
        simp only [assign, load_int, sub_int, ok_apply]
      obtain ⟨n', td', w', e, l, d⟩ := ih k' (n - pauseStep n) (.int (pauseStep n)) w1 (by omega) (by omega) d1
      refine ⟨n', td', w', ?_, ?_, d⟩
      · simp only [whileLoop, ebb_motion_doTimedPause_test1, load_int, gt_int, ok_apply, truthy_bool, decide_eq_true hpos,
          ↓reduceIte, hbody, e]
      · rw [l, l1, hstep]
        simp
    · refine ⟨n, td, w, ?_, by simp [C06.legacyPauseLoop, hpos], hd⟩
      simp only [whileLoop, ebb_motion_doTimedPause_test1, load_int, gt_int, ok_apply, truthy_bool, decide_eq_false hpos,
        Bool.false_eq_true, ↓reduceIte]

/-- `doTimedPause`: the zero-moves `SM,<d>,0,0` of the model's chunking loop (fuel must cover the passes) -/
theorem doTimedPause_bridge (fuel : Nat) (hf : 101 ≤ fuel) (present fwOk : Bool) (n : Int) (hn : n.toNat + 1 ≤ fuel) (vb : Val)
    (w : World NoObj) (hd : Dom w.port) :
    WroteDom (ebb_motion_doTimedPause fuel (encPort present) (.int n) vb w) w
      (C06.legacyEmit present fwOk (.timedPause n)) := by
  unfold ebb_motion_doTimedPause ebb_motion_doTimedPause_main ebb_motion_doTimedPause_if1 ebb_motion_doTimedPause_loop1
  cases present with
  | false =>
    refine ⟨w, .none, ?_, ?_, hd⟩
    · simp only [PyObj.run, encPort, ifte, Bool.false_eq_true, ↓reduceIte, app1_ok, op_is_not_none, isNone, ofP_ok, ok_apply,
        truthy_bool, Bool.not_true, pass]
    · simp [C06.legacyEmit, C06.legacyEmitWith]
  | true =>
    obtain ⟨n', td', w', e, l, d⟩ := pause_loop fuel hf vb n.toNat fuel n .unbound w (Nat.le_refl _) hn hd
    refine ⟨w', .none, ?_, ?_, d⟩
    · simp only [PyObj.run, encPort, ifte, ↓reduceIte, app1_ok, op_is_not_none, isNone, ofP_ok, ok_apply, truthy_bool, Bool.not_false,
        while_, e]
    · rw [l]
      simp [C06.legacyEmit, C06.legacyEmitWith, pauseChunk_src, List.map_map, Function.comp_def]

end C06Gen
end Plotink
