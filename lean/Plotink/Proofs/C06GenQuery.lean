import Plotink.Proofs.C06GenGate
import Plotink.Proofs.C06GenPure
import Plotink.Gen.ebb_motion_QueryPenUp
import Plotink.Gen.ebb_motion_QueryPRGButton
import Plotink.Gen.ebb_motion_queryEBBLV
import Plotink.Gen.ebb_motion_query_steps
import Plotink.Gen.ebb_motion_queryVoltage
/-! # C06 over the regenerated code, part 4: the legacy helpers that query the board

`QueryPenUp` (QP), `QueryPRGButton` (QB), `queryEBBLV` (QL), `query_steps` (QS), `queryVoltage` (gate `V`, then QC):
in the domain the query text is written exactly once; the post-processing of the reply (indexing, `split`, `int`,
comparisons, `try … except`) is pure, whatever the reply is and whether it raises or not (`C06GenPure`). -/
namespace Plotink
namespace C06Gen
open PyObj Gen
set_option linter.unusedSimpArgs false
set_option linter.unusedVariables false

theorem outWorld_run {σ : Type} (s : Stmt NoObj σ) (fuel : Nat) (env : σ) (w : World NoObj) :
    outWorld (run s fuel env w) = flowWorld (s fuel env w) := by
  unfold run
  cases s fuel env w <;> rfl

/-- `x = ebb_serial.query(port, text, verbose)` in the domain -/
theorem query_assign_dom {σ : Type} (fuel : Nat) (hf : 101 ≤ fuel) (set : σ → Val → σ) (e : Expr NoObj σ) (env : σ)
    (w : World NoObj) (t : List Char) (ht : PyIO.isAscii t = true) (vb : Val) (hd : Dom w.port)
    (he : e fuel env = ioCall3 (ebb_serial_query fuel) (ok .port) (ok (.str t)) (ok vb)) :
    ∃ w1 s, assign set e fuel env w = .norm (set env (.str s)) w1 ∧ w1.port.log = w.port.log ++ [t] ∧ Dom w1.port := by
  obtain ⟨p', s, hl, hd', h⟩ := ioQuery_dom fuel hf t ht vb w hd
  exact ⟨{ w with port := p' }, s, assign_of (by rw [he]; exact h), hl, hd'⟩

theorem lit_QP : "QP".toList = ['Q', 'P'] := by decide
theorem lit_QB : "QB".toList = ['Q', 'B'] := by decide
theorem lit_QL : "QL".toList = ['Q', 'L'] := by decide
theorem lit_QS : "QS".toList = ['Q', 'S'] := by decide
theorem lit_QC : "QC".toList = ['Q', 'C'] := by decide

theorem wire0 (n : String) : (C06.Cmd.wire ⟨n, []⟩).toList = n.toList ++ ['\r'] := by
  simp only [wire_toList, argChars, List.nil_append]

theorem guard_port {σ : Type} (get : σ → Val) (A B : Stmt NoObj σ) (fuel : Nat) (env : σ) (w : World NoObj)
    (h : get env = .port) :
    ifte (fun _ env => app1 op_is_not_none (ok (get env))) A B fuel env w = A fuel env w := by
  simp only [ifte, h, app1_ok, op_is_not_none, isNone, ofP_ok, ok_apply, truthy_bool, Bool.not_false, ↓reduceIte]
theorem guard_none {σ : Type} (get : σ → Val) (A B : Stmt NoObj σ) (fuel : Nat) (env : σ) (w : World NoObj)
    (h : get env = .none) :
    ifte (fun _ env => app1 op_is_not_none (ok (get env))) A B fuel env w = B fuel env w := by
  simp only [ifte, h, app1_ok, op_is_not_none, isNone, ofP_ok, ok_apply, truthy_bool, Bool.not_true, Bool.false_eq_true, ↓reduceIte]

/-- `QueryPenUp`: `QP` -/
theorem QueryPenUp_bridge (fuel : Nat) (hf : 101 ≤ fuel) (present fwOk : Bool) (vb : Val) (w : World NoObj) (hd : Dom w.port) :
    Wrote (ebb_motion_QueryPenUp fuel (encPort present) vb w) w (C06.legacyEmit present fwOk .queryPenUp) := by
  unfold ebb_motion_QueryPenUp ebb_motion_QueryPenUp_main ebb_motion_QueryPenUp_if1
  cases present with
  | false =>
    refine ⟨w, ?_, by simp [C06.legacyEmit, C06.legacyEmitWith]⟩
    rw [outWorld_run]
    simp only [block_cons2, block_one, encPort, Bool.false_eq_true, ↓reduceIte]
    refine flowWorld_seq (pureS_return fun _ _ => pureE_ok _) fuel _ w w ?_
    rw [guard_none (fun env : ebb_motion_QueryPenUp_Env => env.port_name) _ _ fuel _ w rfl]
    rfl
  | true =>
    obtain ⟨w1, s, e1, l1, d1⟩ := query_assign_dom fuel hf (fun (env : ebb_motion_QueryPenUp_Env) v => { env with pen_status := v })
      (fun fuel env => ioCall3 (ebb_serial_query fuel) (ok env.port_name) (ok (.str ['Q', 'P', '\r'])) (ok env.verbose))
      ⟨.port, vb, .unbound⟩ w ['Q', 'P', '\r'] (by decide) vb hd rfl
    refine ⟨w1, ?_, ?_⟩
    · rw [outWorld_run]
      simp only [block_cons2, block_one, encPort, ↓reduceIte]
      refine flowWorld_seq (pureS_return fun _ _ => pureE_ok _) fuel _ w w1 ?_
      rw [guard_port (fun env : ebb_motion_QueryPenUp_Env => env.port_name) _ _ fuel _ w rfl, seq_norm e1]
      refine pureS_seq ?_ (pureS_return fun _ _ => pureE_ok _) fuel _ w1
      unfold ebb_motion_QueryPenUp_if2
      exact pureS_ifte (fun _ _ => pureE_app2 _ (pureE_app2 _ (pureE_load _) (pureE_ok _)) (pureE_ok _))
        (pureS_return fun _ _ => pureE_ok _) pureS_pass
    · rw [l1]
      simp [C06.legacyEmit, C06.legacyEmitWith, wire0, lit_QP]

/-- `QueryPRGButton`: `QB` -/
theorem QueryPRGButton_bridge (fuel : Nat) (hf : 101 ≤ fuel) (present fwOk : Bool) (vb : Val) (w : World NoObj) (hd : Dom w.port) :
    Wrote (ebb_motion_QueryPRGButton fuel (encPort present) vb w) w (C06.legacyEmit present fwOk .queryButton) := by
  unfold ebb_motion_QueryPRGButton ebb_motion_QueryPRGButton_main ebb_motion_QueryPRGButton_if1
  cases present with
  | false =>
    refine ⟨w, ?_, by simp [C06.legacyEmit, C06.legacyEmitWith]⟩
    rw [outWorld_run]
    simp only [block_cons2, block_one, encPort, Bool.false_eq_true, ↓reduceIte]
    refine flowWorld_seq (pureS_return fun _ _ => pureE_ok _) fuel _ w w ?_
    rw [guard_none (fun env : ebb_motion_QueryPRGButton_Env => env.port_name) _ _ fuel _ w rfl]
    rfl
  | true =>
    obtain ⟨p', s, hl, hd', h⟩ := ioQuery_dom fuel hf ['Q', 'B', '\r'] (by decide) vb w hd
    refine ⟨{ w with port := p' }, ?_, ?_⟩
    · rw [outWorld_run]
      simp only [block_cons2, block_one, encPort, ↓reduceIte]
      refine flowWorld_seq (pureS_return fun _ _ => pureE_ok _) fuel _ w _ ?_
      rw [guard_port (fun env : ebb_motion_QueryPRGButton_Env => env.port_name) _ _ fuel _ w rfl]
      rw [return_of (v := .str s) (w' := { w with port := p' }) h]
      rfl
    · rw [hl]
      simp [C06.legacyEmit, C06.legacyEmitWith, wire0, lit_QB]

/-- `queryEBBLV`: `QL` -/
theorem queryEBBLV_bridge (fuel : Nat) (hf : 101 ≤ fuel) (present fwOk : Bool) (vb : Val) (w : World NoObj) (hd : Dom w.port) :
    Wrote (ebb_motion_queryEBBLV fuel (encPort present) vb w) w (C06.legacyEmit present fwOk .queryLayer) := by
  unfold ebb_motion_queryEBBLV ebb_motion_queryEBBLV_main ebb_motion_queryEBBLV_if1
  cases present with
  | false =>
    refine ⟨w, ?_, by simp [C06.legacyEmit, C06.legacyEmitWith]⟩
    rw [outWorld_run]
    simp only [block_cons2, block_one, encPort, Bool.false_eq_true, ↓reduceIte]
    refine flowWorld_seq (pureS_return fun _ _ => pureE_ok _) fuel _ w w ?_
    rw [guard_none (fun env : ebb_motion_queryEBBLV_Env => env.port_name) _ _ fuel _ w rfl]
    rfl
  | true =>
    obtain ⟨w1, s, e1, l1, d1⟩ := query_assign_dom fuel hf (fun (env : ebb_motion_queryEBBLV_Env) v => { env with value := v })
      (fun fuel env => ioCall3 (ebb_serial_query fuel) (ok env.port_name) (ok (.str ['Q', 'L', '\r'])) (ok env.verbose))
      ⟨.port, vb, .unbound, .unbound⟩ w ['Q', 'L', '\r'] (by decide) vb hd rfl
    refine ⟨w1, ?_, ?_⟩
    · rw [outWorld_run]
      simp only [block_cons2, block_one, encPort, ↓reduceIte]
      refine flowWorld_seq (pureS_return fun _ _ => pureE_ok _) fuel _ w w1 ?_
      rw [guard_port (fun env : ebb_motion_queryEBBLV_Env => env.port_name) _ _ fuel _ w rfl, seq_norm e1]
      refine pureS_try ?_ ?_ fuel _ w1
      · unfold ebb_motion_queryEBBLV_try1
        simp only [block_cons2, block_one]
        exact pureS_seq (pureS_assign _ fun _ _ => pureE_app1 _ (pureE_load _)) (pureS_return fun _ _ => pureE_load _)
      · intro h hh
        simp only [ebb_motion_queryEBBLV_handlers1, List.mem_singleton] at hh
        subst hh
        exact pureS_return fun _ _ => pureE_ok _
    · rw [l1]
      simp [C06.legacyEmit, C06.legacyEmitWith, wire0, lit_QL]

/-- `query_steps`: `QS` -/
theorem query_steps_bridge (fuel : Nat) (hf : 101 ≤ fuel) (present fwOk : Bool) (vb : Val) (w : World NoObj) (hd : Dom w.port) :
    Wrote (ebb_motion_query_steps fuel (encPort present) vb w) w (C06.legacyEmit present fwOk .querySteps) := by
  unfold ebb_motion_query_steps ebb_motion_query_steps_main ebb_motion_query_steps_if1
  have hnone2 : ∀ (σ : Type), PureX (fun (fuel : Nat) (env : σ) => (mkTuple [ok .none, ok .none] : Eff NoObj)) := by
    intro σ fuel env
    refine pureE_mkTuple _ ?_
    intro e he
    simp only [List.mem_cons, List.mem_nil_iff, or_false] at he
    rcases he with rfl | rfl <;> exact pureE_ok _
  cases present with
  | false =>
    refine ⟨w, ?_, by simp [C06.legacyEmit, C06.legacyEmitWith]⟩
    rw [outWorld_run]
    simp only [block_cons2, block_one, encPort, Bool.false_eq_true, ↓reduceIte]
    refine flowWorld_seq (pureS_return (hnone2 _)) fuel _ w w ?_
    rw [guard_none (fun env : ebb_motion_query_steps_Env => env.port_name) _ _ fuel _ w rfl]
    rfl
  | true =>
    obtain ⟨w1, s, e1, l1, d1⟩ := query_assign_dom fuel hf (fun (env : ebb_motion_query_steps_Env) v => { env with result := v })
      (fun fuel env => ioCall3 (ebb_serial_query fuel) (ok env.port_name) (ok (.str ['Q', 'S', '\r'])) (ok env.verbose))
      ⟨.port, vb, .unbound, .unbound⟩ w ['Q', 'S', '\r'] (by decide) vb hd rfl
    refine ⟨w1, ?_, ?_⟩
    · rw [outWorld_run]
      simp only [block_cons2, block_one, encPort, ↓reduceIte]
      refine flowWorld_seq (pureS_return (hnone2 _)) fuel _ w w1 ?_
      rw [guard_port (fun env : ebb_motion_query_steps_Env => env.port_name) _ _ fuel _ w rfl]
      refine flowWorld_try ?_ fuel _ w w1 ?_
      · intro h hh
        simp only [ebb_motion_query_steps_handlers1, List.mem_singleton] at hh
        subst hh
        exact pureS_return (hnone2 _)
      · unfold ebb_motion_query_steps_try1
        simp only [block_cons2, block_one]
        rw [seq_norm e1]
        refine pureS_seq (pureS_assign _ fun _ _ => pureE_app1 _ (pureE_app1 _ (pureE_load _))) (pureS_return ?_) fuel _ w1
        intro fuel env
        refine pureE_mkTuple _ ?_
        intro e he
        simp only [List.mem_cons, List.mem_nil_iff, or_false] at he
        rcases he with rfl | rfl <;> exact pureE_app1 _ (pureE_app2 _ (pureE_load _) (pureE_ok _))
    · rw [l1]
      simp [C06.legacyEmit, C06.legacyEmitWith, wire0, lit_QS]

theorem legacyEmit_voltage (fwOk : Bool) :
    C06.legacyEmit true fwOk .queryVoltage = some (C06.versionQuery :: (if fwOk then [⟨"QC", []⟩] else [])) := by
  cases fwOk <;> simp [C06.legacyEmit, C06.legacyEmitWith]

/-- `queryVoltage`: the version query `V`, then — exactly when the gate `min_version(port, "2.2.3")` returned `True` — `QC` -/
theorem queryVoltage_bridge (fuel : Nat) (hf : 101 ≤ fuel) (present : Bool) (vb : Val) (w : World NoObj) (hd : Dom w.port) :
    ∃ fwOk, Wrote (ebb_motion_queryVoltage fuel (encPort present) vb w) w (C06.legacyEmit present fwOk .queryVoltage) ∧
      (present = true → (fwOk = true ↔
        ∃ w', ebb_serial_min_version fuel .port (.str ['2', '.', '2', '.', '3']) w = .val (.bool true) w')) := by
  unfold ebb_motion_queryVoltage ebb_motion_queryVoltage_main ebb_motion_queryVoltage_if1
  cases present with
  | false =>
    refine ⟨true, ⟨w, ?_, by simp [C06.legacyEmit, C06.legacyEmitWith]⟩, fun h => by cases h⟩
    rw [outWorld_run]
    simp only [block_cons2, block_one, encPort, Bool.false_eq_true, ↓reduceIte]
    refine flowWorld_seq (pureS_return fun _ _ => pureE_ok _) fuel _ w w ?_
    rw [guard_none (fun env : ebb_motion_queryVoltage_Env => env.port_name) _ _ fuel _ w rfl]
    rfl
  | true =>
    obtain ⟨reply, w1, hq, hl1, hd1⟩ := queryVersion_dom fuel hf w hd
    have hret : ∀ v, truthy v = false →
        ebb_serial_min_version fuel .port (.str ['2', '.', '2', '.', '3']) w = .val v w1 →
        ebb_motion_queryVoltage_if2 fuel ⟨.port, vb, .unbound, .unbound, .unbound, .unbound⟩ w = .ret (.bool true) w1 := by
      intro v hv h
      unfold ebb_motion_queryVoltage_if2
      simp only [ifte, not_, PyObj.bind, mcall2_ok_apply, h, ofOut_val, ok_apply, hv, Bool.not_false, truthy_bool, ↓reduceIte, return_]
    have hclosed : ∀ (fl : Flow NoObj ebb_motion_queryVoltage_Env),
        ebb_motion_queryVoltage_if2 fuel ⟨.port, vb, .unbound, .unbound, .unbound, .unbound⟩ w = fl →
        (∀ env' w', fl ≠ .norm env' w') → flowWorld fl = some w1 →
        Wrote (run (block [ebb_motion_queryVoltage_if1, return_ fun fuel env => ok (.bool true)]) fuel
          ⟨.port, vb, .unbound, .unbound, .unbound, .unbound⟩ w) w (C06.legacyEmit true false .queryVoltage) := by
      intro fl hfl hne hw
      refine ⟨w1, ?_, by rw [hl1, legacyEmit_voltage]; simp⟩
      rw [outWorld_run]
      unfold ebb_motion_queryVoltage_if1
      simp only [block_cons2, block_one]
      refine flowWorld_seq (pureS_return fun _ _ => pureE_ok _) fuel _ w w1 ?_
      rw [guard_port (fun env : ebb_motion_queryVoltage_Env => env.port_name) _ _ fuel _ w rfl]
      unfold seq
      rw [hfl]
      cases fl with
      | norm env' w' => exact absurd rfl (hne env' w')
      | ret v w' => exact hw
      | exc c env' w' => exact hw
      | brk env' w' => exact hw
      | cont env' w' => exact hw
      | fuelOut => exact hw
    have hno : ∀ v, v ≠ .bool true → ebb_serial_min_version fuel .port (.str ['2', '.', '2', '.', '3']) w = .val v w1 →
        (false = true ↔ ∃ w', ebb_serial_min_version fuel .port (.str ['2', '.', '2', '.', '3']) w = .val (.bool true) w') := by
      intro v hv h
      refine ⟨fun hh => (by cases hh), fun hh => ?_⟩
      obtain ⟨w', hh⟩ := hh
      rw [h] at hh
      cases hh
      exact absurd rfl hv
    change ∃ fwOk, Wrote (run (block [ebb_motion_queryVoltage_if1, return_ fun fuel env => ok (.bool true)]) fuel
      ⟨.port, vb, .unbound, .unbound, .unbound, .unbound⟩ w) w (C06.legacyEmit true fwOk .queryVoltage) ∧ _
    rcases gate_eval fuel ['2', '.', '2', '.', '3'] reply w w1 hq with h | ⟨b, h⟩ | h
    · exact ⟨false, hclosed _ (hret .none rfl h) (fun _ _ hh => by cases hh) rfl, fun _ => hno .none (by intro hh; cases hh) h⟩
    · cases b with
      | false =>
        exact ⟨false, hclosed _ (hret (.bool false) rfl h) (fun _ _ hh => by cases hh) rfl,
          fun _ => hno (.bool false) (by intro hh; cases hh) h⟩
      | true =>
        have hif2 : ebb_motion_queryVoltage_if2 fuel ⟨.port, vb, .unbound, .unbound, .unbound, .unbound⟩ w
            = .norm ⟨.port, vb, .unbound, .unbound, .unbound, .unbound⟩ w1 := by
          unfold ebb_motion_queryVoltage_if2
          simp only [ifte, not_, PyObj.bind, mcall2_ok_apply, h, ofOut_val, ok_apply, truthy_bool, Bool.not_true, Bool.false_eq_true,
            ↓reduceIte, pass]
        obtain ⟨w2, s, e2, l2, d2⟩ := query_assign_dom fuel hf (fun (env : ebb_motion_queryVoltage_Env) v => { env with raw_string := v })
          (fun fuel env => ioCall3 (ebb_serial_query fuel) (ok env.port_name) (ok (.str ['Q', 'C', '\r'])) (ok env.verbose))
          ⟨.port, vb, .unbound, .unbound, .unbound, .unbound⟩ w1 ['Q', 'C', '\r'] (by decide) vb hd1 rfl
        refine ⟨true, ⟨w2, ?_, ?_⟩, fun _ => ⟨fun _ => ⟨w1, h⟩, fun _ => rfl⟩⟩
        · rw [outWorld_run]
          unfold ebb_motion_queryVoltage_if1
          simp only [block_cons2, block_one]
          refine flowWorld_seq (pureS_return fun _ _ => pureE_ok _) fuel _ w w2 ?_
          rw [guard_port (fun env : ebb_motion_queryVoltage_Env => env.port_name) _ _ fuel _ w rfl]
          rw [seq_norm hif2, seq_norm e2]
          refine pureS_seq (pureS_assign _ fun _ _ => pureE_app1 _ (pureE_load _))
            (pureS_seq (pureS_assign _ fun _ _ => pureE_app1 _ (pureE_load _)) (pureS_seq ?_ ?_)) fuel _ w2
          · unfold ebb_motion_queryVoltage_if3
            exact pureS_ifte (fun _ _ => pureE_app2 _ (pureE_load _) (pureE_ok _))
              (pureS_assign _ fun _ _ => pureE_app1 _ (pureE_app2 _ (pureE_load _) (pureE_ok _)))
              (pureS_return fun _ _ => pureE_ok _)
          · unfold ebb_motion_queryVoltage_if4
            exact pureS_ifte (fun _ _ => pureE_app2 _ (pureE_load _) (pureE_ok _)) (pureS_return fun _ _ => pureE_ok _) pureS_pass
        · rw [l2, hl1, legacyEmit_voltage]
          simp [wire0, lit_QC]
    · have hif2 : ebb_motion_queryVoltage_if2 fuel ⟨.port, vb, .unbound, .unbound, .unbound, .unbound⟩ w
          = .exc .invalidVersion ⟨.port, vb, .unbound, .unbound, .unbound, .unbound⟩ w1 := by
        unfold ebb_motion_queryVoltage_if2
        simp only [ifte, not_, PyObj.bind, mcall2_ok_apply, h, ofOut_exc]
      refine ⟨false, hclosed _ hif2 (fun _ _ hh => by cases hh) rfl, fun _ => ⟨fun hh => (by cases hh), fun hh => ?_⟩⟩
      obtain ⟨w', hh⟩ := hh
      rw [h] at hh
      cases hh

end C06Gen
end Plotink
