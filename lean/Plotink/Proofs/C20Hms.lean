import Plotink.Model.C20
import Mathlib.Tactic.Linarith
import Mathlib.Tactic.NormNum
import Mathlib.Tactic.Push
import Mathlib.Data.Rat.Floor
/-! Helper lemmas for C20 (format_hms): half-to-even rounding, decimal rendering and reading. -/
namespace Plotink
namespace C20
open Py

/-! ### `roundHE` -/

theorem roundHE_cases (q : Rat) :
    roundHE q = q.floor ∨ roundHE q = q.floor + 1 := by
  unfold roundHE
  simp only
  split_ifs <;> simp

theorem roundHE_err (q : Rat) : ((roundHE q : Int) : Rat) - q ≤ 1/2 ∧ q - ((roundHE q : Int) : Rat) ≤ 1/2 := by
  have h1 := Rat.floor_le q
  have h2 := Rat.lt_floor_add_one q
  push_cast at h2
  unfold roundHE
  simp only
  split_ifs with a b c
  · constructor <;> linarith
  · push_cast; constructor <;> linarith
  · constructor <;> linarith
  · push_cast; constructor <;> linarith

theorem roundHE_abs_err (q : Rat) : |((roundHE q : Int) : Rat) - q| ≤ 1/2 := by
  obtain ⟨h1, h2⟩ := roundHE_err q
  rw [abs_le]; constructor <;> linarith

/-- `roundHE q` is *a* nearest integer -/
theorem roundHE_nearest (q : Rat) (z : Int) : |((roundHE q : Int) : Rat) - q| ≤ |(z : Rat) - q| := by
  by_cases h : z = roundHE q
  · subst h; exact le_refl _
  · have herr := roundHE_abs_err q
    have hne : (1 : Rat) ≤ |(z : Rat) - ((roundHE q : Int) : Rat)| := by
      have : (1 : Int) ≤ |z - roundHE q| := Int.one_le_abs (sub_ne_zero.mpr h)
      have h' : ((1 : Int) : Rat) ≤ ((|z - roundHE q| : Int) : Rat) := by exact_mod_cast this
      simpa using h'
    have tri : |(z : Rat) - ((roundHE q : Int) : Rat)| ≤ |(z : Rat) - q| + |((roundHE q : Int) : Rat) - q| := by
      have := abs_sub_le (z : Rat) q ((roundHE q : Int) : Rat)
      rwa [abs_sub_comm q _] at this
    linarith

theorem floor_le_roundHE (q : Rat) : q.floor ≤ roundHE q := by
  rcases roundHE_cases q with h | h <;> omega

theorem le_roundHE_of_le (k : Int) (q : Rat) (h : (k : Rat) ≤ q) : k ≤ roundHE q :=
  le_trans (Rat.le_floor_iff.mpr h) (floor_le_roundHE q)

theorem roundHE_le_of_le (k : Int) (q : Rat) (h : q ≤ (k : Rat)) : roundHE q ≤ k := by
  by_contra hc
  push Not at hc
  have h1 : k + 1 ≤ roundHE q := hc
  rcases roundHE_cases q with e | e
  · have : (k : Rat) + 1 ≤ (q.floor : Rat) := by
      have : k + 1 ≤ q.floor := by omega
      exact_mod_cast this
    have := Rat.floor_le q
    linarith
  · have hk : k ≤ q.floor := by omega
    have hk' : (k : Rat) ≤ q.floor := by exact_mod_cast hk
    have hfl := Rat.floor_le q
    have hq : q = (q.floor : Rat) := le_antisymm (by linarith) hfl
    -- q is an integer, so roundHE q = q.floor
    have : roundHE q = q.floor := by
      unfold roundHE
      simp only
      have : q - (q.floor : Rat) = 0 := by linarith
      rw [this]
      norm_num
    omega

theorem roundHE_intCast (k : Int) : roundHE (k : Rat) = k :=
  le_antisymm (roundHE_le_of_le k _ (le_refl _)) (le_roundHE_of_le k _ (le_refl _))

/-- a value exactly half way between two integers goes to the even one -/
theorem roundHE_half (k : Int) : roundHE ((k : Rat) + 1/2) = if k % 2 = 0 then k else k + 1 := by
  have hf : ((k : Rat) + 1/2).floor = k := by
    apply le_antisymm
    · have : ((k : Rat) + 1/2).floor < k + 1 := by
        rw [Rat.floor_lt_iff]; push_cast; linarith
      omega
    · rw [Rat.le_floor_iff]; linarith
  unfold roundHE
  simp only
  rw [hf]
  have : (k : Rat) + 1/2 - (k : Rat) = 1/2 := by ring
  rw [this]
  norm_num

/-! ### digits -/

theorem digitChar_toNat (d : Nat) (h : d < 10) : (digitChar d).toNat = 48 + d := by
  have : d = 0 ∨ d = 1 ∨ d = 2 ∨ d = 3 ∨ d = 4 ∨ d = 5 ∨ d = 6 ∨ d = 7 ∨ d = 8 ∨ d = 9 := by omega
  rcases this with h | h | h | h | h | h | h | h | h | h <;> subst h <;> rfl

theorem isDigit_digitChar (d : Nat) (h : d < 10) : isDigit (digitChar d) = true := by
  unfold isDigit
  rw [digitChar_toNat d h]
  simp only [Bool.and_eq_true, decide_eq_true_eq]
  omega

theorem digitVal_digitChar (d : Nat) (h : d < 10) : digitVal (digitChar d) = d := by
  unfold digitVal
  rw [digitChar_toNat d h]
  omega

theorem natDigits_lt (n : Nat) (h : n < 10) : natDigits n = [digitChar n] := by
  rw [natDigits, if_pos h]

theorem natDigits_ge (n : Nat) (h : ¬ n < 10) : natDigits n = natDigits (n / 10) ++ [digitChar (n % 10)] := by
  rw [natDigits, if_neg h]

theorem natDigits_all_digit (n : Nat) : ∀ c ∈ natDigits n, isDigit c = true := by
  induction n using Nat.strong_induction_on with
  | _ n ih =>
    by_cases h : n < 10
    · rw [natDigits_lt n h]
      intro c hc
      simp only [List.mem_singleton] at hc
      subst hc
      exact isDigit_digitChar n h
    · rw [natDigits_ge n h]
      intro c hc
      rw [List.mem_append] at hc
      rcases hc with hc | hc
      · exact ih (n / 10) (by omega) c hc
      · simp only [List.mem_singleton] at hc
        subst hc
        exact isDigit_digitChar _ (by omega)

/-- value of a digit string read left to right -/
def valOf (acc : Nat) (ds : List Char) : Nat := ds.foldl (fun a c => 10 * a + digitVal c) acc

theorem valOf_natDigits (n : Nat) : valOf 0 (natDigits n) = n := by
  induction n using Nat.strong_induction_on with
  | _ n ih =>
    by_cases h : n < 10
    · rw [natDigits_lt n h]
      simp [valOf, digitVal_digitChar n h]
    · rw [natDigits_ge n h]
      unfold valOf
      rw [List.foldl_append]
      have := ih (n / 10) (by omega)
      unfold valOf at this
      rw [this]
      simp only [List.foldl_cons, List.foldl_nil]
      rw [digitVal_digitChar _ (by omega)]
      omega

theorem readNat_nil (acc : Nat) : readNat acc [] = (acc, []) := by rw [readNat]

theorem readNat_cons_digit (acc : Nat) (c : Char) (r : List Char) (h : isDigit c = true) :
    readNat acc (c :: r) = readNat (10 * acc + digitVal c) r := by
  rw [readNat, if_pos h]

theorem readNat_cons_stop (acc : Nat) (c : Char) (r : List Char) (h : isDigit c = false) :
    readNat acc (c :: r) = (acc, c :: r) := by
  rw [readNat]
  simp [h]

theorem readNat_append (ds : List Char) (hds : ∀ c ∈ ds, isDigit c = true) :
    ∀ (acc : Nat) (rest : List Char), readNat acc (ds ++ rest) = readNat (valOf acc ds) rest := by
  induction ds with
  | nil => intro acc rest; rfl
  | cons d ds ih =>
    intro acc rest
    have hd : isDigit d = true := hds d (by simp)
    rw [List.cons_append, readNat_cons_digit _ _ _ hd, ih (fun c hc => hds c (by simp [hc]))]
    rfl

/-- reading back a rendered number that is followed by a non-digit -/
theorem readNat_natDigits (n : Nat) (c : Char) (r : List Char) (hc : isDigit c = false) :
    readNat 0 (natDigits n ++ c :: r) = (n, c :: r) := by
  rw [readNat_append _ (natDigits_all_digit n), valOf_natDigits, readNat_cons_stop _ _ _ hc]

theorem readNat_two (n : Nat) (hn : n < 100) (c : Char) (r : List Char) (hc : isDigit c = false) :
    readNat 0 (two n ++ c :: r) = (n, c :: r) := by
  unfold two
  have h1 : n / 10 < 10 := by omega
  have h2 : n % 10 < 10 := by omega
  simp only [List.cons_append, List.nil_append]
  rw [readNat_cons_digit _ _ _ (isDigit_digitChar _ h1), readNat_cons_digit _ _ _ (isDigit_digitChar _ h2),
    readNat_cons_stop _ _ _ hc, digitVal_digitChar _ h1, digitVal_digitChar _ h2]
  congr 1
  omega

theorem readNat_two_end (n : Nat) (hn : n < 100) : (readNat 0 (two n)).1 = n := by
  unfold two
  have h1 : n / 10 < 10 := by omega
  have h2 : n % 10 < 10 := by omega
  rw [readNat_cons_digit _ _ _ (isDigit_digitChar _ h1), readNat_cons_digit _ _ _ (isDigit_digitChar _ h2),
    readNat_nil, digitVal_digitChar _ h1, digitVal_digitChar _ h2]
  show 10 * (10 * 0 + n / 10) + n % 10 = n
  omega

theorem intDigits_natCast (n : Nat) : intDigits (n : Int) = natDigits n := by
  unfold intDigits
  rw [if_neg (by omega)]
  simp

/-- `{:02}` of a number below 100 is exactly two digits -/
theorem pad2_natCast (n : Nat) (hn : n < 100) : pad2 (n : Int) = two n := by
  unfold pad2 two
  simp only
  rw [intDigits_natCast]
  by_cases h : n < 10
  · rw [natDigits_lt n h]
    have h0 : n / 10 = 0 := by omega
    have h1 : n % 10 = n := by omega
    rw [h0, h1]
    simp [digitChar]
  · rw [natDigits_ge n h, natDigits_lt (n / 10) (by omega)]
    simp

theorem isDigit_space : isDigit ' ' = false := by decide
theorem isDigit_colon : isDigit ':' = false := by decide
theorem isDigit_dot : isDigit '.' = false := by decide

theorem sSeconds_eq : sSeconds = ' ' :: ['S', 'e', 'c', 'o', 'n', 'd', 's'] := by rfl
theorem sMinSec_head : ∃ t, sMinSec = ' ' :: t := ⟨_, rfl⟩
theorem sHrMinSec_head : ∃ t, sHrMinSec = ' ' :: t := ⟨_, rfl⟩

/-! ### decoding the three long forms and the short form -/

theorem decode_ss (s : Nat) (hs : s < 100) (t : List Char) : decode (two s ++ ' ' :: t) = s := by
  unfold decode
  simp [readNat_two s hs ' ' t isDigit_space]

theorem decode_mss (m s : Nat) (hs : s < 100) (t : List Char) :
    decode (natDigits m ++ ':' :: (two s ++ ' ' :: t)) = m * 60 + s := by
  unfold decode
  simp [readNat_natDigits m ':' _ isDigit_colon, readNat_two s hs ' ' t isDigit_space]

theorem decode_hmmss (h m s : Nat) (hm : m < 100) (hs : s < 100) (t : List Char) :
    decode (natDigits h ++ ':' :: (two m ++ ':' :: (two s ++ ' ' :: t))) = h * 3600 + m * 60 + s := by
  unfold decode
  simp [readNat_natDigits h ':' _ isDigit_colon, readNat_two m hm ':' _ isDigit_colon,
    readNat_two s hs ' ' t isDigit_space]

theorem decodeMilli_fixed (a b c d : Nat) (hb : b < 10) (hc : c < 10) (hd : d < 10) (t : List Char) :
    decodeMilli (natDigits a ++ '.' :: digitChar b :: digitChar c :: digitChar d :: t) = a * 1000 + (100 * b + 10 * c + d) := by
  unfold decodeMilli
  simp only
  rw [readNat_natDigits a '.' _ isDigit_dot]
  simp only [List.head?_cons, List.tail_cons, if_true, List.take_succ_cons, List.take_zero]
  rw [readNat_cons_digit _ _ _ (isDigit_digitChar _ hb), readNat_cons_digit _ _ _ (isDigit_digitChar _ hc),
    readNat_cons_digit _ _ _ (isDigit_digitChar _ hd), readNat_nil,
    digitVal_digitChar _ hb, digitVal_digitChar _ hc, digitVal_digitChar _ hd]
  show a * 1000 + (10 * (10 * (10 * 0 + b) + c) + d) = _
  omega

/-! ### the model's text in each branch, in terms of a natural number of seconds -/

theorem formatHms_seconds (f64 : Rat → Rat) (q : Rat) :
    formatHms f64 q false =
      if q < 10 then fixed3 (roundHE (1000 * q)) ++ sSeconds
      else if roundHE q < 60 then pad2 (roundHE q) ++ sSeconds
      else if roundHE q < 3600 then intDigits (roundHE q / 60) ++ ':' :: pad2 (roundHE q % 60) ++ sMinSec
      else intDigits (roundHE q / 60 / 60) ++ ':' :: pad2 (roundHE q / 60 % 60) ++ ':' :: pad2 (roundHE q % 60) ++ sHrMinSec := by
  rfl

theorem formatHms_ms (f64 : Rat → Rat) (q : Rat) :
    formatHms f64 q true = formatHms f64 (f64 (q / 1000)) false := by
  rfl

theorem fixed3_natCast (n : Nat) :
    fixed3 (n : Int) = natDigits (n / 1000) ++ '.' :: digitChar (n / 100 % 10) :: digitChar (n / 10 % 10) :: [digitChar (n % 10)] := by
  unfold fixed3
  simp only
  rw [if_neg (by omega)]
  simp

end C20
end Plotink
