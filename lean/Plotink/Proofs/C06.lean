import Plotink.Model.C06
import Std.Data.String.ToInt
/-! Helper lemmas for C06 (pause loops, clamp, rendering). -/
namespace Plotink
namespace C06

/-! ### clamp -/

theorem clampRes_eq (r : Int) : clampRes r = clampDoc r := by
  unfold clampRes clampDoc
  split
  · omega
  · split <;> omega

theorem clampDoc_range (r : Int) : 0 ≤ clampDoc r ∧ clampDoc r ≤ 5 := by
  unfold clampDoc
  split
  · omega
  · split <;> omega

theorem clampDoc_of_range {r : Int} (h0 : 0 ≤ r) (h5 : r ≤ 5) : clampDoc r = r := by
  unfold clampDoc
  split
  · omega
  · split <;> omega

/-! ### pause loops -/

theorem ebb3PauseLoop_eq_legacy (chunk : Int) :
    ∀ (fuel : Nat) (n : Int), ebb3PauseLoop chunk fuel n = legacyPauseLoop chunk fuel n := by
  intro fuel
  induction fuel with
  | zero => intro n; rfl
  | succ k ih =>
    intro n
    simp only [ebb3PauseLoop, legacyPauseLoop]
    by_cases h : n > 0
    · have hm : max n 1 = (if n < 1 then 1 else n) := by split <;> omega
      simp only [h, if_true, hm, ih]
    · simp only [h, if_false]

/-- the loop with an arbitrary chunk ≥ 1: every duration is in `1..chunk` and they add up to `n`
(to `0` for `n ≤ 0`), provided the fuel covers `n` iterations -/
theorem legacyPauseLoop_spec (chunk : Int) (hc : 1 ≤ chunk) :
    ∀ (fuel : Nat) (n : Int), n.toNat ≤ fuel →
      (∀ d ∈ legacyPauseLoop chunk fuel n, 1 ≤ d ∧ d ≤ chunk) ∧
      (legacyPauseLoop chunk fuel n).sum = (if n ≤ 0 then 0 else n) := by
  intro fuel
  induction fuel with
  | zero =>
    intro n hn
    have : n ≤ 0 := by omega
    simp [legacyPauseLoop, this]
  | succ k ih =>
    intro n hn
    simp only [legacyPauseLoop]
    by_cases h : n > 0
    · simp only [h, if_true]
      by_cases hbig : n > chunk
      · simp only [hbig, if_true]
        obtain ⟨h1, h2⟩ := ih (n - chunk) (by omega)
        refine ⟨?_, ?_⟩
        · intro d hd
          rcases List.mem_cons.mp hd with rfl | hd
          · omega
          · exact h1 d hd
        · rw [List.sum_cons, h2]
          split <;> split <;> omega
      · have hlt : ¬ n < 1 := by omega
        simp only [hbig, if_false, hlt]
        obtain ⟨h1, h2⟩ := ih (n - n) (by omega)
        refine ⟨?_, ?_⟩
        · intro d hd
          rcases List.mem_cons.mp hd with rfl | hd
          · omega
          · exact h1 d hd
        · rw [List.sum_cons, h2]
          split <;> split <;> omega
    · simp only [h, if_false]
      have : n ≤ 0 := by omega
      simp [this]

theorem legacyPauseLoop_nonpos (chunk : Int) (fuel : Nat) (n : Int) (h : n ≤ 0) :
    legacyPauseLoop chunk fuel n = [] := by
  cases fuel with
  | zero => rfl
  | succ k =>
    have : ¬ n > 0 := by omega
    simp [legacyPauseLoop, this]

/-- with the chunk of the source (750) the loop is the canonical chunking -/
theorem legacyPauseLoop_eq_doc :
    ∀ (fuel : Nat) (n : Int), n.toNat ≤ fuel → legacyPauseLoop 750 fuel n = docPause n := by
  intro fuel
  induction fuel with
  | zero =>
    intro n hn
    have : n ≤ 0 := by omega
    simp [legacyPauseLoop, docPause, this]
  | succ k ih =>
    intro n hn
    simp only [legacyPauseLoop]
    by_cases h : n > 0
    · simp only [h, if_true]
      by_cases hbig : n > 750
      · simp only [hbig, if_true]
        rw [ih (n - 750) (by omega)]
        have hn0 : ¬ n ≤ 0 := by omega
        have hm0 : ¬ n - 750 ≤ 0 := by omega
        have hq : (n / 750).toNat = ((n - 750) / 750).toNat + 1 := by omega
        have hr : n % 750 = (n - 750) % 750 := by omega
        simp only [docPause, hn0, hm0, if_false, hq, hr, List.replicate_succ, List.cons_append]
      · have hlt : ¬ n < 1 := by omega
        simp only [hbig, if_false, hlt]
        rw [legacyPauseLoop_nonpos 750 k (n - n) (by omega)]
        have hn0 : ¬ n ≤ 0 := by omega
        by_cases h750 : n = 750
        · subst h750; decide
        · have hq : (n / 750).toNat = 0 := by omega
          have hr : n % 750 = n := by omega
          have hr0 : ¬ n = 0 := by omega
          simp [docPause, hn0, hq, hr, hr0]
    · simp only [h, if_false]
      have : n ≤ 0 := by omega
      simp [docPause, this]

/-! ### low-level move, enable, 32-bit variable -/

theorem lm_cond_iff (r1 s1 a1 r2 s2 a2 : Int) :
    ((r1 = 0 ∧ a1 = 0 ∨ s1 = 0) ∧ (r2 = 0 ∧ a2 = 0 ∨ s2 = 0)) ↔
      ¬ (axisCanMove r1 s1 a1 ∨ axisCanMove r2 s2 a2) := by
  unfold axisCanMove; omega

theorem oneZero_iff (c1 c2 : Int) :
    (c1 ≠ c2 ∧ c1 * c2 = 0) ↔ ((c1 = 0 ∧ c2 ≠ 0) ∨ (c1 ≠ 0 ∧ c2 = 0)) := by
  rw [Int.mul_eq_zero]; omega

theorem old_eq_scale (b : Board) :
    (if b.res1 ≠ 0 then b.res1 else (if b.res2 ≠ 0 then b.res2 else 0)) = scaleInUse b := by
  unfold scaleInUse
  split
  · rfl
  · split <;> omega

theorem ebb3Enable_eq_doc (b : Board) (r1 r2 : Int) :
    ebb3Enable b r1 r2 = documented b (.enable r1 r2) := by
  have h1 : min (max r1 0) 5 = clampDoc r1 := clampRes_eq r1
  have h2 : min (max r2 0) 5 = clampDoc r2 := clampRes_eq r2
  simp only [ebb3Enable, documented, h1, h2, old_eq_scale, oneZero_iff]
  by_cases ha : clampDoc r1 = 0 <;> by_cases hb : clampDoc r2 = 0 <;>
    by_cases hs : scaleInUse b = clampDoc r2 <;> simp [ha, hb, hs]

theorem docEnable_em_range (b : Board) (r1 r2 : Int) :
    ∀ c ∈ documented b (.enable r1 r2), c.name = "EM" → ∀ a ∈ c.args, 0 ≤ a ∧ a ≤ 5 := by
  have g1 := clampDoc_range r1
  have g2 := clampDoc_range r2
  intro c hc hn a ha
  simp [documented] at hc
  rcases hc with ⟨_, rfl⟩ | ⟨_, rfl | ⟨_, rfl⟩⟩ | rfl
  · simp at hn
  · simp at hn
  · simp at ha; rcases ha with rfl | rfl <;> exact g2
  · simp at ha; rcases ha with rfl | rfl
    · exact g1
    · exact g2

theorem docEnable_last (b : Board) (r1 r2 : Int) :
    (documented b (.enable r1 r2)).getLast? = some ⟨"EM", [clampDoc r1, clampDoc r2]⟩ := by
  simp [documented]

theorem varWriteInt32_eq_doc (b : Board) (v i : Int) (l : List Cmd)
    (h : (toBytes4 v).map (fun bytes => writeBytes bytes i) = some l) :
    l = documented b (.varWriteInt32 v i) := by
  unfold toBytes4 at h
  split at h
  · rename_i hr
    simp only [Option.map_some, Option.some.injEq] at h
    subst h
    have e0 : v % 4294967296 / 16777216 = v / 16777216 % 256 := by omega
    have e1 : v % 4294967296 / 65536 % 256 = v / 65536 % 256 := by omega
    have e2 : v % 4294967296 / 256 % 256 = v / 256 % 256 := by omega
    have e3 : v % 4294967296 % 256 = v % 256 := by omega
    simp only [documented, int32Bytes, writeBytes, e0, e1, e2, e3]
    have a1 : i + 1 + 1 = i + 2 := by omega
    have a2 : i + 2 + 1 = i + 3 := by omega
    simp [a1, a2]
  · simp at h

/-! ### rendering: the arguments of a request line are recoverable from its text -/

/-- characters that can occur in the decimal rendering of an integer -/
def numChar (c : Char) : Prop := c.isDigit = true ∨ c = '-'

theorem numChar_of_mem_repr {a : Int} {c : Char} (h : c ∈ (Int.repr a).toList) : numChar c := by
  rw [Int.repr_eq_if] at h
  split at h
  · rw [Nat.toList_repr] at h
    exact Or.inl (Nat.isDigit_of_mem_toDigits (by omega) (by omega) h)
  · rw [String.toList_append] at h
    rcases List.mem_append.mp h with h | h
    · have : c = '-' := by simpa using h
      exact Or.inr this
    · rw [Nat.toList_repr] at h
      exact Or.inl (Nat.isDigit_of_mem_toDigits (by omega) (by omega) h)

theorem comma_not_numChar : ¬ numChar ',' := by
  intro h
  rcases h with h | h
  · exact absurd h (by decide)
  · exact absurd h (by decide)

/-- `l₁ ++ r₁ = l₂ ++ r₂`, no comma inside `l₁`, `l₂`, and `r₁`, `r₂` empty or starting with a comma:
the split is unique -/
theorem split_unique : ∀ (l₁ l₂ r₁ r₂ : List Char),
    (∀ c ∈ l₁, c ≠ ',') → (∀ c ∈ l₂, c ≠ ',') →
    (r₁ = [] ∨ ∃ t, r₁ = ',' :: t) → (r₂ = [] ∨ ∃ t, r₂ = ',' :: t) →
    l₁ ++ r₁ = l₂ ++ r₂ → l₁ = l₂ ∧ r₁ = r₂ := by
  intro l₁
  induction l₁ with
  | nil =>
    intro l₂ r₁ r₂ _ h2 hr1 _ h
    cases l₂ with
    | nil => exact ⟨rfl, by simpa using h⟩
    | cons x xs =>
      exfalso
      rcases hr1 with rfl | ⟨t, rfl⟩
      · simp at h
      · simp only [List.nil_append, List.cons_append, List.cons.injEq] at h
        exact h2 x (List.mem_cons_self) h.1.symm
  | cons y ys ih =>
    intro l₂ r₁ r₂ h1 h2 hr1 hr2 h
    cases l₂ with
    | nil =>
      exfalso
      rcases hr2 with rfl | ⟨t, rfl⟩
      · simp at h
      · simp only [List.nil_append, List.cons_append, List.cons.injEq] at h
        exact h1 y (List.mem_cons_self) h.1
    | cons x xs =>
      simp only [List.cons_append, List.cons.injEq] at h
      obtain ⟨hxy, hrest⟩ := h
      obtain ⟨ha, hb⟩ := ih xs r₁ r₂ (fun c hc => h1 c (List.mem_cons_of_mem _ hc))
        (fun c hc => h2 c (List.mem_cons_of_mem _ hc)) hr1 hr2 hrest
      exact ⟨by rw [hxy, ha], hb⟩

theorem argsText_toList_shape (l : List Int) :
    (argsText l).toList = [] ∨ ∃ t, (argsText l).toList = ',' :: t := by
  cases l with
  | nil => left; simp [argsText]
  | cons a as =>
    right
    refine ⟨(Int.repr a).toList ++ (argsText as).toList, ?_⟩
    simp [argsText, String.toList_append]

theorem argsText_inj : ∀ (l₁ l₂ : List Int), argsText l₁ = argsText l₂ → l₁ = l₂ := by
  intro l₁
  induction l₁ with
  | nil =>
    intro l₂ h
    cases l₂ with
    | nil => rfl
    | cons b bs =>
      exfalso
      have := congrArg String.toList h
      simp [argsText, String.toList_append] at this
  | cons a as ih =>
    intro l₂ h
    cases l₂ with
    | nil =>
      exfalso
      have := congrArg String.toList h
      simp [argsText, String.toList_append] at this
    | cons b bs =>
      have hl := congrArg String.toList h
      simp only [argsText, String.toList_append] at hl
      have hc : (",":String).toList = [','] := by decide
      rw [hc] at hl
      simp only [List.cons_append, List.nil_append, List.cons.injEq, true_and] at hl
      obtain ⟨hab, hrest⟩ := split_unique _ _ _ _
        (fun c hc h => comma_not_numChar (h ▸ numChar_of_mem_repr hc))
        (fun c hc h => comma_not_numChar (h ▸ numChar_of_mem_repr hc))
        (argsText_toList_shape as) (argsText_toList_shape bs) hl
      have e1 : a = b := Int.repr_injective (String.toList_inj.mp hab)
      have e2 : as = bs := ih bs (String.toList_inj.mp hrest)
      rw [e1, e2]

theorem Cmd.wire_inj_args {c₁ c₂ : Cmd} (hn : c₁.name = c₂.name) (h : c₁.wire = c₂.wire) :
    c₁.args = c₂.args := by
  unfold Cmd.wire Cmd.text at h
  rw [hn] at h
  have h1 := (String.append_left_inj "\r").mp h
  have h2 := (String.append_right_inj c₂.name).mp h1
  exact argsText_inj _ _ h2

end C06
end Plotink
