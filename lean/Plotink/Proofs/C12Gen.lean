import Plotink.Gen.parseLengthWithUnits
import Plotink.Gen.unitsToUserUnits
import Plotink.Gen.userUnitToUnits
import Plotink.Proofs.PyLemmas
import Plotink.Proofs.PyEnc
import Plotink.Proofs.C12Core
import Plotink.Proofs.C12Parse
import Mathlib.Algebra.Order.Ring.Abs

/-! # C12 — the source-regenerated `parseLengthWithUnits` / `unitsToUserUnits` / `userUnitToUnits`

Regenerated from `plotink/plot_utils.py` on every run.  A Python `str` is `Py.Val.str` over `String`; the hand model
`Model/C12.lean` is over `List Char`.

* `parse_core` / `parse_bridge` — the generated parser (strip, the suffix cascade `string[-2:] == 'px'` …, `float()`
  inside `try`/`except ValueError`) is the model's `parseLength` (`splitUnit ∘ pyStrip`, `parseFloat`), for every
  rounding mode: a finite numeral `q` gives `(flt (R.f64 q), unit)`, a rejected one `(None, None)`.  Numerals that
  `float()` reads as `inf`/`nan` are outside the generated code's value domain (no claim).
* The converters are *not* literally the hand model: the model reads the float literals `25.4`, `2.54`, `101.6`
  as decimals (`127/5` …), the generated code carries the doubles the source denotes.  So the table theorems are
  proved directly about the generated code in exact arithmetic (`Rounding.exact`): `uu_tables`, `back_tables`
  (value × / ÷ `genFactor` / `genBackFactor`), `genFactor_close` / `genBackFactor_close` (those factors are the SVG
  factors up to relative `2^-52`; exactly for px, in, pt, pc), `gen_roundtrip`, the `%` and `None` cases. -/

namespace Plotink
namespace C12
open Py Py.Val PyFloat
set_option linter.unusedSimpArgs false

/-! ### string primitives on `ofL` values -/
theorem str_strip_str (s : String) : Py.str_strip (.str s) = Py.ofL (pyStrip s.toList) := rfl
theorem slice_last2 (t : List Char) : Py.slice (Py.ofL t) (.int (-2)) .none_ = Py.ofL (lastN 2 t) := by
  simp only [Py.ofL, Py.slice, Py.sliceBound, String.toList_ofList, lastN]
  rw [if_pos (by decide : (-2 : Int) < 0)]
  have : ((-2 : Int) + (t.length : Int)).toNat = t.length - 2 := by omega
  rw [this, List.take_length]
theorem slice_last1 (t : List Char) : Py.slice (Py.ofL t) (.int (-1)) .none_ = Py.ofL (lastN 1 t) := by
  simp only [Py.ofL, Py.slice, Py.sliceBound, String.toList_ofList, lastN]
  rw [if_pos (by decide : (-1 : Int) < 0)]
  have : ((-1 : Int) + (t.length : Int)).toNat = t.length - 1 := by omega
  rw [this, List.take_length]
theorem slice_drop2 (t : List Char) : Py.slice (Py.ofL t) .none_ (.int (-2)) = Py.ofL (dropLastN 2 t) := by
  simp only [Py.ofL, Py.slice, Py.sliceBound, String.toList_ofList, dropLastN]
  rw [if_pos (by decide : (-2 : Int) < 0)]
  have : ((-2 : Int) + (t.length : Int)).toNat = t.length - 2 := by omega
  rw [this, List.drop_zero]
theorem slice_drop1 (t : List Char) : Py.slice (Py.ofL t) .none_ (.int (-1)) = Py.ofL (dropLastN 1 t) := by
  simp only [Py.ofL, Py.slice, Py.sliceBound, String.toList_ofList, dropLastN]
  rw [if_pos (by decide : (-1 : Int) < 0)]
  have : ((-1 : Int) + (t.length : Int)).toNat = t.length - 1 := by omega
  rw [this, List.drop_zero]
theorem eq_ofL_str (a : List Char) (b : String) : Py.eq (Py.ofL a) (.str b) = decide (a = b.toList) := by
  show (String.ofList a == b) = _
  by_cases h : a = b.toList
  · subst h; simp
  · have : String.ofList a ≠ b := by
      intro e; apply h; rw [← e, String.toList_ofList]
    simp [h, this]
/-- what `float(str)` returns in the generated code, from the grammar's verdict -/
def fltOf (R : Rounding) : Option Num → Val
  | some (.fin q) => .flt (R.f64 q)
  | _ => .err
theorem float_ofL (R : Rounding) (t : List Char) : Py.float_ R (Py.ofL t) = fltOf R (parseFloat t) := by
  simp only [Py.ofL, Py.float_, String.toList_ofList]
  cases parseFloat t with
  | none => rfl
  | some v => cases v <;> rfl

theorem lit_px : ("px" : String).toList = ['p','x'] := by decide
theorem lit_in : ("in" : String).toList = ['i','n'] := by decide
theorem lit_mm : ("mm" : String).toList = ['m','m'] := by decide
theorem lit_cm : ("cm" : String).toList = ['c','m'] := by decide
theorem lit_pt : ("pt" : String).toList = ['p','t'] := by decide
theorem lit_pc : ("pc" : String).toList = ['p','c'] := by decide
theorem lit_Q : ("Q" : String).toList = ['Q'] := by decide
theorem lit_q : ("q" : String).toList = ['q'] := by decide
theorem lit_pct : ("%" : String).toList = ['%'] := by decide
theorem lit_empty : ("" : String).toList = [] := by decide

/-- the result tuple of the generated parser, from the model's verdict -/
def encParse (R : Rounding) (su : List Char × List Char) : Val :=
  match fltOf R (parseFloat su.1) with
  | .err => .tup [.none_, .none_]
  | v => .tup [v, Py.ofL su.2]

theorem parse_tail (R : Rounding) (body : List Char) (u : String) :
    (if Py.isErr (Py.float_ R (Py.ofL body)) = true then Val.tup [.none_, .none_]
      else Val.tup [Py.float_ R (Py.ofL body), .str u]) = encParse R (body, u.toList) := by
  rw [float_ofL]
  unfold encParse
  simp only [Py.ofL, String.ofList_toList]
  cases parseFloat body with
  | none => rfl
  | some v => cases v <;> rfl

theorem parse_core (R : Rounding) (amb : Nat) (s : String) :
    Gen.parseLengthWithUnits R amb (.str s) = encParse R (splitUnit (pyStrip s.toList)) := by
  generalize ht : pyStrip s.toList = t
  unfold Gen.parseLengthWithUnits splitUnit
  by_cases h1 : lastN 2 t = ['p','x']
  · simp only [Py.isNone, Bool.false_eq_true, if_false, str_strip_str, ht, slice_last2, slice_last1, slice_drop2, slice_drop1, eq_ofL_str, lit_px, lit_in, lit_mm, lit_cm, lit_pt, lit_pc, lit_Q, lit_q, lit_pct, decide_true, decide_false, if_true, true_or, or_true, false_or, or_false, Bool.true_or, Bool.or_true, Bool.false_or, Bool.or_false, Bool.or_self, List.cons.injEq, Char.reduceEq, and_true, and_false, false_and, and_self, h1]
    rw [parse_tail, lit_px]
  by_cases h2 : lastN 2 t = ['i','n']
  · simp only [Py.isNone, Bool.false_eq_true, if_false, str_strip_str, ht, slice_last2, slice_last1, slice_drop2, slice_drop1, eq_ofL_str, lit_px, lit_in, lit_mm, lit_cm, lit_pt, lit_pc, lit_Q, lit_q, lit_pct, decide_true, decide_false, if_true, true_or, or_true, false_or, or_false, Bool.true_or, Bool.or_true, Bool.false_or, Bool.or_false, Bool.or_self, List.cons.injEq, Char.reduceEq, and_true, and_false, false_and, and_self, h1, h2]
    rw [parse_tail, lit_in]
  by_cases h3 : lastN 2 t = ['m','m']
  · simp only [Py.isNone, Bool.false_eq_true, if_false, str_strip_str, ht, slice_last2, slice_last1, slice_drop2, slice_drop1, eq_ofL_str, lit_px, lit_in, lit_mm, lit_cm, lit_pt, lit_pc, lit_Q, lit_q, lit_pct, decide_true, decide_false, if_true, true_or, or_true, false_or, or_false, Bool.true_or, Bool.or_true, Bool.false_or, Bool.or_false, Bool.or_self, List.cons.injEq, Char.reduceEq, and_true, and_false, false_and, and_self, h1, h2, h3]
    rw [parse_tail, lit_mm]
  by_cases h4 : lastN 2 t = ['c','m']
  · simp only [Py.isNone, Bool.false_eq_true, if_false, str_strip_str, ht, slice_last2, slice_last1, slice_drop2, slice_drop1, eq_ofL_str, lit_px, lit_in, lit_mm, lit_cm, lit_pt, lit_pc, lit_Q, lit_q, lit_pct, decide_true, decide_false, if_true, true_or, or_true, false_or, or_false, Bool.true_or, Bool.or_true, Bool.false_or, Bool.or_false, Bool.or_self, List.cons.injEq, Char.reduceEq, and_true, and_false, false_and, and_self, h1, h2, h3, h4]
    rw [parse_tail, lit_cm]
  by_cases h5 : lastN 2 t = ['p','t']
  · simp only [Py.isNone, Bool.false_eq_true, if_false, str_strip_str, ht, slice_last2, slice_last1, slice_drop2, slice_drop1, eq_ofL_str, lit_px, lit_in, lit_mm, lit_cm, lit_pt, lit_pc, lit_Q, lit_q, lit_pct, decide_true, decide_false, if_true, true_or, or_true, false_or, or_false, Bool.true_or, Bool.or_true, Bool.false_or, Bool.or_false, Bool.or_self, List.cons.injEq, Char.reduceEq, and_true, and_false, false_and, and_self, h1, h2, h3, h4, h5]
    rw [parse_tail, lit_pt]
  by_cases h6 : lastN 2 t = ['p','c']
  · simp only [Py.isNone, Bool.false_eq_true, if_false, str_strip_str, ht, slice_last2, slice_last1, slice_drop2, slice_drop1, eq_ofL_str, lit_px, lit_in, lit_mm, lit_cm, lit_pt, lit_pc, lit_Q, lit_q, lit_pct, decide_true, decide_false, if_true, true_or, or_true, false_or, or_false, Bool.true_or, Bool.or_true, Bool.false_or, Bool.or_false, Bool.or_self, List.cons.injEq, Char.reduceEq, and_true, and_false, false_and, and_self, h1, h2, h3, h4, h5, h6]
    rw [parse_tail, lit_pc]
  by_cases h7 : lastN 1 t = ['Q']
  · simp only [Py.isNone, Bool.false_eq_true, if_false, str_strip_str, ht, slice_last2, slice_last1, slice_drop2, slice_drop1, eq_ofL_str, lit_px, lit_in, lit_mm, lit_cm, lit_pt, lit_pc, lit_Q, lit_q, lit_pct, decide_true, decide_false, if_true, true_or, or_true, false_or, or_false, Bool.true_or, Bool.or_true, Bool.false_or, Bool.or_false, Bool.or_self, List.cons.injEq, Char.reduceEq, and_true, and_false, false_and, and_self, h1, h2, h3, h4, h5, h6, h7]
    rw [parse_tail, lit_Q]
  by_cases h8 : lastN 1 t = ['q']
  · simp only [Py.isNone, Bool.false_eq_true, if_false, str_strip_str, ht, slice_last2, slice_last1, slice_drop2, slice_drop1, eq_ofL_str, lit_px, lit_in, lit_mm, lit_cm, lit_pt, lit_pc, lit_Q, lit_q, lit_pct, decide_true, decide_false, if_true, true_or, or_true, false_or, or_false, Bool.true_or, Bool.or_true, Bool.false_or, Bool.or_false, Bool.or_self, List.cons.injEq, Char.reduceEq, and_true, and_false, false_and, and_self, h1, h2, h3, h4, h5, h6, h7, h8]
    rw [parse_tail, lit_Q]
  by_cases h9 : lastN 1 t = ['%']
  · simp only [Py.isNone, Bool.false_eq_true, if_false, str_strip_str, ht, slice_last2, slice_last1, slice_drop2, slice_drop1, eq_ofL_str, lit_px, lit_in, lit_mm, lit_cm, lit_pt, lit_pc, lit_Q, lit_q, lit_pct, decide_true, decide_false, if_true, true_or, or_true, false_or, or_false, Bool.true_or, Bool.or_true, Bool.false_or, Bool.or_false, Bool.or_self, List.cons.injEq, Char.reduceEq, and_true, and_false, false_and, and_self, h1, h2, h3, h4, h5, h6, h7, h8, h9]
    rw [parse_tail, lit_pct]
  · simp only [Py.isNone, Bool.false_eq_true, if_false, str_strip_str, ht, slice_last2, slice_last1, slice_drop2, slice_drop1, eq_ofL_str, lit_px, lit_in, lit_mm, lit_cm, lit_pt, lit_pc, lit_Q, lit_q, lit_pct, decide_true, decide_false, if_true, true_or, or_true, false_or, or_false, Bool.true_or, Bool.or_true, Bool.false_or, Bool.or_false, Bool.or_self, List.cons.injEq, Char.reduceEq, and_true, and_false, false_and, and_self, h1, h2, h3, h4, h5, h6, h7, h8, h9]
    rw [parse_tail, lit_px]


theorem parse_none_arg (R : Rounding) (amb : Nat) :
    Gen.parseLengthWithUnits R amb .none_ = .tup [.none_, .none_] := rfl

/-- **bridge** (parser): the regenerated `parseLengthWithUnits` and the model `parseLength` -/
theorem parse_bridge (R : Rounding) (amb : Nat) (s : String) :
    (parseLength (some s.toList) = none → Gen.parseLengthWithUnits R amb (.str s) = .tup [.none_, .none_]) ∧
    (∀ q u, parseLength (some s.toList) = some (.fin q, u) →
      Gen.parseLengthWithUnits R amb (.str s) = .tup [.flt (R.f64 q), Py.ofL u]) := by
  rw [parse_core]
  unfold parseLength encParse
  simp only
  constructor
  · intro h
    cases hp : parseFloat (splitUnit (pyStrip s.toList)).1 with
    | none => rfl
    | some v => rw [hp] at h; cases h
  · intro q u h
    cases hp : parseFloat (splitUnit (pyStrip s.toList)).1 with
    | none => rw [hp] at h; cases h
    | some v =>
      rw [hp] at h
      simp only [Option.some.injEq, Prod.mk.injEq] at h
      obtain ⟨rfl, rfl⟩ := h
      rfl


/-! ### the converters, in exact arithmetic, with the float literals as the source has them -/

/-- the doubles written `25.4`, `2.54`, `101.6` in the source -/
def lit25_4 : Rat := 3574732204225331 / 140737488355328
def lit2_54 : Rat := 2859785763380265 / 1125899906842624
def lit101_6 : Rat := 3574732204225331 / 35184372088832

/-- user units per unit as the regenerated `unitsToUserUnits` multiplies, in exact arithmetic -/
def genFactor (u : List Char) : Option Rat :=
  if u = ['p', 'x'] then some 1
  else if u = ['i', 'n'] then some 96
  else if u = ['m', 'm'] then some (96 / lit25_4)
  else if u = ['c', 'm'] then some (96 / lit2_54)
  else if u = ['p', 't'] then some (96 / 72)
  else if u = ['p', 'c'] then some (96 / 6)
  else if u = ['Q'] then some (96 / lit101_6)
  else none

/-- user units per unit as the regenerated `userUnitToUnits` divides, in exact arithmetic -/
def genBackFactor (u : List Char) : Option Rat :=
  if u = [] ∨ u = ['p', 'x'] then some 1
  else if u = ['i', 'n'] then some 96
  else if u = ['m', 'm'] then some (96 / lit25_4)
  else if u = ['c', 'm'] then some (96 / lit2_54)
  else if u = ['Q'] ∨ u = ['q'] then some (96 / (40 * lit2_54))
  else if u = ['p', 'c'] then some (96 / 6)
  else if u = ['p', 't'] then some (96 / 72)
  else none

theorem mul_exact (p : Nat) (a b : Rat) : Py.mul Rounding.exact p (.flt a) (.flt b) = .flt (a * b) := rfl
theorem div_exact (p : Nat) (a b : Rat) (hb : b ≠ 0) : Py.truediv Rounding.exact p (.flt a) (.flt b) = .flt (a / b) := by
  simp [Py.truediv, Py.num, hb, Py.join, Py.kind, Py.pack, Rounding.exact]
theorem float_flt (R : Rounding) (a : Rat) : Py.float_ R (.flt a) = .flt a := rfl
theorem float_int_exact (z : Int) : Py.float_ Rounding.exact (.int z) = .flt (z : Rat) := rfl

theorem genFactor_cases (u : List Char) (f : Rat) (h : genFactor u = some f) :
    (u = ['p','x'] ∧ f = 1) ∨ (u = ['i','n'] ∧ f = 96) ∨ (u = ['m','m'] ∧ f = 96 / lit25_4) ∨
    (u = ['c','m'] ∧ f = 96 / lit2_54) ∨ (u = ['p','t'] ∧ f = 96 / 72) ∨ (u = ['p','c'] ∧ f = 96 / 6) ∨
    (u = ['Q'] ∧ f = 96 / lit101_6) := by
  unfold genFactor at h
  split_ifs at h with h1 h2 h3 h4 h5 h6 h7 <;> simp only [Option.some.injEq] at h <;> subst h
  · exact Or.inl ⟨h1, rfl⟩
  · exact Or.inr (Or.inl ⟨h2, rfl⟩)
  · exact Or.inr (Or.inr (Or.inl ⟨h3, rfl⟩))
  · exact Or.inr (Or.inr (Or.inr (Or.inl ⟨h4, rfl⟩)))
  · exact Or.inr (Or.inr (Or.inr (Or.inr (Or.inl ⟨h5, rfl⟩))))
  · exact Or.inr (Or.inr (Or.inr (Or.inr (Or.inr (Or.inl ⟨h6, rfl⟩)))))
  · exact Or.inr (Or.inr (Or.inr (Or.inr (Or.inr (Or.inr ⟨h7, rfl⟩)))))

/-- `unitsToUserUnits`, regenerated, exact arithmetic: value × factor, for the seven absolute units -/
theorem uu_tables (amb : Nat) (s : String) (ref : Val) (v f : Rat) (u : List Char)
    (hp : parseLength (some s.toList) = some (.fin v, u)) (hf : genFactor u = some f) :
    Gen.unitsToUserUnits Rounding.exact amb (.str s) ref = .flt (v * f) := by
  have hg := (parse_bridge Rounding.exact amb s).2 v u hp
  have hid : Rounding.exact.f64 v = v := rfl
  rw [hid] at hg
  unfold Gen.unitsToUserUnits
  simp only [hg, Py.unpackN_tup2, Py.getItem_cons_zero, Py.getItem_cons_succ, Py.isNone, float_flt, mul_exact]
  have n1 : ((3574732204225331 : Rat) / 140737488355328) ≠ 0 := by norm_num
  have n2 : ((2859785763380265 : Rat) / 1125899906842624) ≠ 0 := by norm_num
  have n3 : ((3574732204225331 : Rat) / 35184372088832) ≠ 0 := by norm_num
  have n4 : (6 : Rat) ≠ 0 := by norm_num
  have n5 : (72 : Rat) ≠ 0 := by norm_num
  rcases genFactor_cases u f hf with h | h | h | h | h | h | h <;> obtain ⟨rfl, rfl⟩ := h <;>
    (try simp only [lit25_4, lit2_54, lit101_6]) <;>
    generalize ((3574732204225331 : Rat) / 140737488355328) = c1 at n1 ⊢ <;>
    generalize ((2859785763380265 : Rat) / 1125899906842624) = c2 at n2 ⊢ <;>
    generalize ((3574732204225331 : Rat) / 35184372088832) = c3 at n3 ⊢ <;>
    generalize (6 : Rat) = c4 at n4 ⊢ <;>
    generalize (72 : Rat) = c5 at n5 ⊢ <;>
    simp only [eq_ofL_str, lit_empty, lit_px, lit_in, lit_mm, lit_cm, lit_pt, lit_pc, lit_Q, lit_q, lit_pct] <;>
    simp only [List.cons.injEq, Char.reduceEq, reduceCtorEq, and_true, and_false, false_and, and_self, decide_true, decide_false, Bool.or_false, Bool.false_or, Bool.or_true, Bool.true_or, Bool.or_self, Bool.false_eq_true, if_true, if_false]
  · rw [mul_one]
  · rw [div_exact _ _ _ n1]; exact congrArg Val.flt (by ring)
  · rw [div_exact _ _ _ n2]; exact congrArg Val.flt (by ring)
  · rw [div_exact _ _ _ n5]; exact congrArg Val.flt (by ring)
  · rw [div_exact _ _ _ n4]; exact congrArg Val.flt (by ring)
  · rw [div_exact _ _ _ n3]; exact congrArg Val.flt (by ring)


/-- the factors the regenerated code uses are the SVG factors up to the representation error of the float
literals `25.4`, `2.54`, `101.6` (relative error below `2^-52`); exact for px, in, pt, pc -/
theorem genFactor_close (u : List Char) (f : Rat) (hf : svgFactor u = some f) :
    ∃ f', genFactor u = some f' ∧ |f' - f| ≤ f / 2 ^ 52 := by
  rcases svgFactor_cases u f hf with h | h | h | h | h | h | h <;> obtain ⟨rfl, rfl⟩ := h
  · exact ⟨1, by decide +kernel, by norm_num⟩
  · exact ⟨96, by decide +kernel, by norm_num⟩
  · refine ⟨96 / lit25_4, by decide +kernel, ?_⟩
    rw [abs_le]; unfold lit25_4; constructor <;> norm_num
  · refine ⟨96 / lit2_54, by decide +kernel, ?_⟩
    rw [abs_le]; unfold lit2_54; constructor <;> norm_num
  · refine ⟨96 / 72, by decide +kernel, ?_⟩
    rw [abs_le]; constructor <;> norm_num
  · refine ⟨96 / 6, by decide +kernel, ?_⟩
    rw [abs_le]; constructor <;> norm_num
  · refine ⟨96 / lit101_6, by decide +kernel, ?_⟩
    rw [abs_le]; unfold lit101_6; constructor <;> norm_num

/-- percentages: of the supplied reference (`0` included), else of 1 -/
theorem uu_percent (amb : Nat) (s : String) (v : Rat)
    (hp : parseLength (some s.toList) = some (.fin v, ['%'])) :
    Gen.unitsToUserUnits Rounding.exact amb (.str s) .none_ = .flt (v / 100) ∧
    ∀ (rv : Val) (r : Rat), IsNum rv r →
      Gen.unitsToUserUnits Rounding.exact amb (.str s) rv = .flt (v * r / 100) := by
  have hg := (parse_bridge Rounding.exact amb s).2 v _ hp
  have hid : Rounding.exact.f64 v = v := rfl
  rw [hid] at hg
  have n100 : (100 : Rat) ≠ 0 := by norm_num
  constructor
  · unfold Gen.unitsToUserUnits
    simp only [hg, Py.unpackN_tup2, Py.getItem_cons_zero, Py.getItem_cons_succ, Py.isNone, float_flt, mul_exact]
    generalize (100 : Rat) = c at n100 ⊢
    simp only [eq_ofL_str, lit_empty, lit_px, lit_in, lit_mm, lit_cm, lit_pt, lit_pc, lit_Q, lit_q, lit_pct]
    simp only [List.cons.injEq, Char.reduceEq, reduceCtorEq, and_true, and_false, false_and, and_self, decide_true, decide_false, Bool.or_false, Bool.false_or, Bool.or_true, Bool.true_or, Bool.or_self, Bool.false_eq_true, if_true, if_false, Bool.not_true]
    exact div_exact _ _ _ n100
  · intro rv r hr
    unfold Gen.unitsToUserUnits
    simp only [hg, Py.unpackN_tup2, Py.getItem_cons_zero, Py.getItem_cons_succ, float_flt]
    generalize (100 : Rat) = c at n100 ⊢
    rcases hr with rfl | ⟨z, rfl, rfl⟩ <;>
      simp only [Py.isNone, float_flt, float_int_exact, mul_exact, eq_ofL_str, lit_empty, lit_px, lit_in, lit_mm, lit_cm, lit_pt, lit_pc, lit_Q, lit_q, lit_pct] <;>
      simp only [List.cons.injEq, Char.reduceEq, reduceCtorEq, and_true, and_false, false_and, and_self, decide_true, decide_false, Bool.or_false, Bool.false_or, Bool.or_true, Bool.true_or, Bool.or_self, Bool.false_eq_true, if_true, if_false, Bool.not_false] <;>
      exact div_exact _ _ _ n100

/-- nothing parsed: `None` (every rounding mode) -/
theorem uu_none (R : Rounding) (amb : Nat) (ref : Val) :
    Gen.unitsToUserUnits R amb .none_ ref = .none_ ∧
    ∀ s : String, parseLength (some s.toList) = none → Gen.unitsToUserUnits R amb (.str s) ref = .none_ := by
  constructor
  · rfl
  · intro s h
    have hg := (parse_bridge R amb s).1 h
    unfold Gen.unitsToUserUnits
    simp only [hg, Py.unpackN_tup2, Py.getItem_cons_zero, Py.isNone, if_true]


theorem genBackFactor_cases (u : List Char) (g : Rat) (h : genBackFactor u = some g) :
    (u = [] ∧ g = 1) ∨ (u = ['p','x'] ∧ g = 1) ∨ (u = ['i','n'] ∧ g = 96) ∨ (u = ['m','m'] ∧ g = 96 / lit25_4) ∨
    (u = ['c','m'] ∧ g = 96 / lit2_54) ∨ (u = ['Q'] ∧ g = 96 / (40 * lit2_54)) ∨ (u = ['q'] ∧ g = 96 / (40 * lit2_54)) ∨
    (u = ['p','c'] ∧ g = 96 / 6) ∨ (u = ['p','t'] ∧ g = 96 / 72) := by
  unfold genBackFactor at h
  split_ifs at h with h1 h2 h3 h4 h5 h6 h7 <;> simp only [Option.some.injEq] at h <;> subst h
  · rcases h1 with h1 | h1
    · exact Or.inl ⟨h1, rfl⟩
    · exact Or.inr (Or.inl ⟨h1, rfl⟩)
  · exact Or.inr (Or.inr (Or.inl ⟨h2, rfl⟩))
  · exact Or.inr (Or.inr (Or.inr (Or.inl ⟨h3, rfl⟩)))
  · exact Or.inr (Or.inr (Or.inr (Or.inr (Or.inl ⟨h4, rfl⟩))))
  · rcases h5 with h5 | h5
    · exact Or.inr (Or.inr (Or.inr (Or.inr (Or.inr (Or.inl ⟨h5, rfl⟩)))))
    · exact Or.inr (Or.inr (Or.inr (Or.inr (Or.inr (Or.inr (Or.inl ⟨h5, rfl⟩))))))
  · exact Or.inr (Or.inr (Or.inr (Or.inr (Or.inr (Or.inr (Or.inr (Or.inl ⟨h6, rfl⟩)))))))
  · exact Or.inr (Or.inr (Or.inr (Or.inr (Or.inr (Or.inr (Or.inr (Or.inr ⟨h7, rfl⟩)))))))

/-- `userUnitToUnits`, regenerated, exact arithmetic: value ÷ factor (`''` reads as px, `q` as `Q`) -/
theorem back_tables (amb : Nat) (dv : Val) (d g : Rat) (u : List Char) (hd : IsNum dv d)
    (hg : genBackFactor u = some g) :
    Gen.userUnitToUnits Rounding.exact amb dv (Py.ofL u) = .flt (d / g) := by
  have hnone : Py.isNone dv = false := by rcases hd with rfl | ⟨z, rfl, _⟩ <;> rfl
  have hfl : Py.float_ Rounding.exact dv = .flt d := by
    rcases hd with rfl | ⟨z, rfl, rfl⟩ <;> rfl
  have n1 : ((3574732204225331 : Rat) / 140737488355328) ≠ 0 := by norm_num
  have n2 : ((2859785763380265 : Rat) / 1125899906842624) ≠ 0 := by norm_num
  have n4 : (6 : Rat) ≠ 0 := by norm_num
  have n5 : (72 : Rat) ≠ 0 := by norm_num
  have n6 : (96 : Rat) ≠ 0 := by norm_num
  have n7 : (40 : Rat) ≠ 0 := by norm_num
  unfold Gen.userUnitToUnits
  simp only [hnone, hfl, Bool.false_eq_true, if_false, mul_exact]
  rcases genBackFactor_cases u g hg with h | h | h | h | h | h | h | h | h <;> obtain ⟨rfl, rfl⟩ := h <;>
    (try simp only [lit25_4, lit2_54]) <;>
    generalize ((3574732204225331 : Rat) / 140737488355328) = c1 at n1 ⊢ <;>
    generalize ((2859785763380265 : Rat) / 1125899906842624) = c2 at n2 ⊢ <;>
    generalize (6 : Rat) = c4 at n4 ⊢ <;>
    generalize (72 : Rat) = c5 at n5 ⊢ <;>
    generalize (96 : Rat) = c6 at n6 ⊢ <;>
    generalize (40 : Rat) = c7 at n7 ⊢ <;>
    simp only [eq_ofL_str, lit_empty, lit_px, lit_in, lit_mm, lit_cm, lit_pt, lit_pc, lit_Q, lit_q, lit_pct] <;>
    simp only [List.cons.injEq, Char.reduceEq, reduceCtorEq, and_true, and_false, false_and, and_self, decide_true, decide_false, Bool.or_false, Bool.false_or, Bool.or_true, Bool.true_or, Bool.or_self, Bool.false_eq_true, if_true, if_false]
  · exact congrArg Val.flt (by ring)
  · exact congrArg Val.flt (by ring)
  · exact div_exact _ _ _ n6
  · rw [div_exact _ _ _ n1, div_exact _ _ _ (div_ne_zero n6 n1)]
  · rw [div_exact _ _ _ n2, div_exact _ _ _ (div_ne_zero n6 n2)]
  · rw [div_exact _ _ _ (mul_ne_zero n7 n2), div_exact _ _ _ (div_ne_zero n6 (mul_ne_zero n7 n2))]
  · rw [div_exact _ _ _ (mul_ne_zero n7 n2), div_exact _ _ _ (div_ne_zero n6 (mul_ne_zero n7 n2))]
  · rw [div_exact _ _ _ n4, div_exact _ _ _ (div_ne_zero n6 n4)]
  · rw [div_exact _ _ _ n5, div_exact _ _ _ (div_ne_zero n6 n5)]

theorem back_percent (amb : Nat) (dv : Val) (d : Rat) (hd : IsNum dv d) :
    Gen.userUnitToUnits Rounding.exact amb dv (Py.ofL ['%']) = .flt (d * 100) := by
  have hnone : Py.isNone dv = false := by rcases hd with rfl | ⟨z, rfl, _⟩ <;> rfl
  have hfl : Py.float_ Rounding.exact dv = .flt d := by
    rcases hd with rfl | ⟨z, rfl, rfl⟩ <;> rfl
  unfold Gen.userUnitToUnits
  simp only [hnone, hfl, Bool.false_eq_true, if_false, mul_exact]
  generalize (100 : Rat) = c
  simp only [eq_ofL_str, lit_empty, lit_px, lit_in, lit_mm, lit_cm, lit_pt, lit_pc, lit_Q, lit_q, lit_pct]
  simp only [List.cons.injEq, Char.reduceEq, reduceCtorEq, and_true, and_false, false_and, and_self, decide_true, decide_false, Bool.or_false, Bool.false_or, Bool.or_true, Bool.true_or, Bool.or_self, Bool.false_eq_true, if_true, if_false]

/-- `None` for a `None` distance and for every unit string other than the ten supported spellings (any rounding) -/
theorem back_none (R : Rounding) (amb : Nat) :
    (∀ uv, Gen.userUnitToUnits R amb .none_ uv = .none_) ∧
    (∀ (dv : Val) (u : List Char),
      u ∉ [[], ['p','x'], ['i','n'], ['m','m'], ['c','m'], ['p','t'], ['p','c'], ['Q'], ['q'], ['%']] →
      Gen.userUnitToUnits R amb dv (Py.ofL u) = .none_) := by
  constructor
  · intro uv; rfl
  · intro dv u hu
    simp only [List.mem_cons, List.not_mem_nil, or_false, not_or] at hu
    obtain ⟨h0, h1, h2, h3, h4, h5, h6, h7, h8, h9⟩ := hu
    unfold Gen.userUnitToUnits
    simp only [eq_ofL_str, lit_empty, lit_px, lit_in, lit_mm, lit_cm, lit_pt, lit_pc, lit_Q, lit_q, lit_pct]
    simp only [h0, h1, h2, h3, h4, h5, h6, h7, h8, h9, decide_false, Bool.or_self, Bool.false_eq_true, if_false, ite_self]


/-- round trip through the two regenerated converters, exact arithmetic: exact for every unit except `Q`
(there the source writes the factor as `101.6` one way and `40.0 * 2.54` the other, two different doubles:
relative deviation below `2^-52`); for `%` when no reference is supplied -/
theorem gen_roundtrip (amb : Nat) (s : String) (v : Rat) (u : List Char)
    (hp : parseLength (some s.toList) = some (.fin v, u)) :
    (u ≠ ['Q'] → u ≠ ['%'] → ∀ ref,
      Gen.userUnitToUnits Rounding.exact amb (Gen.unitsToUserUnits Rounding.exact amb (.str s) ref) (Py.ofL u) = .flt v) ∧
    (u = ['%'] →
      Gen.userUnitToUnits Rounding.exact amb (Gen.unitsToUserUnits Rounding.exact amb (.str s) .none_) (Py.ofL u) = .flt v) ∧
    (u = ['Q'] → ∀ ref, ∃ v',
      Gen.userUnitToUnits Rounding.exact amb (Gen.unitsToUserUnits Rounding.exact amb (.str s) ref) (Py.ofL u) = .flt v' ∧
      |v' - v| ≤ |v| / 2 ^ 52) := by
  have hu := parseLength_unit_mem (some s.toList) _ u hp
  simp only [List.mem_cons, List.not_mem_nil, or_false] at hu
  have same : ∀ f : Rat, f ≠ 0 → genFactor u = some f → genBackFactor u = some f → ∀ ref,
      Gen.userUnitToUnits Rounding.exact amb (Gen.unitsToUserUnits Rounding.exact amb (.str s) ref) (Py.ofL u) = .flt v := by
    intro f hf0 h1 h2 ref
    rw [uu_tables amb s ref v f u hp h1, back_tables amb _ (v * f) f u (Or.inl rfl) h2]
    exact congrArg Val.flt (by field_simp)
  refine ⟨fun hQ hpct ref => ?_, fun hpct => ?_, fun hQ ref => ?_⟩
  · rcases hu with rfl | rfl | rfl | rfl | rfl | rfl | rfl | rfl
    · exact same 1 (by norm_num) (by decide +kernel) (by decide +kernel) ref
    · exact same 96 (by norm_num) (by decide +kernel) (by decide +kernel) ref
    · exact same (96 / lit25_4) (by unfold lit25_4; norm_num) (by decide +kernel) (by decide +kernel) ref
    · exact same (96 / lit2_54) (by unfold lit2_54; norm_num) (by decide +kernel) (by decide +kernel) ref
    · exact same (96 / 72) (by norm_num) (by decide +kernel) (by decide +kernel) ref
    · exact same (96 / 6) (by norm_num) (by decide +kernel) (by decide +kernel) ref
    · exact absurd rfl hQ
    · exact absurd rfl hpct
  · subst hpct
    rw [(uu_percent amb s v hp).1, back_percent amb _ (v / 100) (Or.inl rfl)]
    exact congrArg Val.flt (by field_simp)
  · subst hQ
    refine ⟨v * (96 / lit101_6) / (96 / (40 * lit2_54)), ?_, ?_⟩
    · rw [uu_tables amb s ref v (96 / lit101_6) _ hp (by decide +kernel),
        back_tables amb _ (v * (96 / lit101_6)) (96 / (40 * lit2_54)) _ (Or.inl rfl) (by decide +kernel)]
    · have e : v * (96 / lit101_6) / (96 / (40 * lit2_54)) - v = v * ((40 * lit2_54) / lit101_6 - 1) := by
        unfold lit101_6 lit2_54; field_simp
      rw [e, abs_mul]
      have hb : |(40 * lit2_54) / lit101_6 - 1| ≤ 1 / 2 ^ 52 := by
        rw [abs_le]; unfold lit101_6 lit2_54; constructor <;> norm_num
      calc |v| * |(40 * lit2_54) / lit101_6 - 1| ≤ |v| * (1 / 2 ^ 52) :=
            mul_le_mul_of_nonneg_left hb (abs_nonneg v)
        _ = |v| / 2 ^ 52 := by ring


theorem genBackFactor_close (u : List Char) (f : Rat) (hf : svgFactor u = some f) :
    ∃ g, genBackFactor u = some g ∧ |g - f| ≤ f / 2 ^ 52 := by
  rcases svgFactor_cases u f hf with h | h | h | h | h | h | h <;> obtain ⟨rfl, rfl⟩ := h
  · exact ⟨1, by decide +kernel, by norm_num⟩
  · exact ⟨96, by decide +kernel, by norm_num⟩
  · refine ⟨96 / lit25_4, by decide +kernel, ?_⟩
    rw [abs_le]; unfold lit25_4; constructor <;> norm_num
  · refine ⟨96 / lit2_54, by decide +kernel, ?_⟩
    rw [abs_le]; unfold lit2_54; constructor <;> norm_num
  · refine ⟨96 / 72, by decide +kernel, ?_⟩
    rw [abs_le]; constructor <;> norm_num
  · refine ⟨96 / 6, by decide +kernel, ?_⟩
    rw [abs_le]; constructor <;> norm_num
  · refine ⟨96 / (40 * lit2_54), by decide +kernel, ?_⟩
    rw [abs_le]; unfold lit2_54; constructor <;> norm_num

end C12
end Plotink
