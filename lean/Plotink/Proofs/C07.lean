import Plotink.Model.C07
/-! Helper lemmas for C07 (core Lean only). -/
namespace Plotink
namespace C07

/-! ### the primitives touch only their own side of the script -/

theorem readline_log (p : Port) : (readline p).2.log = p.log ∧ (readline p).2.writes = p.writes := by
  unfold readline
  split <;> exact ⟨rfl, rfl⟩

theorem readline_nread (p : Port) : (readline p).2.nread = p.nread + 1 := by
  unfold readline
  split <;> rfl

theorem write_log (b : Bytes) (p : Port) : (write b p).2.log = p.log ++ [b] := by
  unfold write
  split <;> rfl

theorem write_reads (b : Bytes) (p : Port) :
    (write b p).2.reads = p.reads ∧ (write b p).2.nread = p.nread := by
  unfold write
  split <;> exact ⟨rfl, rfl⟩

theorem write_ok_iff (b : Bytes) (p : Port) : (write b p).1 = firstWriteOk p := by
  unfold write firstWriteOk
  split <;> simp_all

theorem retryResp_log (dec : Bool) (n : Nat) (v : Val) (p : Port) :
    (retryResp dec n v p).2.2.log = p.log := by
  induction n generalizing v p with
  | zero => rfl
  | succ n ih =>
    unfold retryResp
    split
    · rfl
    · have h := (readline_log p).1
      split
      · next p' heq => rw [heq] at h; exact h
      · next b p' heq =>
        have h' : p'.log = p.log := by rw [heq] at h; exact h
        split
        · split
          · exact h'
          · rw [ih]; exact h'
        · rw [ih]; exact h'

theorem retryUnused_log (n : Nat) (u : Bytes) (p : Port) : (retryUnused n u p).2.log = p.log := by
  induction n generalizing u p with
  | zero => rfl
  | succ n ih =>
    unfold retryUnused
    split
    · rfl
    · have h := (readline_log p).1
      split
      · next p' heq => rw [heq] at h; exact h
      · next b p' heq => rw [ih]; rw [heq] at h; exact h

theorem retryResp_nread (dec : Bool) (n : Nat) (v : Val) (p : Port) :
    p.nread ≤ (retryResp dec n v p).2.2.nread ∧ (retryResp dec n v p).2.2.nread ≤ p.nread + n := by
  induction n generalizing v p with
  | zero => exact ⟨Nat.le_refl _, Nat.le_refl _⟩
  | succ n ih =>
    unfold retryResp
    split
    · exact ⟨Nat.le_refl _, Nat.le_add_right _ _⟩
    · have h := readline_nread p
      split
      · next p' heq => rw [heq] at h; simp only at h ⊢; omega
      · next b p' heq =>
        rw [heq] at h; simp only at h
        split
        · split
          · simp only; omega
          · have := ih (.str ‹Str›) p'; omega
        · have := ih (.bytes b) p'; omega

theorem retryUnused_nread (n : Nat) (u : Bytes) (p : Port) :
    p.nread ≤ (retryUnused n u p).2.nread ∧ (retryUnused n u p).2.nread ≤ p.nread + n := by
  induction n generalizing u p with
  | zero => exact ⟨Nat.le_refl _, Nat.le_refl _⟩
  | succ n ih =>
    unfold retryUnused
    split
    · exact ⟨Nat.le_refl _, Nat.le_add_right _ _⟩
    · have h := readline_nread p
      split
      · next p' heq => rw [heq] at h; simp only at h ⊢; omega
      · next b p' heq =>
        rw [heq] at h; simp only at h
        have := ih b p'; omega

/-! ### ASCII scripts -/

theorem allAscii_tail {r : Rd} {rs : List Rd} (h : allAscii (r :: rs) = true) : allAscii rs = true := by
  unfold allAscii at *
  simp only [List.all_cons, Bool.and_eq_true] at h
  exact h.2

theorem allAscii_head {b : Bytes} {rs : List Rd} (h : allAscii (.line b :: rs) = true) :
    isAscii b = true := by
  unfold allAscii at h
  simp only [List.all_cons, Bool.and_eq_true] at h
  exact h.1

theorem isAscii_nil : isAscii [] = true := rfl

/-- one `readline` on an ASCII script: an ASCII line (possibly empty) or an I/O exception, and the
rest of the script is still ASCII -/
theorem readline_ascii (p : Port) (h : allAscii p.reads = true) :
    allAscii (readline p).2.reads = true ∧ ∀ b, (readline p).1 = some b → isAscii b = true := by
  unfold readline
  split
  · next heq => exact ⟨by simpa [heq] using h, by intro b hb; cases hb; rfl⟩
  · next b r heq =>
    rw [heq] at h
    exact ⟨allAscii_tail h, by intro b' hb; cases hb; exact allAscii_head h⟩
  · next r heq =>
    rw [heq] at h
    exact ⟨allAscii_tail h, by intro b' hb; cases hb; rfl⟩
  · next r heq =>
    rw [heq] at h
    exact ⟨allAscii_tail h, by intro b' hb; cases hb⟩

theorem arrived_nil (k : Nat) : arrived k [] = [] := by
  cases k <;> rfl

theorem retryResp_nonempty (dec : Bool) (n : Nat) (v : Val) (p : Port) (h : v.len ≠ 0) :
    retryResp dec n v p = (.done, v, p) := by
  cases n with
  | zero => rfl
  | succ n => unfold retryResp; simp [h]

theorem retryUnused_nonempty (n : Nat) (u : Bytes) (p : Port) (h : u ≠ []) :
    retryUnused n u p = (true, p) := by
  cases n with
  | zero => rfl
  | succ n =>
    unfold retryUnused
    have : u.length ≠ 0 := by simpa using h
    simp [this]

/-- the decoding retry loop on an ASCII script: ends normally or by a (caught) I/O exception, and
`response` is the `str` that arrived -/
theorem retryResp_text (n : Nat) (s : Str) (p : Port) (h : allAscii p.reads = true) :
    ∃ f p', retryResp true n (.str s) p = (f, .str (if s = [] then arrived n p.reads else s), p') ∧
      (f = .done ∨ f = .io) ∧ allAscii p'.reads = true := by
  induction n generalizing s p with
  | zero =>
    refine ⟨.done, p, ?_, Or.inl rfl, h⟩
    unfold retryResp arrived
    split <;> simp_all
  | succ n ih =>
    by_cases hs : s = []
    · subst hs
      obtain ⟨reads, writes, log, nread⟩ := p
      simp only at h
      unfold retryResp
      simp only [Val.len, List.length_nil, ne_eq, not_true_eq_false, ↓reduceIte]
      cases reads with
      | nil =>
        simp only [readline, decode, isAscii_nil, ↓reduceIte]
        obtain ⟨f, p', he, hf, ha⟩ := ih [] ⟨[], writes, log, nread + 1⟩ h
        refine ⟨f, p', ?_, hf, ha⟩
        rw [he]
        simp [arrived_nil]
      | cons r rs =>
        cases r with
        | line b =>
          have hb := allAscii_head h
          simp only [readline, decode, hb, ↓reduceIte]
          obtain ⟨f, p', he, hf, ha⟩ := ih b ⟨rs, writes, log, nread + 1⟩ (allAscii_tail h)
          refine ⟨f, p', ?_, hf, ha⟩
          rw [he]
          simp only [arrived]
        | empty =>
          simp only [readline, decode, isAscii_nil, ↓reduceIte]
          obtain ⟨f, p', he, hf, ha⟩ := ih [] ⟨rs, writes, log, nread + 1⟩ (allAscii_tail h)
          refine ⟨f, p', ?_, hf, ha⟩
          rw [he]
          simp [arrived]
        | raise c =>
          simp only [readline]
          exact ⟨.io, ⟨rs, writes, log, nread + 1⟩, by simp [arrived], Or.inr rfl, allAscii_tail h⟩
    · have hl : (Val.str s).len ≠ 0 := by
        simp only [Val.len, ne_eq, List.length_eq_zero_iff]; exact hs
      rw [retryResp_nonempty _ _ _ _ hl]
      exact ⟨.done, p, by simp [hs], Or.inl rfl, h⟩

/-! ### skipping up to `retry` empty reads -/

theorem retryResp_skip (d n : Nat) (b : Bytes) (rest : List Rd) (writes : List Wr) (log : List Bytes)
    (nread : Nat) (hb : b ≠ []) (ha : isAscii b = true) (hd : d + 1 ≤ n) :
    retryResp true n (.str []) ⟨List.replicate d .empty ++ .line b :: rest, writes, log, nread⟩
      = (.done, .str b, ⟨rest, writes, log, nread + d + 1⟩) := by
  induction d generalizing n nread with
  | zero =>
    obtain ⟨m, rfl⟩ : ∃ m, n = m + 1 := ⟨n - 1, by omega⟩
    unfold retryResp
    simp only [Val.len, List.length_nil, ne_eq, not_true_eq_false, ↓reduceIte, List.replicate_zero,
      List.nil_append, readline, decode, ha]
    rw [retryResp_nonempty]
    simp only [Val.len, ne_eq, List.length_eq_zero_iff]; exact hb
  | succ d ih =>
    obtain ⟨m, rfl⟩ : ∃ m, n = m + 1 := ⟨n - 1, by omega⟩
    unfold retryResp
    simp only [Val.len, List.length_nil, ne_eq, not_true_eq_false, ↓reduceIte, List.replicate_succ,
      List.cons_append, readline, decode, isAscii_nil]
    rw [ih m (nread + 1) (by omega)]
    simp only [Prod.mk.injEq, Plotink.PyIO.Port.mk.injEq, true_and]
    omega

theorem retryUnused_skip (d n : Nat) (b : Bytes) (rest : List Rd) (writes : List Wr) (log : List Bytes)
    (nread : Nat) (hb : b ≠ []) (hd : d + 1 ≤ n) :
    retryUnused n [] ⟨List.replicate d .empty ++ .line b :: rest, writes, log, nread⟩
      = (true, ⟨rest, writes, log, nread + d + 1⟩) := by
  induction d generalizing n nread with
  | zero =>
    obtain ⟨m, rfl⟩ : ∃ m, n = m + 1 := ⟨n - 1, by omega⟩
    unfold retryUnused
    simp only [List.length_nil, ne_eq, not_true_eq_false, ↓reduceIte, List.replicate_zero,
      List.nil_append, readline]
    rw [retryUnused_nonempty _ _ _ hb]
  | succ d ih =>
    obtain ⟨m, rfl⟩ : ∃ m, n = m + 1 := ⟨n - 1, by omega⟩
    unfold retryUnused
    simp only [List.length_nil, ne_eq, not_true_eq_false, ↓reduceIte, List.replicate_succ,
      List.cons_append, readline]
    rw [ih m (nread + 1) (by omega)]
    simp only [Prod.mk.injEq, Plotink.PyIO.Port.mk.injEq, true_and]
    omega

/-- first read followed by the decoding retry loop, on `d ≤ n` empties followed by a line -/
theorem firstRead_skip (d n : Nat) (b : Bytes) (rest : List Rd) (writes : List Wr) (log : List Bytes)
    (nread : Nat) (hb : b ≠ []) (ha : isAscii b = true) (hd : d ≤ n) :
    ∃ l p2, readline ⟨List.replicate d .empty ++ .line b :: rest, writes, log, nread⟩ = (some l, p2) ∧
      ∃ s, decode l = some s ∧
        retryResp true n (.str s) p2 = (.done, .str b, ⟨rest, writes, log, nread + d + 1⟩) := by
  cases d with
  | zero =>
    refine ⟨b, ⟨rest, writes, log, nread + 1⟩, by simp [readline], b, by simp [decode, ha], ?_⟩
    rw [retryResp_nonempty]
    simp only [Val.len, ne_eq, List.length_eq_zero_iff]; exact hb
  | succ d =>
    refine ⟨[], ⟨List.replicate d .empty ++ .line b :: rest, writes, log, nread + 1⟩,
      by simp [readline, List.replicate_succ], [], by simp [decode, isAscii_nil], ?_⟩
    rw [retryResp_skip d n b rest writes log (nread + 1) hb ha (by omega)]
    simp only [Prod.mk.injEq, Plotink.PyIO.Port.mk.injEq, true_and]
    omega

/-- first read followed by the non-decoding retry loop (the trailing `OK`) -/
theorem firstUnused_skip (d n : Nat) (b : Bytes) (rest : List Rd) (writes : List Wr) (log : List Bytes)
    (nread : Nat) (hb : b ≠ []) (hd : d ≤ n) :
    ∃ u p4, readline ⟨List.replicate d .empty ++ .line b :: rest, writes, log, nread⟩ = (some u, p4) ∧
      retryUnused n u p4 = (true, ⟨rest, writes, log, nread + d + 1⟩) := by
  cases d with
  | zero =>
    refine ⟨b, ⟨rest, writes, log, nread + 1⟩, by simp [readline], ?_⟩
    rw [retryUnused_nonempty _ _ _ hb]
  | succ d =>
    refine ⟨[], ⟨List.replicate d .empty ++ .line b :: rest, writes, log, nread + 1⟩,
      by simp [readline, List.replicate_succ], ?_⟩
    rw [retryUnused_skip d n b rest writes log (nread + 1) hb (by omega)]
    simp only [Prod.mk.injEq, Plotink.PyIO.Port.mk.injEq, true_and]
    omega

/-! ### the write log of one call -/

theorem queryBody_log (P : Params) (c : Str) (p : Port) (hc : isAscii c = true) :
    (queryBody P c p).2.2.log = p.log ++ [c] := by
  unfold queryBody queryTrail
  simp only [encode, hc, ↓reduceIte]
  have hw := write_log c p
  rcases hwr : write c p with ⟨ok, p1⟩
  rw [hwr] at hw; simp only at hw
  cases ok
  · exact hw
  · simp only
    have hr := (readline_log p1).1
    rcases hrd : readline p1 with ⟨ol, p2⟩
    rw [hrd] at hr; simp only at hr
    cases ol with
    | none => simp only; rw [hr, hw]
    | some l =>
      simp only
      cases hdec : decode l with
      | none => simp only; rw [hr, hw]
      | some s =>
        simp only
        have h3 := retryResp_log P.decodeRetry P.retry (.str s) p2
        rcases hrr : retryResp P.decodeRetry P.retry (.str s) p2 with ⟨f, v, p3⟩
        rw [hrr] at h3; simp only at h3
        cases f with
        | io => simp only; rw [h3, hr, hw]
        | py e => simp only; rw [h3, hr, hw]
        | done =>
          simp only
          split
          · simp only; rw [h3, hr, hw]
          · have h4 := (readline_log p3).1
            rcases hr4 : readline p3 with ⟨ou, p4⟩
            rw [hr4] at h4; simp only at h4
            cases ou with
            | none => simp only; rw [h4, h3, hr, hw]
            | some u =>
              simp only
              have h5 := retryUnused_log P.retry u p4
              rcases hr5 : retryUnused P.retry u p4 with ⟨b5, p5⟩
              rw [hr5] at h5; simp only at h5
              cases b5 <;> (simp only; rw [h5, h4, h3, hr, hw])

theorem query_log (P : Params) (c : Str) (p : Port) (hc : isAscii c = true) :
    (query P c p).2.log = p.log ++ [c] := by
  have h := queryBody_log P c p hc
  unfold query
  rcases hb : queryBody P c p with ⟨f, v, p'⟩
  rw [hb] at h; simp only at h
  cases f <;> simp only <;> (try split) <;> exact h

theorem commandBody_log (P : Params) (c : Str) (p : Port) (hc : isAscii c = true) :
    (commandBody P c p).2.log = p.log ++ [c] := by
  unfold commandBody
  simp only [encode, hc, ↓reduceIte]
  have hw := write_log c p
  rcases hwr : write c p with ⟨ok, p1⟩
  rw [hwr] at hw; simp only at hw
  cases ok
  · exact hw
  · simp only
    have hr := (readline_log p1).1
    rcases hrd : readline p1 with ⟨ol, p2⟩
    rw [hrd] at hr; simp only at hr
    cases ol with
    | none => simp only; rw [hr, hw]
    | some l =>
      simp only
      cases hdec : decode l with
      | none => simp only; rw [hr, hw]
      | some s =>
        simp only
        have h3 := retryResp_log true P.retry (.str s) p2
        rcases hrr : retryResp true P.retry (.str s) p2 with ⟨f, v, p3⟩
        rw [hrr] at h3; simp only at h3
        rw [h3, hr, hw]

theorem command_log (P : Params) (c : Str) (p : Port) (hc : isAscii c = true) :
    (command P c p).2.log = p.log ++ [c] := by
  have h := commandBody_log P c p hc
  unfold command
  rcases hb : commandBody P c p with ⟨f, p'⟩
  rw [hb] at h; simp only at h
  cases f <;> exact h

/-- a non-ASCII request text: `encode` raises before anything is written -/
theorem query_nonascii (P : Params) (c : Str) (p : Port) (hc : isAscii c = false) :
    query P c p = (.error .unicodeEncodeError, p) ∧ command P c p = (.error .unicodeEncodeError, p) := by
  unfold query queryBody command commandBody
  simp [encode, hc]

/-! ### what a query returns on an ASCII script -/

theorem retryUnused_ascii (n : Nat) (u : Bytes) (p : Port) (h : allAscii p.reads = true) :
    allAscii (retryUnused n u p).2.reads = true := by
  induction n generalizing u p with
  | zero => exact h
  | succ n ih =>
    unfold retryUnused
    split
    · exact h
    · have hr := (readline_ascii p h).1
      split
      · next p' heq => rw [heq] at hr; exact hr
      · next b p' heq => rw [heq] at hr; exact ih b p' hr

/-- the first read: raises (nothing arrived), or yields a decodable line after which the retry loop
delivers exactly what `arrived` says -/
theorem firstRead_text (n : Nat) (p : Port) (h : allAscii p.reads = true) :
    (∃ p2, readline p = (Option.none, p2) ∧ arrived (n + 1) p.reads = [] ∧ allAscii p2.reads = true) ∨
    (∃ l p2 s, readline p = (some l, p2) ∧ decode l = some s ∧ allAscii p2.reads = true ∧
      (if s = [] then arrived n p2.reads else s) = arrived (n + 1) p.reads) := by
  obtain ⟨reads, writes, log, nread⟩ := p
  simp only at h
  cases reads with
  | nil =>
    right
    exact ⟨[], ⟨[], writes, log, nread + 1⟩, [], rfl, rfl, rfl, by simp [arrived_nil]⟩
  | cons r rs =>
    cases r with
    | line b =>
      right
      exact ⟨b, ⟨rs, writes, log, nread + 1⟩, b, rfl, by simp [decode, allAscii_head h], allAscii_tail h,
        by simp [arrived]⟩
    | empty =>
      right
      exact ⟨[], ⟨rs, writes, log, nread + 1⟩, [], rfl, rfl, allAscii_tail h, by simp [arrived]⟩
    | raise c =>
      left
      exact ⟨⟨rs, writes, log, nread + 1⟩, rfl, rfl, allAscii_tail h⟩

theorem queryBody_text (P : Params) (c : Str) (p : Port) (hdec : P.decodeRetry = true)
    (hc : isAscii c = true) (h : allAscii p.reads = true) :
    ∃ f p', queryBody P c p =
        (f, .str (if firstWriteOk p = true then arrived (P.retry + 1) p.reads else []), p') ∧
      (f = .done ∨ f = .io) ∧ allAscii p'.reads = true := by
  unfold queryBody queryTrail
  simp only [encode, hc, ↓reduceIte]
  have hok := write_ok_iff c p
  have hrd := (write_reads c p).1
  rcases hwr : write c p with ⟨ok, p1⟩
  rw [hwr] at hok hrd; simp only at hok hrd
  rw [← hok]
  have h1 : allAscii p1.reads = true := by rw [hrd]; exact h
  cases ok
  · exact ⟨.io, p1, by simp, Or.inr rfl, h1⟩
  · simp only [↓reduceIte]
    rw [← hrd]
    rcases firstRead_text P.retry p1 h1 with ⟨p2, e1, e2, a2⟩ | ⟨l, p2, s, e1, e2, a2, e3⟩
    · rw [e1, e2]
      exact ⟨.io, p2, rfl, Or.inr rfl, a2⟩
    · rw [e1]
      simp only [e2, hdec]
      obtain ⟨f, p3, e4, hf, a3⟩ := retryResp_text P.retry s p2 a2
      rw [e4, e3]
      rcases hf with rfl | rfl
      · simp only
        split
        · exact ⟨.done, p3, rfl, Or.inl rfl, a3⟩
        · have a4 := (readline_ascii p3 a3).1
          rcases hr4 : readline p3 with ⟨ou, p4⟩
          rw [hr4] at a4; simp only at a4
          cases ou with
          | none => exact ⟨.io, p4, rfl, Or.inr rfl, a4⟩
          | some u =>
            simp only
            have a5 := retryUnused_ascii P.retry u p4 a4
            rcases hr5 : retryUnused P.retry u p4 with ⟨b5, p5⟩
            rw [hr5] at a5; simp only at a5
            cases b5
            · exact ⟨.io, p5, rfl, Or.inr rfl, a5⟩
            · exact ⟨.done, p5, rfl, Or.inl rfl, a5⟩
      · exact ⟨.io, p3, rfl, Or.inr rfl, a3⟩

theorem query_text (P : Params) (c : Str) (p : Port) (hdec : P.decodeRetry = true)
    (hc : isAscii c = true) (h : allAscii p.reads = true) :
    (query P c p).1 = .ok (.str (if firstWriteOk p = true then arrived (P.retry + 1) p.reads else [])) ∧
      allAscii (query P c p).2.reads = true := by
  obtain ⟨f, p', e, hf, a⟩ := queryBody_text P c p hdec hc h
  unfold query
  rw [e]
  rcases hf with rfl | rfl <;> exact ⟨rfl, a⟩

theorem command_ok (P : Params) (c : Str) (p : Port) (hc : isAscii c = true)
    (h : allAscii p.reads = true) :
    (command P c p).1 = .ok .none ∧ allAscii (command P c p).2.reads = true := by
  unfold command commandBody
  simp only [encode, hc, ↓reduceIte]
  have hrd := (write_reads c p).1
  rcases hwr : write c p with ⟨ok, p1⟩
  rw [hwr] at hrd; simp only at hrd
  have h1 : allAscii p1.reads = true := by rw [hrd]; exact h
  cases ok
  · exact ⟨rfl, h1⟩
  · simp only
    rcases firstRead_text P.retry p1 h1 with ⟨p2, e1, _, a2⟩ | ⟨l, p2, s, e1, e2, a2, _⟩
    · rw [e1]; exact ⟨rfl, a2⟩
    · rw [e1]
      simp only [e2]
      obtain ⟨f, p3, e4, hf, a3⟩ := retryResp_text P.retry s p2 a2
      rw [e4]
      rcases hf with rfl | rfl <;> exact ⟨rfl, a3⟩

/-! ### exact consumption on a well-formed reply -/

theorem write_okport (c : Bytes) (reads : List Rd) (writes : List Wr) (log : List Bytes) (nread : Nat)
    (hw : firstWriteOk ⟨reads, writes, log, nread⟩ = true) :
    write c ⟨reads, writes, log, nread⟩ = (true, ⟨reads, writes.tail, log ++ [c], nread⟩) := by
  cases writes with
  | nil => rfl
  | cons w ws => cases w with
    | ok => rfl
    | raise c => simp [firstWriteOk] at hw

/-- ordinary query: `d1` empties, data line, `d2` empties, trailing line -/
theorem query_reads_ordinary (P : Params) (c : Str) (d1 d2 : Nat) (data trail : Bytes) (rest : List Rd)
    (writes : List Wr) (log : List Bytes) (nread : Nat)
    (hdec : P.decodeRetry = true) (hc : isAscii c = true) (hno : P.noOK.contains (reqName c) = false)
    (h1 : d1 ≤ P.retry) (h2 : d2 ≤ P.retry) (hd : data ≠ []) (ht : trail ≠ []) (ha : isAscii data = true)
    (hw : firstWriteOk ⟨List.replicate d1 .empty ++ .line data :: (List.replicate d2 .empty ++ .line trail :: rest),
      writes, log, nread⟩ = true) :
    query P c ⟨List.replicate d1 .empty ++ .line data :: (List.replicate d2 .empty ++ .line trail :: rest),
        writes, log, nread⟩
      = (.ok (.str data), ⟨rest, writes.tail, log ++ [c], nread + d1 + d2 + 2⟩) := by
  unfold query queryBody queryTrail
  simp only [encode, hc, ↓reduceIte]
  rw [write_okport _ _ _ _ _ hw]
  obtain ⟨l, p2, e1, s, e2, e3⟩ := firstRead_skip d1 P.retry data
    (List.replicate d2 .empty ++ .line trail :: rest) writes.tail (log ++ [c]) nread hd ha h1
  simp only [e1, e2, hdec, e3, hno, Bool.false_eq_true, ↓reduceIte]
  obtain ⟨u, p4, e4, e5⟩ := firstUnused_skip d2 P.retry trail rest writes.tail (log ++ [c]) (nread + d1 + 1) ht h2
  simp only [e4, e5, errIn]
  simp only [Prod.mk.injEq, Plotink.PyIO.Port.mk.injEq, true_and]
  omega

/-- query without trailing `OK`: `d1` empties, data line -/
theorem query_reads_noOK (P : Params) (c : Str) (d1 : Nat) (data : Bytes) (rest : List Rd)
    (writes : List Wr) (log : List Bytes) (nread : Nat)
    (hdec : P.decodeRetry = true) (hc : isAscii c = true) (hno : P.noOK.contains (reqName c) = true)
    (h1 : d1 ≤ P.retry) (hd : data ≠ []) (ha : isAscii data = true)
    (hw : firstWriteOk ⟨List.replicate d1 .empty ++ .line data :: rest, writes, log, nread⟩ = true) :
    query P c ⟨List.replicate d1 .empty ++ .line data :: rest, writes, log, nread⟩
      = (.ok (.str data), ⟨rest, writes.tail, log ++ [c], nread + d1 + 1⟩) := by
  unfold query queryBody queryTrail
  simp only [encode, hc, ↓reduceIte]
  rw [write_okport _ _ _ _ _ hw]
  obtain ⟨l, p2, e1, s, e2, e3⟩ := firstRead_skip d1 P.retry data rest writes.tail (log ++ [c]) nread hd ha h1
  simp only [e1, e2, hdec, e3, hno, ↓reduceIte, errIn]

/-- command: `d1` empties, `OK` line -/
theorem command_reads (P : Params) (c : Str) (d1 : Nat) (trail : Bytes) (rest : List Rd)
    (writes : List Wr) (log : List Bytes) (nread : Nat)
    (hc : isAscii c = true) (h1 : d1 ≤ P.retry) (ht : trail ≠ []) (ha : isAscii trail = true)
    (hw : firstWriteOk ⟨List.replicate d1 .empty ++ .line trail :: rest, writes, log, nread⟩ = true) :
    command P c ⟨List.replicate d1 .empty ++ .line trail :: rest, writes, log, nread⟩
      = (.ok .none, ⟨rest, writes.tail, log ++ [c], nread + d1 + 1⟩) := by
  unfold command commandBody
  simp only [encode, hc, ↓reduceIte]
  rw [write_okport _ _ _ _ _ hw]
  obtain ⟨l, p2, e1, s, e2, e3⟩ := firstRead_skip d1 P.retry trail rest writes.tail (log ++ [c]) nread ht ha h1
  simp only [e1, e2, e3]

/-! ### bounds on the number of reads, for every script -/

theorem queryBody_nread (P : Params) (c : Str) (p : Port) :
    (queryBody P c p).2.2.nread ≤ p.nread +
      (if P.noOK.contains (reqName c) then P.retry + 1 else 2 * (P.retry + 1)) := by
  unfold queryBody queryTrail
  cases encode c with
  | none => simp only; omega
  | some req =>
    simp only
    have hw := (write_reads req p).2
    rcases hwr : write req p with ⟨ok, p1⟩
    rw [hwr] at hw; simp only at hw
    cases ok
    · simp only; omega
    · simp only
      have hr := readline_nread p1
      rcases hrd : readline p1 with ⟨ol, p2⟩
      rw [hrd] at hr; simp only at hr
      cases ol with
      | none => simp only; split <;> omega
      | some l =>
        simp only
        cases hdec : decode l with
        | none => simp only; split <;> omega
        | some s =>
          simp only
          have h3 := (retryResp_nread P.decodeRetry P.retry (.str s) p2).2
          rcases hrr : retryResp P.decodeRetry P.retry (.str s) p2 with ⟨f, v, p3⟩
          rw [hrr] at h3; simp only at h3
          cases f with
          | io => simp only; split <;> omega
          | py e => simp only; split <;> omega
          | done =>
            simp only
            split
            · simp only; omega
            · have h4 := readline_nread p3
              rcases hr4 : readline p3 with ⟨ou, p4⟩
              rw [hr4] at h4; simp only at h4
              cases ou with
              | none => simp only; omega
              | some u =>
                simp only
                have h5 := (retryUnused_nread P.retry u p4).2
                rcases hr5 : retryUnused P.retry u p4 with ⟨b5, p5⟩
                rw [hr5] at h5; simp only at h5
                cases b5 <;> (simp only; omega)

theorem query_nread (P : Params) (c : Str) (p : Port) :
    (query P c p).2.nread ≤ p.nread +
      (if P.noOK.contains (reqName c) then P.retry + 1 else 2 * (P.retry + 1)) := by
  have h := queryBody_nread P c p
  unfold query
  rcases hb : queryBody P c p with ⟨f, v, p'⟩
  rw [hb] at h; simp only at h
  cases f <;> simp only <;> first | exact h | (cases errIn v <;> exact h)

theorem command_nread (P : Params) (c : Str) (p : Port) :
    (command P c p).2.nread ≤ p.nread + (P.retry + 1) := by
  have h : (commandBody P c p).2.nread ≤ p.nread + (P.retry + 1) := by
    unfold commandBody
    cases encode c with
    | none => simp only; omega
    | some req =>
      simp only
      have hw := (write_reads req p).2
      rcases hwr : write req p with ⟨ok, p1⟩
      rw [hwr] at hw; simp only at hw
      cases ok
      · simp only; omega
      · simp only
        have hr := readline_nread p1
        rcases hrd : readline p1 with ⟨ol, p2⟩
        rw [hrd] at hr; simp only at hr
        cases ol with
        | none => simp only; omega
        | some l =>
          simp only
          cases hdec : decode l with
          | none => simp only; omega
          | some s =>
            simp only
            have h3 := (retryResp_nread true P.retry (.str s) p2).2
            rcases hrr : retryResp true P.retry (.str s) p2 with ⟨f, v, p3⟩
            rw [hrr] at h3; simp only at h3
            simp only; omega
  unfold command
  rcases hb : commandBody P c p with ⟨f, p'⟩
  rw [hb] at h; simp only at h
  cases f <;> exact h

/-! ### the undecoded retry loop (defect F5) -/

theorem queryTrail_val (P : Params) (c : Str) (v : Val) (p : Port) :
    ∃ f p', queryTrail P c v p = (f, v, p') ∧ (f = .done ∨ f = .io) := by
  unfold queryTrail
  split
  · exact ⟨_, _, rfl, Or.inl rfl⟩
  · rcases readline p with ⟨ou, p4⟩
    cases ou with
    | none => exact ⟨_, _, rfl, Or.inr rfl⟩
    | some u =>
      simp only
      rcases retryUnused P.retry u p4 with ⟨b5, p5⟩
      cases b5
      · exact ⟨_, _, rfl, Or.inr rfl⟩
      · exact ⟨_, _, rfl, Or.inl rfl⟩

theorem retryResp_bytes (n : Nat) (b : Bytes) (q : Port) :
    ∃ f b' q', retryResp false n (.bytes b) q = (f, .bytes b', q') ∧ (f = .done ∨ f = .io) := by
  induction n generalizing b q with
  | zero => exact ⟨.done, b, q, rfl, Or.inl rfl⟩
  | succ n ih =>
    unfold retryResp
    split
    · exact ⟨.done, b, q, rfl, Or.inl rfl⟩
    · rcases hrd : readline q with ⟨ol, q1⟩
      cases ol with
      | none => exact ⟨.io, b, q1, rfl, Or.inr rfl⟩
      | some l => simpa using ih l q1

/-- after an empty first read the undecoded loop leaves `bytes` in `response` (unless the next read
raises), and `'Err:' in response` raises `TypeError` -/
theorem query_undecoded (P : Params) (hdec : P.decodeRetry = false) (hr : 1 ≤ P.retry) (c : Str)
    (hc : isAscii c = true) (r : Rd) (rest : List Rd) (writes : List Wr) (log : List Bytes) (nread : Nat)
    (hw : firstWriteOk ⟨.empty :: r :: rest, writes, log, nread⟩ = true) (hne : ∀ c, r ≠ .raise c) :
    (query P c ⟨.empty :: r :: rest, writes, log, nread⟩).1 = .error .typeError := by
  obtain ⟨m, hm⟩ : ∃ m, P.retry = m + 1 := ⟨P.retry - 1, by omega⟩
  have h1 : readline ⟨.empty :: r :: rest, writes.tail, log ++ [c], nread⟩
      = (some [], ⟨r :: rest, writes.tail, log ++ [c], nread + 1⟩) := rfl
  have h2 : ∃ b, readline ⟨r :: rest, writes.tail, log ++ [c], nread + 1⟩
      = (some b, ⟨rest, writes.tail, log ++ [c], nread + 1 + 1⟩) := by
    cases r with
    | raise c => exact absurd rfl (hne c)
    | empty => exact ⟨[], rfl⟩
    | line b => exact ⟨b, rfl⟩
  obtain ⟨b, h2⟩ := h2
  obtain ⟨f, b', q', e1, hf⟩ := retryResp_bytes m b ⟨rest, writes.tail, log ++ [c], nread + 1 + 1⟩
  have h3 : retryResp false (m + 1) (.str []) ⟨r :: rest, writes.tail, log ++ [c], nread + 1⟩
      = (f, .bytes b', q') := by
    rw [retryResp]
    simp only [Val.len, List.length_nil, ne_eq, not_true_eq_false, ↓reduceIte, h2, Bool.false_eq_true, e1]
  unfold query queryBody
  simp only [encode, hc, ↓reduceIte]
  rw [write_okport _ _ _ _ _ hw]
  simp only [h1, decode, isAscii_nil, ↓reduceIte, hdec, hm, h3]
  rcases hf with rfl | rfl
  · simp only
    obtain ⟨f2, q2, e2, hf2⟩ := queryTrail_val P c (.bytes b') q'
    rw [e2]
    rcases hf2 with rfl | rfl <;> rfl
  · rfl

/-! ### one conforming exchange -/

/-- a conforming exchange from an empty device queue with a write that succeeds: the expected value, the queue
empty again, the request logged, one write outcome consumed -/
theorem exch_step (P : Params) (hdec : P.decodeRetry = true) (e : Exch) (hce : e.Conforms P)
    (writes : List Wr) (log : List Bytes) (nread : Nat) (hw : ∀ w ∈ writes, w = .ok) :
    ∃ n', (if e.isQuery then query P e.cmd else command P e.cmd) ⟨[] ++ e.reply P, writes, log, nread⟩
      = (e.expected, ⟨[], writes.tail, log ++ [e.cmd], n'⟩) := by
  obtain ⟨hc, h1, hrest⟩ := hce
  have hwok : ∀ reads, firstWriteOk ⟨reads, writes, log, nread⟩ = true := by
    intro reads
    unfold firstWriteOk
    cases writes with
    | nil => rfl
    | cons w ws =>
      have := hw w (List.mem_cons_self)
      subst this; rfl
  unfold Exch.reply Exch.expected
  cases hq : e.isQuery
  · simp only [hq, Bool.false_eq_true, ↓reduceIte] at hrest
    simp only [Bool.false_eq_true, ↓reduceIte, List.nil_append]
    exact ⟨_, command_reads P e.cmd e.d1 e.trail [] writes log nread hc h1 hrest.1 hrest.2 (hwok _)⟩
  · simp only [hq, ↓reduceIte] at hrest
    obtain ⟨hd, ha, hord⟩ := hrest
    cases hno : P.noOK.contains (reqName e.cmd)
    · obtain ⟨h2, ht⟩ := hord hno
      simp only [↓reduceIte, Bool.false_eq_true, List.nil_append, List.append_assoc,
        List.cons_append]
      exact ⟨_, query_reads_ordinary P e.cmd e.d1 e.d2 e.data e.trail [] writes log nread hdec hc hno
        h1 h2 hd ht ha (hwok _)⟩
    · simp only [↓reduceIte, List.nil_append]
      exact ⟨_, query_reads_noOK P e.cmd e.d1 e.data [] writes log nread hdec hc hno h1 hd ha (hwok _)⟩

/-- the reply of a board contains no fault -/
theorem reply_no_raise (P : Params) (e : Exch) (c : PyIO.ExcClass) : PyIO.Rd.raise c ∉ e.reply P := by
  intro hm
  have hrep : ∀ d, PyIO.Rd.raise c ∉ List.replicate d PyIO.Rd.empty := by
    intro d h
    exact absurd (List.eq_of_mem_replicate h) (by intro h; cases h)
  unfold Exch.reply at hm
  split at hm
  · split at hm
    · rcases List.mem_append.mp hm with h | h
      · exact hrep _ h
      · simp at h
    · rcases List.mem_append.mp hm with h | h
      · rcases List.mem_append.mp h with h | h
        · exact hrep _ h
        · simp at h
      · rcases List.mem_append.mp h with h | h
        · exact hrep _ h
        · simp at h
  · rcases List.mem_append.mp hm with h | h
    · exact hrep _ h
    · simp at h

end C07
end Plotink
