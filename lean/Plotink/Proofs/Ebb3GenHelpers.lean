import Plotink.Proofs.Ebb3GenMotors

/-! # Bridges: the helpers `parse_version`, `min_version` -/

namespace Plotink
namespace Ebb3Gen
open PyObj Gen
set_option linter.unusedSimpArgs false
set_option linter.unusedVariables false

theorem lit_fwv : "Firmware Version ".toList = ['F', 'i', 'r', 'm', 'w', 'a', 'r', 'e', ' ', 'V', 'e', 'r', 's', 'i', 'o', 'n', ' '] := by decide

/-- **`min_version`** -/
theorem min_version_bridge (fuel : Nat) (vs : List Char) (w : World EBB3_Obj) (hg : Good w) :
    Sim (EBB3_min_version fuel (.str vs) w)
      (Ebb3.run Ebb3.srcParams Ebb3.scriptDev (.min_version vs) (absWorld w)) := by
  unfold EBB3_min_version EBB3_min_version_main EBB3_min_version_try1 EBB3_min_version_handlers1 EBB3_min_version_if1
  show Sim _ (Ebb3.minVersionM vs (absWorld w))
  unfold Ebb3.minVersionM
  rw [block_cons2, block_cons2, block_one]
  cases hp : Ebb3.parseRelease vs with
  | none =>
    simp only [PyObj.run, seq, tryExcept, assign, app1_ok, b_parse_version, hp, ofP_error, raise_apply, dispatch, Handler.matches,
      runHandler, return_, ok_apply]
    exact ⟨rfl, rfl, hg⟩
  | some want =>
    simp only [PyObj.run, seq, tryExcept, assign, app1_ok, b_parse_version, hp, ofP_ok, ok_apply, Ebb3.bind_apply, Ebb3.getSt_apply]
    have hga : getattr (fun o : EBB3_Obj => o.version_parsed) w = (.ok w.obj.version_parsed, w) := by
      apply getattr_apply
      rcases hg.obj.version_parsed with h | ⟨r, h⟩ <;> simp [h]
    rcases hg.obj.version_parsed with h | ⟨r, h⟩
    · simp only [ifte, app2, PyObj.bind, hga, h, load, ok, ofP, op_ge, leVal, intOf, ofOptBool, raise, absWorld, absSt, absVer]
      exact ⟨rfl, by simp only [absWorld, absSt, h, absVer], hg⟩
    · simp only [ifte, app2, PyObj.bind, hga, h, load, ok, ofP, op_ge, leVal, ofOptBool, truthy_bool, absWorld, absSt, absVer]
      cases hv : Ebb3.vle want r
      · simp only [Bool.false_eq_true, ↓reduceIte, pass, return_]
        exact ⟨rfl, by simp only [absWorld, absSt, h, absVer], hg⟩
      · simp only [↓reduceIte, return_]
        exact ⟨rfl, by simp only [absWorld, absSt, h, absVer], hg⟩

/-- **`parse_version`** -/
theorem parse_version_bridge (fuel : Nat) (s : List Char) (w : World EBB3_Obj) (hg : Good w) :
    Sim (EBB3_parse_version fuel (.str s) w)
      (Ebb3.run Ebb3.srcParams Ebb3.scriptDev (.parse_version s) (absWorld w)) := by
  unfold EBB3_parse_version EBB3_parse_version_main EBB3_parse_version_if1
  show Sim _ ((Ebb3.parseVersionM s >>= fun _ => pure Ebb3.Val.none) (absWorld w))
  unfold Ebb3.parseVersionM
  rw [lit_fwv, block_cons2, block_cons2, block_cons2, block_cons2, block_one]
  cases hsp : Ebb3.splitSub1 ['F', 'i', 'r', 'm', 'w', 'a', 'r', 'e', ' ', 'V', 'e', 'r', 's', 'i', 'o', 'n', ' '] s with
  | none =>
    simp only [PyObj.run, seq, assign, load_str, app1_ok, meth_split1_str, hsp, ofP_ok, ok_apply, ifte,
      show (load (Val.list [Val.str s]) : Eff EBB3_Obj) = ok (Val.list [Val.str s]) from rfl, op_len, List.length_cons,
      List.length_nil, app2_ok, op_gt, ltVal, intOf, ofOptBool, truthy_bool, return_]
    simp only [Ebb3.bind_apply, Ebb3.pure_apply]
    exact ⟨rfl, rfl, hg⟩
  | some ab =>
    obtain ⟨a, b⟩ := ab
    have h12 : decide ((1 : Int) < ((0 + 1 + 1 : Nat) : Int)) = true := by decide
    have hg1 : op_getitem (.list [.str a, .str b]) (.int 1) = .ok (.str b) := rfl
    simp only [PyObj.run, seq, assign, load_str, app1_ok, meth_split1_str, hsp, ofP_ok, ok_apply, ifte,
      show (load (Val.list [Val.str a, Val.str b]) : Eff EBB3_Obj) = ok (Val.list [Val.str a, Val.str b]) from rfl, op_len,
      List.length_cons, List.length_nil, app2_ok, op_gt, ltVal, intOf, ofOptBool, truthy_bool, h12, ↓reduceIte, hg1, meth_strip,
      setattr, b_parse_version, Ebb3.setVersion]
    cases hp : Ebb3.parseRelease (Ebb3.strip b) with
    | none =>
      simp only [ofP_error, raise_apply, Ebb3.bind_apply, Ebb3.modifySt_apply, Ebb3.raise_apply]
      refine ⟨rfl, rfl, ⟨?_, hg.ioR, hg.ioW, hg.ascii⟩⟩
      exact ⟨hg.obj.port, hg.obj.err, trivial, hg.obj.version_parsed, hg.obj.name, hg.obj.caller, hg.obj.port_name⟩
    | some r =>
      simp only [ofP_ok, ok_apply, Ebb3.bind_apply, Ebb3.modifySt_apply, Ebb3.pure_apply]
      refine ⟨rfl, rfl, ⟨?_, hg.ioR, hg.ioW, hg.ascii⟩⟩
      exact ⟨hg.obj.port, hg.obj.err, trivial, Or.inr ⟨r, rfl⟩, hg.obj.name, hg.obj.caller, hg.obj.port_name⟩

end Ebb3Gen
end Plotink
