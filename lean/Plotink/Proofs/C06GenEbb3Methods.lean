import Plotink.Proofs.C06GenEbb3
import Plotink.Gen.EBBMotionWrap_motors_disable
import Plotink.Gen.EBBMotionWrap_clear_steps
import Plotink.Gen.EBBMotionWrap_clear_accumulators
import Plotink.Gen.EBBMotionWrap_dio_b_set
import Plotink.Gen.EBBMotionWrap_pen_pos_down
import Plotink.Gen.EBBMotionWrap_pen_pos_up
import Plotink.Gen.EBBMotionWrap_pen_rate_down
import Plotink.Gen.EBBMotionWrap_pen_rate_up
import Plotink.Gen.EBBMotionWrap_pen_lower
import Plotink.Gen.EBBMotionWrap_pen_raise
import Plotink.Gen.EBBMotionWrap_servo_timeout
import Plotink.Gen.EBBMotionWrap_abs_move
import Plotink.Gen.EBB3_var_write
/-! # C06 over the regenerated code, part 6: the EBB3 methods that transmit one command -/
namespace Plotink
namespace C06Gen
open PyObj Gen Ebb3Gen
set_option linter.unusedSimpArgs false
set_option linter.unusedVariables false


/-- `motors_disable`: `EM,0,0` -/
theorem EBBMotionWrap_motors_disable_bridge (fuel : Nat) (hf : 26 ≤ fuel) (b : C06.Board)  (w : World EBB3_Obj) (hg : Good w)
    (he : w.obj.err = .none) :
    Wrote3 (EBBMotionWrap_motors_disable fuel  w) w (C06.ebb3Emit (connected w) b (.disable)) := by
  have hemit : C06.ebb3Emit (connected w) b (.disable) = some (if connected w then [⟨"EM", [0, 0]⟩] else []) := by
    simp [C06.ebb3Emit, C06.ebb3EmitWith]
  rw [hemit]
  unfold EBBMotionWrap_motors_disable EBBMotionWrap_motors_disable_main EBBMotionWrap_motors_disable_if1
  simp only [block_cons2]
  refine guarded_send fuel hf .none _ pass _ ⟨⟩ w hg he "EM" [0, 0]
    (by decide) (by decide) (by decide) pureS_pass ?_
  intro w
  rw [seq_pass]
  have htext : ['E', 'M', ',', '0', ',', '0'] = textChars "EM" [0, 0] := by
    simp only [fstr, evalList_cons_ok, evalList_nil, List.map, strOf, List.flatten_cons, List.flatten_nil, textChars, argChars, showInt_0, showInt_1, showInt_3, showInt_4, showInt_5, showInt_11, showInt_12, List.cons_append, List.nil_append, List.append_assoc, List.append_nil, lit_EM]
  simp only [block_cons2, block_one, seq, assign, expr, ok_apply, load_str, load_int, pass, ifte, app1_ok, op_is_not_none, op_is_none, isNone, ofP_ok, truthy_bool, Bool.not_false, Bool.not_true, Bool.false_eq_true, ↓reduceIte, and_ok, encOpt, htext]

/-- `clear_steps`: `CS` -/
theorem EBBMotionWrap_clear_steps_bridge (fuel : Nat) (hf : 26 ≤ fuel) (b : C06.Board)  (w : World EBB3_Obj) (hg : Good w)
    (he : w.obj.err = .none) :
    Wrote3 (EBBMotionWrap_clear_steps fuel  w) w (C06.ebb3Emit (connected w) b (.clearSteps)) := by
  have hemit : C06.ebb3Emit (connected w) b (.clearSteps) = some (if connected w then [⟨"CS", []⟩] else []) := by
    simp [C06.ebb3Emit, C06.ebb3EmitWith]
  rw [hemit]
  unfold EBBMotionWrap_clear_steps EBBMotionWrap_clear_steps_main EBBMotionWrap_clear_steps_if1
  simp only [block_cons2]
  refine guarded_send fuel hf .none _ pass _ ⟨⟩ w hg he "CS" []
    (by decide) (by decide) (by decide) pureS_pass ?_
  intro w
  rw [seq_pass]
  have htext : ['C', 'S'] = textChars "CS" [] := by
    simp only [fstr, evalList_cons_ok, evalList_nil, List.map, strOf, List.flatten_cons, List.flatten_nil, textChars, argChars, showInt_0, showInt_1, showInt_3, showInt_4, showInt_5, showInt_11, showInt_12, List.cons_append, List.nil_append, List.append_assoc, List.append_nil, lit_CS]
  simp only [block_cons2, block_one, seq, assign, expr, ok_apply, load_str, load_int, pass, ifte, app1_ok, op_is_not_none, op_is_none, isNone, ofP_ok, truthy_bool, Bool.not_false, Bool.not_true, Bool.false_eq_true, ↓reduceIte, and_ok, encOpt, htext]

/-- `clear_accumulators`: `T3,1,0,0,0,0,0,0,3` -/
theorem EBBMotionWrap_clear_accumulators_bridge (fuel : Nat) (hf : 26 ≤ fuel) (b : C06.Board)  (w : World EBB3_Obj) (hg : Good w)
    (he : w.obj.err = .none) :
    Wrote3 (EBBMotionWrap_clear_accumulators fuel  w) w (C06.ebb3Emit (connected w) b (.clearAccumulators)) := by
  have hemit : C06.ebb3Emit (connected w) b (.clearAccumulators) = some (if connected w then [⟨"T3", [1, 0, 0, 0, 0, 0, 0, 3]⟩] else []) := by
    simp [C06.ebb3Emit, C06.ebb3EmitWith]
  rw [hemit]
  unfold EBBMotionWrap_clear_accumulators EBBMotionWrap_clear_accumulators_main EBBMotionWrap_clear_accumulators_if1
  simp only [block_cons2]
  refine guarded_send fuel hf .none _ pass _ ⟨⟩ w hg he "T3" [1, 0, 0, 0, 0, 0, 0, 3]
    (by decide) (by decide) (by decide) pureS_pass ?_
  intro w
  rw [seq_pass]
  have htext : ['T', '3', ',', '1', ',', '0', ',', '0', ',', '0', ',', '0', ',', '0', ',', '0', ',', '3'] = textChars "T3" [1, 0, 0, 0, 0, 0, 0, 3] := by
    simp only [fstr, evalList_cons_ok, evalList_nil, List.map, strOf, List.flatten_cons, List.flatten_nil, textChars, argChars, showInt_0, showInt_1, showInt_3, showInt_4, showInt_5, showInt_11, showInt_12, List.cons_append, List.nil_append, List.append_assoc, List.append_nil, lit_T3]
  simp only [block_cons2, block_one, seq, assign, expr, ok_apply, load_str, load_int, pass, ifte, app1_ok, op_is_not_none, op_is_none, isNone, ofP_ok, truthy_bool, Bool.not_false, Bool.not_true, Bool.false_eq_true, ↓reduceIte, and_ok, encOpt, htext]

/-- `dio_b_set`: `PO,B,<pin>,<state>` -/
theorem EBBMotionWrap_dio_b_set_bridge (fuel : Nat) (hf : 26 ≤ fuel) (b : C06.Board) (pin : Int) (state : Int) (w : World EBB3_Obj) (hg : Good w)
    (he : w.obj.err = .none) :
    Wrote3 (EBBMotionWrap_dio_b_set fuel (.int pin) (.int state) w) w (C06.ebb3Emit (connected w) b (.pbSet pin state)) := by
  have hemit : C06.ebb3Emit (connected w) b (.pbSet pin state) = some (if connected w then [⟨"PO,B", [pin, state]⟩] else []) := by
    simp [C06.ebb3Emit, C06.ebb3EmitWith]
  rw [hemit]
  unfold EBBMotionWrap_dio_b_set EBBMotionWrap_dio_b_set_main EBBMotionWrap_dio_b_set_if1
  simp only [block_cons2]
  refine guarded_send fuel hf .none _ pass _ ⟨.int pin, .int state⟩ w hg he "PO,B" [pin, state]
    (by decide) (by decide) (by decide) pureS_pass ?_
  intro w
  rw [seq_pass]
  have htext : (fstr [ok (.str ['P', 'O', ',', 'B', ',']), ok (.int pin), ok (.str [',']), ok (.int state)] : Eff EBB3_Obj)
      = ok (.str (textChars "PO,B" [pin, state])) := by
    simp only [fstr, evalList_cons_ok, evalList_nil, List.map, strOf, List.flatten_cons, List.flatten_nil, textChars, argChars, showInt_0, showInt_1, showInt_3, showInt_4, showInt_5, showInt_11, showInt_12, List.cons_append, List.nil_append, List.append_assoc, List.append_nil, lit_PO_B]
  simp only [block_cons2, block_one, seq, assign, expr, ok_apply, load_str, load_int, pass, ifte, app1_ok, op_is_not_none, op_is_none, isNone, ofP_ok, truthy_bool, Bool.not_false, Bool.not_true, Bool.false_eq_true, ↓reduceIte, and_ok, encOpt, htext]

/-- `pen_pos_down`: `SC,5,<v>` -/
theorem EBBMotionWrap_pen_pos_down_bridge (fuel : Nat) (hf : 26 ≤ fuel) (b : C06.Board) (v : Int) (w : World EBB3_Obj) (hg : Good w)
    (he : w.obj.err = .none) :
    Wrote3 (EBBMotionWrap_pen_pos_down fuel (.int v) w) w (C06.ebb3Emit (connected w) b (.penPosDown v)) := by
  have hemit : C06.ebb3Emit (connected w) b (.penPosDown v) = some (if connected w then [⟨"SC", [5, v]⟩] else []) := by
    simp [C06.ebb3Emit, C06.ebb3EmitWith]
  rw [hemit]
  unfold EBBMotionWrap_pen_pos_down EBBMotionWrap_pen_pos_down_main EBBMotionWrap_pen_pos_down_if1
  simp only [block_cons2]
  refine guarded_send fuel hf .none _ pass _ ⟨.int v⟩ w hg he "SC" [5, v]
    (by decide) (by decide) (by decide) pureS_pass ?_
  intro w
  rw [seq_pass]
  have htext : (fstr [ok (.str ['S', 'C', ',', '5', ',']), ok (.int v)] : Eff EBB3_Obj)
      = ok (.str (textChars "SC" [5, v])) := by
    simp only [fstr, evalList_cons_ok, evalList_nil, List.map, strOf, List.flatten_cons, List.flatten_nil, textChars, argChars, showInt_0, showInt_1, showInt_3, showInt_4, showInt_5, showInt_11, showInt_12, List.cons_append, List.nil_append, List.append_assoc, List.append_nil, lit_SC]
  simp only [block_cons2, block_one, seq, assign, expr, ok_apply, load_str, load_int, pass, ifte, app1_ok, op_is_not_none, op_is_none, isNone, ofP_ok, truthy_bool, Bool.not_false, Bool.not_true, Bool.false_eq_true, ↓reduceIte, and_ok, encOpt, htext]

/-- `pen_pos_up`: `SC,4,<v>` -/
theorem EBBMotionWrap_pen_pos_up_bridge (fuel : Nat) (hf : 26 ≤ fuel) (b : C06.Board) (v : Int) (w : World EBB3_Obj) (hg : Good w)
    (he : w.obj.err = .none) :
    Wrote3 (EBBMotionWrap_pen_pos_up fuel (.int v) w) w (C06.ebb3Emit (connected w) b (.penPosUp v)) := by
  have hemit : C06.ebb3Emit (connected w) b (.penPosUp v) = some (if connected w then [⟨"SC", [4, v]⟩] else []) := by
    simp [C06.ebb3Emit, C06.ebb3EmitWith]
  rw [hemit]
  unfold EBBMotionWrap_pen_pos_up EBBMotionWrap_pen_pos_up_main EBBMotionWrap_pen_pos_up_if1
  simp only [block_cons2]
  refine guarded_send fuel hf .none _ pass _ ⟨.int v⟩ w hg he "SC" [4, v]
    (by decide) (by decide) (by decide) pureS_pass ?_
  intro w
  rw [seq_pass]
  have htext : (fstr [ok (.str ['S', 'C', ',', '4', ',']), ok (.int v)] : Eff EBB3_Obj)
      = ok (.str (textChars "SC" [4, v])) := by
    simp only [fstr, evalList_cons_ok, evalList_nil, List.map, strOf, List.flatten_cons, List.flatten_nil, textChars, argChars, showInt_0, showInt_1, showInt_3, showInt_4, showInt_5, showInt_11, showInt_12, List.cons_append, List.nil_append, List.append_assoc, List.append_nil, lit_SC]
  simp only [block_cons2, block_one, seq, assign, expr, ok_apply, load_str, load_int, pass, ifte, app1_ok, op_is_not_none, op_is_none, isNone, ofP_ok, truthy_bool, Bool.not_false, Bool.not_true, Bool.false_eq_true, ↓reduceIte, and_ok, encOpt, htext]

/-- `pen_rate_down`: `SC,12,<v>` -/
theorem EBBMotionWrap_pen_rate_down_bridge (fuel : Nat) (hf : 26 ≤ fuel) (b : C06.Board) (v : Int) (w : World EBB3_Obj) (hg : Good w)
    (he : w.obj.err = .none) :
    Wrote3 (EBBMotionWrap_pen_rate_down fuel (.int v) w) w (C06.ebb3Emit (connected w) b (.penRateDown v)) := by
  have hemit : C06.ebb3Emit (connected w) b (.penRateDown v) = some (if connected w then [⟨"SC", [12, v]⟩] else []) := by
    simp [C06.ebb3Emit, C06.ebb3EmitWith]
  rw [hemit]
  unfold EBBMotionWrap_pen_rate_down EBBMotionWrap_pen_rate_down_main EBBMotionWrap_pen_rate_down_if1
  simp only [block_cons2]
  refine guarded_send fuel hf .none _ pass _ ⟨.int v⟩ w hg he "SC" [12, v]
    (by decide) (by decide) (by decide) pureS_pass ?_
  intro w
  rw [seq_pass]
  have htext : (fstr [ok (.str ['S', 'C', ',', '1', '2', ',']), ok (.int v)] : Eff EBB3_Obj)
      = ok (.str (textChars "SC" [12, v])) := by
    simp only [fstr, evalList_cons_ok, evalList_nil, List.map, strOf, List.flatten_cons, List.flatten_nil, textChars, argChars, showInt_0, showInt_1, showInt_3, showInt_4, showInt_5, showInt_11, showInt_12, List.cons_append, List.nil_append, List.append_assoc, List.append_nil, lit_SC]
  simp only [block_cons2, block_one, seq, assign, expr, ok_apply, load_str, load_int, pass, ifte, app1_ok, op_is_not_none, op_is_none, isNone, ofP_ok, truthy_bool, Bool.not_false, Bool.not_true, Bool.false_eq_true, ↓reduceIte, and_ok, encOpt, htext]

/-- `pen_rate_up`: `SC,11,<v>` -/
theorem EBBMotionWrap_pen_rate_up_bridge (fuel : Nat) (hf : 26 ≤ fuel) (b : C06.Board) (v : Int) (w : World EBB3_Obj) (hg : Good w)
    (he : w.obj.err = .none) :
    Wrote3 (EBBMotionWrap_pen_rate_up fuel (.int v) w) w (C06.ebb3Emit (connected w) b (.penRateUp v)) := by
  have hemit : C06.ebb3Emit (connected w) b (.penRateUp v) = some (if connected w then [⟨"SC", [11, v]⟩] else []) := by
    simp [C06.ebb3Emit, C06.ebb3EmitWith]
  rw [hemit]
  unfold EBBMotionWrap_pen_rate_up EBBMotionWrap_pen_rate_up_main EBBMotionWrap_pen_rate_up_if1
  simp only [block_cons2]
  refine guarded_send fuel hf .none _ pass _ ⟨.int v⟩ w hg he "SC" [11, v]
    (by decide) (by decide) (by decide) pureS_pass ?_
  intro w
  rw [seq_pass]
  have htext : (fstr [ok (.str ['S', 'C', ',', '1', '1', ',']), ok (.int v)] : Eff EBB3_Obj)
      = ok (.str (textChars "SC" [11, v])) := by
    simp only [fstr, evalList_cons_ok, evalList_nil, List.map, strOf, List.flatten_cons, List.flatten_nil, textChars, argChars, showInt_0, showInt_1, showInt_3, showInt_4, showInt_5, showInt_11, showInt_12, List.cons_append, List.nil_append, List.append_assoc, List.append_nil, lit_SC]
  simp only [block_cons2, block_one, seq, assign, expr, ok_apply, load_str, load_int, pass, ifte, app1_ok, op_is_not_none, op_is_none, isNone, ofP_ok, truthy_bool, Bool.not_false, Bool.not_true, Bool.false_eq_true, ↓reduceIte, and_ok, encOpt, htext]

/-- `pen_lower`: `SP,0,<delay>[,<pin>]` — the pin whenever supplied (zero included) -/
theorem EBBMotionWrap_pen_lower_bridge (fuel : Nat) (hf : 26 ≤ fuel) (b : C06.Board) (delay : Int) (pin : Option Int) (w : World EBB3_Obj)
    (hg : Good w) (he : w.obj.err = .none) :
    Wrote3 (EBBMotionWrap_pen_lower fuel (.int delay) (encOpt pin) w) w (C06.ebb3Emit (connected w) b (.penDown delay pin)) := by
  unfold EBBMotionWrap_pen_lower EBBMotionWrap_pen_lower_main EBBMotionWrap_pen_lower_if1 EBBMotionWrap_pen_lower_if2
  simp only [block_cons2]
  cases pin with
  | none =>
    have hemit : C06.ebb3Emit (connected w) b (.penDown delay Option.none) = some (if connected w then [⟨"SP", [0, delay]⟩] else []) := by
      simp [C06.ebb3Emit, C06.ebb3EmitWith, C06.present]
    rw [hemit]
    refine guarded_send fuel hf .none _ pass _ ⟨.int delay, .none, .str (textChars "SP" [0, delay])⟩ w hg he
      "SP" [0, delay] (by decide) (by decide) (by decide) pureS_pass ?_
    intro w
    rw [seq_pass]
    have htext : (fstr [ok (.str ['S', 'P', ',', '0', ',']), ok (.int delay)] : Eff EBB3_Obj) = ok (.str (textChars "SP" [0, delay])) := by
      simp only [fstr, evalList_cons_ok, evalList_nil, List.map, strOf, List.flatten_cons, List.flatten_nil, textChars, argChars, showInt_0, showInt_1, showInt_3, showInt_4, showInt_5, showInt_11, showInt_12, List.cons_append, List.nil_append, List.append_assoc, List.append_nil, lit_SP]
    simp only [block_cons2, block_one, seq, assign, expr, ok_apply, load_str, load_int, pass, ifte, app1_ok, op_is_not_none, op_is_none, isNone, ofP_ok, truthy_bool, Bool.not_false, Bool.not_true, Bool.false_eq_true, ↓reduceIte, and_ok, encOpt, htext]
  | some q =>
    have hemit : C06.ebb3Emit (connected w) b (.penDown delay (some q)) = some (if connected w then [⟨"SP", [0, delay, q]⟩] else []) := by
      simp [C06.ebb3Emit, C06.ebb3EmitWith, C06.present]
    rw [hemit]
    refine guarded_send fuel hf .none _ pass _ ⟨.int delay, .int q, .str (textChars "SP" [0, delay, q])⟩ w hg he
      "SP" [0, delay, q] (by decide) (by decide) (by decide) pureS_pass ?_
    intro w
    rw [seq_pass]
    have htext : (fstr [ok (.str ['S', 'P', ',', '0', ',']), ok (.int delay), ok (.str [',']), ok (.int q)] : Eff EBB3_Obj) = ok (.str (textChars "SP" [0, delay, q])) := by
      simp only [fstr, evalList_cons_ok, evalList_nil, List.map, strOf, List.flatten_cons, List.flatten_nil, textChars, argChars, showInt_0, showInt_1, showInt_3, showInt_4, showInt_5, showInt_11, showInt_12, List.cons_append, List.nil_append, List.append_assoc, List.append_nil, lit_SP]
    simp only [block_cons2, block_one, seq, assign, expr, ok_apply, load_str, load_int, pass, ifte, app1_ok, op_is_not_none, op_is_none, isNone, ofP_ok, truthy_bool, Bool.not_false, Bool.not_true, Bool.false_eq_true, ↓reduceIte, and_ok, encOpt, htext]

/-- `pen_raise`: `SP,1,<delay>[,<pin>]` -/
theorem EBBMotionWrap_pen_raise_bridge (fuel : Nat) (hf : 26 ≤ fuel) (b : C06.Board) (delay : Int) (pin : Option Int) (w : World EBB3_Obj)
    (hg : Good w) (he : w.obj.err = .none) :
    Wrote3 (EBBMotionWrap_pen_raise fuel (.int delay) (encOpt pin) w) w (C06.ebb3Emit (connected w) b (.penUp delay pin)) := by
  unfold EBBMotionWrap_pen_raise EBBMotionWrap_pen_raise_main EBBMotionWrap_pen_raise_if1 EBBMotionWrap_pen_raise_if2
  simp only [block_cons2]
  cases pin with
  | none =>
    have hemit : C06.ebb3Emit (connected w) b (.penUp delay Option.none) = some (if connected w then [⟨"SP", [1, delay]⟩] else []) := by
      simp [C06.ebb3Emit, C06.ebb3EmitWith, C06.present]
    rw [hemit]
    refine guarded_send fuel hf .none _ pass _ ⟨.int delay, .none, .str (textChars "SP" [1, delay])⟩ w hg he
      "SP" [1, delay] (by decide) (by decide) (by decide) pureS_pass ?_
    intro w
    rw [seq_pass]
    have htext : (fstr [ok (.str ['S', 'P', ',', '1', ',']), ok (.int delay)] : Eff EBB3_Obj) = ok (.str (textChars "SP" [1, delay])) := by
      simp only [fstr, evalList_cons_ok, evalList_nil, List.map, strOf, List.flatten_cons, List.flatten_nil, textChars, argChars, showInt_0, showInt_1, showInt_3, showInt_4, showInt_5, showInt_11, showInt_12, List.cons_append, List.nil_append, List.append_assoc, List.append_nil, lit_SP]
    simp only [block_cons2, block_one, seq, assign, expr, ok_apply, load_str, load_int, pass, ifte, app1_ok, op_is_not_none, op_is_none, isNone, ofP_ok, truthy_bool, Bool.not_false, Bool.not_true, Bool.false_eq_true, ↓reduceIte, and_ok, encOpt, htext]
  | some q =>
    have hemit : C06.ebb3Emit (connected w) b (.penUp delay (some q)) = some (if connected w then [⟨"SP", [1, delay, q]⟩] else []) := by
      simp [C06.ebb3Emit, C06.ebb3EmitWith, C06.present]
    rw [hemit]
    refine guarded_send fuel hf .none _ pass _ ⟨.int delay, .int q, .str (textChars "SP" [1, delay, q])⟩ w hg he
      "SP" [1, delay, q] (by decide) (by decide) (by decide) pureS_pass ?_
    intro w
    rw [seq_pass]
    have htext : (fstr [ok (.str ['S', 'P', ',', '1', ',']), ok (.int delay), ok (.str [',']), ok (.int q)] : Eff EBB3_Obj) = ok (.str (textChars "SP" [1, delay, q])) := by
      simp only [fstr, evalList_cons_ok, evalList_nil, List.map, strOf, List.flatten_cons, List.flatten_nil, textChars, argChars, showInt_0, showInt_1, showInt_3, showInt_4, showInt_5, showInt_11, showInt_12, List.cons_append, List.nil_append, List.append_assoc, List.append_nil, lit_SP]
    simp only [block_cons2, block_one, seq, assign, expr, ok_apply, load_str, load_int, pass, ifte, app1_ok, op_is_not_none, op_is_none, isNone, ofP_ok, truthy_bool, Bool.not_false, Bool.not_true, Bool.false_eq_true, ↓reduceIte, and_ok, encOpt, htext]

/-- `servo_timeout`: `SR,<ms>[,<state>]` -/
theorem EBBMotionWrap_servo_timeout_bridge (fuel : Nat) (hf : 26 ≤ fuel) (b : C06.Board) (ms : Int) (state : Option Int) (w : World EBB3_Obj)
    (hg : Good w) (he : w.obj.err = .none) :
    Wrote3 (EBBMotionWrap_servo_timeout fuel (.int ms) (encOpt state) w) w (C06.ebb3Emit (connected w) b (.servoTimeout ms state)) := by
  unfold EBBMotionWrap_servo_timeout EBBMotionWrap_servo_timeout_main EBBMotionWrap_servo_timeout_if1 EBBMotionWrap_servo_timeout_if2
  simp only [block_cons2]
  cases state with
  | none =>
    have hemit : C06.ebb3Emit (connected w) b (.servoTimeout ms Option.none) = some (if connected w then [⟨"SR", [ms]⟩] else []) := by
      simp [C06.ebb3Emit, C06.ebb3EmitWith, C06.present]
    rw [hemit]
    refine guarded_send fuel hf .none _ pass _ ⟨.int ms, .none, .str (textChars "SR" [ms])⟩ w hg he
      "SR" [ms] (by decide) (by decide) (by decide) pureS_pass ?_
    intro w
    rw [seq_pass]
    have htext : (fstr [ok (.str ['S', 'R', ',']), ok (.int ms)] : Eff EBB3_Obj) = ok (.str (textChars "SR" [ms])) := by
      simp only [fstr, evalList_cons_ok, evalList_nil, List.map, strOf, List.flatten_cons, List.flatten_nil, textChars, argChars, showInt_0, showInt_1, showInt_3, showInt_4, showInt_5, showInt_11, showInt_12, List.cons_append, List.nil_append, List.append_assoc, List.append_nil, lit_SR]
    simp only [block_cons2, block_one, seq, assign, expr, ok_apply, load_str, load_int, pass, ifte, app1_ok, op_is_not_none, op_is_none, isNone, ofP_ok, truthy_bool, Bool.not_false, Bool.not_true, Bool.false_eq_true, ↓reduceIte, and_ok, encOpt, htext]
  | some q =>
    have hemit : C06.ebb3Emit (connected w) b (.servoTimeout ms (some q)) = some (if connected w then [⟨"SR", [ms, q]⟩] else []) := by
      simp [C06.ebb3Emit, C06.ebb3EmitWith, C06.present]
    rw [hemit]
    refine guarded_send fuel hf .none _ pass _ ⟨.int ms, .int q, .str (textChars "SR" [ms, q])⟩ w hg he
      "SR" [ms, q] (by decide) (by decide) (by decide) pureS_pass ?_
    intro w
    rw [seq_pass]
    have htext : (fstr [ok (.str ['S', 'R', ',']), ok (.int ms), ok (.str [',']), ok (.int q)] : Eff EBB3_Obj) = ok (.str (textChars "SR" [ms, q])) := by
      simp only [fstr, evalList_cons_ok, evalList_nil, List.map, strOf, List.flatten_cons, List.flatten_nil, textChars, argChars, showInt_0, showInt_1, showInt_3, showInt_4, showInt_5, showInt_11, showInt_12, List.cons_append, List.nil_append, List.append_assoc, List.append_nil, lit_SR]
    simp only [block_cons2, block_one, seq, assign, expr, ok_apply, load_str, load_int, pass, ifte, app1_ok, op_is_not_none, op_is_none, isNone, ofP_ok, truthy_bool, Bool.not_false, Bool.not_true, Bool.false_eq_true, ↓reduceIte, and_ok, encOpt, htext]


/-- `abs_move`: `HM,<rate>,<p1>,<p2>` when both positions are supplied (zero included), else `HM,<rate>` -/
theorem EBBMotionWrap_abs_move_bridge (fuel : Nat) (hf : 26 ≤ fuel) (b : C06.Board) (rate : Int) (p1 p2 : Option Int)
    (w : World EBB3_Obj) (hg : Good w) (he : w.obj.err = .none) :
    Wrote3 (EBBMotionWrap_abs_move fuel (.int rate) (encOpt p1) (encOpt p2) w) w
      (C06.ebb3Emit (connected w) b (.absMove rate p1 p2)) := by
  unfold EBBMotionWrap_abs_move EBBMotionWrap_abs_move_main EBBMotionWrap_abs_move_if1 EBBMotionWrap_abs_move_if2
  simp only [block_cons2]
  cases p1 with
  | none =>
    cases p2 with
    | none =>
      have hemit : C06.ebb3Emit (connected w) b (.absMove rate Option.none Option.none) = some (if connected w then [⟨"HM", [rate]⟩] else []) := by
        simp [C06.ebb3Emit, C06.ebb3EmitWith]
      rw [hemit]
      refine guarded_send fuel hf .none _ pass _ ⟨.int rate, .none, .none, .str (textChars "HM" [rate])⟩ w hg he
        "HM" [rate] (by decide) (by decide) (by decide) pureS_pass ?_
      intro w
      rw [seq_pass]
      have htext : (fstr [ok (.str ['H', 'M', ',']), ok (.int rate)] : Eff EBB3_Obj) = ok (.str (textChars "HM" [rate])) := by
        simp only [fstr, evalList_cons_ok, evalList_nil, List.map, strOf, List.flatten_cons, List.flatten_nil, textChars, argChars, showInt_0, showInt_1, showInt_3, showInt_4, showInt_5, showInt_11, showInt_12, List.cons_append, List.nil_append, List.append_assoc, List.append_nil, lit_HM]
      simp only [block_cons2, block_one, seq, assign, expr, ok_apply, load_str, load_int, pass, ifte, app1_ok, op_is_not_none, op_is_none, isNone, ofP_ok, truthy_bool, Bool.not_false, Bool.not_true, Bool.false_eq_true, ↓reduceIte, and_ok, encOpt, htext]

    | some c =>
      have hemit : C06.ebb3Emit (connected w) b (.absMove rate Option.none (some c)) = some (if connected w then [⟨"HM", [rate]⟩] else []) := by
        simp [C06.ebb3Emit, C06.ebb3EmitWith]
      rw [hemit]
      refine guarded_send fuel hf .none _ pass _ ⟨.int rate, .none, .int c, .str (textChars "HM" [rate])⟩ w hg he
        "HM" [rate] (by decide) (by decide) (by decide) pureS_pass ?_
      intro w
      rw [seq_pass]
      have htext : (fstr [ok (.str ['H', 'M', ',']), ok (.int rate)] : Eff EBB3_Obj) = ok (.str (textChars "HM" [rate])) := by
        simp only [fstr, evalList_cons_ok, evalList_nil, List.map, strOf, List.flatten_cons, List.flatten_nil, textChars, argChars, showInt_0, showInt_1, showInt_3, showInt_4, showInt_5, showInt_11, showInt_12, List.cons_append, List.nil_append, List.append_assoc, List.append_nil, lit_HM]
      simp only [block_cons2, block_one, seq, assign, expr, ok_apply, load_str, load_int, pass, ifte, app1_ok, op_is_not_none, op_is_none, isNone, ofP_ok, truthy_bool, Bool.not_false, Bool.not_true, Bool.false_eq_true, ↓reduceIte, and_ok, encOpt, htext]

  | some a =>
    cases p2 with
    | none =>
      have hemit : C06.ebb3Emit (connected w) b (.absMove rate (some a) Option.none) = some (if connected w then [⟨"HM", [rate]⟩] else []) := by
        simp [C06.ebb3Emit, C06.ebb3EmitWith]
      rw [hemit]
      refine guarded_send fuel hf .none _ pass _ ⟨.int rate, .int a, .none, .str (textChars "HM" [rate])⟩ w hg he
        "HM" [rate] (by decide) (by decide) (by decide) pureS_pass ?_
      intro w
      rw [seq_pass]
      have htext : (fstr [ok (.str ['H', 'M', ',']), ok (.int rate)] : Eff EBB3_Obj) = ok (.str (textChars "HM" [rate])) := by
        simp only [fstr, evalList_cons_ok, evalList_nil, List.map, strOf, List.flatten_cons, List.flatten_nil, textChars, argChars, showInt_0, showInt_1, showInt_3, showInt_4, showInt_5, showInt_11, showInt_12, List.cons_append, List.nil_append, List.append_assoc, List.append_nil, lit_HM]
      simp only [block_cons2, block_one, seq, assign, expr, ok_apply, load_str, load_int, pass, ifte, app1_ok, op_is_not_none, op_is_none, isNone, ofP_ok, truthy_bool, Bool.not_false, Bool.not_true, Bool.false_eq_true, ↓reduceIte, and_ok, encOpt, htext]

    | some c =>
      have hemit : C06.ebb3Emit (connected w) b (.absMove rate (some a) (some c)) = some (if connected w then [⟨"HM", [rate, a, c]⟩] else []) := by
        simp [C06.ebb3Emit, C06.ebb3EmitWith]
      rw [hemit]
      refine guarded_send fuel hf .none _ pass _ ⟨.int rate, .int a, .int c, .str (textChars "HM" [rate, a, c])⟩ w hg he
        "HM" [rate, a, c] (by decide) (by decide) (by decide) pureS_pass ?_
      intro w
      rw [seq_pass]
      have htext : (fstr [ok (.str ['H', 'M', ',']), ok (.int rate), ok (.str [',']), ok (.int a), ok (.str [',']), ok (.int c)] : Eff EBB3_Obj) = ok (.str (textChars "HM" [rate, a, c])) := by
        simp only [fstr, evalList_cons_ok, evalList_nil, List.map, strOf, List.flatten_cons, List.flatten_nil, textChars, argChars, showInt_0, showInt_1, showInt_3, showInt_4, showInt_5, showInt_11, showInt_12, List.cons_append, List.nil_append, List.append_assoc, List.append_nil, lit_HM]
      simp only [block_cons2, block_one, seq, assign, expr, ok_apply, load_str, load_int, pass, ifte, app1_ok, op_is_not_none, op_is_none, isNone, ofP_ok, truthy_bool, Bool.not_false, Bool.not_true, Bool.false_eq_true, ↓reduceIte, and_ok, encOpt, htext]


/-- `var_write`: `SL,<value>,<index>` -/
theorem EBB3_var_write_bridge (fuel : Nat) (hf : 26 ≤ fuel) (b : C06.Board) (v i : Int) (w : World EBB3_Obj) (hg : Good w)
    (he : w.obj.err = .none) :
    Wrote3 (EBB3_var_write fuel (.int v) (.int i) w) w (C06.ebb3Emit (connected w) b (.varWrite v i)) := by
  have hemit : C06.ebb3Emit (connected w) b (.varWrite v i) = some (if connected w then [⟨"SL", [v, i]⟩] else []) := by
    simp [C06.ebb3Emit, C06.ebb3EmitWith]
  rw [hemit]
  unfold EBB3_var_write EBB3_var_write_main EBB3_var_write_if1
  simp only [block_cons2]
  refine guarded_send fuel hf (.bool false) _ (block [EBB3_var_write_if2, return_ fun fuel env => ok (.bool true)]) _ ⟨.int v, .int i⟩ w hg he
    "SL" [v, i] (by decide) (by decide) (by decide) ?_ ?_
  · simp only [block_cons2, block_one]
    unfold EBB3_var_write_if2
    exact pureS_seq (pureS_ifte (fun _ _ => pureE_app1 _ (pureE_getattr _)) (pureS_return fun _ _ => pureE_ok _) pureS_pass)
      (pureS_return fun _ _ => pureE_ok _)
  · intro w
    have htext : (fstr [ok (.str ['S', 'L', ',']), ok (.int v), ok (.str [',']), ok (.int i)] : Eff EBB3_Obj)
        = ok (.str (textChars "SL" [v, i])) := by
      simp only [fstr, evalList_cons_ok, evalList_nil, List.map, strOf, List.flatten_cons, List.flatten_nil, textChars, argChars, showInt_0, showInt_1, showInt_3, showInt_4, showInt_5, showInt_11, showInt_12, List.cons_append, List.nil_append, List.append_assoc, List.append_nil, lit_SL]
    simp only [block_cons2, block_one, seq, expr, htext]

/-! ## the EBB3 layer, request by request -/

/-- the regenerated EBB3 method serving `r` (`none`: no method, or not bridged here — the methods that transmit several
commands or query the board) -/
def ebb3Gen (fuel : Nat) (w : World EBB3_Obj) : C06.Req → Option (Out EBB3_Obj)
  | .xyMove dx dy dur => some (EBBMotionWrap_xy_move fuel (.int dx) (.int dy) (.int dur) w)
  | .absMove rate p1 p2 => some (EBBMotionWrap_abs_move fuel (.int rate) (encOpt p1) (encOpt p2) w)
  | .penDown delay pin => some (EBBMotionWrap_pen_lower fuel (.int delay) (encOpt pin) w)
  | .penUp delay pin => some (EBBMotionWrap_pen_raise fuel (.int delay) (encOpt pin) w)
  | .disable => some (EBBMotionWrap_motors_disable fuel w)
  | .pbSet pin state => some (EBBMotionWrap_dio_b_set fuel (.int pin) (.int state) w)
  | .penPosDown v => some (EBBMotionWrap_pen_pos_down fuel (.int v) w)
  | .penPosUp v => some (EBBMotionWrap_pen_pos_up fuel (.int v) w)
  | .penRateDown v => some (EBBMotionWrap_pen_rate_down fuel (.int v) w)
  | .penRateUp v => some (EBBMotionWrap_pen_rate_up fuel (.int v) w)
  | .servoTimeout ms state => some (EBBMotionWrap_servo_timeout fuel (.int ms) (encOpt state) w)
  | .clearSteps => some (EBBMotionWrap_clear_steps fuel w)
  | .clearAccumulators => some (EBBMotionWrap_clear_accumulators fuel w)
  | .varWrite v i => some (EBB3_var_write fuel (.int v) (.int i) w)
  | _ => Option.none

/-- the 14 requests whose regenerated EBB3 method is bridged -/
def Ebb3Covered : C06.Req → Prop
  | .xyMove _ _ _ | .absMove _ _ _ | .penDown _ _ | .penUp _ _ | .disable | .pbSet _ _ | .penPosDown _ | .penPosUp _
  | .penRateDown _ | .penRateUp _ | .servoTimeout _ _ | .clearSteps | .clearAccumulators | .varWrite _ _ => True
  | _ => False

theorem ebb3Gen_isSome (fuel : Nat) (w : World EBB3_Obj) (r : C06.Req) : (ebb3Gen fuel w r).isSome ↔ Ebb3Covered r := by
  cases r <;> simp [ebb3Gen, Ebb3Covered]

theorem ebb3Emit_isSome_of_covered (b : C06.Board) (r : C06.Req) (h : Ebb3Covered r) : (C06.ebb3Emit true b r).isSome := by
  cases r <;> simp [Ebb3Covered] at h <;> simp [C06.ebb3Emit, C06.ebb3EmitWith]

/-- **Every bridged EBB3 method transmits exactly `ebb3Emit`** — on any object of the domain with no recorded error,
whatever the board replies. -/
theorem ebb3Gen_emit (fuel : Nat) (hf : 26 ≤ fuel) (b : C06.Board) (w : World EBB3_Obj) (hg : Good w) (he : w.obj.err = .none)
    (r : C06.Req) (o : Out EBB3_Obj) (ho : ebb3Gen fuel w r = some o) :
    Wrote3 o w (C06.ebb3Emit (connected w) b r) := by
  cases r with
  | xyMove dx dy dur => cases ho; exact xy_move_bridge fuel hf b dx dy dur w hg he
  | absMove rate p1 p2 => cases ho; exact EBBMotionWrap_abs_move_bridge fuel hf b rate p1 p2 w hg he
  | penDown delay pin => cases ho; exact EBBMotionWrap_pen_lower_bridge fuel hf b delay pin w hg he
  | penUp delay pin => cases ho; exact EBBMotionWrap_pen_raise_bridge fuel hf b delay pin w hg he
  | disable => cases ho; exact EBBMotionWrap_motors_disable_bridge fuel hf b w hg he
  | pbSet pin state => cases ho; exact EBBMotionWrap_dio_b_set_bridge fuel hf b pin state w hg he
  | penPosDown v => cases ho; exact EBBMotionWrap_pen_pos_down_bridge fuel hf b v w hg he
  | penPosUp v => cases ho; exact EBBMotionWrap_pen_pos_up_bridge fuel hf b v w hg he
  | penRateDown v => cases ho; exact EBBMotionWrap_pen_rate_down_bridge fuel hf b v w hg he
  | penRateUp v => cases ho; exact EBBMotionWrap_pen_rate_up_bridge fuel hf b v w hg he
  | servoTimeout ms state => cases ho; exact EBBMotionWrap_servo_timeout_bridge fuel hf b ms state w hg he
  | clearSteps => cases ho; exact EBBMotionWrap_clear_steps_bridge fuel hf b w hg he
  | clearAccumulators => cases ho; exact EBBMotionWrap_clear_accumulators_bridge fuel hf b w hg he
  | varWrite v i => cases ho; exact EBB3_var_write_bridge fuel hf b v i w hg he
  | _ => cases ho

end C06Gen
end Plotink
