import Plotink.Proofs.C15GenEbb3
/-! # C15 (regenerated code) — the parameters the regenerated code realises, and the assembled statements used by
`Props/C15.lean` -/
namespace Plotink.C15Gen
open PyObj Gen C15
set_option linter.unusedSimpArgs false
set_option linter.unusedVariables false

/-- the `C15` parameters of the regenerated code: the retry loop of `ebb_serial.query` decodes (that is the code
`C07_gen_bridge` was proved about); every version literal is the one standing in the regenerated code -/
def genParams : Params := { Params.std with decodeRetry := true }

theorem genParams_ok : GenParams genParams := ⟨rfl, rfl⟩
theorem genParams_min : genParams.minVersion = ['3', '.', '0', '.', '2'] := by decide
theorem sameName_V : SameName genParams vQuery := by unfold SameName; decide
theorem sameName_QT : SameName genParams ['Q', 'T', '\r'] := by unfold SameName; decide
theorem sameName_QC : SameName genParams ['Q', 'C', '\r'] := by unfold SameName; decide

/-- a rendered release has no leading `v` -/
theorem noV_render (l : List Nat) (hl : l ≠ []) : NoV (render l) := by
  have h := parseVersion_render l hl
  unfold NoV
  obtain ⟨c, t, hct, hc⟩ := render_head l hl
  have hs : strip (render l) = render l := by
    apply strip_of_no_ws
    intro x hx
    rcases render_chars l x hx with h | h
    · exact isDigit_not_ws h
    · subst h; decide
  rw [hs, hct]
  simp only [dropV, isDigit_ne_v hc, ↓reduceIte]

/-- **both layers, regenerated**: the legacy `min_version` on a board whose reply carries the version `v`, and
`EBB3.parse_version` + `EBB3.min_version` on the same reply, both return `vle g v` for a threshold that parses to `g` -/
theorem layers_gen (fuel : Nat) (hf : 101 ≤ fuel) (thr : List Char) (g v : List Nat) (hthr : NoV thr)
    (hg : parseVersion thr = some g) :
    (∀ (w : World NoObj) (reply : List Char), PortOk w.port → NoVScript (absIo w.port).reads →
      (lquery genParams (absIo w.port) vQuery).2 = .ok reply → versionOf reply = some v →
      ∃ p', ebb_serial_min_version fuel .port (.str thr) w = .val (.bool (vle g v)) { w with port := p' }) ∧
    (∀ (st : St) (p : PyIO.Port) (ext : Ext) (reply t : List Char), versionText reply = some t → NoV t →
      parseVersion t = some v →
      ∃ st1, EBB3_parse_version fuel (.str reply) ⟨encSt st, p, ext⟩ = .val .none ⟨encSt st1, p, ext⟩ ∧
        EBB3_min_version fuel (.str thr) ⟨encSt st1, p, ext⟩ = .val (.bool (vle g v)) ⟨encSt st1, p, ext⟩) := by
  constructor
  · intro w reply hp hnov hq hv
    obtain ⟨p', e, _, _, _⟩ := min_version_gen fuel hf thr hthr w hp genParams genParams_ok sameName_V
      (absIo w.port) (rel_absIo _) hnov
    refine ⟨p', ?_⟩
    rw [e]
    have hq' : lquery genParams (absIo w.port) vQuery = ((lquery genParams (absIo w.port) vQuery).1, .ok reply) := by
      rw [← hq]
    unfold versionOf at hv
    cases hvt : versionText reply with
    | none => simp [hvt] at hv
    | some t =>
      simp only [hvt, Option.bind_some] at hv
      have : (lminVersion genParams (absIo w.port) thr).2 = .ok (some (vle g v)) := by
        unfold lminVersion
        rw [hq']
        simp only [hvt, hv, hg, versionGe_eq_vle]
      rw [this]
      rfl
  · intro st p ext reply t ht hnt hv
    have hpv := parse_version_gen fuel reply st p ext
    rw [ht] at hpv
    simp only [parseRelease_agree t hnt, hv] at hpv
    refine ⟨_, hpv, ?_⟩
    have hm := min_version3_gen fuel thr g (by rw [parseRelease_agree thr hthr]; exact hg)
      { st with version := some t, vparsed := some v } p ext
    simp only [versionGe_eq_vle] at hm
    exact hm

/-- the regenerated `connect` returns `True` only after an identification with an acceptable version -/
theorem connect_true_gen (fuel : Nat) (st : St) (hp : st.port = false) (hvp : st.vparsed = none)
    (given found caller : Option (List Char)) (p : PyIO.Port) (ext : Ext) (hok : PortOk p)
    (hloc : EBB3__get_port_name fuel (optStr given) ⟨encSt st, p, ext⟩
      = .val .none ⟨encSt (locSt st given found), p, ext⟩)
    (w' : World EBB3_Obj)
    (hres : EBB3_connect fuel (optStr given) (optStr caller) ⟨encSt st, p, ext⟩ = .val (.bool true) w') :
    ∃ s v, Identifies (ioOf ext p) s ∧ versionOf s = some v ∧ vle [3, 0, 2] v = true := by
  have h := connect_head_gen fuel genParams genParams_min st hp given found caller p ext hok hloc
  cases hh : connectHeadP Ebb3.parseRelease genParams st given found (ioOf ext p) with
  | refused st' io' =>
    rw [hh] at h
    obtain ⟨p', k, e, _⟩ := h
    rw [e] at hres
    cases hres
  | failed e st' io' =>
    rw [hh] at h
    obtain ⟨c, w'', e⟩ := h
    rw [e] at hres
    cases hres
  | pass st' io' =>
    have hpass := headP_pass_mono Ebb3.parseRelease parseVersion genParams st given found (ioOf ext p) st' io'
      (fun t v h => parseRelease_some h) hh
    obtain ⟨s, m, hs, hm, hor⟩ := head_pass genParams st given found (ioOf ext p) st' io' hpass
    rw [genParams_min, parse_minC] at hm
    cases hm
    rcases hor with ⟨v, h1, h2⟩ | ⟨_, v, h1, _⟩
    · exact ⟨s, v, hs, h1, h2⟩
    · rw [hvp] at h1; cases h1

/-- the regenerated `connect` refuses every rejection scenario, in the state of the model's `connect`, having
attempted at most two version probes -/
theorem connect_false_gen (fuel : Nat) (st : St) (hp : st.port = false)
    (given found caller : Option (List Char)) (p : PyIO.Port) (ext : Ext) (hok : PortOk p)
    (hloc : EBB3__get_port_name fuel (optStr given) ⟨encSt st, p, ext⟩
      = .val .none ⟨encSt (locSt st given found), p, ext⟩)
    (hrej : found = none ∨ Rejected [3, 0, 2] (ioOf ext p))
    (hnov : ∀ s t, Identifies (ioOf ext p) s → versionText s = some t → NoV t) :
    ∃ p' k, EBB3_connect fuel (optStr given) (optStr caller) ⟨encSt st, p, ext⟩
        = .val (.bool false) ⟨encSt (connect genParams st given found caller (ioOf ext p)).st, p', ext⟩ ∧
      (connect genParams st given found caller (ioOf ext p)).st.err ≠ none ∧
      blocked (connect genParams st given found caller (ioOf ext p)).st = true ∧
      k ≤ 2 ∧ p'.log = p.log ++ List.replicate k vProbe ∧ (found = none ∨ ext.openOk = false → k = 0) := by
  have hm : parseVersion genParams.minVersion = some [3, 0, 2] := by rw [genParams_min]; exact parse_minC
  obtain ⟨_, herr, hbl, _⟩ := C15.connect_false genParams st given found caller (ioOf ext p) [3, 0, 2] hp hm hrej
  have hhead := head_refused genParams st given found caller (ioOf ext p) [3, 0, 2] hp hm hrej
  have hcongr : connectHeadP Ebb3.parseRelease genParams st given found (ioOf ext p)
      = connectHead genParams st given found (ioOf ext p) := by
    apply headP_congr
    intro hv t ht
    obtain ⟨s, hs⟩ := (hs_verified_iff (ioOf ext p)).mp hv
    have hsv := hs_sv (ioOf ext p) s hs
    rw [hsv] at ht
    exact parseRelease_agree t (hnov s t hs ht)
  have h := connect_head_gen fuel genParams genParams_min st hp given found caller p ext hok hloc
  rw [hcongr, hhead] at h
  obtain ⟨p', k, e, _, hk, hl, hk0⟩ := h
  exact ⟨p', k, e, herr, hbl, hk, hl, hk0⟩

end Plotink.C15Gen
