import Plotink.Proofs.C05Replay
set_option linter.unusedSimpArgs false
set_option linter.unusedVariables false
/-!
# The recorder changes nothing

`Proj xr xd`: the computation `xr` on `recDev D` and the same computation `xd` on `D` return the same result and leave
the same world, up to the logs (`projW` forgets them).  Closed under the monad, the guard and the port primitives;
the walk over the 38 method bodies is the one of `C05Replay` (same tactic).  Core Lean only.
-/
namespace Plotink
namespace Ebb3
open M

variable {σ : Type} {α β : Type}

/-- forget the logs -/
def projW (w : World (Rec σ)) : World σ := ⟨w.st, w.dev.inner, w.out, w.nreads⟩

def Proj (xr : M (Rec σ) α) (xd : M σ α) : Prop :=
  ∀ w : World (Rec σ), xd (projW w) = ((xr w).1, projW (xr w).2)

theorem Proj.pure (a : α) : Proj (Pure.pure a : M (Rec σ) α) (Pure.pure a) := fun _ => rfl
theorem Proj.raise (e : PyExc) : Proj (M.raise e : M (Rec σ) α) (M.raise e) := fun _ => rfl
theorem Proj.getSt : Proj (getSt : M (Rec σ) St) getSt := fun _ => rfl
theorem Proj.modifySt (f : St → St) : Proj (modifySt f : M (Rec σ) Unit) (modifySt f) := fun _ => rfl
theorem Proj.recordError (m : Str) : Proj (recordError m : M (Rec σ) Unit) (recordError m) := Proj.modifySt _
theorem Proj.disconnectM : Proj (disconnectM : M (Rec σ) Unit) disconnectM := Proj.modifySt _
theorem Proj.ofOption (e : PyExc) (o : Option α) : Proj (ofOption e o : M (Rec σ) α) (ofOption e o) := by
  cases o <;> exact fun _ => rfl

theorem Proj.bind {xr : M (Rec σ) α} {xd : M σ α} {fr : α → M (Rec σ) β} {fd : α → M σ β}
    (hx : Proj xr xd) (hf : ∀ a, Proj (fr a) (fd a)) : Proj (xr >>= fr) (xd >>= fd) := by
  intro w
  have h1 := hx w
  rcases hxw : xr w with ⟨r, w1⟩
  rw [hxw] at h1
  cases r with
  | error e => rw [bind_error hxw, bind_error h1]
  | ok a => rw [bind_ok hxw, bind_ok h1]; exact hf a w1

theorem Proj.portWrite (D : Device σ) (t : Str) : Proj (portWrite (recDev D) t) (portWrite D t) := fun _ => rfl
theorem Proj.portRead (D : Device σ) : Proj (portRead (recDev D)) (portRead D) := fun _ => rfl
theorem Proj.portReset (D : Device σ) : Proj (portReset (recDev D)) (portReset D) := fun _ => rfl

theorem Proj.guardM {fv : Val} {br : M (Rec σ) Val} {bd : M σ Val} (hb : Proj br bd) :
    Proj (guardM fv br) (guardM fv bd) := by
  intro w
  unfold Ebb3.guardM
  by_cases hbl : w.st.blocked = true
  · simp [hbl, projW]
  · have := hb w
    simpa [hbl, projW] using this

theorem Proj.prog {pr : Prog (Rec σ)} {pd : Prog σ} (hg : pr.guard = pd.guard) (hb : Proj pr.body pd.body) :
    Proj pr.run pd.run := by
  unfold Prog.run
  rw [← hg]
  cases pr.guard with
  | none => exact hb
  | some fv => exact Proj.guardM hb

/-! ## the walk -/

macro "proj_step" : tactic => `(tactic| first
  | exact Proj.pure _ | exact Proj.raise _ | exact Proj.getSt | exact Proj.modifySt _
  | exact Proj.recordError _ | exact Proj.disconnectM | exact Proj.ofOption _ _
  | exact Proj.portWrite _ _ | exact Proj.portRead _ | exact Proj.portReset _
  | refine Proj.bind ?_ (fun _ => ?_)
  | split)

/-- walk a body; `ts` = the lemmas of the definitions it mentions -/
syntax "proj_auto" "[" term,* "]" : tactic
macro_rules
  | `(tactic| proj_auto [$ts,*]) => `(tactic| repeat (first $[| exact $ts]* | proj_step))

variable (P : Params) (D : Device σ)

theorem Proj.readLoop : ∀ n : Nat, Proj (readLoop (recDev D) n) (readLoop D n)
  | 0 => by unfold Ebb3.readLoop; exact Proj.pure _
  | n + 1 => by
    unfold Ebb3.readLoop
    proj_auto [Proj.readLoop n]

theorem Proj.exchange (retry : Nat) (t : Str) :
    Proj (exchange (recDev D) retry t) (exchange D retry t) := by
  unfold Ebb3.exchange
  proj_auto [Proj.readLoop D _]

theorem Proj.commandJudge (cmd name : Str) (r : Option Str) :
    Proj (commandJudge P cmd name r : M (Rec σ) Unit) (commandJudge P cmd name r) := by
  unfold Ebb3.commandJudge
  proj_auto []

theorem Proj.errIsNone : Proj (errIsNone : M (Rec σ) Val) errIsNone := by
  unfold Ebb3.errIsNone
  proj_auto []

theorem Proj.commandCore (cmd : Str) : Proj (commandCore P (recDev D) cmd) (commandCore P D cmd) := by
  unfold Ebb3.commandCore
  proj_auto [Proj.exchange D _ _, Proj.commandJudge P _ _ _, Proj.errIsNone]

theorem Proj.commandRun (c : Option Str) : Proj (commandP P (recDev D) c).run (commandP P D c).run := by
  refine Proj.prog rfl ?_
  show Proj (commandBody P (recDev D) c) (commandBody P D c)
  unfold Ebb3.commandBody
  proj_auto [Proj.commandCore P D _]

theorem Proj.queryJudge (q name resp : Str) :
    Proj (queryJudge q name resp : M (Rec σ) Val) (queryJudge q name resp) := by
  unfold Ebb3.queryJudge
  proj_auto []

theorem Proj.queryCore (q : Str) : Proj (queryCore P (recDev D) q) (queryCore P D q) := by
  unfold Ebb3.queryCore
  proj_auto [Proj.exchange D _ _, Proj.queryJudge _ _ _]

theorem Proj.queryRun (q : Option Str) : Proj (queryP P (recDev D) q).run (queryP P D q).run := by
  refine Proj.prog rfl ?_
  show Proj (queryBody P (recDev D) q) (queryBody P D q)
  unfold Ebb3.queryBody
  proj_auto [Proj.queryCore P D _]

theorem Proj.qgJudge (resp : Str) : Proj (qgJudge resp : M (Rec σ) Val) (qgJudge resp) := by
  unfold Ebb3.qgJudge
  proj_auto []

theorem Proj.qgUsbFail : Proj (qgUsbFail : M (Rec σ) Val) qgUsbFail := by
  unfold Ebb3.qgUsbFail
  proj_auto []

theorem Proj.queryStatusByteBody : Proj (queryStatusByteBody (recDev D)) (queryStatusByteBody D) := by
  unfold Ebb3.queryStatusByteBody
  proj_auto [Proj.qgJudge _, Proj.qgUsbFail]

theorem Proj.rawCloseBody (t : Str) : Proj (rawCloseBody (recDev D) t) (rawCloseBody D t) := by
  unfold Ebb3.rawCloseBody
  proj_auto []

theorem Proj.setName (n : Str) : Proj (setName n : M (Rec σ) Unit) (setName n) := Proj.modifySt _

theorem Proj.queryNicknameRun : Proj (queryNicknameP P (recDev D)).run (queryNicknameP P D).run := by
  refine Proj.prog rfl ?_
  show Proj (queryNicknameP P (recDev D)).body (queryNicknameP P D).body
  unfold Ebb3.queryNicknameP
  proj_auto [Proj.queryRun P D _, Proj.setName _]

theorem Proj.writeNicknameRun (n : Option Str) :
    Proj (writeNicknameP P (recDev D) n).run (writeNicknameP P D n).run := by
  refine Proj.prog rfl ?_
  show Proj (writeNicknameP P (recDev D) n).body (writeNicknameP P D n).body
  unfold Ebb3.writeNicknameP
  proj_auto [Proj.commandRun P D _, Proj.setName _]

theorem Proj.varWriteRun (v i : Int) : Proj (varWriteP P (recDev D) v i).run (varWriteP P D v i).run := by
  refine Proj.prog rfl ?_
  show Proj (varWriteP P (recDev D) v i).body (varWriteP P D v i).body
  unfold Ebb3.varWriteP
  proj_auto [Proj.commandRun P D _, Proj.errIsNone]

theorem Proj.intOfVal (v : Val) : Proj (intOfVal v : M (Rec σ) Val) (intOfVal v) := by
  unfold Ebb3.intOfVal
  proj_auto []

theorem Proj.varReadRun (i : Int) : Proj (varReadP P (recDev D) i).run (varReadP P D i).run := by
  refine Proj.prog rfl ?_
  show Proj (varReadP P (recDev D) i).body (varReadP P D i).body
  unfold Ebb3.varReadP
  proj_auto [Proj.queryRun P D _, Proj.intOfVal _]

theorem Proj.varWriteInt32Run (v i : Int) :
    Proj (varWriteInt32P P (recDev D) v i).run (varWriteInt32P P D v i).run := by
  refine Proj.prog rfl ?_
  show Proj (varWriteInt32P P (recDev D) v i).body (varWriteInt32P P D v i).body
  unfold Ebb3.varWriteInt32P
  proj_auto [Proj.varWriteRun P D _ _, Proj.errIsNone]

theorem Proj.varReadInt32Run (i : Int) :
    Proj (varReadInt32P P (recDev D) i).run (varReadInt32P P D i).run := by
  refine Proj.prog rfl ?_
  show Proj (varReadInt32P P (recDev D) i).body (varReadInt32P P D i).body
  unfold Ebb3.varReadInt32P
  proj_auto [Proj.varReadRun P D _]

theorem Proj.cmd_ (t : Str) : Proj (cmd_ P (recDev D) t) (cmd_ P D t) := by
  unfold Ebb3.cmd_
  proj_auto [Proj.commandRun P D _]

theorem Proj.cmdRun (t : Str) : Proj (cmdP P (recDev D) t).run (cmdP P D t).run := by
  refine Proj.prog rfl ?_
  show Proj (cmdP P (recDev D) t).body (cmdP P D t).body
  unfold Ebb3.cmdP
  proj_auto [Proj.cmd_ P D _]

theorem Proj.runCmds : ∀ l : List Str, Proj (runCmds P (recDev D) l) (runCmds P D l)
  | [] => by unfold Ebb3.runCmds; exact Proj.pure _
  | c :: cs => by
    unfold Ebb3.runCmds
    proj_auto [Proj.cmd_ P D _, Proj.runCmds cs]

theorem Proj.timedPauseRun (t : Int) : Proj (timedPauseP P (recDev D) t).run (timedPauseP P D t).run := by
  refine Proj.prog rfl ?_
  show Proj (timedPauseP P (recDev D) t).body (timedPauseP P D t).body
  unfold Ebb3.timedPauseP
  proj_auto [Proj.runCmds P D _]

theorem Proj.qeDecode (l : List Str) : Proj (qeDecode l : M (Rec σ) Val) (qeDecode l) := by
  unfold Ebb3.qeDecode
  proj_auto []

theorem Proj.motorsQueryEnabledRun :
    Proj (motorsQueryEnabledP P (recDev D)).run (motorsQueryEnabledP P D).run := by
  refine Proj.prog rfl ?_
  show Proj (motorsQueryEnabledP P (recDev D)).body (motorsQueryEnabledP P D).body
  unfold Ebb3.motorsQueryEnabledP
  proj_auto [Proj.queryRun P D _, Proj.qeDecode _]

theorem Proj.motorsEnableCore (a b : Int) :
    Proj (motorsEnableCore P (recDev D) a b) (motorsEnableCore P D a b) := by
  unfold Ebb3.motorsEnableCore
  proj_auto [Proj.cmd_ P D _, Proj.motorsQueryEnabledRun P D]

theorem Proj.int2 (l : List Str) : Proj (int2 l : M (Rec σ) Val) (int2 l) := by
  unfold Ebb3.int2
  proj_auto []

theorem Proj.queryStepsRun : Proj (queryStepsP P (recDev D)).run (queryStepsP P D).run := by
  refine Proj.prog rfl ?_
  show Proj (queryStepsP P (recDev D)).body (queryStepsP P D).body
  unfold Ebb3.queryStepsP
  proj_auto [Proj.queryRun P D _, Proj.int2 _]

theorem Proj.dioBConfigRun (a b c : Int) :
    Proj (dioBConfigP P (recDev D) a b c).run (dioBConfigP P D a b c).run := by
  refine Proj.prog rfl ?_
  show Proj (dioBConfigP P (recDev D) a b c).body (dioBConfigP P D a b c).body
  unfold Ebb3.dioBConfigP
  proj_auto [Proj.cmd_ P D _]

theorem Proj.boolOfStr (s : Str) : Proj (boolOfStr s : M (Rec σ) Val) (boolOfStr s) := by
  unfold Ebb3.boolOfStr
  proj_auto []

theorem Proj.dioBReadRun (pin : Int) : Proj (dioBReadP P (recDev D) pin).run (dioBReadP P D pin).run := by
  refine Proj.prog rfl ?_
  show Proj (dioBReadP P (recDev D) pin).body (dioBReadP P D pin).body
  unfold Ebb3.dioBReadP
  proj_auto [Proj.queryRun P D _, Proj.boolOfStr _]

theorem Proj.voltageDecode (th : Int) (x : Str × Option Str) :
    Proj (voltageDecode th x : M (Rec σ) Val) (voltageDecode th x) := by
  unfold Ebb3.voltageDecode
  proj_auto []

theorem Proj.queryVoltageRun (th : Option Int) :
    Proj (queryVoltageP P (recDev D) th).run (queryVoltageP P D th).run := by
  refine Proj.prog rfl ?_
  show Proj (queryVoltageP P (recDev D) th).body (queryVoltageP P D th).body
  unfold Ebb3.queryVoltageP
  proj_auto [Proj.queryRun P D _, Proj.voltageDecode _ _]

theorem Proj.currentDecode (x : Str × Option Str) : Proj (currentDecode x : M (Rec σ) Val) (currentDecode x) := by
  unfold Ebb3.currentDecode
  proj_auto []

theorem Proj.queryCurrentRun : Proj (queryCurrentP P (recDev D)).run (queryCurrentP P D).run := by
  refine Proj.prog rfl ?_
  show Proj (queryCurrentP P (recDev D)).body (queryCurrentP P D).body
  unfold Ebb3.queryCurrentP
  proj_auto [Proj.queryRun P D _, Proj.currentDecode _]

/-! ### the helpers, `disconnect`, `connect` -/

theorem Proj.setVersion (v : Str) : Proj (setVersion v : M (Rec σ) Unit) (setVersion v) := by
  unfold Ebb3.setVersion
  proj_auto []

theorem Proj.parseVersionM (s : Str) : Proj (parseVersionM s : M (Rec σ) Unit) (parseVersionM s) := by
  unfold Ebb3.parseVersionM
  proj_auto [Proj.setVersion _]

theorem Proj.minVersionM (s : Str) : Proj (minVersionM s : M (Rec σ) Val) (minVersionM s) := by
  unfold Ebb3.minVersionM
  proj_auto []

theorem Proj.probe : Proj (probe (recDev D)) (probe D) := by
  unfold Ebb3.probe
  proj_auto []

theorem Proj.getPortName (g f : Option Str) : Proj (getPortName g f : M (Rec σ) Unit) (getPortName g f) := by
  unfold Ebb3.getPortName
  proj_auto []

theorem Proj.probeFail (pn : Str) : Proj (probeFail pn : M (Rec σ) (Option Str)) (probeFail pn) := by
  unfold Ebb3.probeFail
  proj_auto []

theorem Proj.identify (pn : Str) (o : Bool) : Proj (identify (recDev D) pn o) (identify D pn o) := by
  unfold Ebb3.identify
  proj_auto [Proj.probe D, Proj.probeFail _]

theorem Proj.setCaller (c : Option Str) : Proj (setCaller c : M (Rec σ) Unit) (setCaller c) := by
  unfold Ebb3.setCaller
  proj_auto []

theorem Proj.enterFuture (c : Option Str) : Proj (enterFuture P (recDev D) c) (enterFuture P D c) := by
  unfold Ebb3.enterFuture
  proj_auto [Proj.queryNicknameRun P D, Proj.setCaller _]

theorem Proj.checkVersion (c : Option Str) (sv : Str) :
    Proj (checkVersion P (recDev D) c sv) (checkVersion P D c sv) := by
  unfold Ebb3.checkVersion
  proj_auto [Proj.parseVersionM _, Proj.minVersionM _, Proj.enterFuture P D _]

theorem Proj.connectFailed (pn : Str) : Proj (connectFailed pn : M (Rec σ) Val) (connectFailed pn) := by
  unfold Ebb3.connectFailed
  proj_auto []

theorem Proj.connectBody (g c f : Option Str) (o : Bool) :
    Proj (connectBody P (recDev D) g c f o) (connectBody P D g c f o) := by
  unfold Ebb3.connectBody
  proj_auto [Proj.getPortName _ _, Proj.identify D _ _, Proj.connectFailed _, Proj.checkVersion P D _ _]

/-- **every public method**: the recorder changes nothing -/
theorem proj_run (c : Call) : Proj (run P (recDev D) c) (run P D c) := by
  unfold run
  cases c
  case find_first f =>
    refine Proj.prog rfl ?_
    show Proj (findFirstP f).body (findFirstP f).body
    unfold findFirstP; proj_auto []
  case reboot => exact Proj.prog rfl (Proj.rawCloseBody D _)
  case bootload => exact Proj.prog rfl (Proj.rawCloseBody D _)
  case record_error m =>
    refine Proj.prog rfl ?_
    show Proj (recordErrorP m).body (recordErrorP m).body
    unfold recordErrorP; proj_auto []
  case parse_version s =>
    refine Proj.prog rfl ?_
    show Proj (parseVersionP s).body (parseVersionP s).body
    unfold parseVersionP; proj_auto [Proj.parseVersionM _]
  case query_nickname => exact Proj.queryNicknameRun P D
  case write_nickname n => exact Proj.writeNicknameRun P D n
  case disconnect =>
    refine Proj.prog rfl ?_
    show Proj (disconnectP).body (disconnectP).body
    unfold disconnectP; proj_auto []
  case connect g cl f o => exact Proj.prog rfl (Proj.connectBody P D g cl f o)
  case min_version v => exact Proj.prog rfl (Proj.minVersionM v)
  case command cmd => exact Proj.commandRun P D cmd
  case query q => exact Proj.queryRun P D q
  case query_statusbyte => exact Proj.prog rfl (Proj.queryStatusByteBody D)
  case var_write v i => exact Proj.varWriteRun P D v i
  case var_read i => exact Proj.varReadRun P D i
  case var_write_int32 v i => exact Proj.varWriteInt32Run P D v i
  case var_read_int32 i => exact Proj.varReadInt32Run P D i
  case timed_pause t => exact Proj.timedPauseRun P D t
  case xy_move dx dy dur => exact Proj.cmdRun P D _
  case abs_move r a b => exact Proj.cmdRun P D _
  case motors_disable => exact Proj.cmdRun P D _
  case motors_enable a b => exact Proj.prog rfl (Proj.motorsEnableCore P D _ _)
  case motors_query_enabled => exact Proj.motorsQueryEnabledRun P D
  case query_steps => exact Proj.queryStepsRun P D
  case clear_steps => exact Proj.cmdRun P D _
  case clear_accumulators => exact Proj.cmdRun P D _
  case pen_lower d p => exact Proj.cmdRun P D _
  case pen_raise d p => exact Proj.cmdRun P D _
  case dio_b_config a b c => exact Proj.dioBConfigRun P D a b c
  case dio_b_set a b => exact Proj.cmdRun P D _
  case dio_b_read p => exact Proj.dioBReadRun P D p
  case pen_pos_down v => exact Proj.cmdRun P D _
  case pen_pos_up v => exact Proj.cmdRun P D _
  case pen_rate_down v => exact Proj.cmdRun P D _
  case pen_rate_up v => exact Proj.cmdRun P D _
  case servo_timeout m s => exact Proj.cmdRun P D _
  case query_voltage t => exact Proj.queryVoltageRun P D t
  case query_current => exact Proj.queryCurrentRun P D


/-- histories: call by call the same results, and the same worlds up to the logs -/
theorem proj_hist : ∀ (cs : List Call) (w : World (Rec σ)),
    finalWorld P D cs (projW w) = projW (finalWorld P (recDev D) cs w) ∧
    ∀ or ∈ runCalls P (recDev D) cs w, ∃ od ∈ runCalls P D cs (projW w),
      od.res = or.res ∧ od.written = or.written ∧ od.reads = or.reads ∧ od.world = projW or.world
  | [], w => ⟨rfl, fun o ho => by simp [runCalls] at ho⟩
  | c :: cs, w => by
    have h := proj_run P D c w
    obtain ⟨g1, g2⟩ := proj_hist cs (run P (recDev D) c w).2
    have hw : (runCall P D c (projW w)).world = projW (run P (recDev D) c w).2 := by
      simp only [runCall, h]
    refine ⟨?_, fun o ho => ?_⟩
    · show finalWorld P D cs (run P D c (projW w)).2 = _
      rw [h]; exact g1
    · simp only [runCalls, List.mem_cons] at ho
      rcases ho with rfl | ho
      · refine ⟨runCall P D c (projW w), by simp [runCalls], ?_, ?_, ?_, ?_⟩ <;> simp only [runCall, h] <;> rfl
      · obtain ⟨od, hod, hp⟩ := g2 o ho
        refine ⟨od, ?_, hp⟩
        simp only [runCalls, List.mem_cons, hw]
        exact Or.inr hod

end Ebb3
end Plotink
