import Plotink.Proofs.Ebb3GenLift
import Plotink.Proofs.C05ConfRec
import Plotink.Proofs.C05Proj

/-! # Lifting attribution on scripts (`C05ConfRec.script_attribution`) to the regenerated code

A model script as a port of the regenerated code (`encRd` / `encWr`: the one raise outcome of the model becomes a
`SerialException`), and the pairing of the outcome lists of `gen_calls_sim` as a membership statement. -/

namespace Plotink
namespace Ebb3Gen
open PyObj Gen
set_option linter.unusedSimpArgs false
set_option linter.unusedVariables false

def encRd : Ebb3.ReadEv → PyIO.Rd
  | .line s => .line s
  | .raise => .raise .serialException

def encWr : Ebb3.WriteEv → PyIO.Wr
  | .ok => .ok
  | .raise => .raise .serialException

theorem absRd_encRd (e : Ebb3.ReadEv) : absRd (encRd e) = e := by cases e <;> rfl
theorem absWr_encWr (e : Ebb3.WriteEv) : absWr (encWr e) = e := by cases e <;> rfl

theorem map_abs_encRd (l : List Ebb3.ReadEv) : (l.map encRd).map absRd = l := by
  induction l with
  | nil => rfl
  | cons a l ih => simp only [List.map_cons, absRd_encRd, ih]

theorem map_abs_encWr (l : List Ebb3.WriteEv) : (l.map encWr).map absWr = l := by
  induction l with
  | nil => rfl
  | cons a l ih => simp only [List.map_cons, absWr_encWr, ih]

/-- every line of the script is ASCII -/
def AsciiScript (sc : Ebb3.Script) : Prop := ∀ s, Ebb3.ReadEv.line s ∈ sc.reads → PyIO.isAscii s = true

/-- a world of the regenerated code whose port plays the model script `sc` -/
theorem good_of_script (w : World EBB3_Obj) (ho : ObjOk w.obj) (sc : Ebb3.Script) (ha : AsciiScript sc)
    (hr : w.port.reads = sc.reads.map encRd) (hw : w.port.writes = sc.writes.map encWr) : Good w := by
  refine ⟨ho, ?_, ?_, ?_⟩
  · intro c hc
    rw [hr] at hc
    obtain ⟨e, -, he⟩ := List.mem_map.mp hc
    cases e <;> simp only [encRd] at he
    · cases he
    · injection he with he; rw [← he]; rfl
  · intro c hc
    rw [hw] at hc
    obtain ⟨e, -, he⟩ := List.mem_map.mp hc
    cases e <;> simp only [encWr] at he
    · cases he
    · injection he with he; rw [← he]; rfl
  · intro b hb
    rw [hr] at hb
    obtain ⟨e, hm, he⟩ := List.mem_map.mp hb
    cases e <;> simp only [encRd] at he
    · injection he with he; rw [← he]; exact ha _ hm
    · cases he

theorem rebootW_of_script (w : World EBB3_Obj) (sc : Ebb3.Script) (hw : w.port.writes = sc.writes.map encWr) :
    RebootW w := by
  intro c hc
  rw [hw] at hc
  obtain ⟨e, -, he⟩ := List.mem_map.mp hc
  cases e <;> simp only [encWr] at he
  · cases he
  · injection he with he; rw [← he]; rfl

theorem absWorld_of_script (w : World EBB3_Obj) (sc : Ebb3.Script)
    (hr : w.port.reads = sc.reads.map encRd) (hw : w.port.writes = sc.writes.map encWr) :
    absWorld w = ⟨absSt w.obj, sc, w.port.log, w.port.nread⟩ := by
  simp only [absWorld, hr, hw, map_abs_encRd, map_abs_encWr]

/-- the pairing of `gen_calls_sim`, by membership -/
theorem callsSim_mem {os : List (Out EBB3_Obj)} {ms : List (Ebb3.Outcome Ebb3.Script)} (h : CallsSim os ms) :
    os.length = ms.length ∧ ∀ o ∈ os, ∃ m ∈ ms, Sim o (m.res, m.world) := by
  induction h with
  | nil => exact ⟨rfl, fun o ho => by cases ho⟩
  | cons hs _ ih =>
    refine ⟨by simp [ih.1], fun o ho => ?_⟩
    rcases List.mem_cons.mp ho with rfl | ho
    · exact ⟨_, List.mem_cons_self, hs⟩
    · obtain ⟨m, hm, hsm⟩ := ih.2 o ho
      exact ⟨m, List.mem_cons_of_mem _ hm, hsm⟩

theorem runCalls_length {σ : Type} (P : Ebb3.Params) (D : Ebb3.Device σ) : ∀ (cs : List Ebb3.Call) (w : Ebb3.World σ),
    (Ebb3.runCalls P D cs w).length = cs.length
  | [], _ => rfl
  | c :: cs, w => by simp [Ebb3.runCalls, runCalls_length P D cs]

theorem port_of_absSt (o : EBB3_Obj) (h : o.port = .port) : (absSt o).port = true := by
  simp [absSt, h, absPort]

/-- a concrete instance (non-vacuity of `C05_gen_attribution`): what `demoReply` serves for three calls -/
theorem demoTranscript : Ebb3.confTranscript Ebb3.demoReply Ebb3.srcParams [.query_statusbyte, .clear_steps, .query_steps]
    { Ebb3.St.init with port := true } 0 [] 0
    = ⟨[.line "QG,1,1".toList, .line "CS,1,1".toList, .line "QS,1,1".toList], [.ok, .ok, .ok]⟩ := by decide

end Ebb3Gen
end Plotink
