import Plotink.Proofs.C19Gen1
import Plotink.Gen.ebb3_serial_find_named
import Plotink.Gen.ebb_serial_find_named_ebb

/-! # C19 bridges, part 2: the case-insensitive lookups `find_named` (EBB3 layer) and `find_named_ebb` (legacy) -/
namespace Plotink
namespace C19Gen
open PyObj Gen LegacyGen
set_option linter.unusedSimpArgs false
set_option linter.unusedVariables false

theorem lit_serK : C19.serK = ['S', 'E', 'R', '='] := by decide
theorem lit_snrK : C19.snrK = ['S', 'N', 'R', '='] := by decide
theorem lit_locatK : C19.locatK = [' ', 'L', 'O', 'C', 'A', 'T'] := by decide

/-! ## `find_named` (EBB3 layer) -/

/-- one pass of the loop body -/
theorem find_named_body (fuel : Nat) (p : C19.Port) (pn cpl a b c : Val) (n n2 pl : List Char) (w : World NoObj) :
    ebb3_serial_find_named_fbody1 fuel ⟨pn, .str n, .str n2, .str pl, cpl, encPort p, a, b, c⟩ w =
      if (C19.isInfixB n (C19.lower p.hwid) || C19.isInfixB n2 (C19.lower p.desc)) = true then .ret (.str p.dev) w
      else if (pl.isPrefixOf ((C19.lower p.desc).drop 11) || pl.isPrefixOf (C19.lower p.dev)) = true then .ret (.str p.dev) w
      else if C19.isInfixB n (C19.lower p.hwid) = true then .ret (.str p.dev) w
      else .norm ⟨pn, .str n, .str n2, .str pl, cpl, encPort p, .str (C19.lower p.dev),
                  .str ((C19.lower p.desc).drop 11), .str (C19.lower p.hwid)⟩ w := by
  unfold ebb3_serial_find_named_fbody1 ebb3_serial_find_named_if2 ebb3_serial_find_named_if3 ebb3_serial_find_named_if4
  have h0 : op_getitem (.tuple [.str p.dev, .str p.desc, .str p.hwid]) (.int 0) = .ok (.str p.dev) := rfl
  have h1 : op_getitem (.tuple [.str p.dev, .str p.desc, .str p.hwid]) (.int 1) = .ok (.str p.desc) := rfl
  have h2 : op_getitem (.tuple [.str p.dev, .str p.desc, .str p.hwid]) (.int 2) = .ok (.str p.hwid) := rfl
  have hr : ∀ s : List Char, meth_replace (.str s) (.str [' ']) (.str ['_'])
      = .ok (.str (['_'].intercalate (splitSubGo [' '] s [] 0))) := fun s => rfl
  have h11 : ∀ s : List Char, op_slice (.str s) (.int 11) .none = .ok (.str (s.drop 11)) := fun s => slice_from s 11
  cases t1 : C19.isInfixB n (C19.lower p.hwid) <;> cases t2 : C19.isInfixB n2 (C19.lower p.desc) <;>
  cases t3 : pl.isPrefixOf ((C19.lower p.desc).drop 11) <;> cases t4 : pl.isPrefixOf (C19.lower p.dev) <;>
  simp only [block_cons2, block_one, seq, assign, expr, ifte, return_, encPort, load_tuple, load_str, app1_ok, app2_ok, app3_ok,
    h0, h1, h2, hr, h11, meth_lower_str, op_in_str, startswith_str, ofP_ok, ok_apply, or_ok, truthy_bool, t1, t2, t3, t4,
    Bool.false_eq_true, ↓reduceIte, pass, Bool.or_false, Bool.or_true, Bool.or_self]

/-- the loop returns at the first matching port, as the model's loop does -/
theorem find_named_loop (fuel : Nat) (ports : List C19.Port) (pn cpl pv a b c : Val) (n n2 pl : List Char)
    (w : World NoObj) :
    ∃ pv' a' b' c', forLoop (fun (env : ebb3_serial_find_named_Env) v => { env with port := v })
        ebb3_serial_find_named_fbody1 fuel (ports.map encPort) ⟨pn, .str n, .str n2, .str pl, cpl, pv, a, b, c⟩ w
      = match C19.Ebb3.findLoop n n2 pl ports with
        | some d => .ret (.str d) w
        | Option.none => .norm ⟨pn, .str n, .str n2, .str pl, cpl, pv', a', b', c'⟩ w := by
  induction ports generalizing pv a b c with
  | nil => exact ⟨pv, a, b, c, rfl⟩
  | cons p ps ih =>
    simp only [List.map_cons, forLoop, C19.Ebb3.findLoop]
    rw [find_named_body]
    cases t1 : C19.isInfixB n (C19.lower p.hwid) <;> cases t2 : C19.isInfixB n2 (C19.lower p.desc) <;>
    cases t3 : pl.isPrefixOf ((C19.lower p.desc).drop 11) <;> cases t4 : pl.isPrefixOf (C19.lower p.dev) <;>
    simp only [Bool.or_false, Bool.or_true, Bool.or_self, Bool.false_eq_true, ↓reduceIte] <;>
    first | exact ⟨pv, a, b, c, trivial⟩ | exact ⟨pv, a, b, c, rfl⟩ | exact ih _ _ _ _

/-- **`find_named` (EBB3 layer).**  For every key (`None` or a string) and every enumeration, the regenerated function
returns what the hand model `C19.Ebb3.findNamed` returns and touches nothing. -/
theorem find_named_bridge (fuel : Nat) (key : Option C19.Str) (ports : List C19.Port) (w : World NoObj)
    (hc : w.ext.comports = .ok (.list (ports.map encPort))) :
    ebb3_serial_find_named fuel (encOptStr key) w = .val (encOptStr (C19.Ebb3.findNamed key ports)) w := by
  unfold ebb3_serial_find_named ebb3_serial_find_named_main
  cases key with
  | none =>
    simp only [PyObj.run, block_cons2, seq, ebb3_serial_find_named_if1, ifte, encOptStr, app1_ok, op_is_none, isNone, ofP_ok,
      ok_apply, truthy_bool, ↓reduceIte, return_, C19.Ebb3.findNamed]
  | some k =>
    have hlow : ∀ s : List Char, meth_lower (.str s) = .ok (.str (C19.lower s)) := meth_lower_str
    have hadd : ∀ a b : List Char, op_add (.str a) (.str b) = .ok (.str (a ++ b)) := fun _ _ => rfl
    have htry : ∀ (n n2 pl : Val), tryExcept ebb3_serial_find_named_try1 ebb3_serial_find_named_handlers1 fuel
        ⟨.str k, n, n2, pl, .unbound, .unbound, .unbound, .unbound, .unbound⟩ w
        = .norm ⟨.str k, n, n2, pl, .list (ports.map encPort), .unbound, .unbound, .unbound, .unbound⟩ w := by
      intro n n2 pl
      unfold ebb3_serial_find_named_try1
      simp only [tryExcept, assign, app1, PyObj.bind, ext_comports, hc, ofP, b_list, items, ok]
    obtain ⟨pv', a', b', c', e⟩ := find_named_loop fuel ports (.str k) (.list (ports.map encPort)) .unbound .unbound .unbound
      .unbound (C19.lower (C19.serK ++ k)) (C19.lower ('(' :: (k ++ [')']))) (C19.lower k) w
    simp only [PyObj.run, block_cons2, block_one, seq, ebb3_serial_find_named_if1, ifte, encOptStr, app1_ok, app2_ok, op_is_none,
      isNone, ofP_ok, ok_apply, truthy_bool, Bool.false_eq_true, ↓reduceIte, pass, assign, hadd, hlow, load_str, htry,
      ebb3_serial_find_named_for1, PyObj.forIn, load_list, items, ← lit_serK, List.cons_append, List.nil_append, e,
      C19.Ebb3.findNamed]
    cases C19.Ebb3.findLoop (C19.lower (C19.serK ++ k)) (C19.lower ('(' :: (k ++ [')']))) (C19.lower k) ports with
    | some d => simp only [encOptStr]
    | none => simp only [return_, ok_apply, encOptStr]

/-! ## `find_named_ebb` (legacy layer) -/

/-- one pass of the loop body -/
theorem find_named_ebb_body (fuel : Nat) (p : C19.Port) (pn cpl a b c : Val) (n n2 n3 pl : List Char) (w : World NoObj) :
    ebb_serial_find_named_ebb_fbody1 fuel ⟨pn, .str n, .str n2, .str n3, .str pl, cpl, encPort p, a, b, c⟩ w =
      if C19.isInfixB n (C19.lower p.hwid) = true then .ret (.str p.dev) w
      else if C19.isInfixB n2 (C19.lower p.hwid) = true then .ret (.str p.dev) w
      else if C19.isInfixB n3 (C19.lower p.desc) = true then .ret (.str p.dev) w
      else if pl.isPrefixOf ((C19.lower p.desc).drop 11) = true then .ret (.str p.dev) w
      else if pl.isPrefixOf (C19.lower p.dev) = true then .ret (.str p.dev) w
      else if C19.isInfixB n (C19.lower p.hwid) = true then .ret (.str p.dev) w
      else if C19.isInfixB n2 (C19.lower p.hwid) = true then .ret (.str p.dev) w
      else .norm ⟨pn, .str n, .str n2, .str n3, .str pl, cpl, encPort p, .str (C19.lower p.dev),
                  .str ((C19.lower p.desc).drop 11), .str (C19.lower p.hwid)⟩ w := by
  unfold ebb_serial_find_named_ebb_fbody1 ebb_serial_find_named_ebb_if2 ebb_serial_find_named_ebb_if3
    ebb_serial_find_named_ebb_if4 ebb_serial_find_named_ebb_if5 ebb_serial_find_named_ebb_if6
    ebb_serial_find_named_ebb_if7 ebb_serial_find_named_ebb_if8
  have h0 : op_getitem (.tuple [.str p.dev, .str p.desc, .str p.hwid]) (.int 0) = .ok (.str p.dev) := rfl
  have h1 : op_getitem (.tuple [.str p.dev, .str p.desc, .str p.hwid]) (.int 1) = .ok (.str p.desc) := rfl
  have h2 : op_getitem (.tuple [.str p.dev, .str p.desc, .str p.hwid]) (.int 2) = .ok (.str p.hwid) := rfl
  have hr : ∀ s : List Char, meth_replace (.str s) (.str [' ']) (.str ['_'])
      = .ok (.str (['_'].intercalate (splitSubGo [' '] s [] 0))) := fun s => rfl
  have h11 : ∀ s : List Char, op_slice (.str s) (.int 11) .none = .ok (.str (s.drop 11)) := fun s => slice_from s 11
  cases t1 : C19.isInfixB n (C19.lower p.hwid) <;> cases t2 : C19.isInfixB n2 (C19.lower p.hwid) <;>
  cases t3 : C19.isInfixB n3 (C19.lower p.desc) <;>
  cases t4 : pl.isPrefixOf ((C19.lower p.desc).drop 11) <;> cases t5 : pl.isPrefixOf (C19.lower p.dev) <;>
  simp only [block_cons2, block_one, seq, assign, expr, ifte, return_, encPort, load_tuple, load_str, app1_ok, app2_ok, app3_ok,
    h0, h1, h2, hr, h11, meth_lower_str, op_in_str, startswith_str, ofP_ok, ok_apply, truthy_bool, t1, t2, t3, t4, t5,
    Bool.false_eq_true, ↓reduceIte, pass]

/-- the loop returns at the first matching port, as the model's loop does -/
theorem find_named_ebb_loop (fuel : Nat) (ports : List C19.Port) (pn cpl pv a b c : Val) (n n2 n3 pl : List Char)
    (w : World NoObj) :
    ∃ pv' a' b' c', forLoop (fun (env : ebb_serial_find_named_ebb_Env) v => { env with port := v })
        ebb_serial_find_named_ebb_fbody1 fuel (ports.map encPort) ⟨pn, .str n, .str n2, .str n3, .str pl, cpl, pv, a, b, c⟩ w
      = match C19.Legacy.findLoop n n2 n3 pl ports with
        | some d => .ret (.str d) w
        | Option.none => .norm ⟨pn, .str n, .str n2, .str n3, .str pl, cpl, pv', a', b', c'⟩ w := by
  induction ports generalizing pv a b c with
  | nil => exact ⟨pv, a, b, c, rfl⟩
  | cons p ps ih =>
    simp only [List.map_cons, forLoop, C19.Legacy.findLoop]
    rw [find_named_ebb_body]
    cases t1 : C19.isInfixB n (C19.lower p.hwid) <;> cases t2 : C19.isInfixB n2 (C19.lower p.hwid) <;>
    cases t3 : C19.isInfixB n3 (C19.lower p.desc) <;>
    cases t4 : pl.isPrefixOf ((C19.lower p.desc).drop 11) <;> cases t5 : pl.isPrefixOf (C19.lower p.dev) <;>
    simp only [Bool.false_eq_true, ↓reduceIte] <;>
    first | exact ⟨pv, a, b, c, trivial⟩ | exact ⟨pv, a, b, c, rfl⟩ | exact ih _ _ _ _

/-- **`find_named_ebb` (legacy layer).**  For every key (`None` or a string) and every enumeration, the regenerated
function returns what the hand model `C19.Legacy.findNamed` returns and touches nothing. -/
theorem find_named_ebb_bridge (fuel : Nat) (key : Option C19.Str) (ports : List C19.Port) (w : World NoObj)
    (hc : w.ext.comports = .ok (.list (ports.map encPort))) :
    ebb_serial_find_named_ebb fuel (encOptStr key) w = .val (encOptStr (C19.Legacy.findNamed key ports)) w := by
  unfold ebb_serial_find_named_ebb ebb_serial_find_named_ebb_main ebb_serial_find_named_ebb_if1
  cases key with
  | none =>
    simp only [PyObj.run, block_cons2, block_one, seq, ifte, encOptStr, app1_ok, op_is_not_none, isNone, ofP_ok,
      ok_apply, truthy_bool, Bool.not_true, Bool.false_eq_true, ↓reduceIte, pass, return_, C19.Legacy.findNamed]
  | some k =>
    have hlow : ∀ s : List Char, meth_lower (.str s) = .ok (.str (C19.lower s)) := meth_lower_str
    have hadd : ∀ a b : List Char, op_add (.str a) (.str b) = .ok (.str (a ++ b)) := fun _ _ => rfl
    have htry : ∀ (n n2 n3 pl : Val), tryExcept ebb_serial_find_named_ebb_try1 ebb_serial_find_named_ebb_handlers1 fuel
        ⟨.str k, n, n2, n3, pl, .unbound, .unbound, .unbound, .unbound, .unbound⟩ w
        = .norm ⟨.str k, n, n2, n3, pl, .list (ports.map encPort), .unbound, .unbound, .unbound, .unbound⟩ w := by
      intro n n2 n3 pl
      unfold ebb_serial_find_named_ebb_try1
      simp only [tryExcept, assign, app1, PyObj.bind, ext_comports, hc, ofP, b_list, items, ok]
    obtain ⟨pv', a', b', c', e⟩ := find_named_ebb_loop fuel ports (.str k) (.list (ports.map encPort)) .unbound .unbound
      .unbound .unbound (C19.lower (C19.serK ++ k)) (C19.lower (C19.snrK ++ k)) (C19.lower ('(' :: (k ++ [')'])))
      (C19.lower k) w
    simp only [PyObj.run, block_cons2, block_one, seq, ifte, encOptStr, app1_ok, app2_ok, op_is_not_none,
      isNone, ofP_ok, ok_apply, truthy_bool, Bool.not_false, ↓reduceIte, pass, assign, hadd, hlow, load_str, htry,
      ebb_serial_find_named_ebb_for1, PyObj.forIn, load_list, items, ← lit_serK, ← lit_snrK, List.cons_append,
      List.nil_append, e, C19.Legacy.findNamed]
    cases C19.Legacy.findLoop (C19.lower (C19.serK ++ k)) (C19.lower (C19.snrK ++ k)) (C19.lower ('(' :: (k ++ [')'])))
      (C19.lower k) ports with
    | some d => simp only [encOptStr]
    | none => simp only [return_, ok_apply, encOptStr]

end C19Gen
end Plotink
