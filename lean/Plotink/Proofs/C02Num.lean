import Plotink.Proofs.PyLemmas
import Plotink.Proofs.ContractT3
import Plotink.Proofs.C02Alg
import Mathlib.Data.Rat.Floor
import Mathlib.Algebra.Order.Floor.Ring
import Mathlib.Tactic.SplitIfs

/-! # C02 — numeric helper lemmas: tag dispatch on ints, truncation, rounding to nearest integer,
and what the rounding contract gives at the sites of `rate_t3` / `move_dist_t3`. -/

namespace Plotink
namespace T3
open Py Py.Val Fw

/-! ## dispatch lemmas not in `PyLemmas` -/

theorem eq_int_int (a b : Int) : Py.eq (.int a) (.int b) = decide (a = b) := by
  simp [Py.eq, Py.num]
theorem lt_int_int (a b : Int) : Py.lt (.int a) (.int b) = decide (a < b) := by
  simp [Py.lt, Py.num]
theorem le_int_int (a b : Int) : Py.le (.int a) (.int b) = decide (a ≤ b) := by
  simp [Py.le, Py.num]
theorem gt_int_int (a b : Int) : Py.gt (.int a) (.int b) = decide (b < a) := by
  simp [Py.gt, Py.num]
theorem div_int_int (R : Rounding) (p) (a b : Int) (hb : b ≠ 0) :
    Py.truediv R p (.int a) (.int b) = .flt (R.f64 ((a : Rat) / (b : Rat))) := by
  simp [Py.truediv, Py.num, hb, Py.join, Py.kind]
theorem div_flt_int (R : Rounding) (p) (a : Rat) (b : Int) (hb : b ≠ 0) :
    Py.truediv R p (.flt a) (.int b) = .flt (R.f64 (a / (b : Rat))) := by
  simp [Py.truediv, Py.num, hb, Py.join, Py.kind, Py.pack]
theorem div_mpf_int (R : Rounding) (p) (a : Rat) (b : Int) (hb : b ≠ 0) :
    Py.truediv R p (.mpf a) (.int b) = .mpf (R.mp p (a / (b : Rat))) := by
  simp [Py.truediv, Py.num, hb, Py.join, Py.kind, Py.pack]
theorem div_int_mpf (R : Rounding) (p) (a : Int) (b : Rat) (hb : b ≠ 0) :
    Py.truediv R p (.int a) (.mpf b) = .mpf (R.mp p ((a : Rat) / b)) := by
  simp [Py.truediv, Py.num, hb, Py.join, Py.kind, Py.pack]
theorem abs_int (a : Int) : Py.abs_ (.int a) = .int |a| := by
  simp only [Py.abs_]
  split_ifs with h
  · rw [abs_of_neg h]
  · rw [abs_of_nonneg (not_lt.mp h)]
theorem abs_mpf (a : Rat) : Py.abs_ (.mpf a) = .mpf |a| := by
  simp only [Py.abs_]
  split_ifs with h
  · rw [abs_of_neg h]
  · rw [abs_of_nonneg (not_lt.mp h)]
theorem lt_mpf_flt (a b : Rat) : Py.lt (.mpf a) (.flt b) = decide (a < b) := rfl
theorem lt_flt_flt (a b : Rat) : Py.lt (.flt a) (.flt b) = decide (a < b) := rfl
theorem sub_int_mpf' (R : Rounding) (p) (a : Int) (b : Rat) :
    Py.sub R p (.int a) (.mpf b) = .mpf (R.mp p ((a : Rat) - b)) := rfl

/-! ## truncation and rounding of exact values -/

theorem intOfRat_int (n : Int) : intOfRat (n : Rat) = n := by
  unfold intOfRat
  split
  · simp [Rat.floor_intCast]
  · have : (-(n : Rat)) = ((-n : Int) : Rat) := by push_cast; ring
    rw [this, Rat.floor_intCast]; ring

theorem floor_eq (y : Rat) (n : Int) (h1 : (n : Rat) ≤ y) (h2 : y < n + 1) : y.floor = n := by
  have : ⌊y⌋ = n := Int.floor_eq_iff.mpr ⟨h1, h2⟩
  exact this

/-- `int(y)` for a value known to lie in the unit interval on the far-from-zero side of `n` -/
theorem intOfRat_eq (y : Rat) (n : Int)
    (h : (0 ≤ y ∧ (n : Rat) ≤ y ∧ y < n + 1) ∨ (y < 0 ∧ (n : Rat) - 1 < y ∧ y ≤ n)) : intOfRat y = n := by
  unfold intOfRat
  rcases h with ⟨h0, h1, h2⟩ | ⟨h0, h1, h2⟩
  · rw [if_pos h0]; exact floor_eq y n h1 h2
  · rw [if_neg (not_le.mpr h0)]
    have : (-y).floor = -n := floor_eq (-y) (-n) (by push_cast; linarith) (by push_cast; linarith)
    rw [this]; ring

theorem tdiv2_spec (a : Int) : ∃ f : Int, a = 2 * tdiv a 2 + f ∧
    ((0 ≤ a ∧ 0 ≤ f ∧ f ≤ 1 ∧ 0 ≤ tdiv a 2) ∨ (a < 0 ∧ -1 ≤ f ∧ f ≤ 0 ∧ tdiv a 2 ≤ 0)) := by
  unfold tdiv
  split_ifs with h
  · exact ⟨a - 2 * (a / 2), by ring, Or.inl ⟨h, by omega, by omega, by omega⟩⟩
  · exact ⟨a - 2 * (-(-a / 2)), by ring, Or.inr ⟨by omega, by omega, by omega, by omega⟩⟩

theorem tdiv6_spec (a : Int) : ∃ f : Int, a = 6 * tdiv a 6 + f ∧
    ((0 ≤ a ∧ 0 ≤ f ∧ f ≤ 5 ∧ 0 ≤ tdiv a 6) ∨ (a < 0 ∧ -5 ≤ f ∧ f ≤ 0 ∧ tdiv a 6 ≤ 0)) := by
  unfold tdiv
  split_ifs with h
  · exact ⟨a - 6 * (a / 6), by ring, Or.inl ⟨h, by omega, by omega, by omega⟩⟩
  · exact ⟨a - 6 * (-(-a / 6)), by ring, Or.inr ⟨by omega, by omega, by omega, by omega⟩⟩

theorem tdiv2_abs (a : Int) : |tdiv a 2| ≤ |a| := by
  unfold tdiv
  split_ifs <;> (rw [abs_le]; constructor <;> (cases abs_cases a <;> omega))

theorem tdiv6_abs (a : Int) : |tdiv a 6| ≤ |a| := by
  unfold tdiv
  split_ifs <;> (rw [abs_le]; constructor <;> (cases abs_cases a <;> omega))

/-- `int(a/2)` on an exact half-integer quotient is truncation toward zero -/
theorem intOfRat_half (a : Int) : intOfRat ((a : Rat) / 2) = tdiv a 2 := by
  obtain ⟨f, hf, h⟩ := tdiv2_spec a
  have e : (a : Rat) / 2 = (tdiv a 2 : Rat) + (f : Rat) / 2 := by
    have : (a : Rat) = 2 * (tdiv a 2 : Rat) + f := by exact_mod_cast hf
    rw [this]; ring
  apply intOfRat_eq
  rw [e]
  rcases h with ⟨_, h1, h2, h3⟩ | ⟨h0, h1, h2, h3⟩
  · left
    have : (0 : Rat) ≤ f := by exact_mod_cast h1
    have : (f : Rat) ≤ 1 := by exact_mod_cast h2
    have : (0 : Rat) ≤ (tdiv a 2 : Int) := by exact_mod_cast h3
    refine ⟨by linarith, by linarith, by linarith⟩
  · by_cases hf0 : f = 0
    · subst hf0
      have : ((tdiv a 2 : Int) : Rat) ≤ 0 := by exact_mod_cast h3
      by_cases ht : tdiv a 2 = 0
      · left; rw [ht]; norm_num
      · right
        have : tdiv a 2 < 0 := by omega
        have : ((tdiv a 2 : Int) : Rat) < 0 := by exact_mod_cast this
        refine ⟨by simpa using this, by simp, by simp⟩
    · right
      have hf1 : f = -1 := by omega
      subst hf1
      have : ((tdiv a 2 : Int) : Rat) ≤ 0 := by exact_mod_cast h3
      refine ⟨by push_cast; linarith, by push_cast; linarith, by push_cast; linarith⟩

/-- banker's rounding returns the integer that is strictly closer than one half -/
theorem roundHE_near (q : Rat) (n : Int) (h : |q - n| < 1 / 2) : roundHE q = n := by
  rw [abs_lt] at h
  obtain ⟨h1, h2⟩ := h
  unfold roundHE
  by_cases hq : (n : Rat) ≤ q
  · have hf : q.floor = n := floor_eq q n hq (by linarith)
    simp only [hf]
    rw [if_pos (by linarith)]
  · have hq' : q < n := not_le.mp hq
    have hf : q.floor = n - 1 := floor_eq q (n - 1) (by push_cast; linarith) (by push_cast; linarith)
    simp only [hf]
    have hd : ¬ (q - ((n - 1 : Int) : Rat) < 1 / 2) := by push_cast; linarith
    have hd' : q - ((n - 1 : Int) : Rat) > 1 / 2 := by push_cast; linarith
    rw [if_neg hd, if_pos hd']; ring

theorem roundHE_int (n : Int) : roundHE (n : Rat) = n :=
  roundHE_near _ n (by simp)

theorem floor_div_two31 (tot : Int) : ((tot : Rat) / 2147483648).floor = tot / 2147483648 := by
  have := Rat.floor_intCast_div_natCast tot 2147483648
  have e : ((tot : Rat) / 2147483648).floor = ⌊((tot : Rat) / ((2147483648 : Nat) : Rat))⌋ := by norm_num; rfl
  rw [e, this]; norm_num

/-! ## consequences of the contract -/

section
variable {R : Rounding} (hR : Contract R)
include hR

theorem f64_int (n : Int) (h : |n| < 2 ^ 53) : R.f64 (n : Rat) = n := hR.f64_exact _ (rep_int 53 n h)
theorem f64_half (n : Int) (h : |n| < 2 ^ 53) : R.f64 ((n : Rat) / 2) = (n : Rat) / 2 :=
  hR.f64_exact _ (rep_half 53 n h)
theorem mp_int (n : Int) (h : |n| < 2 ^ 103) : R.mp 103 (n : Rat) = n := hR.mp_exact 103 _ (rep_int 103 n h)
theorem mp_half (n : Int) (h : |n| < 2 ^ 103) : R.mp 103 ((n : Rat) / 2) = (n : Rat) / 2 :=
  hR.mp_exact 103 _ (rep_half 103 n h)

/-- `int(jerk / 6)` with a correctly rounded binary64 quotient is still truncation toward zero -/
theorem intOfRat_sixth (j : Int) (hj : |j| ≤ 2 ^ 50) : intOfRat (R.f64 ((j : Rat) / 6)) = tdiv j 6 := by
  obtain ⟨f, hf, h⟩ := tdiv6_spec j
  have e : (j : Rat) / 6 = (tdiv j 6 : Rat) + (f : Rat) / 6 := by
    have : (j : Rat) = 6 * (tdiv j 6 : Rat) + f := by exact_mod_cast hf
    rw [this]; ring
  by_cases hf0 : f = 0
  · -- exact quotient
    have e' : (j : Rat) / 6 = ((tdiv j 6 : Int) : Rat) := by rw [e, hf0]; simp
    have hb : |tdiv j 6| < 2 ^ 53 := lt_of_le_of_lt (le_trans (tdiv6_abs j) hj) (by norm_num)
    rw [e', f64_int hR _ hb, intOfRat_int]
  · have herr := hR.f64_err ((j : Rat) / 6)
    have hjq : |(j : Rat) / 6| ≤ 2 ^ 50 / 6 := by
      rw [abs_div]; norm_num
      have : ((|j| : Int) : Rat) ≤ ((2 ^ 50 : Int) : Rat) := by exact_mod_cast hj
      rw [Int.cast_abs] at this
      push_cast at this
      linarith
    have hsmall : |R.f64 ((j : Rat) / 6) - (j : Rat) / 6| < 1 / 12 := by
      refine lt_of_le_of_lt herr ?_
      have : |(j : Rat) / 6| / 2 ^ 53 ≤ 2 ^ 50 / 6 / 2 ^ 53 := by
        apply div_le_div_of_nonneg_right hjq; positivity
      refine lt_of_le_of_lt this (by norm_num)
    rw [abs_lt] at hsmall
    obtain ⟨s1, s2⟩ := hsmall
    generalize R.f64 ((j : Rat) / 6) = y at s1 s2 ⊢
    apply intOfRat_eq
    rcases h with ⟨_, h1, h2, h3⟩ | ⟨_, h1, h2, h3⟩
    · left
      have hf1 : (1 : Rat) ≤ f := by exact_mod_cast (by omega : 1 ≤ f)
      have hf5 : (f : Rat) ≤ 5 := by exact_mod_cast h2
      have : (0 : Rat) ≤ (tdiv j 6 : Int) := by exact_mod_cast h3
      rw [e] at s1 s2
      refine ⟨by linarith, by linarith, by linarith⟩
    · right
      have hf1 : (f : Rat) ≤ -1 := by exact_mod_cast (by omega : f ≤ -1)
      have hf5 : (-5 : Rat) ≤ f := by exact_mod_cast h1
      have : ((tdiv j 6 : Int) : Rat) ≤ 0 := by exact_mod_cast h3
      rw [e] at s1 s2
      refine ⟨by linarith, by linarith, by linarith⟩

/-- absolute error of one `mp` rounding at 103 bits of a value bounded by `B` -/
theorem mp_near (x B : Rat) (hx : |x| ≤ B) : |R.mp 103 x - x| ≤ B / 2 ^ 103 := by
  refine le_trans (hR.mp_err 103 x) ?_
  apply div_le_div_of_nonneg_right hx; positivity

/-- error propagation through one rounding: the argument is within `e` of the ideal value `x` -/
theorem mp_approx (x' x e B : Rat) (h : |x' - x| ≤ e) (hB : |x| + e ≤ B) :
    |R.mp 103 x' - x| ≤ e + B / 2 ^ 103 := by
  have h1 : |x'| ≤ B := by
    have := abs_sub_abs_le_abs_sub x' x
    linarith
  have h2 := mp_near hR x' B h1
  have : R.mp 103 x' - x = (R.mp 103 x' - x') + (x' - x) := by ring
  rw [this]
  have := abs_add_le (R.mp 103 x' - x') (x' - x)
  linarith

end

theorem abs_mul_le {a b : Int} {x y : Int} (hx : |x| ≤ a) (hy : |y| ≤ b) : |x * y| ≤ a * b := by
  rw [abs_mul]
  exact mul_le_mul hx hy (abs_nonneg _) (le_trans (abs_nonneg _) hx)

end T3
end Plotink
