import Plotink.Model.PyFloat
import Mathlib.Data.List.TakeWhile
/-! A numeral accepted by `parseFloat` with a finite value ends (after stripping) in a digit or `.`. -/
namespace Plotink
namespace PyFloat

theorem last_of_all {p : Char → Bool} (l : List Char) (hall : ∀ c ∈ l, p c = true) (hne : l ≠ []) :
    ∃ d, l.getLast? = some d ∧ p d = true := by
  refine ⟨l.getLast hne, List.getLast?_eq_some_getLast hne, hall _ (List.getLast_mem hne)⟩

theorem getLast?_append_ne {a b : List Char} (hb : b ≠ []) : (a ++ b).getLast? = b.getLast? := by
  rw [List.getLast?_append]
  cases h : b.getLast? with
  | none => exact absurd (List.getLast?_eq_none_iff.mp h) hb
  | some d => rfl

theorem splitSign_last (r3 : List Char) (hne : (splitSign r3).2 ≠ []) :
    r3.getLast? = (splitSign r3).2.getLast? := by
  cases r3 with
  | nil => rfl
  | cons c r =>
    unfold splitSign at hne ⊢
    by_cases h1 : c = '-'
    · simp only [h1, if_true] at hne ⊢
      exact getLast?_append_ne (a := ['-']) hne
    · by_cases h2 : c = '+'
      · simp only [h2, if_true] at hne ⊢
        exact getLast?_append_ne (a := ['+']) hne
      · simp only [h1, h2, if_false]

theorem parseExp_last (r3 : List Char) (ev : Int) (h : parseExp r3 = some ev) :
    ∃ d, r3.getLast? = some d ∧ isDigit d = true := by
  unfold parseExp at h
  simp only at h
  split at h
  · simp at h
  · rename_i hc
    simp only [Bool.or_eq_true, List.isEmpty_iff, Bool.not_eq_eq_eq_not, Bool.not_true, not_or,
      Bool.not_eq_false] at hc
    obtain ⟨hne, hall⟩ := hc
    rw [splitSign_last r3 hne]
    exact last_of_all _ (fun c hc => List.all_eq_true.mp hall c hc) hne

theorem parseDecimal_last (r : List Char) (q : Rat) (h : parseDecimal r = some q) :
    ∃ d, r.getLast? = some d ∧ (isDigit d = true ∨ d = '.') := by
  have hr : r = r.takeWhile isDigit ++ r.dropWhile isDigit := (List.takeWhile_append_dropWhile).symm
  have hipd : ∀ c ∈ r.takeWhile isDigit, isDigit c = true := fun c hc => List.mem_takeWhile_imp hc
  unfold parseDecimal at h
  simp only at h
  generalize r.takeWhile isDigit = ip at *
  generalize r.dropWhile isDigit = r1 at *
  subst hr
  cases r1 with
  | nil =>
    simp only [List.isEmpty_nil, Bool.and_true, List.append_nil] at h ⊢
    split at h
    · simp at h
    · rename_i hne
      obtain ⟨d, hd, hdd⟩ := last_of_all ip hipd (by simpa using hne)
      exact ⟨d, hd, Or.inl hdd⟩
  | cons c t =>
    by_cases hdot : c = '.'
    · subst hdot
      simp only [if_true] at h
      have hfpd : ∀ c ∈ t.takeWhile isDigit, isDigit c = true := fun c hc => List.mem_takeWhile_imp hc
      have ht : t = t.takeWhile isDigit ++ t.dropWhile isDigit := (List.takeWhile_append_dropWhile).symm
      generalize t.takeWhile isDigit = fp at *
      generalize t.dropWhile isDigit = r2 at *
      subst ht
      split at h
      · simp at h
      · cases r2 with
        | nil =>
          by_cases hfp : fp = []
          · subst hfp
            exact ⟨'.', by simp, Or.inr rfl⟩
          · obtain ⟨d, hd, hdd⟩ := last_of_all fp hfpd hfp
            refine ⟨d, ?_, Or.inl hdd⟩
            rw [List.append_nil, ← hd]
            rw [show ip ++ '.' :: fp = (ip ++ ['.']) ++ fp by simp]
            exact getLast?_append_ne hfp
        | cons e r3 =>
          simp only at h
          split at h
          · split at h
            · rename_i ev hev
              obtain ⟨d, hd, hdd⟩ := parseExp_last r3 ev hev
              have hne : r3 ≠ [] := by intro e; subst e; simp at hd
              refine ⟨d, ?_, Or.inl hdd⟩
              rw [← hd, show ip ++ '.' :: (fp ++ e :: r3) = (ip ++ '.' :: fp ++ [e]) ++ r3 by simp]
              exact getLast?_append_ne hne
            · simp at h
          · simp at h
    · simp only [hdot, if_false] at h
      split at h
      · simp at h
      · split at h
        · split at h
          · rename_i ev hev
            obtain ⟨d, hd, hdd⟩ := parseExp_last t ev hev
            have hne : t ≠ [] := by intro e; subst e; simp at hd
            refine ⟨d, ?_, Or.inl hdd⟩
            rw [← hd, show ip ++ c :: t = (ip ++ [c]) ++ t by simp]
            exact getLast?_append_ne hne
          · simp at h
        · simp at h

end PyFloat
end Plotink

namespace Plotink
namespace PyFloat

theorem stripUnderscores_last (t : List Char) : ∀ (prev : Option Char) (u : List Char) (c : Char),
    stripUnderscores prev t = some u → t.getLast? = some c → u.getLast? = some c := by
  induction t with
  | nil => intro prev u c _ hc; simp at hc
  | cons a r ih =>
    intro prev u c h hc
    unfold stripUnderscores at h
    by_cases hr : r = []
    · subst hr
      simp at hc
      subst hc
      by_cases ha : a = '_'
      · subst ha
        simp only [if_true] at h
        cases prev with
        | none => simp at h
        | some p =>
          simp only at h
          split at h
          · simp [stripUnderscores] at h
          · simp at h
      · simp only [ha, if_false] at h
        split at h
        · simp at h
        · simp [stripUnderscores] at h
          obtain ⟨u', ⟨_, rfl⟩, rfl⟩ := h
          rfl
    · have hcr : r.getLast? = some c := by
        rw [← hc, show a :: r = [a] ++ r by rfl]; exact (getLast?_append_ne hr).symm
      by_cases ha : a = '_'
      · subst ha
        simp only [if_true] at h
        cases prev with
        | none => simp at h
        | some p =>
          simp only at h
          split at h
          · exact ih _ u c h hcr
          · simp at h
      · simp only [ha, if_false] at h
        split at h
        · simp at h
        · cases hu' : stripUnderscores (some a) r with
          | none => rw [hu'] at h; simp at h
          | some u' =>
            rw [hu'] at h
            simp at h
            subst h
            have := ih _ u' c hu' hcr
            have hne : u' ≠ [] := by intro e; subst e; simp at this
            rw [show a :: u' = [a] ++ u' by rfl, getLast?_append_ne hne]; exact this

theorem stripBy_keeps_last (p : Char → Bool) (t : List Char) (c : Char)
    (hc : t.getLast? = some c) (hp : p c = false) : (stripBy p t).getLast? = some c := by
  unfold stripBy
  rw [List.getLast?_reverse]
  -- the reversed list starts with c, which is kept
  have h1 : ((t.dropWhile p).reverse).head? = some c := by
    rw [List.head?_reverse]
    -- last of dropWhile = last of t, as c is not dropped
    have : ∀ (l : List Char), l.getLast? = some c → (l.dropWhile p).getLast? = some c := by
      intro l
      induction l with
      | nil => intro h; simp at h
      | cons a r ih =>
        intro h
        by_cases hr : r = []
        · subst hr
          simp at h; subst h
          simp [List.dropWhile_cons, hp]
        · have hcr : r.getLast? = some c := by
            rw [← h, show a :: r = [a] ++ r by rfl]; exact (getLast?_append_ne hr).symm
          rw [List.dropWhile_cons]
          split
          · exact ih hcr
          · exact h
    exact this t hc
  cases hrev : (t.dropWhile p).reverse with
  | nil => rw [hrev] at h1; simp at h1
  | cons a r =>
    rw [hrev] at h1
    simp at h1
    subst h1
    simp [List.dropWhile_cons, hp]

theorem lowerAscii_last (r : List Char) (c : Char) (h : r.getLast? = some c) :
    (lower r).getLast? = some (lowerAscii c) := by
  unfold lower
  rw [List.getLast?_map, h]; rfl

/-- text whose last character is not a blank, digit, `.`, nor one of `f y n` (any case) is not a numeral -/
theorem parseFloat_reject (t : List Char) (c : Char) (hc : t.getLast? = some c)
    (hsp : isCSpace c = false) (hd : isDigit c = false) (hdot : c ≠ '.')
    (hf : lowerAscii c ≠ 'f') (hy : lowerAscii c ≠ 'y') (hn : lowerAscii c ≠ 'n') :
    parseFloat t = none := by
  unfold parseFloat
  have h1 := stripBy_keeps_last isCSpace t c hc hsp
  cases hu : stripUnderscores none (stripBy isCSpace t) with
  | none => rfl
  | some u =>
    simp only
    have h2 := stripUnderscores_last _ none u c hu h1
    by_cases hne : (splitSign u).2 = []
    · rw [hne]
      simp [parseDecimal, parseSpecial, lower]
    · have h3 : (splitSign u).2.getLast? = some c := by rw [← splitSign_last u hne]; exact h2
      cases hpd : parseDecimal (splitSign u).2 with
      | some q =>
        obtain ⟨d, hd1, hd2⟩ := parseDecimal_last _ q hpd
        rw [h3] at hd1
        simp at hd1
        subst hd1
        rcases hd2 with h | h
        · rw [h] at hd; simp at hd
        · exact absurd h hdot
      | none =>
        simp only
        have h4 := lowerAscii_last _ c h3
        unfold parseSpecial
        simp only
        have e1 : lower (splitSign u).2 ≠ ['i', 'n', 'f'] := by
          intro e; rw [e] at h4; simp at h4; exact hf h4.symm
        have e2 : lower (splitSign u).2 ≠ ['i', 'n', 'f', 'i', 'n', 'i', 't', 'y'] := by
          intro e; rw [e] at h4; simp at h4; exact hy h4.symm
        have e3 : lower (splitSign u).2 ≠ ['n', 'a', 'n'] := by
          intro e; rw [e] at h4; simp at h4; exact hn h4.symm
        simp [e1, e2, e3]

theorem parseFloat_nil : parseFloat [] = none := by decide

end PyFloat
end Plotink
