import Plotink.Proofs.Ebb3GenQuery
import Plotink.Gen.EBB3_query_statusbyte
import Plotink.Gen.EBB3_reboot
import Plotink.Gen.EBB3_bootload
import Plotink.Gen.EBB3_disconnect

/-! # Bridges: `record_error`, `disconnect`, `reboot`, `bootload`, `query_statusbyte` -/

namespace Plotink
namespace Ebb3Gen
open PyObj Gen
set_option linter.unusedSimpArgs false
set_option linter.unusedVariables false

/-- **`record_error`** -/
theorem record_error_bridge (fuel : Nat) (m : List Char) (w : World EBB3_Obj) (hg : Good w) :
    Sim (EBB3_record_error fuel (.str m) w)
      (Ebb3.run Ebb3.srcParams Ebb3.scriptDev (.record_error m) (absWorld w)) := by
  rw [record_error_eval fuel m w hg.obj]
  show Sim _ ((Ebb3.recordError m >>= fun _ => pure Ebb3.Val.none) (absWorld w))
  have : Ebb3.recordError m (absWorld w) = (.ok (), absWorld { w with obj := recErr m w.obj }) := by
    simp only [Ebb3.recordError, Ebb3.modifySt_apply, absWorld, absSt_recErr m _ hg.obj]
  rw [Ebb3.bind_ok this]
  exact ⟨rfl, rfl, ⟨objOk_recErr m _ hg.obj, hg.ioR, hg.ioW, hg.ascii⟩⟩

/-- what `disconnect()` does -/
theorem disconnect_eval (fuel : Nat) (w : World EBB3_Obj) (ho : ObjOk w.obj) :
    EBB3_disconnect fuel w = .val .none { w with obj := { w.obj with port := .none } } := by
  unfold EBB3_disconnect EBB3_disconnect_main EBB3_disconnect_if1 EBB3_disconnect_try1 EBB3_disconnect_handlers1
  rw [block_cons2, block_one]
  rcases ho.port with hp | hp
  · have hga : getattr (fun o : EBB3_Obj => o.port) w = (.ok .port, w) := by
      rw [getattr_apply (by simp [hp])]; simp only [hp]
    simp only [PyObj.run, seq, ifte, app1, PyObj.bind, hga, ofP, op_is_not_none, isNone, ok, truthy, Bool.not_false, ↓reduceIte,
      tryExcept, expr, eff1, meth_close, setattr]
  · have hga : getattr (fun o : EBB3_Obj => o.port) w = (.ok .none, w) := by
      rw [getattr_apply (by simp [hp])]; simp only [hp]
    simp only [PyObj.run, seq, ifte, app1, PyObj.bind, hga, ofP, op_is_not_none, isNone, ok, truthy, Bool.not_true,
      Bool.false_eq_true, ↓reduceIte, pass, setattr]

theorem objOk_disc (o : EBB3_Obj) (ho : ObjOk o) : ObjOk { o with port := .none } :=
  ⟨Or.inr rfl, ho.err, ho.version, ho.version_parsed, ho.name, ho.caller, ho.port_name⟩

theorem good_disc (w : World EBB3_Obj) (hg : Good w) : Good { w with obj := { w.obj with port := .none } } :=
  ⟨objOk_disc _ hg.obj, hg.ioR, hg.ioW, hg.ascii⟩

theorem disconnectM_sim (w : World EBB3_Obj) :
    (Ebb3.disconnectM : Ebb3.M Ebb3.Script Unit) (absWorld w)
      = (.ok (), absWorld { w with obj := { w.obj with port := .none } }) := rfl

/-- **`disconnect`** -/
theorem disconnect_bridge (fuel : Nat) (w : World EBB3_Obj) (hg : Good w) :
    Sim (EBB3_disconnect fuel w) (Ebb3.run Ebb3.srcParams Ebb3.scriptDev .disconnect (absWorld w)) := by
  rw [disconnect_eval fuel w hg.obj]
  exact ⟨rfl, rfl, good_disc w hg⟩

/-! ## `reboot` / `bootload` -/

/-- the classes named by the handler of `reboot` / `bootload` -/
def rebootClasses : List PyIO.ExcClass := [.serialException, .portNotOpenError, .osError, .osError]

/-- the domain of `reboot` / `bootload`: if the next write raises, it raises a class their handler names (a
`RuntimeError` from the port — caught by `command` / `query` — would escape here; the model has one raise outcome) -/
def RebootOk (w : World EBB3_Obj) : Prop :=
  ∀ c ws, w.port.writes = .raise c :: ws → PyIO.catches rebootClasses c = true

/-- generic in the text and in the pieces of the two methods (which differ only by the literal) -/
theorem rawClose_sim (fuel : Nat) (text : List Char) (hasc : PyIO.isAscii text = true)
    (w : World EBB3_Obj) (hg : Good w) (hr : RebootOk w) (hb : (absSt w.obj).blocked = false)
    (σ : Type) (env : σ) (try1 : Stmt EBB3_Obj σ) (handlers : List (Handler EBB3_Obj σ))
    (htry : try1 = block [
      expr (fun fuel env => eff2 meth_write (getattr (·.port)) (app2 meth_encode (ok (.str text)) (ok (.str ['a', 's', 'c', 'i', 'i'])))),
      expr (fun fuel env => mcall0 (EBB3_disconnect fuel)),
      return_ (fun fuel env => ok (.bool true))])
    (hh : handlers = [{ classes := some rebootClasses, bind := Option.none, body := return_ (fun fuel env => ok (.bool false)) }]) :
    Sim (PyObj.run (tryExcept try1 handlers) fuel env w) (Ebb3.rawCloseBody Ebb3.scriptDev text (absWorld w)) := by
  subst htry hh
  have hp : w.obj.port = .port := not_blocked_port _ hg.obj hb
  have hga : getattr (fun o : EBB3_Obj => o.port) w = (.ok .port, w) := by
    rw [getattr_apply (by simp [hp])]; simp only [hp]
  have hwr : ∀ r, meth_write .port (.bytes text) w = r →
      (fun (fuel : Nat) (env : σ) => eff2 meth_write (getattr (·.port))
        (app2 meth_encode (ok (.str text)) (ok (.str ['a', 's', 'c', 'i', 'i'])))) fuel env w = r := by
    intro r hr
    subst hr
    simp only [app2_ok, ofP_ok, meth_encode, hasc, ↓reduceIte, eff2, PyObj.bind, hga, ok_apply]
  unfold Ebb3.rawCloseBody
  rw [block_cons2, block_cons2, block_one]
  rcases write_sim text w hp hg with ⟨w1, e1, e2, ho1, hg1⟩ | ⟨cl, w1, hcl, e1, e2, ho1, hg1⟩
  · rw [Ebb3.bind_ok e2]
    simp only [↓reduceIte]
    have hd := disconnect_eval fuel w1 hg1.obj
    have : tryExcept (seq (expr (fun (fuel : Nat) (env : σ) => eff2 meth_write (getattr (·.port))
          (app2 meth_encode (ok (.str text)) (ok (.str ['a', 's', 'c', 'i', 'i'])))))
          (seq (expr (fun fuel env => mcall0 (EBB3_disconnect fuel))) (return_ (fun fuel env => ok (.bool true)))))
        [{ classes := some rebootClasses, bind := Option.none, body := return_ (fun fuel env => ok (.bool false)) }] fuel env w
        = .ret (.bool true) { w1 with obj := { w1.obj with port := .none } } := by
      unfold tryExcept
      rw [seq_norm (expr_of (hwr _ e1))]
      rw [seq_norm (env' := env) (w' := { w1 with obj := { w1.obj with port := .none } }) (by
        simp only [expr, mcall0_apply, hd, ofOut_val])]
      simp only [return_, ok_apply]
    unfold PyObj.run
    rw [this, Ebb3.bind_ok (disconnectM_sim w1)]
    exact ⟨rfl, rfl, good_disc w1 hg1⟩
  · rw [Ebb3.bind_ok e2]
    simp only [Bool.false_eq_true, ↓reduceIte]
    have hcatch : PyIO.catches rebootClasses cl = true := by
      obtain ⟨obj, ⟨reads, writes, log, nread⟩, ext⟩ := w
      cases writes with
      | nil => simp [meth_write] at e1
      | cons x ws =>
        cases x with
        | ok => simp [meth_write] at e1
        | raise c =>
          have := hr c ws rfl
          simp only [meth_write] at e1
          injection e1 with h1 _
          injection h1 with h1
          rw [← h1]; exact this
    have : tryExcept (seq (expr (fun (fuel : Nat) (env : σ) => eff2 meth_write (getattr (·.port))
          (app2 meth_encode (ok (.str text)) (ok (.str ['a', 's', 'c', 'i', 'i'])))))
          (seq (expr (fun fuel env => mcall0 (EBB3_disconnect fuel))) (return_ (fun fuel env => ok (.bool true)))))
        [{ classes := some rebootClasses, bind := Option.none, body := return_ (fun fuel env => ok (.bool false)) }] fuel env w
        = .ret (.bool false) w1 := by
      unfold tryExcept
      rw [seq_exc (expr_exc (hwr _ e1))]
      simp only [dispatch, Handler.matches, hcatch, ↓reduceIte, runHandler, return_, ok_apply]
    unfold PyObj.run
    rw [this]
    exact ⟨rfl, rfl, hg1⟩

theorem rawGuard_sim (fuel : Nat) (text : List Char) (w : World EBB3_Obj) (hg : Good w)
    (σ : Type) (env : σ) (rest : Stmt EBB3_Obj σ)
    (hrest : (absSt w.obj).blocked = false →
      Sim (PyObj.run rest fuel env w) (Ebb3.rawCloseBody Ebb3.scriptDev text (absWorld w))) :
    Sim (PyObj.run (seq (ifte (guard2E (σ := σ)) (return_ (fun fuel env => ok (.bool false))) pass) rest) fuel env w)
      (Ebb3.guardM (.bool false) (Ebb3.rawCloseBody Ebb3.scriptDev text) (absWorld w)) := by
  rw [run_guard2 _ _ _ _ _ hg.obj]
  unfold Ebb3.guardM
  show Sim _ (if (absSt w.obj).blocked = true then _ else _)
  by_cases hb : (absSt w.obj).blocked = true
  · simp only [hb, ↓reduceIte]
    exact ⟨rfl, rfl, hg⟩
  · have hb' : (absSt w.obj).blocked = false := by simpa using hb
    simp only [hb', Bool.false_eq_true, ↓reduceIte]
    exact hrest hb'

/-- **`reboot`** -/
theorem reboot_bridge (fuel : Nat) (w : World EBB3_Obj) (hg : Good w)
    (hr : (absSt w.obj).blocked = false → RebootOk w) :
    Sim (EBB3_reboot fuel w) (Ebb3.run Ebb3.srcParams Ebb3.scriptDev .reboot (absWorld w)) := by
  unfold EBB3_reboot EBB3_reboot_main EBB3_reboot_if1
  rw [block_cons2, block_one]
  show Sim _ (Ebb3.guardM (.bool false) (Ebb3.rawCloseBody Ebb3.scriptDev "RB\r".toList) (absWorld w))
  rw [lit_RBcr]
  refine rawGuard_sim fuel _ w hg _ _ _ (fun hb => ?_)
  exact rawClose_sim fuel _ (by decide) w hg (hr hb) hb _ _ _ _ rfl rfl

/-- **`bootload`** -/
theorem bootload_bridge (fuel : Nat) (w : World EBB3_Obj) (hg : Good w)
    (hr : (absSt w.obj).blocked = false → RebootOk w) :
    Sim (EBB3_bootload fuel w) (Ebb3.run Ebb3.srcParams Ebb3.scriptDev .bootload (absWorld w)) := by
  unfold EBB3_bootload EBB3_bootload_main EBB3_bootload_if1
  rw [block_cons2, block_one]
  show Sim _ (Ebb3.guardM (.bool false) (Ebb3.rawCloseBody Ebb3.scriptDev "BL\r".toList) (absWorld w))
  rw [lit_BLcr]
  refine rawGuard_sim fuel _ w hg _ _ _ (fun hb => ?_)
  exact rawClose_sim fuel _ (by decide) w hg (hr hb) hb _ _ _ _ rfl rfl

/-! ## `query_statusbyte` -/

theorem msg_qgUnexpected (r : List Char) : Ebb3.Msg.qgUnexpected r = ['\n', 'U', 'n', 'e', 'x', 'p', 'e', 'c', 't', 'e', 'd', ' ', 'r', 'e', 's', 'p', 'o', 'n', 's', 'e', ' ', 'f', 'r', 'o', 'm', ' ', 'E', 'B', 'B', '.', ' ', ' ', ' ', ' ', 'R', 'e', 's', 'p', 'o', 'n', 's', 'e', ' ', 't', 'o', ' ', 'Q', 'G', ' ', 'q', 'u', 'e', 'r', 'y', ':', ' '] ++ r := by
  unfold Ebb3.Msg.qgUnexpected; rw [lit_qgUnexpectedA]
theorem msg_qgErr (r : List Char) : Ebb3.Msg.qgErr r = ['E', 'r', 'r', 'o', 'r', ' ', 'r', 'e', 'p', 'o', 'r', 't', 'e', 'd', ' ', 'b', 'y', ' ', 'E', 'B', 'B', '.', '\n', ' ', ' ', ' ', ' ', 'Q', 'u', 'e', 'r', 'y', ':', ' ', 'Q', 'G', '\n', ' ', ' ', ' ', ' ', 'R', 'e', 's', 'p', 'o', 'n', 's', 'e', ':', ' '] ++ r := by
  unfold Ebb3.Msg.qgErr; rw [lit_qgErrA]

theorem msg_qgUsb : Ebb3.Msg.qgUsb = ['U', 'S', 'B', ' ', 'c', 'o', 'm', 'm', 'u', 'n', 'i', 'c', 'a', 't', 'i', 'o', 'n', ' ', 'e', 'r', 'r', 'o', 'r', ' ', 'a', 'f', 't', 'e', 'r', ' ', 's', 't', 'a', 't', 'u', 's', ' ', 'b', 'y', 't', 'e', ' ', 'q', 'u', 'e', 'r', 'y'] := by
  unfold Ebb3.Msg.qgUsb; exact lit_qgUsb
theorem msg_qgTimeout : Ebb3.Msg.qgTimeout = ['E', 'B', 'B', ' ', 'S', 'e', 'r', 'i', 'a', 'l', ' ', 'T', 'i', 'm', 'e', 'o', 'u', 't', ' ', 'w', 'h', 'i', 'l', 'e', ' ', 'r', 'e', 'a', 'd', 'i', 'n', 'g', ' ', 's', 't', 'a', 't', 'u', 's', ' ', 'b', 'y', 't', 'e', '.'] := by
  unfold Ebb3.Msg.qgTimeout; exact lit_qgTimeout

/-- `record_error(error_msg); return None` after the message has been assigned -/
theorem recErr_ret {σ : Type} (fuel : Nat) (m : List Char) (env : σ) (w : World EBB3_Obj) (hg : Good w)
    (e : Expr EBB3_Obj σ) (he : e fuel env = ok (.str m)) :
    ∃ w', seq (expr (fun fuel env => mcall1 (EBB3_record_error fuel) (e fuel env))) (return_ (fun fuel env => ok .none)) fuel env w
        = .ret .none w' ∧
      Ebb3.recordError m (absWorld w) = (.ok (), absWorld w') ∧ Good w' := by
  obtain ⟨w', e1, e2, hg', _, _⟩ := record_error_stmt fuel m env w hg e he
  exact ⟨w', by rw [seq_norm e1]; simp only [return_, ok_apply], e2, hg'⟩

/-- the handler of the first `try` of `query_statusbyte` -/
theorem qg_handler (fuel : Nat) (env : EBB3_query_statusbyte_Env) (cl : PyIO.ExcClass) (hcl : IoClass cl)
    (w : World EBB3_Obj) (hg : Good w) :
    ∃ w', dispatch EBB3_query_statusbyte_handlers1 cl fuel env w = .ret .none w' ∧
      (Ebb3.qgUsbFail : Ebb3.M Ebb3.Script Ebb3.Val) (absWorld w) = (.ok .none, absWorld w') ∧ Good w' := by
  obtain ⟨response, em⟩ := env
  unfold EBB3_query_statusbyte_handlers1
  simp only [dispatch, Handler.matches, show PyIO.catches [PyIO.ExcClass.serialException, .osError, .runtimeError, .osError] cl = true from hcl,
    ↓reduceIte, runHandler, block_cons2, block_one]
  rw [seq_norm (env' := ⟨response, .str Ebb3.Msg.qgUsb⟩) (w' := w) (by
    rw [msg_qgUsb]
    simp only [assign, ok_apply])]
  obtain ⟨w', e1, e2, hg'⟩ := recErr_ret fuel Ebb3.Msg.qgUsb (⟨response, .str Ebb3.Msg.qgUsb⟩ : EBB3_query_statusbyte_Env) w hg
    (fun fuel env => load env.error_msg) rfl
  refine ⟨w', e1, ?_, hg'⟩
  unfold Ebb3.qgUsbFail
  rw [Ebb3.bind_ok e2]
  rfl

/-- everything after the read: `if2` (inside the `try`), `if4`, the conversion — against `qgJudge` -/
theorem qg_judge (fuel : Nat) (resp : List Char) (em : Val) (w : World EBB3_Obj) (hg : Good w) :
    Sim (PyObj.run (seq (tryExcept EBB3_query_statusbyte_if2 EBB3_query_statusbyte_handlers1)
        (block [EBB3_query_statusbyte_if4, tryExcept EBB3_query_statusbyte_try2 EBB3_query_statusbyte_handlers2]))
        fuel ⟨.str resp, em⟩ w)
      (Ebb3.qgJudge resp (absWorld w)) := by
  unfold Ebb3.qgJudge
  by_cases hs : Ebb3.startsWith ['Q', 'G'] resp = true
  · -- accepted name
    have hs' : Ebb3.startsWith "QG".toList resp = true := by rw [lit_QG]; exact hs
    simp only [hs', Bool.not_true, Bool.false_eq_true, ↓reduceIte]
    rw [run_seq_norm (env' := ⟨.str resp, em⟩) (w' := w) (by
      unfold EBB3_query_statusbyte_if2
      simp only [tryExcept, ifte, load_str, app2_ok, meth_startswith, ofP_ok, not_ok, ok_apply, truthy_bool, hs, Bool.not_true,
        Bool.false_eq_true, ↓reduceIte, pass])]
    rw [block_cons2, block_one]
    have hin : op_in (.str ['E', 'r', 'r', ':']) (.str resp) = .ok (.bool (Ebb3.hasErr resp)) := by
      simp [op_in, Ebb3.hasErr]
    by_cases he : Ebb3.hasErr resp = true
    · simp only [he, ↓reduceIte]
      obtain ⟨w', e1, e2, hg'⟩ := recErr_ret fuel (Ebb3.Msg.qgErr resp)
        (⟨.str resp, .str (Ebb3.Msg.qgErr resp)⟩ : EBB3_query_statusbyte_Env) w hg (fun fuel env => load env.error_msg) rfl
      have : ∀ rest, PyObj.run (seq EBB3_query_statusbyte_if4 rest) fuel ⟨.str resp, em⟩ w = .val .none w' := by
        intro rest
        unfold PyObj.run
        rw [seq_ret (v := .none) (w' := w') (by
          unfold EBB3_query_statusbyte_if4
          simp only [ifte, load_str, app2_ok, hin, ofP_ok, ok_apply, truthy_bool, he, ↓reduceIte, block_cons2, block_one]
          rw [seq_norm (env' := ⟨.str resp, .str (Ebb3.Msg.qgErr resp)⟩) (w' := w) (by
            simp only [assign, load_str, fstr, evalList_cons_ok, evalList_nil, app2_ok_left, bind_ok, op_add, ofP_ok, flatten_strs2,
              msg_qgErr, ok_apply, List.cons_append, List.nil_append, List.append_assoc])]
          exact e1)]
      rw [this, Ebb3.bind_ok e2]
      exact ⟨rfl, rfl, hg'⟩
    · simp only [he, Bool.false_eq_true, ↓reduceIte]
      rw [run_seq_norm (env' := ⟨.str resp, em⟩) (w' := w) (by
        unfold EBB3_query_statusbyte_if4
        simp only [ifte, load_str, app2_ok, hin, ofP_ok, ok_apply, truthy_bool, he, Bool.false_eq_true, ↓reduceIte, pass])]
      unfold EBB3_query_statusbyte_try2 EBB3_query_statusbyte_handlers2
      have hsl : op_slice (.str resp) (.int 3) .none = .ok (.str (resp.drop 3)) := slice_from resp 3
      cases hpi : Ebb3.pyInt 16 (List.drop 3 resp) with
      | some z =>
        simp only [PyObj.run, tryExcept, return_, load_str, app3_ok, hsl, ofP_ok, app2_ok, b_int_base, show (16 : Int) = 10 ∨ (16 : Int) = 16 from Or.inr rfl,
          ↓reduceIte, show (16 : Int).toNat = 16 from rfl, hpi, ok_apply]
        exact ⟨rfl, rfl, hg⟩
      | none =>
        simp only [PyObj.run, tryExcept, return_, load_str, app3_ok, hsl, ofP_ok, app2_ok, b_int_base, show (16 : Int) = 10 ∨ (16 : Int) = 16 from Or.inr rfl,
          ↓reduceIte, show (16 : Int).toNat = 16 from rfl, hpi, ofP_error, raise_apply, dispatch, Handler.matches, runHandler, ok_apply]
        exact ⟨rfl, rfl, hg⟩
  · have hs' : Ebb3.startsWith "QG".toList resp = false := by rw [lit_QG]; simpa using hs
    have hsf : Ebb3.startsWith ['Q', 'G'] resp = false := by simpa using hs
    simp only [hs', Bool.not_false, ↓reduceIte]
    obtain ⟨w', e1, e2, hg'⟩ := recErr_ret fuel (if resp.isEmpty then Ebb3.Msg.qgTimeout else Ebb3.Msg.qgUnexpected resp)
      (⟨.str resp, .str (if resp.isEmpty then Ebb3.Msg.qgTimeout else Ebb3.Msg.qgUnexpected resp)⟩ : EBB3_query_statusbyte_Env)
      w hg (fun fuel env => load env.error_msg) rfl
    have : ∀ rest, PyObj.run (seq (tryExcept EBB3_query_statusbyte_if2 EBB3_query_statusbyte_handlers1) rest) fuel ⟨.str resp, em⟩ w
        = .val .none w' := by
      intro rest
      unfold PyObj.run
      rw [seq_ret (v := .none) (w' := w') (by
        unfold EBB3_query_statusbyte_if2
        simp only [tryExcept, ifte, load_str, app2_ok, meth_startswith, ofP_ok, not_ok, ok_apply, truthy_bool, hsf, Bool.not_false,
          ↓reduceIte, block_cons2, block_one]
        rw [seq_norm (env' := ⟨.str resp, .str (if resp.isEmpty then Ebb3.Msg.qgTimeout else Ebb3.Msg.qgUnexpected resp)⟩) (w' := w) (by
          unfold EBB3_query_statusbyte_if3
          cases resp with
          | nil =>
            rw [show (if ([] : List Char).isEmpty = true then Ebb3.Msg.qgTimeout else Ebb3.Msg.qgUnexpected []) = Ebb3.Msg.qgTimeout from rfl,
              msg_qgTimeout]
            simp only [ifte, assign, load_str, ok_apply, truthy_str, List.isEmpty_nil, Bool.not_true, Bool.false_eq_true, ↓reduceIte]
          | cons a t =>
            simp only [ifte, assign, load_str, ok_apply, truthy_str, List.isEmpty_cons, Bool.not_false, ↓reduceIte, fstr,
              evalList_cons_ok, evalList_nil, app2_ok_left, bind_ok, op_add, ofP_ok, flatten_strs2, msg_qgUnexpected,
              Bool.false_eq_true, List.cons_append, List.nil_append, List.append_assoc])]
        rw [e1])]
    rw [this]
    have e2' : (if resp.isEmpty = true then Ebb3.recordError Ebb3.Msg.qgTimeout else Ebb3.recordError (Ebb3.Msg.qgUnexpected resp))
        (absWorld w) = (.ok (), absWorld w') := by
      by_cases hr : resp.isEmpty = true
      · simp only [hr, ↓reduceIte] at e2 ⊢; exact e2
      · simp only [hr, Bool.false_eq_true, ↓reduceIte] at e2 ⊢; exact e2
    rw [Ebb3.bind_ok e2']
    exact ⟨rfl, rfl, hg'⟩

/-- **`query_statusbyte`** -/
theorem query_statusbyte_bridge (fuel : Nat) (w : World EBB3_Obj) (hg : Good w) :
    Sim (EBB3_query_statusbyte fuel w) (Ebb3.run Ebb3.srcParams Ebb3.scriptDev .query_statusbyte (absWorld w)) := by
  unfold EBB3_query_statusbyte EBB3_query_statusbyte_main EBB3_query_statusbyte_if1
  rw [block_cons2, run_guard2 _ _ _ _ _ hg.obj]
  show Sim _ (Ebb3.guardM .none (Ebb3.queryStatusByteBody Ebb3.scriptDev) (absWorld w))
  unfold Ebb3.guardM
  show Sim _ (if (absSt w.obj).blocked = true then _ else _)
  by_cases hb : (absSt w.obj).blocked = true
  · simp only [hb, ↓reduceIte]
    exact ⟨rfl, rfl, hg⟩
  · have hb' : (absSt w.obj).blocked = false := by simpa using hb
    simp only [hb', Bool.false_eq_true, ↓reduceIte]
    have hp : w.obj.port = .port := not_blocked_port _ hg.obj hb'
    rw [block_cons2, run_seq_assign_ok (v := .str []) (by rfl), block_cons2]
    unfold Ebb3.queryStatusByteBody
    rw [lit_QGcr]
    have hga : getattr (fun o : EBB3_Obj => o.port) w = (.ok .port, w) := by
      rw [getattr_apply (by simp [hp])]; simp only [hp]
    have hwr : ∀ r, meth_write .port (.bytes ['Q', 'G', '\r']) w = r →
        (fun (fuel : Nat) (env : EBB3_query_statusbyte_Env) => eff2 meth_write (getattr (·.port))
          (app2 meth_encode (ok (.str ['Q', 'G', '\r'])) (ok (.str ['a', 's', 'c', 'i', 'i'])))) fuel ⟨.str [], .unbound⟩ w = r := by
      intro r hr
      subst hr
      have hasc : PyIO.isAscii ['Q', 'G', '\r'] = true := by decide
      simp only [app2_ok, ofP_ok, meth_encode, hasc, ↓reduceIte, eff2, PyObj.bind, hga, ok_apply]
    rcases write_sim ['Q', 'G', '\r'] w hp hg with ⟨w1, e1, e2, ho1, hg1⟩ | ⟨cl, w1, hcl, e1, e2, ho1, hg1⟩
    · rw [Ebb3.bind_ok e2]
      simp only [↓reduceIte]
      have hp1 : w1.obj.port = .port := by rw [ho1, hp]
      rcases read_sim w1 hp1 hg1 with ⟨cl, w2, hcl, e3, e4, ho2, hg2, _⟩ | ⟨l, w2, e3, e4, ho2, hg2, _⟩
      · -- the read raises
        rw [Ebb3.bind_ok e4]
        obtain ⟨w3, e5, e6, hg3⟩ := qg_handler fuel ⟨.str [], .unbound⟩ cl hcl w2 hg2
        have : ∀ rest, PyObj.run (seq (tryExcept EBB3_query_statusbyte_try1 EBB3_query_statusbyte_handlers1) rest) fuel
            ⟨.str [], .unbound⟩ w = .val .none w3 := by
          intro rest
          unfold PyObj.run
          rw [seq_ret (v := .none) (w' := w3) (by
            unfold EBB3_query_statusbyte_try1 tryExcept
            rw [block_cons2, block_cons2, block_one, seq_norm (expr_of (hwr _ e1)),
              seq_exc (assign_exc (e := fun (fuel : Nat) (env : EBB3_query_statusbyte_Env) => app1 meth_strip (app2 meth_decode (eff1 meth_readline (getattr (fun o : EBB3_Obj => o.port))) (ok (.str ['a', 's', 'c', 'i', 'i'])))) e3)]
            exact e5)]
        rw [this]
        simp only
        rw [e6]
        exact ⟨rfl, rfl, hg3⟩
      · rw [Ebb3.bind_ok e4]
        simp only
        -- the try body continues with `if2` on the reply: move the two I/O statements out of the try
        have hj := qg_judge fuel (Ebb3.strip l) .unbound w2 hg2
        have hsplit : ∀ rest, PyObj.run (seq (tryExcept EBB3_query_statusbyte_try1 EBB3_query_statusbyte_handlers1) rest) fuel
            ⟨.str [], .unbound⟩ w
            = PyObj.run (seq (tryExcept EBB3_query_statusbyte_if2 EBB3_query_statusbyte_handlers1) rest) fuel
              ⟨.str (Ebb3.strip l), .unbound⟩ w2 := by
          intro rest
          unfold PyObj.run seq
          congr 1
          unfold EBB3_query_statusbyte_try1 tryExcept
          rw [block_cons2, block_cons2, block_one, seq_norm (expr_of (hwr _ e1)),
            seq_norm (assign_of (e := fun (fuel : Nat) (env : EBB3_query_statusbyte_Env) => app1 meth_strip (app2 meth_decode (eff1 meth_readline (getattr (fun o : EBB3_Obj => o.port))) (ok (.str ['a', 's', 'c', 'i', 'i'])))) e3)]
        rw [hsplit]
        exact hj
    · rw [Ebb3.bind_ok e2]
      simp only [Bool.false_eq_true, ↓reduceIte]
      obtain ⟨w3, e5, e6, hg3⟩ := qg_handler fuel ⟨.str [], .unbound⟩ cl hcl w1 hg1
      have : ∀ rest, PyObj.run (seq (tryExcept EBB3_query_statusbyte_try1 EBB3_query_statusbyte_handlers1) rest) fuel
          ⟨.str [], .unbound⟩ w = .val .none w3 := by
        intro rest
        unfold PyObj.run
        rw [seq_ret (v := .none) (w' := w3) (by
          unfold EBB3_query_statusbyte_try1 tryExcept
          rw [block_cons2, block_cons2, block_one, seq_exc (expr_exc (hwr _ e1))]
          exact e5)]
      rw [this, e6]
      exact ⟨rfl, rfl, hg3⟩

end Ebb3Gen
end Plotink
