import Plotink.Proofs.C16Basic
/-! C16 helper lemmas, part 2: the link (`command`, `query`) and request parsing of the formatted commands. -/
namespace Plotink.C16

theorem boardRecv_line (b : Board) (cmd : Str) :
    boardRecv b (cmd ++ ['\r']) =
      ((boardStep b (parseReq cmd)).1, renderReply (boardStep b (parseReq cmd)).2) := by
  unfold boardRecv
  simp

theorem exchange_eq (b : Board) (cmd : Str) :
    exchange b cmd = ((boardStep b (parseReq cmd)).1, strip (renderReply (boardStep b (parseReq cmd)).2)) := by
  unfold exchange
  rw [boardRecv_line]

theorem command_ack {w : World} {cmd name : Str} {b' : Board}
    (hc : w.py.connected = true) (he : w.py.err = false)
    (hs : strip cmd = cmd) (hn : cmdName cmd = .ok name)
    (hb : boardStep w.board (parseReq cmd) = (b', .ack name))
    (hname : strip (name ++ ['\n']) = name) (herr : isInfix sErr name = false) :
    command w cmd = .ok (true, ⟨w.py, b', cmd :: w.sent⟩) := by
  have hsw : startsWith name name = true := by
    have := startsWith_self_append name []; simpa using this
  unfold command
  simp [hc, he, hs, hn, exchange_eq, hb, renderReply, hname, herr, hsw, bind, Except.bind]

theorem query_data {w : World} {qry name payload : Str} {b' : Board}
    (hc : w.py.connected = true) (he : w.py.err = false)
    (hs : strip qry = qry) (hn : cmdName qry = .ok name)
    (hb : boardStep w.board (parseReq qry) = (b', .data name payload))
    (hresp : strip (name ++ ',' :: (payload ++ ['\n'])) = name ++ ',' :: payload)
    (herr : isInfix sErr (name ++ ',' :: payload) = false) :
    query w qry = .ok (some payload, ⟨w.py, b', qry :: w.sent⟩) := by
  have hsw : startsWith (name ++ ',' :: payload) name = true := startsWith_self_append _ _
  unfold query
  simp [hc, he, hs, hn, exchange_eq, hb, renderReply, hresp, herr, hsw, bind, Except.bind]


theorem parseReq_SL (v i : Nat) : parseReq (cSL ++ ',' :: (showNat v ++ ',' :: showNat i)) = .sl v i := by
  unfold parseReq
  have h1 : startsWith (cSL ++ ',' :: (showNat v ++ ',' :: showNat i)) (cST ++ [',']) = false := by
    simp [startsWith, cSL, cST]
  rw [h1]
  have h2 : splitOn ',' (cSL ++ ',' :: (showNat v ++ ',' :: showNat i)) = [cSL, showNat v, showNat i] := by
    rw [splitOn_append_sep _ (by decide), splitOn_append_sep _ (comma_not_mem_showNat v),
      splitOn_noSep (comma_not_mem_showNat i)]
  rw [h2]
  simp [parseInt?_showNat]

theorem parseReq_QL (i : Nat) : parseReq (cQL ++ ',' :: showNat i) = .ql i := by
  unfold parseReq
  have h1 : startsWith (cQL ++ ',' :: showNat i) (cST ++ [',']) = false := by
    simp [startsWith, cQL, cST]
  rw [h1]
  have h2 : splitOn ',' (cQL ++ ',' :: showNat i) = [cQL, showNat i] := by
    rw [splitOn_append_sep _ (by decide), splitOn_noSep (comma_not_mem_showNat i)]
  rw [h2]
  simp [parseInt?_showNat, cQL, cSL]

theorem parseReq_EM (a b : Nat) : parseReq (cEM ++ ',' :: (showNat a ++ ',' :: showNat b)) = .em a (some b) := by
  unfold parseReq
  have h1 : startsWith (cEM ++ ',' :: (showNat a ++ ',' :: showNat b)) (cST ++ [',']) = false := by
    simp [startsWith, cEM, cST]
  rw [h1]
  have h2 : splitOn ',' (cEM ++ ',' :: (showNat a ++ ',' :: showNat b)) = [cEM, showNat a, showNat b] := by
    rw [splitOn_append_sep _ (by decide), splitOn_append_sep _ (comma_not_mem_showNat a),
      splitOn_noSep (comma_not_mem_showNat b)]
  rw [h2]
  simp [parseInt?_showNat, cEM, cSL, cQL, cST, cQT]

theorem parseReq_ST (n : Str) : parseReq (cST ++ ',' :: n) = .st n := by
  unfold parseReq
  have h1 : startsWith (cST ++ ',' :: n) (cST ++ [',']) = true := by
    simp [startsWith, cST]
  rw [h1]
  simp [cST]

theorem parseReq_QT : parseReq cQT = .qt := by decide
theorem parseReq_QE : parseReq cQE = .qe := by decide
theorem parseReq_CU50 : parseReq cmdCU50 = .cu 50 0 := by decide

end Plotink.C16
